/-
C01 (slice d01b), the infinite ends of number ranges.  An unknown number refined
WITHOUT a bound on one side admits the infinity of that side: `ValueRange.Includes`
does not answer False for it, `Equals` against it is "unknown", and `Covers` (the
specification) agrees.  (The seeded change C01-unbounded-number-range-end-reported-exclusive
reported the absent end as an exclusive bound and answered False.)
-/
import CtyModel.Lemmas.OpsIncludes
namespace CtyModel
open Value Cov

namespace D01b

/-- what the other end may be for the statement to hold: absent, or a bound that the
infinity in question does not reach (every finite bound, and the opposite infinity) -/
def otherEndAbove (hi : Option Bound) : Bool :=
  match hi with
  | none => true
  | some b => decide (Num.cmp (.inf true) b.v < 0)
def otherEndBelow (lo : Option Bound) : Bool :=
  match lo with
  | none => true
  | some b => decide (Num.cmp (.inf false) b.v > 0)

theorem includes_no_lower_bound (nl : Tri) (hi : Option Bound) (hnl : nl ≠ .t) (hhi : otherEndAbove hi = true) :
    includes ⟨.number, .num nl none hi⟩ ⟨.number, .n (.inf true)⟩ = .ok none := by
  have hc : Ty.conformErrs .number .number = 0 := by decide
  have hn : (⟨.number, .n (.inf true)⟩ : Value).isNull = false := rfl
  unfold includes
  simp only [Rfn.nullness, hn, hc, Ty.isDyn, Bool.and_false, Bool.false_eq_true, if_false, bne_self_eq_false]
  have h1 : (nl == Tri.t) = false := by cases nl <;> first | rfl | exact absurd rfl hnl
  simp only [h1, Bool.false_eq_true, if_false, Option.getD_none, if_true, numGE_negInf, Bool.not_true, Bool.false_or]
  cases hi with
  | none => simp [numLE_posInf]
  | some b =>
    simp only [otherEndAbove, decide_eq_true_eq] at hhi
    simp only [Option.getD_some]
    by_cases hb : b.incl = true
    · simp [hb, numLE, hhi]
    · simp [hb, hhi]

theorem includes_no_upper_bound (nl : Tri) (lo : Option Bound) (hnl : nl ≠ .t) (hlo : otherEndBelow lo = true) :
    includes ⟨.number, .num nl lo none⟩ ⟨.number, .n (.inf false)⟩ = .ok none := by
  have hc : Ty.conformErrs .number .number = 0 := by decide
  have hn : (⟨.number, .n (.inf false)⟩ : Value).isNull = false := rfl
  unfold includes
  simp only [Rfn.nullness, hn, hc, Ty.isDyn, Bool.and_false, Bool.false_eq_true, if_false, bne_self_eq_false]
  have h1 : (nl == Tri.t) = false := by cases nl <;> first | rfl | exact absurd rfl hnl
  simp only [h1, Bool.false_eq_true, if_false, Option.getD_none, if_true, numLE_posInf, Bool.not_true, Bool.or_false]
  cases lo with
  | none => simp [numGE_negInf]
  | some b =>
    simp only [otherEndBelow, decide_eq_true_eq] at hlo
    simp only [Option.getD_some]
    by_cases hb : b.incl = true
    · simp [hb, numGE, hlo]
    · simp [hb, hlo]

/-- `Equals` of an unknown number with a known one when `Includes` does not say False -/
theorem equals_unknown_number_of_includes (r : Rfn) (x : Num) (hr : r ≠ .unref)
    (hi : includes ⟨.number, r⟩ ⟨.number, .n x⟩ = .ok none) :
    Value.equals ⟨.number, .unk r⟩ ⟨.number, .n x⟩ = .ok unkBool ∧
    Value.equals ⟨.number, .n x⟩ ⟨.number, .unk r⟩ = .ok unkBool := by
  have hrange : (⟨.number, .unk r⟩ : Value).range = .ok ⟨.number, r⟩ := by
    cases r <;> first | (exfalso; exact hr rfl) | rfl
  have hte : Ty.equals .number .number = true := by decide
  constructor
  · show equalsP .number (.unk r) .number (.n x) = .ok unkBool
    unfold equalsP equalsFuel
    rw [equalsPre_eq]
    simp [equalsPre', Value.isNull, Payload.isNull, Payload.unmark1, Value.isKnown, Payload.isKnown, definitelyNotNull,
      hrange, hi, incFalse, Ty.hasDyn, hte]
  · show equalsP .number (.n x) .number (.unk r) = .ok unkBool
    unfold equalsP equalsFuel
    rw [equalsPre_eq]
    simp [equalsPre', Value.isNull, Payload.isNull, Payload.unmark1, Value.isKnown, Payload.isKnown, definitelyNotNull,
      hrange, hi, incFalse, Ty.hasDyn, hte]

/-- the specification agrees: the refinement admits the infinity -/
theorem covers_no_lower_bound (nl : Tri) (hi : Option Bound) (hnl : nl ≠ .t) (hhi : otherEndAbove hi = true) :
    Covers ⟨.number, .unk (.num nl none hi)⟩ ⟨.number, .n (.inf true)⟩ = true := by
  have h1 : (nl != Tri.t) = true := by cases nl <;> first | rfl | exact absurd rfl hnl
  have h0 : Num.cmp (.inf true) (.inf true) = 0 := by decide
  cases hi with
  | none =>
    simp [Covers, CoversG, Ty.matches, Payload.stripMarks, coversP, admits, Rfn.nullness, h1, rfnAdmitsKnown, loInside,
      hiInside, pt, negInfB, posInfB, h0]
    decide
  | some b =>
    simp only [otherEndAbove, decide_eq_true_eq] at hhi
    simp [Covers, CoversG, Ty.matches, Payload.stripMarks, coversP, admits, Rfn.nullness, h1, rfnAdmitsKnown, loInside,
      hiInside, pt, negInfB, h0]
    split <;> exact decide_eq_true (by omega)

theorem covers_no_upper_bound (nl : Tri) (lo : Option Bound) (hnl : nl ≠ .t) (hlo : otherEndBelow lo = true) :
    Covers ⟨.number, .unk (.num nl lo none)⟩ ⟨.number, .n (.inf false)⟩ = true := by
  have h1 : (nl != Tri.t) = true := by cases nl <;> first | rfl | exact absurd rfl hnl
  have h0 : Num.cmp (.inf false) (.inf false) = 0 := by decide
  cases lo with
  | none =>
    simp [Covers, CoversG, Ty.matches, Payload.stripMarks, coversP, admits, Rfn.nullness, h1, rfnAdmitsKnown, loInside,
      hiInside, pt, negInfB, posInfB, h0]
    decide
  | some b =>
    simp only [otherEndBelow, decide_eq_true_eq] at hlo
    simp [Covers, CoversG, Ty.matches, Payload.stripMarks, coversP, admits, Rfn.nullness, h1, rfnAdmitsKnown, loInside,
      hiInside, pt, posInfB, h0]
    have hsw := NumCmp.cmp_swap b.v (.inf false)
    split <;> exact decide_eq_true (by omega)

end D01b
end CtyModel
