/-
C17 (JSON half) — the JSON value decoder `JsonVal.unmarshal` on EVERY token tree and EVERY
well-formed requested type, by mutual structural induction on the tree:

  `unmarshal_sat : Ty.wf t → Sat (P env t) (unmarshal env j t)`

i.e. it never panics, and a value it returns has a well-formed type that conforms to `t`, a
payload of the shape that type dictates, wholly known and unmarked (`Good`) — and, relative to
`Laws env`, normalised strings/keys/names and lawful sets (`Fine`).
-/
import CtyModel.Lemmas.C17JsonSet
namespace CtyModel
namespace C17Json
open Ty JsonVal

section
variable (env : JEnv)

/-! ### primitives -/

theorem parse512_np (s : String) : ∀ w, Num.parse512 s ≠ .panic w := by
  intro w
  unfold Num.parse512
  repeat' split
  all_goals (try simp only [])
  all_goals (repeat' split)
  all_goals simp

theorem prim_good (t : Ty) (p : Payload) (hs : p.shaped t = true) (hk : p.whollyKnown = true) (hc : p.containsMarked = false)
    (hw : Ty.wf t = true) (hn : Ty.namesAll (nfcE env) t = true) (hp : Laws env → Payload.wfP (nfcE env) t p = true) :
    P env t ⟨t, p⟩ :=
  ⟨⟨hw, matches_refl t, ⟨hs, hk, hc⟩⟩, fun hl _ => ⟨hn, hp hl⟩⟩

theorem unmarshalPrim_sat (j : Json) (t : Ty) (ht : t = .bool ∨ t = .number ∨ t = .string) :
    Sat (P env t) (unmarshalPrim env j t) := by
  have nfcNorm : ∀ s, Laws env → nfcE env (env.norm s) = true := by
    intro s hl; simp [nfcE, nfcOf, hl.norm_idem]
  rcases ht with rfl | rfl | rfl
  · unfold unmarshalPrim
    cases j <;> simp only []
    all_goals first
      | exact Sat.err
      | exact Sat.ok (prim_good env _ _ rfl rfl rfl rfl rfl (fun _ => rfl))
      | (split
         · exact Sat.ok (prim_good env _ _ rfl rfl rfl rfl rfl (fun _ => rfl))
         · split
           · exact Sat.ok (prim_good env _ _ rfl rfl rfl rfl rfl (fun _ => rfl))
           · exact Sat.err)
  · unfold unmarshalPrim
    cases j <;> simp only []
    all_goals first
      | exact Sat.err
      | (rename_i l
         have := parse512_np l
         cases hp : Num.parse512 l with
         | ok n => exact Sat.ok (prim_good env _ _ rfl rfl rfl rfl rfl (fun _ => rfl))
         | err c => exact Sat.err
         | panic w => exact absurd hp (this w)
         | unmodelled => exact Sat.unm)
  · unfold unmarshalPrim
    cases j <;> simp only []
    all_goals first
      | exact Sat.err
      | exact Sat.ok (prim_good env _ _ rfl rfl rfl rfl rfl (fun hl => by simpa [Payload.wfP] using nfcNorm _ hl))
      | (rename_i b
         cases b
         · exact Sat.ok (prim_good env _ _ rfl rfl rfl rfl rfl (fun hl => by simp [Payload.wfP, nfcE, nfcOf, hl.norm_false]))
         · exact Sat.ok (prim_good env _ _ rfl rfl rfl rfl rfl (fun hl => by simp [Payload.wfP, nfcE, nfcOf, hl.norm_true])))

/-! ### the dynamic wrapper: first pass -/

theorem dynScan_sat : ∀ (ks : List String) (js : List Json) (acc : Option Ty) (hv : Bool),
    (∀ t, acc = some t → TyGood env.norm t) →
    Sat (fun r : Option Ty × Bool => ∀ t, r.1 = some t → TyGood env.norm t) (dynScan env ks js acc hv)
  | [], _, acc, hv, h => by simp only [dynScan]; exact Sat.ok h
  | _ :: _, [], acc, hv, h => by simp only [dynScan]; exact Sat.ok h
  | k :: ks, j :: js, acc, hv, h => by
    simp only [dynScan]
    split
    · have := ofJson_sat env.norm j
      cases hr : Ty.ofJson env.norm j with
      | ok t' =>
        rw [hr] at this
        simp only []
        exact dynScan_sat ks js (some t') hv (fun t ht => by cases ht; exact this)
      | err c => exact Sat.err
      | panic w => rw [hr] at this; exact absurd this id
      | unmodelled => exact Sat.unm
    · split
      · exact dynScan_sat ks js acc true h
      · exact Sat.err

theorem errOf_sat {α β} {Q : β → Prop} {r : Res α} (h : ∀ w, r ≠ .panic w) : Sat Q (errOf r : Res β) := by
  cases r with
  | panic w => exact absurd rfl (h w)
  | _ => simp [errOf, Sat]

theorem P_dyn {t : Ty} {v : Value} (h : P env t v) (hn : Laws env → Ty.namesAll (nfcE env) t = true) : P env .dyn v :=
  ⟨⟨h.1.wfTy, by simp [Ty.matches], h.1.dec⟩, fun hl _ => h.2 hl (hn hl)⟩

theorem wf_find {k : String} {ns : List String} {ts : List Ty} {os : List Bool} {a : Ty} {o : Bool}
    (hw : Ty.wfL ts = true) (h : Ty.find k ns ts os = some (a, o)) : Ty.wf a = true :=
  wfL_mem' hw a (find_mem h)

/-! ### the decoder -/

mutual
theorem unmarshal_sat : ∀ (j : Json) (t : Ty), Ty.wf t = true → Sat (P env t) (unmarshal env j t)
  | .null, t, hw => by
    have : unmarshal env .null t = .ok ⟨t, .null⟩ := by cases t <;> simp [unmarshal]
    rw [this]
    exact Sat.ok (p_null env hw)
  | .bool b, t, _ => by
    cases t <;> first
      | (simp only [unmarshal]; exact Sat.err)
      | (simp only [unmarshal]; exact Sat.unm)
      | (simp only [unmarshal]; exact unmarshalPrim_sat env _ _ (by simp))
  | .num l, t, _ => by
    cases t <;> first
      | (simp only [unmarshal]; exact Sat.err)
      | (simp only [unmarshal]; exact Sat.unm)
      | (simp only [unmarshal]; exact unmarshalPrim_sat env _ _ (by simp))
  | .str s, t, _ => by
    cases t <;> first
      | (simp only [unmarshal]; exact Sat.err)
      | (simp only [unmarshal]; exact Sat.unm)
      | (simp only [unmarshal]; exact unmarshalPrim_sat env _ _ (by simp))
  | .arr xs, t, hw => by
    cases t with
    | list e =>
      have hwe : Ty.wf e = true := by simpa [Ty.wf] using hw
      simp only [unmarshal]
      have h := unmarshalAll_sat xs e hwe
      cases hr : unmarshalAll env xs e with
      | ok vals => rw [hr] at h; exact listVal_sat env hwe h
      | err c => simp only [errOf]; exact Sat.err
      | panic w => rw [hr] at h; exact absurd h id
      | unmodelled => simp only [errOf]; exact Sat.unm
    | set e =>
      have hwe : Ty.wf e = true := by simpa [Ty.wf] using hw
      simp only [unmarshal]
      have h := unmarshalAll_sat xs e hwe
      cases hr : unmarshalAll env xs e with
      | ok vals => rw [hr] at h; exact setVal_sat env hwe h
      | err c => simp only [errOf]; exact Sat.err
      | panic w => rw [hr] at h; exact absurd h id
      | unmodelled => simp only [errOf]; exact Sat.unm
    | tuple es =>
      have hwe : Ty.wfL es = true := by simpa [Ty.wf] using hw
      simp only [unmarshal]
      have h := unmarshalZip_sat xs es hwe
      cases hr : unmarshalZip env xs es with
      | ok vals =>
        rw [hr] at h
        simp only []
        split
        · exact Sat.err
        · rename_i hl
          exact Sat.ok (tupleVal_sat env h (by simpa using hl))
      | err c => simp only [errOf]; exact Sat.err
      | panic w => rw [hr] at h; exact absurd h id
      | unmodelled => simp only [errOf]; exact Sat.unm
    | bool => simp only [unmarshal]; exact unmarshalPrim_sat env _ _ (by simp)
    | number => simp only [unmarshal]; exact unmarshalPrim_sat env _ _ (by simp)
    | string => simp only [unmarshal]; exact unmarshalPrim_sat env _ _ (by simp)
    | capsule _ => simp only [unmarshal]; exact Sat.unm
    | _ => simp only [unmarshal]; exact Sat.err
  | .obj ks vs, t, hw => by
    cases t with
    | dyn =>
      simp only [unmarshal]
      have hs := dynScan_sat env ks vs none false (fun t ht => by cases ht)
      cases hr : dynScan env ks vs none false with
      | ok p =>
        rw [hr] at hs
        obtain ⟨ot, hv⟩ := p
        cases ot with
        | none => exact Sat.err
        | some t' =>
          cases hv with
          | false => exact Sat.err
          | true =>
            simp only []
            have hg : TyGood env.norm t' := hs t' rfl
            have hd := dynValue_sat ks vs t' hg.1
            cases hdv : dynValue env ks vs t' with
            | none => exact Sat.err
            | some r =>
              simp only []
              exact (hd r hdv).mono (fun v hv => P_dyn env hv (fun hl => namesAll_strip _ _ (hg.2 hl.norm_idem)))
      | err c => simp only [errOf]; exact Sat.err
      | panic w => rw [hr] at hs; exact absurd hs id
      | unmodelled => simp only [errOf]; exact Sat.unm
    | map e =>
      have hwe : Ty.wf e = true := by simpa [Ty.wf] using hw
      simp only [unmarshal]
      have h := unmarshalAll_sat vs e hwe
      cases hr : unmarshalAll env vs e with
      | ok vals => rw [hr] at h; exact mapVal_sat env hwe h
      | err c => simp only [errOf]; exact Sat.err
      | panic w => rw [hr] at h; exact absurd h id
      | unmodelled => simp only [errOf]; exact Sat.unm
    | object ns ts os =>
      have hwl : Ty.wfL ts = true := by
        simp only [Ty.wf, Bool.and_eq_true] at hw; exact hw.2
      simp only [unmarshal]
      have h := unmarshalAttrs_sat ks vs ns ts os hwl
      cases hr : unmarshalAttrs env ks vs ns ts os with
      | ok vals => rw [hr] at h; exact Sat.ok (objectVal_sat env hw h)
      | err c => simp only [errOf]; exact Sat.err
      | panic w => rw [hr] at h; exact absurd h id
      | unmodelled => simp only [errOf]; exact Sat.unm
    | bool => simp only [unmarshal]; exact unmarshalPrim_sat env _ _ (by simp)
    | number => simp only [unmarshal]; exact unmarshalPrim_sat env _ _ (by simp)
    | string => simp only [unmarshal]; exact unmarshalPrim_sat env _ _ (by simp)
    | capsule _ => simp only [unmarshal]; exact Sat.unm
    | _ => simp only [unmarshal]; exact Sat.err
theorem unmarshalAll_sat : ∀ (js : List Json) (e : Ty), Ty.wf e = true →
    Sat (fun vals : List Value => ∀ v ∈ vals, P env e v) (unmarshalAll env js e)
  | [], _, _ => by simp only [unmarshalAll]; exact Sat.ok (by intro v hv; simp at hv)
  | j :: js, e, hw => by
    simp only [unmarshalAll]
    have h1 := unmarshal_sat j e hw
    have h2 := unmarshalAll_sat js e hw
    cases hr : unmarshal env j e with
    | ok v =>
      rw [hr] at h1
      simp only []
      cases hrs : unmarshalAll env js e with
      | ok vs =>
        rw [hrs] at h2
        refine Sat.ok ?_
        intro x hx
        rcases List.mem_cons.mp hx with rfl | hx
        · exact h1
        · exact h2 x hx
      | err c => exact Sat.err
      | panic w => rw [hrs] at h2; exact absurd h2 id
      | unmodelled => exact Sat.unm
    | err c => simp only [errOf]; exact Sat.err
    | panic w => rw [hr] at h1; exact absurd h1 id
    | unmodelled => simp only [errOf]; exact Sat.unm
theorem unmarshalZip_sat : ∀ (js : List Json) (es : List Ty), Ty.wfL es = true →
    Sat (fun vals : List Value => ZipP env es vals) (unmarshalZip env js es)
  | [], _, _ => by simp only [unmarshalZip]; exact Sat.ok (by simp [ZipP])
  | _ :: _, [], _ => by simp only [unmarshalZip]; exact Sat.err
  | j :: js, e :: es, hw => by
    simp only [Ty.wfL, Bool.and_eq_true] at hw
    simp only [unmarshalZip]
    have h1 := unmarshal_sat j e hw.1
    have h2 := unmarshalZip_sat js es hw.2
    cases hr : unmarshal env j e with
    | ok v =>
      rw [hr] at h1
      simp only []
      cases hrs : unmarshalZip env js es with
      | ok vs => rw [hrs] at h2; exact Sat.ok ⟨h1, h2⟩
      | err c => exact Sat.err
      | panic w => rw [hrs] at h2; exact absurd h2 id
      | unmodelled => exact Sat.unm
    | err c => simp only [errOf]; exact Sat.err
    | panic w => rw [hr] at h1; exact absurd h1 id
    | unmodelled => simp only [errOf]; exact Sat.unm
theorem unmarshalAttrs_sat : ∀ (ks : List String) (js : List Json) (ns : List String) (ts : List Ty) (os : List Bool),
    Ty.wfL ts = true →
    Sat (fun vals : List Value => ∀ n v, lookupLast n (ks.map env.norm) vals = some v →
        ∃ aty o, Ty.find n ns ts os = some (aty, o) ∧ P env aty v)
      (unmarshalAttrs env ks js ns ts os)
  | [], _, _, _, _, _ => by
    simp only [unmarshalAttrs]; exact Sat.ok (by intro n v h; simp [lookupLast] at h)
  | _ :: _, [], _, _, _, _ => by
    simp only [unmarshalAttrs]; exact Sat.ok (by intro n v h; simp [lookupLast] at h)
  | k :: ks, j :: js, ns, ts, os, hw => by
    simp only [unmarshalAttrs]
    cases hf : Ty.find (env.norm k) ns ts os with
    | none => exact Sat.err
    | some p =>
      obtain ⟨aty, o⟩ := p
      simp only []
      have h1 := unmarshal_sat j aty (wf_find hw hf)
      have h2 := unmarshalAttrs_sat ks js ns ts os hw
      cases hr : unmarshal env j aty with
      | ok v =>
        rw [hr] at h1
        simp only []
        cases hrs : unmarshalAttrs env ks js ns ts os with
        | ok vs =>
          rw [hrs] at h2
          refine Sat.ok ?_
          intro n x hx
          simp only [List.map_cons, lookupLast] at hx
          split at hx
          · rename_i r hlr
            cases hx
            exact h2 n _ hlr
          · split at hx
            · rename_i hkn
              cases hx
              exact ⟨aty, o, by rw [← hkn]; exact hf, h1⟩
            · cases hx
        | err c => exact Sat.err
        | panic w => rw [hrs] at h2; exact absurd h2 id
        | unmodelled => exact Sat.unm
      | err c => simp only [errOf]; exact Sat.err
      | panic w => rw [hr] at h1; exact absurd h1 id
      | unmodelled => simp only [errOf]; exact Sat.unm
theorem dynValue_sat : ∀ (ks : List String) (js : List Json) (t : Ty), Ty.wf t = true →
    ∀ r, dynValue env ks js t = some r → Sat (P env t.stripOpt) r
  | [], _, _, _, r, h => by simp [dynValue] at h
  | _ :: _, [], _, _, r, h => by simp [dynValue] at h
  | k :: ks, j :: js, t, hw, r, h => by
    simp only [dynValue] at h
    split at h
    · rename_i r' hr'
      cases h
      exact dynValue_sat ks js t hw _ hr'
    · split at h
      · cases h
        exact unmarshal_sat j t.stripOpt (wf_strip t hw)
      · cases h
end

/-- the public `Unmarshal`: the optional-attribute annotations of the requested type are dropped
first; the result conforms to the requested type as written -/
theorem unmarshalTop_sat (j : Json) (t : Ty) (hw : Ty.wf t = true) :
    Sat (fun v => P env t.stripOpt v ∧ Ty.matches t v.ty = true ∧ hasOpt v.ty = false) (unmarshalTop env j t) := by
  have h := unmarshal_sat env j t.stripOpt (wf_strip t hw)
  refine Sat.intro h.not_panic (fun v hv => ?_)
  have hp := h.of_ok hv
  exact ⟨hp, by rw [← matches_strip]; exact hp.1.conf, unmarshalTop_noOpt env j t v hv⟩

end

end C17Json
end CtyModel
