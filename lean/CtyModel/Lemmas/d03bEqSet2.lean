/-
d03b — `Less` respects `RawEquals` on integer-numbered members, and the
transliteration keeps "wholly known".
-/
import CtyModel.Lemmas.d03bEqSet
namespace CtyModel
namespace D03b
open Value SetImpl

theorem whollyKnownL_iff : ∀ {vs : List Payload}, Payload.whollyKnownL vs = true ↔ ∀ v ∈ vs, v.whollyKnown = true
  | [] => by simp [Payload.whollyKnownL]
  | v :: vs => by simp [Payload.whollyKnownL, whollyKnownL_iff (vs := vs)]

mutual
theorem canon_wk : ∀ (t : Ty) (p : Payload), p.whollyKnown = true → (canon t p).whollyKnown = true
  | t, .marked m r, h => by
    simp only [Payload.whollyKnown] at h
    simp only [canon, Payload.whollyKnown]; exact canon_wk t r h
  | t, .null, _ => by rw [canon_null]; rfl
  | t, .unk r, h => by simp [Payload.whollyKnown] at h
  | t, .b _, h => by cases t <;> exact h
  | t, .n _, h => by cases t <;> exact h
  | t, .s _, h => by cases t <;> exact h
  | t, .caps, h => by cases t <;> exact h
  | t, .bad _, h => by cases t <;> exact h
  | t, .seq xs, h => by
    simp only [Payload.whollyKnown] at h
    cases t <;> try exact h
    case list e =>
      simp only [canon, Payload.whollyKnown, whollyKnownL_iff]
      exact canonAll_wk e xs (whollyKnownL_iff.mp h)
    case tuple ts =>
      simp only [canon, Payload.whollyKnown, whollyKnownL_iff]
      exact canonZip_wk ts xs (whollyKnownL_iff.mp h)
  | t, .smap ks xs, h => by
    simp only [Payload.whollyKnown] at h
    cases t <;> try exact h
    case map e =>
      simp only [canon, Payload.whollyKnown, whollyKnownL_iff]
      exact canonAll_wk e xs (whollyKnownL_iff.mp h)
    case object ns ts os =>
      simp only [canon, Payload.whollyKnown, whollyKnownL_iff]
      exact canonZip_wk ts xs (whollyKnownL_iff.mp h)
  | t, .sset ids xs, h => by
    simp only [Payload.whollyKnown] at h
    cases t <;> try exact h
    case set e =>
      simp only [canon, Payload.whollyKnown, whollyKnownL_iff]
      intro v hv
      exact canonAll_wk e xs (whollyKnownL_iff.mp h) v ((mem_sortStable _ _ _).mp hv)
theorem canonAll_wk : ∀ (e : Ty) (vs : List Payload), (∀ v ∈ vs, v.whollyKnown = true) →
    ∀ w ∈ canonAll e vs, w.whollyKnown = true
  | _, [], _, w, hw => by simp [canonAll] at hw
  | e, v :: vs, h, w, hw => by
    simp only [canonAll, List.mem_cons] at hw
    rcases hw with rfl | hw
    · exact canon_wk e v (h v (List.mem_cons_self ..))
    · exact canonAll_wk e vs (fun u hu => h u (List.mem_cons_of_mem _ hu)) w hw
theorem canonZip_wk : ∀ (ts : List Ty) (vs : List Payload), (∀ v ∈ vs, v.whollyKnown = true) →
    ∀ w ∈ canonZip ts vs, w.whollyKnown = true
  | [], vs, h, w, hw => by simp only [canonZip] at hw; exact h w hw
  | _ :: _, [], _, w, hw => by simp [canonZip] at hw
  | t :: ts, v :: vs, h, w, hw => by
    simp only [canonZip, List.mem_cons] at hw
    rcases hw with rfl | hw
    · exact canon_wk t v (h v (List.mem_cons_self ..))
    · exact canonZip_wk ts vs (fun u hu => h u (List.mem_cons_of_mem _ hu)) w hw
end

/-- the members of set nodes the `Equals` theorems speak about -/
def M (e : Ty) (x : Payload) : Prop := G e x ∧ x.whollyKnown = true ∧ x.intNums = true

theorem M.cm {e : Ty} {x : Payload} (h : M e x) : CM (enc e) (canon e x) := by
  obtain ⟨g, k, i⟩ := h
  have g' := canon_G e x g
  exact ⟨by simp [Payload.intMember, g'.1, canon_wk e x k, g'.2.1, canon_intNums i], g'.2.2⟩

/-! ### `Less` respects `RawEquals` -/

theorem rawB_isNull {t : Ty} {a a' : Payload} (ma : a.containsMarked = false) (ma' : a'.containsMarked = false)
    (h : rawB t a a' = true) : a.isNull = a'.isNull := by
  cases hn : a.isNull <;> cases hn' : a'.isNull <;> try rfl
  · have e1 := (isNull_iff ma').mp hn'
    rw [e1] at h
    have e2 := (rawB_null_right ma).mp h
    rw [e2] at hn
    exact absurd hn (by decide)
  · have e1 := (isNull_iff ma).mp hn
    rw [e1] at h
    have e2 := rawB_null_left.mp h
    rw [e2] at hn'
    exact absurd hn' (by decide)

theorem compLessB_compat {t : Ty} (hp : t.plain = true) {a a' b b' : Payload} (ha : CM t a) (ha' : CM t a')
    (hb : CM t b) (hb' : CM t b') (r1 : rawB t a a' = true) (r2 : rawB t b b' = true) :
    compLessB t a b = compLessB t a' b' := by
  obtain ⟨wa, _, ma, ia⟩ := Payload.intMember_spec ha.1
  obtain ⟨wa', _, ma', ia'⟩ := Payload.intMember_spec ha'.1
  obtain ⟨wb, _, mb, ib⟩ := Payload.intMember_spec hb.1
  obtain ⟨wb', _, mb', ib'⟩ := Payload.intMember_spec hb'.1
  obtain ⟨xa, ea⟩ := ha.hash hp
  obtain ⟨xb, eb⟩ := hb.hash hp
  have ea' : hashBytesP t a' = .ok xa := by
    have := hashBytesP_eq_of_rawB_ints hp wa ia wa' ia' r1
    rw [← ea]; exact this.symm
  have eb' : hashBytesP t b' = .ok xb := by
    have := hashBytesP_eq_of_rawB_ints hp wb ib wb' ib' r2
    rw [← eb]; exact this.symm
  have hr : rawB t a b = rawB t a' b' := by
    cases h : rawB t a b
    · cases h' : rawB t a' b'
      · rfl
      · exfalso
        have h1 := rawB_trans t a a' b' hp wa wa' wb' r1 h'
        have r2' : rawB t b' b = true := by rw [rawB_symm t b' b hp wb' wb]; exact r2
        have := rawB_trans t a b' b hp wa wb' wb h1 r2'
        rw [h] at this; cases this
    · have r1' : rawB t a' a = true := by rw [rawB_symm t a' a hp wa' wa]; exact r1
      have h1 := rawB_trans t a' a b hp wa' wa wb r1' h
      exact (rawB_trans t a' b b' hp wa' wb wb' h1 r2).symm
  have e1 : compLessB t a b = true ↔ compLessB t a' b' = true := by
    rw [compLessB_iff ha hb ea eb, compLessB_iff ha' hb' ea' eb', hr, rawB_isNull ma ma' r1, rawB_isNull mb mb' r2]
  cases h : compLessB t a b
  · cases h' : compLessB t a' b'
    · rfl
    · rw [e1.mpr h'] at h; cases h
  · exact (e1.mp h).symm

theorem primLessB_compat {e : Ty} (he : e.isPrim = true) {a a' b b' : Payload} (ha : a.intMember e = true)
    (ha' : a'.intMember e = true) (hb : b.intMember e = true) (hb' : b'.intMember e = true)
    (r1 : rawB e a a' = true) (r2 : rawB e b b' = true) : primLessB e a b = primLessB e a' b' := by
  obtain ⟨wa, ka, ma, ia⟩ := Payload.intMember_spec ha
  obtain ⟨wa', ka', ma', ia'⟩ := Payload.intMember_spec ha'
  obtain ⟨wb, kb, mb, ib⟩ := Payload.intMember_spec hb
  obtain ⟨wb', kb', mb', ib'⟩ := Payload.intMember_spec hb'
  rcases prim_member_cases he wa ka ma with rfl | hac
  · have := rawB_null_left.mp r1; subst this
    rw [primLessB_null_left, primLessB_null_left]
  rcases prim_member_cases he wa' ka' ma' with rfl | hac'
  · have := (rawB_null_right ma).mp r1; subst this
    rw [primLessB_null_left, primLessB_null_left]
  rcases prim_member_cases he wb kb mb with rfl | hbc
  · have := rawB_null_left.mp r2; subst this
    rw [primLessB_leaf_null hac, primLessB_leaf_null hac']
  rcases prim_member_cases he wb' kb' mb' with rfl | hbc'
  · have := (rawB_null_right mb).mp r2; subst this
    rw [primLessB_leaf_null hac, primLessB_leaf_null hac']
  rcases hac with ⟨rfl, x, rfl⟩ | ⟨rfl, x, rfl⟩ | ⟨rfl, x, rfl⟩
  · obtain ⟨x', rfl⟩ := leaf_of_string hac'
    obtain ⟨y, rfl⟩ := leaf_of_string hbc
    obtain ⟨y', rfl⟩ := leaf_of_string hbc'
    simp only [rawB, beq_iff_eq] at r1 r2
    subst r1; subst r2; rfl
  · obtain ⟨x', rfl⟩ := leaf_of_bool hac'
    obtain ⟨y, rfl⟩ := leaf_of_bool hbc
    obtain ⟨y', rfl⟩ := leaf_of_bool hbc'
    simp only [rawB, beq_iff_eq] at r1 r2
    subst r1; subst r2; rfl
  · obtain ⟨x', rfl⟩ := leaf_of_number hac'
    obtain ⟨y, rfl⟩ := leaf_of_number hbc
    obtain ⟨y', rfl⟩ := leaf_of_number hbc'
    simp only [rawB] at r1 r2
    have ix := intNums_n ia
    have ix' := intNums_n ia'
    have iy := intNums_n ib
    have iy' := intNums_n ib'
    have c1 := (rawEqual_iff_cmp_int ix ix').mp r1
    have c2 := (rawEqual_iff_cmp_int iy iy').mp r2
    have hc : Num.cmp x y = Num.cmp x' y' := by
      rw [NumCmp.cmp_congr_left c1 y, NumCmp.cmp_congr_right c2 x']
    rw [primLessB_num, primLessB_num, hc]
    congr 2
    cases h : Num.rawEqual x y <;> cases h' : Num.rawEqual x' y' <;> try rfl
    · have := (rawEqual_iff_cmp_int ix' iy').mp h'
      rw [← hc] at this
      rw [(rawEqual_iff_cmp_int ix iy).mpr this] at h; cases h
    · have := (rawEqual_iff_cmp_int ix iy).mp h
      rw [hc] at this
      rw [(rawEqual_iff_cmp_int ix' iy').mpr this] at h'; cases h'

/-- **`Less` respects `RawEquals`**: replacing either member by a `RawEquals` one does
not change the answer (members transliterated; numbers integers) -/
theorem lessEnc_compat {e : Ty} (hc : capFree e = true) {a a' b b' : Payload} (ha : CM (enc e) a) (ha' : CM (enc e) a')
    (hb : CM (enc e) b) (hb' : CM (enc e) b') (r1 : rawB (enc e) a a' = true) (r2 : rawB (enc e) b b' = true) :
    lessEnc e a b = lessEnc e a' b' := by
  by_cases he : e.isPrim = true
  · simp only [lessEnc, he, if_true]
    rw [enc_prim he] at ha ha' hb hb' r1 r2
    exact primLessB_compat he ha.1 ha'.1 hb.1 hb'.1 r1 r2
  · simp only [lessEnc, he]
    exact compLessB_compat (enc_plain e hc) ha ha' hb hb' r1 r2

end D03b
end CtyModel
