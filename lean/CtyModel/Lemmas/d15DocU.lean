/-
C15 (d15) — the document round trip for objects whose keys come in ANY order (audit C15
item 1, missing theorem (a)): `docOKU` (distinct normalised keys, representable numbers) ⇒
implied type = structural type, decoding with it succeeds with exactly that type, and
re-encoding gives the same document up to key order, number spelling and normalisation
(`jsonEquiv (canon d') (canon d)`, i.e. `docCheckFull`).
-/
import CtyModel.Lemmas.d15Sort
import CtyModel.Lemmas.JsonValStrip
namespace CtyModel
namespace JsonVal
open Ty

theorem nodup_of_hasDup_d15 : ∀ (ks : List String), hasDup ks = false → ks.Nodup
  | [], _ => by simp
  | k :: ks, h => by
    simp only [hasDup, Bool.or_eq_false_iff] at h
    exact List.nodup_cons.mpr ⟨by simpa using h.1, nodup_of_hasDup_d15 ks h.2⟩

theorem structTyUL_length (norm : String → String) : ∀ xs : List Json, (structTyUL norm xs).length = xs.length
  | [] => rfl
  | _ :: xs => by simp [structTyUL, structTyUL_length norm xs]

theorem canonL_eq_map (env : JEnv) : ∀ xs : List Json, canonL env xs = xs.map (canon env)
  | [] => rfl
  | x :: xs => by simp [canonL, canonL_eq_map env xs]

theorem jsonEquivL_of_All2 : ∀ (xs ys : List Json), All2 (fun a b => jsonEquiv a b = true) xs ys →
    jsonEquivL xs ys = true
  | [], [], _ => rfl
  | [], _ :: _, h => by simp [All2] at h
  | _ :: _, [], h => by simp [All2] at h
  | x :: xs, y :: ys, h => by
    simp only [All2] at h
    simp [jsonEquivL, h.1, jsonEquivL_of_All2 xs ys h.2]

theorem All2_of_jsonEquivL : ∀ (xs ys : List Json), jsonEquivL xs ys = true →
    All2 (fun a b => jsonEquiv a b = true) xs ys
  | [], [], _ => trivial
  | [], _ :: _, h => by simp [jsonEquivL] at h
  | _ :: _, [], h => by simp [jsonEquivL] at h
  | x :: xs, y :: ys, h => by
    simp only [jsonEquivL, Bool.and_eq_true] at h
    exact ⟨h.1, All2_of_jsonEquivL xs ys h.2⟩

/-- what the encoder does with one decoded member -/
def RM (env : JEnv) (w : Value) (e : Json) : Prop :=
  w.v.isMarked = false ∧ w.v.isKnown = true ∧ marshalKnown env w.ty w.ty w.v = .ok e

theorem marshalZip_of_All2 (env : JEnv) : ∀ (ws : List Value) (es : List Json), All2 (RM env) ws es →
    marshalZip env (ws.map (·.ty)) (ws.map (·.ty)) (ws.map (·.v)) = .ok es
  | [], [], _ => by simp [marshalZip]
  | [], _ :: _, h => by simp [All2] at h
  | _ :: _, [], h => by simp [All2] at h
  | w :: ws, e :: es, h => by
    simp only [All2] at h
    obtain ⟨⟨hm, hk, hj⟩, hr⟩ := h
    simp only [List.map_cons, marshalZip]
    rw [marshalEntry_same w.ty w.v _ hm hk]
    simp [hj, marshalZip_of_All2 env ws es hr, Res.map]

/-- conclusion for one document -/
def DocGoodU (env : JEnv) (d : Json) : Prop :=
  ∃ p d', impliedType env d = .ok (structTyU env.norm d) ∧
    unmarshal env d (structTyU env.norm d) = .ok ⟨structTyU env.norm d, p⟩ ∧
    p.isMarked = false ∧ p.isKnown = true ∧
    marshalKnown env (structTyU env.norm d) (structTyU env.norm d) p = .ok d' ∧
    jsonEquiv (canon env d') (canon env d) = true

theorem map_norm_id (env : JEnv) (hid : ∀ s, env.norm (env.norm s) = env.norm s) (ks : List String) :
    ∀ ns : List String, (∀ x ∈ ns, x ∈ ks.map env.norm) → ns.map env.norm = ns
  | [], _ => rfl
  | n :: ns, h => by
    obtain ⟨k, _, hk⟩ := List.mem_map.mp (h n (by simp))
    simp [← hk, hid, map_norm_id env hid ks ns (fun x hx => h x (List.mem_cons_of_mem _ hx))]

mutual
theorem doc_rtU (env : JEnv) (hid : ∀ s, env.norm (env.norm s) = env.norm s) :
    ∀ d : Json, docOKU env d = true → DocGoodU env d
  | .null, _ => ⟨.null, .null, by simp [impliedType, structTyU], by simp [unmarshal, structTyU],
      rfl, rfl, by simp [marshalKnown], by simp [canon, jsonEquiv]⟩
  | .bool b, _ => ⟨.b b, .bool b, by simp [impliedType, structTyU],
      by simp [unmarshal, unmarshalPrim, structTyU], rfl, rfl,
      by simp [marshalKnown, structTyU], by simp [canon, jsonEquiv]⟩
  | .str s, _ => ⟨.s (env.norm s), .str (env.norm s), by simp [impliedType, structTyU],
      by simp [unmarshal, unmarshalPrim, structTyU], rfl, rfl,
      by simp [marshalKnown, structTyU], by simp [canon, jsonEquiv, hid]⟩
  | .num l, h => by
    simp only [docOKU] at h
    split at h
    · rename_i n hn
      obtain ⟨hinf, n', hp, hr⟩ := numOK_spec h
      exact ⟨.n n, .num (Num.textF n), by simp [impliedType, structTyU],
        by simp [unmarshal, unmarshalPrim, structTyU, hn, Res.map], rfl, rfl,
        by simp [marshalKnown, structTyU, hinf], by simp [canon, jsonEquiv, hp, hn, hr]⟩
    · simp at h
  | .arr xs, h => by
    obtain ⟨vals, ds, hi, _, hu, _, hty, hrm, hre, hlen⟩ := doc_rtUL env hid xs (by simpa [docOKU] using h)
    have hl : vals.length = (structTyUL env.norm xs).length := by
      have := congrArg List.length hty; simpa using this
    have hm := marshalZip_of_All2 env vals ds hrm
    rw [hty] at hm
    refine ⟨.seq (vals.map (·.v)), .arr ds, by simp [impliedType, structTyU, hi, Res.map], ?_, rfl, rfl,
      by simp [marshalKnown, structTyU, hm, Res.map], ?_⟩
    · simp [unmarshal, structTyU, hu, hl, tupleVal, hty]
    · simp only [canon, jsonEquiv]
      exact jsonEquivL_of_All2 _ _ (by simpa [canonL_eq_map] using hre)
  | .obj ks vs, h => by
    simp only [docOKU, Bool.and_eq_true, beq_iff_eq, Bool.not_eq_true'] at h
    obtain ⟨⟨hdup, hkl⟩, hok⟩ := h
    obtain ⟨vals, ds, _, him, _, hua, hty, hrm, hre, hlen⟩ := doc_rtUL env hid vs hok
    have hndn : (ks.map env.norm).Nodup := nodup_of_hasDup_d15 _ hdup
    have hnd : ks.Nodup := nodup_of_map env.norm ks hndn
    have him' := him [] [] ks hkl (by simp) hnd
    simp only [List.nil_append] at him'
    -- the attribute map of the implied type, as the generic sort
    have hbf := buildFields_eq_sortG env.norm ks (structTyUL env.norm vs)
    have hclen : (ks.map env.norm).length = (structTyUL env.norm vs).length := by
      simp [structTyUL_length, hkl]
    obtain ⟨hasc, hrlen, hrmem⟩ := buildFields_spec env.norm ks (structTyUL env.norm vs) (by simpa using hclen)
    have hvl : vals.length = vs.length := by
      have := congrArg List.length hty
      simp only [List.length_map, structTyUL_length] at this
      exact this
    -- the members are found under their normalised keys
    have hfi : FieldsIn (ks.map env.norm) (structTyUL env.norm vs) ((ks.map env.norm).map fun _ => false)
        (buildFields env.norm ks (structTyUL env.norm vs)).1 (buildFields env.norm ks (structTyUL env.norm vs)).2
        ((buildFields env.norm ks (structTyUL env.norm vs)).1.map fun _ => false) := by
      rw [hbf]
      exact fieldsIn_of_allLook _ _ (sortG_length _ _) _ _ (sortG_allLook _ _ hndn)
    have hfa := hua ks ((ks.map env.norm).map fun _ => false) _ _ _ hkl (by simp [hkl]) hfi
    -- `objectVal` picks the decoded members in the order of the sorted keys
    have hkeysV : (sortG (ks.map env.norm) vals).1 = (sortG (ks.map env.norm) (structTyUL env.norm vs)).1 :=
      sortG_keys _ _ _ (by simp [hvl, structTyUL_length])
    have hov : objectVal (buildFields env.norm ks (structTyUL env.norm vs)).1
        (buildFields env.norm ks (structTyUL env.norm vs)).2 (ks.map env.norm) vals =
        (sortG (ks.map env.norm) vals).2 := by
      apply objectVal_of_lookups
      · exact hrlen
      · rw [hbf, ← hkeysV]
        exact sortG_lookupLast _ _ hndn
    -- types, encodings and canonical forms of the members survive the sort
    have htyS : ((sortG (ks.map env.norm) vals).2).map (·.ty) = (buildFields env.norm ks (structTyUL env.norm vs)).2 := by
      rw [hbf, ← hty, sortG_map]
    have hrmS := (sortG_rel (RM env) (ks.map env.norm) vals ds hrm).2
    have hmS := marshalZip_of_All2 env _ _ hrmS
    rw [htyS] at hmS
    have hdl : ds.length = vs.length := by rw [← All2_length hrm]; exact hvl
    refine ⟨.smap (buildFields env.norm ks (structTyUL env.norm vs)).1 (((sortG (ks.map env.norm) vals).2).map (·.v)),
      .obj (buildFields env.norm ks (structTyUL env.norm vs)).1 (sortG (ks.map env.norm) ds).2, ?_, ?_, rfl, rfl, ?_, ?_⟩
    · simp [impliedType, structTyU, him', normConflict_nodup ks _ hndn]
    · simp [unmarshal, structTyU, hfa, hov, htyS]
    · simp [marshalKnown, structTyU, hmS, Res.map]
    · -- canonical forms
      have hns : (buildFields env.norm ks (structTyUL env.norm vs)).1.map env.norm =
          (buildFields env.norm ks (structTyUL env.norm vs)).1 :=
        map_norm_id env hid ks _ (fun x hx => (hrmem x).mp hx)
      have hkeysD : (sortG (ks.map env.norm) (canonL env vs)).1 = (buildFields env.norm ks (structTyUL env.norm vs)).1 := by
        rw [hbf]; exact sortG_keys _ _ _ (by simp [canonL_eq_map, structTyUL_length])
      have hlenS : (buildFields env.norm ks (structTyUL env.norm vs)).1.length =
          (canonL env (sortG (ks.map env.norm) ds).2).length := by
        rw [canonL_eq_map, List.length_map, ← sortG_length, hbf]
        exact congrArg List.length (sortG_keys _ _ _ (by simp [hdl, structTyUL_length]))
      simp only [canon, hns, sortMembers_eq_sortG, sortG_sorted _ _ hasc hlenS, jsonEquiv, hkeysD,
        beq_self_eq_true, Bool.true_and]
      apply jsonEquivL_of_All2
      rw [canonL_eq_map, ← sortG_map, canonL_eq_map]
      exact (sortG_rel _ (ks.map env.norm) _ _ (by simpa [canonL_eq_map] using hre)).2
theorem doc_rtUL (env : JEnv) (hid : ∀ s, env.norm (env.norm s) = env.norm s) :
    ∀ xs : List Json, docOKUL env xs = true →
    ∃ (vals : List Value) (ds : List Json),
      impliedAll env xs = .ok (structTyUL env.norm xs) ∧
      (∀ (aK : List String) (aT : List Ty) (ks : List String), ks.length = xs.length →
        (∀ k ∈ ks, k ∉ aK) → ks.Nodup →
        impliedMembers env ks xs aK aT = .ok (aK ++ ks, aT ++ structTyUL env.norm xs)) ∧
      unmarshalZip env xs (structTyUL env.norm xs) = .ok vals ∧
      (∀ (ks : List String) (osK : List Bool) (ns : List String) (ts : List Ty) (os : List Bool),
        ks.length = xs.length → osK.length = xs.length →
        FieldsIn (ks.map env.norm) (structTyUL env.norm xs) osK ns ts os →
        unmarshalAttrs env ks xs ns ts os = .ok vals) ∧
      vals.map (·.ty) = structTyUL env.norm xs ∧
      All2 (RM env) vals ds ∧
      All2 (fun a b => jsonEquiv a b = true) (ds.map (canon env)) (xs.map (canon env)) ∧
      (structTyUL env.norm xs).length = xs.length
  | [], _ => ⟨[], [], rfl,
      fun aK aT ks hk _ _ => by
        have : ks = [] := List.eq_nil_of_length_eq_zero (by simpa using hk)
        subst this; simp [impliedMembers, structTyUL],
      by simp [unmarshalZip],
      fun ks _ _ _ _ hk _ _ => by
        have : ks = [] := List.eq_nil_of_length_eq_zero (by simpa using hk)
        subst this; simp [unmarshalAttrs],
      rfl, trivial, trivial, rfl⟩
  | x :: xs, h => by
    simp only [docOKUL, Bool.and_eq_true] at h
    obtain ⟨p, d', hi, hu, hmk, hkn, hm, he⟩ := doc_rtU env hid x h.1
    obtain ⟨vals, ds, his, hims, hus, huas, htys, hrms, hres, hlen⟩ := doc_rtUL env hid xs h.2
    refine ⟨⟨structTyU env.norm x, p⟩ :: vals, d' :: ds, by simp [impliedAll, structTyUL, hi, his], ?_,
      by simp [unmarshalZip, structTyUL, hu, hus], ?_, by simp [structTyUL, htys], ⟨⟨hmk, hkn, hm⟩, hrms⟩,
      ⟨he, hres⟩, by simp [structTyUL, hlen]⟩
    · intro aK aT ks hk hdis hnd
      cases ks with
      | nil => simp at hk
      | cons k ks =>
        have ⟨hkn', hnd'⟩ := List.nodup_cons.mp hnd
        have hnot : k ∉ aK := hdis k (by simp)
        have hrest := hims (aK ++ [k]) (aT ++ [structTyU env.norm x]) ks (by simpa using hk)
          (by
            intro k' hk' hmem
            rcases List.mem_append.mp hmem with hm' | hm'
            · exact hdis k' (List.mem_cons_of_mem _ hk') hm'
            · simp at hm'; subst hm'; exact hkn' hk')
          hnd'
        simp [impliedMembers, hi, lookupTy_none aK aT hnot, hrest, structTyUL]
    · intro ks osK ns ts os hk ho hf
      cases ks with
      | nil => simp at hk
      | cons k ks =>
        cases osK with
        | nil => simp at ho
        | cons o osK =>
          simp only [structTyUL, List.map_cons, FieldsIn] at hf
          simp [unmarshalAttrs, hf.1, hu,
            huas ks osK ns ts os (by simpa using hk) (by simpa using ho) hf.2]
end

/-! the structural type carries no optional-attribute annotation -/
theorem hasOptL_of_forall : ∀ ts : List Ty, (∀ t ∈ ts, hasOpt t = false) → hasOptL ts = false
  | [], _ => rfl
  | t :: ts, h => by
    simp [hasOptL, h t (by simp), hasOptL_of_forall ts (fun u hu => h u (List.mem_cons_of_mem _ hu))]

mutual
theorem structTyU_noOpt (norm : String → String) : ∀ j : Json, hasOpt (structTyU norm j) = false
  | .null => rfl
  | .bool _ => rfl
  | .num _ => rfl
  | .str _ => rfl
  | .arr xs => by
    simp only [structTyU, hasOpt]
    exact hasOptL_of_forall _ (structTyUL_noOpt norm xs)
  | .obj ks vs => by
    simp only [structTyU, hasOpt, hasOpt_map_false, Bool.false_or]
    apply hasOptL_of_forall
    intro t ht
    rw [buildFields_eq_sortG] at ht
    exact structTyUL_noOpt norm vs t (sortG_mem2 _ _ t ht)
theorem structTyUL_noOpt (norm : String → String) : ∀ (js : List Json), ∀ t ∈ structTyUL norm js, hasOpt t = false
  | [], _, h => by simp [structTyUL] at h
  | j :: js, t, h => by
    simp only [structTyUL, List.mem_cons] at h
    rcases h with rfl | h
    · exact structTyU_noOpt norm j
    · exact structTyUL_noOpt norm js t h
end

end JsonVal
end CtyModel
