/-
C09 / d09 — the fuel of the FULL model `unifyF` (type and conversions): two activations always
suffice.  `unify` re-enters itself (with its conversions used) only from unifyTuplesAsList /
unifyObjectsAsMaps, on a list that consists of list (map) types and placeholders only; on such
a list the next activation goes to unifyCollectionTypes / the preference loop and never re-enters.
Hence `unifyF E (n + 2) = unifyF E 2` for every `n`, environment, mode and list of types.
-/
import CtyModel.Lemmas.d09Fuel
import CtyModel.Lemmas.UnifyBasic
namespace CtyModel
namespace Unify
open Convert Ty

abbrev Self := Bool → List Ty → Res UOut

theorem replaceAt_mem {idxs : List Nat} {ty : Ty} {types : List Ty} {y : Ty} (hy : y ∈ replaceAt idxs ty types) :
    y = ty ∨ ∃ j, j ∉ idxs ∧ types[j]? = some y := by
  obtain ⟨j, hj⟩ := List.mem_iff_getElem?.mp hy
  rw [replaceAt_get] at hj
  split at hj
  · left; simpa using hj.symm
  · rename_i hn
    right
    refine ⟨j, fun hm => hn ⟨hm, (List.getElem?_eq_some_iff.mp hj).1⟩, hj⟩

theorem replaced_collOnly_list {types : List Ty} {ty : Ty} (hty : isListTy ty = true)
    (hall : ∀ x ∈ types, (isListTy x || isTupleTy x || x.isDyn) = true) :
    collOnly (replaceAt (idxsOf isTupleTy types) ty types) = true := by
  simp only [collOnly, Bool.or_eq_true, List.all_eq_true]
  left
  intro y hy
  rcases replaceAt_mem hy with rfl | ⟨j, hj, hyj⟩
  · simp [hty]
  · have h1 := hall y (List.mem_of_getElem? hyj)
    have h2 : isTupleTy y = false := by
      cases ht : isTupleTy y
      · rfl
      · exact absurd (idxsOf_mem.mpr ⟨y, hyj, ht⟩) hj
    simpa [h2] using h1

theorem replaced_collOnly_map {types : List Ty} {ty : Ty} (hty : isMapTy ty = true)
    (hall : ∀ x ∈ types, (isMapTy x || isObjectTy x || x.isDyn) = true) :
    collOnly (replaceAt (idxsOf isObjectTy types) ty types) = true := by
  simp only [collOnly, Bool.or_eq_true, List.all_eq_true]
  right
  intro y hy
  rcases replaceAt_mem hy with rfl | ⟨j, hj, hyj⟩
  · simp [hty]
  · have h1 := hall y (List.mem_of_getElem? hyj)
    have h2 : isObjectTy y = false := by
      cases ht : isObjectTy y
      · rfl
      · exact absurd (idxsOf_mem.mpr ⟨y, hyj, ht⟩) hj
    simpa [h2] using h1

theorem reunify_self_congr {uns : Bool} {self self' : Self} {isStruct isColl : Ty → Bool}
    {toColl : List Ty → Res UOut} {types : List Ty}
    (h : ∀ ty fc, toColl (types.filter isStruct) = .ok (some (ty, fc)) → isColl ty = true →
      self uns (replaceAt (idxsOf isStruct types) ty types) = self' uns (replaceAt (idxsOf isStruct types) ty types)) :
    reunify uns self isStruct isColl toColl types = reunify uns self' isStruct isColl toColl types := by
  unfold reunify
  simp only
  cases hr : toColl (types.filter isStruct) with
  | ok r =>
    cases r with
    | none => rfl
    | some p =>
      obtain ⟨ty, fc⟩ := p
      simp only [Res.bind]
      cases hc : isColl ty with
      | false => rfl
      | true => simp only [Bool.not_true, Bool.false_eq_true, if_false, h ty fc hr hc]
  | err _ => rfl
  | panic _ => rfl
  | unmodelled => rfl

theorem tupleTypesToList_nil (E : Env) (uns : Bool) : tupleTypesToList E uns [] = .ok none := by
  simp [tupleTypesToList, mapRes, Res.bind, Env.unifyG]
theorem objectTypesToMap_nil (E : Env) (uns : Bool) : objectTypesToMap E uns [] = .ok none := by
  simp [objectTypesToMap, mapRes, Res.bind, Env.unifyG]

/-- one activation consults `self` only on the list with the list / map type swapped in -/
theorem unifyStep_self_congr (E : Env) (uns : Bool) {self self' : Self} (types : List Ty)
    (hL : (∀ x ∈ types, (isListTy x || isTupleTy x || x.isDyn) = true) → ∀ ty fc,
      tupleTypesToList E uns (types.filter isTupleTy) = .ok (some (ty, fc)) → isListTy ty = true →
      self uns (replaceAt (idxsOf isTupleTy types) ty types) = self' uns (replaceAt (idxsOf isTupleTy types) ty types))
    (hM : (∀ x ∈ types, (isMapTy x || isObjectTy x || x.isDyn) = true) → ∀ ty fc,
      objectTypesToMap E uns (types.filter isObjectTy) = .ok (some (ty, fc)) → isMapTy ty = true →
      self uns (replaceAt (idxsOf isObjectTy types) ty types) = self' uns (replaceAt (idxsOf isObjectTy types) ty types)) :
    Unify.unifyStep E uns self types = Unify.unifyStep E uns self' types := by
  simp only [Unify.unifyStep]
  refine ite_congr rfl (fun _ => rfl) (fun _ => ?_)
  refine ite_congr rfl (fun _ => rfl) (fun _ => ?_)
  refine ite_congr rfl (fun hc => ?_) (fun _ => ?_)
  · simp only [Bool.and_eq_true, decide_eq_true_eq, beq_iff_eq] at hc
    have : objectsAsMaps E uns self types = objectsAsMaps E uns self' types :=
      reunify_self_congr (hM (all_of_count3 disj_map_object disj_map_dyn disj_object_dyn hc.2))
    rw [this]
  refine ite_congr rfl (fun _ => rfl) (fun _ => ?_)
  refine ite_congr rfl (fun hc => ?_) (fun _ => rfl)
  · simp only [Bool.and_eq_true, decide_eq_true_eq, beq_iff_eq] at hc
    have : tuplesAsList E uns self types = tuplesAsList E uns self' types :=
      reunify_self_congr (hL (all_of_count3 disj_list_tuple disj_list_dyn disj_tuple_dyn hc.2))
    rw [this]

/-- on a list of list (map) types and placeholders `unify` never re-enters itself -/
theorem unifyF_collOnly (E : Env) (n : Nat) (uns : Bool) (L : List Ty) (h : collOnly L = true) :
    unifyF E (n + 1) uns L = unifyF E 1 uns L := by
  show Unify.unifyStep E uns (unifyF E n) L = Unify.unifyStep E uns (unifyF E 0) L
  apply unifyStep_self_congr
  · intro _ ty fc he
    rw [collOnly_no_tuple h, tupleTypesToList_nil] at he
    simp at he
  · intro _ ty fc he
    rw [collOnly_no_object h, objectTypesToMap_nil] at he
    simp at he

/-- TWO ACTIVATIONS SUFFICE for the full model: more fuel never changes its outcome -/
theorem unifyF_two (E : Env) (n : Nat) (uns : Bool) (types : List Ty) :
    unifyF E (n + 2) uns types = unifyF E 2 uns types := by
  show Unify.unifyStep E uns (unifyF E (n + 1)) types = Unify.unifyStep E uns (unifyF E 1) types
  apply unifyStep_self_congr
  · intro hall ty _ _ hty
    exact unifyF_collOnly E n uns _ (replaced_collOnly_list hty hall)
  · intro hall ty _ _ hty
    exact unifyF_collOnly E n uns _ (replaced_collOnly_map hty hall)

end Unify
end CtyModel
