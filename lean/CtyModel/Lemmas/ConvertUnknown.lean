/-
Unknown and null inputs: what the wrapper of `getConversion` returns for them, and
what `prepareUnknownResult` carries over from the source's refinement.
-/
import CtyModel.Lemmas.ConvertProps
namespace CtyModel
namespace Convert
open Ty Refine

/-! ### length bounds of a refinement (absent = unbounded) -/
def lenLo : Rfn → Int
  | .coll _ lo _ => lo
  | _ => 0
def lenHi : Rfn → Int
  | .coll _ _ hi => hi
  | _ => Refine.maxInt

/-- the lower / upper length bound a builder call asks for (none: 0 / maxInt) -/
def loOf : RefineCall → Int
  | .lenLower n => n
  | .collectionLength n => n
  | _ => 0
def hiOf : RefineCall → Int
  | .lenUpper n => n
  | .collectionLength n => n
  | _ => Refine.maxInt

theorem setNull_len (n : Tri) (r : Rfn) : lenLo (setNull n r) = lenLo r ∧ lenHi (setNull n r) = lenHi r := by
  cases r <;> simp [setNull, lenLo, lenHi]

theorem stepNotNull_len {b b' : Builder} (h : stepNotNull b = .ok b') :
    lenLo b'.wip = lenLo b.wip ∧ lenHi b'.wip = lenHi b.wip := by
  unfold stepNotNull at h
  split at h <;> (try split at h) <;> simp at h
  subst h; exact setNull_len _ _

theorem stepNull_len {b b' : Builder} (h : stepNull b = .ok b') :
    lenLo b'.wip = lenLo b.wip ∧ lenHi b'.wip = lenHi b.wip := by
  unfold stepNull at h
  split at h <;> (try split at h) <;> simp at h
  subst h; exact setNull_len _ _

theorem stepLenLower_len {b b' : Builder} {n : Int} (h : stepLenLower b n = .ok b') :
    lenLo b'.wip ≤ max (lenLo b.wip) n ∧ lenHi b'.wip = lenHi b.wip := by
  unfold stepLenLower at h
  split at h
  · rename_i nl lo hi hw
    simp only at h
    repeat' split at h
    all_goals first
      | (simp at h; subst h; simp [hw, lenLo, lenHi]; omega)
      | (simp at h; subst h; simp [hw, lenLo, lenHi])
      | simp at h
  · simp at h

theorem stepLenUpper_len {b b' : Builder} {n : Int} (h : stepLenUpper b n = .ok b') :
    lenLo b'.wip = lenLo b.wip ∧ min (lenHi b.wip) n ≤ lenHi b'.wip := by
  unfold stepLenUpper at h
  split at h
  · rename_i nl lo hi hw
    simp only at h
    repeat' split at h
    all_goals first
      | (simp at h; subst h; simp [hw, lenLo, lenHi]; omega)
      | (simp at h; subst h; simp [hw, lenLo, lenHi])
      | simp at h
  · simp at h

/-- the builder calls `prepareUnknownResult` makes -/
def lenCall : RefineCall → Bool
  | .notNull | .lenLower _ | .lenUpper _ | .collectionLength _ => true
  | _ => false

theorem step_len {b b' : Builder} {c : RefineCall} (hc : lenCall c = true) (h : Refine.step b c = .ok b') :
    lenLo b'.wip ≤ max (lenLo b.wip) (loOf c) ∧ min (lenHi b.wip) (hiOf c) ≤ lenHi b'.wip := by
  unfold Refine.step at h
  split at h
  · simp at h; subst h
    exact ⟨by omega, by omega⟩
  · split at h
    · simp at h
    · cases c <;> simp [lenCall] at hc <;> simp only [step1] at h
      · have := stepNotNull_len h
        rw [this.1, this.2]; exact ⟨by omega, by omega⟩
      · have := stepLenLower_len h
        simp only [loOf, hiOf]; rw [this.2]; exact ⟨this.1, by omega⟩
      · have := stepLenUpper_len h
        simp only [loOf, hiOf]; rw [this.1]; exact ⟨by omega, this.2⟩
      · obtain ⟨b1, h1, h2⟩ := Res.bind_eq_ok h
        have l1 := stepLenLower_len h1
        have l2 := stepLenUpper_len h2
        simp only [loOf, hiOf]
        rw [l2.1]
        refine ⟨l1.1, ?_⟩
        rw [← l1.2]; exact l2.2

/-- the largest lower bound / smallest upper bound asked for by a list of calls -/
def loOfAll : List RefineCall → Int
  | [] => 0
  | c :: cs => max (loOf c) (loOfAll cs)
def hiOfAll : List RefineCall → Int
  | [] => Refine.maxInt
  | c :: cs => min (hiOf c) (hiOfAll cs)

theorem run_len : ∀ {cs : List RefineCall} {b b' : Builder}, (∀ c ∈ cs, lenCall c = true) →
    Refine.run b cs = .ok b' →
    lenLo b'.wip ≤ max (lenLo b.wip) (loOfAll cs) ∧ min (lenHi b.wip) (hiOfAll cs) ≤ lenHi b'.wip
  | [], b, b', _, h => by
    simp [Refine.run] at h; subst h
    simp only [loOfAll, hiOfAll]
    exact ⟨by omega, by omega⟩
  | c :: cs, b, b', hc, h => by
    simp only [Refine.run] at h
    obtain ⟨b1, h1, h2⟩ := Res.bind_eq_ok h
    have s1 := step_len (hc c (by simp)) h1
    have s2 := run_len (fun x hx => hc x (by simp [hx])) h2
    simp only [loOfAll, hiOfAll]
    exact ⟨by omega, by omega⟩

/-- nullness is only ever set by `NotNull` / `Null` -/
theorem stepLen_nullness {b b' : Builder} {c : RefineCall} (hc : lenCall c = true) (hnn : c ≠ .notNull)
    (h : Refine.step b c = .ok b') : b'.wip.nullness = b.wip.nullness := by
  unfold Refine.step at h
  split at h
  · simp at h; subst h; rfl
  · split at h
    · simp at h
    · cases c <;> simp [lenCall] at hc <;> simp only [step1] at h
      · exact absurd rfl hnn
      · unfold stepLenLower at h
        split at h
        · simp only at h
          repeat' split at h
          all_goals first
            | (simp at h; subst h; simp_all [Rfn.nullness])
            | simp at h
        · simp at h
      · unfold stepLenUpper at h
        split at h
        · simp only at h
          repeat' split at h
          all_goals first
            | (simp at h; subst h; simp_all [Rfn.nullness])
            | simp at h
        · simp at h
      · obtain ⟨b1, h1, h2⟩ := Res.bind_eq_ok h
        have e1 : b1.wip.nullness = b.wip.nullness := by
          unfold stepLenLower at h1
          split at h1
          · simp only at h1
            repeat' split at h1
            all_goals first
              | (simp at h1; subst h1; simp_all [Rfn.nullness])
              | simp at h1
          · simp at h1
        have e2 : b'.wip.nullness = b1.wip.nullness := by
          unfold stepLenUpper at h2
          split at h2
          · simp only at h2
            repeat' split at h2
            all_goals first
              | (simp at h2; subst h2; simp_all [Rfn.nullness])
              | simp at h2
          · simp at h2
        rw [e2, e1]

theorem withMarks_unk {p : Payload} {ms : List String} {rf : Rfn} (h : p.withMarks ms = .unk rf) :
    p = .unk rf := by
  unfold Payload.withMarks at h
  simp only at h
  split at h
  · exact h
  · simp at h

theorem init_unknown {t : Ty} {rf0 : Rfn} {b : Builder} (h : Refine.init ⟨t, .unk rf0⟩ = .ok b) :
    b.orig = ⟨t, .unk rf0⟩ ∧ lenLo b.wip = lenLo rf0 ∧ lenHi b.wip = lenHi rf0 ∧
    (rf0 = .unref → b.wip.nullness ≠ .f) := by
  unfold Refine.init at h
  simp only at h
  split at h
  · simp at h
  · split at h
    · rename_i heq; simp [Value.unmark, Payload.unmark1] at heq
    · rename_i r heq
      have hr : r = rf0 := by simpa [Value.unmark, Payload.unmark1] using heq.symm
      subst hr
      split at h
      · split at h
        · simp at h; subst h
          rename_i hne _
          exact ⟨rfl, rfl, rfl, fun h => absurd h hne⟩
        · simp at h
      · rename_i hne
        have hr0 : r = .unref := by simpa using hne
        subst hr0
        simp at h; subst h
        refine ⟨rfl, ?_, ?_, ?_⟩ <;> cases t <;>
          simp [freshWip, lenLo, lenHi, Value.unmark, Payload.unmark1, Value.isNull, Payload.isNull, Rfn.nullness]
    · rename_i hnb hnu
      exact absurd rfl (hnu rf0)

/-- the result of refining an unknown, as far as lengths go -/
theorem refine_len {t : Ty} {rf0 rf : Rfn} {cs : List RefineCall} {r : Value}
    (hcs : ∀ c ∈ cs, lenCall c = true) (h : Refine.refine ⟨t, .unk rf0⟩ cs = .ok r) (hr : r.v = .unk rf) :
    lenLo rf ≤ max (lenLo rf0) (loOfAll cs) ∧ min (lenHi rf0) (hiOfAll cs) ≤ lenHi rf := by
  unfold Refine.refine at h
  obtain ⟨b, hb, h⟩ := Res.bind_eq_ok h
  obtain ⟨b', hb', h⟩ := Res.bind_eq_ok h
  obtain ⟨horig, hlo, hhi, _⟩ := init_unknown hb
  have hrun := run_len hcs hb'
  have horig' : b'.orig = ⟨t, .unk rf0⟩ := by rw [run_orig hb', horig]
  rw [hlo, hhi] at hrun
  unfold newValue at h
  split at h
  · -- the placeholder value ignores refinements
    simp at h; subst h
    simp only [Value.withMarks, horig'] at hr
    have := withMarks_unk hr
    simp at this; subst this
    exact ⟨by omega, by omega⟩
  · simp only at h
    split at h
    · simp at h
    · split at h
      · simp at h; subst h
        simp only [Value.withMarks, Value.null] at hr
        have := withMarks_unk hr
        simp at this
      · simp at h; subst h
        simp only [Value.withMarks] at hr
        have := withMarks_unk hr
        simp at this; subst this
        exact hrun
      · split at h
        · rename_i v hc
          simp at h; subst h
          simp only [Value.withMarks] at hr
          have hv := withMarks_unk hr
          -- a collapsed value is known
          exfalso
          unfold collapse at hc
          repeat' split at hc
          all_goals first
            | (simp at hc; subst hc; simp at hv)
            | simp at hc
        · simp at h; subst h
          simp only [Value.withMarks] at hr
          have := withMarks_unk hr
          simp at this; subst this
          exact hrun
        · simp at h
        · simp at h
        · simp at h

/-- `UnknownVal(t).RefineNotNull()` is an unknown without length information -/
theorem refine_notNull (t : Ty) : ∃ rf1, Refine.refine ⟨t, .unk .unref⟩ [.notNull] = .ok ⟨t, .unk rf1⟩ ∧
    lenLo rf1 = 0 ∧ lenHi rf1 = Refine.maxInt := by
  cases t <;> exact ⟨_, rfl, rfl, rfl⟩

/-- what `prepareUnknownResult` promises about the length of the result, when the
result is an unknown carrying the refinement `rf` -/
theorem prepare_len {src : ValueRange} {t : Ty} {r : Value} {rf : Rfn}
    (h : prepareUnknownResult src t = .ok r) (hr : r.v = .unk rf) :
    (∀ ns ts os e, src.ty = .object ns ts os → t = .map e →
      lenLo rf ≤ (ns.length : Int) ∧ (ns.length : Int) ≤ lenHi rf ∨ Refine.maxInt < ns.length) ∧
    (∀ ts e, src.ty = .tuple ts → t = .list e →
      lenLo rf ≤ (ts.length : Int) ∧ (ts.length : Int) ≤ lenHi rf ∨ Refine.maxInt < ts.length) ∧
    (∀ ts e, src.ty = .tuple ts → t = .set e →
      lenLo rf ≤ min (ts.length : Int) 1 ∧ (ts.length : Int) ≤ lenHi rf ∨ Refine.maxInt < ts.length) ∧
    (∀ lo hi e, Refine.isCollectionTy src.ty = true → src.lengthLowerBound = .ok lo →
      src.lengthUpperBound = .ok hi →
      (t = .set e → lenLo rf ≤ (if lo > 0 then 1 else 0) ∧ min hi Refine.maxInt ≤ lenHi rf) ∧
      (t = .list e ∨ t = .map e → lenLo rf ≤ max lo 0 ∧ min hi Refine.maxInt ≤ lenHi rf)) := by
  unfold prepareUnknownResult at h
  simp only at h
  obtain ⟨ret, hret, h⟩ := Res.bind_eq_ok h
  -- the value the length refinements start from
  have hret' : ∃ rf1, ret = ⟨t, .unk rf1⟩ ∧ lenLo rf1 = 0 ∧ lenHi rf1 = Refine.maxInt := by
    split at hret
    · obtain ⟨rf1, h1, h2, h3⟩ := refine_notNull t
      simp only [Value.unknown] at hret
      rw [h1] at hret
      simp at hret; subst hret
      exact ⟨rf1, rfl, h2, h3⟩
    · simp at hret; subst hret
      exact ⟨.unref, rfl, rfl, rfl⟩
  obtain ⟨rf1, rfl, hlo1, hhi1⟩ := hret'
  refine ⟨?_, ?_, ?_, ?_⟩
  · intro ns ts os e hs ht
    subst ht
    simp only [hs] at h
    have := refine_len (by simp [lenCall]) h hr
    simp only [loOfAll, hiOfAll, loOf, hiOf, hlo1, hhi1] at this
    by_cases hbig : Refine.maxInt < (ns.length : Int)
    · exact .inr hbig
    · exact .inl ⟨by omega, by omega⟩
  · intro ts e hs ht
    subst ht
    simp only [hs] at h
    have := refine_len (by simp [lenCall]) h hr
    simp only [loOfAll, hiOfAll, loOf, hiOf, hlo1, hhi1] at this
    by_cases hbig : Refine.maxInt < (ts.length : Int)
    · exact .inr hbig
    · exact .inl ⟨by omega, by omega⟩
  · intro ts e hs ht
    subst ht
    simp only [hs] at h
    by_cases hbig : Refine.maxInt < (ts.length : Int)
    · exact .inr hbig
    · left
      split at h
      · rename_i hle
        have := refine_len (by simp [lenCall]) h hr
        simp only [loOfAll, hiOfAll, loOf, hiOf, hlo1, hhi1] at this
        have hle' : (ts.length : Int) ≤ 1 := by exact_mod_cast hle
        exact ⟨by omega, by omega⟩
      · rename_i hle
        have := refine_len (by simp [lenCall]) h hr
        simp only [loOfAll, hiOfAll, loOf, hiOf, hlo1, hhi1] at this
        have hle' : 1 < (ts.length : Int) := by
          have : ¬ ts.length ≤ 1 := hle
          omega
        exact ⟨by omega, by omega⟩
  · intro lo hi e hcoll hlo hhi
    have fin : ∀ calls : List RefineCall, (∀ c ∈ calls, lenCall c = true) →
        Refine.refine ⟨t, .unk rf1⟩ (calls ++ [.lenUpper hi]) = .ok r →
        lenLo rf ≤ max 0 (loOfAll (calls ++ [.lenUpper hi])) ∧
          min Refine.maxInt (hiOfAll (calls ++ [.lenUpper hi])) ≤ lenHi rf := by
      intro calls hcalls h'
      have := refine_len (by
        intro c hc
        rcases List.mem_append.mp hc with hc | hc
        · exact hcalls c hc
        · simp at hc; subst hc; rfl) h' hr
      rw [hlo1, hhi1] at this
      exact this
    constructor
    · intro ht
      subst ht
      by_cases hpos : lo > 0
      · have h' : Refine.refine ⟨.set e, .unk rf1⟩ ([.lenLower 1] ++ [.lenUpper hi]) = .ok r := by
          cases hst : src.ty <;> simp [hst, Refine.isCollectionTy] at hcoll <;>
            simp only [hst, Refine.isCollectionTy, Bool.and_self, if_true, hlo, hhi, Res.bind, hpos] at h <;>
            exact h
        have := fin [.lenLower 1] (by simp [lenCall]) h'
        simp only [List.cons_append, List.nil_append, loOfAll, hiOfAll, loOf, hiOf] at this
        simp only [hpos, if_true]
        exact ⟨by omega, by omega⟩
      · have h' : Refine.refine ⟨.set e, .unk rf1⟩ ([] ++ [.lenUpper hi]) = .ok r := by
          cases hst : src.ty <;> simp [hst, Refine.isCollectionTy] at hcoll <;>
            simp only [hst, Refine.isCollectionTy, Bool.and_self, if_true, hlo, hhi, Res.bind, hpos, if_false] at h <;>
            exact h
        have := fin [] (by simp) h'
        simp only [List.nil_append, loOfAll, hiOfAll, loOf, hiOf] at this
        simp only [hpos, if_false]
        exact ⟨by omega, by omega⟩
    · intro ht
      rcases ht with ht | ht
      · subst ht
        have h' : Refine.refine ⟨.list e, .unk rf1⟩ ([.lenLower lo] ++ [.lenUpper hi]) = .ok r := by
          cases hst : src.ty <;> simp [hst, Refine.isCollectionTy] at hcoll <;>
            simp only [hst, Refine.isCollectionTy, Bool.and_self, if_true, hlo, hhi, Res.bind] at h <;>
            exact h
        have := fin [.lenLower lo] (by simp [lenCall]) h'
        simp only [List.cons_append, List.nil_append, loOfAll, hiOfAll, loOf, hiOf] at this
        exact ⟨by omega, by omega⟩
      · subst ht
        have h' : Refine.refine ⟨.map e, .unk rf1⟩ ([.lenLower lo] ++ [.lenUpper hi]) = .ok r := by
          cases hst : src.ty <;> simp [hst, Refine.isCollectionTy] at hcoll <;>
            simp only [hst, Refine.isCollectionTy, Bool.and_self, if_true, hlo, hhi, Res.bind] at h <;>
            exact h
        have := fin [.lenLower lo] (by simp [lenCall]) h'
        simp only [List.cons_append, List.nil_append, loOfAll, hiOfAll, loOf, hiOf] at this
        exact ⟨by omega, by omega⟩

theorem run_nullness : ∀ {cs : List RefineCall} {b b' : Builder},
    (∀ c ∈ cs, lenCall c = true ∧ c ≠ .notNull) → Refine.run b cs = .ok b' →
    b'.wip.nullness = b.wip.nullness
  | [], b, b', _, h => by simp [Refine.run] at h; subst h; rfl
  | c :: cs, b, b', hc, h => by
    simp only [Refine.run] at h
    obtain ⟨b1, h1, h2⟩ := Res.bind_eq_ok h
    rw [run_nullness (fun x hx => hc x (by simp [hx])) h2,
      stepLen_nullness (hc c (by simp)).1 (hc c (by simp)).2 h1]

/-- without a `NotNull` call an unrefined unknown never becomes definitely-not-null -/
theorem refine_nullness {t : Ty} {rf : Rfn} {cs : List RefineCall} {r : Value}
    (hcs : ∀ c ∈ cs, lenCall c = true ∧ c ≠ .notNull)
    (h : Refine.refine ⟨t, .unk .unref⟩ cs = .ok r) (hr : r.v = .unk rf) : rf.nullness ≠ .f := by
  unfold Refine.refine at h
  obtain ⟨b, hb, h⟩ := Res.bind_eq_ok h
  obtain ⟨b', hb', h⟩ := Res.bind_eq_ok h
  obtain ⟨horig, _, _, hnull⟩ := init_unknown hb
  have hrun := run_nullness hcs hb'
  have horig' : b'.orig = ⟨t, .unk .unref⟩ := by rw [run_orig hb', horig]
  have hn : b'.wip.nullness ≠ .f := by rw [hrun]; exact hnull rfl
  unfold newValue at h
  split at h
  · simp at h; subst h
    simp only [Value.withMarks, horig'] at hr
    have := withMarks_unk hr
    simp at this; subst this
    simp [Rfn.nullness]
  · simp only at h
    split at h
    · simp at h
    · split at h
      · simp at h; subst h
        simp only [Value.withMarks, Value.null] at hr
        have := withMarks_unk hr
        simp at this
      · simp at h; subst h
        simp only [Value.withMarks] at hr
        have := withMarks_unk hr
        simp at this; subst this
        exact hn
      · rename_i hf
        exact absurd hf hn

/-- the result of `prepareUnknownResult` is definitely not null only if the source is -/
theorem prepare_notNull {src : ValueRange} {t : Ty} {r : Value} {rf : Rfn}
    (h : prepareUnknownResult src t = .ok r) (hr : r.v = .unk rf) (hnn : rf.nullness = .f) :
    src.definitelyNotNull = true := by
  by_cases hd : src.definitelyNotNull = true
  · exact hd
  · exfalso
    unfold prepareUnknownResult at h
    simp only [hd] at h
    simp only [Res.bind, Bool.false_eq_true, if_false] at h
    have key : ∀ cs : List RefineCall, (∀ c ∈ cs, lenCall c = true ∧ c ≠ .notNull) →
        Refine.refine (Value.unknown t) cs = .ok r → False :=
      fun cs hcs h' => refine_nullness hcs h' hr hnn
    split at h
    · exact key _ (by simp [lenCall]) h
    · exact key _ (by simp [lenCall]) h
    · split at h
      · exact key _ (by simp [lenCall]) h
      · exact key _ (by simp [lenCall]) h
    · split at h
      · cases hlo : src.lengthLowerBound <;> simp only [hlo] at h <;> try (simp at h; done)
        cases hhi : src.lengthUpperBound <;> simp only [hhi] at h <;> try (simp at h; done)
        refine key _ ?_ h
        intro c hc
        rcases List.mem_append.mp hc with hc | hc
        · split at hc
          · split at hc
            · simp at hc; subst hc; simp [lenCall]
            · simp at hc
          · simp at hc; subst hc; simp [lenCall]
        · simp at hc; subst hc; simp [lenCall]
      · simp [Value.unknown] at h
        subst h
        simp at hr; subst hr
        simp [Rfn.nullness] at hnn

/-! ### the wrapper on null and unknown values, exactly -/

theorem apply_null_exact {E : Env} (hU : UnifyLaws E) {v : Value} {want : Ty} {uns : Bool} {p : Plan}
    (fuel : Nat) (hp : RegularPair v want) (hg : getConv E v.ty want uns = some p)
    (hm : v.isMarked = false) (hk : v.isKnown = true) (hn : v.isNull = true) :
    apply E (fuel + 1) p v = .ok (Value.null want.stripOpt) := by
  obtain ⟨c, _, rfl⟩ := Option.map_eq_some_iff.mp hg
  have hc := hp.conds
  have hnd : want.isDyn = false := not_isDyn_of_noDyn hp.noDyn
  have hrepl := dynRepl_id E v.ty want hc.dynO hc.wfO
  simp [apply, applyStep, hm, hnd, hk, hn, hrepl]

theorem apply_unknown_exact {E : Env} (hU : UnifyLaws E) {v : Value} {want : Ty} {uns : Bool} {p : Plan}
    (fuel : Nat) (hp : RegularPair v want) (hg : getConv E v.ty want uns = some p)
    (hm : v.isMarked = false) (hk : v.isKnown = false) :
    apply E (fuel + 1) p v = (Refine.range v).bind fun rng => prepareUnknownResult rng want.stripOpt := by
  obtain ⟨c, _, rfl⟩ := Option.map_eq_some_iff.mp hg
  have hc := hp.conds
  have hnd : want.isDyn = false := not_isDyn_of_noDyn hp.noDyn
  have hrepl := dynRepl_id E v.ty want hc.dynO hc.wfO
  simp [apply, applyStep, hm, hnd, hk, hrepl]

end Convert
end CtyModel
