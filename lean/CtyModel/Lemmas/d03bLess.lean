/-
d03b — `setRules.Less` on members of a COMPOUND set-free element type (list, map,
tuple, object of strings, bools, numbers): it never fails, it is decided by the
specification `compLessB` (nulls last, then the order of the hash texts), and it is
a strict order that is total between members whose hash texts differ.  With the
injectivity of the hash text (`d03bInj`) a tie between two inequivalent members
is only possible when they are `sameShape` — i.e. differ in number leaves that
agree in 10 significant digits (the recorded finding less-tied-inequivalent-members).
-/
import CtyModel.Lemmas.d03bInj
import CtyModel.Lemmas.d03SetVal
namespace CtyModel
namespace D03b
open Value

theorem lvl_hb_eq (n : Nat) {e : Ty} (hp : e.plain = true) {x : Payload} (wx : x.shaped e = true) :
    (lvl (n + 1)).hb e x = hashBytesP e x := by
  rw [hashBytesP_eq_hashS (lvl n).setHash hp wx]; rfl

theorem lvl_less_comp (n : Nat) {e : Ty} (hw : e.wf = true) (hp : e.plain = true) (hc : e.isPrim = false)
    {x y : Payload} (wx : x.shaped e = true) (wy : y.shaped e = true) (qx : x.quotable = true) (qy : y.quotable = true) :
    (lvl (n + 1)).less e x y = .ok (compLessB e x y) := by
  obtain ⟨hx, ehx⟩ := hashS_ok (lvl n).setHash e x hp wx qx
  obtain ⟨hy, ehy⟩ := hashS_ok (lvl n).setHash e y hp wy qy
  have e1 : (lvl (n + 1)).hb e x = .ok hx := ehx
  have e2 : (lvl (n + 1)).hb e y = .ok hy := ehy
  have e1' : hashBytesP e x = .ok hx := by rw [← lvl_hb_eq n hp wx]; exact e1
  have e2' : hashBytesP e y = .ok hy := by rw [← lvl_hb_eq n hp wy]; exact e2
  simp only [Lvl.less, lvl_raw_eq _ hw hp wx wy, Res.bind_ok, compLessB, e1', e2']
  cases hr : rawB e x y
  · simp only [Bool.false_eq_true, if_false]
    by_cases h1 : (y.isNull && !x.isNull) = true
    · simp [h1]
    · simp only [h1]
      by_cases h2 : x.isNull = true
      · simp [h2]
      · simp only [h2]
        by_cases h3 : (x.isKnown && !y.isKnown) = true
        · simp [h3]
        · simp only [h3]
          by_cases h4 : (!x.isKnown) = true
          · simp [h4]
          · simp only [h4]
            cases e <;> simp [Ty.isPrim] at hc <;> simp [e1, e2, Res.bind_ok]
  · simp


/-! ### the order on wholly known members -/

/-- the members the order is proved for: `intMember` (well-formed, wholly known, no
mark, integer numbers) with quotable strings -/
def CM (e : Ty) (p : Payload) : Prop := p.intMember e = true ∧ p.quotable = true

theorem wk_isKnown {p : Payload} (h : p.whollyKnown = true) (hm : p.containsMarked = false) : p.isKnown = true := by
  cases p <;> simp_all [Payload.whollyKnown, Payload.containsMarked, Payload.isKnown, Payload.unmark1]

theorem isNull_iff {p : Payload} (hm : p.containsMarked = false) : p.isNull = true ↔ p = .null := by
  cases p <;> simp_all [Payload.containsMarked, Payload.isNull, Payload.unmark1]

theorem CM.hash {e : Ty} (hp : e.plain = true) {x : Payload} (hx : CM e x) : ∃ h, hashBytesP e x = .ok h := by
  obtain ⟨wx, _, _, _⟩ := Payload.intMember_spec hx.1
  obtain ⟨h, eh⟩ := hashS_ok (lvl x.depth).setHash e x hp wx hx.2
  exact ⟨h, eh⟩

theorem rawB_null_left {e : Ty} {y : Payload} : rawB e .null y = true ↔ y = .null := by
  cases y <;> simp [rawB]

theorem rawB_null_right {e : Ty} {x : Payload} (mx : x.containsMarked = false) : rawB e x .null = true ↔ x = .null := by
  cases x <;> simp_all [rawB, Payload.containsMarked]
  all_goals (cases e <;> simp [rawB])

/-- `compLessB` between two members, spelled out -/
theorem compLessB_iff {e : Ty} {x y : Payload} (hx : CM e x) (hy : CM e y) {bx by' : Bytes}
    (ex : hashBytesP e x = .ok bx) (ey : hashBytesP e y = .ok by') :
    compLessB e x y = true ↔
      rawB e x y = false ∧ x.isNull = false ∧ (y.isNull = true ∨ bytesLt bx by' = true) := by
  obtain ⟨_, kx, mx, _⟩ := Payload.intMember_spec hx.1
  obtain ⟨_, ky, my, _⟩ := Payload.intMember_spec hy.1
  have k1 := wk_isKnown kx mx
  have k2 := wk_isKnown ky my
  simp only [compLessB, ex, ey, k1, k2]
  cases hr : rawB e x y <;> cases hn : x.isNull <;> cases hm : y.isNull <;> simp

/-- **`Less` is a strict order on compound members, total between members that are
not `RawEquals` and whose hash texts differ** -/
theorem compLessB_strictTotal {e : Ty} (hp : e.plain = true) (l : List Payload) (hl : ∀ p ∈ l, CM e p)
    (htf : ∀ a ∈ l, ∀ b ∈ l, rawB e a b = true ∨ hashBytesP e a ≠ hashBytesP e b) :
    (∀ a ∈ l, compLessB e a a = false) ∧
    (∀ a ∈ l, ∀ b ∈ l, ∀ c ∈ l, compLessB e a b = true → compLessB e b c = true → compLessB e a c = true) ∧
    (∀ a ∈ l, ∀ b ∈ l, rawB e a b = false → compLessB e a b = true ∨ compLessB e b a = true) := by
  refine ⟨fun a ha => ?_, fun a ha b hb c hc h1 h2 => ?_, ?_⟩
  · have wa := (Payload.intMember_spec (hl a ha).1).1
    simp [compLessB, rawB_refl e a hp wa]
  · obtain ⟨ba, ea⟩ := (hl a ha).hash hp
    obtain ⟨bb, eb⟩ := (hl b hb).hash hp
    obtain ⟨bc, ec⟩ := (hl c hc).hash hp
    rw [compLessB_iff (hl a ha) (hl b hb) ea eb] at h1
    rw [compLessB_iff (hl b hb) (hl c hc) eb ec] at h2
    rw [compLessB_iff (hl a ha) (hl c hc) ea ec]
    obtain ⟨wa, _, ma, ia⟩ := Payload.intMember_spec (hl a ha).1
    obtain ⟨wc, _, mc, ic⟩ := Payload.intMember_spec (hl c hc).1
    have hbn : b.isNull = false := h2.2.1
    have hab : bytesLt ba bb = true := by
      rcases h1.2.2 with h | h
      · rw [hbn] at h; cases h
      · exact h
    refine ⟨?_, h1.2.1, ?_⟩
    · cases hr : rawB e a c
      · rfl
      · exfalso
        rcases h2.2.2 with h | h
        · have : c = .null := (isNull_iff mc).mp h
          subst this
          have : a = .null := (rawB_null_right ma).mp hr
          subst this
          simp [Payload.isNull, Payload.unmark1] at h1
        · have := hashBytesP_eq_of_rawB_ints hp wa ia wc ic hr
          simp only [ea, ec, Res.ok.injEq] at this
          subst this
          have := bytesLt_trans _ _ _ h hab
          rw [bytesLt_irrefl] at this
          cases this
    · rcases h2.2.2 with h | h
      · exact Or.inl h
      · exact Or.inr (bytesLt_trans _ _ _ hab h)
  · intro a ha b hb hr
    have hor := htf a ha b hb
    obtain ⟨ba, ea⟩ := (hl a ha).hash hp
    obtain ⟨bb, eb⟩ := (hl b hb).hash hp
    obtain ⟨wa, _, ma, _⟩ := Payload.intMember_spec (hl a ha).1
    obtain ⟨wb, _, mb, _⟩ := Payload.intMember_spec (hl b hb).1
    have hr' : rawB e b a = false := by rw [rawB_symm e b a hp wb wa]; exact hr
    rw [compLessB_iff (hl a ha) (hl b hb) ea eb, compLessB_iff (hl b hb) (hl a ha) eb ea]
    have hne : ba ≠ bb := by
      rcases hor with h | h
      · rw [hr] at h; cases h
      · intro e'; apply h; rw [ea, eb, e']
    cases hna : a.isNull <;> cases hnb : b.isNull
    · rcases bytesLt_total ba bb hne with h | h
      · exact Or.inl ⟨hr, rfl, Or.inr h⟩
      · exact Or.inr ⟨hr', rfl, Or.inr h⟩
    · exact Or.inl ⟨hr, rfl, Or.inl rfl⟩
    · exact Or.inr ⟨hr', rfl, Or.inl rfl⟩
    · have e1 := (isNull_iff ma).mp hna
      have e2 := (isNull_iff mb).mp hnb
      subst e1; subst e2
      simp [rawB] at hr


theorem ctyLessB_comp {e : Ty} (hw : e.wf = true) (hp : e.plain = true) (hc : e.isPrim = false) {x y : Payload}
    (hx : CM e x) (hy : CM e y) : Value.setLess e x y = .ok (ctyLessB e x y) ∧ ctyLessB e x y = compLessB e x y := by
  have h := lvl_less_comp (max x.depth y.depth) hw hp hc (Payload.intMember_spec hx.1).1 (Payload.intMember_spec hy.1).1
    hx.2 hy.2
  simp only [ctyLessB, setLess, h, and_self]

/-- the decidable carrier implies the hypothesis of `compLessB_strictTotal` -/
theorem tieFree_spec {e : Ty} (hw : e.wf = true) (hp : e.plain = true) {l : List Payload}
    (hl : ∀ p ∈ l, p.shaped e = true) (h : Payload.tieFree e l = true) :
    ∀ a ∈ l, ∀ b ∈ l, rawB e a b = true ∨ hashBytesP e a ≠ hashBytesP e b := by
  intro a ha b hb
  simp only [Payload.tieFree, List.all_eq_true, Bool.or_eq_true] at h
  rcases h a ha b hb with h | h
  · left
    have hr := rawEquals_eq_rawB ⟨e, a⟩ ⟨e, b⟩ ((Value.shaped_iff _).mpr ⟨hw, hl a ha⟩)
      ((Value.shaped_iff _).mpr ⟨hw, hl b hb⟩) hp
    simp only [rawEq, decide_true, Bool.true_and] at hr
    simp only [Payload.rawTrue, hr] at h
    cases hq : rawB e a b
    · rw [hq] at h; cases h
    · rfl
  · right
    intro e'
    simp only [Payload.hashDiffer, e'] at h
    split at h
    · rename_i x y h1 h2
      rw [h1] at h2; injection h2 with h2
      simp [h2] at h
    · cases h

/-- **a tie is explained**: two compound members that `Less` orders neither way and
that are not `RawEquals` are `sameShape` — they differ at most in number leaves
with the same hashed text -/
theorem tie_sameShape {e : Ty} (hw : e.wf = true) (hp : e.plain = true) (hsf : e.setFree = true) {x y : Payload}
    (hx : CM e x) (hy : CM e y) (nx : x.numTextsOk = true) (ny : y.numTextsOk = true)
    (hr : rawB e x y = false) (h1 : compLessB e x y = false) (h2 : compLessB e y x = false) :
    Value.sameShape ⟨e, x⟩ ⟨e, y⟩ = true := by
  obtain ⟨bx, ex⟩ := hx.hash hp
  obtain ⟨by', ey⟩ := hy.hash hp
  obtain ⟨wx, _, mx, _⟩ := Payload.intMember_spec hx.1
  obtain ⟨wy, _, my, _⟩ := Payload.intMember_spec hy.1
  have hr' : rawB e y x = false := by rw [rawB_symm e y x hp wy wx]; exact hr
  have n1 : ¬ compLessB e x y = true := by simp [h1]
  have n2 : ¬ compLessB e y x = true := by simp [h2]
  rw [compLessB_iff hx hy ex ey] at n1
  rw [compLessB_iff hy hx ey ex] at n2
  have hbb : bx = by' := by
    cases hnx : x.isNull <;> cases hny : y.isNull
    · apply Classical.byContradiction
      intro hne
      rcases bytesLt_total bx by' hne with h | h
      · exact n1 ⟨hr, hnx, Or.inr h⟩
      · exact n2 ⟨hr', hny, Or.inr h⟩
    · exact absurd ⟨hr, hnx, Or.inl hny⟩ n1
    · exact absurd ⟨hr', hny, Or.inl hnx⟩ n2
    · have e1 := (isNull_iff mx).mp hnx
      have e2 := (isNull_iff my).mp hny
      subst e1; subst e2
      simp [rawB] at hr
  subst hbb
  exact sameShape_of_hashBytes_eq hw hsf wx wy nx ny ex ey

end D03b
end CtyModel
