/-
d03b — capsule types.  `setRules{capsule}` with the capsule type's `Equals`,
`RawEquals` and `HashKey` callbacks as parameters (`CapsuleOps`, SetRulesD03b.lean):
the contract of `cty/set` holds when `Equals` is an equivalence and equal capsules
have equal hash keys; `Less` is then a strict order, total between inequivalent
capsules, when in addition the hash key tells inequivalent capsules apart and
`RawEquals` agrees with `Equals`.
-/
import CtyModel.Lemmas.d03bInj
import CtyModel.Lemmas.SetRefineAlg
namespace CtyModel
namespace CapsuleOps
open D03b

theorem rules_lawful {ops : CapsuleOps} (h : ops.Lawful) : ops.rules.Lawful := by
  refine ⟨h.refl, h.symm, h.trans, fun a b hab => ?_⟩
  simp only [rules, hashText]
  cases hk : ops.hashKey with
  | none => rfl
  | some k => simp only [h.key_eq k hk a b hab]

/-- the hash text determines the hash key -/
theorem hashText_inj {ops : CapsuleOps} {k : Nat → String} (hk : ops.hashKey = some k) {a b : Nat} {x : Bytes}
    (ha : ops.hashText a = .ok x) (hb : ops.hashText b = .ok x) : k a = k b := by
  simp only [hashText, hk] at ha hb
  obtain ⟨o1, r1, e1, hr1, rfl⟩ := app_inv ha
  obtain ⟨qa, c1, hqa, ec1, rfl⟩ := app_inv hr1
  obtain ⟨o2, r2, e2, hr2, hx⟩ := app_inv hb
  obtain ⟨qb, c2, hqb, ec2, rfl⟩ := app_inv hr2
  injection e1 with e1; injection e2 with e2; injection ec1 with ec1; injection ec2 with ec2
  subst e1; subst e2; subst ec1; subst ec2
  obtain ⟨ca, hca, rfl⟩ := quote_ok hqa
  obtain ⟨cb, hcb, rfl⟩ := quote_ok hqb
  have e : sb (['«'] ++ (ca ++ ['»'])) = sb (['«'] ++ (cb ++ ['»'])) := by
    rw [sb_append, sb_append, sb_append, sb_append]; exact hx
  have := sb_inj e
  simp only [List.cons_append, List.nil_append, List.cons.injEq, true_and] at this
  exact (qC_prefix hca hcb this).1

/-- **`Less` on capsules is a strict order, total between inequivalent capsules** —
under a lawful `Equals`, a hash key that separates inequivalent capsules, a
`RawEquals` that agrees with `Equals`, and quotable keys -/
theorem less_strictTotal {ops : CapsuleOps} (h : ops.Lawful) (hi : ops.KeyInjective)
    (hr : ∀ a b, ops.rawEqv a b = ops.eqv a b) (hq : ∀ a, ∃ x, ops.hashText a = .ok x) (l : List Nat) :
    SetImpl.StrictTotalOn ops.rules ops.lessB l := by
  obtain ⟨k, hk, hinj⟩ := hi
  have key : ∀ a b x, ops.hashText a = .ok x → ops.hashText b = .ok x → ops.eqv a b = true :=
    fun a b x ha hb => hinj a b (hashText_inj hk ha hb)
  have spec : ∀ a b x y, ops.hashText a = .ok x → ops.hashText b = .ok y →
      (ops.lessB a b = true ↔ ops.eqv a b = false ∧ bytesLt x y = true) := by
    intro a b x y ha hb
    simp only [lessB, hr, ha, hb]
    cases ops.eqv a b <;> simp
  refine ⟨fun a _ => ?_, fun a _ b _ c _ h1 h2 => ?_, fun a _ b _ hne => ?_⟩
  · simp [lessB, hr, h.refl]
  · obtain ⟨x, ha⟩ := hq a
    obtain ⟨y, hb⟩ := hq b
    obtain ⟨z, hc⟩ := hq c
    rw [spec a b x y ha hb] at h1
    rw [spec b c y z hb hc] at h2
    rw [spec a c x z ha hc]
    have hxz := bytesLt_trans _ _ _ h1.2 h2.2
    refine ⟨?_, hxz⟩
    cases hac : ops.eqv a c
    · rfl
    · exfalso
      have ekey := h.key_eq k hk a c hac
      have : x = z := by
        simp only [hashText, hk, ekey] at ha hc
        rw [ha] at hc; injection hc
      subst this
      rw [bytesLt_irrefl] at hxz; cases hxz
  · obtain ⟨x, ha⟩ := hq a
    obtain ⟨y, hb⟩ := hq b
    have hne' : ops.eqv a b = false := hne
    have hne'' : ops.eqv b a = false := by
      cases hba : ops.eqv b a
      · rfl
      · rw [h.symm b a hba] at hne'; cases hne'
    rw [spec a b x y ha hb, spec b a y x hb ha]
    have hxy : x ≠ y := by
      intro e; subst e
      rw [key a b x ha hb] at hne'; cases hne'
    rcases bytesLt_total x y hxy with h' | h'
    · exact Or.inl ⟨hne', h'⟩
    · exact Or.inr ⟨hne'', h'⟩

/-! ### instances -/

/-- a capsule type without operations: pointer identity, one hash for all -/
def plainOps : CapsuleOps := ⟨none, none, none⟩

theorem plainOps_lawful : plainOps.Lawful := by
  refine ⟨?_, ?_, ?_, ?_⟩ <;> simp [plainOps, eqv, rawEqv]

/-- a capsule type whose `Equals` compares a key and whose `HashKey` is that key -/
def keyedOps (k : Nat → String) : CapsuleOps := ⟨some fun a b => k a == k b, some fun a b => k a == k b, some k⟩

theorem keyedOps_lawful (k : Nat → String) : (keyedOps k).Lawful := by
  refine ⟨?_, ?_, ?_, ?_⟩ <;> simp [keyedOps, eqv]
  · intro a b h; exact h.symm
  · intro a b c h1 h2; exact h1.trans h2

theorem keyedOps_injective (k : Nat → String) : (keyedOps k).KeyInjective :=
  ⟨k, rfl, fun a b h => by simp [keyedOps, eqv, h]⟩

/-- a capsule type whose `HashKey` is FINER than its `Equals` (all capsules are equal, two keys) -/
def finerKeyOps : CapsuleOps :=
  ⟨some fun _ _ => true, some fun _ _ => true, some fun a => if a == 0 then "a" else "b"⟩

end CapsuleOps
end CtyModel
