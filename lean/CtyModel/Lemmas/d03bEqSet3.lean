/-
d03b — the set branch of `Equals` on two well-formed set nodes is `RawEquals` of
their transliterations: mutual inclusion through `Has` ⇔ the two `Less`-sorted
member lists are `RawEquals` position by position.
-/
import CtyModel.Lemmas.d03bEqSet2
namespace CtyModel
namespace D03b
open Value SetImpl

/-- `RawEquals` of the transliterated members -/
def R' (e : Ty) (x y : Payload) : Bool := rawB (enc e) (canon e x) (canon e y)

/-- a well-formed set node: bucket ids are the members' hashes, the members are
admitted, pairwise not `RawEquals`, and strictly totally ordered by `Less` -/
structure SetWF (e : Ty) (ids : List Int) (vs : List Payload) : Prop where
  ids_eq : ids = vs.map (ctyRules e).hash
  mem : ∀ v ∈ vs, M e v
  distinct : vs.Pairwise fun a b => R' e a b = false
  total : StrictTotalOnList (ctyLessB e) vs

theorem R'_symm {e : Ty} (hc : capFree e = true) {x y : Payload} (hx : M e x) (hy : M e y) (h : R' e x y = true) :
    R' e y x = true := by
  simp only [R'] at h ⊢
  rw [rawB_symm _ _ _ (enc_plain e hc) (canon_G e y hy.1).1 (canon_G e x hx.1).1]; exact h

theorem R'_trans {e : Ty} (hc : capFree e = true) {x y z : Payload} (hx : M e x) (hy : M e y) (hz : M e z)
    (h1 : R' e x y = true) (h2 : R' e y z = true) : R' e x z = true :=
  rawB_trans _ _ _ _ (enc_plain e hc) (canon_G e x hx.1).1 (canon_G e y hy.1).1 (canon_G e z hz.1).1 h1 h2

/-- partners hash alike -/
theorem R'_hash {e : Ty} (hc : capFree e = true) {x y : Payload} (hx : M e x) (hy : M e y) (h : R' e x y = true) :
    (ctyRules e).hash x = (ctyRules e).hash y := by
  have hb : hashBytes ⟨e, x⟩ = hashBytes ⟨e, y⟩ := by
    show hashBytesP e x = hashBytesP e y
    rw [hashBytesP_enc hc hx.1, hashBytesP_enc hc hy.1]
    exact hashBytesP_eq_of_rawB_ints (enc_plain e hc) (canon_G e x hx.1).1 (canon_intNums hx.2.2)
      (canon_G e y hy.1).1 (canon_intNums hy.2.2) h
  simp only [ctyRules, Value.hash, hb, Value.containsMarked, hx.1.2.1, hy.1.2.1]

theorem rawBAll_map (e : Ty) : ∀ (l1 l2 : List Payload),
    rawBAll (enc e) (l1.map (canon e)) (l2.map (canon e)) = pairR (R' e) l1 l2
  | [], _ => by simp [rawBAll, pairR]
  | _ :: _, [] => by simp [rawBAll, pairR]
  | x :: l1, y :: l2 => by simp [rawBAll, pairR, R', rawBAll_map e l1 l2]

theorem any_iff {xs : List Payload} {f : Payload → Bool} : xs.any f = true ↔ ∃ y ∈ xs, f y = true := by simp

/-- **the set branch of `Equals`** -/
theorem setEquals_spec (rec : EqRec) {e : Ty} (hc : capFree e = true) {ix iy : List Int} {xs ys : List Payload}
    (wx : SetWF e ix xs) (wy : SetWF e iy ys)
    (hrec : ∀ x y, (x ∈ xs ∨ x ∈ ys) → (y ∈ xs ∨ y ∈ ys) → rec e x e y = .ok (boolVal (R' e x y))) :
    setInclWK rec e ix xs iy ys = .ok (some (xs.all fun x => ys.any (R' e x))) ∧
    setInclWK rec e iy ys ix xs = .ok (some (ys.all fun y => xs.any (R' e y))) ∧
    ((xs.all fun x => ys.any (R' e x)) && (ys.all fun y => xs.any (R' e y))) =
      rawB (.list (enc e)) (canonSet e xs) (canonSet e ys) := by
  refine ⟨?_, ?_, ?_⟩
  · rw [wx.ids_eq, wy.ids_eq]
    exact setInclWK_spec rec e (R' e) _ ys xs (fun x hx => (wx.mem x hx).2.1)
      (fun x hx y hy => hrec x y (Or.inl hx) (Or.inr hy))
      (fun x hx y hy h => R'_hash hc (wx.mem x hx) (wy.mem y hy) h)
  · rw [wx.ids_eq, wy.ids_eq]
    exact setInclWK_spec rec e (R' e) _ xs ys (fun y hy => (wy.mem y hy).2.1)
      (fun y hy x hx => hrec y x (Or.inr hy) (Or.inl hx))
      (fun y hy x hx h => R'_hash hc (wy.mem y hy) (wx.mem x hx) h)
  · let less := fun x y => lessEnc e (canon e x) (canon e y)
    have gx : GAll e xs := GAll_iff.mpr fun v hv => (wx.mem v hv).1
    have gy : GAll e ys := GAll_iff.mpr fun v hv => (wy.mem v hv).1
    have tx := strictTotal_enc hc gx wx.total
    have ty := strictTotal_enc hc gy wy.total
    have px := sortStable_perm less xs
    have py := sortStable_perm less ys
    rw [canonSet_eq, canonSet_eq]
    simp only [rawB, List.length_map, rawBAll_map]
    rw [Bool.eq_iff_iff]
    simp only [Bool.and_eq_true, List.all_eq_true, any_iff, beq_iff_eq]
    constructor
    · rintro ⟨h1, h2⟩
      have sx := sortStable_sorted less xs tx
      have sy := sortStable_sorted less ys ty
      have dx : (sortStable less xs).Pairwise fun a b => R' e a b = false :=
        (List.Perm.pairwise_iff (l₁ := xs) (fun {a b} (h : (M e a ∧ M e b) ∧ R' e a b = false) => by
          refine ⟨⟨h.1.2, h.1.1⟩, ?_⟩
          cases hq : R' e b a
          · rfl
          · rw [R'_symm hc h.1.2 h.1.1 hq] at h; exact absurd h.2 (by simp)) px.symm).mp
          (wx.distinct.imp_of_mem fun ha hb h => ⟨⟨wx.mem _ ha, wx.mem _ hb⟩, h⟩) |>.imp fun h => h.2
      have dy : (sortStable less ys).Pairwise fun a b => R' e a b = false :=
        (List.Perm.pairwise_iff (l₁ := ys) (fun {a b} (h : (M e a ∧ M e b) ∧ R' e a b = false) => by
          refine ⟨⟨h.1.2, h.1.1⟩, ?_⟩
          cases hq : R' e b a
          · rfl
          · rw [R'_symm hc h.1.2 h.1.1 hq] at h; exact absurd h.2 (by simp)) py.symm).mp
          (wy.distinct.imp_of_mem fun ha hb h => ⟨⟨wy.mem _ ha, wy.mem _ hb⟩, h⟩) |>.imp fun h => h.2
      have mx : ∀ a ∈ sortStable less xs, M e a := fun a ha => wx.mem a (px.mem_iff.mp ha)
      have my : ∀ a ∈ sortStable less ys, M e a := fun a ha => wy.mem a (py.mem_iff.mp ha)
      exact sorted_match (R' e) less (M e) (fun a b sa sb => R'_symm hc sa sb)
        (fun a b c sa sb sc => R'_trans hc sa sb sc)
        (fun a a' b b' sa sa' sb sb' r1 r2 => lessEnc_compat hc sa.cm sa'.cm sb.cm sb'.cm r1 r2)
        _ _ mx my (fun a ha => tx.irrefl a (px.mem_iff.mp ha))
        (fun a ha b hb c hc' => tx.trans a (px.mem_iff.mp ha) b (px.mem_iff.mp hb) c (px.mem_iff.mp hc'))
        sx sy dx dy
        (fun a ha => by
          obtain ⟨b, hb, h⟩ := h1 a (px.mem_iff.mp ha)
          exact ⟨b, py.mem_iff.mpr hb, h⟩)
        (fun b hb => by
          obtain ⟨a, ha, h⟩ := h2 b (py.mem_iff.mp hb)
          exact ⟨a, px.mem_iff.mpr ha, R'_symm hc (wy.mem b (py.mem_iff.mp hb)) (wx.mem a ha) h⟩)
    · rintro ⟨hl, hp⟩
      refine ⟨fun x hx => ?_, fun y hy => ?_⟩
      · obtain ⟨b, hb, h⟩ := incl_of_pairR (R' e) _ _ hl hp x (px.mem_iff.mpr hx)
        exact ⟨b, py.mem_iff.mp hb, h⟩
      · obtain ⟨a, ha, h⟩ := incl_of_pairR' (R' e) _ _ hl hp y (py.mem_iff.mpr hy)
        exact ⟨a, px.mem_iff.mp ha, R'_symm hc (wx.mem a (px.mem_iff.mp ha)) (wy.mem y hy) h⟩


/-! ### `Equals` of two set values whose members are of a set-free type -/

theorem R'_plain {e : Ty} (hc : capFree e = true) (hp : e.plain = true) {x y : Payload} (hx : G e x) (hy : G e y) :
    R' e x y = rawB e x y := by
  have hw := capFree_wf e hc
  have h1 := rawEquals_eq_rawB ⟨e, x⟩ ⟨e, y⟩ ((Value.shaped_iff _).mpr ⟨hw, hx.1⟩) ((Value.shaped_iff _).mpr ⟨hw, hy.1⟩) hp
  have h2 : rawEq ⟨e, x⟩ ⟨e, y⟩ = .ok (R' e x y) := rawEqP_enc hc hx hy
  rw [h2] at h1
  simpa using h1

/-- **`Equals` of two well-formed set values of set-free members** is `RawEquals` of
their transliterations -/
theorem equals_set_plain {e : Ty} (hc : capFree e = true) (hp : e.plain = true) {ix iy : List Int}
    {xs ys : List Payload} (wx : SetWF e ix xs) (wy : SetWF e iy ys) :
    Value.equals ⟨.set e, .sset ix xs⟩ ⟨.set e, .sset iy ys⟩ =
      .ok (boolVal (rawB (.list (enc e)) (canonSet e xs) (canonSet e ys))) := by
  have hw := capFree_wf e hc
  have gx : GAll e xs := GAll_iff.mpr fun v hv => (wx.mem v hv).1
  have gy : GAll e ys := GAll_iff.mpr fun v hv => (wy.mem v hv).1
  have kx : Payload.whollyKnownL xs = true := whollyKnownL_iff.mpr fun v hv => (wx.mem v hv).2.1
  have ky : Payload.whollyKnownL ys = true := whollyKnownL_iff.mpr fun v hv => (wy.mem v hv).2.1
  have hself : (Ty.set e).equals (Ty.set e) = true := Ty.equals_self (by simpa [Ty.wf] using hw)
  have hrec : ∀ x y, (x ∈ xs ∨ x ∈ ys) → (y ∈ xs ∨ y ∈ ys) →
      equalsFuel (max (Payload.sset ix xs).depth (Payload.sset iy ys).depth) e x e y = .ok (boolVal (R' e x y)) := by
    intro x y hx hy
    have mx : M e x ∧ x.depth ≤ max (Payload.sset ix xs).depth (Payload.sset iy ys).depth := by
      simp only [Payload.depth]
      rcases hx with h | h
      · exact ⟨wx.mem x h, by have := depth_le_of_mem h; omega⟩
      · exact ⟨wy.mem x h, by have := depth_le_of_mem h; omega⟩
    have my : M e y ∧ y.depth ≤ max (Payload.sset ix xs).depth (Payload.sset iy ys).depth := by
      simp only [Payload.depth]
      rcases hy with h | h
      · exact ⟨wx.mem y h, by have := depth_le_of_mem h; omega⟩
      · exact ⟨wy.mem y h, by have := depth_le_of_mem h; omega⟩
    rw [R'_plain hc hp mx.1.1 my.1.1]
    exact equalsFuel_ok _ e x y hw hp ⟨mx.1.1.1, mx.1.2.1, mx.1.1.2.1, mx.2⟩ ⟨my.1.1.1, my.1.2.1, my.1.1.2.1, my.2⟩
  obtain ⟨s1, s2, s3⟩ := setEquals_spec _ hc wx wy hrec
  simp only [Value.equals, Value.containsMarked, Payload.containsMarked, gx.2.1, gy.2.1, Bool.or_self,
    Bool.false_eq_true, if_false, equalsP, equalsFuel]
  rw [equalsPre_of_known _ _ _ _ rfl rfl]
  simp only [Payload.isNull, Payload.unmark1, Bool.and_self, Bool.or_self, Bool.false_eq_true, if_false,
    hasWhollyKnownType, hwktAll_of_known _ _ kx, hwktAll_of_known _ _ ky, hself, Bool.not_true, s1, s2, s3]


theorem pairwiseB_spec {α : Type} {r : α → α → Bool} : ∀ {l : List α}, pairwiseB r l = true → l.Pairwise fun a b => r a b = true
  | [], _ => List.Pairwise.nil
  | x :: xs, h => by
    simp only [pairwiseB, Bool.and_eq_true, List.all_eq_true] at h
    exact List.Pairwise.cons h.1 (pairwiseB_spec h.2)

/-- the decidable carrier implies the well-formedness the theorems use -/
theorem setWF_spec {e : Ty} (hc : capFree e = true) {ids : List Int} {vs : List Payload}
    (h : Payload.setWF e ids vs = true) : SetWF e ids vs := by
  simp only [Payload.setWF, Bool.and_eq_true, List.all_eq_true, Bool.not_eq_true', beq_iff_eq] at h
  obtain ⟨⟨⟨h1, h2⟩, h3⟩, h4⟩ := h
  have hm : ∀ v ∈ vs, M e v := fun v hv => by
    obtain ⟨⟨⟨⟨a, b⟩, c⟩, d⟩, f⟩ := h2 v hv
    exact ⟨⟨a, b, c⟩, d, f⟩
  refine ⟨h1, hm, ?_, strictTotalB_spec h4⟩
  refine (pairwiseB_spec h3).imp_of_mem fun {a b} ha hb hab => ?_
  have := rawEqP_enc hc (hm a ha).1 (hm b hb).1
  simp only [Bool.not_eq_true', Payload.rawTrue, this] at hab
  simp only [R']
  cases hq : rawB (enc e) (canon e a) (canon e b)
  · rfl
  · rw [hq] at hab; cases hab

theorem SetWF.g {e : Ty} {ids : List Int} {vs : List Payload} (w : SetWF e ids vs) : G (.set e) (.sset ids vs) := by
  have gx : GAll e vs := GAll_iff.mpr fun v hv => (w.mem v hv).1
  refine ⟨?_, by simpa [Payload.containsMarked] using gx.2.1, by simpa [Payload.quotable] using gx.2.2⟩
  simp [Payload.shaped, w.ids_eq, gx.1]

theorem SetWF.ints {e : Ty} {ids : List Int} {vs : List Payload} (w : SetWF e ids vs) :
    (Payload.sset ids vs).intNums = true := by
  simp only [Payload.intNums, Payload.nums, numsL_all_iff]
  exact fun v hv => (w.mem v hv).2.2

end D03b
end CtyModel
