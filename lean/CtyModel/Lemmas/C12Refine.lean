/-
C12, `RefineResult: refineNonNull` (stdlib general.go: `b.NotNull()`) keeps soundness.

`Function.Call` applies the declared refinement to whatever `Impl` (or the unknown short-circuit)
returned.  If the unrefined weakened result admits the concrete result — which is known and not
null — then so does the refined one, for EVERY refinement kind the weakened result may carry
(nullable / string prefix / numeric bounds / length bounds), including the cases in which
`NewValue` collapses the refined unknown into a known value (equal inclusive bounds, length 0,
list of a known length, one-member set).
-/
import CtyModel.Lemmas.C12Call
import CtyModel.Lemmas.StdOblAcc
import CtyModel.Lemmas.NumCmp
namespace CtyModel
namespace C12L
open Fn Stdlib Refine

/-- `refineNonNull` hands a known, non-null value back unchanged -/
theorem refineNN_known_eq {v : Value} (hm : v.v.isMarked = false) (hk : v.isKnown = true) (hn : v.isNull = false)
    (hb : ∀ w, v.v ≠ .bad w) (hd : v.ty.isDyn = false) : refineNN v = some v.v := by
  obtain ⟨t, p⟩ := v
  cases p <;> simp_all [Value.isKnown, Value.isNull, Payload.isKnown, Payload.isNull, Payload.unmark1, Payload.isMarked]
  all_goals
    cases t <;> simp_all [refineNN, Refine.refine, Refine.init, Value.unmark, Payload.unmark1, Payload.isMarked,
      Refine.run, Refine.step, Refine.Builder.isDyn, Refine.isDynVal, Refine.freshWip, Refine.step1,
      Refine.stepNotNull, Refine.newValue, Res.bind, Value.isKnown, Value.isNull, Payload.isKnown, Payload.isNull,
      Rfn.nullness, Ty.isDyn, Value.withMarks, Payload.withMarks, Value.marks, Payload.marks1, unionMarks]

/-- the work-in-progress refinement `Value.Refine()` starts from on an unknown of type `t` refined `ρ` -/
def nnWip (t : Ty) (ρ : Rfn) : Rfn := if ρ = .unref then freshWip ⟨t, .unk .unref⟩ else ρ

theorem freshWip_unk (t : Ty) (ρ : Rfn) : freshWip ⟨t, .unk ρ⟩ = freshWip ⟨t, .unk .unref⟩ := by
  cases t <;> simp [freshWip, Value.isNull, Payload.isNull, Payload.unmark1]

theorem refine_one (v : Value) (c : RefineCall) :
    refine v [c] = (init v).bind fun b => (step b c).bind newValue := by
  unfold refine run run
  congr 1
  funext b
  cases step b c <;> rfl

theorem setNull_nullness {r : Rfn} (h : r ≠ .unref) (n : Tri) : (setNull n r).nullness = n := by
  cases r <;> simp_all [setNull, Rfn.nullness]

theorem setNull_ne_unref {r : Rfn} (h : r ≠ .unref) (n : Tri) : setNull n r ≠ .unref := by
  cases r <;> simp_all [setNull]

theorem withMarks_nil_unk (t : Ty) (r : Rfn) : (⟨t, .unk r⟩ : Value).withMarks [] = ⟨t, .unk r⟩ := by
  simp [Value.withMarks, Payload.withMarks, Payload.marks1, unionMarks]

/-- `b.NotNull().NewValue()` on the builder of an unknown value that is not `cty.DynamicVal` -/
theorem notNull_newValue (t : Ty) (ρ wip : Rfn) (hd : isDynVal ⟨t, .unk ρ⟩ = false) (hw : wip ≠ .unref)
    (hn : wip.nullness ≠ .t) :
    (step ⟨⟨t, .unk ρ⟩, [], wip⟩ .notNull).bind newValue =
      match collapse t (setNull .f wip) with
      | .ok (some v) => .ok (v.withMarks [])
      | .ok none => .ok ⟨t, .unk (setNull .f wip)⟩
      | .err e => .err e
      | .panic w => .panic w
      | .unmodelled => .unmodelled := by
  have h1 : step ⟨⟨t, .unk ρ⟩, [], wip⟩ .notNull = .ok ⟨⟨t, .unk ρ⟩, [], setNull .f wip⟩ := by
    simp [step, Builder.isDyn, hd, hw, step1, stepNotNull, Value.isKnown, Payload.isKnown, Payload.unmark1, hn]
  rw [h1]
  simp only [Res.bind, newValue, Builder.isDyn, hd, Value.isKnown, Payload.isKnown, Payload.unmark1, Bool.false_or,
    Bool.false_eq_true, if_false, setNull_nullness hw]
  have h2 := setNull_ne_unref hw .f
  cases hs : setNull .f wip with
  | unref => exact absurd hs h2
  | _ => simp only [withMarks_nil_unk] <;> cases collapse t _ <;> rfl

theorem isDynVal_unk (t : Ty) (ρ : Rfn) : isDynVal ⟨t, .unk ρ⟩ = true ↔ (t = .dyn ∧ ρ = .unref) := by
  cases t <;> cases ρ <;> simp [isDynVal]

/-- what `refineNonNull` makes of an unknown value (every way it can succeed) -/
theorem refineNN_unk_cases (t : Ty) (ρ : Rfn) (w : Payload) (h : refineNN ⟨t, .unk ρ⟩ = some w) :
    (isDynVal ⟨t, .unk ρ⟩ = true ∧ w = .unk ρ) ∨
    (isDynVal ⟨t, .unk ρ⟩ = false ∧ (ρ = .unref ∨ kindOk t ρ = true) ∧ nnWip t ρ ≠ .unref ∧ (nnWip t ρ).nullness ≠ .t ∧
      ((collapse t (setNull .f (nnWip t ρ)) = .ok none ∧ w = .unk (setNull .f (nnWip t ρ))) ∨
       ∃ v, collapse t (setNull .f (nnWip t ρ)) = .ok (some v) ∧ w = (v.withMarks []).v)) := by
  unfold refineNN at h
  rw [refine_one] at h
  -- the builder the chain starts from
  have hinit : (init ⟨t, .unk ρ⟩ = .ok ⟨⟨t, .unk ρ⟩, [], nnWip t ρ⟩ ∧ (ρ = .unref ∨ kindOk t ρ = true)) ∨
      init ⟨t, .unk ρ⟩ = .unmodelled := by
    by_cases hρ : ρ = .unref
    · left
      subst hρ
      exact ⟨by simp [init, Value.unmark, Payload.unmark1, Payload.isMarked, Value.marks, Payload.marks1, nnWip], Or.inl rfl⟩
    · cases hk : kindOk t ρ with
      | true =>
        left
        exact ⟨by simp [init, Value.unmark, Payload.unmark1, Payload.isMarked, Value.marks, Payload.marks1, nnWip, hρ, hk], Or.inr rfl⟩
      | false =>
        right
        simp [init, Value.unmark, Payload.unmark1, Payload.isMarked, Value.marks, Payload.marks1, hρ, hk]
  rcases hinit with ⟨hi, hk⟩ | hi
  · rw [hi] at h
    change (match (step ⟨⟨t, .unk ρ⟩, [], nnWip t ρ⟩ .notNull).bind newValue with
      | .ok r => some r.v
      | _ => none) = some w at h
    cases hd : isDynVal ⟨t, .unk ρ⟩ with
    | true =>
      left
      refine ⟨rfl, ?_⟩
      simp [step, Builder.isDyn, hd, Res.bind, newValue, Value.isKnown, Payload.isKnown, Payload.unmark1,
        withMarks_nil_unk] at h
      exact h.symm
    | false =>
      right
      by_cases hw : nnWip t ρ = .unref
      · simp [step, Builder.isDyn, hd, hw, Res.bind] at h
      · by_cases hn : (nnWip t ρ).nullness = .t
        · simp [step, Builder.isDyn, hd, hw, step1, stepNotNull, Value.isKnown, Payload.isKnown, Payload.unmark1, hn,
            Res.bind] at h
        · rw [notNull_newValue t ρ _ hd hw hn] at h
          refine ⟨rfl, hk, hw, hn, ?_⟩
          cases hc : collapse t (setNull .f (nnWip t ρ)) with
          | ok o =>
            rw [hc] at h
            cases o with
            | none => left; simp at h; exact ⟨rfl, h.symm⟩
            | some v => right; simp at h; exact ⟨v, rfl, h.symm⟩
          | err e => rw [hc] at h; simp at h
          | panic e => rw [hc] at h; simp at h
          | unmodelled => rw [hc] at h; simp at h
  · rw [hi] at h
    simp [Res.bind] at h

theorem payload_withMarks_nil (p : Payload) (h : p.marks1 = []) : p.withMarks [] = p := by
  simp [Payload.withMarks, h, unionMarks]

theorem stripMarksL_replicate_unk (n : Nat) :
    Payload.stripMarksL (List.replicate n (.unk .unref)) = List.replicate n (.unk .unref) := by
  induction n with
  | zero => rfl
  | succ n ih => simp [List.replicate_succ, Payload.stripMarksL, Payload.stripMarks, ih]

/-- the top of the payload has the Go kind its type prescribes, and collection lengths fit a Go `int`
(representation invariants of `cty.Value`, part of property C06) -/
def fitsTop : Ty → Payload → Bool
  | .string, .s _ => true
  | .number, .n _ => true
  | .bool, .b _ => true
  | .list _, .seq vs => decide ((vs.length : Int) ≤ CtyModel.maxInt)
  | .set _, .sset _ vs => decide ((vs.length : Int) ≤ CtyModel.maxInt)
  | .map _, .smap ks vs => ks.length == vs.length && decide ((vs.length : Int) ≤ CtyModel.maxInt)
  | .tuple _, .seq _ => true
  | .object _ _ _, .smap _ _ => true
  | .capsule _, .caps => true
  | _, _ => false

theorem rfnAdmitsKnown_setNull (n : Tri) (r : Rfn) (c : Payload) :
    Cov.rfnAdmitsKnown (setNull n r) c = Cov.rfnAdmitsKnown r c := by
  cases r <;> rfl

theorem coversL_replicate_unref (ex : Bool) : ∀ (cs : List Payload),
    Cov.coversL ex (List.replicate cs.length (.unk .unref)) (Payload.stripMarksL cs) = true
  | [] => by simp [Cov.coversL, Payload.stripMarksL]
  | c :: cs => by
    simp only [List.length_cons, List.replicate_succ, Payload.stripMarksL, Cov.coversL, Cov.coversP,
      admits_unref_strip, Bool.true_and]
    exact coversL_replicate_unref ex cs

/-- the fresh refinement of a type excludes no known non-null value of that type -/
theorem freshWip_admits (t rt : Ty) (c : Payload) (htd : t ≠ .dyn) (hm : Ty.matches t rt = true)
    (hfit : fitsTop rt c = true) : Cov.rfnAdmitsKnown (freshWip ⟨t, .unk .unref⟩) c = true := by
  cases t <;> simp at htd <;> cases rt <;> simp [Ty.matches] at hm <;> cases c <;> simp [fitsTop] at hfit <;>
    simp [freshWip, Cov.rfnAdmitsKnown, Value.hasPrefix, Cov.loInside, Cov.hiInside, Cov.pt, Cov.negInfB, Cov.posInfB,
      Cov.possibleLen]
  · rename_i x
    have h1 := NumCmp.cmp_negInf x
    have h2 := NumCmp.cmp_posInf x
    have h3 := NumCmp.cmp_swap x (.inf true)
    constructor <;> apply decide_eq_true <;> omega
  · exact hfit
  · have hm2 : Refine.maxInt = CtyModel.maxInt := rfl
    rw [hm2]
    split
    · rename_i l h heq
      split at heq <;> simp at heq <;> obtain ⟨rfl, rfl⟩ := heq <;> simp <;> omega
    · rename_i heq
      split at heq <;> simp at heq
  · exact hfit.2

theorem stripMarks_clean (p : Payload) (h : p.containsMarked = false) : p.stripMarks = p :=
  Payload.stripMarks_id p h

/-- for a known non-null payload `admits` is the refinement's own test -/
theorem admits_known {ρ : Rfn} {rt : Ty} {c : Payload} (hfit : fitsTop rt c = true) :
    Cov.admits ρ c = (ρ.nullness != .t && Cov.rfnAdmitsKnown ρ c) := by
  cases c <;> first | rfl | (cases rt <;> simp [fitsTop] at hfit)

/-- **`refineNonNull` keeps soundness** (unknown result): if the unknown `⟨t, ρ⟩` admits the known,
non-null, mark-free value `r`, so does what `RefineResult: refineNonNull` makes of it — for every
refinement kind (nullable, string prefix, numeric bounds, length bounds) including the collapses
of `NewValue` to a known number, an empty collection, a list of unknowns, a one-member set. -/
theorem covers_refineNN_unk (t : Ty) (ρ : Rfn) (r : Value) (w : Payload)
    (h : refineNN ⟨t, .unk ρ⟩ = some w) (hcl : r.containsMarked = false) (hfit : fitsTop r.ty r.v = true)
    (hc : Covers ⟨t, .unk ρ⟩ r = true) : Covers ⟨t, w⟩ r = true := by
  obtain ⟨rt, c⟩ := r
  have hs : c.stripMarks = c := stripMarks_clean c hcl
  simp only [Covers, CoversG, Bool.and_eq_true, Payload.stripMarks, hs, Cov.coversP] at hc ⊢
  obtain ⟨hm, ha⟩ := hc
  refine ⟨hm, ?_⟩
  rw [admits_known hfit] at ha
  simp only [Bool.and_eq_true] at ha
  obtain ⟨hnt, hak⟩ := ha
  rcases refineNN_unk_cases t ρ w h with ⟨_, rfl⟩ | ⟨hd, hk, hw, hn, hcol⟩
  · simp only [Payload.stripMarks, Cov.coversP]
    rw [admits_known hfit]; simp [hnt, hak]
  · -- the work-in-progress refinement does not exclude `c`
    have hK : Cov.rfnAdmitsKnown (nnWip t ρ) c = true := by
      unfold nnWip
      by_cases hρ : ρ = .unref
      · simp only [hρ, if_true]
        have htd : t ≠ .dyn := by
          intro ht
          have := (isDynVal_unk t ρ).mpr ⟨ht, hρ⟩
          rw [hd] at this; cases this
        exact freshWip_admits t rt c htd hm hfit
      · simp only [hρ, if_false]; exact hak
    rcases hcol with ⟨_, rfl⟩ | ⟨v, hcv, rfl⟩
    · simp only [Payload.stripMarks, Cov.coversP]
      rw [admits_known hfit, rfnAdmitsKnown_setNull, hK, setNull_nullness hw]; rfl
    · -- the collapses of `NewValue`
      generalize nnWip t ρ = wip at hK hcv hw hn
      cases wip with
      | unref => exact absurd rfl hw
      | nullable n => simp [setNull, collapse] at hcv
      | str n p => simp [setNull, collapse] at hcv
      | num n lo hi =>
        simp only [setNull, collapse] at hcv
        cases lo with
        | none => simp at hcv
        | some l =>
          cases hi with
          | none => simp at hcv
          | some u =>
            simp only at hcv
            split at hcv
            · rename_i hincl
              cases hq : numEq? l.v u.v with
              | none => rw [hq] at hcv; simp at hcv
              | some b =>
                rw [hq] at hcv
                cases b with
                | false => simp at hcv
                | true =>
                  simp only [Res.ok.injEq, Option.some.injEq] at hcv
                  subst hcv
                  have heq : Num.cmp l.v u.v = 0 := (exactPartialOracle.exact l.v u.v true hq).mp rfl
                  simp only [Bool.and_eq_true] at hincl
                  have hv : (({ ty := t, v := Payload.n l.v } : Value).withMarks []).v.stripMarks = .n l.v := by
                    simp [Value.withMarks, Payload.withMarks, Payload.marks1, unionMarks, Payload.stripMarks]
                  rw [hv]
                  cases c <;> simp [Cov.rfnAdmitsKnown] at hK
                  rename_i x
                  simp only [Cov.loInside, Cov.hiInside, Cov.pt, Option.getD, hincl.1, hincl.2, Bool.true_or, if_true,
                    decide_eq_true_eq] at hK
                  have h1 := NumCmp.cmp_congr_right heq x
                  have h2 := NumCmp.cmp_swap l.v x
                  simp only [Cov.coversP, Cov.numEq, Bool.false_eq_true, if_false, beq_iff_eq]
                  have hK1 := of_decide_eq_true hK.1
                  have hK2 := of_decide_eq_true hK.2
                  omega
            · simp at hcv
      | coll n lo hi =>
        simp only [setNull, collapse] at hcv
        by_cases hlh : lo = hi
        · subst hlh
          simp only [if_true] at hcv
          cases t with
          | list e =>
            cases rt <;> simp [Ty.matches] at hm
            cases c <;> simp [fitsTop] at hfit
            rename_i e' vs
            simp only [Cov.rfnAdmitsKnown, Cov.possibleLen, Bool.and_eq_true, decide_eq_true_eq] at hK
            have hlen : lo = vs.length := by omega
            by_cases h0 : lo = 0
            · simp only [h0, if_true, Res.ok.injEq, Option.some.injEq] at hcv
              subst hcv
              have : vs = [] := by
                have : vs.length = 0 := by omega
                exact List.length_eq_zero_iff.mp this
              subst this
              simp [Value.withMarks, Payload.withMarks, Payload.marks1, unionMarks, Payload.stripMarks,
                Payload.stripMarksL, Cov.coversP, Cov.coversL]
            · simp only [h0, if_false] at hcv
              have hneg : ¬ lo < 0 := by omega
              simp only [hneg, if_false, Res.ok.injEq, Option.some.injEq] at hcv
              subst hcv
              have hto : lo.toNat = vs.length := by omega
              have hvs : Payload.stripMarksL vs = vs := by
                simp only [Payload.stripMarks, Payload.seq.injEq] at hs; exact hs
              rw [hto]
              simp only [Value.withMarks]
              rw [payload_withMarks_nil _ rfl]
              simp only [Payload.stripMarks, Cov.coversP, stripMarksL_replicate_unk]
              have := coversL_replicate_unref false vs
              rw [hvs] at this
              exact this
          | set e =>
            cases rt <;> simp [Ty.matches] at hm
            cases c <;> simp [fitsTop] at hfit
            rename_i e' ids vs
            have hlen : lo = vs.length := by
              simp only [Cov.rfnAdmitsKnown, Cov.possibleLen] at hK
              by_cases hcnd : (decide (vs.length ≤ 1) || Payload.whollyKnownL vs) = true
              · simp only [hcnd, if_true, Bool.and_eq_true, decide_eq_true_eq] at hK; omega
              · simp only [hcnd, Bool.false_eq_true, if_false, Bool.and_eq_true, decide_eq_true_eq] at hK
                simp at hcnd
                omega
            by_cases h0 : lo = 0
            · simp only [h0, if_true, Res.ok.injEq, Option.some.injEq] at hcv
              subst hcv
              have : vs = [] := List.length_eq_zero_iff.mp (by omega)
              subst this
              simp only [Value.withMarks]
              rw [payload_withMarks_nil _ rfl]
              simp [Payload.stripMarks, Payload.stripMarksL, Cov.coversP, Cov.coversS]
            · simp only [h0, if_false] at hcv
              by_cases h1 : lo = 1
              · simp only [h1, if_true, Res.ok.injEq, Option.some.injEq] at hcv
                subst hcv
                obtain ⟨x, rfl⟩ : ∃ x, vs = [x] := List.length_eq_one_iff.mp (by omega)
                simp only [Value.withMarks]
                rw [payload_withMarks_nil _ rfl]
                have hx : x.stripMarks = x := by
                  simp only [Payload.stripMarks, Payload.stripMarksL, Payload.sset.injEq, List.cons.injEq, and_true,
                    true_and] at hs
                  exact hs
                have := admits_unref_strip x
                rw [hx] at this
                simp [Payload.stripMarks, Payload.stripMarksL, Cov.coversP, Cov.coversS, Cov.anySplit, this]
              · simp [h1] at hcv
          | map e =>
            cases rt <;> simp [Ty.matches] at hm
            cases c <;> simp [fitsTop] at hfit
            rename_i e' ks vs
            simp only [Cov.rfnAdmitsKnown, Cov.possibleLen, Bool.and_eq_true, decide_eq_true_eq] at hK
            by_cases h0 : lo = 0
            · simp only [h0, if_true, Res.ok.injEq, Option.some.injEq] at hcv
              subst hcv
              have : vs = [] := List.length_eq_zero_iff.mp (by omega)
              subst this
              have : ks = [] := List.length_eq_zero_iff.mp (by simpa using hfit.1)
              subst this
              simp only [Value.withMarks]
              rw [payload_withMarks_nil _ rfl]
              simp [Payload.stripMarks, Payload.stripMarksL, Cov.coversP, Cov.coversL]
            · simp [h0] at hcv
          | _ => simp at hcv
        · simp [hlh] at hcv

/-- `val.RefineWith(refineNonNull)` of a known, non-null, mark-free value of a proper type is the value -/
theorem refineWith_known {r : Value} (hcl : r.containsMarked = false) (hfit : fitsTop r.ty r.v = true)
    (hd : r.ty.isDyn = false) : refineWith refineNN r = .ok r := by
  obtain ⟨rt, c⟩ := r
  have hm : c.isMarked = false := by cases c <;> simp_all [Value.containsMarked, Payload.containsMarked, Payload.isMarked]
  have hu : (⟨rt, c⟩ : Value).unmark = ⟨rt, c⟩ := by
    cases c <;> simp_all [Value.unmark, Payload.unmark1, Payload.isMarked]
  have hk : refineNN ⟨rt, c⟩ = some c := by
    apply refineNN_known_eq (v := ⟨rt, c⟩) hm
    · cases c <;> first | rfl | (cases rt <;> simp [fitsTop] at hfit)
    · cases c <;> first | rfl | (cases rt <;> simp [fitsTop] at hfit)
    · intro w hw; simp only at hw; subst hw; cases rt <;> simp [fitsTop] at hfit
    · exact hd
  unfold refineWith
  rw [hu, hk]
  have hms : (⟨rt, c⟩ : Value).marks = [] := by
    cases c <;> simp_all [Value.marks, Payload.marks1, Payload.isMarked]
  rw [hms]
  simp only [Value.withMarks]
  rw [payload_withMarks_nil c (by simpa [Value.marks] using hms)]

/-- **The deferred refinement keeps `Covers`.**  `u` (what the weakened call returned before the
refinement; top-level unmarked, not a known value of the placeholder type) admits `r` (known, not null,
mark-free): whatever `RefineWith(refineNonNull)` makes of `u` still admits `r`. -/
theorem refineWith_covers (u r w : Value) (hum : u.v.isMarked = false)
    (hud : u.ty.isDyn = false ∨ u.isKnown = false)
    (hcl : r.containsMarked = false) (hfit : fitsTop r.ty r.v = true)
    (hc : Covers u r = true) (hw : refineWith refineNN u = .ok w) : Covers w r = true := by
  obtain ⟨t, p⟩ := u
  have hu : (⟨t, p⟩ : Value).unmark = ⟨t, p⟩ := by
    cases p <;> simp_all [Value.unmark, Payload.unmark1, Payload.isMarked]
  have hms : (⟨t, p⟩ : Value).marks = [] := by
    cases p <;> simp_all [Value.marks, Payload.marks1, Payload.isMarked]
  unfold refineWith at hw
  rw [hu, hms] at hw
  cases hq : refineNN ⟨t, p⟩ with
  | none => rw [hq] at hw; cases hw
  | some q =>
    rw [hq] at hw
    simp only [Out.ok.injEq] at hw
    subst hw
    rw [covers_withMarks_left]
    by_cases hk : (⟨t, p⟩ : Value).isKnown = true
    · -- a known value: the refinement hands it back
      have hd : t.isDyn = false := by
        rcases hud with h | h
        · exact h
        · rw [hk] at h; cases h
      have hnn : (⟨t, p⟩ : Value).isNull = false := by
        cases p with
        | null =>
          exfalso
          obtain ⟨rt, c⟩ := r
          have hs : c.stripMarks = c := stripMarks_clean c hcl
          simp only [Covers, CoversG, Payload.stripMarks, Cov.coversP, hs, Bool.and_eq_true] at hc
          cases c <;> simp at hc
          cases rt <;> simp [fitsTop] at hfit
        | marked ms q => simp [Payload.isMarked] at hum
        | _ => rfl
      have hb : ∀ w, (⟨t, p⟩ : Value).v ≠ .bad w := by
        intro w hw
        simp only at hw
        subst hw
        simp [Covers, CoversG, Payload.stripMarks, Cov.coversP] at hc
      have := refineNN_known_eq (v := ⟨t, p⟩) hum hk hnn hb hd
      rw [this] at hq
      simp only [Option.some.injEq] at hq
      subst hq
      exact hc
    · have : ∃ ρ, p = .unk ρ := by
        cases p <;> simp_all [Value.isKnown, Payload.isKnown, Payload.unmark1, Payload.isMarked]
      obtain ⟨ρ, rfl⟩ := this
      exact covers_refineNN_unk t ρ r q hq hcl hfit hc

/-- **Through `Call`.**  For a function that declares `RefineResult: refineNonNull`: if the
unrefined outcomes of the concrete and of the weakened call are `r` and `u` with `u` admitting `r`
(`r` known, not null, mark-free, of a proper type), then the concrete `Call` returns `r` itself and
every value the weakened `Call` returns still admits it. -/
theorem call_refined_covers (spec : Spec) (tf : TypeFn) (impl : ImplFn) (os ws : List Value) (r u : Value)
    (hrf : spec.refine = some refineNN)
    (ho : (callUnrefined spec tf impl os).1 = .ok r) (hu : (callUnrefined spec tf impl ws).1 = .ok u)
    (hum : u.v.isMarked = false) (hud : u.ty.isDyn = false ∨ u.isKnown = false)
    (hcl : r.containsMarked = false) (hfit : fitsTop r.ty r.v = true) (hd : r.ty.isDyn = false)
    (hc : Covers u r = true) :
    (call spec tf impl os).1 = .ok r ∧ ∀ w, (call spec tf impl ws).1 = .ok w → Covers w r = true := by
  constructor
  · rw [call_eq_finish]
    cases hco : callUnrefined spec tf impl os with
    | mk o1 o2 =>
    rw [hco] at ho
    simp only at ho
    subst ho
    rw [finish_ok, hrf]
    have ht : typed r = true := by simp [typed, hd]
    simp only [ht, if_true]
    exact refineWith_known hcl hfit hd
  · intro w hw
    rw [call_eq_finish] at hw
    cases hcw : callUnrefined spec tf impl ws with
    | mk o1 o2 =>
    rw [hcw] at hu hw
    simp only at hu
    subst hu
    rw [finish_ok, hrf] at hw
    by_cases ht : typed u = true
    · simp only [ht, if_true] at hw
      exact refineWith_covers u r w hum hud hcl hfit hc hw
    · simp only [ht, Bool.false_eq_true, if_false, Out.ok.injEq] at hw
      subst hw
      exact hc

end C12L
end CtyModel
