/-
d03b — the transliteration `canon` keeps the carrier `G` (well-formed, mark-free,
quotable), and `enc` of a capsule-free type is a plain type.
-/
import CtyModel.Lemmas.d03bEnc
namespace CtyModel
namespace D03b
open Value SetImpl

mutual
theorem enc_plain : ∀ t : Ty, capFree t = true → (enc t).plain = true
  | .set e, h => by simp only [capFree] at h; simp only [enc, Ty.plain]; exact enc_plain e h
  | .list e, h => by simp only [capFree] at h; simp only [enc, Ty.plain]; exact enc_plain e h
  | .map e, h => by simp only [capFree] at h; simp only [enc, Ty.plain]; exact enc_plain e h
  | .tuple ts, h => by simp only [capFree] at h; simp only [enc, Ty.plain]; exact encL_plain ts h
  | .object _ ts _, h => by simp only [capFree, Bool.and_eq_true] at h; simp only [enc, Ty.plain]; exact encL_plain ts h.2
  | .capsule _, h => by simp [capFree] at h
  | .bool, _ => rfl
  | .number, _ => rfl
  | .string, _ => rfl
  | .dyn, _ => rfl
theorem encL_plain : ∀ ts : List Ty, capFreeL ts = true → Ty.plainL (encL ts) = true
  | [], _ => rfl
  | t :: ts, h => by
    simp only [capFreeL, Bool.and_eq_true] at h
    simp only [encL, Ty.plainL, Bool.and_eq_true]
    exact ⟨enc_plain t h.1, encL_plain ts h.2⟩
end

mutual
theorem capFree_wf : ∀ t : Ty, capFree t = true → t.wf = true
  | .set e, h => by simp only [capFree] at h; simp only [Ty.wf]; exact capFree_wf e h
  | .list e, h => by simp only [capFree] at h; simp only [Ty.wf]; exact capFree_wf e h
  | .map e, h => by simp only [capFree] at h; simp only [Ty.wf]; exact capFree_wf e h
  | .tuple ts, h => by simp only [capFree] at h; simp only [Ty.wf]; exact capFreeL_wf ts h
  | .object _ ts _, h => by
    simp only [capFree, Bool.and_eq_true] at h
    simp only [Ty.wf, Bool.and_eq_true]
    exact ⟨h.1, capFreeL_wf ts h.2⟩
  | .capsule _, h => by simp [capFree] at h
  | .bool, _ => rfl
  | .number, _ => rfl
  | .string, _ => rfl
  | .dyn, _ => rfl
theorem capFreeL_wf : ∀ ts : List Ty, capFreeL ts = true → Ty.wfL ts = true
  | [], _ => rfl
  | t :: ts, h => by
    simp only [capFreeL, Bool.and_eq_true] at h
    simp only [Ty.wfL, Bool.and_eq_true]
    exact ⟨capFree_wf t h.1, capFreeL_wf ts h.2⟩
end

mutual
theorem setFree_of_plain : ∀ t : Ty, t.plain = true → t.setFree = true
  | .set _, h => by simp [Ty.plain] at h
  | .capsule _, h => by simp [Ty.plain] at h
  | .list e, h => by simp only [Ty.plain] at h; simp only [Ty.setFree]; exact setFree_of_plain e h
  | .map e, h => by simp only [Ty.plain] at h; simp only [Ty.setFree]; exact setFree_of_plain e h
  | .tuple ts, h => by simp only [Ty.plain] at h; simp only [Ty.setFree]; exact setFreeL_of_plainL ts h
  | .object _ ts _, h => by simp only [Ty.plain] at h; simp only [Ty.setFree]; exact setFreeL_of_plainL ts h
  | .bool, _ => rfl
  | .number, _ => rfl
  | .string, _ => rfl
  | .dyn, _ => rfl
theorem setFreeL_of_plainL : ∀ ts : List Ty, Ty.plainL ts = true → Ty.setFreeL ts = true
  | [], _ => rfl
  | t :: ts, h => by
    simp only [Ty.plainL, Bool.and_eq_true] at h
    simp only [Ty.setFreeL, Bool.and_eq_true]
    exact ⟨setFree_of_plain t h.1, setFreeL_of_plainL ts h.2⟩
end

theorem canonAll_length (e : Ty) (vs : List Payload) : (canonAll e vs).length = vs.length := by
  simp [canonAll_eq_map]

theorem canon_null (t : Ty) : canon t .null = .null := by cases t <;> rfl
theorem canon_unk (t : Ty) (r : Rfn) : canon t (.unk r) = .unk r := by cases t <;> rfl

theorem fits_enc {t : Ty} {r : Rfn} (h : r.fits t = true) : r.fits (enc t) = true := by
  cases t <;> cases r <;> simp_all [Rfn.fits, enc]

mutual
theorem canon_G : ∀ (t : Ty) (p : Payload), G t p → G (enc t) (canon t p)
  | _, .marked _ _, h => by simp [G, Payload.containsMarked] at h
  | t, .null, _ => by rw [canon_null]; exact ⟨rfl, rfl, rfl⟩
  | t, .unk r, h => by
    rw [canon_unk]
    exact ⟨by simpa [Payload.shaped] using fits_enc (by simpa [Payload.shaped] using h.1), rfl, rfl⟩
  | t, .b x, h => by
    have := h.1; simp only [Payload.shaped, Ty.isBool_iff] at this; subst this; exact h
  | t, .n x, h => by
    have := h.1; simp only [Payload.shaped, Ty.isNumber_iff] at this; subst this; exact h
  | t, .s x, h => by
    have := h.1; simp only [Payload.shaped, Ty.isString_iff] at this; subst this; exact h
  | t, .caps, h => by
    have := h.1
    cases t <;> simp [Payload.shaped] at this
    exact h
  | _, .bad _, h => by simp [G, Payload.shaped] at h
  | t, .seq xs, h => by
    obtain ⟨h1, h2, h3⟩ := h
    cases t <;> simp [Payload.shaped] at h1
    case list e =>
      have := canonAll_G e xs ⟨h1, by simpa [Payload.containsMarked] using h2, by simpa [Payload.quotable] using h3⟩
      exact ⟨by simpa [canon, enc, Payload.shaped] using this.1, by simpa [canon, Payload.containsMarked] using this.2.1,
        by simpa [canon, Payload.quotable] using this.2.2⟩
    case tuple ts =>
      have := canonZip_G ts xs ⟨h1, by simpa [Payload.containsMarked] using h2, by simpa [Payload.quotable] using h3⟩
      exact ⟨by simpa [canon, enc, Payload.shaped] using this.1, by simpa [canon, Payload.containsMarked] using this.2.1,
        by simpa [canon, Payload.quotable] using this.2.2⟩
  | t, .smap ks xs, h => by
    obtain ⟨h1, h2, h3⟩ := h
    simp only [Payload.quotable, Bool.and_eq_true] at h3
    cases t <;> simp [Payload.shaped] at h1
    case map e =>
      have := canonAll_G e xs ⟨h1.2, by simpa [Payload.containsMarked] using h2, h3.2⟩
      refine ⟨?_, by simpa [canon, Payload.containsMarked] using this.2.1, ?_⟩
      · simp only [canon, enc, Payload.shaped, canonAll_length, Bool.and_eq_true, beq_iff_eq]
        exact ⟨⟨h1.1.1, h1.1.2⟩, this.1⟩
      · simp only [canon, Payload.quotable, Bool.and_eq_true]; exact ⟨h3.1, this.2.2⟩
    case object ns ts os =>
      have := canonZip_G ts xs ⟨h1.2, by simpa [Payload.containsMarked] using h2, h3.2⟩
      refine ⟨?_, by simpa [canon, Payload.containsMarked] using this.2.1, ?_⟩
      · simp only [canon, enc, Payload.shaped, Bool.and_eq_true, decide_eq_true_eq]
        exact ⟨h1.1, this.1⟩
      · simp only [canon, Payload.quotable, Bool.and_eq_true]; exact ⟨h3.1, this.2.2⟩
  | t, .sset ids xs, h => by
    obtain ⟨h1, h2, h3⟩ := h
    cases t <;> simp [Payload.shaped] at h1
    case set e =>
      have := canonAll_G e xs ⟨h1.2, by simpa [Payload.containsMarked] using h2, by simpa [Payload.quotable] using h3⟩
      rw [GAll_iff] at this
      have hs : GAll (enc e) (sortStable (lessEnc e) (canonAll e xs)) :=
        GAll_iff.mpr fun v hv => this v ((mem_sortStable _ _ _).mp hv)
      exact ⟨by simpa [canon, enc, Payload.shaped] using hs.1, by simpa [canon, Payload.containsMarked] using hs.2.1,
        by simpa [canon, Payload.quotable] using hs.2.2⟩
theorem canonAll_G : ∀ (e : Ty) (vs : List Payload), GAll e vs → GAll (enc e) (canonAll e vs)
  | _, [], _ => ⟨rfl, rfl, rfl⟩
  | e, v :: vs, h => by
    obtain ⟨hv, hvs⟩ := GAll_cons h
    have a := canon_G e v hv
    have b := canonAll_G e vs hvs
    simp only [GAll, canonAll, Payload.shapedAll, Payload.containsMarkedL, Payload.quotableL, Bool.and_eq_true,
      Bool.or_eq_false_iff]
    exact ⟨⟨a.1, b.1⟩, ⟨a.2.1, b.2.1⟩, a.2.2, b.2.2⟩
theorem canonZip_G : ∀ (ts : List Ty) (vs : List Payload), GZip ts vs → GZip (encL ts) (canonZip ts vs)
  | [], vs, h => by
    have := h.1
    cases vs <;> simp [Payload.shapedZip] at this
    exact ⟨rfl, rfl, rfl⟩
  | _ :: _, [], h => by have := h.1; simp [Payload.shapedZip] at this
  | t :: ts, v :: vs, h => by
    obtain ⟨hv, hvs⟩ := GZip_cons h
    have a := canon_G t v hv
    have b := canonZip_G ts vs hvs
    simp only [GZip, canonZip, encL, Payload.shapedZip, Payload.containsMarkedL, Payload.quotableL, Bool.and_eq_true,
      Bool.or_eq_false_iff]
    exact ⟨⟨a.1, b.1⟩, ⟨a.2.1, b.2.1⟩, a.2.2, b.2.2⟩
end

/-- the transliteration keeps null-ness and known-ness of the top node -/
theorem canon_isNull (t : Ty) (p : Payload) (h : p.containsMarked = false) : (canon t p).isNull = p.isNull := by
  cases p <;> cases t <;> simp_all [canon, Payload.isNull, Payload.unmark1, Payload.containsMarked]

theorem canon_isKnown (t : Ty) (p : Payload) (h : p.containsMarked = false) : (canon t p).isKnown = p.isKnown := by
  cases p <;> cases t <;> simp_all [canon, Payload.isKnown, Payload.unmark1, Payload.containsMarked]

end D03b
end CtyModel
