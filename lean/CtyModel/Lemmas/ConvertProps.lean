/-
Consequences of the typing theorem, and the smaller facts the C08 property
theorems are corollaries of.
-/
import CtyModel.Lemmas.ConvertType
namespace CtyModel
namespace Convert
open Ty

/-! ### the simplest environment satisfies the laws -/

theorem unifyLaws_simple : UnifyLaws Env.simple where
  same := by
    intro uns t ts hne hall hw _
    cases ts with
    | nil => exact absurd rfl hne
    | cons a rest =>
      have ha : a = t := hall a (by simp)
      subst ha
      have : ∀ x ∈ rest, x.equals a = true := by
        intro x hx
        rw [hall x (by simp [hx])]
        exact equals_self hw
      simpa [Env.simple] using this

theorem setLaws_simple : SetLaws Env.simple where
  hash_ok := fun _ _ _ _ => .inl ⟨0, rfl⟩
  equiv_ok := fun _ _ _ _ _ _ => .inl ⟨false, rfl⟩

/-! ### a placeholder-free result type leaves nothing unresolved -/
mutual
theorem resolvedIn_noDyn : ∀ (inT r : Ty), hasDyn r = false → resolvedIn inT r = true
  | inT, .dyn, h => by simp [hasDyn] at h
  | inT, .bool, _ | inT, .number, _ | inT, .string, _ | inT, .capsule _, _ => by
    cases inT <;> simp [resolvedIn]
  | inT, .list re, h | inT, .set re, h | inT, .map re, h => by
    have h' : hasDyn re = false := by simpa [hasDyn] using h
    cases inT <;> simp [resolvedIn]
    case list ie => exact resolvedIn_noDyn ie re h'
    case set ie => exact resolvedIn_noDyn ie re h'
    case map ie => exact resolvedIn_noDyn ie re h'
    case tuple its => exact resolvedAllL_noDyn its re h'
    case object inn its ios => exact resolvedAllL_noDyn its re h'
  | inT, .tuple rs, h => by
    have h' : hasDynL rs = false := by simpa [hasDyn] using h
    cases inT <;> simp [resolvedIn]
    case tuple its => exact resolvedZip_noDyn its rs h'
  | inT, .object rn rts ros, h => by
    have h' : hasDynL rts = false := by simpa [hasDyn] using h
    cases inT <;> simp [resolvedIn]
    case object inn its ios => exact resolvedFields_noDyn inn its rn rts ros h'
termination_by structural inT => inT
theorem resolvedAllL_noDyn : ∀ (its : List Ty) (re : Ty), hasDyn re = false → resolvedAllL its re = true
  | [], _, _ => by simp [resolvedAllL]
  | it :: its, re, h => by
    simp only [resolvedAllL]
    split
    · exact resolvedIn_noDyn it re h
    · rfl
termination_by structural its => its
theorem resolvedZip_noDyn : ∀ (its rs : List Ty), hasDynL rs = false → resolvedZip its rs = true
  | [], _, _ => by simp [resolvedZip]
  | _ :: _, [], _ => by simp [resolvedZip]
  | it :: its, r :: rs, h => by
    simp only [hasDynL, Bool.or_eq_false_iff] at h
    simp [resolvedZip, resolvedIn_noDyn it r h.1, resolvedZip_noDyn its rs h.2]
termination_by structural its => its
theorem resolvedFields_noDyn : ∀ (inn : List String) (its : List Ty) (rn : List String) (rts : List Ty)
    (ros : List Bool), hasDynL rts = false → resolvedFields inn its rn rts ros = true
  | [], _, _, _, _, _ => by simp [resolvedFields]
  | _ :: _, [], _, _, _, _ => by simp [resolvedFields]
  | n :: inn, it :: its, rn, rts, ros, h => by
    simp only [resolvedFields, Bool.and_eq_true]
    refine ⟨?_, resolvedFields_noDyn inn its rn rts ros h⟩
    split
    · rename_i r o hf
      exact resolvedIn_noDyn it r (hasDynL_mem h r (find_mem_ty hf))
    · rfl
termination_by structural _ its => its
end

/-! ### `Convert` and the conversions `GetConversion*` return -/

/-- what the placeholder-free theorems assume of a (value, target type) pair: a
well-formed value and a well-formed target type without DynamicPseudoType -/
structure RegularPair (v : Value) (want : Ty) : Prop where
  wt : Value.wt v = true
  wfT : want.wf = true
  noDyn : want.hasDyn = false

theorem RegularPair.conds {v : Value} {want : Ty} (h : RegularPair v want) : Conds v.ty want v := by
  have hw := h.wt
  simp only [Value.wt, Bool.and_eq_true, Bool.not_eq_true'] at hw
  exact ⟨rfl, hw.1.1, h.wfT, hw.1.2, h.noDyn, hw.2⟩

/-- a conversion obtained from `getConversion` for the value's type -/
theorem apply_ty {E : Env} (hU : UnifyLaws E) {v r : Value} {want : Ty} {uns : Bool} {p : Plan} {fuel : Nat}
    (hp : RegularPair v want) (hg : getConv E v.ty want uns = some p) (h : apply E fuel p v = .ok r) :
    r.ty = want.stripOpt := by
  obtain ⟨c, hc, rfl⟩ := Option.map_eq_some_iff.mp hg
  exact recOK_apply hU fuel v.ty want uns c v r hc hp.conds h

theorem convert_ty {E : Env} (hU : UnifyLaws E) {v r : Value} {want : Ty} {fuel : Nat}
    (hp : RegularPair v want) (h : convert E fuel v want = .ok r) : r.ty = want.stripOpt := by
  unfold convert convertWith at h
  split at h
  · rename_i he
    simp at h; subst h
    exact eq_of_equals hp.conds.wfI (wf_stripOpt want hp.wfT) he
  · split at h
    · simp at h
    · rename_i p hg
      exact apply_ty hU hp hg h

/-- `Convert` to the value's own type (up to annotations) returns the value -/
theorem convert_identity (E : Env) (fuel : Nat) (v : Value) (want : Ty)
    (h : v.ty.equals want.stripOpt = true) : convert E fuel v want = .ok v := by
  simp [convert, convertWith, h]

theorem convert_idempotent {E : Env} (hU : UnifyLaws E) {v r : Value} {want : Ty} {fuel fuel' : Nat}
    (hp : RegularPair v want) (h : convert E fuel v want = .ok r) : convert E fuel' r want = .ok r := by
  apply convert_identity
  rw [convert_ty hU hp h]
  exact equals_self (wf_stripOpt want hp.wfT)

end Convert
end CtyModel
