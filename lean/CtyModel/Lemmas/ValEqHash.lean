/-
Hash coherence of cty's set rules on the frontier of `cty_rules_lawful_partial`:
two raw-equal well-formed values of a plain type whose numbers come from a
hash-coherent list have the same hash bytes.
-/
import CtyModel.Lemmas.ValEqRaw
namespace CtyModel
open Value

theorem numHash_coherent {ns : List Num} (hc : HashCoherentNums ns = true) {x y : Num}
    (hx : x ∈ ns) (hy : y ∈ ns) (h : Num.rawEqual x y = true) :
    numHashText x = numHashText y := by
  simp only [HashCoherentNums, List.all_eq_true] at hc
  have := hc x hx y hy
  simpa [h] using this

mutual
theorem hashS_eq_of_rawB (sh : SetHashRec) {ns : List Num} (hc : HashCoherentNums ns = true) :
    ∀ (t : Ty) (a b : Payload), t.plain = true → a.shaped t = true → b.shaped t = true →
    a.numsIn ns = true → b.numsIn ns = true → rawB t a b = true → hashS sh t a = hashS sh t b
  | t, .marked m p, b, hp, ha, hb, na, nb, h => by
    cases b <;> simp only [rawB, Bool.false_eq_true] at h
    rename_i m' q
    simp only [Payload.shaped, Bool.and_eq_true] at ha hb
    simp only [Payload.numsIn] at na nb
    simp only [Bool.and_eq_true] at h
    simp only [hashS]
    exact hashS_eq_of_rawB sh hc t p q hp ha.2 hb.2 na nb h.2
  | t, .unk r, b, _, _, _, _, _, h => by
    cases b <;> simp only [rawB, Bool.false_eq_true] at h
    cases t <;> simp [hashS]
  | t, .null, b, _, _, _, _, _, h => by
    cases b <;> simp only [rawB, Bool.false_eq_true] at h
    rfl
  | t, .b x, b, _, ha, _, _, _, h => by
    cases b <;> simp only [rawB, Bool.false_eq_true] at h
    simp only [beq_iff_eq] at h
    subst h
    rfl
  | t, .n x, b, _, ha, _, na, nb, h => by
    cases b <;> simp only [rawB, Bool.false_eq_true] at h
    rename_i y
    simp only [Payload.shaped, Ty.isNumber_iff] at ha
    subst ha
    simp only [Payload.numsIn, List.any_eq_true, decide_eq_true_eq, exists_eq_right] at na nb
    simp only [hashS, numHash_coherent hc na nb h]
  | t, .s x, b, _, ha, _, _, _, h => by
    cases b <;> simp only [rawB, Bool.false_eq_true] at h
    simp only [beq_iff_eq] at h
    subst h
    rfl
  | t, .seq xs, b, hp, ha, hb, na, nb, h => by
    cases t <;> simp [Payload.shaped] at ha
    case list e =>
      simp only [Ty.plain] at hp
      cases b <;> simp [rawB] at h
      rename_i ys
      simp only [Payload.shaped] at hb
      simp only [Payload.numsIn] at na nb
      simp only [hashS, hashAllS_eq sh hc e xs ys hp ha hb na nb h.1 h.2]
    case tuple ts =>
      simp only [Ty.plain] at hp
      cases b <;> simp [rawB] at h
      rename_i ys
      simp only [Payload.shaped] at hb
      simp only [Payload.numsIn] at na nb
      simp only [hashS, hashZipS_eq sh hc ts xs ys hp ha hb na nb h]
  | t, .smap kx xs, b, hp, ha, hb, na, nb, h => by
    cases t <;> simp [Payload.shaped] at ha
    case map e =>
      simp only [Ty.plain] at hp
      cases b <;> simp [rawB] at h
      rename_i ky ys
      simp [Payload.shaped] at hb
      simp only [Payload.numsIn] at na nb
      rw [rawBMap_eq e kx xs ky ys ha.1.2 hb.1.2 ha.1.1 hb.1.1 h.1] at h
      simp only [Bool.and_eq_true, decide_eq_true_eq] at h
      obtain ⟨hl, hk, hall⟩ := h
      subst hk
      simp only [hashS, hashMapS_eq sh hc e kx xs ys hp ha.2 hb.2 na nb hl hall]
    case object ns' ts os =>
      simp only [Ty.plain] at hp
      cases b <;> simp [rawB] at h
      rename_i ky ys
      simp [Payload.shaped] at hb
      simp only [Payload.numsIn] at na nb
      simp only [hashS, hashZipS_eq sh hc ts xs ys hp ha.2 hb.2 na nb h]
  | t, .sset _ _, _, hp, ha, _, _, _, _ => by
    cases t <;> simp [Payload.shaped] at ha
    simp [Ty.plain] at hp
  | t, .caps, _, hp, ha, _, _, _, _ => by
    cases t <;> simp [Payload.shaped] at ha
    simp [Ty.plain] at hp
  | _, .bad _, _, _, ha, _, _, _, _ => by simp [Payload.shaped] at ha
theorem hashAllS_eq (sh : SetHashRec) {ns : List Num} (hc : HashCoherentNums ns = true) :
    ∀ (e : Ty) (xs ys : List Payload), e.plain = true → Payload.shapedAll e xs = true →
    Payload.shapedAll e ys = true → Payload.numsInL ns xs = true → Payload.numsInL ns ys = true →
    xs.length = ys.length → rawBAll e xs ys = true → hashAllS sh e xs = hashAllS sh e ys
  | _, [], [], _, _, _, _, _, _, _ => rfl
  | _, [], _ :: _, _, _, _, _, _, hl, _ => by simp at hl
  | _, _ :: _, [], _, _, _, _, _, hl, _ => by simp at hl
  | e, x :: xs, y :: ys, hp, ha, hb, na, nb, hl, h => by
    simp only [Payload.shapedAll, Payload.numsInL, rawBAll, Bool.and_eq_true] at ha hb na nb h
    simp only [hashAllS, hashS_eq_of_rawB sh hc e x y hp ha.1 hb.1 na.1 nb.1 h.1,
      hashAllS_eq sh hc e xs ys hp ha.2 hb.2 na.2 nb.2 (by simpa using hl) h.2]
theorem hashZipS_eq (sh : SetHashRec) {ns : List Num} (hc : HashCoherentNums ns = true) :
    ∀ (ts : List Ty) (xs ys : List Payload), Ty.plainL ts = true → Payload.shapedZip ts xs = true →
    Payload.shapedZip ts ys = true → Payload.numsInL ns xs = true → Payload.numsInL ns ys = true →
    rawBZip ts xs ys = true → hashZipS sh ts xs = hashZipS sh ts ys
  | [], xs, ys, _, ha, hb, _, _, _ => by
    cases xs <;> cases ys <;> simp [Payload.shapedZip] at ha hb
    rfl
  | _ :: _, [], _, _, ha, _, _, _, _ => by simp [Payload.shapedZip] at ha
  | _ :: _, _ :: _, [], _, _, hb, _, _, _ => by simp [Payload.shapedZip] at hb
  | t :: ts, x :: xs, y :: ys, hp, ha, hb, na, nb, h => by
    simp only [Payload.shapedZip, Payload.numsInL, rawBZip, Ty.plainL, Bool.and_eq_true] at hp ha hb na nb h
    simp only [hashZipS, hashS_eq_of_rawB sh hc t x y hp.1 ha.1 hb.1 na.1 nb.1 h.1,
      hashZipS_eq sh hc ts xs ys hp.2 ha.2 hb.2 na.2 nb.2 h.2]
theorem hashMapS_eq (sh : SetHashRec) {ns : List Num} (hc : HashCoherentNums ns = true) :
    ∀ (e : Ty) (ks : List String) (xs ys : List Payload), e.plain = true → Payload.shapedAll e xs = true →
    Payload.shapedAll e ys = true → Payload.numsInL ns xs = true → Payload.numsInL ns ys = true →
    xs.length = ys.length → rawBAll e xs ys = true → hashMapS sh e ks xs = hashMapS sh e ks ys
  | _, [], xs, ys, _, _, _, _, _, _, _ => by cases xs <;> cases ys <;> simp [hashMapS]
  | _, _ :: _, [], [], _, _, _, _, _, _, _ => by simp [hashMapS]
  | _, _ :: _, [], _ :: _, _, _, _, _, _, hl, _ => by simp at hl
  | _, _ :: _, _ :: _, [], _, _, _, _, _, hl, _ => by simp at hl
  | e, k :: ks, x :: xs, y :: ys, hp, ha, hb, na, nb, hl, h => by
    simp only [Payload.shapedAll, Payload.numsInL, rawBAll, Bool.and_eq_true] at ha hb na nb h
    simp only [hashMapS, hashS_eq_of_rawB sh hc e x y hp ha.1 hb.1 na.1 nb.1 h.1,
      hashMapS_eq sh hc e ks xs ys hp ha.2 hb.2 na.2 nb.2 (by simpa using hl) h.2]
end

end CtyModel
