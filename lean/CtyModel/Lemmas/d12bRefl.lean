/-
C12 / d12b: `Covers` is reflexive on every value whose payload holds no `.bad` node (a payload of a Go
kind its type cannot have — never built by cty's constructors; property C06).  Used to discharge the
`Covers r r` premise of the per-function soundness theorems.
-/
import CtyModel.Lemmas.d12bEq
import CtyModel.Lemmas.NumCmp
import CtyModel.Lemmas.TyConform
namespace CtyModel
namespace D12b
open Cov

mutual
/-- no `.bad` node, no marker (evaluated on mark-stripped payloads) -/
def okP : Payload → Bool
  | .bad _ | .marked _ _ => false
  | .seq vs | .smap _ vs | .sset _ vs => okL vs
  | _ => true
def okL : List Payload → Bool
  | [] => true
  | v :: vs => okP v && okL vs
end

theorem anySplit_head (p : Payload → List Payload → Bool) (c : Payload) (r : List Payload) (h : p c r = true) :
    anySplit p [] (c :: r) = true := by
  simp [anySplit, h]

mutual
theorem coversP_refl : ∀ (ex : Bool) (a : Payload), okP a = true → coversP ex a a = true
  | ex, .unk r, _ => by simpa [coversP] using admits_unk_refl r
  | ex, .null, _ => by simp [coversP]
  | ex, .b x, _ => by simp [coversP]
  | ex, .n x, _ => by cases ex <;> simp [coversP, numEq, NumCmp.cmp_self]
  | ex, .s x, _ => by simp [coversP]
  | ex, .caps, _ => by simp [coversP]
  | ex, .seq as, h => by
    simp only [okP] at h
    simpa [coversP] using coversL_refl ex as h
  | ex, .smap ks as, h => by
    simp only [okP] at h
    simpa [coversP] using coversL_refl ex as h
  | ex, .sset _ as, h => by
    simp only [okP] at h
    simpa [coversP] using coversS_refl ex as h
  | _, .marked _ a, h => by simp [okP] at h
  | _, .bad _, h => by simp [okP] at h
theorem coversL_refl : ∀ (ex : Bool) (as : List Payload), okL as = true → coversL ex as as = true
  | _, [], _ => by simp [coversL]
  | ex, a :: as, h => by
    simp only [okL, Bool.and_eq_true] at h
    simp [coversL, coversP_refl ex a h.1, coversL_refl ex as h.2]
theorem coversS_refl : ∀ (ex : Bool) (as : List Payload), okL as = true → coversS ex as as = true
  | _, [], _ => by simp [coversS]
  | ex, a :: as, h => by
    simp only [okL, Bool.and_eq_true] at h
    simp only [coversS]
    apply anySplit_head
    simp [coversP_refl ex a h.1, coversS_refl ex as h.2]
end

/-- `Covers` is reflexive (no `.bad` node under the marks) -/
theorem covers_refl (r : Value) (h : okP r.v.stripMarks = true) : Covers r r = true := by
  obtain ⟨t, p⟩ := r
  simp only [Covers, CoversG, Ty.matches_refl, Bool.true_and]
  exact coversP_refl false _ h

end D12b
end CtyModel
