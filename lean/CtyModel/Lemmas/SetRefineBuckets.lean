/-
The bucket association list of `SetImpl` behaves as a finite map when its ids
are strictly ascending: `lookup` / `setBucket` / `delBucket` are the Go map
read / assignment / delete.
-/
import CtyModel.SetImpl
namespace CtyModel
namespace SetImpl
variable {α : Type}

/-- bucket ids strictly ascending -/
def Asc (bs : List (Int × List α)) : Prop := bs.Pairwise (fun a b => a.1 < b.1)

instance (bs : List (Int × List α)) : Decidable (Asc bs) :=
  inferInstanceAs (Decidable (bs.Pairwise (fun a b => a.1 < b.1)))

theorem asc_nil : Asc ([] : List (Int × List α)) := List.Pairwise.nil

theorem asc_cons {p : Int × List α} {bs : List (Int × List α)} :
    Asc (p :: bs) ↔ (∀ q ∈ bs, p.1 < q.1) ∧ Asc bs := List.pairwise_cons

theorem lookup_none_of_lt {bs : List (Int × List α)} {h : Int}
    (hlt : ∀ q ∈ bs, h < q.1) : lookup bs h = none := by
  induction bs with
  | nil => rfl
  | cons p rest ih =>
    obtain ⟨k, c⟩ := p
    have hk : h < k := hlt (k, c) (by simp)
    have : ¬ k = h := by omega
    simp only [lookup, this, if_false]
    exact ih (fun q hq => hlt q (by simp [hq]))

theorem mem_of_lookup {bs : List (Int × List α)} {h : Int} {b : List α}
    (hl : lookup bs h = some b) : (h, b) ∈ bs := by
  induction bs with
  | nil => simp [lookup] at hl
  | cons p rest ih =>
    obtain ⟨k, c⟩ := p
    simp only [lookup] at hl
    split at hl
    · rename_i hk
      subst hk
      simp at hl
      subst hl
      simp
    · exact List.mem_cons_of_mem _ (ih hl)

theorem lookup_of_mem {bs : List (Int × List α)} (ha : Asc bs) {h : Int} {b : List α}
    (hm : (h, b) ∈ bs) : lookup bs h = some b := by
  induction bs with
  | nil => simp at hm
  | cons p rest ih =>
    obtain ⟨k, c⟩ := p
    have ⟨hlt, har⟩ := asc_cons.mp ha
    rcases List.mem_cons.mp hm with heq | hm'
    · simp only [Prod.mk.injEq] at heq
      obtain ⟨rfl, rfl⟩ := heq
      simp [lookup]
    · have : h ≠ k := by
        have := hlt (h, b) hm'
        simp at this
        omega
      have hne : ¬ k = h := fun e => this e.symm
      simp only [lookup, hne, if_false]
      exact ih har hm'

theorem lookup_iff_mem {bs : List (Int × List α)} (ha : Asc bs) {h : Int} {b : List α} :
    lookup bs h = some b ↔ (h, b) ∈ bs := ⟨mem_of_lookup, lookup_of_mem ha⟩

/-- what an assignment `vals[h] = b` leaves in the map -/
theorem mem_setBucket {bs : List (Int × List α)} (ha : Asc bs) (h : Int) (b : List α)
    (p : Int × List α) :
    p ∈ setBucket bs h b ↔ p = (h, b) ∨ (p ∈ bs ∧ p.1 ≠ h) := by
  induction bs with
  | nil => simp [setBucket]
  | cons q rest ih =>
    obtain ⟨k, c⟩ := q
    have ⟨hlt, har⟩ := asc_cons.mp ha
    simp only [setBucket]
    split
    · rename_i hk
      constructor
      · intro hp
        rcases List.mem_cons.mp hp with rfl | hp
        · exact Or.inl rfl
        · refine Or.inr ⟨hp, ?_⟩
          rcases List.mem_cons.mp hp with rfl | hp
          · simp; omega
          · have := hlt p hp
            simp at this
            omega
      · rintro (rfl | ⟨hp, _⟩)
        · simp
        · exact List.mem_cons_of_mem _ hp
    · split
      · rename_i hk1 hk
        subst hk
        constructor
        · intro hp
          rcases List.mem_cons.mp hp with rfl | hp
          · exact Or.inl rfl
          · refine Or.inr ⟨List.mem_cons_of_mem _ hp, ?_⟩
            have := hlt p hp
            simp at this
            omega
        · rintro (rfl | ⟨hp, hne⟩)
          · simp
          · rcases List.mem_cons.mp hp with rfl | hp
            · simp at hne
            · exact List.mem_cons_of_mem _ hp
      · rename_i hk1 hk2
        rw [List.mem_cons, ih har]
        constructor
        · rintro (rfl | rfl | ⟨hp, hne⟩)
          · refine Or.inr ⟨by simp, ?_⟩
            simp
            omega
          · exact Or.inl rfl
          · exact Or.inr ⟨List.mem_cons_of_mem _ hp, hne⟩
        · rintro (rfl | ⟨hp, hne⟩)
          · exact Or.inr (Or.inl rfl)
          · rcases List.mem_cons.mp hp with rfl | hp
            · exact Or.inl rfl
            · exact Or.inr (Or.inr ⟨hp, hne⟩)

theorem asc_setBucket {bs : List (Int × List α)} (ha : Asc bs) (h : Int) (b : List α) :
    Asc (setBucket bs h b) := by
  induction bs with
  | nil => simp [setBucket, Asc]
  | cons q rest ih =>
    obtain ⟨k, c⟩ := q
    have ⟨hlt, har⟩ := asc_cons.mp ha
    simp only [setBucket]
    split
    · rename_i hk
      refine asc_cons.mpr ⟨?_, ha⟩
      intro q hq
      rcases List.mem_cons.mp hq with rfl | hq
      · exact hk
      · have := hlt q hq
        simp at this ⊢
        omega
    · split
      · exact asc_cons.mpr ⟨hlt, har⟩
      · rename_i hk1 hk2
        refine asc_cons.mpr ⟨?_, ih har⟩
        intro q hq
        rcases (mem_setBucket har h b q).mp hq with rfl | ⟨hq, _⟩
        · simp; omega
        · exact hlt q hq

theorem mem_delBucket {bs : List (Int × List α)} (ha : Asc bs) (h : Int) (p : Int × List α) :
    p ∈ delBucket bs h ↔ p ∈ bs ∧ p.1 ≠ h := by
  induction bs with
  | nil => simp [delBucket]
  | cons q rest ih =>
    obtain ⟨k, c⟩ := q
    have ⟨hlt, har⟩ := asc_cons.mp ha
    simp only [delBucket]
    split
    · rename_i hk
      subst hk
      constructor
      · intro hp
        refine ⟨List.mem_cons_of_mem _ hp, ?_⟩
        have := hlt p hp
        simp at this
        omega
      · rintro ⟨hp, hne⟩
        rcases List.mem_cons.mp hp with rfl | hp
        · simp at hne
        · exact hp
    · rename_i hk
      rw [List.mem_cons, ih har]
      constructor
      · rintro (rfl | ⟨hp, hne⟩)
        · exact ⟨by simp, by simpa using hk⟩
        · exact ⟨List.mem_cons_of_mem _ hp, hne⟩
      · rintro ⟨hp, hne⟩
        rcases List.mem_cons.mp hp with rfl | hp
        · exact Or.inl rfl
        · exact Or.inr ⟨hp, hne⟩

theorem asc_delBucket {bs : List (Int × List α)} (ha : Asc bs) (h : Int) :
    Asc (delBucket bs h) := by
  induction bs with
  | nil => simp [delBucket, Asc]
  | cons q rest ih =>
    obtain ⟨k, c⟩ := q
    have ⟨hlt, har⟩ := asc_cons.mp ha
    simp only [delBucket]
    split
    · exact har
    · refine asc_cons.mpr ⟨?_, ih har⟩
      intro q hq
      exact hlt q ((mem_delBucket har h q).mp hq).1

/-- `Copy`: re-assigning every bucket of an ascending map into a fresh map
rebuilds the same map. -/
theorem foldl_setBucket_append (acc l : List (Int × List α)) (ha : Asc (acc ++ l)) :
    l.foldl (fun acc kv => setBucket acc kv.1 kv.2) acc = acc ++ l := by
  induction l generalizing acc with
  | nil => simp
  | cons p rest ih =>
    have hstep : setBucket acc p.1 p.2 = acc ++ [p] := by
      have hacc : ∀ q ∈ acc, q.1 < p.1 := by
        intro q hq
        have := (List.pairwise_append.mp ha).2.2 q hq p (by simp)
        exact this
      clear ih ha
      induction acc with
      | nil => simp [setBucket]
      | cons q acc ih2 =>
        obtain ⟨k, c⟩ := q
        have hk : k < p.1 := hacc (k, c) (by simp)
        have h1 : ¬ p.1 < k := by omega
        have h2 : ¬ p.1 = k := by omega
        simp only [setBucket, h1, h2, if_false, List.cons_append]
        rw [ih2 (fun q hq => hacc q (by simp [hq]))]
    simp only [List.foldl_cons, hstep]
    have : acc ++ p :: rest = (acc ++ [p]) ++ rest := by simp
    rw [this] at ha ⊢
    exact ih _ ha

theorem copy_eq {s : SetImpl α} (ha : Asc s.buckets) : copy s = s := by
  cases s with
  | mk bs =>
    simp only [copy]
    congr 1
    have := foldl_setBucket_append [] bs (by simpa using ha)
    simpa using this

/-- members of a map after an assignment -/
theorem mem_values_setBucket {bs : List (Int × List α)} (ha : Asc bs) (h : Int) (b : List α)
    (m : α) :
    m ∈ values ⟨setBucket bs h b⟩ ↔ m ∈ b ∨ ∃ p ∈ bs, p.1 ≠ h ∧ m ∈ p.2 := by
  simp only [values, List.mem_flatMap]
  constructor
  · rintro ⟨p, hp, hm⟩
    rcases (mem_setBucket ha h b p).mp hp with rfl | ⟨hp, hne⟩
    · exact Or.inl hm
    · exact Or.inr ⟨p, hp, hne, hm⟩
  · rintro (hm | ⟨p, hp, hne, hm⟩)
    · exact ⟨(h, b), (mem_setBucket ha h b _).mpr (Or.inl rfl), hm⟩
    · exact ⟨p, (mem_setBucket ha h b p).mpr (Or.inr ⟨hp, hne⟩), hm⟩

theorem mem_values_delBucket {bs : List (Int × List α)} (ha : Asc bs) (h : Int) (m : α) :
    m ∈ values ⟨delBucket bs h⟩ ↔ ∃ p ∈ bs, p.1 ≠ h ∧ m ∈ p.2 := by
  simp only [values, List.mem_flatMap]
  constructor
  · rintro ⟨p, hp, hm⟩
    have ⟨hp, hne⟩ := (mem_delBucket ha h p).mp hp
    exact ⟨p, hp, hne, hm⟩
  · rintro ⟨p, hp, hne, hm⟩
    exact ⟨p, (mem_delBucket ha h p).mpr ⟨hp, hne⟩, hm⟩

theorem mem_values {s : SetImpl α} {m : α} : m ∈ values s ↔ ∃ p ∈ s.buckets, m ∈ p.2 := by
  simp [values, List.mem_flatMap]

theorem length_eq_values_length (s : SetImpl α) : length s = (values s).length := by
  cases s with
  | mk bs =>
    simp only [length, values]
    suffices ∀ (n : Nat), bs.foldl (fun count kv => count + kv.2.length) n
        = n + (bs.flatMap (fun kv => kv.2)).length by simpa using this 0
    induction bs with
    | nil => simp
    | cons p rest ih =>
      intro n
      simp only [List.foldl_cons, List.flatMap_cons, List.length_append]
      rw [ih]
      omega

/-- appending one member to the bucket of its hash adds exactly that member to
the member list (up to the position of the bucket) -/
theorem values_setBucket_append_perm {bs : List (Int × List α)} (ha : Asc bs) (h : Int) (x : α) :
    (values ⟨setBucket bs h ((lookup bs h).getD [] ++ [x])⟩).Perm (x :: values ⟨bs⟩) := by
  induction bs with
  | nil => simp [setBucket, values, lookup]
  | cons q rest ih =>
    obtain ⟨k, c⟩ := q
    have ⟨hlt, har⟩ := asc_cons.mp ha
    by_cases hk : h < k
    · have hnone : lookup ((k, c) :: rest) h = none := by
        apply lookup_none_of_lt
        intro q hq
        rcases List.mem_cons.mp hq with rfl | hq
        · exact hk
        · have := hlt q hq
          simp at this ⊢
          omega
      simp [setBucket, hk, hnone, values]
    · by_cases hk2 : h = k
      · subst hk2
        simp only [setBucket, hk, if_false, lookup, if_true, Option.getD_some, values,
          List.flatMap_cons]
        have : (c ++ [x] ++ List.flatMap (fun kv => kv.2) rest)
            = c ++ x :: List.flatMap (fun kv => kv.2) rest := by simp
        rw [this]
        exact List.perm_middle
      · have hne : ¬ k = h := fun e => hk2 e.symm
        simp only [setBucket, hk, hk2, if_false, lookup, hne, values, List.flatMap_cons]
        have ih' := ih har
        simp only [values] at ih'
        exact (List.Perm.append_left c ih').trans List.perm_middle

end SetImpl
end CtyModel
