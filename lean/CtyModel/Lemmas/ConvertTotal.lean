/-
Totality of conversions on wholly-known values: no closure body panics, and only
conversions built in unsafe mode report errors.  The typing lemmas of
`ConvertType.lean` supply the facts about intermediate results.
-/
import CtyModel.Lemmas.ConvertProps
import CtyModel.Lemmas.ConvertD08WT
namespace CtyModel
namespace Convert
open Ty

/-- "nothing bad": not a panic, and an error only in unsafe mode -/
def NB {α} (uns : Bool) (r : Res α) : Prop := (∀ w, r ≠ .panic w) ∧ (∀ c, r = .err c → uns = true)

theorem NB.ok {α} {uns : Bool} (a : α) : NB uns (Res.ok a) := ⟨by simp, by simp⟩
theorem NB.unmodelled {α} {uns : Bool} : NB uns (Res.unmodelled : Res α) := ⟨by simp, by simp⟩
theorem NB.err {α} (c : String) : NB true (Res.err c : Res α) := ⟨by simp, by simp⟩

theorem NB.bind {α β} {uns : Bool} {r : Res α} {f : α → Res β} (hr : NB uns r)
    (hf : ∀ a, r = .ok a → NB uns (f a)) : NB uns (r.bind f) := by
  cases r with
  | ok a => exact hf a rfl
  | err c => exact ⟨by simp [Res.bind], fun c' h => hr.2 c rfl⟩
  | panic w => exact absurd rfl (hr.1 w)
  | unmodelled => exact ⟨by simp [Res.bind], by simp [Res.bind]⟩

theorem NB.map {α β} {uns : Bool} {r : Res α} {f : α → β} (hr : NB uns r) : NB uns (r.map f) := by
  cases r with
  | ok a => exact NB.ok _
  | err c => exact ⟨by simp [Res.map], fun c' h => hr.2 c rfl⟩
  | panic w => exact absurd rfl (hr.1 w)
  | unmodelled => exact NB.unmodelled

theorem NB.mono {α} {r : Res α} (h : NB false r) (uns : Bool) : NB uns r :=
  ⟨h.1, fun c hc => absurd (h.2 c hc) (by simp)⟩

theorem mapRes_NB {α β} {uns : Bool} {f : α → Res β} : ∀ (xs : List α), (∀ x ∈ xs, NB uns (f x)) →
    NB uns (mapRes f xs)
  | [], _ => NB.ok _
  | x :: xs, h => by
    simp only [mapRes]
    refine NB.bind (h x (by simp)) fun b _ => NB.bind (mapRes_NB xs fun y hy => h y (by simp [hy])) fun bs _ => NB.ok _

/-! ### value constructors do not panic on consistent input -/

theorem listVal_NB {uns : Bool} {t : Ty} (hw : wf t = true) (hd : t.isDyn = false) {vs : List Value}
    (hne : vs ≠ []) (h : ∀ v ∈ vs, v.ty = t) : NB uns (listVal vs) := by
  unfold listVal
  have : vs.isEmpty = false := by cases vs <;> simp at hne ⊢
  simp only [this, elemTyOf_same hw hd hne h]
  exact NB.ok _

theorem mapVal_NB {uns : Bool} {t : Ty} (hw : wf t = true) (hd : t.isDyn = false) {ks : List String}
    {vs : List Value} (hne : vs ≠ []) (h : ∀ v ∈ vs, v.ty = t) : NB uns (mapVal ks vs) := by
  unfold mapVal
  have : vs.isEmpty = false := by cases vs <;> simp at hne ⊢
  simp only [this, elemTyOf_same hw hd hne h]
  exact NB.ok _

theorem setAdd_NB {E : Env} (hS : SetLaws E) {uns : Bool} (ety : Ty) (hw : wf ety = true) (h : Int) (x : Payload)
    (hx : memberOK ety x = true) :
    ∀ (l : List (Int × Payload)), (∀ y ∈ l, memberOK ety y.2 = true) → NB uns (setAdd E ety h x l)
  | [], _ => NB.ok _
  | (j, y) :: rest, hl => by
    have hrest : ∀ z ∈ rest, memberOK ety z.2 = true := fun z hz => hl z (List.mem_cons_of_mem _ hz)
    simp only [setAdd]
    split
    · exact NB.map (setAdd_NB hS ety hw h x hx rest hrest)
    · split
      · rcases hS.equiv_ok ety x y hw hx (hl (j, y) (by simp)) with ⟨r, hr⟩ | hr
        · rw [hr]
          cases r
          · exact NB.map (setAdd_NB hS ety hw h x hx rest hrest)
          · exact NB.ok _
        · rw [hr]; exact NB.unmodelled
      · exact NB.ok _

theorem newSetAcc_NB {E : Env} (hS : SetLaws E) {uns : Bool} (ety : Ty) (hw : wf ety = true) :
    ∀ (xs : List Payload) (acc : List (Int × Payload)), (∀ x ∈ xs, memberOK ety x = true) →
    (∀ y ∈ acc, memberOK ety y.2 = true) → NB uns (newSetAcc E ety xs acc)
  | [], _, _, _ => NB.ok _
  | x :: xs, acc, hxs, hacc => by
    simp only [newSetAcc]
    have hx := hxs x (by simp)
    rcases hS.hash_ok ety x hw hx with ⟨h, hh⟩ | hh
    · rw [hh]
      simp only
      have := setAdd_NB hS (uns := uns) ety hw h x hx acc hacc
      cases hsa : setAdd E ety h x acc with
      | ok acc' =>
        refine newSetAcc_NB hS ety hw xs acc' (fun y hy => hxs y (List.mem_cons_of_mem _ hy)) ?_
        intro y hy
        rcases setAdd_mem hsa y hy with h1 | h1
        · rw [h1]; exact hx
        · exact hacc y h1
      | err c => exact ⟨by simp, fun c' _ => (hsa ▸ this).2 c rfl⟩
      | panic w => exact absurd hsa ((hsa ▸ this).1 w |> fun h => by simpa using h)
      | unmodelled => exact NB.unmodelled
    · rw [hh]; exact NB.unmodelled

theorem setVal_NB {E : Env} (hS : SetLaws E) {uns : Bool} {t : Ty} (hw : wf t = true) (hd : t.isDyn = false)
    {vs : List Value} (hne : vs ≠ []) (h : ∀ v ∈ vs, v.ty = t) (hg : ∀ v ∈ vs, vgood true v) :
    NB uns (setVal E vs) := by
  unfold setVal
  have : vs.isEmpty = false := by cases vs <;> simp at hne ⊢
  simp only [this, elemTyOf_same hw hd hne h]
  refine NB.map (NB.map (newSetAcc_NB hS t hw _ [] ?_ (by simp)))
  intro x hx
  obtain ⟨v, hv, rfl⟩ := List.mem_map.mp hx
  have h1 := (hg v hv).1
  rw [h v hv] at h1
  simp [memberOK, wtP_stripMarks t _ h1, stripMarks_noMarks, wk_stripMarks, (hg v hv).2 rfl]

/-! ### the recursive calls do nothing bad on wholly-known members -/

def RecNB (E : Env) (rec : Rec) : Prop :=
  ∀ (inT out : Ty) (uns : Bool) (c : Plan) (v : Value), gck E inT out uns = some c →
    Conds inT out v → Payload.whollyKnown v.v = true → NB uns (rec (.wrap out c) v)

theorem whollyKnownL_mem : ∀ {ps : List Payload}, Payload.whollyKnownL ps = true →
    ∀ p ∈ ps, Payload.whollyKnown p = true
  | [], _, _, hp => by simp at hp
  | q :: qs, h, p, hp => by
    simp only [Payload.whollyKnownL, Bool.and_eq_true] at h
    rcases List.mem_cons.mp hp with rfl | hp
    · exact h.1
    · exact whollyKnownL_mem h.2 p hp

section Bodies
variable {E : Env} (hU : UnifyLaws E) (hS : SetLaws E) {rec : Rec} (hrec : RecOK E rec) (hnb : RecNB E rec)
  (hwt : RecWT E rec)
include hU hS hrec hnb hwt

omit hU hS hrec hwt in
theorem planFor_NB {uns : Bool} {it ot : Ty} {p : Plan} {e : Value} (hp : PlanFor E uns it ot p)
    (hc : Conds it ot e) (hk : Payload.whollyKnown e.v = true) : NB uns (applyOpt rec p e) := by
  rcases hp with ⟨rfl, _⟩ | ⟨c, rfl, hg⟩
  · exact NB.ok _
  · exact hnb it ot uns c e hg hc hk

/-- members of a collection: same type, well-typed, wholly known -/
def Members (es : List Value) (ie : Ty) : Prop :=
  ∀ e ∈ es, e.ty = ie ∧ wtP ie e.v = true ∧ Payload.whollyKnown e.v = true

omit hU hS hrec hwt in
theorem members_NB {uns : Bool} {ie oe conv} {post : Value → Value}
    (hpf : PlanFor E uns ie oe conv) (hwi : wf ie = true) (hoi : hasOpt ie = false)
    (hwo : wf oe = true) (hdo : hasDyn oe = false)
    {es : List Value} (hes : Members es ie) :
    NB uns (mapRes (fun e => (applyOpt rec conv e).map post) es) := by
  apply mapRes_NB
  intro e he
  obtain ⟨h1, h2, h3⟩ := hes e he
  exact NB.map (planFor_NB hnb hpf ⟨h1, hwi, hwo, hoi, hdo, h2⟩ h3)

omit hS hwt in
theorem collToList_NB {uns : Bool} {ie oe conv} {v : Value} {es : List Value}
    (hpf : PlanFor E uns ie oe conv) (hwi : wf ie = true) (hoi : hasOpt ie = false)
    (hwo : wf oe = true) (hdo : hasDyn oe = false)
    (hes : elemsOf E v = .ok es) (hm : Members es ie) :
    NB uns (applyStep E rec (.collToList oe conv) v) := by
  have hnd : oe.isDyn = false := not_isDyn_of_noDyn hdo
  simp only [applyStep, hnd, hdo, hes]
  split
  · exact NB.ok _
  · refine NB.bind (NB.ok _) fun es0 h0 => ?_
    simp at h0; subst h0
    refine NB.bind (members_NB hnb hpf hwi hoi hwo hdo hm) fun es' hes' => ?_
    have hty := converted_members hU hrec (post := stripNull) (fun _ hv => stripNull_ty' hv)
      hpf hwi hoi hwo hdo (fun e he => ⟨(hm e he).1, (hm e he).2.1⟩) hes'
    split
    · exact NB.ok _
    · rename_i hne
      have hne' : es' ≠ [] := by simpa using hne
      have hT := wf_stripOpt oe hwo
      have hTd : (stripOpt oe).isDyn = false := not_isDyn_of_noDyn (by rw [stripOpt_hasDyn]; exact hdo)
      simp only [canCollVal_same hT hTd hne' hty.2]
      exact listVal_NB hT hTd hne' hty.2

theorem collToSet_NB {uns : Bool} {ie oe conv} {v : Value} {es : List Value}
    (hpf : PlanFor E uns ie oe conv) (hwi : wf ie = true) (hoi : hasOpt ie = false)
    (hwo : wf oe = true) (hdo : hasDyn oe = false)
    (hes : elemsOf E v = .ok es) (hm : Members es ie) :
    NB uns (applyStep E rec (.collToSet oe conv) v) := by
  have hnd : oe.isDyn = false := not_isDyn_of_noDyn hdo
  simp only [applyStep, hnd, hdo, hes]
  refine NB.bind (NB.ok _) fun es0 h0 => ?_
  simp at h0; subst h0
  refine NB.bind (members_NB hnb hpf hwi hoi hwo hdo hm) fun es' hes' => ?_
  have hty := converted_members hU hrec (post := stripNull) (fun _ hv => stripNull_ty' hv)
    hpf hwi hoi hwo hdo (fun e he => ⟨(hm e he).1, (hm e he).2.1⟩) hes'
  split
  · exact NB.ok _
  · rename_i hne
    have hne' : es' ≠ [] := by simpa using hne
    have hT := wf_stripOpt oe hwo
    have hTd : (stripOpt oe).isDyn = false := not_isDyn_of_noDyn (by rw [stripOpt_hasDyn]; exact hdo)
    simp only [canCollVal_same hT hTd hne' hty.2]
    have hg := members_good hwt (k := true) (post := stripNull) (fun _ hv => vgood_stripNull hv)
      hpf hwi hoi hwo hdo (fun e he => ⟨(hm e he).1, (hm e he).2.1, fun _ => (hm e he).2.2⟩) hes'
    exact setVal_NB hS hT hTd hne' hty.2 hg

omit hS hwt in
theorem collToMap_NB {uns : Bool} {ie oe conv} {v : Value} {es : List Value}
    (hpf : PlanFor E uns ie oe conv) (hwi : wf ie = true) (hoi : hasOpt ie = false)
    (hwo : wf oe = true) (hdo : hasDyn oe = false)
    (hes : elemsOf E v = .ok es) (hm : Members es ie) :
    NB uns (applyStep E rec (.collToMap oe conv) v) := by
  have hnd : oe.isDyn = false := not_isDyn_of_noDyn hdo
  simp only [applyStep, hnd, hdo, hes]
  refine NB.bind (NB.ok _) fun es0 h0 => ?_
  simp at h0; subst h0
  have hfun : (fun e => applyOpt rec conv e) = fun e => (applyOpt rec conv e).map id := by
    funext e; cases applyOpt rec conv e <;> rfl
  rw [hfun]
  refine NB.bind (members_NB hnb hpf hwi hoi hwo hdo hm) fun es' hes' => ?_
  have hty := converted_members hU hrec (post := id) (fun _ hv => hv)
    hpf hwi hoi hwo hdo (fun e he => ⟨(hm e he).1, (hm e he).2.1⟩) hes'
  split
  · exact NB.ok _
  · rename_i hne
    have hne' : es' ≠ [] := by simpa using hne
    have hT := wf_stripOpt oe hwo
    have hTd : (stripOpt oe).isDyn = false := not_isDyn_of_noDyn (by rw [stripOpt_hasDyn]; exact hdo)
    have hun : (if isCollOrObj oe = true then unifyElems E rec false es' else Res.ok es') = .ok es' := by
      split
      · exact unifyElems_same hU hT (stripOpt_noOpt oe) hne' hty.2
      · rfl
    rw [hun]
    simp only [Res.bind, canCollVal_same hT hTd hne' hty.2]
    exact mapVal_NB hT hTd hne' hty.2

omit hU hS hrec hwt in
theorem applyZip_all_NB {uns : Bool} {t : Ty} (post : Value → Value) (hwt : wf t = true) (hdt : hasDyn t = false) :
    ∀ (its : List Ty) (cs : List Plan) (ps : List Payload),
    All2 (fun it p => PlanFor E uns it t p) its cs → wtZip its ps = true → Payload.whollyKnownL ps = true →
    (∀ it ∈ its, wf it = true ∧ hasOpt it = false) →
    NB uns (applyZip rec post cs (zipTys its ps))
  | [], _, [], .nil, _, _, _ => by simp only [zipTys, applyZip]; exact NB.ok _
  | [], _, _ :: _, _, hw, _, _ => by simp [wtZip] at hw
  | _ :: _, _, [], _, hw, _, _ => by simp [wtZip] at hw
  | it :: its, _, p :: ps, .cons hp hps, hw, hk, hall => by
    simp only [wtZip, Bool.and_eq_true] at hw
    simp only [Payload.whollyKnownL, Bool.and_eq_true] at hk
    simp only [zipTys, applyZip]
    obtain ⟨hwi, hoi⟩ := hall it (by simp)
    refine NB.bind (planFor_NB hnb hp ⟨rfl, hwi, hwt, hoi, hdt, hw.1⟩ hk.1) fun v' _ => ?_
    refine NB.bind (applyZip_all_NB post hwt hdt its _ ps hps hw.2 hk.2 fun x hx => hall x (by simp [hx]))
      fun vs' _ => NB.ok _

omit hU hS hrec hwt in
theorem applyZip_zip_NB {uns : Bool} :
    ∀ (its ots : List Ty) (cs : List Plan) (ps : List Payload),
    All3 (fun it ot p => PlanFor E uns it ot p) its ots cs → wtZip its ps = true →
    Payload.whollyKnownL ps = true →
    wfL its = true → hasOptL its = false → wfL ots = true → hasDynL ots = false →
    NB uns (applyZip rec id cs (zipTys its ps))
  | [], _, _, [], .nil, _, _, _, _, _, _ => by simp only [zipTys, applyZip]; exact NB.ok _
  | [], _, _, _ :: _, _, hw, _, _, _, _, _ => by simp [wtZip] at hw
  | _ :: _, _, _, [], _, hw, _, _, _, _, _ => by simp [wtZip] at hw
  | it :: its, ot :: ots, c :: cs, p :: ps, .cons hp hps, hw, hk, hwi, hoi, hwo, hdo => by
    simp only [wtZip, Bool.and_eq_true] at hw
    simp only [Payload.whollyKnownL, Bool.and_eq_true] at hk
    simp only [wfL, Bool.and_eq_true] at hwi hwo
    simp only [hasOptL, Bool.or_eq_false_iff] at hoi
    simp only [hasDynL, Bool.or_eq_false_iff] at hdo
    simp only [zipTys, applyZip]
    refine NB.bind (planFor_NB hnb hp ⟨rfl, hwi.1, hwo.1, hoi.1, hdo.1, hw.1⟩ hk.1) fun v' _ => ?_
    refine NB.bind (applyZip_zip_NB its ots cs ps hps hw.2 hk.2 hwi.2 hoi.2 hwo.2 hdo.2)
      fun vs' _ => NB.ok _

omit hS hwt in
theorem tupToList_NB {uns : Bool} {its : List Ty} {oe : Ty} {cs : List Plan} {ps : List Payload}
    (hpl : All2 (fun it p => PlanFor E uns it oe p) its cs) (hne : its ≠ []) (hw : wtZip its ps = true)
    (hk : Payload.whollyKnownL ps = true)
    (hall : ∀ it ∈ its, wf it = true ∧ hasOpt it = false)
    (hwo : wf oe = true) (hdo : hasDyn oe = false) :
    NB uns (applyStep E rec (.tupToList cs uns) ⟨.tuple its, .seq ps⟩) := by
  simp only [applyStep, elemsOf]
  refine NB.bind (NB.ok _) fun es0 h0 => ?_
  simp at h0; subst h0
  refine NB.bind (applyZip_all_NB hnb id hwo hdo its cs ps hpl hw hk hall) fun es' hes' => ?_
  have hm := applyZip_all hrec id (fun _ hv => hv) hwo hdo its cs ps es' hpl hw hall hes'
  have hne' : es' ≠ [] := by
    intro he; rw [he] at hm
    have h0 := hm.1
    simp at h0
    exact hne (List.length_eq_zero_iff.mp h0.symm)
  have hT := wf_stripOpt oe hwo
  have hTd : (stripOpt oe).isDyn = false := not_isDyn_of_noDyn (by rw [stripOpt_hasDyn]; exact hdo)
  rw [unifyElems_same hU hT (stripOpt_noOpt oe) hne' hm.2]
  simp only [Res.bind, canCollVal_same hT hTd hne' hm.2]
  exact listVal_NB hT hTd hne' hm.2

omit hU in
theorem tupToSet_NB {uns : Bool} {its : List Ty} {oe : Ty} {cs : List Plan} {ps : List Payload}
    (hpl : All2 (fun it p => PlanFor E uns it oe p) its cs) (hne : its ≠ []) (hw : wtZip its ps = true)
    (hk : Payload.whollyKnownL ps = true)
    (hall : ∀ it ∈ its, wf it = true ∧ hasOpt it = false)
    (hwo : wf oe = true) (hdo : hasDyn oe = false) :
    NB uns (applyStep E rec (.tupToSet cs) ⟨.tuple its, .seq ps⟩) := by
  simp only [applyStep, elemsOf]
  refine NB.bind (NB.ok _) fun es0 h0 => ?_
  simp at h0; subst h0
  refine NB.bind (applyZip_all_NB hnb stripNull hwo hdo its cs ps hpl hw hk hall) fun es' hes' => ?_
  have hm := applyZip_all hrec stripNull (fun _ hv => stripNull_ty' hv) hwo hdo its cs ps es' hpl hw hall hes'
  have hne' : es' ≠ [] := by
    intro he; rw [he] at hm
    have h0 := hm.1
    simp at h0
    exact hne (List.length_eq_zero_iff.mp h0.symm)
  have hT := wf_stripOpt oe hwo
  have hTd : (stripOpt oe).isDyn = false := not_isDyn_of_noDyn (by rw [stripOpt_hasDyn]; exact hdo)
  simp only [canCollVal_same hT hTd hne' hm.2]
  have hg := applyZip_all_good hwt (k := true) stripNull (fun _ hv => vgood_stripNull hv) hwo hdo its cs ps es'
    hpl hw (fun _ => hk) hall hes'
  exact setVal_NB hS hT hTd hne' hm.2 hg

omit hS hwt in
theorem objToMap_NB {uns : Bool} {inn : List String} {its : List Ty} {ios : List Bool} {oe : Ty}
    {cs : List Plan} {ps : List Payload}
    (hpl : All2 (fun it p => PlanFor E uns it oe p) its cs) (hne : its ≠ []) (hw : wtZip its ps = true)
    (hk : Payload.whollyKnownL ps = true) (hnd : inn.Nodup) (hln : inn.length = its.length)
    (hall : ∀ it ∈ its, wf it = true ∧ hasOpt it = false)
    (hwo : wf oe = true) (hdo : hasDyn oe = false) :
    NB uns (applyStep E rec (.objToMap inn cs oe uns) ⟨.object inn its ios, .smap inn ps⟩) := by
  simp only [applyStep, elemsOf, keysOf]
  refine NB.bind (NB.ok _) fun es0 h0 => ?_
  simp at h0; subst h0
  have hlc : inn.length = cs.length := by rw [hln]; exact hpl.length
  have hself := lookup_map_self [] [] inn cs rfl hlc (by simp) hnd
  simp only [List.nil_append] at hself
  rw [hself]
  refine NB.bind (applyZip_all_NB hnb id hwo hdo its cs ps hpl hw hk hall) fun es' hes' => ?_
  have hm := applyZip_all hrec id (fun _ hv => hv) hwo hdo its cs ps es' hpl hw hall hes'
  have hne' : es' ≠ [] := by
    intro he; rw [he] at hm
    have h0 := hm.1
    simp at h0
    exact hne (List.length_eq_zero_iff.mp h0.symm)
  have hT := wf_stripOpt oe hwo
  have hTd : (stripOpt oe).isDyn = false := not_isDyn_of_noDyn (by rw [stripOpt_hasDyn]; exact hdo)
  have hun : (if isCollOrObj oe = true then unifyElems E rec uns es' else Res.ok es') = .ok es' := by
    split
    · exact unifyElems_same hU hT (stripOpt_noOpt oe) hne' hm.2
    · rfl
  rw [hun]
  simp only [Res.bind, canCollVal_same hT hTd hne' hm.2]
  exact mapVal_NB hT hTd hne' hm.2

omit hU hS hrec hwt in
theorem tupToTup_NB {uns : Bool} {its ots : List Ty} {cs : List Plan} {ps : List Payload}
    (hpl : All3 (fun it ot p => PlanFor E uns it ot p) its ots cs) (hw : wtZip its ps = true)
    (hk : Payload.whollyKnownL ps = true)
    (hwi : wfL its = true) (hoi : hasOptL its = false) (hwo : wfL ots = true) (hdo : hasDynL ots = false)
    :
    NB uns (applyStep E rec (.tupToTup cs) ⟨.tuple its, .seq ps⟩) := by
  simp only [applyStep, elemsOf]
  refine NB.bind (NB.ok _) fun es0 h0 => ?_
  simp at h0; subst h0
  exact NB.bind (applyZip_zip_NB hnb its ots cs ps hpl hw hk hwi hoi hwo hdo) fun _ _ => NB.ok _

omit hU hS hrec hwt in
theorem objAttrLoop_NB {uns : Bool} {on : List String} {ot : List Ty} {oo : List Bool} {keys : List String}
    {convs : List Plan} :
    ∀ (ns : List String) (its : List Ty) (cs : List Plan) (ps : List Payload),
    All3 (AttrOK E uns on ot oo keys convs) ns its cs → wtZip its ps = true →
    Payload.whollyKnownL ps = true → NB uns (objAttrLoop rec keys convs ns (zipTys its ps))
  | [], [], [], [], .nil, _, _ => by simp only [zipTys, objAttrLoop]; exact NB.ok _
  | _ :: _, _ :: _, _ :: _, [], _, hw, _ => by simp [wtZip] at hw
  | n :: ns, it :: its, c :: cs, p :: ps, .cons hok hoks, hw, hk => by
    simp only [wtZip, Bool.and_eq_true] at hw
    simp only [Payload.whollyKnownL, Bool.and_eq_true] at hk
    obtain ⟨hlk, hap, hwi, hoi, hout⟩ := hok
    simp only [zipTys, objAttrLoop, hlk]
    have ih := objAttrLoop_NB ns its cs ps hoks hw.2 hk.2
    rcases hap with ⟨rfl, _⟩ | ⟨oty, o, hf, hpf⟩
    · exact ih
    · have hc : Conds it oty ⟨it, p⟩ :=
        ⟨rfl, hwi, (hout oty o hf).1, hoi, (hout oty o hf).2, hw.1⟩
      have hstep := planFor_NB hnb hpf hc hk.1
      rcases hpf with ⟨rfl, _⟩ | ⟨c', rfl, _⟩ <;>
        exact NB.bind hstep fun _ _ => NB.bind ih fun _ _ => NB.ok _

omit hU hS hrec hwt in
theorem objToObj_NB {uns : Bool} {inn : List String} {its : List Ty} {ios : List Bool} {on : List String}
    {ot : List Ty} {oo : List Bool} {cs : List Plan} {ps : List Payload}
    (hpl : All3 (AttrPlan E uns on ot oo) inn its cs) (hw : wtZip its ps = true)
    (hk : Payload.whollyKnownL ps = true)
    (hwfI : wf (.object inn its ios) = true) (hoI : hasOpt (.object inn its ios) = false)
    (hwfO : wf (.object on ot oo) = true) (hdO : hasDyn (.object on ot oo) = false)
    :
    NB uns (applyStep E rec (.objToObj inn cs on ot oo) ⟨.object inn its ios, .smap inn ps⟩) := by
  simp only [wf, Bool.and_eq_true, beq_iff_eq] at hwfI hwfO
  simp only [hasOpt, Bool.or_eq_false_iff] at hoI
  simp only [hasDyn] at hdO
  simp only [applyStep, elemsOf, keysOf]
  refine NB.bind (NB.ok _) fun es0 h0 => ?_
  simp at h0; subst h0
  have hndI := strictAsc_nodup hwfI.1.2
  have hok := attrOK_build (E := E) (uns := uns) (on := on) (ot := ot) (oo := oo) [] [] [] [] inn its ios cs
    rfl rfl rfl hwfI.1.1.2 (by simp) hndI hpl (by
      intro n it b hf
      simp only [List.nil_append] at hf
      refine ⟨wfL_mem hwfI.2 it (find_mem_ty hf), hasOptL_mem hoI.2 it (find_mem_ty hf), ?_⟩
      intro oty o hfo
      exact ⟨wfL_mem hwfO.2 oty (find_mem_ty hfo), hasDynL_mem hdO oty (find_mem_ty hfo)⟩)
  simp only [List.nil_append] at hok
  exact NB.bind (objAttrLoop_NB hnb inn its cs ps hok hw hk) fun _ _ => NB.ok _

omit hU hS hrec hwt in
theorem mapObjLoop_NB {ie : Ty} {names : List String} {tys : List Ty} {opts : List Bool} {convs : List Plan}
    (hpl : All2 (fun ot p => MapObjPlan E true ie ot p) tys convs)
    (hl1 : names.length = tys.length) (hl2 : opts.length = tys.length)
    (hwi : wf ie = true) (hoi : hasOpt ie = false)
    (hty : ∀ n t o, Ty.find n names tys opts = some (t, o) →
      wf t = true ∧ hasDyn t = false) :
    ∀ (ks : List String) (ps : List Payload), wtAll ie ps = true → Payload.whollyKnownL ps = true →
    NB true (mapObjLoop rec names tys opts convs ks (ps.map fun p => ⟨ie, p⟩))
  | [], _, _, _ => by simp only [mapObjLoop]; exact NB.ok _
  | _ :: _, [], _, _ => by simp only [List.map_nil, mapObjLoop]; exact NB.ok _
  | k :: ks, p :: ps, hw, hk => by
    simp only [wtAll, Bool.and_eq_true] at hw
    simp only [Payload.whollyKnownL, Bool.and_eq_true] at hk
    simp only [List.map_cons, mapObjLoop]
    have ih := mapObjLoop_NB hpl hl1 hl2 hwi hoi hty ks ps hw.2 hk.2
    split
    · exact ih
    · rename_i hc
      have hc' : names.contains k = true := by simpa using hc
      have hsome := find_of_contains names tys opts hl1 hl2 hc'
      obtain ⟨⟨t, o⟩, hf⟩ := Option.isSome_iff_exists.mp hsome
      obtain ⟨pl, hlk, hmp⟩ := find_lookupPlan names tys opts convs hpl hf
      obtain ⟨hwt, hdt⟩ := hty k t o hf
      simp only [hlk]
      refine NB.bind ?_ fun _ _ => NB.bind ih fun _ _ => NB.ok _
      rcases hmp with rfl | ⟨rfl, _⟩ | ⟨c, rfl, hg⟩
      · exact NB.err _
      · exact NB.ok _
      · exact hnb ie t true c ⟨ie, p⟩ hg ⟨rfl, hwi, hwt, hoi, hdt, hw.1⟩ hk.1

omit hU hS hrec hnb hwt in
theorem mapObjFill_NB {keys : List String} {vals : List Value} :
    ∀ (ns : List String) (ts : List Ty) (os : List Bool), NB true (mapObjFill keys vals ns ts os)
  | [], _, _ => by simp only [mapObjFill]; exact NB.ok _
  | _ :: _, [], _ => by simp only [mapObjFill]; exact NB.ok _
  | _ :: _, _ :: _, [] => by simp only [mapObjFill]; exact NB.ok _
  | n :: ns, t :: ts, o :: os => by
    simp only [mapObjFill]
    split
    · exact NB.map (mapObjFill_NB ns ts os)
    · split
      · exact NB.map (mapObjFill_NB ns ts os)
      · exact NB.err _

omit hU hS hrec hwt in
theorem mapToObj_NB {ie : Ty} {on : List String} {ot : List Ty} {oo : List Bool}
    {cs : List Plan} {ks : List String} {ps : List Payload}
    (hpl : All2 (fun t p => MapObjPlan E true ie t p) ot cs) (hw : wtAll ie ps = true)
    (hk : Payload.whollyKnownL ps = true)
    (hwi : wf ie = true) (hoi : hasOpt ie = false)
    (hwfO : wf (.object on ot oo) = true) (hdO : hasDyn (.object on ot oo) = false)
    :
    NB true (applyStep E rec (.mapToObj on ot oo cs) ⟨.map ie, .smap ks ps⟩) := by
  simp only [wf, Bool.and_eq_true, beq_iff_eq] at hwfO
  simp only [hasDyn] at hdO
  simp only [applyStep, elemsOf, keysOf]
  refine NB.bind (NB.ok _) fun es0 h0 => ?_
  simp at h0; subst h0
  refine NB.bind (mapObjLoop_NB hnb hpl hwfO.1.1.1 hwfO.1.1.2 hwi hoi (by
      intro n t o hf
      exact ⟨wfL_mem hwfO.2 t (find_mem_ty hf), hasDynL_mem hdO t (find_mem_ty hf)⟩)
    ks ps hw hk) fun _ _ => ?_
  exact NB.bind (mapObjFill_NB on ot oo) fun _ _ => NB.ok _

end Bodies

/-! ### primitive conversions -/

theorem shape_number {p : Payload} (hp : plain p) (h : wtP .number p = true) : ∃ x, p = .n x := by
  obtain ⟨hm, hk, hn⟩ := hp
  cases p <;> simp [wtP, Payload.isMarked, Payload.isKnown, Payload.isNull, Payload.unmark1] at h hm hk hn
  exact ⟨_, rfl⟩

theorem shape_bool {p : Payload} (hp : plain p) (h : wtP .bool p = true) : ∃ x, p = .b x := by
  obtain ⟨hm, hk, hn⟩ := hp
  cases p <;> simp [wtP, Payload.isMarked, Payload.isKnown, Payload.isNull, Payload.unmark1] at h hm hk hn
  exact ⟨_, rfl⟩

theorem shape_string {p : Payload} (hp : plain p) (h : wtP .string p = true) : ∃ x, p = .s x := by
  obtain ⟨hm, hk, hn⟩ := hp
  cases p <;> simp [wtP, Payload.isMarked, Payload.isKnown, Payload.isNull, Payload.unmark1] at h hm hk hn
  exact ⟨_, rfl⟩

theorem parse512_no_panic (s : String) (w : String) : Num.parse512 s ≠ .panic w := by
  intro h
  unfold Num.parse512 at h
  repeat' (first | (simp at h; done) | (simp only at h; split at h) | split at h)

theorem parseNumber_no_panic (s : String) (w : String) : parseNumber s ≠ .panic w := by
  intro h
  unfold parseNumber at h
  split at h
  · split at h
    · simp at h
    · exact parse512_no_panic s w h
  · exact parse512_no_panic s w h

/-! ### every closure body -/

theorem inner_NB {E : Env} (hU : UnifyLaws E) (hS : SetLaws E) {rec : Rec} (hrec : RecOK E rec)
    (hnb : RecNB E rec) (hwt' : RecWT E rec) (inT out : Ty) (uns : Bool) (c : Plan) (v : Value)
    (hg : gck E inT out uns = some c) (hc : Conds inT out v) (hp : plain v.v)
    (hk : Payload.whollyKnown v.v = true) : NB uns (applyStep E rec c v) := by
  obtain ⟨hty, hwI, hwO, hoI, hdO, hwt⟩ := hc
  obtain ⟨vt, vp⟩ := v
  simp only at hty hwt hp hk
  subst hty
  have hid : vt.isDyn = false := by
    cases vt <;> simp [Ty.isDyn]
    exact (shape_prim_dyn hp hwt).elim
  cases out with
  | dyn => simp [hasDyn] at hdO
  | bool =>
    cases vt <;> simp [gck, Ty.isDyn, isPrim, primSafe, primUnsafe] at hg hid
    obtain ⟨rfl, rfl⟩ := hg
    obtain ⟨x, rfl⟩ := shape_string hp hwt
    simp only [applyStep]
    repeat' split
    all_goals first
      | exact NB.ok _
      | exact NB.err _
  | number =>
    cases vt <;> simp [gck, Ty.isDyn, isPrim, primSafe, primUnsafe] at hg hid
    obtain ⟨rfl, rfl⟩ := hg
    obtain ⟨x, rfl⟩ := shape_string hp hwt
    simp only [applyStep]
    refine NB.map ⟨parseNumber_no_panic x, fun _ _ => rfl⟩
  | string =>
    cases vt <;> simp [gck, Ty.isDyn, isPrim, primSafe, primUnsafe] at hg hid
    · subst hg
      obtain ⟨x, rfl⟩ := shape_bool hp hwt
      exact NB.ok _
    · subst hg
      obtain ⟨x, rfl⟩ := shape_number hp hwt
      exact NB.ok _
  | capsule i =>
    cases vt <;> simp [gck, Ty.isDyn, isPrim, primSafe, primUnsafe] at hg hid
  | list oe =>
    have hwo : wf oe = true := by simpa [wf] using hwO
    have hdo : hasDyn oe = false := by simpa [hasDyn] using hdO
    cases vt <;> simp [gck, Ty.isDyn, isPrim] at hg hid
    case list ie =>
      have hwi : wf ie = true := by simpa [wf] using hwI
      have hoi : hasOpt ie = false := by simpa [hasOpt] using hoI
      obtain ⟨ps, rfl, hps⟩ := shape_list hp hwt
      have hkl : Payload.whollyKnownL ps = true := by simpa [Payload.whollyKnown] using hk
      have hm : Members (ps.map fun p => (⟨ie, p⟩ : Value)) ie := by
        intro e he
        obtain ⟨p, hpm, rfl⟩ := List.mem_map.mp he
        exact ⟨rfl, wtAll_mem hps p hpm, whollyKnownL_mem hkl p hpm⟩
      have hpf : ∃ conv, c = .collToList oe conv ∧ PlanFor E uns ie oe conv := by
        split at hg
        · rename_i he; simp at hg; exact ⟨.nil, hg.symm, .inl ⟨rfl, he⟩⟩
        · obtain ⟨c', hc', rfl⟩ := Option.map_eq_some_iff.mp hg
          exact ⟨_, rfl, .inr ⟨c', rfl, hc'⟩⟩
      obtain ⟨conv, rfl, hpf⟩ := hpf
      exact collToList_NB hU hrec hnb hpf hwi hoi hwo hdo rfl hm
    case set ie =>
      have hwi : wf ie = true := by simpa [wf] using hwI
      have hoi : hasOpt ie = false := by simpa [hasOpt] using hoI
      obtain ⟨ids, ps, rfl, hps⟩ := shape_set hp hwt
      have hkl : Payload.whollyKnownL ps = true := by simpa [Payload.whollyKnown] using hk
      have hm : Members ((setValues E ie ps).map fun p => (⟨ie, p⟩ : Value)) ie := by
        intro e he
        obtain ⟨p, hpm, rfl⟩ := List.mem_map.mp he
        exact ⟨rfl, wtAll_mem hps p (setValues_mem hpm), whollyKnownL_mem hkl p (setValues_mem hpm)⟩
      have hpf : ∃ conv, c = .collToList oe conv ∧ PlanFor E uns ie oe conv := by
        split at hg
        · rename_i he; simp at hg; exact ⟨.nil, hg.symm, .inl ⟨rfl, he⟩⟩
        · obtain ⟨c', hc', rfl⟩ := Option.map_eq_some_iff.mp hg
          exact ⟨_, rfl, .inr ⟨c', rfl, hc'⟩⟩
      obtain ⟨conv, rfl, hpf⟩ := hpf
      exact collToList_NB hU hrec hnb hpf hwi hoi hwo hdo rfl hm
    case tuple its =>
      have hwi : wfL its = true := by simpa [wf] using hwI
      have hoi : hasOptL its = false := by simpa [hasOpt] using hoI
      obtain ⟨ps, rfl, hps⟩ := shape_tuple hp hwt
      have hkl : Payload.whollyKnownL ps = true := by simpa [Payload.whollyKnown] using hk
      split at hg
      · simp at hg; subst hg
        simp only [applyStep]
        exact NB.ok _
      · rename_i hne
        have hnd : oe.isDyn = false := not_isDyn_of_noDyn hdo
        simp only [seqTargetEty, hnd] at hg
        obtain ⟨cs, hcs, rfl⟩ := Option.map_eq_some_iff.mp hg
        have hpl := gcAll_inv E uns oe hcs
        exact tupToList_NB hU hrec hnb hpl hne hps hkl
          (fun it hit => ⟨wfL_mem hwi it hit, hasOptL_mem hoi it hit⟩) hwo hdo
  | set oe =>
    have hwo : wf oe = true := by simpa [wf] using hwO
    have hdo : hasDyn oe = false := by simpa [hasDyn] using hdO
    cases vt <;> simp [gck, Ty.isDyn, isPrim] at hg hid
    case list ie =>
      have hwi : wf ie = true := by simpa [wf] using hwI
      have hoi : hasOpt ie = false := by simpa [hasOpt] using hoI
      obtain ⟨ps, rfl, hps⟩ := shape_list hp hwt
      have hkl : Payload.whollyKnownL ps = true := by simpa [Payload.whollyKnown] using hk
      have hm : Members (ps.map fun p => (⟨ie, p⟩ : Value)) ie := by
        intro e he
        obtain ⟨p, hpm, rfl⟩ := List.mem_map.mp he
        exact ⟨rfl, wtAll_mem hps p hpm, whollyKnownL_mem hkl p hpm⟩
      have hpf : ∃ conv, c = .collToSet oe conv ∧ PlanFor E uns ie oe conv := by
        obtain ⟨_, hg⟩ := hg
        split at hg
        · rename_i he; simp at hg; exact ⟨.nil, hg.symm, .inl ⟨rfl, he⟩⟩
        · obtain ⟨c', hc', rfl⟩ := Option.map_eq_some_iff.mp hg
          exact ⟨_, rfl, .inr ⟨c', rfl, hc'⟩⟩
      obtain ⟨conv, rfl, hpf⟩ := hpf
      exact collToSet_NB hU hS hrec hnb hwt' hpf hwi hoi hwo hdo rfl hm
    case set ie =>
      have hwi : wf ie = true := by simpa [wf] using hwI
      have hoi : hasOpt ie = false := by simpa [hasOpt] using hoI
      obtain ⟨ids, ps, rfl, hps⟩ := shape_set hp hwt
      have hkl : Payload.whollyKnownL ps = true := by simpa [Payload.whollyKnown] using hk
      have hm : Members ((setValues E ie ps).map fun p => (⟨ie, p⟩ : Value)) ie := by
        intro e he
        obtain ⟨p, hpm, rfl⟩ := List.mem_map.mp he
        exact ⟨rfl, wtAll_mem hps p (setValues_mem hpm), whollyKnownL_mem hkl p (setValues_mem hpm)⟩
      have hpf : ∃ conv, c = .collToSet oe conv ∧ PlanFor E uns ie oe conv := by
        split at hg
        · rename_i he; simp at hg; exact ⟨.nil, hg.symm, .inl ⟨rfl, he⟩⟩
        · obtain ⟨c', hc', rfl⟩ := Option.map_eq_some_iff.mp hg
          exact ⟨_, rfl, .inr ⟨c', rfl, hc'⟩⟩
      obtain ⟨conv, rfl, hpf⟩ := hpf
      exact collToSet_NB hU hS hrec hnb hwt' hpf hwi hoi hwo hdo rfl hm
    case tuple its =>
      have hwi : wfL its = true := by simpa [wf] using hwI
      have hoi : hasOptL its = false := by simpa [hasOpt] using hoI
      obtain ⟨ps, rfl, hps⟩ := shape_tuple hp hwt
      have hkl : Payload.whollyKnownL ps = true := by simpa [Payload.whollyKnown] using hk
      split at hg
      · simp at hg; subst hg
        simp only [applyStep]
        exact NB.ok _
      · rename_i hne
        have hnd : oe.isDyn = false := not_isDyn_of_noDyn hdo
        simp only [seqTargetEty, hnd] at hg
        obtain ⟨cs, hcs, rfl⟩ := Option.map_eq_some_iff.mp hg
        have hpl := gcAll_inv E uns oe hcs
        exact tupToSet_NB hS hrec hnb hwt' hpl hne hps hkl
          (fun it hit => ⟨wfL_mem hwi it hit, hasOptL_mem hoi it hit⟩) hwo hdo
  | map oe =>
    have hwo : wf oe = true := by simpa [wf] using hwO
    have hdo : hasDyn oe = false := by simpa [hasDyn] using hdO
    cases vt <;> simp [gck, Ty.isDyn, isPrim] at hg hid
    case map ie =>
      have hwi : wf ie = true := by simpa [wf] using hwI
      have hoi : hasOpt ie = false := by simpa [hasOpt] using hoI
      obtain ⟨ks, ps, rfl, _, hps⟩ := shape_map hp hwt
      have hkl : Payload.whollyKnownL ps = true := by simpa [Payload.whollyKnown] using hk
      have hm : Members (ps.map fun p => (⟨ie, p⟩ : Value)) ie := by
        intro e he
        obtain ⟨p, hpm, rfl⟩ := List.mem_map.mp he
        exact ⟨rfl, wtAll_mem hps p hpm, whollyKnownL_mem hkl p hpm⟩
      obtain ⟨c', hc', rfl⟩ := hg
      exact collToMap_NB hU hrec hnb (.inr ⟨c', rfl, hc'⟩) hwi hoi hwo hdo rfl hm
    case object inn its ios =>
      have hwi : wfL its = true := by
        simp only [wf, Bool.and_eq_true] at hwI; exact hwI.2
      have hoi : hasOptL its = false := by
        simp only [hasOpt, Bool.or_eq_false_iff] at hoI; exact hoI.2
      obtain ⟨ps, rfl, hps⟩ := shape_object hp hwt
      have hkl : Payload.whollyKnownL ps = true := by simpa [Payload.whollyKnown] using hk
      split at hg
      · simp at hg; subst hg
        simp only [applyStep]
        exact NB.ok _
      · rename_i hne
        have hnd : oe.isDyn = false := not_isDyn_of_noDyn hdo
        simp only [mapTargetEty, hnd] at hg
        obtain ⟨cs, hcs, rfl⟩ := Option.map_eq_some_iff.mp hg
        have hpl := gcAll_inv E uns oe hcs
        simp only [wf, Bool.and_eq_true, beq_iff_eq] at hwI
        exact objToMap_NB hU hrec hnb hpl hne hps hkl (strictAsc_nodup hwI.1.2) hwI.1.1.1
          (fun it hit => ⟨wfL_mem hwi it hit, hasOptL_mem hoi it hit⟩) hwo hdo
  | tuple ots =>
    cases vt <;> simp [gck, Ty.isDyn, isPrim] at hg hid
    case tuple its =>
      obtain ⟨hlen, cs, hcs, rfl⟩ := hg
      obtain ⟨ps, rfl, hps⟩ := shape_tuple hp hwt
      have hkl : Payload.whollyKnownL ps = true := by simpa [Payload.whollyKnown] using hk
      have hpl := gcZip_inv E uns hlen hcs
      exact tupToTup_NB hnb hpl hps hkl (by simpa [wf] using hwI) (by simpa [hasOpt] using hoI)
        (by simpa [wf] using hwO) (by simpa [hasDyn] using hdO)
  | object on ot oo =>
    cases vt <;> simp [gck, Ty.isDyn, isPrim] at hg hid
    case map ie =>
      obtain ⟨huns, cs, hcs, rfl⟩ := hg
      subst huns
      obtain ⟨ks, ps, rfl, _, hps⟩ := shape_map hp hwt
      have hkl : Payload.whollyKnownL ps = true := by simpa [Payload.whollyKnown] using hk
      have hwO' := hwO
      simp only [wf, Bool.and_eq_true, beq_iff_eq] at hwO'
      have hpl := mapToObjConvs_inv E true ie (hwO'.1.1.2.symm) hcs
      exact mapToObj_NB hnb hpl hps hkl (by simpa [wf] using hwI) (by simpa [hasOpt] using hoI)
        hwO hdO
    case object inn its ios =>
      obtain ⟨hreq, cs, hcs, rfl⟩ := hg
      obtain ⟨ps, rfl, hps⟩ := shape_object hp hwt
      have hkl : Payload.whollyKnownL ps = true := by simpa [Payload.whollyKnown] using hk
      have hwI' := hwI
      simp only [wf, Bool.and_eq_true, beq_iff_eq] at hwI'
      have hpl := gcObj_inv E uns on ot oo hwI'.1.1.1 hcs
      exact objToObj_NB hnb hpl hps hkl hwI hoI hwO hdO

/-! ### the wrapper, and every fuel -/

theorem unmark_whollyKnown {p : Payload} (h : Payload.whollyKnown p = true) :
    Payload.whollyKnown p.unmark1 = true := by
  cases p <;> simp [Payload.unmark1, Payload.whollyKnown] at h ⊢ <;> exact h

theorem known_of_whollyKnown {v : Value} (hm : v.isMarked = false) (h : Payload.whollyKnown v.v = true) :
    v.isKnown = true := by
  obtain ⟨t, p⟩ := v
  cases p <;> simp [Value.isKnown, Payload.isKnown, Payload.unmark1, Payload.whollyKnown, Value.isMarked,
    Payload.isMarked] at h hm ⊢

theorem recNB_apply {E : Env} (hU : UnifyLaws E) (hS : SetLaws E) : ∀ n, RecNB E (apply E n) := by
  intro n
  induction n using Nat.strongRecOn with
  | _ n ih =>
    intro inT out uns c v hg hc hk
    cases n with
    | zero => simp only [apply]; exact NB.unmodelled
    | succ n =>
      have hnd : out.isDyn = false := not_isDyn_of_noDyn hc.dynO
      simp only [apply, applyStep]
      split
      · rename_i hm
        have hc' : Conds inT out v.unmark :=
          ⟨hc.ty, hc.wfI, hc.wfO, hc.optI, hc.dynO, unmark_wt hm hc.wt⟩
        have := ih n (Nat.lt_succ_self n) inT out uns c v.unmark hg hc' (unmark_whollyKnown hk)
        cases hres : apply E n (.wrap out c) v.unmark with
        | ok r => exact NB.ok _
        | err e => rw [hres] at this; exact this
        | panic w => rw [hres] at this; exact this
        | unmodelled => exact NB.unmodelled
      · rename_i hm
        have hm' : v.isMarked = false := by simpa using hm
        have hkn := known_of_whollyKnown hm' hk
        simp only [hnd, Bool.false_eq_true, if_false, hkn, Bool.not_true, Bool.false_or]
        split
        · have hrepl := dynRepl_id E inT out hc.dynO hc.wfO
          rw [hc.ty, hrepl]
          exact NB.ok _
        · rename_i hnn
          cases n with
          | zero => simp only [apply]; exact NB.unmodelled
          | succ m =>
            simp only [apply]
            exact inner_NB hU hS (recOK_apply hU m) (ih m (by omega)) (recWT_apply hU m) inT out uns c v hg hc
              ⟨hm', hkn, (by simpa using hnn : v.isNull = false)⟩ hk

/-- `Convert` never panics on a wholly-known value to a placeholder-free target -/
theorem convert_NB {E : Env} (hU : UnifyLaws E) (hS : SetLaws E) {v : Value} {want : Ty} (fuel : Nat)
    (hp : RegularPair v want) (hk : Payload.whollyKnown v.v = true) : NB true (convert E fuel v want) := by
  unfold convert convertWith
  split
  · exact NB.ok _
  · split
    · exact NB.err _
    · rename_i p hg
      obtain ⟨c, hc, rfl⟩ := Option.map_eq_some_iff.mp hg
      exact recNB_apply hU hS fuel v.ty want true c v hc hp.conds hk

/-- a conversion obtained from `getConversion` -/
theorem apply_NB {E : Env} (hU : UnifyLaws E) (hS : SetLaws E) {v : Value} {want : Ty} {uns : Bool} {p : Plan}
    (fuel : Nat) (hp : RegularPair v want) (hk : Payload.whollyKnown v.v = true)
    (hg : getConv E v.ty want uns = some p) : NB uns (apply E fuel p v) := by
  obtain ⟨c, hc, rfl⟩ := Option.map_eq_some_iff.mp hg
  exact recNB_apply hU hS fuel v.ty want uns c v hc hp.conds hk

end Convert
end CtyModel
