/-
`lookup` on objects, and the domain of `lookup`.
-/
import CtyModel.Lemmas.StdlibCall
namespace CtyModel
namespace Stdlib
open Value

/-- the attribute `k` of an object given as parallel lists: its type and its value -/
def Spec.attr? (k : String) : List String → List Ty → List Payload → Option Value
  | n :: ns, t :: ts, v :: vs => if n = k then some ⟨t, v⟩ else Spec.attr? k ns ts vs
  | _, _, _ => none

theorem attr_facts (k : String) : ∀ (ns : List String) (ts : List Ty) (os : List Bool) (vs : List Payload),
    ns.length = ts.length → ns.length = os.length → ns.length = vs.length →
    match Spec.attr? k ns ts vs with
    | some v => (∃ o, Ty.find k ns ts os = some (v.ty, o)) ∧ lookupKey k ns vs = some v.v ∧ ns.contains k = true ∧
        v.v ∈ vs
    | none => ns.contains k = false
  | [], _, _, _, _, _, _ => by simp [Spec.attr?]
  | n :: ns, [], _, _, h, _, _ => by simp at h
  | n :: ns, _ :: _, [], _, _, h, _ => by simp at h
  | n :: ns, _ :: _, _ :: _, [], _, _, h => by simp at h
  | n :: ns, t :: ts, o :: os, v :: vs, h1, h2, h3 => by
    simp only [Spec.attr?]
    by_cases hn : n = k
    · simp [hn, Ty.find, lookupKey]
    · have ih := attr_facts k ns ts os vs (by simpa using h1) (by simpa using h2) (by simpa using h3)
      simp only [hn, if_false]
      cases ha : Spec.attr? k ns ts vs with
      | none =>
        simp only [ha] at ih
        have hk : ¬ k = n := fun h => hn h.symm
        have ih' : ¬ k ∈ ns := by simpa using ih
        simp [ih', hk]
      | some w =>
        simp only [ha] at ih
        obtain ⟨⟨o', ho'⟩, hl, hc, hmem⟩ := ih
        refine ⟨⟨o', by simp [Ty.find, hn, ho']⟩, by simp [lookupKey, hn, hl], ?_, List.mem_cons_of_mem _ hmem⟩
        simp only [List.contains_cons, hc, Bool.or_true]

/-- **lookup in an object**: the attribute's own value, with the attribute's own type,
when the object type has the attribute; otherwise the default converted to the
result type -/
theorem lookupImpl_object (E : Env) (ns : List String) (ts : List Ty) (os : List Bool) (vs : List Payload)
    (k : String) (d : Value) (retTy : Ty)
    (h1 : ns.length = ts.length) (h2 : ns.length = os.length) (h3 : ns.length = vs.length)
    (hk : Payload.whollyKnownL vs = true) (hm : ∀ p ∈ vs, p.isMarked = false) :
    lookupImpl E [⟨.object ns ts os, .smap ns vs⟩, strVal k, d] retTy =
      match Spec.attr? k ns ts vs with
      | some v => .ok v
      | none => (convertTo E d retTy).map (withMarkSets · [[]]) := by
  have hwk : (⟨.object ns ts os, .smap ns vs⟩ : Value).whollyKnown = true := by
    simp [Value.whollyKnown, Payload.whollyKnown, hk]
  have hs : asString (strVal k).unmark = .ok k := rfl
  have hmk : (strVal k).marks = [] := rfl
  have hu1 : (⟨.object ns ts os, .smap ns vs⟩ : Value).unmark = ⟨.object ns ts os, .smap ns vs⟩ := rfl
  have hm1 : (⟨.object ns ts os, .smap ns vs⟩ : Value).marks = [] := rfl
  simp only [lookupImpl, hu1, hm1, hmk, hs, hwk]
  simp only [List.length_nil, Nat.lt_irrefl, decide_false, Bool.false_eq_true, if_false, List.append_nil,
    Bool.not_true]
  have hf := attr_facts k ns ts os vs h1 h2 h3
  cases ha : Spec.attr? k ns ts vs with
  | none =>
    simp only [ha] at hf
    simp only [hf, Bool.false_eq_true, if_false]
  | some v =>
    simp only [ha] at hf
    obtain ⟨⟨o, hfind⟩, hl, hc, hmem⟩ := hf
    have hga : Value.getAttr ⟨.object ns ts os, .smap ns vs⟩ k = .ok v := by
      simp [Value.getAttr, Value.isMarked, Payload.isMarked, getAttrU, Ty.isDyn, hfind, Value.isKnown,
        Payload.isKnown, Payload.unmark1, hl]
    simp only [hc, if_true, hga, Res.map]
    rw [withMarkSets_nil_of_unmarked _ (hm _ hmem)]

/-- outside its domain `lookup` is refused by the `Type` callback: a first argument that
is neither a map nor an object, and a map whose default value does not convert to the
element type -/
theorem lookupType_outside (E : Env) (m key d : Value) :
    (isMapTy m.ty = false → isObjectTy m.ty = false → Fails (lookupType E [m, key, d])) ∧
    (∀ e, m.ty = .map e → (∃ c, convertTo E d e = .err c) → Fails (lookupType E [m, key, d])) := by
  obtain ⟨t, p⟩ := m
  refine ⟨?_, ?_⟩
  · intro h1 h2
    cases t <;> simp_all [lookupType, isMapTy, isObjectTy, Fails]
  · intro e he ⟨c, hc⟩
    simp only at he
    subst he
    exact ⟨"the default value must have the same type as the map elements", by simp only [lookupType, hc]⟩

end Stdlib
end CtyModel
