/-
d08b, part 2: DEEP NON-INTERFERENCE of the real conversion model.

`Convert.apply E fuel p v`, for every plan `getConversionKnown` can build (`shaped`), every
environment and every fuel, commutes with `UnmarkDeep`: whenever the run on a value `v` whose marker
layers are as the API builds them (`Value.MarksWF`: never empty, never directly nested, none inside
a set) finishes, the run on `v.unmarkDeep` — with the SAME fuel — finishes in the same class
(value / error / panic), and a returned value is the deeply unmarked result.  The marked run spends
one more unit of fuel per marker layer; `apply_mono` bridges that.
-/
import CtyModel.Lemmas.d08bShaped
import CtyModel.Lemmas.d04ConvNoInv
import CtyModel.Lemmas.d04RefineNN
import CtyModel.Lemmas.ConvertD08Mono
namespace CtyModel
namespace D08B
open Convert

/-- simulation of outcomes: the left run is out of fuel, or both are values related by `R`, or both
errors, or both panics -/
inductive Sim {α β : Type} (R : α → β → Prop) : Res α → Res β → Prop
  | unm (b : Res β) : Sim R .unmodelled b
  | ok {x : α} {y : β} : R x y → Sim R (.ok x) (.ok y)
  | err (c c' : String) : Sim R (.err c) (.err c')
  | panic (w w' : String) : Sim R (.panic w) (.panic w')

theorem Sim.bind {α β γ δ : Type} {R : α → β → Prop} {S : γ → δ → Prop} {a : Res α} {b : Res β}
    {f : α → Res γ} {g : β → Res δ} (h : Sim R a b) (hf : ∀ x y, R x y → Sim S (f x) (g y)) :
    Sim S (a.bind f) (b.bind g) := by
  cases h with
  | unm b => exact .unm _
  | ok hr => exact hf _ _ hr
  | err c c' => exact .err c c'
  | panic w w' => exact .panic w w'

theorem Sim.map {α β γ δ : Type} {R : α → β → Prop} {S : γ → δ → Prop} {a : Res α} {b : Res β}
    {f : α → γ} {g : β → δ} (h : Sim R a b) (hf : ∀ x y, R x y → S (f x) (g y)) :
    Sim S (a.map f) (b.map g) := by
  cases h with
  | unm b => exact .unm _
  | ok hr => exact .ok (hf _ _ hr)
  | err c c' => exact .err c c'
  | panic w w' => exact .panic w w'

/-- a value and its deeply unmarked copy -/
def RV (x y : Value) : Prop := y = x.unmarkDeep ∧ x.MarksWF
def RL (xs ys : List Value) : Prop := ys = xs.map Value.unmarkDeep ∧ ∀ x ∈ xs, x.MarksWF
def RP (a b : List String × List Value) : Prop := b.1 = a.1 ∧ RL a.2 b.2

theorem RV.self {v : Value} (h : v.MarksWF) : RV v v.unmarkDeep := ⟨rfl, h⟩

theorem RV.of_clean {v : Value} (h : v.containsMarked = false) : RV v v :=
  ⟨(Value.unmarkDeep_of_clean h).symm, Value.markerWF_of_clean _ h, Value.setsClean_of_clean _ h⟩

theorem RL.nil : RL [] [] := ⟨rfl, by simp⟩
theorem RL.cons {x y : Value} {xs ys : List Value} (h : RV x y) (hs : RL xs ys) : RL (x :: xs) (y :: ys) :=
  ⟨by rw [h.1, hs.1]; rfl, by
    intro z hz
    rcases List.mem_cons.mp hz with rfl | hz
    · exact h.2
    · exact hs.2 z hz⟩

@[simp] theorem unmarkDeep_ty (v : Value) : v.unmarkDeep.ty = v.ty := rfl

theorem map_ty_unmarkDeep (vs : List Value) : (vs.map Value.unmarkDeep).map (·.ty) = vs.map (·.ty) := by
  simp [List.map_map, Function.comp_def]

theorem mapRes_sim {f g : Value → Res Value} : ∀ (xs : List Value), (∀ x ∈ xs, x.MarksWF) →
    (∀ x ∈ xs, x.MarksWF → Sim RV (f x) (g x.unmarkDeep)) →
    Sim RL (mapRes f xs) (mapRes g (xs.map Value.unmarkDeep))
  | [], _, _ => .ok RL.nil
  | x :: xs, hw, h => by
    simp only [mapRes, List.map_cons]
    refine Sim.bind (h x (by simp) (hw x (by simp))) fun a b hab => ?_
    refine Sim.bind (mapRes_sim xs (fun z hz => hw z (List.mem_cons_of_mem _ hz))
      (fun z hz => h z (List.mem_cons_of_mem _ hz))) fun as bs habs => ?_
    exact .ok (RL.cons hab habs)

/-! ### payload facts -/

theorem wf_of_memL {ps : List Payload} (h1 : Payload.markerWFL ps = true) (h2 : Payload.setsCleanL ps = true) :
    ∀ p ∈ ps, p.markerWF = true ∧ p.setsClean = true := by
  induction ps with
  | nil => simp
  | cons q qs ih =>
    simp only [Payload.markerWFL, Payload.setsCleanL, Bool.and_eq_true] at h1 h2
    intro p hp
    rcases List.mem_cons.mp hp with rfl | hp
    · exact ⟨h1.1, h2.1⟩
    · exact ih h1.2 h2.2 p hp

theorem clean_of_memL {ps : List Payload} (h : Payload.containsMarkedL ps = false) : ∀ p ∈ ps, p.containsMarked = false := by
  induction ps with
  | nil => simp
  | cons q qs ih =>
    simp only [Payload.containsMarkedL, Bool.or_eq_false_iff] at h
    intro p hp
    rcases List.mem_cons.mp hp with rfl | hp
    · exact h.1
    · exact ih h.2 p hp

theorem wfL_of_all {vs : List Value} (h : ∀ v ∈ vs, v.MarksWF) :
    Payload.markerWFL (vs.map (·.v)) = true ∧ Payload.setsCleanL (vs.map (·.v)) = true := by
  induction vs with
  | nil => exact ⟨rfl, rfl⟩
  | cons v vs ih =>
    have hv := h v (by simp)
    have := ih fun z hz => h z (List.mem_cons_of_mem _ hz)
    simp [Payload.markerWFL, Payload.setsCleanL, hv.1, hv.2, this.1, this.2]

theorem stripMarksL_map_v (vs : List Value) :
    Payload.stripMarksL (vs.map (·.v)) = (vs.map Value.unmarkDeep).map (·.v) := by
  rw [Payload.stripMarksL_eq_map]
  simp [List.map_map, Function.comp_def, Value.unmarkDeep]

theorem zipTys_strip : ∀ (ts : List Ty) (ps : List Payload),
    zipTys ts (Payload.stripMarksL ps) = (zipTys ts ps).map Value.unmarkDeep
  | [], _ => by simp [zipTys]
  | _ :: _, [] => by simp [zipTys, Payload.stripMarksL]
  | t :: ts, p :: ps => by simp [zipTys, Payload.stripMarksL, zipTys_strip ts ps, Value.unmarkDeep]

theorem zipTys_wf : ∀ (ts : List Ty) (ps : List Payload), (∀ p ∈ ps, p.markerWF = true ∧ p.setsClean = true) →
    ∀ e ∈ zipTys ts ps, e.MarksWF := by
  intro ts ps h e he
  exact h _ (D04C.mem_zipTys he)

/-- the members an iteration yields, on the value and on its unmarked copy -/
theorem elemsOf_sim (E : Env) {v : Value} (hw : v.MarksWF) (hm : v.isMarked = false) :
    Sim RL (elemsOf E v) (elemsOf E v.unmarkDeep) := by
  obtain ⟨t, p⟩ := v
  obtain ⟨h1, h2⟩ := hw
  cases p with
  | marked ms r => simp [Value.isMarked, Payload.isMarked] at hm
  | seq ps =>
    simp only [Payload.markerWF, Payload.setsClean] at h1 h2
    have hall := wf_of_memL h1 h2
    cases t <;> simp only [elemsOf, Value.unmarkDeep, Payload.stripMarks] <;> try exact .panic _ _
    · refine .ok ⟨?_, ?_⟩
      · rw [Payload.stripMarksL_eq_map]; simp [List.map_map, Function.comp_def, Value.unmarkDeep]
      · intro x hx
        obtain ⟨q, hq, rfl⟩ := List.mem_map.mp hx
        exact hall q hq
    · exact .ok ⟨zipTys_strip _ _, zipTys_wf _ _ hall⟩
  | smap ks ps =>
    simp only [Payload.markerWF, Payload.setsClean] at h1 h2
    have hall := wf_of_memL h1 h2
    cases t <;> simp only [elemsOf, Value.unmarkDeep, Payload.stripMarks] <;> try exact .panic _ _
    · refine .ok ⟨?_, ?_⟩
      · rw [Payload.stripMarksL_eq_map]; simp [List.map_map, Function.comp_def, Value.unmarkDeep]
      · intro x hx
        obtain ⟨q, hq, rfl⟩ := List.mem_map.mp hx
        exact hall q hq
    · exact .ok ⟨zipTys_strip _ _, zipTys_wf _ _ hall⟩
  | sset ids ps =>
    simp only [Payload.setsClean, Bool.not_eq_true'] at h2
    have hcl := clean_of_memL h2
    cases t <;> simp only [elemsOf, Value.unmarkDeep, Payload.stripMarks] <;> try exact .panic _ _
    rw [Payload.stripMarksL_of_clean _ h2]
    refine .ok ⟨?_, ?_⟩
    · rw [List.map_map]
      apply List.map_congr_left
      intro q hq
      simp [Value.unmarkDeep, Payload.stripMarks_of_clean _ (hcl q (setValues_mem hq))]
    · intro x hx
      obtain ⟨q, hq, rfl⟩ := List.mem_map.mp hx
      have := hcl q (setValues_mem hq)
      exact ⟨Value.markerWF_of_clean _ this, Value.setsClean_of_clean _ this⟩
  | null | unk _ | b _ | n _ | s _ | caps | bad _ =>
    cases t <;> simp only [elemsOf, Value.unmarkDeep, Payload.stripMarks] <;> exact .panic _ _

theorem keysOf_unmarkDeep {v : Value} (hm : v.isMarked = false) : keysOf v.unmarkDeep = keysOf v := by
  obtain ⟨t, p⟩ := v
  cases p <;> simp_all [keysOf, Value.unmarkDeep, Payload.stripMarks, Value.isMarked, Payload.isMarked]

theorem lengthKnown_unmarkDeep {v : Value} (hw : v.MarksWF) (hm : v.isMarked = false) :
    lengthKnown v.unmarkDeep = lengthKnown v := by
  obtain ⟨t, p⟩ := v
  cases p with
  | marked ms r => simp [Value.isMarked, Payload.isMarked] at hm
  | sset ids ps =>
    have h2 := hw.2
    simp only [Payload.setsClean, Bool.not_eq_true'] at h2
    simp [Value.unmarkDeep, Payload.stripMarks, Payload.stripMarksL_of_clean _ h2]
  | _ => cases t <;> simp [lengthKnown, Value.unmarkDeep, Payload.stripMarks]

/-! ### constructors -/

theorem setsClean_withMarks (p : Payload) (ms : List String) : (p.withMarks ms).setsClean = p.setsClean := by
  rw [Payload.withMarks_def]
  split
  · rfl
  · cases p <;> simp [Payload.setsClean, Payload.unmark1]

theorem MarksWF.withMarks {v : Value} (h : v.MarksWF) (ms : List String) : (v.withMarks ms).MarksWF :=
  ⟨Value.markerWF_withMarks h.1 ms, by
    show (Payload.withMarks v.v ms).setsClean = true
    rw [setsClean_withMarks]; exact h.2⟩

theorem RV.withMarks {x y : Value} (h : RV x y) (ms : List String) : RV (x.withMarks ms) y :=
  ⟨by rw [Value.unmarkDeep_withMarks]; exact h.1, MarksWF.withMarks h.2 ms⟩

theorem stripNull_rv {x y : Value} (h : RV x y) : RV (stripNull x) (stripNull y) := by
  obtain ⟨rfl, hw⟩ := h
  have hn : x.unmarkDeep.isNull = x.isNull := (Payload.isNull_isKnown_stripMarks x.v hw.1).1
  unfold stripNull
  rw [hn]
  split
  · rw [Value.marks_of_not_marked (Value.isMarked_unmarkDeep x)]
    have hnull : (Value.null x.ty.stripOpt).containsMarked = false := rfl
    rw [Value.withMarks_nil_of_unmarked (by rfl)]
    exact (RV.of_clean hnull).withMarks _
  · exact ⟨rfl, hw⟩

theorem elemTyOf_unmarkDeep (vs : List Value) : elemTyOf (vs.map Value.unmarkDeep) = elemTyOf vs := by
  unfold elemTyOf; rw [map_ty_unmarkDeep]

theorem canCollVal_unmarkDeep (vs : List Value) : canCollVal (vs.map Value.unmarkDeep) = canCollVal vs := by
  simp [canCollVal, elemTyOf_unmarkDeep]

theorem seq_rv (t : Ty) {xs : List Value} (h : ∀ x ∈ xs, x.MarksWF) :
    RV ⟨t, .seq (xs.map (·.v))⟩ ⟨t, .seq ((xs.map Value.unmarkDeep).map (·.v))⟩ :=
  ⟨by simp [Value.unmarkDeep, Payload.stripMarks, stripMarksL_map_v], by
    have := wfL_of_all h
    exact ⟨by simpa [Payload.markerWF] using this.1, by simpa [Payload.setsClean] using this.2⟩⟩

theorem smap_rv (t : Ty) (ks : List String) {xs : List Value} (h : ∀ x ∈ xs, x.MarksWF) :
    RV ⟨t, .smap ks (xs.map (·.v))⟩ ⟨t, .smap ks ((xs.map Value.unmarkDeep).map (·.v))⟩ :=
  ⟨by simp [Value.unmarkDeep, Payload.stripMarks, stripMarksL_map_v], by
    have := wfL_of_all h
    exact ⟨by simpa [Payload.markerWF] using this.1, by simpa [Payload.setsClean] using this.2⟩⟩

theorem listVal_sim {xs ys : List Value} (h : RL xs ys) : Sim RV (listVal xs) (listVal ys) := by
  obtain ⟨rfl, hw⟩ := h
  unfold listVal
  rw [elemTyOf_unmarkDeep, List.isEmpty_map]
  split
  · exact .panic _ _
  · split
    · exact .panic _ _
    · exact .ok (seq_rv _ hw)

theorem mapVal_sim (ks : List String) {xs ys : List Value} (h : RL xs ys) : Sim RV (mapVal ks xs) (mapVal ks ys) := by
  obtain ⟨rfl, hw⟩ := h
  unfold mapVal
  rw [elemTyOf_unmarkDeep, List.isEmpty_map]
  split
  · exact .panic _ _
  · split
    · exact .panic _ _
    · exact .ok (smap_rv _ ks hw)

theorem tupleVal_rv {xs ys : List Value} (h : RL xs ys) : RV (tupleVal xs) (tupleVal ys) := by
  obtain ⟨rfl, hw⟩ := h
  unfold tupleVal
  rw [map_ty_unmarkDeep]
  exact seq_rv _ hw

theorem objectVal_rv (ns : List String) {xs ys : List Value} (h : RL xs ys) : RV (objectVal ns xs) (objectVal ns ys) := by
  obtain ⟨rfl, hw⟩ := h
  unfold objectVal
  rw [map_ty_unmarkDeep]
  simp only [List.map_map, Function.comp_def]
  have := smap_rv (.object ns (xs.map (·.ty)) (xs.map fun _ => false)) ns hw
  simpa [List.map_map, Function.comp_def] using this

theorem marksOfAll_unmarkDeep : ∀ (vs : List Value), marksOfAll (vs.map Value.unmarkDeep) = []
  | [] => rfl
  | v :: vs => by
    simp only [List.map_cons, marksOfAll, marksOfAll_unmarkDeep vs, Value.marksDeep_unmarkDeep]
    rfl

theorem stripMarks_idem (p : Payload) : p.stripMarks.stripMarks = p.stripMarks :=
  Payload.stripMarks_of_clean _ (Payload.containsMarked_stripMarks p)

/-- `SetVal` strips its members and puts their marks on the set: on unmarked members it computes
the same set, without marks -/
theorem setVal_sim (E : Env) {xs ys : List Value} (h : RL xs ys) : Sim RV (setVal E xs) (setVal E ys) := by
  obtain ⟨rfl, hw⟩ := h
  unfold setVal
  rw [elemTyOf_unmarkDeep, List.isEmpty_map]
  split
  · exact .panic _ _
  · split
    · exact .panic _ _
    · rename_i t _
      have hl : (xs.map Value.unmarkDeep).map (fun v => v.v.stripMarks) = xs.map fun v => v.v.stripMarks := by
        simp [List.map_map, Function.comp_def, Value.unmarkDeep, stripMarks_idem]
      rw [hl, marksOfAll_unmarkDeep]
      cases hs : newSet E t (xs.map fun v => v.v.stripMarks) with
      | unmodelled => exact .unm _
      | err c => exact .err _ _
      | panic w => exact .panic _ _
      | ok q =>
        unfold newSet at hs
        obtain ⟨bs, hbs, rfl⟩ := D04C.mapOk hs
        have hcl : Payload.containsMarkedL (bs.map (·.2)) = false := by
          rw [Payload.containsMarkedL_eq_any, List.any_eq_false]
          intro y hy
          obtain ⟨b, hb, rfl⟩ := List.mem_map.mp hy
          rcases newSetAcc_mem hbs b hb with h2 | h2
          · obtain ⟨v, _, hv⟩ := List.mem_map.mp h2
            rw [← hv]; simp [Payload.containsMarked_stripMarks]
          · simp at h2
        have hc : (Value.mk (.set t) (.sset (bs.map (·.1)) (bs.map (·.2)))).containsMarked = false := by
          simpa [Value.containsMarked, Payload.containsMarked] using hcl
        simp only [Res.map]
        rw [Value.withMarks_nil_of_unmarked (by rfl)]
        exact .ok ((RV.of_clean hc).withMarks _)

/-- `prepareUnknownResult` returns a value that contains no marker -/
theorem prepareUnknownResult_cm {src : Refine.ValueRange} {t : Ty} {r : Value}
    (h : prepareUnknownResult src t = .ok r) : r.containsMarked = false := by
  unfold prepareUnknownResult at h
  simp only at h
  obtain ⟨ret, hret, h⟩ := Res.bind_eq_ok h
  have hr0 : ret.containsMarked = false := by
    split at hret
    · exact Fn.refine_cm rfl hret
    · simp at hret; subst hret; rfl
  repeat' split at h
  all_goals first
    | exact Fn.refine_cm hr0 h
    | (simp at h; subst h; exact hr0)
    | skip
  all_goals
    obtain ⟨lo, _, h⟩ := Res.bind_eq_ok h
    obtain ⟨hi, _, h⟩ := Res.bind_eq_ok h
    exact Fn.refine_cm hr0 h

/-! ### generic facts about `Sim` -/

theorem Sim.right_of_mono {α β : Type} {R : α → β → Prop} {a : Res α} {b b' : Res β} (h : Sim R a b)
    (hb : b ≠ .unmodelled → b' = b) : Sim R a b' := by
  cases h with
  | unm b => exact .unm _
  | ok hr => rw [hb (by simp)]; exact .ok hr
  | err c c' => rw [hb (by simp)]; exact .err c c'
  | panic w w' => rw [hb (by simp)]; exact .panic w w'

theorem Sim.mapL {α β γ : Type} {R : α → β → Prop} {S : γ → β → Prop} {a : Res α} {b : Res β}
    {f : α → γ} (h : Sim R a b) (hf : ∀ x y, R x y → S (f x) y) : Sim S (a.map f) b := by
  cases h with
  | unm b => exact .unm _
  | ok hr => exact .ok (hf _ _ hr)
  | err c c' => exact .err c c'
  | panic w w' => exact .panic w w'

theorem Sim.refl_of {α : Type} {R : α → α → Prop} (a : Res α) (h : ∀ r, a = .ok r → R r r) : Sim R a a := by
  cases a with
  | ok r => exact .ok (h r rfl)
  | err c => exact .err c c
  | panic w => exact .panic w w
  | unmodelled => exact .unm _

/-- a value that is unknown or null under no marker is its own unmarked copy -/
theorem unmarkDeep_of_leaf {v : Value} (hm : v.isMarked = false) (h : (!v.isKnown || v.isNull) = true) :
    v.unmarkDeep = v := by
  obtain ⟨t, p⟩ := v
  cases p <;> simp_all [Value.unmarkDeep, Payload.stripMarks, Value.isMarked, Payload.isMarked, Value.isKnown,
    Value.isNull, Payload.isKnown, Payload.isNull, Payload.unmark1]

/-! ### the loops -/

theorem shapedL_mem : ∀ {cs : List Plan}, shapedL cs = true → ∀ c ∈ cs, childOK c = true ∧ shaped c = true
  | [], _, c, hc => by simp at hc
  | d :: ds, h, c, hc => by
    simp only [shapedL, Bool.and_eq_true] at h
    rcases List.mem_cons.mp hc with rfl | hc
    · exact h.1
    · exact shapedL_mem h.2 c hc

theorem lookupPlan_mem' {k : String} {p : Plan} : ∀ {ns : List String} {ps : List Plan},
    lookupPlan k ns ps = some p → p ∈ ps
  | [], _, h => by simp [lookupPlan] at h
  | _ :: _, [], h => by simp [lookupPlan] at h
  | n :: ns, q :: qs, h => by
    simp only [lookupPlan] at h
    split at h
    · simp at h; subst h; simp
    · exact List.mem_cons_of_mem _ (lookupPlan_mem' h)

theorem lookupVal_map (k : String) : ∀ (ns : List String) (vs : List Value),
    lookupVal k ns (vs.map Value.unmarkDeep) = (lookupVal k ns vs).map Value.unmarkDeep
  | [], _ => by simp [lookupVal]
  | _ :: _, [] => by simp [lookupVal]
  | n :: ns, v :: vs => by
    simp only [List.map_cons, lookupVal]
    split
    · rfl
    · exact lookupVal_map k ns vs

theorem null_rv (t : Ty) : RV (Value.null t) (Value.null t) := RV.of_clean rfl

theorem objFill_rp {names : List String} {vals vals' : List Value} (hr : RL vals vals') :
    ∀ (ns : List String) (ts : List Ty) (os : List Bool),
      RP (objFill names vals ns ts os) (objFill names vals' ns ts os)
  | [], _, _ => by simp only [objFill]; exact ⟨rfl, RL.nil⟩
  | _ :: _, [], _ => by simp only [objFill]; exact ⟨rfl, RL.nil⟩
  | _ :: _, _ :: _, [] => by simp only [objFill]; exact ⟨rfl, RL.nil⟩
  | n :: ns, t :: ts, o :: os => by
    have ih := objFill_rp (names := names) hr ns ts os
    obtain ⟨rfl, hw⟩ := hr
    simp only [objFill]
    rw [lookupVal_map]
    cases hl : lookupVal n names vals with
    | some v =>
      simp only [Option.map_some]
      exact ⟨by simp [ih.1], RL.cons ⟨rfl, hw v (D04C.lookupVal_mem' hl)⟩ ih.2⟩
    | none =>
      simp only [Option.map_none]
      split
      · exact ⟨by simp [ih.1], RL.cons (null_rv _) ih.2⟩
      · exact ih

theorem mapObjFill_sim {keys : List String} {vals vals' : List Value} (hr : RL vals vals') :
    ∀ (ns : List String) (ts : List Ty) (os : List Bool),
      Sim RL (mapObjFill keys vals ns ts os) (mapObjFill keys vals' ns ts os)
  | [], _, _ => by simp only [mapObjFill]; exact .ok RL.nil
  | _ :: _, [], _ => by simp only [mapObjFill]; exact .ok RL.nil
  | _ :: _, _ :: _, [] => by simp only [mapObjFill]; exact .ok RL.nil
  | n :: ns, t :: ts, o :: os => by
    have ih := mapObjFill_sim (keys := keys) hr ns ts os
    obtain ⟨rfl, hw⟩ := hr
    simp only [mapObjFill]
    rw [lookupVal_map]
    cases hl : lookupVal n keys vals with
    | some v =>
      simp only [Option.map_some]
      exact Sim.map ih fun xs ys hxy => RL.cons ⟨rfl, hw v (D04C.lookupVal_mem' hl)⟩ hxy
    | none =>
      simp only [Option.map_none]
      split
      · exact Sim.map ih fun xs ys hxy => RL.cons (null_rv _) hxy
      · exact .err _ _

/-- the function standing for the nested closure calls commutes with `UnmarkDeep` on shaped plans:
on every value for the closures of `getConversion`, on top-level unmarked values for their bodies -/
def SimRec (rec rec' : Rec) : Prop :=
  ∀ p v, shaped p = true → Value.MarksWF v → (childOK p = true ∨ v.isMarked = false) →
    Sim RV (rec p v) (rec' p v.unmarkDeep)

section
variable {rec rec' : Rec} (h : SimRec rec rec')
include h

theorem applyOpt_sim {p : Plan} {v : Value} (hc : childOK p = true) (hs : shaped p = true) (hw : v.MarksWF) :
    Sim RV (applyOpt rec p v) (applyOpt rec' p v.unmarkDeep) := by
  cases p <;> first | exact .ok (RV.self hw) | exact h _ v hs hw (.inl hc)

theorem applyZip_sim {post : Value → Value} (hpost : ∀ x y, RV x y → RV (post x) (post y)) :
    ∀ (ps : List Plan) (vs : List Value), shapedL ps = true → (∀ v ∈ vs, v.MarksWF) →
      Sim RL (applyZip rec post ps vs) (applyZip rec' post ps (vs.map Value.unmarkDeep))
  | ps, [], _, _ => by cases ps <;> exact .ok RL.nil
  | [], _ :: _, _, _ => .panic _ _
  | p :: ps, v :: vs, hs, hw => by
    simp only [shapedL, Bool.and_eq_true] at hs
    simp only [applyZip, List.map_cons]
    refine Sim.bind (applyOpt_sim h hs.1.1 hs.1.2 (hw v (by simp))) fun a b hab => ?_
    refine Sim.bind (applyZip_sim hpost ps vs hs.2 fun z hz => hw z (List.mem_cons_of_mem _ hz)) fun as bs habs => ?_
    exact .ok (RL.cons (hpost _ _ hab) habs)

theorem unifyElems_sim (E : Env) (uns : Bool) {xs ys : List Value} (hr : RL xs ys) :
    Sim RL (unifyElems E rec uns xs) (unifyElems E rec' uns ys) := by
  obtain ⟨rfl, hw⟩ := hr
  unfold unifyElems
  rw [map_ty_unmarkDeep]
  split
  · exact .err _ _
  · apply mapRes_sim xs hw
    intro x _ hx
    rw [show x.unmarkDeep.ty = x.ty from rfl]
    by_cases he : x.ty.equals ‹Ty› = true
    · rw [if_pos he, if_pos he]; exact .ok (RV.self hx)
    · rw [if_neg he, if_neg he]
      cases hp : getConv E x.ty ‹Ty› uns with
      | none => exact .panic _ _
      | some p =>
        have := getConv_shaped hp
        exact h p x this.1 hx (.inl this.2)

theorem convertWith_sim (E : Env) {v : Value} (hw : v.MarksWF) (want : Ty) :
    Sim RV (convertWith E rec v want) (convertWith E rec' v.unmarkDeep want) := by
  unfold convertWith
  rw [show v.unmarkDeep.ty = v.ty from rfl]
  by_cases he : v.ty.equals want.stripOpt = true
  · rw [if_pos he, if_pos he]; exact .ok (RV.self hw)
  · rw [if_neg he, if_neg he]
    cases hp : getConv E v.ty want true with
    | none => exact .err _ _
    | some p =>
      have := getConv_shaped hp
      exact h p v this.1 hw (.inl this.2)

theorem objAttrLoop_sim (keys : List String) {convs : List Plan} (hs : shapedL convs = true) :
    ∀ (ns : List String) (vs : List Value), (∀ v ∈ vs, v.MarksWF) →
      Sim RP (objAttrLoop rec keys convs ns vs) (objAttrLoop rec' keys convs ns (vs.map Value.unmarkDeep))
  | [], _, _ => by simp only [objAttrLoop]; exact .ok ⟨rfl, RL.nil⟩
  | _ :: _, [], _ => by simp only [objAttrLoop, List.map_nil]; exact .ok ⟨rfl, RL.nil⟩
  | n :: ns, v :: vs, hw => by
    have ih := objAttrLoop_sim keys hs ns vs fun z hz => hw z (List.mem_cons_of_mem _ hz)
    simp only [objAttrLoop, List.map_cons]
    cases hl : lookupPlan n keys convs with
    | none => exact ih
    | some p =>
      have hp := shapedL_mem hs p (lookupPlan_mem' hl)
      cases p
      case absent => exact ih
      all_goals
        refine Sim.bind (applyOpt_sim h hp.1 hp.2 (hw v (by simp))) fun a b hab => ?_
        refine Sim.bind ih fun r r' hr => ?_
        exact .ok ⟨by simp [hr.1], RL.cons (stripNull_rv hab) hr.2⟩

theorem mapObjLoop_sim (names : List String) (tys : List Ty) (opts : List Bool) {convs : List Plan}
    (hs : shapedL convs = true) : ∀ (ks : List String) (vs : List Value), (∀ v ∈ vs, v.MarksWF) →
      Sim RP (mapObjLoop rec names tys opts convs ks vs)
        (mapObjLoop rec' names tys opts convs ks (vs.map Value.unmarkDeep))
  | [], _, _ => by simp only [mapObjLoop]; exact .ok ⟨rfl, RL.nil⟩
  | _ :: _, [], _ => by simp only [mapObjLoop, List.map_nil]; exact .ok ⟨rfl, RL.nil⟩
  | k :: ks, v :: vs, hw => by
    have ih := mapObjLoop_sim names tys opts hs ks vs fun z hz => hw z (List.mem_cons_of_mem _ hz)
    have hv := hw v (by simp)
    simp only [mapObjLoop, List.map_cons]
    split
    · exact ih
    · refine Sim.bind ?_ fun a b hab => Sim.bind ih fun r r' hr =>
        .ok ⟨by simp [hr.1], RL.cons (stripNull_rv hab) hr.2⟩
      cases hl : lookupPlan k names convs with
      | none => exact .ok (RV.self hv)
      | some p =>
        have hp := shapedL_mem hs p (lookupPlan_mem' hl)
        cases p
        case impossible => exact .err _ _
        case nil => exact .ok (RV.self hv)
        all_goals exact h _ v hp.2 hv (.inl hp.1)

end

theorem shapedL_lookup {keys : List String} {convs : List Plan} (hs : shapedL convs = true) :
    ∀ (ks : List String), shapedL (ks.map fun k => (lookupPlan k keys convs).getD .nil) = true
  | [] => rfl
  | k :: ks => by
    simp only [List.map_cons, shapedL, Bool.and_eq_true]
    refine ⟨?_, shapedL_lookup hs ks⟩
    cases hl : lookupPlan k keys convs with
    | none => exact ⟨rfl, rfl⟩
    | some p => exact shapedL_mem hs p (lookupPlan_mem' hl)

/-- the four primitive closures look at the payload only -/
theorem leaf_sim (E : Env) (rec rec' : Rec) {p : Plan}
    (hp : p = .numToStr ∨ p = .boolToStr ∨ p = .strToNum ∨ p = .strToBool) (t : Ty) (q : Payload)
    (hm : q.isMarked = false) :
    Sim RV (applyStep E rec p ⟨t, q⟩) (applyStep E rec' p ⟨t, q.stripMarks⟩) := by
  rcases hp with rfl | rfl | rfl | rfl <;> cases q <;> simp only [applyStep, Payload.stripMarks] <;>
    first
      | exact .panic _ _
      | (simp [Payload.isMarked] at hm; done)
      | exact .ok (RV.of_clean rfl)
      | skip
  · exact Sim.map (R := Eq) (Sim.refl_of _ fun _ _ => rfl) fun x y hxy => by subst hxy; exact RV.of_clean rfl
  · apply Sim.refl_of
    intro r hr
    split at hr
    · simp at hr; subst hr; exact RV.of_clean rfl
    · split at hr
      · simp at hr; subst hr; exact RV.of_clean rfl
      · simp at hr

section
variable {rec rec' : Rec} (h : SimRec rec rec')
include h

/-- one closure body commutes with `UnmarkDeep` if the nested calls do (and the unmarked side is
stable under one more unit of fuel, which the marked side spends on the marker layer) -/
theorem applyStep_sim (E : Env) (hmono : ∀ p v, rec' p v ≠ .unmodelled → applyStep E rec' p v = rec' p v) :
    SimRec (applyStep E rec) (applyStep E rec') := by
  intro p v hs hw hc
  cases p with
  | nil | impossible | absent => exact .panic _ _
  | dynPass => exact .ok (RV.self hw)
  | numToStr =>
    exact leaf_sim E rec rec' (.inl rfl) v.ty v.v (hc.resolve_left (by simp [childOK]))
  | boolToStr =>
    exact leaf_sim E rec rec' (.inr (.inl rfl)) v.ty v.v (hc.resolve_left (by simp [childOK]))
  | strToNum =>
    exact leaf_sim E rec rec' (.inr (.inr (.inl rfl))) v.ty v.v (hc.resolve_left (by simp [childOK]))
  | strToBool =>
    exact leaf_sim E rec rec' (.inr (.inr (.inr rfl))) v.ty v.v (hc.resolve_left (by simp [childOK]))
  | emptyToSet _ | emptyToList _ | emptyToMap _ => exact .ok (RV.of_clean rfl)
  | wrap out conv =>
    have hs' : shaped conv = true := by simpa [shaped] using hs
    by_cases hm : v.isMarked = true
    · have hL : applyStep E rec (.wrap out conv) v =
          (rec (.wrap out conv) v.unmark).map (·.withMarks v.marks) := by
        simp only [applyStep, hm, if_true]
        cases rec (.wrap out conv) v.unmark <;> rfl
      rw [hL]
      have ih := h (.wrap out conv) v.unmark hs hw.unmark (.inl rfl)
      rw [Value.unmarkDeep_unmark] at ih
      exact Sim.mapL (ih.right_of_mono (hmono _ _)) fun x y hxy => hxy.withMarks _
    · have hm' : v.isMarked = false := by simpa using hm
      have hum : v.unmarkDeep.isMarked = false := Value.isMarked_unmarkDeep v
      have hkn := Payload.isNull_isKnown_stripMarks v.v hw.1
      have hk : v.unmarkDeep.isKnown = v.isKnown := hkn.2
      have hn : v.unmarkDeep.isNull = v.isNull := hkn.1
      simp only [applyStep, hm', hum, Bool.false_eq_true, if_false, hk, hn]
      split
      · exact .ok (RV.self hw)
      · split
        · rename_i hleaf
          rw [unmarkDeep_of_leaf hm' hleaf]
          apply Sim.refl_of
          intro r hr
          split at hr
          · split at hr
            · obtain ⟨rng, _, hr⟩ := D04C.bindOk hr
              exact RV.of_clean (prepareUnknownResult_cm hr)
            · simp at hr; subst hr; exact RV.of_clean rfl
          all_goals simp at hr
        · exact h conv v hs' hw (.inr hm')
  | dynFixup want =>
    simp only [applyStep]
    have key := convertWith_sim h E hw want
    generalize convertWith E rec v want = a at key ⊢
    generalize convertWith E rec' v.unmarkDeep want = b at key ⊢
    cases key with
    | unm b => exact .unm _
    | ok hr => exact .ok hr
    | err c c' => exact .err _ _
    | panic w w' => exact .panic _ _
  | objToObj keys convs on ot oo =>
    have hm : v.isMarked = false := hc.resolve_left (by simp [childOK])
    have hs' : shapedL convs = true := by simpa [shaped] using hs
    simp only [applyStep]
    rw [keysOf_unmarkDeep hm]
    refine Sim.bind (elemsOf_sim E hw hm) fun es es' hes => ?_
    obtain ⟨rfl, hes⟩ := hes
    refine Sim.bind (objAttrLoop_sim h keys hs' _ es hes) fun r r' hr => ?_
    have hf := objFill_rp (names := r.1) hr.2 on ot oo
    rw [hr.1, hf.1]
    exact .ok (objectVal_rv _ hf.2)
  | tupToTup convs =>
    have hm : v.isMarked = false := hc.resolve_left (by simp [childOK])
    have hs' : shapedL convs = true := by simpa [shaped] using hs
    simp only [applyStep]
    refine Sim.bind (elemsOf_sim E hw hm) fun es es' hes => ?_
    obtain ⟨rfl, hes⟩ := hes
    refine Sim.bind (applyZip_sim h (post := id) (fun x y hxy => hxy) convs es hs' hes) fun r r' hr => ?_
    exact .ok (tupleVal_rv hr)
  | collToList ety conv =>
    have hm : v.isMarked = false := hc.resolve_left (by simp [childOK])
    have hcv : childOK conv = true ∧ shaped conv = true := by simpa [shaped] using hs
    simp only [applyStep]
    rw [lengthKnown_unmarkDeep hw hm, show v.unmarkDeep.ty = v.ty from rfl]
    split
    · apply Sim.refl_of
      intro r hr
      split at hr
      · obtain ⟨ie, _, hr⟩ := D04C.bindOk hr
        simp at hr; subst hr; exact RV.of_clean rfl
      · simp at hr; subst hr; exact RV.of_clean rfl
    · refine Sim.bind (elemsOf_sim E hw hm) fun es es' hes => ?_
      obtain ⟨rfl, hes⟩ := hes
      refine Sim.bind (mapRes_sim es hes fun e _ he =>
        Sim.map (applyOpt_sim h hcv.1 hcv.2 he) fun x y hxy => stripNull_rv hxy) fun r r' hr => ?_
      obtain ⟨rfl, hr⟩ := hr
      rw [List.isEmpty_map, canCollVal_unmarkDeep]
      split
      · apply Sim.refl_of
        intro r hr
        split at hr
        · obtain ⟨ie, _, hr⟩ := D04C.bindOk hr
          obtain ⟨t, _, hr⟩ := D04C.bindOk hr
          simp at hr; subst hr; exact RV.of_clean rfl
        · simp at hr; subst hr; exact RV.of_clean rfl
      · split
        · exact .err _ _
        · exact listVal_sim ⟨rfl, hr⟩
  | collToSet ety conv =>
    have hm : v.isMarked = false := hc.resolve_left (by simp [childOK])
    have hcv : childOK conv = true ∧ shaped conv = true := by simpa [shaped] using hs
    simp only [applyStep]
    rw [show v.unmarkDeep.ty = v.ty from rfl]
    refine Sim.bind (elemsOf_sim E hw hm) fun es es' hes => ?_
    obtain ⟨rfl, hes⟩ := hes
    refine Sim.bind (mapRes_sim es hes fun e _ he =>
      Sim.map (applyOpt_sim h hcv.1 hcv.2 he) fun x y hxy => stripNull_rv hxy) fun r r' hr => ?_
    obtain ⟨rfl, hr⟩ := hr
    rw [List.isEmpty_map, canCollVal_unmarkDeep]
    split
    · apply Sim.refl_of
      intro r hr
      split at hr
      · obtain ⟨ie, _, hr⟩ := D04C.bindOk hr
        obtain ⟨t, _, hr⟩ := D04C.bindOk hr
        simp at hr; subst hr; exact RV.of_clean rfl
      · simp at hr; subst hr; exact RV.of_clean rfl
    · split
      · exact .err _ _
      · exact setVal_sim E ⟨rfl, hr⟩
  | collToMap ety conv =>
    have hm : v.isMarked = false := hc.resolve_left (by simp [childOK])
    have hcv : childOK conv = true ∧ shaped conv = true := by simpa [shaped] using hs
    simp only [applyStep]
    rw [show v.unmarkDeep.ty = v.ty from rfl, keysOf_unmarkDeep hm]
    refine Sim.bind (elemsOf_sim E hw hm) fun es es' hes => ?_
    obtain ⟨rfl, hes⟩ := hes
    refine Sim.bind (mapRes_sim es hes fun e _ he => applyOpt_sim h hcv.1 hcv.2 he) fun r r' hr => ?_
    obtain ⟨rfl, hr⟩ := hr
    rw [List.isEmpty_map]
    split
    · apply Sim.refl_of
      intro r hr
      split at hr
      · obtain ⟨ie, _, hr⟩ := D04C.bindOk hr
        obtain ⟨t, _, hr⟩ := D04C.bindOk hr
        simp at hr; subst hr; exact RV.of_clean rfl
      · simp at hr; subst hr; exact RV.of_clean rfl
    · refine Sim.bind (R := RL) ?_ fun r2 r2' hr2 => ?_
      · split
        · exact unifyElems_sim h E false ⟨rfl, hr⟩
        · exact .ok ⟨rfl, hr⟩
      · obtain ⟨rfl, hr2⟩ := hr2
        rw [canCollVal_unmarkDeep]
        split
        · exact .err _ _
        · exact mapVal_sim _ ⟨rfl, hr2⟩
  | tupToSet convs =>
    have hm : v.isMarked = false := hc.resolve_left (by simp [childOK])
    have hs' : shapedL convs = true := by simpa [shaped] using hs
    simp only [applyStep]
    refine Sim.bind (elemsOf_sim E hw hm) fun es es' hes => ?_
    obtain ⟨rfl, hes⟩ := hes
    refine Sim.bind (applyZip_sim h (post := stripNull) (fun x y hxy => stripNull_rv hxy) convs es hs' hes)
      fun r r' hr => ?_
    obtain ⟨rfl, hr⟩ := hr
    rw [canCollVal_unmarkDeep]
    split
    · exact .err _ _
    · exact setVal_sim E ⟨rfl, hr⟩
  | tupToList convs uns =>
    have hm : v.isMarked = false := hc.resolve_left (by simp [childOK])
    have hs' : shapedL convs = true := by simpa [shaped] using hs
    simp only [applyStep]
    refine Sim.bind (elemsOf_sim E hw hm) fun es es' hes => ?_
    obtain ⟨rfl, hes⟩ := hes
    refine Sim.bind (applyZip_sim h (post := id) (fun x y hxy => hxy) convs es hs' hes) fun r r' hr => ?_
    refine Sim.bind (unifyElems_sim h E uns hr) fun r2 r2' hr2 => ?_
    obtain ⟨rfl, hr2⟩ := hr2
    rw [canCollVal_unmarkDeep]
    split
    · exact .err _ _
    · exact listVal_sim ⟨rfl, hr2⟩
  | objToMap keys convs mapEty uns =>
    have hm : v.isMarked = false := hc.resolve_left (by simp [childOK])
    have hs' : shapedL convs = true := by simpa [shaped] using hs
    simp only [applyStep]
    rw [keysOf_unmarkDeep hm]
    refine Sim.bind (elemsOf_sim E hw hm) fun es es' hes => ?_
    obtain ⟨rfl, hes⟩ := hes
    refine Sim.bind (applyZip_sim h (post := id) (fun x y hxy => hxy) _ es (shapedL_lookup hs' _) hes)
      fun r r' hr => ?_
    refine Sim.bind (R := RL) ?_ fun r2 r2' hr2 => ?_
    · split
      · exact unifyElems_sim h E uns hr
      · exact .ok hr
    · obtain ⟨rfl, hr2⟩ := hr2
      rw [canCollVal_unmarkDeep]
      split
      · exact .err _ _
      · exact mapVal_sim _ ⟨rfl, hr2⟩
  | mapToObj names tys opts convs =>
    have hm : v.isMarked = false := hc.resolve_left (by simp [childOK])
    have hs' : shapedL convs = true := by simpa [shaped] using hs
    simp only [applyStep]
    rw [keysOf_unmarkDeep hm]
    refine Sim.bind (elemsOf_sim E hw hm) fun es es' hes => ?_
    obtain ⟨rfl, hes⟩ := hes
    refine Sim.bind (mapObjLoop_sim h names tys opts hs' _ es hes) fun r r' hr => ?_
    rw [hr.1]
    refine Sim.bind (mapObjFill_sim (keys := r.1) hr.2 names tys opts) fun vals vals' hv => ?_
    exact .ok (objectVal_rv names hv)

end

/-- **Deep non-interference of the conversion model**: for every environment and fuel, every shaped
plan and every value with well-formed marker layers, the run on the deeply unmarked value (same
fuel) ends in the same class as the run on the value, with the deeply unmarked result. -/
theorem apply_sim (E : Env) : ∀ (n : Nat), SimRec (apply E n) (apply E n)
  | 0 => fun _ _ _ _ _ => .unm _
  | n + 1 => by
    show SimRec (applyStep E (apply E n)) (applyStep E (apply E n))
    refine applyStep_sim (apply_sim E n) E fun p v hne => ?_
    rcases apply_mono_succ E n p v with hu | he
    · exact absurd hu hne
    · exact he.symm

/-! ### reading a simulation -/

theorem Sim.ok_inv {α β : Type} {R : α → β → Prop} {a : Res α} {b : Res β} (h : Sim R a b) {x : α}
    (ha : a = .ok x) : ∃ y, b = .ok y ∧ R x y := by
  cases h <;> simp at ha
  subst ha; exact ⟨_, rfl, ‹_›⟩

theorem Sim.err_inv {α β : Type} {R : α → β → Prop} {a : Res α} {b : Res β} (h : Sim R a b) {c : String}
    (ha : a = .err c) : ∃ c', b = .err c' := by
  cases h <;> simp at ha
  exact ⟨_, rfl⟩

theorem Sim.panic_inv {α β : Type} {R : α → β → Prop} {a : Res α} {b : Res β} (h : Sim R a b) {w : String}
    (ha : a = .panic w) : ∃ w', b = .panic w' := by
  cases h <;> simp at ha
  exact ⟨_, rfl⟩

theorem Sim.ok_inv_right {α β : Type} {R : α → β → Prop} {a : Res α} {b : Res β} (h : Sim R a b)
    (hne : a ≠ .unmodelled) {y : β} (hb : b = .ok y) : ∃ x, a = .ok x ∧ R x y := by
  cases h <;> simp at hb hne
  subst hb; exact ⟨_, rfl, ‹_›⟩

theorem Sim.right_ne_unmodelled {α β : Type} {R : α → β → Prop} {a : Res α} {b : Res β} (h : Sim R a b)
    (hne : a ≠ .unmodelled) : b ≠ .unmodelled := by
  cases h <;> simp at hne ⊢

/-- `convert.Convert` on a value and on its deeply unmarked copy, same fuel -/
theorem convert_sim (E : Env) (n : Nat) {v : Value} (hw : v.MarksWF) (want : Ty) :
    Sim RV (convert E n v want) (convert E n v.unmarkDeep want) :=
  convertWith_sim (apply_sim E n) E hw want

/-- a conversion `GetConversion*` returned, on a value and on its deeply unmarked copy -/
theorem getConv_sim (E : Env) (n : Nat) {v : Value} (hw : v.MarksWF) {inT want : Ty} {uns : Bool} {p : Plan}
    (hg : getConv E inT want uns = some p) : Sim RV (apply E n p v) (apply E n p v.unmarkDeep) :=
  apply_sim E n p v (getConv_shaped hg).1 hw (.inl (getConv_shaped hg).2)

end D08B
end CtyModel
