/-
Small domain / environment facts of the deepening pass:
`coalesce` of arguments of one type under `modelEnv`, result type of `concat` under
`modelEnv`, `flatten` and `merge` refused outside their documented domain.
-/
import CtyModel.Lemmas.d13Model
import CtyModel.Lemmas.StdlibCall
namespace CtyModel
namespace Stdlib
open Value

theorem replicate_of_forall {α} (t : α) : ∀ (l : List α), (∀ x ∈ l, x = t) → l = List.replicate l.length t
  | [], _ => rfl
  | x :: xs, h => by
    rw [List.length_cons, List.replicate_succ, h x (by simp),
      ← replicate_of_forall t xs (fun y hy => h y (List.mem_cons_of_mem _ hy))]

/-- **coalesce of arguments of one type** under `modelEnv`: the `Type` callback answers that
type (unification of copies of one type, C09) and the result is the first non-null
argument ITSELF; an error when all are null -/
theorem coalesce_same_type_model (t : Ty) (args : List Value) (hne : args ≠ [])
    (hty : ∀ a ∈ args, a.ty = t) (hk : ∀ a ∈ args, a.isKnown = true)
    (hw : t.wf = true) (ho : t.hasOpt = false) (hd : Unify.tyDepth t < d13UnifyFuel) :
    coalesceType modelEnv args = .ok t ∧
    coalesceImpl modelEnv args t =
      match args.find? (fun a => !a.isNull) with
      | some a => .ok a
      | none => .err "no non-null arguments" := by
  constructor
  · have hl : args.map (·.ty) = List.replicate args.length t := by
      have := replicate_of_forall t (args.map (·.ty)) (by
        intro x hx
        obtain ⟨a, ha, rfl⟩ := List.mem_map.mp hx
        exact hty a ha)
      simpa using this
    have hpos : 0 < args.length := List.length_pos_iff.mpr hne
    simp only [coalesceType, hl, modelEnv_unify_same t args.length hpos hw ho hd]
  · rw [coalesceLoop_eq modelEnv t args hk]
    cases hf : args.find? (fun a => !a.isNull) with
    | none => rfl
    | some a =>
      have ha := List.mem_of_find?_eq_some hf
      simp only [convertTo, hty a ha, Ty.stripOpt_id_of_noOpt t ho, Ty.equals_self hw, if_true]

/-- result type of `concat` for `n ≥ 1` lists of one element type under `modelEnv`: that
list type, with no hypothesis about unification left -/
theorem concatType_lists_model (e : Ty) (ls : List (List Payload)) (hne : ls ≠ [])
    (hw : e.wf = true) (ho : e.hasOpt = false) (hd : Unify.tyDepth (.list e) < d13UnifyFuel) :
    concatType modelEnv (sameLists e ls) = .ok (.list e) := by
  apply concatType_lists modelEnv e ls hne
  have hl : (ls.map fun _ => Ty.list e) = List.replicate ls.length (.list e) := by
    clear hne; induction ls with
    | nil => rfl
    | cons _ _ ih => simp [List.replicate_succ, ih]
  rw [hl]
  exact modelEnv_unify_same (.list e) ls.length (List.length_pos_iff.mpr hne) (by simpa [Ty.wf] using hw)
    (by simpa [Ty.hasOpt] using ho) hd

/-- `flatten` of a wholly known value that is not a list, set or tuple is refused by the
`Type` callback -/
theorem flattenType_outside (E : Env) (arg : Value) (hwk : arg.whollyKnown = true) (hs : isSeqTy arg.ty = false) :
    Fails (flattenType E [arg]) :=
  ⟨"can only flatten lists, sets and tuples", by simp [flattenType, hwk, hs]⟩

/-- an argument whose type is not a map or object type (and not the dynamic pseudo-type,
which defers the decision) -/
def notMapOrObject (a : Value) : Bool := !a.ty.equals .dyn && !isMapTy a.ty && !isObjectTy a.ty

/-- **merge refuses an argument that is neither a map nor an object** (`Type` callback),
wherever it stands, when the arguments before it are maps or objects the callback can
read (null, unknown, or iterable) -/
theorem mergeTypeLoop_outside : ∀ (pre : List Value) (bad : Value) (rest : List Value) (i : Nat) (st : MergeTy),
    (∀ a ∈ pre, a.ty.equals .dyn = false ∧ (isMapTy a.ty || isObjectTy a.ty) = true ∧
      (a.unmark.isNull = true ∨ a.unmark.isKnown = false ∨ ∃ ks, elemKeys a.unmark = .ok ks)) →
    notMapOrObject bad = true →
    Fails (mergeTypeLoop (pre ++ bad :: rest) i st)
  | [], bad, rest, i, st, _, hb => by
    simp only [notMapOrObject, Bool.and_eq_true, Bool.not_eq_true'] at hb
    exact ⟨"arguments must be maps or objects", by
      simp only [List.nil_append, mergeTypeLoop, hb.1.1, Bool.false_eq_true, if_false, hb.1.2, hb.2, Bool.not_false,
        Bool.and_self, if_true]⟩
  | a :: pre, bad, rest, i, st, hp, hb => by
    obtain ⟨hd, hmo, hcase⟩ := hp a (by simp)
    have hmo' : (!isMapTy a.ty && !isObjectTy a.ty) = false := by
      cases h1 : isMapTy a.ty <;> cases h2 : isObjectTy a.ty <;> simp_all
    have hstep : ∃ st1 : MergeTy, mergeTypeStep st a.ty a.unmark = .ok st1 := by
      cases hT : a.ty with
      | object ns ts os => simp only [mergeTypeStep]; split <;> exact ⟨_, rfl⟩
      | map ety =>
        simp only [mergeTypeStep]
        by_cases hn : a.unmark.isNull = true
        · simp only [hn, if_true]; exact ⟨_, rfl⟩
        · simp only [hn, Bool.false_eq_true, if_false]
          by_cases hk : a.unmark.isKnown = true
          · rcases hcase with h | h | ⟨ks, hks⟩
            · exact absurd h hn
            · rw [hk] at h; cases h
            · simp only [hk, if_true, hks]; exact ⟨_, rfl⟩
          · simp only [hk, Bool.false_eq_true, if_false]; exact ⟨_, rfl⟩
      | _ => exact ⟨st, rfl⟩
    obtain ⟨st1, hs1⟩ := hstep
    simp only [List.cons_append, mergeTypeLoop, hd, Bool.false_eq_true, if_false, hmo', hs1]
    split
    · exact mergeTypeLoop_outside pre bad rest _ _ (fun b hb' => hp b (List.mem_cons_of_mem _ hb')) hb
    · exact mergeTypeLoop_outside pre bad rest _ _ (fun b hb' => hp b (List.mem_cons_of_mem _ hb')) hb

theorem mergeType_outside (pre : List Value) (bad : Value) (rest : List Value)
    (hp : ∀ a ∈ pre, a.ty.equals .dyn = false ∧ (isMapTy a.ty || isObjectTy a.ty) = true ∧
      (a.unmark.isNull = true ∨ a.unmark.isKnown = false ∨ ∃ ks, elemKeys a.unmark = .ok ks))
    (hb : notMapOrObject bad = true) :
    Fails (mergeType (pre ++ bad :: rest)) := by
  obtain ⟨c, hc⟩ := mergeTypeLoop_outside pre bad rest 0 ⟨[], .dyn, true, true⟩ hp hb
  refine ⟨c, ?_⟩
  have hl : ((pre ++ bad :: rest).length == 0) = false := by simp
  simp only [mergeType, hl, Bool.false_eq_true, if_false, hc, cast_err]

/-! ### `zipmap`: a null key -/

theorem zipmapLoop_null_key (e : Ty) (vs : List Payload) (hlen : (vs.length : Int) ≤ maxInt)
    (post : List Value) : ∀ (pre : List String) (i : Nat) (out : List (String × Value)) (marks : List String),
      i + pre.length < vs.length →
      zipmapLoop ⟨.list e, .seq vs⟩ (pre.map strVal ++ ⟨.string, .null⟩ :: post) i out marks =
        .err "keys list has null value"
  | [], i, out, marks, _ => by
    simp [zipmapLoop, Value.unmark, Payload.unmark1, Value.isNull, Payload.isNull]
  | k :: pre, i, out, marks, hi => by
    have hlt : i < vs.length := by simp at hi; omega
    have hn : (strVal k).unmark.isNull = false := rfl
    have hs : asString (strVal k).unmark = .ok k := rfl
    simp only [List.map_cons, List.cons_append, zipmapLoop, hn, Bool.false_eq_true, if_false]
    rw [index_list_nat e vs i (by omega), List.getElem?_eq_getElem hlt]
    simp only [hs]
    exact zipmapLoop_null_key e vs hlen post pre (i + 1) _ _ (by simp at hi ⊢; omega)

/-- **zipmap rejects a null key** (keys and values of the same length, list values) -/
theorem zipmapImpl_null_key (E : Env) (e : Ty) (pre : List String) (post : List Payload) (vs : List Payload)
    (hpost : ∀ p ∈ post, isStrOrNull p = true)
    (hl : pre.length + 1 + post.length = vs.length) (hlen : (vs.length : Int) ≤ maxInt) (retTy : Ty) :
    Fails (zipmapImpl E [⟨.list .string, .seq (pre.map Payload.s ++ .null :: post)⟩, ⟨.list e, .seq vs⟩] retTy) := by
  refine ⟨"keys list has null value", ?_⟩
  have hk : (⟨.list .string, .seq (pre.map Payload.s ++ .null :: post)⟩ : Value).whollyKnown = true := by
    have : Payload.whollyKnownL (pre.map Payload.s ++ .null :: post) = true := by
      apply whollyKnownL_strOrNull
      intro p hp
      rcases List.mem_append.mp hp with h | h
      · obtain ⟨x, _, rfl⟩ := List.mem_map.mp h; rfl
      · rcases List.mem_cons.mp h with rfl | h
        · rfl
        · exact hpost p h
    simp [Value.whollyKnown, Payload.whollyKnown, this]
  have hmap : (pre.map Payload.s ++ Payload.null :: post).map (fun x => (⟨.string, x⟩ : Value)) =
      pre.map strVal ++ ⟨.string, .null⟩ :: post.map (⟨.string, ·⟩) := by
    simp [strVal]
  have hll : ((pre.map Payload.s ++ Payload.null :: post).length != vs.length) = false := by
    simp; omega
  simp only [zipmapImpl, Value.unmark, Payload.unmark1, Value.marks, Payload.marks1, unionMarks,
    List.foldr_nil, hk, Bool.not_true, Bool.false_eq_true, if_false, lengthInt_list, hll,
    elems_list, hmap, zipmapLoop_null_key e vs hlen _ pre 0 [] [] (by omega), cast_err]

end Stdlib
end CtyModel
