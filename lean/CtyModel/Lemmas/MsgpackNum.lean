/-
Numbers through the MessagePack codec (C16): which encoding `marshal` selects
and what `unmarshal` makes of it.
-/
import CtyModel.MsgpackSpec
import CtyModel.Lemmas.NumCmp
import CtyModel.Lemmas.NumRound
import CtyModel.Lemmas.GoctyNum
namespace CtyModel
namespace Msgpack
open Num NumCmp

/-- the integer a finite number with non-negative exponent stands for -/
theorem toInt?_fin (n : Bool) (m : Nat) (e : Int) (p : Nat) :
    (Num.fin n m e p).toInt? =
      if e ≥ 0 then some (if n then -((m : Int) * 2 ^ e.toNat) else (m : Int) * 2 ^ e.toNat) else none := by
  simp only [Num.toInt?, Num.isInt, Num.truncInt]
  by_cases h : e ≥ 0 <;> simp [h]

theorem toInt?_mk (neg : Bool) (m : Nat) (p : Nat) :
    (Num.mk neg m 0 p).toInt? = some (if neg then -(m : Int) else m) := by
  unfold Num.mk
  by_cases hm : m = 0
  · subst hm
    rw [norm_zero]
    simp [toInt?_fin]
  · obtain ⟨k, h1, h2, _⟩ := norm_spec m 0 hm
    rw [toInt?_fin]
    have hk : (norm m 0).2 ≥ 0 := by rw [h1]; omega
    simp only [hk, if_true]
    have : ((norm m 0).2).toNat = k := by rw [h1]; omega
    rw [this]
    have h3 : ((norm m 0).1 : Int) * 2 ^ k = (m : Int) := by
      have := congrArg (fun x : Nat => (x : Int)) h2
      simp only [Int.natCast_mul, Int.natCast_pow] at this
      exact this.symm
    rw [h3]

theorem toInt?_ofInt (i : Int) (p : Nat) : (Num.ofInt i p).toInt? = some i := by
  unfold Num.ofInt
  rw [toInt?_mk]
  by_cases h : i < 0 <;> simp [h] <;> omega

theorem toInt?_ofNat (u : Nat) (p : Nat) : (Num.ofNat u p).toInt? = some (u : Int) := by
  unfold Num.ofNat
  rw [toInt?_mk]; simp

/-- two numbers that stand for the same integer compare equal -/
theorem cmp_of_toInt? {x y : Num} {i : Int} (hx : x.toInt? = some i) (hy : y.toInt? = some i) :
    Num.cmp y x = 0 := by
  cases x with
  | inf n => simp [Num.toInt?, Num.isInt] at hx
  | fin nx mx ex px =>
    cases y with
    | inf n => simp [Num.toInt?, Num.isInt] at hy
    | fin ny my ey py =>
      rw [toInt?_fin] at hx hy
      by_cases h1 : ex ≥ 0 <;> simp only [h1, if_true, if_false, reduceCtorEq] at hx
      by_cases h2 : ey ≥ 0 <;> simp only [h2, if_true, if_false, reduceCtorEq] at hy
      rw [cmp_fin]
      have hxv : sgnm nx mx * 2 ^ ex.toNat = i := by
        cases nx <;> simp_all [sgnm, Int.neg_mul]
      have hyv : sgnm ny my * 2 ^ ey.toNat = i := by
        cases ny <;> simp_all [sgnm, Int.neg_mul]
      -- scale both to exponent 0
      have hm : 0 ≤ min ey ex := by omega
      have sx : scaleTo (sgnm nx mx) ex 0 = scaleTo (sgnm nx mx) ex (min ey ex) * 2 ^ (min ey ex - 0).toNat :=
        scaleTo_shift _ _ _ _ (by omega) hm
      have sy : scaleTo (sgnm ny my) ey 0 = scaleTo (sgnm ny my) ey (min ey ex) * 2 ^ (min ey ex - 0).toNat :=
        scaleTo_shift _ _ _ _ (by omega) hm
      have ex0 : scaleTo (sgnm nx mx) ex 0 = i := by simpa [scaleTo] using hxv
      have ey0 : scaleTo (sgnm ny my) ey 0 = i := by simpa [scaleTo] using hyv
      have : scaleTo (sgnm ny my) ey (min ey ex) = scaleTo (sgnm nx mx) ex (min ey ex) := by
        have hpos := two_pow_pos (min ey ex - 0).toNat
        apply Int.eq_of_mul_eq_mul_right (Int.ne_of_gt hpos)
        rw [← sx, ← sy, ex0, ey0]
      simp [icmp, this]

/-! ### the integer path -/

theorem route_of_toInt? {x : Num} {i : Int} (hx : x.toInt? = some i) (hr : minI64 ≤ i ∧ i ≤ maxI64) :
    route x = .int i := by
  cases x with
  | inf n => simp [Num.toInt?, Num.isInt] at hx
  | fin n m e p => simp [route, hx, hr]

theorem route_of_toInt?_out {x : Num} {i : Int} (hx : x.toInt? = some i) (hr : ¬ (minI64 ≤ i ∧ i ≤ maxI64)) :
    route x = .str (Num.textF x) := by
  cases x with
  | inf n => simp [Num.toInt?, Num.isInt] at hx
  | fin n m e p => simp [route, hx, hr]

/-- what the decoder makes of the item `EncodeInt` writes -/
theorem unmarshalNumber_encInt (i : Int) :
    ∃ y, unmarshalNumber (encInt i) = .ok y ∧ y.toInt? = some i ∧ y.prec = 64 := by
  unfold encInt
  by_cases h : i > 127
  · simp only [h, if_true, unmarshalNumber]
    refine ⟨_, rfl, ?_, rfl⟩
    rw [toInt?_ofNat]; congr 1; omega
  · simp only [h, if_false, unmarshalNumber]
    exact ⟨_, rfl, toInt?_ofInt i 64, rfl⟩

theorem unmarshalNumber_uint (u : Nat) :
    ∃ y, unmarshalNumber (.uint u) = .ok y ∧ y.toInt? = some (u : Int) ∧ y.prec = 64 :=
  ⟨_, rfl, toInt?_ofNat u 64, rfl⟩

theorem unmarshalNumber_int (i : Int) :
    ∃ y, unmarshalNumber (.int i) = .ok y ∧ y.toInt? = some i ∧ y.prec = 64 :=
  ⟨_, rfl, toInt?_ofInt i 64, rfl⟩

/-! ### the float64 path -/

/-- the part of `toIEEE` after the reduced precision `p` has been determined -/
def ieeeTail (mbits : Nat) (emin emax : Int) (n : Bool) (m : Nat) (e : Int) (p : Int) : Num × Bool :=
  if p < 0 ∨ (p = 0 ∧ m = 1) then (.fin n 0 0 fprec, false)
  else if p = 0 then (.fin n 1 (emin - (mbits : Int)) fprec, false)
  else
    let r := roundME m e p.toNat
    let en' : Int := r.2 + (bitlen r.1 : Int) - 1
    if en' > emax then (.inf n, false)
    else (Num.mk n r.1 r.2 fprec, decide (bitlen m ≤ p.toNat))

theorem toIEEE_fin (mbits : Nat) (emin emax : Int) (n : Bool) (m0 : Nat) (e0 : Int) (pr : Nat) :
    Num.toIEEE mbits emin emax (.fin n m0 e0 pr) =
      if (norm m0 e0).1 = 0 then (.fin n 0 0 fprec, true)
      else ieeeTail mbits emin emax n (norm m0 e0).1 (norm m0 e0).2
        (if (norm m0 e0).2 + (bitlen (norm m0 e0).1 : Int) - 1 < emin then
          (mbits : Int) + 1 - emin + ((norm m0 e0).2 + (bitlen (norm m0 e0).1 : Int) - 1) else (mbits : Int) + 1) := rfl

theorem ieeeTail_exact (mbits : Nat) (emin emax : Int) (n : Bool) (m : Nat) (e : Int) (p : Int) (hm : m ≠ 0)
    (h : (ieeeTail mbits emin emax n m e p).2 = true) :
    (ieeeTail mbits emin emax n m e p).1 = Num.mk n m e fprec := by
  unfold ieeeTail at h ⊢
  split at h
  · simp at h
  · split at h
    · simp at h
    · rename_i hA hB
      simp only [hA, hB, if_false] at h ⊢
      split at h
      · simp at h
      · rename_i hC
        simp only [hC, if_false]
        simp only [decide_eq_true_eq] at h
        have hp : p.toNat ≠ 0 := by
          intro h0
          have : bitlen m = 0 := by omega
          simp [bitlen, hm] at this
        have hr : roundME m e p.toNat = (m, e) := by
          unfold roundME; simp [hp, h]
        have hA' : ¬ p < 0 := fun h => hA (Or.inl h)
        simp [hr, hA']

/-- a number and its normalised form compare equal -/
theorem cmp_mk_self (n : Bool) (m0 : Nat) (e0 : Int) (pr q : Nat) :
    Num.cmp (Num.mk n (norm m0 e0).1 (norm m0 e0).2 q) (.fin n m0 e0 pr) = 0 := by
  by_cases hm00 : m0 = 0
  · subst hm00
    simp only [norm_zero, Num.mk]
    rw [cmp_fin]; simp [scaleTo, sgnm, icmp]
  obtain ⟨k, hk1, hk2, hk3⟩ := norm_spec m0 e0 hm00
  have hv := mk_isVal n (norm m0 e0).1 (norm m0 e0).2 q
  generalize hy : Num.mk n (norm m0 e0).1 (norm m0 e0).2 q = y at *
  cases y with
  | inf _ => simp [IsVal] at hv
  | fin ny my ey py =>
    rw [cmp_fin]
    simp only [IsVal] at hv
    rcases hv with ⟨h1, h2⟩ | ⟨h1, h2⟩
    · exfalso
      have : ((norm m0 e0).1 : Int) = 0 := by
        cases n
        · simpa using h2
        · simp only [if_true] at h2; omega
      exact hk3 (by exact_mod_cast this)
    · have he : e0 ≤ ey := by omega
      have hmin : min ey e0 = e0 := by omega
      rw [hmin]
      have s1 : scaleTo (sgnm ny my) ey e0 = scaleTo (sgnm ny my) ey (norm m0 e0).2 * 2 ^ ((norm m0 e0).2 - e0).toNat :=
        scaleTo_shift _ _ _ _ h1 (by omega)
      have hval : scaleTo (sgnm ny my) ey (norm m0 e0).2 = sgnm n (norm m0 e0).1 := by
        simpa [scaleTo, sgnm] using h2
      have hk : ((norm m0 e0).2 - e0).toNat = k := by omega
      have hm0' : (m0 : Int) = ((norm m0 e0).1 : Int) * 2 ^ k := by exact_mod_cast hk2
      have : scaleTo (sgnm ny my) ey e0 = scaleTo (sgnm n m0) e0 e0 := by
        rw [s1, hval, hk, scaleTo_self]
        cases n <;> simp [sgnm, hm0', Int.neg_mul]
      simp [icmp, this]

/-- when `Float64()` reports `Exact`, the float64 is the number -/
theorem toF64_exact_cmp (x : Num) (h : (Num.toF64 x).2 = true) : Num.cmp (Num.toF64 x).1 x = 0 := by
  cases x with
  | inf n => simp [Num.toF64, Num.toIEEE, Num.cmp]
  | fin n m0 e0 p =>
    unfold Num.toF64 at h ⊢
    rw [toIEEE_fin] at h ⊢
    by_cases hm : (norm m0 e0).1 = 0
    · simp only [hm, if_true]
      have hm0 : m0 = 0 := by
        by_cases h0 : m0 = 0
        · exact h0
        · obtain ⟨k, _, _, h3⟩ := norm_spec m0 e0 h0
          exact absurd hm h3
      subst hm0
      rw [cmp_fin]; simp [scaleTo, sgnm, icmp]
    · simp only [hm, if_false] at h ⊢
      rw [ieeeTail_exact _ _ _ _ _ _ _ hm h]
      exact cmp_mk_self n m0 e0 p fprec

theorem toF64_prec (x : Num) (hx : x.isInf = false) (h : (Num.toF64 x).2 = true) : (Num.toF64 x).1.prec = fprec := by
  cases x with
  | inf n => simp [Num.isInf] at hx
  | fin n m0 e0 p =>
    unfold Num.toF64 at h ⊢
    rw [toIEEE_fin] at h ⊢
    by_cases hm : (norm m0 e0).1 = 0
    · simp [hm, Num.prec]
    · simp only [hm, if_false] at h ⊢
      rw [ieeeTail_exact _ _ _ _ _ _ _ hm h]
      rfl

/-! ### the decimal-text path: precision of what `ParseNumberVal` returns -/

theorem round_prec (neg : Bool) (m : Nat) (e : Int) (p : Nat) : (Num.round neg m e p).prec = p := rfl

theorem quo512_prec {a b y : Num} (ha : a.prec = 512) (hb : b.prec = 512) (hfa : a.isInf = false)
    (hfb : b.isInf = false) (h : Num.quo a b = .ok y) : y.isInf = true ∨ y.prec = 512 := by
  cases a with
  | inf _ => simp [Num.isInf] at hfa
  | fin na ma ea pa =>
    cases b with
    | inf _ => simp [Num.isInf] at hfb
    | fin nb mb eb pb =>
      simp only [Num.prec] at ha hb
      subst ha hb
      simp only [Num.quo] at h
      split at h
      · split at h
        · simp at h
        · simp only [Res.ok.injEq] at h; subst h; left; rfl
      · split at h
        · simp only [Res.ok.injEq] at h; subst h; right; rfl
        · simp only [Res.ok.injEq] at h; subst h; right; rfl

theorem pow10Rounded_prec (k : Nat) :
    (pow10Rounded k).isInf = true ∨ ((pow10Rounded k).prec = 512 ∧ (pow10Rounded k).isInf = false) := by
  unfold pow10Rounded
  cases pow5 k with
  | fin _ _ _ _ => right; exact ⟨rfl, rfl⟩
  | inf _ => left; rfl

theorem parseUnsigned_prec {neg : Bool} {cs : List Char} {y : Num} (h : parseUnsigned neg cs = .ok y) :
    y.isInf = true ∨ y.prec = 512 := by
  simp only [parseUnsigned] at h
  split at h
  · split at h
    · simp at h
    · simp only [Res.ok.injEq] at h; subst h; right; rfl
  · split at h
    · split at h
      · simp at h
      · split at h
        · simp only [Res.ok.injEq] at h; subst h; right; rfl
        · split at h
          · split at h
            · simp at h
            · rename_i fr _ _ _ _ _ _
              generalize hd : pow10Rounded fr.length = d at h
              have hb := pow10Rounded_prec fr.length
              rw [hd] at hb
              rcases hb with hb | hb
              · -- an infinite divisor: the quotient is a zero of precision 512
                cases d with
                | fin _ _ _ _ => simp [Num.isInf] at hb
                | inf nb => simp only [Num.quo, Res.ok.injEq] at h; subst h; right; rfl
              · exact quo512_prec rfl hb.1 rfl hb.2 h
          · exact quo512_prec rfl rfl rfl rfl h
    · split at h <;> simp at h
  · split at h <;> simp at h

theorem parseNumber_prec {s : String} {y : Num} (h : parseNumber s = .ok y) : y.isInf = true ∨ y.prec = 512 := by
  unfold parseNumber parseChars at h
  split at h
  all_goals
    simp only at h
    split at h
    · simp only [Res.ok.injEq] at h; subst h; left; rfl
    · exact parseUnsigned_prec h

/-! ### every encoding decodes to an acceptable number -/

theorem unmarshalNumber_str (s : String) :
    unmarshalNumber (.str s) =
      (match parseNumber s with
       | .ok x => .ok x
       | .err _ => .err "number is required"
       | .panic w => .panic w
       | .unmodelled => .unmodelled) := by
  simp only [unmarshalNumber, decString]
  cases parseNumber s <;> rfl

/-- a known number: what comes back is acceptable -/
theorem encNum_back (x : Num) (h : numFits x = true) :
    ∃ y, unmarshalNumber (encNum x) = .ok y ∧ numBack y x := by
  unfold numFits at h
  unfold encNum
  cases x with
  | inf n =>
    refine ⟨.inf n, by simp [route, unmarshalNumber], ?_⟩
    simp [numBack, wholeOrF64, Num.cmp]
  | fin n m e p =>
    cases hi : (Num.fin n m e p).toInt? with
    | some i =>
      have hint : (Num.fin n m e p).isInt = true := by
        simp only [Num.toInt?] at hi
        by_cases hh : (Num.fin n m e p).isInt = true
        · exact hh
        · simp [hh] at hi
      have hw : wholeOrF64 (.fin n m e p) = true := by simp [wholeOrF64, hint]
      by_cases hr : minI64 ≤ i ∧ i ≤ maxI64
      · rw [route_of_toInt? hi hr]
        obtain ⟨y, hy1, hy2, _⟩ := unmarshalNumber_encInt i
        exact ⟨y, hy1, by simp [numBack, hw, cmp_of_toInt? hi hy2]⟩
      · rw [route_of_toInt?_out hi hr] at h ⊢
        simp only [textBack, hint, if_true] at h
        rw [unmarshalNumber_str]
        cases hp : parseNumber (Num.textF (.fin n m e p)) with
        | ok y =>
          simp only [hp, beq_iff_eq] at h
          exact ⟨y, rfl, by simp [numBack, hw, h]⟩
        | _ => simp [hp] at h
    | none =>
      have hint : (Num.fin n m e p).isInt = false := by
        simp only [Num.toInt?, Num.truncInt] at hi
        by_cases hh : (Num.fin n m e p).isInt = true
        · simp [hh] at hi
        · simpa using hh
      by_cases hf : (Num.toF64 (.fin n m e p)).2 = true
      · have hroute : route (.fin n m e p) = .f64 (Num.toF64 (.fin n m e p)).1 := by
          simp [route, hi, hf]
        rw [hroute]
        refine ⟨(Num.toF64 (.fin n m e p)).1, by simp [unmarshalNumber], ?_⟩
        have hw : wholeOrF64 (.fin n m e p) = true := by simp [wholeOrF64, hf]
        simp [numBack, hw, toF64_exact_cmp _ hf]
      · have hroute : route (.fin n m e p) = .str (Num.textF (.fin n m e p)) := by
          simp [route, hi, hf]
        rw [hroute] at h ⊢
        simp only [textBack, hint] at h
        rw [unmarshalNumber_str]
        have hw : wholeOrF64 (.fin n m e p) = false := by simp [wholeOrF64, hint, hf]
        cases hp : parseNumber (Num.textF (.fin n m e p)) with
        | ok y =>
          simp only [hp] at h
          exact ⟨y, rfl, by simpa [numBack, hw] using h⟩
        | _ => simp [hp] at h

/-- a numeric bound: what comes back is numerically the same number, at the
precision `decPrec` predicts (or infinite) -/
theorem encNum_exact (b : Bound) (h : boundFits (some b) = true) :
    ∃ y, unmarshalNumber (encNum b.v) = .ok y ∧ Num.cmp y b.v = 0 ∧ (y.isInf = true ∨ y.prec = decPrec b.v) := by
  unfold boundFits at h
  simp only at h
  unfold encNum decPrec
  generalize b.v = x at *
  cases x with
  | inf n =>
    exact ⟨.inf n, by simp [route, unmarshalNumber], by simp [Num.cmp], Or.inl rfl⟩
  | fin n m e p =>
    cases hi : (Num.fin n m e p).toInt? with
    | some i =>
      by_cases hr : minI64 ≤ i ∧ i ≤ maxI64
      · rw [route_of_toInt? hi hr]
        obtain ⟨y, hy1, hy2, hy3⟩ := unmarshalNumber_encInt i
        exact ⟨y, hy1, cmp_of_toInt? hi hy2, Or.inr hy3⟩
      · rw [route_of_toInt?_out hi hr] at h ⊢
        simp only [textExact] at h
        rw [unmarshalNumber_str]
        cases hp : parseNumber (Num.textF (.fin n m e p)) with
        | ok y =>
          simp only [hp, beq_iff_eq] at h
          exact ⟨y, rfl, h, parseNumber_prec hp⟩
        | _ => simp [hp] at h
    | none =>
      by_cases hf : (Num.toF64 (.fin n m e p)).2 = true
      · have hroute : route (.fin n m e p) = .f64 (Num.toF64 (.fin n m e p)).1 := by
          simp [route, hi, hf]
        rw [hroute]
        exact ⟨(Num.toF64 (.fin n m e p)).1, by simp [unmarshalNumber], toF64_exact_cmp _ hf, Or.inr (toF64_prec _ rfl hf)⟩
      · have hroute : route (.fin n m e p) = .str (Num.textF (.fin n m e p)) := by
          simp [route, hi, hf]
        rw [hroute] at h ⊢
        simp only [textExact] at h
        rw [unmarshalNumber_str]
        cases hp : parseNumber (Num.textF (.fin n m e p)) with
        | ok y =>
          simp only [hp, beq_iff_eq] at h
          exact ⟨y, rfl, h, parseNumber_prec hp⟩
        | _ => simp [hp] at h

end Msgpack
end CtyModel
