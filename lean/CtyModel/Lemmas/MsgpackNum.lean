/-
Numbers through the MessagePack codec (C16): which encoding `marshal` selects
and what `unmarshal` makes of it.
-/
import CtyModel.MsgpackSpec
import CtyModel.Lemmas.NumCmp
import CtyModel.Lemmas.NumRound
import CtyModel.Lemmas.GoctyNum
namespace CtyModel
namespace Msgpack
open Num NumCmp

/-- the integer a finite number with non-negative exponent stands for -/
theorem toInt?_fin (n : Bool) (m : Nat) (e : Int) (p : Nat) :
    (Num.fin n m e p).toInt? =
      if e ≥ 0 then some (if n then -((m : Int) * 2 ^ e.toNat) else (m : Int) * 2 ^ e.toNat) else none := by
  simp only [Num.toInt?, Num.isInt, Num.truncInt]
  by_cases h : e ≥ 0 <;> simp [h]

theorem toInt?_mk (neg : Bool) (m : Nat) (p : Nat) :
    (Num.mk neg m 0 p).toInt? = some (if neg then -(m : Int) else m) := by
  unfold Num.mk
  by_cases hm : m = 0
  · subst hm
    rw [norm_zero]
    simp [toInt?_fin]
  · obtain ⟨k, h1, h2, _⟩ := norm_spec m 0 hm
    rw [toInt?_fin]
    have hk : (norm m 0).2 ≥ 0 := by rw [h1]; omega
    simp only [hk, if_true]
    have : ((norm m 0).2).toNat = k := by rw [h1]; omega
    rw [this]
    have h3 : ((norm m 0).1 : Int) * 2 ^ k = (m : Int) := by
      have := congrArg (fun x : Nat => (x : Int)) h2
      simp only [Int.natCast_mul, Int.natCast_pow] at this
      exact this.symm
    rw [h3]

theorem toInt?_ofInt (i : Int) (p : Nat) : (Num.ofInt i p).toInt? = some i := by
  unfold Num.ofInt
  rw [toInt?_mk]
  by_cases h : i < 0 <;> simp [h] <;> omega

theorem toInt?_ofNat (u : Nat) (p : Nat) : (Num.ofNat u p).toInt? = some (u : Int) := by
  unfold Num.ofNat
  rw [toInt?_mk]; simp

/-- two numbers that stand for the same integer compare equal -/
theorem cmp_of_toInt? {x y : Num} {i : Int} (hx : x.toInt? = some i) (hy : y.toInt? = some i) :
    Num.cmp y x = 0 := by
  cases x with
  | inf n => simp [Num.toInt?, Num.isInt] at hx
  | fin nx mx ex px =>
    cases y with
    | inf n => simp [Num.toInt?, Num.isInt] at hy
    | fin ny my ey py =>
      rw [toInt?_fin] at hx hy
      by_cases h1 : ex ≥ 0 <;> simp only [h1, if_true, if_false, reduceCtorEq] at hx
      by_cases h2 : ey ≥ 0 <;> simp only [h2, if_true, if_false, reduceCtorEq] at hy
      rw [cmp_fin]
      have hxv : sgnm nx mx * 2 ^ ex.toNat = i := by
        cases nx <;> simp_all [sgnm, Int.neg_mul]
      have hyv : sgnm ny my * 2 ^ ey.toNat = i := by
        cases ny <;> simp_all [sgnm, Int.neg_mul]
      -- scale both to exponent 0
      have hm : 0 ≤ min ey ex := by omega
      have sx : scaleTo (sgnm nx mx) ex 0 = scaleTo (sgnm nx mx) ex (min ey ex) * 2 ^ (min ey ex - 0).toNat :=
        scaleTo_shift _ _ _ _ (by omega) hm
      have sy : scaleTo (sgnm ny my) ey 0 = scaleTo (sgnm ny my) ey (min ey ex) * 2 ^ (min ey ex - 0).toNat :=
        scaleTo_shift _ _ _ _ (by omega) hm
      have ex0 : scaleTo (sgnm nx mx) ex 0 = i := by simpa [scaleTo] using hxv
      have ey0 : scaleTo (sgnm ny my) ey 0 = i := by simpa [scaleTo] using hyv
      have : scaleTo (sgnm ny my) ey (min ey ex) = scaleTo (sgnm nx mx) ex (min ey ex) := by
        have hpos := two_pow_pos (min ey ex - 0).toNat
        apply Int.eq_of_mul_eq_mul_right (Int.ne_of_gt hpos)
        rw [← sx, ← sy, ex0, ey0]
      simp [icmp, this]

/-! ### the integer path -/

theorem route_of_toInt? {x : Num} {i : Int} (hx : x.toInt? = some i) (hr : minI64 ≤ i ∧ i ≤ maxI64) :
    route x = .int i := by
  cases x with
  | inf n => simp [Num.toInt?, Num.isInt] at hx
  | fin n m e p => simp [route, hx, hr]

theorem route_of_toInt?_out {x : Num} {i : Int} (hx : x.toInt? = some i) (hr : ¬ (minI64 ≤ i ∧ i ≤ maxI64)) :
    route x = .str (textF0 x) := by
  cases x with
  | inf n => simp [Num.toInt?, Num.isInt] at hx
  | fin n m e p => simp [route, hx, hr]

/-- what the decoder makes of the item `EncodeInt` writes -/
theorem unmarshalNumber_encInt (i : Int) :
    ∃ y, unmarshalNumber (encInt i) = .ok y ∧ y.toInt? = some i ∧ y.prec = 64 := by
  unfold encInt
  by_cases h : i > 127
  · simp only [h, if_true, unmarshalNumber]
    refine ⟨_, rfl, ?_, rfl⟩
    rw [toInt?_ofNat]; congr 1; omega
  · simp only [h, if_false, unmarshalNumber]
    exact ⟨_, rfl, toInt?_ofInt i 64, rfl⟩

theorem unmarshalNumber_uint (u : Nat) :
    ∃ y, unmarshalNumber (.uint u) = .ok y ∧ y.toInt? = some (u : Int) ∧ y.prec = 64 :=
  ⟨_, rfl, toInt?_ofNat u 64, rfl⟩

theorem unmarshalNumber_int (i : Int) :
    ∃ y, unmarshalNumber (.int i) = .ok y ∧ y.toInt? = some i ∧ y.prec = 64 :=
  ⟨_, rfl, toInt?_ofInt i 64, rfl⟩

/-! ### the float64 path -/

/-- the part of `toIEEE` after the reduced precision `p` has been determined -/
def ieeeTail (mbits : Nat) (emin emax : Int) (n : Bool) (m : Nat) (e : Int) (p : Int) : Num × Bool :=
  if p < 0 ∨ (p = 0 ∧ m = 1) then (.fin n 0 0 fprec, false)
  else if p = 0 then (.fin n 1 (emin - (mbits : Int)) fprec, false)
  else
    let r := roundME m e p.toNat
    let en' : Int := r.2 + (bitlen r.1 : Int) - 1
    if en' > emax then (.inf n, false)
    else (Num.mk n r.1 r.2 fprec, decide (bitlen m ≤ p.toNat))

theorem toIEEE_fin (mbits : Nat) (emin emax : Int) (n : Bool) (m0 : Nat) (e0 : Int) (pr : Nat) :
    Num.toIEEE mbits emin emax (.fin n m0 e0 pr) =
      if (norm m0 e0).1 = 0 then (.fin n 0 0 fprec, true)
      else ieeeTail mbits emin emax n (norm m0 e0).1 (norm m0 e0).2
        (if (norm m0 e0).2 + (bitlen (norm m0 e0).1 : Int) - 1 < emin then
          (mbits : Int) + 1 - emin + ((norm m0 e0).2 + (bitlen (norm m0 e0).1 : Int) - 1) else (mbits : Int) + 1) := rfl

theorem ieeeTail_exact (mbits : Nat) (emin emax : Int) (n : Bool) (m : Nat) (e : Int) (p : Int) (hm : m ≠ 0)
    (h : (ieeeTail mbits emin emax n m e p).2 = true) :
    (ieeeTail mbits emin emax n m e p).1 = Num.mk n m e fprec := by
  unfold ieeeTail at h ⊢
  split at h
  · simp at h
  · split at h
    · simp at h
    · rename_i hA hB
      simp only [hA, hB, if_false] at h ⊢
      split at h
      · simp at h
      · rename_i hC
        simp only [hC, if_false]
        simp only [decide_eq_true_eq] at h
        have hp : p.toNat ≠ 0 := by
          intro h0
          have : bitlen m = 0 := by omega
          simp [bitlen, hm] at this
        have hr : roundME m e p.toNat = (m, e) := by
          unfold roundME; simp [hp, h]
        have hA' : ¬ p < 0 := fun h => hA (Or.inl h)
        simp [hr, hA']

/-- a number and its normalised form compare equal -/
theorem cmp_mk_self (n : Bool) (m0 : Nat) (e0 : Int) (pr q : Nat) :
    Num.cmp (Num.mk n (norm m0 e0).1 (norm m0 e0).2 q) (.fin n m0 e0 pr) = 0 := by
  by_cases hm00 : m0 = 0
  · subst hm00
    simp only [norm_zero, Num.mk]
    rw [cmp_fin]; simp [scaleTo, sgnm, icmp]
  obtain ⟨k, hk1, hk2, hk3⟩ := norm_spec m0 e0 hm00
  have hv := mk_isVal n (norm m0 e0).1 (norm m0 e0).2 q
  generalize hy : Num.mk n (norm m0 e0).1 (norm m0 e0).2 q = y at *
  cases y with
  | inf _ => simp [IsVal] at hv
  | fin ny my ey py =>
    rw [cmp_fin]
    simp only [IsVal] at hv
    rcases hv with ⟨h1, h2⟩ | ⟨h1, h2⟩
    · exfalso
      have : ((norm m0 e0).1 : Int) = 0 := by
        cases n
        · simpa using h2
        · simp only [if_true] at h2; omega
      exact hk3 (by exact_mod_cast this)
    · have he : e0 ≤ ey := by omega
      have hmin : min ey e0 = e0 := by omega
      rw [hmin]
      have s1 : scaleTo (sgnm ny my) ey e0 = scaleTo (sgnm ny my) ey (norm m0 e0).2 * 2 ^ ((norm m0 e0).2 - e0).toNat :=
        scaleTo_shift _ _ _ _ h1 (by omega)
      have hval : scaleTo (sgnm ny my) ey (norm m0 e0).2 = sgnm n (norm m0 e0).1 := by
        simpa [scaleTo, sgnm] using h2
      have hk : ((norm m0 e0).2 - e0).toNat = k := by omega
      have hm0' : (m0 : Int) = ((norm m0 e0).1 : Int) * 2 ^ k := by exact_mod_cast hk2
      have : scaleTo (sgnm ny my) ey e0 = scaleTo (sgnm n m0) e0 e0 := by
        rw [s1, hval, hk, scaleTo_self]
        cases n <;> simp [sgnm, hm0', Int.neg_mul]
      simp [icmp, this]

/-- when `Float64()` reports `Exact`, the float64 is the number -/
theorem toF64_exact_cmp (x : Num) (h : (Num.toF64 x).2 = true) : Num.cmp (Num.toF64 x).1 x = 0 := by
  cases x with
  | inf n => simp [Num.toF64, Num.toIEEE, Num.cmp]
  | fin n m0 e0 p =>
    unfold Num.toF64 at h ⊢
    rw [toIEEE_fin] at h ⊢
    by_cases hm : (norm m0 e0).1 = 0
    · simp only [hm, if_true]
      have hm0 : m0 = 0 := by
        by_cases h0 : m0 = 0
        · exact h0
        · obtain ⟨k, _, _, h3⟩ := norm_spec m0 e0 h0
          exact absurd hm h3
      subst hm0
      rw [cmp_fin]; simp [scaleTo, sgnm, icmp]
    · simp only [hm, if_false] at h ⊢
      rw [ieeeTail_exact _ _ _ _ _ _ _ hm h]
      exact cmp_mk_self n m0 e0 p fprec

theorem toF64_prec (x : Num) (hx : x.isInf = false) (h : (Num.toF64 x).2 = true) : (Num.toF64 x).1.prec = fprec := by
  cases x with
  | inf n => simp [Num.isInf] at hx
  | fin n m0 e0 p =>
    unfold Num.toF64 at h ⊢
    rw [toIEEE_fin] at h ⊢
    by_cases hm : (norm m0 e0).1 = 0
    · simp [hm, Num.prec]
    · simp only [hm, if_false] at h ⊢
      rw [ieeeTail_exact _ _ _ _ _ _ _ hm h]
      rfl

/-! ### the decimal-text path: precision of what `ParseNumberVal` returns -/

theorem round_prec (neg : Bool) (m : Nat) (e : Int) (p : Nat) : (Num.round neg m e p).prec = p := rfl

theorem quo512_prec {a b y : Num} (ha : a.prec = 512) (hb : b.prec = 512) (hfa : a.isInf = false)
    (hfb : b.isInf = false) (h : Num.quo a b = .ok y) : y.isInf = true ∨ y.prec = 512 := by
  cases a with
  | inf _ => simp [Num.isInf] at hfa
  | fin na ma ea pa =>
    cases b with
    | inf _ => simp [Num.isInf] at hfb
    | fin nb mb eb pb =>
      simp only [Num.prec] at ha hb
      subst ha hb
      simp only [Num.quo] at h
      split at h
      · split at h
        · simp at h
        · simp only [Res.ok.injEq] at h; subst h; left; rfl
      · split at h
        · simp only [Res.ok.injEq] at h; subst h; right; rfl
        · simp only [Res.ok.injEq] at h; subst h; right; rfl

theorem pow10Rounded_prec (k : Nat) :
    (pow10Rounded k).isInf = true ∨ ((pow10Rounded k).prec = 512 ∧ (pow10Rounded k).isInf = false) := by
  unfold pow10Rounded
  cases pow5 k with
  | fin _ _ _ _ => right; exact ⟨rfl, rfl⟩
  | inf _ => left; rfl

theorem parseUnsigned_prec {neg : Bool} {cs : List Char} {y : Num} (h : parseUnsigned neg cs = .ok y) :
    y.isInf = true ∨ y.prec = 512 := by
  simp only [parseUnsigned] at h
  split at h
  · split at h
    · simp at h
    · simp only [Res.ok.injEq] at h; subst h; right; rfl
  · split at h
    · split at h
      · simp at h
      · split at h
        · simp only [Res.ok.injEq] at h; subst h; right; rfl
        · split at h
          · split at h
            · simp at h
            · rename_i fr _ _ _ _ _ _
              generalize hd : pow10Rounded fr.length = d at h
              have hb := pow10Rounded_prec fr.length
              rw [hd] at hb
              rcases hb with hb | hb
              · -- an infinite divisor: the quotient is a zero of precision 512
                cases d with
                | fin _ _ _ _ => simp [Num.isInf] at hb
                | inf nb => simp only [Num.quo, Res.ok.injEq] at h; subst h; right; rfl
              · exact quo512_prec rfl hb.1 rfl hb.2 h
          · exact quo512_prec rfl rfl rfl rfl h
    · split at h <;> simp at h
  · split at h <;> simp at h

theorem parseNumber_prec {s : String} {y : Num} (h : parseNumber s = .ok y) : y.isInf = true ∨ y.prec = 512 := by
  unfold parseNumber parseChars at h
  split at h
  all_goals
    simp only at h
    split at h
    · simp only [Res.ok.injEq] at h; subst h; left; rfl
    · exact parseUnsigned_prec h

theorem unmarshalNumber_str (s : String) :
    unmarshalNumber (.str s) =
      (match parseNumber s with
       | .ok x => .ok x
       | .err _ => .err "number is required"
       | .panic w => .panic w
       | .unmodelled => .unmodelled) := by
  simp only [unmarshalNumber, decString]
  cases parseNumber s <;> rfl

/-! ### all digits of a whole number: `Text('f', 0)` and back -/

/-- value of a list of decimal digits, most significant first -/
def dval (ds : List Nat) : Nat := ds.foldl (fun a d => a * 10 + d) 0

theorem dval_snoc (ds : List Nat) (d : Nat) : dval (ds ++ [d]) = dval ds * 10 + d := by
  simp [dval, List.foldl_append]

theorem digitsFuel_acc : ∀ (fuel n : Nat) (acc : List Nat),
    digitsFuel fuel n acc = digitsFuel fuel n [] ++ acc
  | 0, _, _ => by simp [digitsFuel]
  | fuel + 1, n, acc => by
    by_cases h : n = 0
    · simp [digitsFuel, h]
    · simp only [digitsFuel, h, if_false]
      rw [digitsFuel_acc fuel (n / 10) (n % 10 :: acc), digitsFuel_acc fuel (n / 10) [n % 10]]
      simp

theorem digitsFuel_succ (fuel n : Nat) (h : n ≠ 0) :
    digitsFuel (fuel + 1) n [] = digitsFuel fuel (n / 10) [] ++ [n % 10] := by
  simp only [digitsFuel, h, if_false]
  exact digitsFuel_acc fuel (n / 10) [n % 10]

theorem digitsFuel_val : ∀ (fuel n : Nat), n < 2 ^ fuel → dval (digitsFuel fuel n []) = n
  | 0, n, h => by
    have : n = 0 := by simpa using h
    subst this; simp [digitsFuel, dval]
  | fuel + 1, n, h => by
    by_cases h0 : n = 0
    · subst h0; simp [digitsFuel, dval]
    · rw [digitsFuel_succ fuel n h0, dval_snoc, digitsFuel_val fuel (n / 10) (by rw [Nat.pow_succ] at h; omega)]
      omega

theorem digitsFuel_lt10 : ∀ (fuel n : Nat), ∀ d ∈ digitsFuel fuel n [], d < 10
  | 0, _, d, h => by simp [digitsFuel] at h
  | fuel + 1, n, d, h => by
    by_cases h0 : n = 0
    · subst h0; simp [digitsFuel] at h
    · rw [digitsFuel_succ fuel n h0] at h
      rcases List.mem_append.mp h with h | h
      · exact digitsFuel_lt10 fuel (n / 10) d h
      · simp only [List.mem_singleton] at h; omega

theorem digits_val (n : Nat) : dval (digits n) = n := by
  unfold digits
  apply digitsFuel_val
  have := Nat.lt_log2_self (n := n)
  rw [Nat.pow_succ]; omega

theorem digits_lt10 (n : Nat) : ∀ d ∈ digits n, d < 10 := digitsFuel_lt10 _ n

theorem digits_ne_nil (n : Nat) (h : n ≠ 0) : digits n ≠ [] := by
  unfold digits
  rw [digitsFuel_succ _ n h]
  simp

theorem takeWhile_all {α} (p : α → Bool) : ∀ (l : List α) (x : α), x ∈ l.takeWhile p → p x = true
  | [], _, h => by simp at h
  | a :: l, x, h => by
    rw [List.takeWhile_cons] at h
    split at h
    · rcases List.mem_cons.mp h with rfl | h
      · assumption
      · exact takeWhile_all p l x h
    · simp at h

/-- trailing zeros cut off and put back -/
theorem trimZeros_pad (ds : List Nat) :
    trimZeros ds ++ List.replicate (ds.length - (trimZeros ds).length) 0 = ds ∧ (trimZeros ds).length ≤ ds.length := by
  unfold trimZeros
  have h1 : ds.reverse = ds.reverse.takeWhile (· == 0) ++ ds.reverse.dropWhile (· == 0) :=
    (List.takeWhile_append_dropWhile).symm
  have h2 : ds = (ds.reverse.dropWhile (· == 0)).reverse ++ (ds.reverse.takeWhile (· == 0)).reverse := by
    calc ds = ds.reverse.reverse := (List.reverse_reverse ds).symm
      _ = (ds.reverse.takeWhile (· == 0) ++ ds.reverse.dropWhile (· == 0)).reverse := by rw [← h1]
      _ = _ := List.reverse_append
  have h3 : ∀ x ∈ ds.reverse.takeWhile (· == 0), x = 0 := by
    intro x hx
    have := takeWhile_all _ _ x hx
    simpa using this
  have h4 : (ds.reverse.takeWhile (· == 0)).reverse = List.replicate (ds.reverse.takeWhile (· == 0)).length 0 := by
    rw [List.eq_replicate_iff]
    refine ⟨by simp, ?_⟩
    intro x hx
    exact h3 x (by simpa using hx)
  have hlen : ds.length = (ds.reverse.dropWhile (· == 0)).length + (ds.reverse.takeWhile (· == 0)).length := by
    have := congrArg List.length h1
    simp only [List.length_reverse, List.length_append] at this
    omega
  constructor
  · conv => rhs; rw [h2, h4]
    congr 2
    simp only [List.length_reverse]
    omega
  · simp only [List.length_reverse]; omega

/-- `Text('f', 0)` of a whole number is the numeral of the integer -/
theorem textF0_whole (n : Bool) (m : Nat) (e : Int) (p : Nat) (hm : m ≠ 0) (he : 0 ≤ e) :
    textF0 (.fin n m e p) =
      (if n then "-" else "") ++ String.ofList ((digits (m * 2 ^ e.toNat)).map digitChar) := by
  have hN : m * 2 ^ e.toNat ≠ 0 := Nat.mul_ne_zero hm (Nat.pos_iff_ne_zero.mp (Nat.two_pow_pos _))
  obtain ⟨hpad, hle⟩ := trimZeros_pad (digits (m * 2 ^ e.toNat))
  have hne := digits_ne_nil _ hN
  have hpos : 0 < (digits (m * 2 ^ e.toNat)).length := List.length_pos_iff.mpr hne
  simp only [textF0, hm, if_false, Dec.ofME, ge_iff_le, he, if_true]
  congr 1
  generalize digits (m * 2 ^ e.toNat) = ds at *
  have hr : (Dec.mk (trimZeros ds) (ds.length : Int)).round (ds.length : Int) = Dec.mk (trimZeros ds) ds.length := by
    unfold Dec.round
    have : ((ds.length : Int) < 0 ∨ (ds.length : Int) ≥ ((trimZeros ds).length : Int)) := Or.inr (by omega)
    simp only []
    rw [if_pos this]
  rw [hr]
  unfold fmtF
  have h1 : ((ds.length : Int) > 0) := by omega
  simp only [h1, if_true, Int.toNat_natCast, Nat.lt_irrefl, if_false, List.append_nil]
  have hmin : min (trimZeros ds).length ds.length = (trimZeros ds).length := by omega
  rw [hmin, List.take_length, hpad]

theorem digitChar_spec : ∀ d, d < 10 → isDigit (digitChar d) = true ∧ (digitChar d).toNat - 48 = d ∧
    digitChar d ≠ '-' ∧ digitChar d ≠ '+' ∧ digitChar d ≠ 'I' ∧ digitChar d ≠ 'i' := by
  decide

theorem digitsVal_digits : ∀ (ds : List Nat) (acc : Nat), (∀ d ∈ ds, d < 10) →
    digitsVal (ds.map digitChar) acc = ds.foldl (fun a d => a * 10 + d) acc
  | [], _, _ => rfl
  | d :: ds, acc, h => by
    have hd := digitChar_spec d (h d (by simp))
    simp only [List.map_cons, digitsVal, List.foldl_cons, hd.2.1]
    exact digitsVal_digits ds _ (fun x hx => h x (by simp [hx]))

theorem takeWhile_digits : ∀ (ds : List Nat), (∀ d ∈ ds, d < 10) →
    (ds.map digitChar).takeWhile isDigit = ds.map digitChar
  | [], _ => rfl
  | d :: ds, h => by
    have hd := digitChar_spec d (h d (by simp))
    simp [hd.1, takeWhile_digits ds (fun x hx => h x (by simp [hx]))]

/-- a non-empty run of decimal digits parses to the integer they denote, rounded to 512 bits -/
theorem parseUnsigned_digits (neg : Bool) (ds : List Nat) (hd : ∀ d ∈ ds, d < 10) (hne : ds ≠ []) :
    parseUnsigned neg (ds.map digitChar) = .ok (Num.round neg (dval ds) 0 512) := by
  unfold parseUnsigned
  simp only [takeWhile_digits ds hd, List.drop_length, List.isEmpty_iff, List.map_eq_nil_iff, hne, if_false]
  rw [digitsVal_digits ds 0 hd]
  rfl

theorem parseChars_digits (neg : Bool) (ds : List Nat) (hd : ∀ d ∈ ds, d < 10) (hne : ds ≠ []) :
    parseChars ((if neg then ['-'] else []) ++ ds.map digitChar) = .ok (Num.round neg (dval ds) 0 512) := by
  cases ds with
  | nil => exact absurd rfl hne
  | cons d ds =>
    have h0 := digitChar_spec d (hd d (by simp))
    have hinf : ¬ ((d :: ds).map digitChar = ['I', 'n', 'f'] ∨ (d :: ds).map digitChar = ['i', 'n', 'f']) := by
      rintro (h | h) <;> simp only [List.map_cons, List.cons.injEq] at h
      · exact h0.2.2.2.2.1 h.1
      · exact h0.2.2.2.2.2 h.1
    cases neg with
    | true =>
      simp only [if_true, List.cons_append, List.nil_append, parseChars, hinf, if_false]
      exact parseUnsigned_digits true (d :: ds) hd hne
    | false =>
      simp only [Bool.false_eq_true, if_false, List.nil_append]
      unfold parseChars
      simp only [List.map_cons]
      split
      · rename_i h; simp only [List.cons.injEq] at h; exact absurd h.1 h0.2.2.1
      · rename_i h; simp only [List.cons.injEq] at h; exact absurd h.1 h0.2.2.2.1
      · have := hinf
        simp only [List.map_cons] at this
        simp only [this, if_false]
        exact parseUnsigned_digits false (d :: ds) hd hne

/-! ### … parsed at 512 bits: exact as long as the mantissa fits -/

theorem toInt?_mk_exp (neg : Bool) (m k : Nat) (p : Nat) :
    (Num.mk neg m (k : Int) p).toInt? =
      some (if neg then -((m * 2 ^ k : Nat) : Int) else ((m * 2 ^ k : Nat) : Int)) := by
  unfold Num.mk
  by_cases hm : m = 0
  · subst hm
    rw [norm_zero]
    simp [toInt?_fin]
  · obtain ⟨j, h1, h2, _⟩ := norm_spec m (k : Int) hm
    rw [toInt?_fin]
    have hk : (norm m (k : Int)).2 ≥ 0 := by rw [h1]; omega
    simp only [hk, if_true]
    have : ((norm m (k : Int)).2).toNat = k + j := by rw [h1]; omega
    rw [this]
    have h3 : ((norm m (k : Int)).1 : Int) * 2 ^ (k + j) = ((m * 2 ^ k : Nat) : Int) := by
      have : (norm m (k : Int)).1 * 2 ^ (k + j) = m * 2 ^ k := by
        rw [Nat.pow_add, ← Nat.mul_assoc, Nat.mul_right_comm, ← h2]
      exact_mod_cast this
    rw [h3]

/-- rounding a whole number `m·2^k` to `p` bits keeps it when `m` fits `p` bits -/
theorem round_whole_toInt? (neg : Bool) (m k p : Nat) (hp : p ≠ 0) (hm : bitlen m ≤ p) :
    (Num.round neg (m * 2 ^ k) 0 p).toInt? =
      some (if neg then -((m * 2 ^ k : Nat) : Int) else ((m * 2 ^ k : Nat) : Int)) := by
  unfold Num.round roundME
  simp only [hp, if_false]
  by_cases hb : bitlen (m * 2 ^ k) ≤ p
  · simp only [hb, if_true]
    have := toInt?_mk_exp neg (m * 2 ^ k) 0 p
    simpa using this
  · simp only [hb, if_false]
    generalize hkk : bitlen (m * 2 ^ k) - p = kk
    have hkk0 : 0 < kk := by omega
    have hle : kk ≤ k := by
      apply Classical.byContradiction
      intro hgt
      have h1 : ¬ bitlen (m * 2 ^ k) ≤ p + k := by omega
      rw [bitlen_le_iff] at h1 hm
      apply h1
      rw [Nat.pow_add]
      exact Nat.mul_lt_mul_of_lt_of_le hm (Nat.le_refl _) (Nat.two_pow_pos _)
    have hsplit : m * 2 ^ k = m * 2 ^ (k - kk) * 2 ^ kk := by
      rw [Nat.mul_assoc, ← Nat.pow_add]; congr 2; omega
    have hmod : m * 2 ^ k % 2 ^ kk = 0 := by rw [hsplit]; exact Nat.mul_mod_left _ _
    have hdiv : (m * 2 ^ k) >>> kk = m * 2 ^ (k - kk) := by
      rw [Nat.shiftRight_eq_div_pow]
      exact Nat.div_eq_of_eq_mul_left (Nat.two_pow_pos _) hsplit
    have hhalf : 0 < 2 ^ (kk - 1) := Nat.two_pow_pos _
    have hc : ¬ (m * 2 ^ k % 2 ^ kk > 2 ^ (kk - 1) ∨
        (m * 2 ^ k % 2 ^ kk = 2 ^ (kk - 1) ∧ m * 2 ^ (k - kk) % 2 = 1)) := by
      rw [hmod]; omega
    simp only [hdiv, hc, if_false, Int.zero_add]
    rw [toInt?_mk_exp, ← hsplit]

/-- what the decoder makes of all the digits of a whole number: the same integer, at 512 bits -/
theorem unmarshalNumber_textF0 (n : Bool) (m : Nat) (e : Int) (p : Nat) (hm : m ≠ 0) (he : 0 ≤ e)
    (hfit : bitlen m ≤ 512) :
    ∃ y, unmarshalNumber (.str (textF0 (.fin n m e p))) = .ok y ∧
      y.toInt? = (Num.fin n m e p).toInt? ∧ y.prec = 512 := by
  have hN : m * 2 ^ e.toNat ≠ 0 := Nat.mul_ne_zero hm (Nat.pos_iff_ne_zero.mp (Nat.two_pow_pos _))
  have hparse : parseNumber (textF0 (.fin n m e p)) = .ok (Num.round n (m * 2 ^ e.toNat) 0 512) := by
    rw [textF0_whole n m e p hm he]
    unfold parseNumber
    have := parseChars_digits n (digits (m * 2 ^ e.toNat)) (digits_lt10 _) (digits_ne_nil _ hN)
    rw [digits_val] at this
    rw [← this]
    cases n <;> simp
  refine ⟨Num.round n (m * 2 ^ e.toNat) 0 512, ?_, ?_, rfl⟩
  · rw [unmarshalNumber_str, hparse]
  · rw [round_whole_toInt? n m e.toNat 512 (by decide) hfit, toInt?_fin]
    have : e ≥ 0 := he
    simp only [this, if_true]
    cases n <;> simp

/-! ### every encoding decodes to an acceptable number -/

theorem isInt_of_toInt? {x : Num} {i : Int} (h : x.toInt? = some i) : x.isInt = true := by
  simp only [Num.toInt?] at h
  by_cases hh : x.isInt = true
  · exact hh
  · simp [hh] at h

theorem isInt_of_toInt?_none {n : Bool} {m : Nat} {e : Int} {p : Nat} (h : (Num.fin n m e p).toInt? = none) :
    (Num.fin n m e p).isInt = false := by
  simp only [Num.toInt?, Num.truncInt] at h
  by_cases hh : (Num.fin n m e p).isInt = true
  · simp [hh] at h
  · simpa using hh

/-- a whole number beyond int64 whose mantissa fits 512 bits: all of its digits are written
and parsed back to numerically the same number, at 512 bits -/
theorem whole_out_back {n : Bool} {m : Nat} {e : Int} {p : Nat} {i : Int}
    (hi : (Num.fin n m e p).toInt? = some i) (hr : ¬ (minI64 ≤ i ∧ i ≤ maxI64))
    (hfit : wholeFits (.fin n m e p) = true) :
    ∃ y, unmarshalNumber (encNum (.fin n m e p)) = .ok y ∧ y.toInt? = some i ∧
      Num.cmp y (.fin n m e p) = 0 ∧ y.prec = 512 := by
  have hint := isInt_of_toInt? hi
  have he : 0 ≤ e := by simpa [Num.isInt] using hint
  have hm : m ≠ 0 := by
    intro h0
    subst h0
    rw [toInt?_fin] at hi
    have : e ≥ 0 := he
    simp only [this, if_true] at hi
    have : i = 0 := by cases n <;> simp at hi <;> omega
    subst this
    exact hr (by decide)
  have hb : bitlen m ≤ 512 := by
    simp only [wholeFits, Num.minPrec] at hfit
    exact of_decide_eq_true hfit
  obtain ⟨y, hy, hyi, hyp⟩ := unmarshalNumber_textF0 n m e p hm he hb
  refine ⟨y, ?_, hyi.trans hi, cmp_of_toInt? hi (hyi.trans hi), hyp⟩
  simp only [encNum, route_of_toInt?_out hi hr]
  exact hy

/-- a known number: what comes back is acceptable -/
theorem encNum_back (x : Num) (h : numFits x = true) :
    ∃ y, unmarshalNumber (encNum x) = .ok y ∧ numBack y x := by
  unfold numFits at h
  cases x with
  | inf n =>
    refine ⟨.inf n, by simp [encNum, route, unmarshalNumber], ?_⟩
    simp [numBack, wholeOrF64, Num.cmp]
  | fin n m e p =>
    cases hi : (Num.fin n m e p).toInt? with
    | some i =>
      have hint : (Num.fin n m e p).isInt = true := isInt_of_toInt? hi
      have hw : wholeOrF64 (.fin n m e p) = true := by simp [wholeOrF64, hint]
      by_cases hr : minI64 ≤ i ∧ i ≤ maxI64
      · simp only [encNum, route_of_toInt? hi hr]
        obtain ⟨y, hy1, hy2, _⟩ := unmarshalNumber_encInt i
        exact ⟨y, hy1, by simp [numBack, hw, cmp_of_toInt? hi hy2]⟩
      · rw [route_of_toInt?_out hi hr] at h
        simp only [hint, if_true] at h
        obtain ⟨y, hy, _, hc, _⟩ := whole_out_back hi hr h
        exact ⟨y, hy, by simp [numBack, hw, hc]⟩
    | none =>
      have hint : (Num.fin n m e p).isInt = false := isInt_of_toInt?_none hi
      unfold encNum
      by_cases hf : (Num.toF64 (.fin n m e p)).2 = true
      · have hroute : route (.fin n m e p) = .f64 (Num.toF64 (.fin n m e p)).1 := by
          simp [route, hi, hf]
        rw [hroute]
        refine ⟨(Num.toF64 (.fin n m e p)).1, by simp [unmarshalNumber], ?_⟩
        have hw : wholeOrF64 (.fin n m e p) = true := by simp [wholeOrF64, hf]
        simp [numBack, hw, toF64_exact_cmp _ hf]
      · have hroute : route (.fin n m e p) = .str (Num.textF (.fin n m e p)) := by
          simp [route, hi, hf]
        rw [hroute] at h ⊢
        simp only [textBack, hint, Bool.false_eq_true, if_false] at h
        rw [unmarshalNumber_str]
        have hw : wholeOrF64 (.fin n m e p) = false := by simp [wholeOrF64, hint, hf]
        cases hp : parseNumber (Num.textF (.fin n m e p)) with
        | ok y =>
          simp only [hp] at h
          exact ⟨y, rfl, by simpa [numBack, hw] using h⟩
        | _ => simp [hp] at h

/-- a numeric bound: what comes back is numerically the same number, at the
precision `decPrec` predicts (or infinite) -/
theorem encNum_exact (b : Bound) (h : boundFits (some b) = true) :
    ∃ y, unmarshalNumber (encNum b.v) = .ok y ∧ Num.cmp y b.v = 0 ∧ (y.isInf = true ∨ y.prec = decPrec b.v) := by
  unfold boundFits at h
  simp only at h
  unfold decPrec
  generalize b.v = x at *
  cases x with
  | inf n =>
    exact ⟨.inf n, by simp [encNum, route, unmarshalNumber], by simp [Num.cmp], Or.inl rfl⟩
  | fin n m e p =>
    cases hi : (Num.fin n m e p).toInt? with
    | some i =>
      have hint : (Num.fin n m e p).isInt = true := isInt_of_toInt? hi
      by_cases hr : minI64 ≤ i ∧ i ≤ maxI64
      · simp only [encNum, route_of_toInt? hi hr]
        obtain ⟨y, hy1, hy2, hy3⟩ := unmarshalNumber_encInt i
        exact ⟨y, hy1, cmp_of_toInt? hi hy2, Or.inr hy3⟩
      · rw [route_of_toInt?_out hi hr] at h ⊢
        simp only [hint, if_true] at h
        obtain ⟨y, hy, _, hc, hp⟩ := whole_out_back hi hr h
        exact ⟨y, hy, hc, Or.inr hp⟩
    | none =>
      have hint : (Num.fin n m e p).isInt = false := isInt_of_toInt?_none hi
      unfold encNum
      by_cases hf : (Num.toF64 (.fin n m e p)).2 = true
      · have hroute : route (.fin n m e p) = .f64 (Num.toF64 (.fin n m e p)).1 := by
          simp [route, hi, hf]
        rw [hroute]
        exact ⟨(Num.toF64 (.fin n m e p)).1, by simp [unmarshalNumber], toF64_exact_cmp _ hf, Or.inr (toF64_prec _ rfl hf)⟩
      · have hroute : route (.fin n m e p) = .str (Num.textF (.fin n m e p)) := by
          simp [route, hi, hf]
        rw [hroute] at h ⊢
        simp only [textExact, hint, Bool.false_eq_true, if_false] at h
        rw [unmarshalNumber_str]
        cases hp : parseNumber (Num.textF (.fin n m e p)) with
        | ok y =>
          simp only [hp, beq_iff_eq] at h
          exact ⟨y, rfl, h, parseNumber_prec hp⟩
        | _ => simp [hp] at h

end Msgpack
end CtyModel
