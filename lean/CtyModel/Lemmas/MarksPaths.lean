/-
`UnmarkDeepWithPaths` followed by `MarkWithPaths` restores the value
(`CtyModel/MarksOps.lean`: `unmarkPaths` / `markPaths`, the two transformers of
cty/marks.go run through `transform` of cty/walk.go).

The four member loops of each function (list, tuple, map, object) are instances
of one generic loop over a list of `(member type, path step)` labels
(`kidsU` / `kidsM`); the facts about paths are proved once for it.
-/
import CtyModel.Lemmas.MarksApi
namespace CtyModel
namespace Value


/-! ### the member loops as one generic loop -/

def kidsU (path : Path) : List (Ty × Step) → List Payload → List Payload × List PVM
  | l :: ls, v :: vs =>
    let q := unmarkPaths l.1 (path ++ [l.2]) v
    let r := kidsU path ls vs
    (q.1 :: r.1, q.2 ++ r.2)
  | _, vs => (vs, [])

def kidsM (pvm : List PVM) (path : Path) : List (Ty × Step) → List Payload → Res (List Payload)
  | l :: ls, v :: vs =>
    match markPaths pvm l.1 (path ++ [l.2]) v with
    | .ok q => (kidsM pvm path ls vs).map (q :: ·)
    | .err c => .err c
    | .panic w => .panic w
    | .unmodelled => .unmodelled
  | _, vs => .ok vs

def allLabels (e : Ty) : Nat → Nat → List (Ty × Step)
  | _, 0 => []
  | i, n + 1 => (e, .idx i) :: allLabels e (i + 1) n

def zipLabels : List Ty → Nat → Nat → List (Ty × Step)
  | _, _, 0 => []
  | es, i, n + 1 => (es.headD .dyn, .idx i) :: zipLabels es.tail (i + 1) n

def mapLabels (e : Ty) (ks : List String) : List (Ty × Step) := ks.map fun k => (e, .key k)

def objLabels : List Ty → List String → List (Ty × Step)
  | _, [] => []
  | ts, k :: ks => (ts.headD .dyn, .attr k) :: objLabels ts.tail ks

theorem unmarkPathsAll_eq (e : Ty) (path : Path) : ∀ (vs : List Payload) (i : Nat),
    unmarkPathsAll e path i vs = kidsU path (allLabels e i vs.length) vs
  | [], _ => by simp [unmarkPathsAll, kidsU, allLabels]
  | v :: vs, i => by simp [unmarkPathsAll, kidsU, allLabels, unmarkPathsAll_eq e path vs (i + 1)]

theorem unmarkPathsZip_eq (path : Path) : ∀ (vs : List Payload) (es : List Ty) (i : Nat),
    unmarkPathsZip es path i vs = kidsU path (zipLabels es i vs.length) vs
  | [], _, _ => by simp [unmarkPathsZip, kidsU, zipLabels]
  | v :: vs, es, i => by simp [unmarkPathsZip, kidsU, zipLabels, unmarkPathsZip_eq path vs es.tail (i + 1)]

theorem unmarkPathsMap_eq (e : Ty) (path : Path) : ∀ (ks : List String) (vs : List Payload),
    unmarkPathsMap e path ks vs = kidsU path (mapLabels e ks) vs
  | [], vs => by simp [unmarkPathsMap, kidsU, mapLabels]
  | k :: ks, [] => by simp [unmarkPathsMap, kidsU, mapLabels]
  | k :: ks, v :: vs => by
    have := unmarkPathsMap_eq e path ks vs
    simp only [mapLabels] at this
    simp [unmarkPathsMap, kidsU, mapLabels, this]

theorem unmarkPathsObj_eq (path : Path) : ∀ (ks : List String) (ts : List Ty) (vs : List Payload),
    unmarkPathsObj ts path ks vs = kidsU path (objLabels ts ks) vs
  | [], _, vs => by simp [unmarkPathsObj, kidsU, objLabels]
  | k :: ks, _, [] => by simp [unmarkPathsObj, kidsU, objLabels]
  | k :: ks, ts, v :: vs => by simp [unmarkPathsObj, kidsU, objLabels, unmarkPathsObj_eq path ks ts.tail vs]

theorem markPathsAll_eq (pvm : List PVM) (e : Ty) (path : Path) : ∀ (vs : List Payload) (i : Nat),
    markPathsAll pvm e path i vs = kidsM pvm path (allLabels e i vs.length) vs
  | [], _ => by simp [markPathsAll, kidsM, allLabels]
  | v :: vs, i => by simp [markPathsAll, kidsM, allLabels, markPathsAll_eq pvm e path vs (i + 1)] <;> rfl

theorem markPathsZip_eq (pvm : List PVM) (path : Path) : ∀ (vs : List Payload) (es : List Ty) (i : Nat),
    markPathsZip pvm es path i vs = kidsM pvm path (zipLabels es i vs.length) vs
  | [], _, _ => by simp [markPathsZip, kidsM, zipLabels]
  | v :: vs, es, i => by simp [markPathsZip, kidsM, zipLabels, markPathsZip_eq pvm path vs es.tail (i + 1)] <;> rfl

theorem markPathsMap_eq (pvm : List PVM) (e : Ty) (path : Path) : ∀ (ks : List String) (vs : List Payload),
    markPathsMap pvm e path ks vs = kidsM pvm path (mapLabels e ks) vs
  | [], vs => by simp [markPathsMap, kidsM, mapLabels]
  | k :: ks, [] => by simp [markPathsMap, kidsM, mapLabels]
  | k :: ks, v :: vs => by
    have := markPathsMap_eq pvm e path ks vs
    simp only [mapLabels] at this
    simp [markPathsMap, kidsM, mapLabels, this] <;> rfl

theorem markPathsObj_eq (pvm : List PVM) (path : Path) : ∀ (ks : List String) (ts : List Ty) (vs : List Payload),
    markPathsObj pvm ts path ks vs = kidsM pvm path (objLabels ts ks) vs
  | [], _, vs => by simp [markPathsObj, kidsM, objLabels]
  | k :: ks, _, [] => by simp [markPathsObj, kidsM, objLabels]
  | k :: ks, ts, v :: vs => by simp [markPathsObj, kidsM, objLabels, markPathsObj_eq pvm path ks ts.tail vs] <;> rfl

/-! the steps of each label list are pairwise distinct -/

theorem allLabels_steps (e : Ty) : ∀ (n i : Nat), (allLabels e i n).map (·.2) = (List.range' i n).map Step.idx
  | 0, _ => rfl
  | n + 1, i => by simp [allLabels, List.range'_succ, allLabels_steps e n (i + 1)]

theorem zipLabels_steps : ∀ (n : Nat) (es : List Ty) (i : Nat),
    (zipLabels es i n).map (·.2) = (List.range' i n).map Step.idx
  | 0, _, _ => rfl
  | n + 1, es, i => by simp [zipLabels, List.range'_succ, zipLabels_steps n es.tail (i + 1)]

theorem objLabels_steps : ∀ (ks : List String) (ts : List Ty), (objLabels ts ks).map (·.2) = ks.map Step.attr
  | [], _ => rfl
  | k :: ks, ts => by simp [objLabels, objLabels_steps ks ts.tail]

theorem nodup_map_inj {α β} {f : α → β} (hf : ∀ a b, f a = f b → a = b) :
    ∀ {l : List α}, l.Nodup → (l.map f).Nodup
  | [], _ => List.nodup_nil
  | a :: l, h => by
    have h' := List.nodup_cons.mp h
    simp only [List.map_cons, List.nodup_cons, List.mem_map, not_exists, not_and]
    exact ⟨fun x hx he => h'.1 (hf _ _ he ▸ hx), nodup_map_inj hf h'.2⟩

theorem idx_steps_nodup (i n : Nat) : ((List.range' i n).map Step.idx).Nodup :=
  nodup_map_inj (fun _ _ h => by injection h) List.nodup_range'

theorem allLabels_nodup (e : Ty) (i n : Nat) : ((allLabels e i n).map (·.2)).Nodup := by
  rw [allLabels_steps]; exact idx_steps_nodup i n
theorem zipLabels_nodup (es : List Ty) (i n : Nat) : ((zipLabels es i n).map (·.2)).Nodup := by
  rw [zipLabels_steps]; exact idx_steps_nodup i n
theorem mapLabels_nodup (e : Ty) {ks : List String} (h : ks.Nodup) : ((mapLabels e ks).map (·.2)).Nodup := by
  simp only [mapLabels, List.map_map]
  exact nodup_map_inj (fun _ _ h => by simpa using h) h
theorem objLabels_nodup (ts : List Ty) {ks : List String} (h : ks.Nodup) : ((objLabels ts ks).map (·.2)).Nodup := by
  rw [objLabels_steps]
  exact nodup_map_inj (fun _ _ h => by injection h) h

/-! ### prefixes -/

/-- the record lies in the subtree at `path` -/
def pre (path : Path) (e : PVM) : Bool := path.isPrefixOf e.path
/-- the record lies strictly below `path` -/
def spre (path : Path) (e : PVM) : Bool := path.length < e.path.length && path.isPrefixOf e.path

theorem pre_iff {path : Path} {e : PVM} : pre path e = true ↔ path <+: e.path := List.isPrefixOf_iff_prefix
theorem spre_iff {path : Path} {e : PVM} : spre path e = true ↔ path.length < e.path.length ∧ path <+: e.path := by
  simp [spre, List.isPrefixOf_iff_prefix]

theorem reachesBelow_eq (pvm : List PVM) (path : Path) : reachesBelow pvm path = pvm.any (spre path) := rfl

theorem prefix_snoc {path l : Path} {s : Step} (h : (path ++ [s]) <+: l) : path.length < l.length ∧ path <+: l := by
  obtain ⟨t, rfl⟩ := h
  refine ⟨by simp, ⟨s :: t, by simp⟩⟩

theorem step_inj {path l : Path} {s s' : Step} (h : (path ++ [s]) <+: l) (h' : (path ++ [s']) <+: l) : s = s' := by
  obtain ⟨t, rfl⟩ := h
  obtain ⟨t', ht'⟩ := h'
  simp only [List.append_assoc, List.append_cancel_left_eq, List.cons_append, List.nil_append, List.cons.injEq] at ht'
  exact ht'.1.symm

theorem spre_of_pre_snoc {path : Path} {s : Step} {e : PVM} (h : pre (path ++ [s]) e = true) : spre path e = true :=
  spre_iff.mpr (prefix_snoc (pre_iff.mp h))

theorem pre_of_spre {path : Path} {e : PVM} (h : spre path e = true) : pre path e = true :=
  pre_iff.mpr (spre_iff.mp h).2

theorem depth_le_of_mem {v : Payload} : ∀ {vs : List Payload}, v ∈ vs → v.depth ≤ Payload.depthL vs
  | [], h => by simp at h
  | w :: ws, h => by
    simp only [Payload.depthL]
    rcases List.mem_cons.mp h with rfl | h
    · omega
    · have := depth_le_of_mem h; omega

/-- every record made below `path` has `path` as a prefix of its own path -/
def PFact (p : Payload) : Prop := ∀ (t : Ty) (path : Path), ∀ e ∈ (unmarkPaths t path p).2, path <+: e.path

theorem kidsU_prefix (path : Path) : ∀ (ls : List (Ty × Step)) (vs : List Payload), (∀ v ∈ vs, PFact v) →
    ∀ x ∈ (kidsU path ls vs).2, ∃ l ∈ ls, (path ++ [l.2]) <+: x.path
  | [], _, _, x, hx => by simp [kidsU] at hx
  | _ :: _, [], _, x, hx => by simp [kidsU] at hx
  | l :: ls, v :: vs, hP, x, hx => by
    simp only [kidsU, List.mem_append] at hx
    rcases hx with hx | hx
    · exact ⟨l, by simp, hP v (by simp) l.1 _ x hx⟩
    · obtain ⟨l', hl', h⟩ := kidsU_prefix path ls vs (fun w hw => hP w (by simp [hw])) x hx
      exact ⟨l', by simp [hl'], h⟩

theorem kidsU_prefix' {path : Path} {ls : List (Ty × Step)} {vs : List Payload} (hP : ∀ v ∈ vs, PFact v)
    {x : PVM} (hx : x ∈ (kidsU path ls vs).2) : path <+: x.path := by
  obtain ⟨l, _, h⟩ := kidsU_prefix path ls vs hP x hx
  exact (prefix_snoc h).2

theorem pfact_of_depth : ∀ (n : Nat) (p : Payload), p.depth ≤ n → PFact p
  | 0, p, h => by cases p <;> simp [Payload.depth] at h
  | n + 1, p, h => by
    intro t path e he
    cases p with
    | marked ms r =>
      simp only [unmarkPaths, List.mem_append] at he
      rcases he with he | he
      · split at he
        · simp at he; subst he; exact List.prefix_refl _
        · simp at he
      · exact pfact_of_depth n r (by simp [Payload.depth] at h; omega) t path e he
    | seq vs =>
      have hP : ∀ v ∈ vs, PFact v := fun v hv =>
        pfact_of_depth n v (by have := depth_le_of_mem hv; simp [Payload.depth] at h; omega)
      simp only [unmarkPaths] at he
      split at he
      · simp only [unmarkPathsZip_eq] at he; exact kidsU_prefix' hP he
      · simp only [unmarkPathsAll_eq] at he; exact kidsU_prefix' hP he
    | smap ks vs =>
      have hP : ∀ v ∈ vs, PFact v := fun v hv =>
        pfact_of_depth n v (by have := depth_le_of_mem hv; simp [Payload.depth] at h; omega)
      simp only [unmarkPaths] at he
      split at he
      · simp only [unmarkPathsObj_eq] at he; exact kidsU_prefix' hP he
      · simp only [unmarkPathsMap_eq] at he; exact kidsU_prefix' hP he
    | _ => simp [unmarkPaths] at he

theorem pfact (p : Payload) : PFact p := pfact_of_depth p.depth p (Nat.le_refl _)

/-! ### list facts -/

theorem filter_filter_imp {α} {f g : α → Bool} (h : ∀ a, g a = true → f a = true) :
    ∀ (l : List α), (l.filter f).filter g = l.filter g
  | [] => rfl
  | a :: l => by
    by_cases hf : f a = true
    · by_cases hg : g a = true <;> simp [hf, hg, filter_filter_imp h l]
    · have hg : g a = false := by
        cases hga : g a with
        | false => rfl
        | true => exact absurd (h a hga) hf
      simp [hf, hg, filter_filter_imp h l]

theorem find?_filter_imp {α} {f g : α → Bool} (h : ∀ a, g a = true → f a = true) :
    ∀ (l : List α), (l.filter f).find? g = l.find? g
  | [] => rfl
  | a :: l => by
    by_cases hf : f a = true
    · by_cases hg : g a = true <;> simp [hf, hg, find?_filter_imp h l]
    · have hg : g a = false := by
        cases hga : g a with
        | false => rfl
        | true => exact absurd (h a hga) hf
      simp [hf, hg, find?_filter_imp h l]

theorem any_false_of_filter_nil {α} {f : α → Bool} : ∀ {l : List α}, l.filter f = [] → l.any f = false
  | [], _ => rfl
  | a :: l, h => by
    by_cases hf : f a = true
    · simp [hf] at h
    · simp only [List.filter_cons, hf] at h
      simp [hf, any_false_of_filter_nil h]

/-! ### the records of one member, cut out of the records of all members -/

theorem kidsU_filter (path : Path) : ∀ (ls : List (Ty × Step)) (vs : List Payload), (ls.map (·.2)).Nodup →
    ∀ (j : Nat) (l : Ty × Step) (v : Payload), ls[j]? = some l → vs[j]? = some v →
      ((kidsU path ls vs).2).filter (pre (path ++ [l.2])) = (unmarkPaths l.1 (path ++ [l.2]) v).2
  | [], _, _, j, l, v, hl, _ => by simp at hl
  | _ :: _, [], _, j, l, v, _, hv => by simp at hv
  | l0 :: ls, v0 :: vs, hnd, j, l, v, hl, hv => by
    have hnd' := List.nodup_cons.mp (by simpa using hnd : (l0.2 :: ls.map (·.2)).Nodup)
    simp only [kidsU, List.filter_append]
    cases j with
    | zero =>
      simp only [List.getElem?_cons_zero, Option.some.injEq] at hl hv
      subst hl hv
      have h1 : ((unmarkPaths l0.1 (path ++ [l0.2]) v0).2).filter (pre (path ++ [l0.2])) =
          (unmarkPaths l0.1 (path ++ [l0.2]) v0).2 :=
        List.filter_eq_self.mpr fun e he => pre_iff.mpr (pfact v0 _ _ e he)
      have h2 : ((kidsU path ls vs).2).filter (pre (path ++ [l0.2])) = [] :=
        List.filter_eq_nil_iff.mpr fun e he hp => by
          obtain ⟨l', hl', hpre⟩ := kidsU_prefix path ls vs (fun w _ => pfact w) e he
          have := step_inj hpre (pre_iff.mp hp)
          exact hnd'.1 (this ▸ List.mem_map.mpr ⟨l', hl', rfl⟩)
      rw [h1, h2, List.append_nil]
    | succ j =>
      simp only [List.getElem?_cons_succ] at hl hv
      have hmem : l.2 ∈ ls.map (·.2) := List.mem_map.mpr ⟨l, List.mem_of_getElem? hl, rfl⟩
      have h1 : ((unmarkPaths l0.1 (path ++ [l0.2]) v0).2).filter (pre (path ++ [l.2])) = [] :=
        List.filter_eq_nil_iff.mpr fun e he hp => by
          have := step_inj (pfact v0 _ _ e he) (pre_iff.mp hp)
          exact hnd'.1 (this ▸ hmem)
      rw [h1, List.nil_append]
      exact kidsU_filter path ls vs hnd'.2 j l v hl hv

/-! ### the round trip -/

mutual
/-- what the round trip needs of a value: canonical non-empty mark sets, never a
marker directly inside a marker, no mark inside a set, distinct map keys /
attribute names — all of which every value built through the API has -/
def RTwf : Payload → Prop
  | .marked ms r => ms ≠ [] ∧ MSorted ms ∧ r.isMarked = false ∧ RTwf r
  | .seq vs => RTwfL vs
  | .smap ks vs => ks.Nodup ∧ RTwfL vs
  | .sset _ vs => Payload.containsMarkedL vs = false
  | _ => True
def RTwfL : List Payload → Prop
  | [] => True
  | v :: vs => RTwf v ∧ RTwfL vs
end

theorem RTwfL_mem : ∀ {vs : List Payload}, RTwfL vs → ∀ v ∈ vs, RTwf v
  | [], _, v, hv => by simp at hv
  | w :: ws, h, v, hv => by
    simp only [RTwfL] at h
    rcases List.mem_cons.mp hv with rfl | hv
    · exact h.1
    · exact RTwfL_mem h.2 v hv

/-- the statement for a whole subtree: its records, cut out of `pvm`, put its marks back -/
def GFact (p : Payload) : Prop := ∀ (t : Ty) (path : Path) (pvm : List PVM), RTwf p →
  pvm.filter (pre path) = (unmarkPaths t path p).2 → markPaths pvm t path (unmarkPaths t path p).1 = .ok p

/-- the statement for the part below an unmarked node, `Exit` at the node left open -/
def BFact (p : Payload) : Prop := p.isMarked = false → ∀ (t : Ty) (path : Path) (pvm : List PVM), RTwf p →
  pvm.filter (spre path) = (unmarkPaths t path p).2 →
    markPaths pvm t path (unmarkPaths t path p).1 = .ok (exitMark pvm path p)

theorem kidsM_roundtrip (pvm : List PVM) (path : Path) : ∀ (ls : List (Ty × Step)) (vs : List Payload),
    (∀ v ∈ vs, GFact v) → RTwfL vs →
    (∀ (j : Nat) (l : Ty × Step) (v : Payload), ls[j]? = some l → vs[j]? = some v →
      pvm.filter (pre (path ++ [l.2])) = (unmarkPaths l.1 (path ++ [l.2]) v).2) →
    kidsM pvm path ls (kidsU path ls vs).1 = .ok vs
  | [], vs, _, _, _ => by simp [kidsU, kidsM]
  | _ :: _, [], _, _, _ => by simp [kidsU, kidsM]
  | l :: ls, v :: vs, hG, hwf, hH => by
    simp only [RTwfL] at hwf
    have h0 := hG v (by simp) l.1 (path ++ [l.2]) pvm hwf.1 (hH 0 l v rfl rfl)
    have ih := kidsM_roundtrip pvm path ls vs (fun w hw => hG w (by simp [hw])) hwf.2
      (fun j l' v' hl hv => hH (j + 1) l' v' (by simpa using hl) (by simpa using hv))
    simp only [kidsU, kidsM, h0, ih, Res.map]

/-- all records made below an unmarked node lie strictly below it -/
theorem spre_of_unmarked {p : Payload} (hp : p.isMarked = false) (t : Ty) (path : Path) :
    ∀ e ∈ (unmarkPaths t path p).2, spre path e = true := by
  intro e he
  have key : ∀ {ls vs}, e ∈ (kidsU path ls vs).2 → spre path e = true := fun h => by
    obtain ⟨l, _, hl⟩ := kidsU_prefix path _ _ (fun w _ => pfact w) e h
    exact spre_iff.mpr (prefix_snoc hl)
  cases p with
  | marked ms r => simp [Payload.isMarked] at hp
  | seq vs =>
    simp only [unmarkPaths] at he
    split at he
    · simp only [unmarkPathsZip_eq] at he; exact key he
    · simp only [unmarkPathsAll_eq] at he; exact key he
  | smap ks vs =>
    simp only [unmarkPaths] at he
    split at he
    · simp only [unmarkPathsObj_eq] at he; exact key he
    · simp only [unmarkPathsMap_eq] at he; exact key he
  | _ => simp [unmarkPaths] at he

theorem exitMark_none {pvm : List PVM} {path : Path} (h : pvm.find? (fun e => e.path == path) = none) (p : Payload) :
    exitMark pvm path p = p := by
  simp [exitMark, firstMarksAt, h]

theorem not_spre_self (path : Path) (ms : List String) : spre path ⟨path, ms⟩ = false := by
  simp [spre]

theorem pre_of_eq {path : Path} (e : PVM) (h : (e.path == path) = true) : pre path e = true := by
  have : e.path = path := by simpa using h
  rw [pre_iff, this]
  exact List.prefix_refl _

theorem not_eq_of_spre {path : Path} {e : PVM} (h : spre path e = true) : (e.path == path) = false := by
  have := (spre_iff.mp h).1
  cases hb : (e.path == path) with
  | false => rfl
  | true =>
    have he : e.path = path := by simpa using hb
    rw [he] at this; omega

/-- a whole subtree from the part below its top node -/
theorem gfact_of_bfact {p : Payload} (hB : ∀ r, r.depth ≤ p.depth → BFact r) : GFact p := by
  intro t path pvm hwf hpvm
  have hfind : pvm.find? (fun e => e.path == path) = (pvm.filter (pre path)).find? (fun e => e.path == path) :=
    (find?_filter_imp (fun e h => pre_of_eq e h) pvm).symm
  have hsfilter : pvm.filter (spre path) = (pvm.filter (pre path)).filter (spre path) :=
    (filter_filter_imp (fun e h => pre_of_spre h) pvm).symm
  cases p with
  | marked ms r =>
    simp only [RTwf] at hwf
    obtain ⟨hne, hsort, hr, hwfr⟩ := hwf
    have hl : ms.length > 0 := List.length_pos_iff.mpr hne
    simp only [unmarkPaths, hl, if_true, List.singleton_append] at hpvm ⊢
    have hall : ((unmarkPaths t path r).2).filter (spre path) = (unmarkPaths t path r).2 :=
      List.filter_eq_self.mpr (spre_of_unmarked hr t path)
    have hs : pvm.filter (spre path) = (unmarkPaths t path r).2 := by
      rw [hsfilter, hpvm, List.filter_cons, not_spre_self, hall]; simp
    have hb := hB r (by simp [Payload.depth]) hr t path pvm hwfr hs
    rw [hb]
    have hf : firstMarksAt pvm path = some ms := by
      simp [firstMarksAt, hfind, hpvm]
    have hru : r.unmark1 = r := Payload.unmark1_eq_of_not_marked hr
    have hrm : r.marks1 = [] := Payload.marks1_eq_nil_of_not_marked hr
    have e : unionMarks [] ms = ms := rfl
    simp only [exitMark, hf, Payload.withMarks_def, hrm, e, hru]
    simp [hne]
  | seq vs =>
    have hp : (Payload.seq vs).isMarked = false := rfl
    have hall := List.filter_eq_self.mpr (spre_of_unmarked hp t path)
    have hs : pvm.filter (spre path) = (unmarkPaths t path (.seq vs)).2 := by rw [hsfilter, hpvm, hall]
    rw [hB _ (Nat.le_refl _) hp t path pvm hwf hs, exitMark_none]
    rw [hfind, hpvm]
    exact List.find?_eq_none.mpr fun e he => by simp [not_eq_of_spre (spre_of_unmarked hp t path e he)]
  | smap ks vs =>
    have hp : (Payload.smap ks vs).isMarked = false := rfl
    have hall := List.filter_eq_self.mpr (spre_of_unmarked hp t path)
    have hs : pvm.filter (spre path) = (unmarkPaths t path (.smap ks vs)).2 := by rw [hsfilter, hpvm, hall]
    rw [hB _ (Nat.le_refl _) hp t path pvm hwf hs, exitMark_none]
    rw [hfind, hpvm]
    exact List.find?_eq_none.mpr fun e he => by simp [not_eq_of_spre (spre_of_unmarked hp t path e he)]
  | sset ids vs =>
    have hp : (Payload.sset ids vs).isMarked = false := rfl
    have hs : pvm.filter (spre path) = (unmarkPaths t path (.sset ids vs)).2 := by
      rw [hsfilter, hpvm]; simp [unmarkPaths]
    rw [hB _ (Nat.le_refl _) hp t path pvm hwf hs, exitMark_none]
    rw [hfind, hpvm]; simp [unmarkPaths]
  | null | unk _ | b _ | n _ | s _ | caps | bad _ =>
    have hs : pvm.filter (spre path) = [] := by rw [hsfilter, hpvm]; simp [unmarkPaths]
    have := hB _ (Nat.le_refl _) rfl t path pvm hwf (by simpa [unmarkPaths] using hs)
    rw [this, exitMark_none]
    rw [hfind, hpvm]; simp [unmarkPaths]

theorem kids_step {pvm : List PVM} {path : Path} {ls : List (Ty × Step)} {vs : List Payload}
    (hG : ∀ v ∈ vs, GFact v) (hwf : RTwfL vs) (hnd : (ls.map (·.2)).Nodup)
    (hs : pvm.filter (spre path) = (kidsU path ls vs).2) : kidsM pvm path ls (kidsU path ls vs).1 = .ok vs :=
  kidsM_roundtrip pvm path ls vs hG hwf fun j l v hl hv => by
    rw [← filter_filter_imp (fun e h => spre_of_pre_snoc h) pvm, hs]
    exact kidsU_filter path ls vs hnd j l v hl hv

theorem kidsU_length (path : Path) : ∀ (ls : List (Ty × Step)) (vs : List Payload),
    (kidsU path ls vs).1.length = vs.length
  | [], _ => by simp [kidsU]
  | _ :: _, [] => by simp [kidsU]
  | l :: ls, v :: vs => by simp [kidsU, kidsU_length path ls vs]

theorem bfact_of_depth : ∀ (n : Nat) (p : Payload), p.depth ≤ n → BFact p
  | 0, p, h => by cases p <;> simp [Payload.depth] at h
  | n + 1, p, h => by
    intro hp t path pvm hwf hs
    have hG : ∀ (vs : List Payload), Payload.depthL vs ≤ n → ∀ v ∈ vs, GFact v := fun vs hd v hv =>
      gfact_of_bfact fun r hr => bfact_of_depth n r (by have := depth_le_of_mem hv; omega)
    cases p with
    | marked ms r => simp [Payload.isMarked] at hp
    | seq vs =>
      have hd : Payload.depthL vs ≤ n := by simp [Payload.depth] at h; omega
      simp only [RTwf] at hwf
      simp only [unmarkPaths] at hs ⊢
      split at hs
      · rename_i es
        simp only [unmarkPathsZip_eq] at hs ⊢
        simp only [markPaths, markPathsZip_eq, kidsU_length,
          kids_step (hG vs hd) hwf (zipLabels_nodup es 0 vs.length) hs, Res.map]
      · rename_i hnt
        simp only [unmarkPathsAll_eq] at hs ⊢
        simp only [markPaths]
        simp only [markPathsAll_eq, kidsU_length,
          kids_step (hG vs hd) hwf (allLabels_nodup _ 0 vs.length) hs, Res.map]
    | smap ks vs =>
      have hd : Payload.depthL vs ≤ n := by simp [Payload.depth] at h; omega
      simp only [RTwf] at hwf
      simp only [unmarkPaths] at hs ⊢
      split at hs
      · rename_i ns ts os
        simp only [unmarkPathsObj_eq] at hs ⊢
        simp only [markPaths, markPathsObj_eq,
          kids_step (hG vs hd) hwf.2 (objLabels_nodup ts hwf.1) hs, Res.map]
      · rename_i hnt
        simp only [unmarkPathsMap_eq] at hs ⊢
        simp only [markPaths]
        simp only [markPathsMap_eq,
          kids_step (hG vs hd) hwf.2 (mapLabels_nodup _ hwf.1) hs, Res.map]
    | sset ids vs =>
      simp only [unmarkPaths] at hs
      have : reachesBelow pvm path = false := by rw [reachesBelow_eq]; exact any_false_of_filter_nil hs
      simp [unmarkPaths, markPaths, this]
    | null | unk _ | b _ | n _ | s _ | caps | bad _ => simp [unmarkPaths, markPaths]

theorem gfact (p : Payload) : GFact p :=
  gfact_of_bfact fun r _ => bfact_of_depth r.depth r (Nat.le_refl _)

/-- `UnmarkDeepWithPaths` then `MarkWithPaths` gives the value back -/
theorem markWithPaths_unmarkDeepWithPaths (v : Value) (hwf : RTwf v.v) :
    v.unmarkDeepWithPaths.1.markWithPaths v.unmarkDeepWithPaths.2 = .ok v := by
  have hpre : (unmarkPaths v.ty [] v.v).2.filter (pre []) = (unmarkPaths v.ty [] v.v).2 :=
    List.filter_eq_self.mpr fun e _ => by simp [pre, List.isPrefixOf]
  have := gfact v.v v.ty [] (unmarkPaths v.ty [] v.v).2 hwf hpre
  simp only [unmarkDeepWithPaths, markWithPaths, this, Res.map]

/-! ### `UnmarkDeepWithPaths` agrees with `UnmarkDeep` -/

mutual
/-- every map / object payload has a key for each member (as `VerifDump` prints them) -/
def keysAligned : Payload → Bool
  | .marked _ r => keysAligned r
  | .seq vs | .sset _ vs => keysAlignedL vs
  | .smap ks vs => ks.length == vs.length && keysAlignedL vs
  | _ => true
def keysAlignedL : List Payload → Bool
  | [] => true
  | v :: vs => keysAligned v && keysAlignedL vs
end

theorem keysAlignedL_mem : ∀ {vs : List Payload}, keysAlignedL vs = true → ∀ v ∈ vs, keysAligned v = true
  | [], _, v, hv => by simp at hv
  | w :: ws, h, v, hv => by
    simp only [keysAlignedL, Bool.and_eq_true] at h
    rcases List.mem_cons.mp hv with rfl | hv
    · exact h.1
    · exact keysAlignedL_mem h.2 v hv

theorem setsCleanL_mem : ∀ {vs : List Payload}, Payload.setsCleanL vs = true → ∀ v ∈ vs, v.setsClean = true
  | [], _, v, hv => by simp at hv
  | w :: ws, h, v, hv => by
    simp only [Payload.setsCleanL, Bool.and_eq_true] at h
    rcases List.mem_cons.mp hv with rfl | hv
    · exact h.1
    · exact setsCleanL_mem h.2 v hv

/-- the two facts for one subtree: the value is the deeply unmarked one, and the
marks recorded are exactly the marks found at any depth -/
def AgreeFact (p : Payload) : Prop := p.setsClean = true → keysAligned p = true → ∀ (t : Ty) (path : Path),
  (unmarkPaths t path p).1 = p.stripMarks ∧
  ∀ m, (∃ e ∈ (unmarkPaths t path p).2, m ∈ e.marks) ↔ m ∈ p.marksDeep

theorem kidsU_agree (path : Path) : ∀ (ls : List (Ty × Step)) (vs : List Payload), (∀ v ∈ vs, AgreeFact v) →
    Payload.setsCleanL vs = true → keysAlignedL vs = true → vs.length ≤ ls.length →
    (kidsU path ls vs).1 = Payload.stripMarksL vs ∧
    ∀ m, (∃ e ∈ (kidsU path ls vs).2, m ∈ e.marks) ↔ m ∈ Payload.marksDeepL vs
  | _, [], _, _, _, _ => by
    constructor
    · cases ‹List (Ty × Step)› <;> simp [kidsU, Payload.stripMarksL]
    · intro m; cases ‹List (Ty × Step)› <;> simp [kidsU, Payload.marksDeepL]
  | [], _ :: _, _, _, _, hl => by simp at hl
  | l :: ls, v :: vs, hA, hs, hk, hl => by
    simp only [Payload.setsCleanL, Bool.and_eq_true] at hs
    simp only [keysAlignedL, Bool.and_eq_true] at hk
    obtain ⟨h1, h2⟩ := hA v (by simp) hs.1 hk.1 l.1 (path ++ [l.2])
    obtain ⟨i1, i2⟩ := kidsU_agree path ls vs (fun w hw => hA w (by simp [hw])) hs.2 hk.2 (by simpa using hl)
    constructor
    · simp [kidsU, Payload.stripMarksL, h1, i1]
    · intro m
      simp only [kidsU, Payload.marksDeepL, mem_unionMarks, List.mem_append, ← h2 m, ← i2 m]
      constructor
      · rintro ⟨e, he | he, hm⟩
        · exact .inl ⟨e, he, hm⟩
        · exact .inr ⟨e, he, hm⟩
      · rintro (⟨e, he, hm⟩ | ⟨e, he, hm⟩)
        · exact ⟨e, .inl he, hm⟩
        · exact ⟨e, .inr he, hm⟩

theorem allLabels_length (e : Ty) : ∀ (n i : Nat), (allLabels e i n).length = n
  | 0, _ => rfl
  | n + 1, i => by simp [allLabels, allLabels_length e n (i + 1)]
theorem zipLabels_length : ∀ (n : Nat) (es : List Ty) (i : Nat), (zipLabels es i n).length = n
  | 0, _, _ => rfl
  | n + 1, es, i => by simp [zipLabels, zipLabels_length n es.tail (i + 1)]
theorem objLabels_length : ∀ (ks : List String) (ts : List Ty), (objLabels ts ks).length = ks.length
  | [], _ => rfl
  | k :: ks, ts => by simp [objLabels, objLabels_length ks ts.tail]

theorem agree_of_depth : ∀ (n : Nat) (p : Payload), p.depth ≤ n → AgreeFact p
  | 0, p, h => by cases p <;> simp [Payload.depth] at h
  | n + 1, p, h => by
    intro hs hk t path
    have hA : ∀ (vs : List Payload), Payload.depthL vs ≤ n → ∀ v ∈ vs, AgreeFact v := fun vs hd v hv =>
      agree_of_depth n v (by have := depth_le_of_mem hv; omega)
    cases p with
    | marked ms r =>
      obtain ⟨h1, h2⟩ := agree_of_depth n r (by simp [Payload.depth] at h; omega)
        (by simpa [Payload.setsClean] using hs) (by simpa [keysAligned] using hk) t path
      constructor
      · simp [unmarkPaths, Payload.stripMarks, h1]
      · intro m
        simp only [unmarkPaths, Payload.marksDeep, mem_unionMarks, List.mem_append, ← h2 m]
        constructor
        · rintro ⟨e, he | he, hm⟩
          · split at he
            · simp at he; subst he; exact .inl hm
            · simp at he
          · exact .inr ⟨e, he, hm⟩
        · rintro (hm | ⟨e, he, hm⟩)
          · have hl : ms.length > 0 := List.length_pos_iff.mpr (List.ne_nil_of_mem hm)
            exact ⟨⟨path, ms⟩, .inl (by simp [hl]), hm⟩
          · exact ⟨e, .inr he, hm⟩
    | seq vs =>
      have hd : Payload.depthL vs ≤ n := by simp [Payload.depth] at h; omega
      have hs' : Payload.setsCleanL vs = true := by simpa [Payload.setsClean] using hs
      have hk' : keysAlignedL vs = true := by simpa [keysAligned] using hk
      simp only [unmarkPaths]
      split
      · rename_i es
        simp only [unmarkPathsZip_eq, Payload.stripMarks, Payload.marksDeep]
        obtain ⟨i1, i2⟩ := kidsU_agree path (zipLabels es 0 vs.length) vs (hA vs hd) hs' hk'
          (by rw [zipLabels_length]; exact Nat.le_refl _)
        exact ⟨by rw [i1], i2⟩
      · simp only [unmarkPathsAll_eq, Payload.stripMarks, Payload.marksDeep]
        obtain ⟨i1, i2⟩ := kidsU_agree path (allLabels (elemTy t) 0 vs.length) vs (hA vs hd) hs' hk'
          (by rw [allLabels_length]; exact Nat.le_refl _)
        exact ⟨by rw [i1], i2⟩
    | smap ks vs =>
      have hd : Payload.depthL vs ≤ n := by simp [Payload.depth] at h; omega
      have hs' : Payload.setsCleanL vs = true := by simpa [Payload.setsClean] using hs
      simp only [keysAligned, Bool.and_eq_true, beq_iff_eq] at hk
      simp only [unmarkPaths]
      split
      · rename_i ns ts os
        simp only [unmarkPathsObj_eq, Payload.stripMarks, Payload.marksDeep]
        obtain ⟨i1, i2⟩ := kidsU_agree path (objLabels ts ks) vs (hA vs hd) hs' hk.2
          (by rw [objLabels_length, hk.1]; exact Nat.le_refl _)
        exact ⟨by rw [i1], i2⟩
      · simp only [unmarkPathsMap_eq, Payload.stripMarks, Payload.marksDeep]
        obtain ⟨i1, i2⟩ := kidsU_agree path (mapLabels (elemTy t) ks) vs (hA vs hd) hs' hk.2
          (by rw [mapLabels, List.length_map, hk.1]; exact Nat.le_refl _)
        exact ⟨by rw [i1], i2⟩
    | sset ids vs =>
      have hc : Payload.containsMarkedL vs = false := by simpa [Payload.setsClean] using hs
      constructor
      · simp [unmarkPaths, Payload.stripMarks, Payload.stripMarksL_of_clean vs hc]
      · intro m
        simp [unmarkPaths, Payload.marksDeep, Payload.marksDeepL_of_not_containsMarkedL vs hc]
    | null | unk _ | b _ | n _ | s _ | caps | bad _ => simp [unmarkPaths, Payload.stripMarks, Payload.marksDeep]

/-- `UnmarkDeepWithPaths` returns the value `UnmarkDeep` returns, and the marks of
its records are, together, exactly the marks `UnmarkDeep` returns -/
theorem unmarkDeepWithPaths_agrees (v : Value) (hs : v.v.setsClean = true) (hk : keysAligned v.v = true) :
    v.unmarkDeepWithPaths.1 = v.unmarkDeepPair.1 ∧
    ∀ m, (∃ e ∈ v.unmarkDeepWithPaths.2, m ∈ e.marks) ↔ m ∈ v.unmarkDeepPair.2 := by
  obtain ⟨h1, h2⟩ := agree_of_depth v.v.depth v.v (Nat.le_refl _) hs hk v.ty []
  exact ⟨by simp [unmarkDeepWithPaths, unmarkDeepPair, unmarkDeep, h1], h2⟩

end Value
end CtyModel
