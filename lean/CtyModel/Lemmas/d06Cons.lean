/-
C06 (d06) lemmas: `MapVal` / `ObjectVal` with their `NormalizeString` step ESTABLISH
normalised, strictly ascending keys — nothing about the raw keys is assumed.
-/
import CtyModel.d06Cons
import CtyModel.Lemmas.WFCons
import CtyModel.Lemmas.Asc
set_option linter.unusedSimpArgs false
set_option linter.unusedVariables false
namespace CtyModel
namespace D06
open Ty

theorem str_lt_of_not' {a b : String} (h1 : ¬ a < b) (h2 : a ≠ b) : b < a := by
  have hba : b ≤ a := String.not_lt.mp h1
  apply String.not_le.mp
  intro hab
  exact h2 (String.le_antisymm hab hba)

/-- what the loop keeps true of the map under construction -/
structure MapInv {α} (P : String → Prop) (Q : α → Prop) (m : List String × List α) : Prop where
  len : m.1.length = m.2.length
  asc : strictAsc m.1 = true
  keys : ∀ k ∈ m.1, P k
  vals : ∀ x ∈ m.2, Q x

theorem putKV_keys {α} (k : String) (x : α) : ∀ (ns : List String) (ys : List α),
    ns.length = ys.length → strictAsc ns = true →
    strictAsc (putKV k x ns ys).1 = true ∧ (putKV k x ns ys).1.length = (putKV k x ns ys).2.length ∧
    (∀ n ∈ (putKV k x ns ys).1, n = k ∨ n ∈ ns) ∧ (∀ y ∈ (putKV k x ns ys).2, y = x ∨ y ∈ ys)
  | [], [], _, _ => by simp [putKV, strictAsc]
  | [], _ :: _, h, _ => by simp at h
  | _ :: _, [], h, _ => by simp at h
  | n :: ns, y :: ys, hl, ha => by
    have ⟨ha', hlt⟩ := strictAsc_cons ha
    simp only [putKV]
    split
    · rename_i hkn
      refine ⟨strictAsc_of ha ?_, by simpa using hl, by intro z hz; simpa using hz, by intro z hz; simpa using hz⟩
      intro z hz
      rcases List.mem_cons.mp hz with rfl | hz
      · exact hkn
      · exact String.lt_trans hkn (hlt z hz)
    · rename_i hkn
      split
      · rename_i hkeq
        refine ⟨ha, by simpa using hl, ?_, ?_⟩
        · intro z hz; exact Or.inr hz
        · intro z hz
          rcases List.mem_cons.mp hz with rfl | hz
          · exact Or.inl rfl
          · exact Or.inr (by simp [hz])
      · rename_i hne
        obtain ⟨i1, i2, i3, i4⟩ := putKV_keys k x ns ys (by simpa using hl) ha'
        refine ⟨strictAsc_of i1 ?_, by simpa using i2, ?_, ?_⟩
        · intro z hz
          rcases i3 z hz with rfl | hz
          · exact str_lt_of_not' hkn hne
          · exact hlt z hz
        · intro z hz
          rcases List.mem_cons.mp hz with rfl | hz
          · exact Or.inr (by simp)
          · rcases i3 z hz with h | h
            · exact Or.inl h
            · exact Or.inr (by simp [h])
        · intro z hz
          rcases List.mem_cons.mp hz with rfl | hz
          · exact Or.inr (by simp)
          · rcases i4 z hz with h | h
            · exact Or.inl h
            · exact Or.inr (by simp [h])

theorem putKV_inv {α} {P : String → Prop} {Q : α → Prop} {k : String} {x : α} (hk : P k) (hx : Q x)
    {m : List String × List α} (h : MapInv P Q m) : MapInv P Q (putKV k x m.1 m.2) := by
  obtain ⟨i1, i2, i3, i4⟩ := putKV_keys k x m.1 m.2 h.len h.asc
  refine ⟨i2, i1, ?_, ?_⟩
  · intro n hn
    rcases i3 n hn with rfl | hn
    · exact hk
    · exact h.keys n hn
  · intro y hy
    rcases i4 y hy with rfl | hy
    · exact hx
    · exact h.vals y hy

theorem buildFrom_inv {α} {P : String → Prop} {Q : α → Prop} (norm : String → String) (hP : ∀ s, P (norm s)) :
    ∀ (ks : List String) (xs : List α) (acc : List String × List α), (∀ x ∈ xs, Q x) → MapInv P Q acc →
      MapInv P Q (buildFrom norm ks xs acc)
  | [], _, _, _, h => by simpa [buildFrom] using h
  | _ :: _, [], _, _, h => by simpa [buildFrom] using h
  | k :: ks, x :: xs, acc, hx, h => by
    simp only [buildFrom]
    exact buildFrom_inv norm hP ks xs _ (fun y hy => hx y (by simp [hy])) (putKV_inv (hP k) (hx x (by simp)) h)

/-- the map the loop builds: equal lengths, keys strictly ascending, every key an image of `norm`,
every value one of the inputs -/
theorem buildMap_inv {α} {P : String → Prop} {Q : α → Prop} (norm : String → String) (hP : ∀ s, P (norm s))
    (ks : List String) (xs : List α) (hx : ∀ x ∈ xs, Q x) : MapInv P Q (buildMap norm ks xs) :=
  buildFrom_inv norm hP ks xs _ hx ⟨rfl, rfl, by simp, by simp⟩

/-! ### re-normalising keys that are already normal changes nothing (`cty.Object` after `ObjectVal`) -/

theorem putKV_append_last {α} (k : String) (x : α) : ∀ (ns : List String) (ys : List α), ns.length = ys.length →
    (∀ n ∈ ns, n < k) → putKV k x ns ys = (ns ++ [k], ys ++ [x])
  | [], [], _, _ => rfl
  | [], _ :: _, h, _ => by simp at h
  | _ :: _, [], h, _ => by simp at h
  | n :: ns, y :: ys, hl, hlt => by
    have hn : n < k := hlt n (by simp)
    have h1 : ¬ k < n := fun h => String.lt_irrefl _ (String.lt_trans h hn)
    have h2 : k ≠ n := fun e => String.lt_irrefl _ (e ▸ hn)
    simp only [putKV, h1, h2, if_false]
    rw [putKV_append_last k x ns ys (by simpa using hl) (fun m hm => hlt m (by simp [hm]))]
    rfl

theorem strictAsc_append_lt : ∀ (pre : List String) (k : String) (rest : List String),
    strictAsc (pre ++ k :: rest) = true → ∀ n ∈ pre, n < k
  | [], _, _, _ => by simp
  | p :: pre, k, rest, h => by
    have h0 : strictAsc (p :: (pre ++ k :: rest)) = true := by simpa using h
    have ⟨h', hlt⟩ := strictAsc_cons h0
    intro n hn
    rcases List.mem_cons.mp hn with rfl | hn
    · exact hlt k (by simp)
    · exact strictAsc_append_lt pre k rest h' n hn

theorem buildFrom_fixed {α} (norm : String → String) : ∀ (ks : List String) (xs : List α) (pre : List String) (pxs : List α),
    ks.length = xs.length → pre.length = pxs.length → strictAsc (pre ++ ks) = true → (∀ k ∈ ks, norm k = k) →
    buildFrom norm ks xs (pre, pxs) = (pre ++ ks, pxs ++ xs)
  | [], [], pre, pxs, _, _, _, _ => by simp [buildFrom]
  | [], _ :: _, _, _, h, _, _, _ => by simp at h
  | _ :: _, [], _, _, h, _, _, _ => by simp at h
  | k :: ks, x :: xs, pre, pxs, hl, hpl, ha, hfix => by
    simp only [buildFrom, hfix k (by simp)]
    rw [putKV_append_last k x pre pxs hpl (strictAsc_append_lt pre k ks ha)]
    have := buildFrom_fixed norm ks xs (pre ++ [k]) (pxs ++ [x]) (by simpa using hl) (by simp [hpl])
      (by simpa using ha) (fun m hm => hfix m (by simp [hm]))
    simpa using this

/-- keys that are strictly ascending and fixed by `norm` go through the loop unchanged -/
theorem buildMap_fixed {α} (norm : String → String) (ks : List String) (xs : List α) (hl : ks.length = xs.length)
    (ha : strictAsc ks = true) (hfix : ∀ k ∈ ks, norm k = k) : buildMap norm ks xs = (ks, xs) := by
  have := buildFrom_fixed norm ks xs [] [] hl rfl (by simpa using ha) hfix
  simpa [buildMap] using this

/-! ### the constructors return well-formed values -/

variable {nfc : String → Bool}

theorem mem_tysOf : ∀ {ws : List Value} {t : Ty}, t ∈ Gocty.tysOf ws → ∃ w ∈ ws, w.ty = t
  | [], _, h => by simp [Gocty.tysOf] at h
  | w :: ws, t, h => by
    simp only [Gocty.tysOf, List.mem_cons] at h
    rcases h with rfl | h
    · exact ⟨w, by simp, rfl⟩
    · obtain ⟨w', hw', e⟩ := mem_tysOf h
      exact ⟨w', by simp [hw'], e⟩

/-- `MapVal`: whenever it returns, given well-formed members and a normaliser whose results are NFC — the raw
keys may be anything (not normalised, colliding after normalisation, in any order) -/
theorem wf_mapValN (norm : String → String) (hn : ∀ s, nfc (norm s) = true) {ks : List String} {ws : List Value}
    {r : Value} (h : mapValN norm ks ws = .ok r) (hws : ∀ w ∈ ws, w.WF nfc = true) : r.WF nfc = true := by
  unfold mapValN at h
  split at h
  · cases h
  · split at h <;> try cases h
    rename_i et he
    obtain ⟨h1, _, h3⟩ := Value.elemTypeOf_spec ws .dyn et he rfl hws
    have inv := buildMap_inv (P := fun k => nfc k = true) (Q := fun w : Value => Payload.wfP nfc et w.v = true)
      norm hn ks ws h3
    have hall : (buildMap norm ks ws).1.all nfc = true := List.all_eq_true.mpr inv.keys
    simp [Value.WF, Ty.ok_map, h1, Payload.wfP, Value.wfAll_payloads inv.vals, Value.payloads_length, inv.len, inv.asc]
    simpa using hall

/-- `ObjectVal` (with the `cty.Object` call inside it): always well-formed, given well-formed attribute values
and a normaliser that is idempotent with NFC results -/
theorem wf_objectValN (norm : String → String) (hn : ∀ s, nfc (norm s) = true) (hidem : ∀ s, norm (norm s) = norm s)
    {ks : List String} {ws : List Value} (hws : ∀ w ∈ ws, w.WF nfc = true) : (objectValN norm ks ws).WF nfc = true := by
  have inv := buildMap_inv (P := fun k => ∃ s, k = norm s) (Q := fun w : Value => w.WF nfc = true)
    norm (fun s => ⟨s, rfl⟩) ks ws hws
  have hfix : ∀ k ∈ (buildMap norm ks ws).1, norm k = k := by
    intro k hk
    obtain ⟨s, rfl⟩ := inv.keys k hk
    exact hidem s
  have hty : objectTy norm (buildMap norm ks ws).1 (Gocty.tysOf (buildMap norm ks ws).2) =
      .object (buildMap norm ks ws).1 (Gocty.tysOf (buildMap norm ks ws).2) ((buildMap norm ks ws).1.map fun _ => false) := by
    simp only [objectTy]
    rw [buildMap_fixed norm _ _ (by rw [Value.tysOf_length]; exact inv.len) inv.asc hfix]
  have hk : (buildMap norm ks ws).1.all nfc = true := by
    apply List.all_eq_true.mpr
    intro k hk
    obtain ⟨s, rfl⟩ := inv.keys k hk
    exact hn s
  have := Value.wf_objectVal (nfc := nfc) (names := (buildMap norm ks ws).1) (ws := (buildMap norm ks ws).2)
    inv.vals inv.len inv.asc hk
  simpa [objectValN, hty, Gocty.objectVal] using this

/-- … and its attribute set is exactly the set of normalised raw names -/
theorem objectValN_keys (norm : String → String) (ks : List String) (ws : List Value) (hl : ks.length = ws.length) :
    ∀ k ∈ (buildMap norm ks ws).1, ∃ s ∈ ks, k = norm s := by
  have inv := buildFrom_inv (P := fun k => ∃ s ∈ ks, k = norm s) (Q := fun _ : Value => True) norm
  -- the generic invariant speaks of all strings; specialise by carrying membership through the zip
  have key : ∀ (ks' : List String) (xs : List Value) (acc : List String × List Value),
      (∀ k ∈ ks', k ∈ ks) → (∀ k ∈ acc.1, ∃ s ∈ ks, k = norm s) → acc.1.length = acc.2.length → strictAsc acc.1 = true →
      ∀ k ∈ (buildFrom norm ks' xs acc).1, ∃ s ∈ ks, k = norm s := by
    intro ks'
    induction ks' with
    | nil => intro xs acc _ ha _ _; simpa [buildFrom] using ha
    | cons k0 ks' ih =>
      intro xs acc hsub ha hlen hasc
      cases xs with
      | nil => simpa [buildFrom] using ha
      | cons x xs =>
        simp only [buildFrom]
        obtain ⟨i1, i2, i3, _⟩ := putKV_keys (norm k0) x acc.1 acc.2 hlen hasc
        refine ih xs _ (fun k hk => hsub k (by simp [hk])) ?_ i2 i1
        intro k hk
        rcases i3 k hk with rfl | hk
        · exact ⟨k0, hsub k0 (by simp), rfl⟩
        · exact ha k hk
  exact key ks ws ([], []) (fun _ h => h) (by simp) rfl rfl

end D06
end CtyModel
