/-
C05: `Value.Refine()` (`init`), `NewValue` (`newValue`) and `Value.Range()`
related to the admitted sets: what the builder starts from is what the value
admitted, what `NewValue` returns admits exactly what the builder recorded (also
when it collapses to a known value), and the accessors of `Range()` report
exactly the recorded refinement.
-/
import CtyModel.Lemmas.RefineValue
namespace CtyModel
namespace Refine
open NumCmp

variable [ExactOracle]

/-- a concrete collection has at most `math.MaxInt` elements -/
def Conc.fits : Conc → Bool
  | .coll k => decide ((k : Int) ≤ maxInt)
  | _ => true

/-! ## `Value.Refine()` -/

omit [ExactOracle] in
theorem core_unmark1 (p : Payload) : core p.unmark1 = core p := by
  cases p <;> rfl

omit [ExactOracle] in
theorem γV_unmark (v : Value) (x : Conc) : γV v.unmark x = γV v x := by
  unfold γV Value.unmark
  simp only [core_unmark1]

omit [ExactOracle] in
theorem kindOk_fresh {u : Value} {r : Rfn} (hu : u.v = .unk r) : kindOk u.ty (freshWip u) = true := by
  unfold freshWip
  have hn : u.isNull = false := by simp [Value.isNull, Payload.isNull, Payload.unmark1, hu]
  cases hty : u.ty <;> simp [kindOk, hn]

omit [ExactOracle] in
/-- what `v.Refine()` returns when it returns -/
theorem init_ok {v : Value} {b : Builder} (h : init v = .ok b) :
    b.orig = v.unmark ∧ b.marks = v.marks ∧ b.wf = true ∧ b.orig.v.isMarked = false ∧
    ((∃ r, v.unmark.v = .unk r ∧ r ≠ .unref ∧ b.wip = r) ∨
     ((∀ r, v.unmark.v = .unk r → r = .unref) ∧ b.wip = freshWip v.unmark)) := by
  unfold init at h
  simp only at h
  split at h
  · simp at h
  · rename_i hm
    have hm' : v.unmark.v.isMarked = false := by simpa using hm
    split at h
    · simp at h
    · rename_i r hv
      split at h
      · rename_i hr
        split at h
        · rename_i hk
          simp at h; subst h
          refine ⟨rfl, rfl, ?_, hm', .inl ⟨r, hv, hr, rfl⟩⟩
          simp [Builder.wf, hm', hk]
        · simp at h
      · rename_i hr
        have hr' : r = .unref := by simpa using hr
        simp at h; subst h
        refine ⟨rfl, rfl, ?_, hm', .inr ⟨fun r' hv' => by rw [hv] at hv'; cases hv'; exact hr', rfl⟩⟩
        simp [Builder.wf, hm', kindOk_fresh hv]
    · rename_i hnb hnu
      simp at h; subst h
      refine ⟨rfl, rfl, ?_, hm', .inr ⟨fun r' hv' => absurd hv' (hnu r'), rfl⟩⟩
      have hk : v.unmark.isKnown = true := by
        cases hk : v.unmark.isKnown
        · obtain ⟨r, hr⟩ := (isKnown_iff hm').mp hk
          exact absurd hr (hnu r)
        · rfl
      simp [Builder.wf, hm', hk]

omit [ExactOracle] in
/-- a fresh work-in-progress refinement admits what the bare type admits -/
theorem γ_fresh {u : Value} (hu : u.v = .unk .unref) (x : Conc) (hx : x.fits = true) :
    γ u.ty (freshWip u) x = γ u.ty .unref x := by
  unfold freshWip
  have hn : u.isNull = false := by simp [Value.isNull, Payload.isNull, Payload.unmark1, hu]
  cases hty : u.ty <;> cases x <;>
    simp [γ, rangeOk, Rfn.nullness, hn, bytes, aboveLower, belowUpper, Conc.fits] at hx ⊢ <;>
    (intros; exact hx)

omit [ExactOracle] in
/-- the builder starts from exactly what the unknown value admitted -/
theorem init_γ {v : Value} {b : Builder} (h : init v = .ok b) (hk : v.unmark.isKnown = false)
    (x : Conc) (hx : x.fits = true) : γB b x = γV v x := by
  obtain ⟨ho, _, _, hm, hw⟩ := init_ok h
  rw [ho] at hm
  obtain ⟨r, hr⟩ := (isKnown_iff hm).mp hk
  rw [← γV_unmark]
  have hV : γV v.unmark x = γ v.unmark.ty r x := by
    unfold γV; rw [core_of_unmarked hm, hr]
  rw [hV]
  unfold γB
  rw [ho]
  rcases hw with ⟨r', hr', _, hw⟩ | ⟨hall, hw⟩
  · rw [hr] at hr'; cases hr'; rw [hw]
  · have := hall r hr; subst this
    rw [hw]; exact γ_fresh hr x hx

omit [ExactOracle] in
theorem init_dyn {v : Value} {b : Builder} (h : init v = .ok b) (hd : isDynVal v.unmark = true) :
    b.isDyn = true ∧ b.orig = v.unmark := by
  obtain ⟨ho, _⟩ := init_ok h
  exact ⟨by unfold Builder.isDyn; rw [ho]; exact hd, ho⟩

/-! ## `NewValue` -/

theorem newValue_known {b : Builder} (hk : b.orig.isKnown = true) :
    newValue b = .ok (b.orig.withMarks b.marks) := by
  unfold newValue; simp [hk]

theorem newValue_dyn {b : Builder} (hd : b.isDyn = true) :
    newValue b = .ok (b.orig.withMarks b.marks) := by
  unfold newValue; simp [hd]

omit [ExactOracle] in
theorem γV_unk (t : Ty) (r : Rfn) (x : Conc) : γV ⟨t, .unk r⟩ x = γ t r x := rfl

omit [ExactOracle] in
theorem γV_null {t : Ty} {r : Rfn} (hn : r.nullness = .t) (x : Conc) : γV (Value.null t) x = γ t r x := by
  unfold γV Value.null γ
  simp only [core, hn]
  cases x <;> simp [knownAdmits, nullOk, rangeOk_null] <;> first | rfl | decide

omit [ExactOracle] in
/-- equal inclusive bounds admit exactly the numbers equal to the bound -/
theorem point_interval {lv hv : Num} (he : Num.cmp lv hv = 0) (y : Num) :
    (aboveLower (some ⟨lv, true⟩) y && belowUpper (some ⟨hv, true⟩) y) = (Num.cmp y lv == 0) := by
  rw [Bool.eq_iff_iff]
  simp only [Bool.and_eq_true, aboveLower_incl, belowUpper_incl, beq_iff_eq]
  obtain ⟨h1, h2⟩ := le_antisymm_iff.mp he
  constructor
  · rintro ⟨a, c⟩
    exact le_antisymm_iff.mpr ⟨c.trans h2, a⟩
  · intro e
    obtain ⟨a, c⟩ := le_antisymm_iff.mp e
    exact ⟨c, a.trans h1⟩

/-- a collapsed value admits exactly what the refinement admitted -/
theorem collapse_some {ty : Ty} {r : Rfn} {v : Value} (hkind : kindOk ty r = true) (hn : r.nullness = .f)
    (h : collapse ty r = .ok (some v)) :
    v.ty = ty ∧ v.v.isMarked = false ∧ v.isKnown = true ∧ ∀ x, γV v x = γ ty r x := by
  cases r with
  | unref => simp [collapse] at h
  | nullable n => simp [collapse] at h
  | str n p => simp [collapse] at h
  | num n lo hi =>
    have hty : ty = .number := by cases ty <;> simp [kindOk] at hkind; rfl
    subst hty
    simp only [Rfn.nullness] at hn; subst hn
    cases lo with
    | none => simp [collapse] at h
    | some lo =>
      cases hi with
      | none => simp [collapse] at h
      | some hi =>
        obtain ⟨lv, li⟩ := lo
        obtain ⟨hv, hi'⟩ := hi
        simp only [collapse] at h
        split at h
        · rename_i hinc
          simp only [Bool.and_eq_true] at hinc
          obtain ⟨rfl, rfl⟩ := hinc
          split at h
          · simp at h
          · rename_i he
            simp at h; subst h
            refine ⟨rfl, rfl, rfl, fun x => ?_⟩
            have hp := point_interval (numEq?_true he)
            cases x <;> simp [γV, core, γ, knownAdmits, Conc.kindOk, nullOk, rangeOk, Rfn.nullness, hp] <;> decide
          · simp at h
        · simp at h
  | coll n lo hi =>
    simp only [Rfn.nullness] at hn; subst hn
    simp only [collapse] at h
    split at h
    · rename_i heq
      subst heq
      split at h
      · rename_i h0
        subst h0
        cases ty <;> simp [kindOk] at hkind <;> simp at h <;> subst h <;>
          refine ⟨rfl, rfl, rfl, fun x => ?_⟩ <;>
          cases x <;>
          simp [γV, core, γ, knownAdmits, Conc.kindOk, nullOk, rangeOk, Rfn.nullness, isCollectionTy,
            Payload.whollyKnownL] <;>
          first | decide | omega | (rw [Bool.eq_iff_iff]; simp <;> omega)
      · rename_i h0
        cases ty <;> simp [kindOk] at hkind
        · -- list
          simp only at h
          split at h
          · simp at h
          · rename_i hneg
            simp at h; subst h
            refine ⟨rfl, rfl, rfl, fun x => ?_⟩
            cases x <;>
              simp [γV, core, γ, knownAdmits, Conc.kindOk, nullOk, rangeOk, Rfn.nullness, isCollectionTy] <;>
              first | decide | omega | (rw [Bool.eq_iff_iff]; simp <;> omega)
        · -- set
          simp only at h
          split at h
          · rename_i h1
            subst h1
            simp at h; subst h
            refine ⟨rfl, rfl, rfl, fun x => ?_⟩
            cases x <;>
              simp [γV, core, γ, knownAdmits, Conc.kindOk, nullOk, rangeOk, Rfn.nullness] <;>
              first | decide | omega | (rw [Bool.eq_iff_iff]; simp <;> omega)
          · simp at h
        · -- map
          simp at h
    · simp at h

/-- `NewValue` on an unknown receiver: the result has the receiver's type and admits
exactly what the builder recorded — whether it stays unknown or becomes known -/
theorem newValue_exact {b : Builder} {w : Value} (hw : b.wf = true) (hk : b.orig.isKnown = false)
    (hd : b.isDyn = false) (h : newValue b = .ok w) :
    w.ty = b.orig.ty ∧ ∀ x, γV w x = γB b x := by
  have hkind : kindOk b.orig.ty b.wip = true := by
    unfold Builder.wf at hw
    simp only [Bool.and_eq_true, Bool.or_eq_true, hk, Bool.false_eq_true, false_or] at hw
    exact hw.2
  unfold newValue at h
  simp only [hk, hd, Bool.or_self, Bool.false_eq_true, if_false] at h
  split at h
  · simp at h
  · split at h
    · -- definitely null
      rename_i hn
      simp at h; subst h
      refine ⟨rfl, fun x => ?_⟩
      rw [γV_withMarks (by rfl)]
      exact γV_null hn x
    · -- nullable
      simp at h; subst h
      refine ⟨rfl, fun x => ?_⟩
      rw [γV_withMarks (by rfl)]
      rfl
    · -- definitely not null
      rename_i hn
      split at h
      · rename_i v hc
        simp at h; subst h
        obtain ⟨h1, h2, _, h4⟩ := collapse_some hkind hn hc
        refine ⟨by rw [← h1]; rfl, fun x => ?_⟩
        rw [γV_withMarks h2]
        exact h4 x
      · simp at h; subst h
        refine ⟨rfl, fun x => ?_⟩
        rw [γV_withMarks (by rfl)]
        rfl
      all_goals simp at h

omit [ExactOracle] in
theorem isKnown_withMarks {v : Value} (h : v.v.isMarked = false) (ms : List String) :
    (v.withMarks ms).isKnown = v.isKnown := by
  have h1 := unmark_withMarks h ms
  have h2 : (v.withMarks ms).v.unmark1 = v.v := congrArg Value.v h1
  have h3 : v.v.unmark1 = v.v := by cases hvv : v.v <;> simp_all [Payload.unmark1, Payload.isMarked]
  unfold Value.isKnown Payload.isKnown
  rw [h2, h3]

/-- when `NewValue` returns an unknown value, it is the receiver's type carrying
the recorded refinement, and that refinement is not "definitely null" -/
theorem newValue_unknown {b : Builder} {w : Value} (hw : b.wf = true) (hk : b.orig.isKnown = false)
    (hd : b.isDyn = false) (h : newValue b = .ok w) (hu : w.isKnown = false) :
    kindOk b.orig.ty b.wip = true ∧ w.unmark = ⟨b.orig.ty, .unk b.wip⟩ ∧ b.wip.nullness ≠ .t := by
  have hkind : kindOk b.orig.ty b.wip = true := by
    unfold Builder.wf at hw
    simp only [Bool.and_eq_true, Bool.or_eq_true, hk, Bool.false_eq_true, false_or] at hw
    exact hw.2
  refine ⟨hkind, ?_⟩
  unfold newValue at h
  simp only [hk, hd, Bool.or_self, Bool.false_eq_true, if_false] at h
  split at h
  · simp at h
  · split at h
    · simp at h; subst h
      rw [isKnown_withMarks (by rfl)] at hu
      simp [Value.null, Value.isKnown, Payload.isKnown, Payload.unmark1] at hu
    · rename_i hn
      simp at h; subst h
      exact ⟨unmark_withMarks (by rfl) _, by rw [hn]; decide⟩
    · rename_i hn
      split at h
      · rename_i v hc
        simp at h; subst h
        obtain ⟨_, h2, h3, _⟩ := collapse_some hkind hn hc
        rw [isKnown_withMarks h2, h3] at hu; cases hu
      · simp at h; subst h
        exact ⟨unmark_withMarks (by rfl) _, by rw [hn]; decide⟩
      all_goals simp at h

/-! ## `Value.Range()` -/

/-- membership as a caller reads it off the accessors of a `ValueRange`
(`CouldBeNull`, `NumberLowerBound`/`UpperBound`, `StringPrefix`,
`LengthLowerBound`/`UpperBound`); an unknown bound value excludes nothing.  For
non-null values the accessors say nothing about "definitely null"; ranges of unknown
values are never definitely null. -/
def ValueRange.admits (r : ValueRange) (c : Conc) : Bool :=
  c.kindOk r.ty &&
  match c with
  | .null => r.couldBeNull
  | .num x =>
    (match r.numberLowerBound, r.numberUpperBound with
     | .ok (lo, li), .ok (hi, hi') =>
       (match lo with
        | none => true
        | some l => aboveLower (some ⟨l, li⟩) x) &&
       (match hi with
        | none => true
        | some h => belowUpper (some ⟨h, hi'⟩) x)
     | _, _ => false)
  | .str s =>
    (match r.stringPrefix with
     | .ok p => (bytes p).isPrefixOf s
     | _ => false)
  | .coll k =>
    (match r.lengthLowerBound, r.lengthUpperBound with
     | .ok lo, .ok hi => decide (lo ≤ (k : Int)) && decide ((k : Int) ≤ hi)
     | _, _ => false)
  | .other => true

omit [ExactOracle] in
theorem aboveLower_negInf_incl' (y : Num) : aboveLower (some ⟨.inf true, true⟩) y = true :=
  aboveLower_negInf_incl y
omit [ExactOracle] in
theorem belowUpper_posInf_incl' (y : Num) : belowUpper (some ⟨.inf false, true⟩) y = true :=
  belowUpper_posInf_incl y

omit [ExactOracle] in
/-- `Range()` of an unknown value reports exactly its refinement -/
theorem range_admits {t : Ty} {r : Rfn} (hkind : kindOk t r = true) (hn : r.nullness ≠ .t) :
    ∃ vr, range ⟨t, .unk r⟩ = .ok vr ∧ vr.ty = t ∧ ∀ x, x.fits = true → vr.admits x = γ t r x := by
  refine ⟨⟨t, if r = .unref then .nullable .u else r⟩, by simp [range], rfl, fun x hx => ?_⟩
  cases r with
  | num n lo hi =>
    have hty : t = .number := by cases t <;> simp [kindOk] at hkind; rfl
    subst hty
    simp only [Rfn.nullness] at hn
    cases lo <;> cases hi <;> cases x <;> cases n <;>
      simp [ValueRange.admits, ValueRange.couldBeNull, ValueRange.numberLowerBound, ValueRange.numberUpperBound,
        γ, Conc.kindOk, nullOk, rangeOk, Rfn.nullness, aboveLower_negInf_incl', belowUpper_posInf_incl',
        aboveLower_none, belowUpper_none] at hn ⊢
  | str n p =>
    have hty : t = .string := by cases t <;> simp [kindOk] at hkind; rfl
    subst hty
    simp only [Rfn.nullness] at hn
    cases x <;> cases n <;>
      simp [ValueRange.admits, ValueRange.couldBeNull, ValueRange.stringPrefix,
        γ, Conc.kindOk, nullOk, rangeOk, Rfn.nullness] at hn ⊢
  | coll n lo hi =>
    simp only [Rfn.nullness] at hn
    cases t <;> simp [kindOk] at hkind <;> cases x <;> cases n <;>
      simp [ValueRange.admits, ValueRange.couldBeNull, ValueRange.lengthLowerBound, ValueRange.lengthUpperBound,
        isCollectionTy, γ, Conc.kindOk, nullOk, rangeOk, Rfn.nullness] at hn ⊢
  | nullable n =>
    simp only [Rfn.nullness] at hn
    cases t <;> simp [kindOk] at hkind <;> cases x <;> cases n <;>
      simp [ValueRange.admits, ValueRange.couldBeNull, γ, Conc.kindOk, nullOk, rangeOk,
        Rfn.nullness] at hn ⊢
  | unref =>
    cases t <;> cases x <;>
      simp [ValueRange.admits, ValueRange.couldBeNull, ValueRange.numberLowerBound, ValueRange.numberUpperBound,
        ValueRange.stringPrefix, ValueRange.lengthLowerBound, ValueRange.lengthUpperBound,
        isCollectionTy, γ, Conc.kindOk, nullOk, rangeOk, Rfn.nullness, aboveLower_negInf_incl',
        belowUpper_posInf_incl', bytes, Conc.fits] at hx ⊢ <;>
      first | exact hx | omega

/-! ## the whole of `v.Refine().<calls>.NewValue()` -/

theorem refine_ok {v w : Value} {cs : List RefineCall} (h : refine v cs = .ok w) :
    ∃ b b', init v = .ok b ∧ run b cs = .ok b' ∧ newValue b' = .ok w := by
  unfold refine at h
  cases hi : init v with
  | ok b =>
    rw [hi] at h
    simp only [Res.bind] at h
    cases hr : run b cs with
    | ok b' => rw [hr] at h; exact ⟨b, b', rfl, hr, h⟩
    | err e => rw [hr] at h; simp at h
    | panic p => rw [hr] at h; simp at h
    | unmodelled => rw [hr] at h; simp at h
  | err e => rw [hi] at h; simp [Res.bind] at h
  | panic p => rw [hi] at h; simp [Res.bind] at h
  | unmodelled => rw [hi] at h; simp [Res.bind] at h

omit [ExactOracle] in
theorem withMarks_ty (v : Value) (ms : List String) : (v.withMarks ms).ty = v.ty := rfl

/-- `NewValue` never changes the type -/
theorem newValue_ty {b : Builder} {w : Value} (hw : b.wf = true) (h : newValue b = .ok w) : w.ty = b.orig.ty := by
  by_cases hk : b.orig.isKnown = true
  · rw [newValue_known hk] at h; simp at h; subst h; rfl
  · by_cases hd : b.isDyn = true
    · rw [newValue_dyn hd] at h; simp at h; subst h; rfl
    · exact (newValue_exact hw (by simpa using hk) (by simpa using hd) h).1

/-- a call sequence keeps receiver, marks and well-formedness, `cty.DynamicVal` included -/
theorem run_base {b b' : Builder} {cs : List RefineCall} (h : run b cs = .ok b') :
    b.sameBase b' ∧ (b.wf = true → b'.wf = true) ∧ (∀ x, γB b' x = true → γB b x = true) := by
  by_cases hd : b.isDyn = true
  · rw [run_dyn hd] at h; simp at h; subst h
    exact ⟨Builder.sameBase.rfl' _, id, fun _ => id⟩
  · obtain ⟨h1, h2, _, h3, _⟩ := run_effect (by simpa using hd) h
    exact ⟨h1, h2, h3⟩

omit [ExactOracle] in
/-- what a fresh work-in-progress refinement admits, the bare type admits -/
theorem γ_fresh_le {u : Value} (hu : u.v = .unk .unref) (x : Conc) (h : γ u.ty (freshWip u) x = true) :
    γ u.ty .unref x = true := by
  unfold γ at h ⊢
  simp only [Bool.and_eq_true] at h ⊢
  refine ⟨⟨h.1.1, ?_⟩, by cases x <;> rfl⟩
  have hn : u.isNull = false := by simp [Value.isNull, Payload.isNull, Payload.unmark1, hu]
  have : (freshWip u).nullness = .u := by
    unfold freshWip
    cases hty : u.ty <;> simp [Rfn.nullness, hn]
  rw [this] at h
  exact h.1.2

omit [ExactOracle] in
theorem init_γ_le {v : Value} {b : Builder} (h : init v = .ok b) (hk : v.unmark.isKnown = false)
    (x : Conc) (hx : γB b x = true) : γV v x = true := by
  obtain ⟨ho, _, _, hm, hw⟩ := init_ok h
  rw [ho] at hm
  obtain ⟨r, hr⟩ := (isKnown_iff hm).mp hk
  rw [← γV_unmark]
  have hV : γV v.unmark x = γ v.unmark.ty r x := by
    unfold γV; rw [core_of_unmarked hm, hr]
  rw [hV]
  unfold γB at hx
  rw [ho] at hx
  rcases hw with ⟨r', hr', _, hw⟩ | ⟨hall, hw⟩
  · rw [hr] at hr'; cases hr'; rw [hw] at hx; exact hx
  · have := hall r hr; subst this
    rw [hw] at hx; exact γ_fresh_le hr x hx

/-! ## the dropped bound: where the stated constraint and the record differ -/

/-- the one concrete value at which a dropped call's constraint is false -/
def RefineCall.droppedAt : RefineCall → Conc → Bool
  | .numLower .negInf false, .num (.inf true) => true
  | .numUpper .posInf false, .num (.inf false) => true
  | _, _ => false

omit [ExactOracle] in
theorem den_dropped {c : RefineCall} {x : Conc} (hc : c.dropped = true) (hx : c.droppedAt x = false) :
    den c x = true := by
  cases c with
  | numLower a incl =>
    cases a <;> cases incl <;> simp [RefineCall.dropped] at hc
    cases x with
    | num y =>
      simp only [den, argLower]
      refine aboveLower_excl.mpr (negInf_lt ?_)
      intro hy; subst hy; simp [RefineCall.droppedAt] at hx
    | _ => rfl
  | numUpper a incl =>
    cases a <;> cases incl <;> simp [RefineCall.dropped] at hc
    cases x with
    | num y =>
      simp only [den, argUpper]
      refine belowUpper_excl.mpr (lt_posInf ?_)
      intro hy; subst hy; simp [RefineCall.droppedAt] at hx
    | _ => rfl
  | _ => simp [RefineCall.dropped] at hc

omit [ExactOracle] in
theorem droppedAt_dropped {c : RefineCall} {x : Conc} (h : c.droppedAt x = true) : c.dropped = true := by
  unfold RefineCall.droppedAt at h
  split at h <;> first | rfl | simp at h

/-! ## `cty.DynamicVal` and known receivers, end to end -/

omit [ExactOracle] in
theorem isDynVal_iff {u : Value} : isDynVal u = true ↔ u.ty = .dyn ∧ u.v = .unk .unref := by
  unfold isDynVal
  split
  · rename_i h1 h2; exact ⟨fun _ => ⟨h1, h2⟩, fun _ => rfl⟩
  · rename_i hne
    constructor
    · intro h; cases h
    · rintro ⟨h1, h2⟩; exact (hne h1 h2).elim

/-- refining `cty.DynamicVal` (marked or not) returns it, whatever the calls -/
theorem refine_dyn (v : Value) (cs : List RefineCall) (hd : isDynVal v.unmark = true) :
    refine v cs = .ok (v.unmark.withMarks v.marks) := by
  obtain ⟨hty, hv⟩ := isDynVal_iff.mp hd
  have hi : init v = .ok ⟨v.unmark, v.marks, freshWip v.unmark⟩ := by
    unfold init
    simp [hv, Payload.isMarked]
  have hdb : (⟨v.unmark, v.marks, freshWip v.unmark⟩ : Builder).isDyn = true := hd
  unfold refine
  rw [hi]
  simp only [Res.bind, run_dyn hdb, newValue_dyn hdb]

omit [ExactOracle] in
/-- putting the marks of a value back on its unmarked form gives the value back
(a marker always carries at least one mark, and only one marker layer exists) -/
theorem withMarks_unmark_self {v : Value} (h1 : v.unmark.v.isMarked = false)
    (h2 : v.v.isMarked = true → v.marks ≠ []) : v.unmark.withMarks v.marks = v := by
  obtain ⟨ty, p⟩ := v
  cases p with
  | marked ms r =>
    have hms : ms ≠ [] := h2 rfl
    simp only [Value.unmark, Payload.unmark1] at h1
    have hr1 : r.marks1 = [] := by cases r <;> simp_all [Payload.marks1, Payload.isMarked]
    have hr2 : r.unmark1 = r := by cases r <;> simp_all [Payload.unmark1, Payload.isMarked]
    show (⟨ty, r.withMarks ms⟩ : Value) = ⟨ty, .marked ms r⟩
    unfold Payload.withMarks
    rw [hr1, hr2]
    cases ms with
    | nil => exact absurd rfl hms
    | cons m ms => rfl
  | _ => simp [Value.withMarks, Value.unmark, Value.marks, Payload.withMarks, Payload.unmark1, Payload.marks1,
      unionMarks_nil]

/-- refining a known value: what comes back is the receiver, and every call of the
sequence holds of it -/
theorem refine_known {v w : Value} {cs : List RefineCall} {x : Conc} (hk : v.unmark.isKnown = true)
    (hx : concOf v.unmark = some x) (h : refine v cs = .ok w) :
    w = v.unmark.withMarks v.marks ∧ cs.all (fun c => den c x) = true := by
  obtain ⟨b, b', hi, hr, hn⟩ := refine_ok h
  obtain ⟨ho, hmk, _, hm, _⟩ := init_ok hi
  obtain ⟨hs, _, _⟩ := run_base hr
  have hk' : b'.orig.isKnown = true := by rw [hs.1, ho]; exact hk
  rw [newValue_known hk'] at hn
  simp at hn
  refine ⟨by rw [← hn, hs.1, hs.2, ho, hmk], ?_⟩
  exact run_known hm (by rw [ho]; exact hk) (by rw [ho]; exact hx) hr

end Refine
end CtyModel
