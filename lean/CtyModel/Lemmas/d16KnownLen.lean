/-
C16 (d16): /repo bb6ac26 in the item-level model — a refinement map that describes a list of
known length (`knownLenList`: not-null, both length bounds equal and positive) is never decoded
to a value; `Marshal` never writes such a map (`unknown_rt_coll` in MsgpackUnknown.lean shows
`knownLenList = false` for everything `marshalUnknownValue` writes under `rfnOK`).
-/
import CtyModel.Lemmas.MsgpackUnknown
namespace CtyModel
namespace Msgpack
open Refine

theorem knownLen_refused (E : Ext) [EqOracle] (e : Ty) (len n : Nat) (stream : List Item) (h1 : 1 < len)
    (h2 : len ≤ maxExtLen) (hk : knownLenList (.list e) n stream = true) (v : Value) :
    unmarshal E (.ext unknownWithRefinementsExt len (.map n) stream) (.list e) ≠ .ok v := by
  have h1' : ¬ len ≤ 1 := by omega
  have h2' : ¬ len > maxExtLen := by omega
  simp only [unmarshal, h1', h2', if_false, Ty.isDyn, Bool.false_eq_true, hk, if_true, ne_eq, not_true_eq_false]
  cases hi : Refine.init (Value.unknown (.list e)) with
  | ok b =>
    simp only [Res.bind]
    cases hl : rfnLoop E (.list e) n stream b <;> simp [recoverErr]
  | err c => simp [Res.bind, recoverErr]
  | panic w => simp [Res.bind, recoverErr]
  | unmodelled => simp [Res.bind, recoverErr]

def resIsErr {α : Type} : Res α → Bool
  | .err _ => true
  | _ => false
def resIsUnknown : Res Value → Bool
  | .ok ⟨_, .unk _⟩ => true
  | _ => false

end Msgpack
end CtyModel
