/-
C20 (d20) — goroutines over the heap model.

`Lemmas/HeapInterleave.lean` is a generic theorem about steps with footprints.  Here it
is INSTANTIATED with the step function the driver runs (`Heap.step`), in two ways:

* `Arena` — every goroutine allocates in an arena of its own (Go's allocator hands
  different goroutines different objects; nothing else about it is assumed).  The
  memory of `Interleave` has cell 0 = the shared state (heap + registers that exist
  when the goroutines start) and cell `i+1` = goroutine `i`'s arena and registers.
  A goroutine's step is `Heap.step` on its view `shared heap ++ own arena`; it
  writes BOTH cells from the result of `step` — that cell 0 comes back unchanged is
  the theorem `step_keeps_shared` (from `step_writes`: a step writes only its write
  set), not a definition.  The only guard is `sharedSafe`: the step's write set holds
  no object of the shared heap (decidable; always true of the read-only API).
* `Global` — one heap for all goroutines, the model's own bump allocator, registers
  per goroutine: the shared heap is a prefix of the heap at every moment of every
  schedule.

What is NOT proved: that the two are the same up to a renaming of the addresses
allocated after the fork (each goroutine's results are address-independent only in
the sense that `fp`/`outs` do not print addresses).
-/
import CtyModel.Lemmas.HeapStep
import CtyModel.HeapConc
import CtyModel.Lemmas.HeapInterleave
namespace CtyModel
namespace Heap
namespace Conc

/-! ### read-only footprints -/

theorem wset_readOnly {c : Api} (h : readOnlyApi c = true) (st : St) (x : Addr) :
    wset st (.api c) x = false := by
  cases c <;> first | rfl | (simp [readOnlyApi] at h)

theorem respectful_readOnly {c : Api} (h : readOnlyApi c = true) (st : St) :
    respectful st (.api c) = true := by
  cases c <;> first | rfl | (simp [readOnlyApi] at h)

theorem sharedSafe_readOnly {c : Api} (h : readOnlyApi c = true) (n : Nat) (st : St) :
    sharedSafe n st (.api c) = true := by
  simp [sharedSafe, respectful_readOnly h, wset_readOnly h]

theorem sharedSafe_allocOnly {c : Caller} (h : allocOnly c = true) (n : Nat) (st : St) :
    sharedSafe n st (.caller c) = true := by
  cases c <;> simp [allocOnly] at h <;> simp [sharedSafe, respectful, wset, callerTarget]

/-- a caller action on an object the goroutine allocated itself -/
theorem sharedSafe_caller_local {c : Caller} {n : Nat} {st : St} {a : Addr}
    (ht : callerTarget st c = some a) (ha : n ≤ a) (ho : ownerOf st.mem a = some .caller) :
    sharedSafe n st (.caller c) = true := by
  simp only [sharedSafe, respectful, ht, ho, beq_self_eq_true, Bool.true_and, List.all_eq_true,
    List.mem_range, wset, Bool.not_eq_eq_eq_not, Bool.not_true, beq_eq_false_iff_ne, ne_eq,
    Option.some.injEq]
  intro x hx e
  subst e
  omega

/-- **a step writes no object of the shared heap**: the first `n` objects are the
same objects afterwards (same body, same owner) -/
theorem step_keeps_shared {n : Nat} {st st' : St} {op : HeapOp} (hs : sharedSafe n st op = true)
    (h : step st op = some st') (hn : n ≤ st.mem.length) : st'.mem.take n = st.mem.take n := by
  simp only [sharedSafe, Bool.and_eq_true, List.all_eq_true, List.mem_range, Bool.not_eq_eq_eq_not,
    Bool.not_true] at hs
  obtain ⟨hlen, hsame⟩ := step_writes hs.1 h
  apply List.ext_getElem?
  intro i
  by_cases hi : i < n
  · rw [List.getElem?_take_of_lt hi, List.getElem?_take_of_lt hi]
    exact hsame i (Nat.lt_of_lt_of_le hi hn) (by simp [hs.2 i hi])
  · have hi' : n ≤ i := Nat.not_lt.mp hi
    rw [List.getElem?_eq_none (by simp; omega), List.getElem?_eq_none (by simp; omega)]

theorem step_length_le {st st' : St} {op : HeapOp} (hr : respectful st op = true)
    (h : step st op = some st') : st.mem.length ≤ st'.mem.length := (step_writes hr h).1

/-- **read-only footprint**: an API call with an empty write set leaves the whole
heap it found as it was — the new heap is the old one plus what the call allocated -/
theorem readOnly_prefix {c : Api} (hc : readOnlyApi c = true) {st st' : St}
    (h : step st (.api c) = some st') : st.mem <+: st'.mem := by
  have hk := step_keeps_shared (sharedSafe_readOnly hc st.mem.length st) h (Nat.le_refl _)
  rw [List.take_length] at hk
  rw [← hk]
  exact List.take_prefix _ _

theorem gstep_readOnly {c : Api} (hc : readOnlyApi c = true) (n : Nat) (st : St) :
    gstep n st (.api c) = step st (.api c) := by
  simp [gstep, sharedSafe_readOnly hc]

theorem gstep_readOnlyOp {op : HeapOp} (h : readOnlyOp op = true) (n : Nat) (st : St) :
    gstep n st op = step st op := by
  cases op with
  | api c => exact gstep_readOnly h n st
  | caller c => simp [gstep, sharedSafe_allocOnly h]

theorem soloTrace_readOnly (n : Nat) : ∀ (ops : List HeapOp) (st : St), ops.all readOnlyOp = true →
    soloTrace n st ops = stepTrace st ops := by
  intro ops
  induction ops with
  | nil => intro _ _; rfl
  | cons op ops ih =>
    intro st h
    simp only [List.all_cons, Bool.and_eq_true] at h
    simp only [soloTrace, stepTrace, gstep_readOnlyOp h.1]
    cases step st op with
    | none => simp [ih st h.2]
    | some st' => simp [ih st' h.2]

/-! ### instance 1: per-goroutine arenas (the generic interleaving theorem) -/

namespace Arena
open Interleave

theorem view_cells0 (st0 : St) (i : Nat) : view (cells0 st0) i = st0 := by
  simp [view, cells0]

theorem gstep_take {n : Nat} {st st' : St} {op : HeapOp} (h : gstep n st op = some st')
    (hn : n ≤ st.mem.length) : st'.mem.take n = st.mem.take n := by
  unfold gstep at h
  split at h
  · rename_i hs; exact step_keeps_shared hs h hn
  · cases h

theorem view_take (m : Cells) (i : Nat) : (view m i).mem.take (m 0).mem.length = (m 0).mem := by
  simp [view]

theorem act_footprint (i : Nat) (op : HeapOp) :
    Footprint (act i op) (fun x => x = 0 ∨ x = i + 1) (fun x => x = i + 1) := by
  constructor
  · intro m a ha
    simp only [act]
    cases hg : gstep (m 0).mem.length (view m i) op with
    | none => rfl
    | some st' =>
      simp only [ha, if_false]
      split
      · rename_i h0
        subst h0
        have := gstep_take hg (by simp [view])
        rw [this, view_take]
      · rfl
  · intro m m' hagree
    have h0 : m 0 = m' 0 := hagree 0 (.inl (.inl rfl))
    have hi : m (i + 1) = m' (i + 1) := hagree (i + 1) (.inr rfl)
    have hv : view m i = view m' i := by simp [view, h0, hi]
    simp only [act, h0, hv]
    cases gstep (m' 0).mem.length (view m' i) op with
    | none => exact ⟨rfl, fun a ha => by subst ha; exact hi⟩
    | some st' => exact ⟨rfl, fun a ha => by simp [ha]⟩

theorem partitioned (progs : Nat → List HeapOp) :
    Partitioned (prog progs) (fun x => x = 0) (fun i x => x = i + 1) := by
  refine ⟨fun i a ha => ?_, fun i j x hij hi hj => ?_, fun i x hi h0 => ?_⟩
  · simp only [prog, List.mem_map] at ha
    obtain ⟨op, _, rfl⟩ := ha
    exact act_footprint i op
  · subst hi; exact hij (by omega)
  · subst hi; cases h0

/-- running the steps of goroutine `i` alone over the cells is running `gstep` on its view -/
theorem solo_act (i : Nat) : ∀ (ops : List HeapOp) (m : Cells),
    (solo m (ops.map (act i))).2 = soloTrace (m 0).mem.length (view m i) ops ∧
      (solo m (ops.map (act i))).1 0 = m 0 := by
  intro ops
  induction ops with
  | nil => intro m; exact ⟨rfl, rfl⟩
  | cons op ops ih =>
    intro m
    simp only [List.map_cons, solo, soloTrace]
    cases hg : gstep (m 0).mem.length (view m i) op with
    | none =>
      have e : (act i op).run m = (m, none) := by simp [act, hg]
      rw [e]
      exact ⟨by simp [(ih m).1], (ih m).2⟩
    | some st' =>
      have ht := gstep_take hg (by simp [view])
      rw [view_take] at ht
      -- the memory after the step
      have hrun : (act i op).run m =
          (fun a => if a = i + 1 then { st' with mem := st'.mem.drop (m 0).mem.length }
            else if a = 0 then { m 0 with mem := st'.mem.take (m 0).mem.length } else m a, some st') := by
        simp only [act, hg]
      rw [hrun]
      simp only []
      generalize hm1 : (fun a => if a = i + 1 then { st' with mem := st'.mem.drop (m 0).mem.length }
            else if a = 0 then { m 0 with mem := st'.mem.take (m 0).mem.length } else m a) = m1
      have e0 : (0 : Nat) ≠ i + 1 := by omega
      have h10 : m1 0 = m 0 := by
        rw [← hm1]; simp only [e0, if_false, if_true, ht]
      have h1v : view m1 i = st' := by
        have h1i : m1 (i + 1) = { st' with mem := st'.mem.drop (m 0).mem.length } := by
          rw [← hm1]; simp only [if_true]
        simp only [view, h10, h1i]
        have : (m 0).mem ++ List.drop (m 0).mem.length st'.mem = st'.mem := by
          conv => rhs; rw [← List.take_append_drop (m 0).mem.length st'.mem, ht]
        rw [this]
      obtain ⟨ih1, ih2⟩ := ih m1
      rw [h10, h1v] at ih1
      exact ⟨by rw [ih1], by rw [ih2, h10]⟩

/-- a goroutine with nothing to do has nothing left to do -/
theorem todo_nil_of_prog_nil (progs : Nat → List HeapOp) (st0 : St) (sched : List Nat) (i : Nat)
    (h : progs i = []) : (exec (start (prog progs) (cells0 st0)) sched).todo i = [] := by
  obtain ⟨done, hpr, _⟩ := (inv_exec (partitioned progs) sched
    (inv_start (prog progs) (fun x => x = 0) (fun i x => x = i + 1) (cells0 st0))).thread i
  have : prog progs i = [] := by simp [prog, h]
  rw [this] at hpr
  exact (List.append_eq_nil_iff.mp hpr.symm).2

end Arena

/-! ### instance 2: one heap, the model's bump allocator -/

namespace Global

theorem tick_keeps {n : Nat} {c : Cfg} (hn : n ≤ c.mem.length) (i : Nat) :
    n ≤ (tick n c i).mem.length ∧ (tick n c i).mem.take n = c.mem.take n := by
  unfold tick tickWith
  split
  · exact ⟨hn, rfl⟩
  · split
    · rename_i st' hg
      have ht := Arena.gstep_take hg (by simpa using hn)
      refine ⟨?_, ht⟩
      have := congrArg List.length ht
      simp at this
      simp only []
      omega
    · exact ⟨hn, rfl⟩

theorem exec_keeps {n : Nat} : ∀ (s : List Nat) (c : Cfg), n ≤ c.mem.length →
    n ≤ (exec n c s).mem.length ∧ (exec n c s).mem.take n = c.mem.take n := by
  intro s
  induction s with
  | nil => intro c hn; exact ⟨hn, rfl⟩
  | cons i s ih =>
    intro c hn
    obtain ⟨h1, h2⟩ := tick_keeps hn i
    obtain ⟨h3, h4⟩ := ih (tick n c i) h1
    exact ⟨h3, h4.trans h2⟩

/-- results only: what the steps of a goroutine answered and which register fingerprints exist is
address-independent; the scalar answers (`outs`) are compared -/
def answers (tr : List (Option St)) : List (Option (List (List Tok))) := tr.map (Option.map (·.outs))

/-- a heap that has `m0` as a prefix preserves every library-owned object of `m0` -/
theorem preserves_of_prefix {m0 m : Mem} (h : m.take m0.length = m0) (hl : m0.length ≤ m.length) :
    Preserves m0 m := by
  refine ⟨hl, fun a ha => ?_⟩
  have hlt := frozenObj_lt ha
  rw [← List.getElem?_take_of_lt hlt, h]

end Global

end Conc
end Heap
end CtyModel
