/-
d14 — `formatlist` is the element-wise `format`: the length rule, the rows, totality.
-/
import CtyModel.Stdlib.d14FormatList
import CtyModel.Lemmas.d14Fmt
import CtyModel.Lemmas.StdNumStr
import CtyModel.Lemmas.StdNumInt
namespace CtyModel
namespace StdNum

/-- what `formatFSM` + `cty.StringVal` make of one row of arguments -/
def rowRes (L : Lib) (fs : String) (row : List Value) : Res String :=
  fsmLoop L row (fs.length + 1) fs.toList 0 1 0 ""

/-- the rows in order; the first row that fails ends the call -/
def collectRows (L : Lib) : List (Res String) → Res (List Payload)
  | [] => .ok []
  | r :: rs =>
    match r with
    | .ok s =>
      match collectRows L rs with
      | .ok ps => .ok (.s (L.nfc s) :: ps)
      | .err e => .err e
      | .panic w => .panic w
      | .unmodelled => .unmodelled
    | .err _ => .err "error on format iteration"
    | .panic w => .panic w
    | .unmodelled => .unmodelled

theorem flIter_eq (L : Lib) (fs : String) (args : List Value) (is : List Nat) :
    flIter L fs args is = collectRows L (is.map fun i => rowRes L fs (flArgsAt args i)) := by
  induction is with
  | nil => rfl
  | cons i is ih =>
    simp only [flIter, List.map_cons, collectRows, ih]
    rfl

/-- `format` on wholly known arguments is `formatFSM` + `cty.StringVal` -/
theorem formatImpl_known (L : Lib) (f : String) (row : List Value) (hk : ∀ a ∈ row, a.whollyKnown = true) :
    formatImpl L (sv f :: row) =
      (match rowRes L f row with
       | .ok s => .ok (stringVal L.nfc s)
       | .err e => .err e
       | .panic w => .panic w
       | .unmodelled => .unmodelled) := by
  have : (row.any fun a => !a.whollyKnown) = false := by
    rw [List.any_eq_false]
    intro a ha
    simp [hk a ha]
  simp only [formatImpl, arg0, Res.bind_ok, List.drop_succ_cons, List.drop_zero, this, Bool.false_eq_true, if_false,
    asString_sv, rowRes]
  cases fsmLoop L row (f.length + 1) f.toList 0 1 0 "" <;> rfl

/-! ### the length rule -/

theorem flLen_ok (args : List Value) (it r : Option Nat) (h : flLen args it = .ok r) :
    (∀ n, it = some n → r = some n) ∧ ∀ a ∈ args, ∀ els, flSeq a = some els → r = some els.length := by
  induction args generalizing it with
  | nil =>
    simp only [flLen, Res.ok.injEq] at h
    subst h
    exact ⟨fun n hn => hn, fun a ha => by cases ha⟩
  | cons a rest ih =>
    simp only [flLen] at h
    cases hs : flSeq a with
    | none =>
      rw [hs] at h
      obtain ⟨h1, h2⟩ := ih it h
      refine ⟨h1, ?_⟩
      intro b hb els hbs
      rcases List.mem_cons.mp hb with rfl | hb
      · rw [hs] at hbs; cases hbs
      · exact h2 b hb els hbs
    | some els =>
      rw [hs] at h
      cases it with
      | none =>
        simp only at h
        obtain ⟨h1, h2⟩ := ih _ h
        refine ⟨fun n hn => (by cases hn), ?_⟩
        intro b hb els' hbs
        rcases List.mem_cons.mp hb with rfl | hb
        · rw [hs] at hbs; cases hbs; exact h1 _ rfl
        · exact h2 b hb els' hbs
      | some n =>
        simp only at h
        split at h
        · cases h
        · rename_i hne
          have hn : els.length = n := by simpa using hne
          obtain ⟨h1, h2⟩ := ih _ h
          refine ⟨fun m hm => h1 m hm, ?_⟩
          intro b hb els' hbs
          rcases List.mem_cons.mp hb with rfl | hb
          · rw [hs] at hbs; cases hbs; rw [hn]; exact h1 n rfl
          · exact h2 b hb els' hbs

theorem flLen_total (args : List Value) (it : Option Nat) :
    (∃ r, flLen args it = .ok r) ∨ flLen args it = .err "inconsistent argument lengths" := by
  induction args generalizing it with
  | nil => left; exact ⟨it, rfl⟩
  | cons a rest ih =>
    simp only [flLen]
    cases flSeq a with
    | none => exact ih it
    | some els =>
      cases it with
      | none => exact ih _
      | some n =>
        simp only
        split
        · right; rfl
        · exact ih _

theorem flLen_none_of_no_seq (args : List Value) (h : ∀ a ∈ args, flSeq a = none) : flLen args none = .ok none := by
  induction args with
  | nil => rfl
  | cons a rest ih =>
    simp only [flLen, h a List.mem_cons_self]
    exact ih fun b hb => h b (List.mem_cons_of_mem _ hb)

/-- two iterated arguments of different lengths: the documented error -/
theorem flLen_inconsistent (args : List Value) (a b : Value) (ha : a ∈ args) (hb : b ∈ args) (x y : List Value)
    (hx : flSeq a = some x) (hy : flSeq b = some y) (hne : x.length ≠ y.length) :
    flLen args none = .err "inconsistent argument lengths" := by
  rcases flLen_total args none with ⟨r, hr⟩ | he
  · obtain ⟨_, h2⟩ := flLen_ok args none r hr
    have h3 := h2 a ha x hx
    have h4 := h2 b hb y hy
    rw [h3] at h4
    have : x.length = y.length := by simpa using h4
    exact absurd this hne
  · exact he

/-! ### totality -/

theorem collectRows_no_panic (L : Lib) (rs : List (Res String)) (h : ∀ r ∈ rs, r.isPanic = false) :
    (collectRows L rs).isPanic = false := by
  induction rs with
  | nil => rfl
  | cons r rs ih =>
    have hr := h r List.mem_cons_self
    have ih' := ih fun x hx => h x (List.mem_cons_of_mem _ hx)
    simp only [collectRows]
    cases r with
    | ok s =>
      simp only
      cases hc : collectRows L rs with
      | ok ps => rfl
      | err e => rfl
      | panic w => rw [hc] at ih'; simp [Res.isPanic] at ih'
      | unmodelled => rfl
    | err e => rfl
    | panic w => simp [Res.isPanic] at hr
    | unmodelled => rfl

theorem rowRes_no_panic (L : Lib) (fs : String) (row : List Value) : (rowRes L fs row).isPanic = false :=
  fsmLoop_no_panic L row _ _ 0 1 0 "" (Nat.le_refl 1)

end StdNum
end CtyModel
