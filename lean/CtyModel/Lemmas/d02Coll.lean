/-
D02 — lookup operations on KNOWN collections: Index / HasIndex / Length /
GetAttr / HasElement return exactly the members the value was constructed from,
and (for lists and tuples) an index lookup succeeds exactly when HasIndex
answers true — for every key, not only in-range integers.
-/
import CtyModel.Lemmas.NumOfInt
import CtyModel.Lemmas.ValEqRules
import CtyModel.Ops2
namespace CtyModel
namespace D02
open Num Value

/-! ### 1. `keyIndex` -/

/-- `keyIndex` on a number payload never fails: the exact non-negative int64 value, or `none` -/
theorem keyIndex_num (t : Ty) (x : Num) :
    keyIndex ⟨t, .n x⟩ =
      .ok (match x.toInt? with
        | some i => if i < 0 ∨ i > maxInt then none else some i.toNat
        | none => none) := by
  simp only [keyIndex]
  cases x.toInt? with
  | none => rfl
  | some i => by_cases h : i < 0 ∨ i > maxInt <;> simp [h]

/-- `keyIndex` answers `some i` exactly for the integers `0 ≤ i ≤ MaxInt64` -/
theorem keyIndex_eq_some_iff (t : Ty) (x : Num) (i : Nat) :
    keyIndex ⟨t, .n x⟩ = .ok (some i) ↔ x.toInt? = some (i : Int) ∧ (i : Int) ≤ maxInt := by
  rw [keyIndex_num]
  cases hx : x.toInt? with
  | none => simp
  | some j =>
    by_cases h : j < 0 ∨ j > maxInt
    · simp only [h, if_true, Res.ok.injEq, Option.some.injEq, reduceCtorEq, false_iff, not_and]
      intro hj; omega
    · simp only [h, if_false, Res.ok.injEq, Option.some.injEq]
      omega

/-- a number key is never a panic of `keyIndex` -/
theorem keyIndex_num_ok (t : Ty) (x : Num) : ∃ o, keyIndex ⟨t, .n x⟩ = .ok o :=
  ⟨_, keyIndex_num t x⟩

/-- the exact integer value of `NumberIntVal(i)` is `i` -/
theorem toInt?_ofInt (i : Int) (p : Nat) : (Num.ofInt i p).toInt? = some i := by
  simp [Num.toInt?, (truncInt_ofInt i p).1, (truncInt_ofInt i p).2]

/-- `NumberIntVal(i)` for `0 ≤ i ≤ MaxInt64` is the index `i` -/
theorem keyIndex_intVal (i : Nat) (hi : (i : Int) ≤ maxInt) : keyIndex (intVal i) = .ok (some i) := by
  simp only [intVal, numVal]
  exact (keyIndex_eq_some_iff _ _ _).mpr ⟨toInt?_ofInt _ _, hi⟩

/-- a negative integer key is no index -/
theorem keyIndex_neg (i : Int) (hi : i < 0) : keyIndex (intVal i) = .ok none := by
  simp only [intVal, numVal, keyIndex_num, toInt?_ofInt]
  simp [hi]

/-- an integer key above MaxInt64 is no index -/
theorem keyIndex_huge (i : Int) (hi : maxInt < i) : keyIndex (intVal i) = .ok none := by
  simp only [intVal, numVal, keyIndex_num, toInt?_ofInt]
  simp [hi]

/-- an infinite key is no index -/
theorem keyIndex_inf (t : Ty) (b : Bool) : keyIndex ⟨t, .n (.inf b)⟩ = .ok none := rfl

/-- a fractional key (negative binary exponent in normal form) is no index -/
theorem keyIndex_frac (t : Ty) (n : Bool) (m : Nat) (e : Int) (p : Nat) (he : e < 0) :
    keyIndex ⟨t, .n (.fin n m e p)⟩ = .ok none := by
  have : ¬ (0 ≤ e) := by omega
  simp [keyIndex_num, Num.toInt?, Num.isInt, this]

example : keyIndex (intVal (3 : Nat)) = .ok (some 3) := keyIndex_intVal 3 (by decide)
example : keyIndex ⟨.number, .n (.fin false 1 (-1) 53)⟩ = .ok none := by decide
example : keyIndex (intVal (-2)) = .ok none := keyIndex_neg _ (by decide)

/-! ### 2. Lists and tuples: Index / HasIndex with any number key -/

/-- list Index with an arbitrary (known, unmarked) number key -/
theorem index_list_num (e : Ty) (vs : List Payload) (x : Num) :
    Value.index ⟨.list e, .seq vs⟩ ⟨.number, .n x⟩ =
      (match keyIndex ⟨.number, .n x⟩ with
       | .ok (some i) => (match vs[i]? with | some p => .ok ⟨e, p⟩ | none => .panic "index out of range")
       | _ => .panic "list index must be non-negative integer") := by
  obtain ⟨o, ho⟩ := keyIndex_num_ok .number x
  rw [ho]
  cases o <;>
    simp [Value.index, binMarks, Value.isMarked, Payload.isMarked, indexU, Value.isKnown,
      Payload.isKnown, Payload.unmark1, Ty.isDyn, Ty.isNumber, ho] <;> rfl

/-- list HasIndex with an arbitrary (known, unmarked) number key -/
theorem hasIndex_list_num (e : Ty) (vs : List Payload) (x : Num) :
    Value.hasIndex ⟨.list e, .seq vs⟩ ⟨.number, .n x⟩ =
      .ok (boolVal (match keyIndex ⟨.number, .n x⟩ with
       | .ok (some i) => decide (i < vs.length)
       | _ => false)) := by
  obtain ⟨o, ho⟩ := keyIndex_num_ok .number x
  rw [ho]
  cases o <;>
    simp [Value.hasIndex, binMarks, Value.isMarked, Payload.isMarked, hasIndexU, Value.isKnown,
      Payload.isKnown, Payload.unmark1, Ty.isDyn, Ty.isNumber, ho]

/-- tuple Index with an arbitrary (known, unmarked) number key -/
theorem index_tuple_num (es : List Ty) (vs : List Payload) (x : Num) :
    Value.index ⟨.tuple es, .seq vs⟩ ⟨.number, .n x⟩ =
      (match keyIndex ⟨.number, .n x⟩ with
       | .ok (some i) =>
         (match es[i]? with
          | none => .panic "index out of range"
          | some t => match vs[i]? with | some p => .ok ⟨t, p⟩ | none => .panic "index out of range")
       | _ => .panic "tuple index must be non-negative integer") := by
  obtain ⟨o, ho⟩ := keyIndex_num_ok .number x
  rw [ho]
  cases o with
  | none =>
    simp [Value.index, binMarks, Value.isMarked, Payload.isMarked, indexU, Value.isKnown,
      Payload.isKnown, Payload.unmark1, Ty.isDyn, Ty.isNumber, ho]
  | some i =>
    simp only [Value.index, binMarks, Value.isMarked, Payload.isMarked, indexU, Value.isKnown,
      Payload.isKnown, Payload.unmark1, Ty.isDyn, Ty.isNumber, ho, Bool.or_self, Bool.false_eq_true,
      if_false, Bool.not_true, bind, Res.bind]
    cases es[i]? <;> rfl

/-- tuple HasIndex with an arbitrary (known, unmarked) number key; the payload plays no part -/
theorem hasIndex_tuple_num (es : List Ty) (p : Payload) (hp : p.isMarked = false) (x : Num) :
    Value.hasIndex ⟨.tuple es, p⟩ ⟨.number, .n x⟩ =
      .ok (boolVal (match keyIndex ⟨.number, .n x⟩ with
       | .ok (some i) => decide (i < es.length)
       | _ => false)) := by
  obtain ⟨o, ho⟩ := keyIndex_num_ok .number x
  rw [ho]
  have h1 : (⟨.tuple es, p⟩ : Value).isMarked = false := hp
  have h2 : (⟨.number, .n x⟩ : Value).isMarked = false := rfl
  have h3 : (⟨.number, .n x⟩ : Value).isKnown = true := rfl
  cases o <;>
    simp [Value.hasIndex, binMarks, h1, h2, h3, hasIndexU, Ty.isDyn, Ty.isNumber, ho]

/-- Tuple indexing returns exactly the member (with its own element type) the tuple was built from. -/
theorem index_tuple (es : List Ty) (vs : List Payload) (i : Nat) (hi : (i : Int) ≤ maxInt) :
    Value.index ⟨.tuple es, .seq vs⟩ (intVal i) =
      (match es[i]? with
       | none => .panic "index out of range"
       | some t => match vs[i]? with | some p => .ok ⟨t, p⟩ | none => .panic "index out of range") := by
  have hk := keyIndex_intVal i hi
  simp only [intVal, numVal] at hk ⊢
  rw [index_tuple_num, hk]

/-- an in-range list position: Index returns exactly the stored member -/
theorem index_list_get (e : Ty) (vs : List Payload) (i : Nat) (hi : (i : Int) ≤ maxInt) (h : i < vs.length) :
    Value.index ⟨.list e, .seq vs⟩ (intVal i) = .ok ⟨e, vs[i]⟩ := by
  have hk := keyIndex_intVal i hi
  simp only [intVal, numVal] at hk ⊢
  rw [index_list_num, hk]
  simp [h]

/-- Tuple HasIndex is true exactly for the positions the tuple type has. -/
theorem hasIndex_tuple (es : List Ty) (vs : List Payload) (i : Nat) (hi : (i : Int) ≤ maxInt) :
    Value.hasIndex ⟨.tuple es, .seq vs⟩ (intVal i) = .ok (boolVal (decide (i < es.length))) := by
  have hk := keyIndex_intVal i hi
  simp only [intVal, numVal] at hk ⊢
  rw [hasIndex_tuple_num _ _ rfl, hk]

/-- an in-range tuple position: Index returns the stored member at its declared type -/
theorem index_tuple_get (es : List Ty) (vs : List Payload) (i : Nat) (hi : (i : Int) ≤ maxInt)
    (h1 : i < es.length) (h2 : i < vs.length) :
    Value.index ⟨.tuple es, .seq vs⟩ (intVal i) = .ok ⟨es[i], vs[i]⟩ := by
  rw [index_tuple es vs i hi]
  simp [h1, h2]

example : Value.index ⟨.tuple [.string, .bool], .seq [.s "a", .b true]⟩ (intVal (1 : Nat)) = .ok ⟨.bool, .b true⟩ :=
  index_tuple_get _ _ 1 (by decide) (by decide) (by decide)

/-! ### 3. Maps -/

/-- Map indexing returns the stored member of the key (a missing key reads as null of the element type). -/
theorem index_map (e : Ty) (ks : List String) (vs : List Payload) (k : String) :
    Value.index ⟨.map e, .smap ks vs⟩ ⟨.string, .s k⟩ = .ok ⟨e, (lookupKey k ks vs).getD .null⟩ := by
  simp [Value.index, binMarks, Value.isMarked, Payload.isMarked, indexU, Value.isKnown,
    Payload.isKnown, Payload.unmark1, Ty.isDyn, Ty.isString]

/-- Map HasIndex is key membership. -/
theorem hasIndex_map (e : Ty) (ks : List String) (vs : List Payload) (k : String) :
    Value.hasIndex ⟨.map e, .smap ks vs⟩ ⟨.string, .s k⟩ = .ok (boolVal (ks.contains k)) := by
  simp [Value.hasIndex, binMarks, Value.isMarked, Payload.isMarked, hasIndexU, Value.isKnown,
    Payload.isKnown, Payload.unmark1, Ty.isDyn, Ty.isString]

/-- a key with a stored member is one of the keys -/
theorem lookupKey_some_contains (k : String) : ∀ (ks : List String) (vs : List Payload) (p : Payload),
    lookupKey k ks vs = some p → ks.contains k = true
  | [], _, _, h => by simp [lookupKey] at h
  | _ :: _, [], _, h => by simp [lookupKey] at h
  | n :: ns, v :: vs, p, h => by
    simp only [lookupKey] at h
    by_cases hn : n = k
    · simp [hn]
    · simp only [hn, if_false] at h
      have := lookupKey_some_contains k ns vs p h
      simp only [List.contains_cons, this, Bool.or_true]

/-- with as many members as keys: a key is present exactly when the lookup finds a member -/
theorem contains_iff_lookupKey (k : String) : ∀ (ks : List String) (vs : List Payload),
    ks.length = vs.length → (ks.contains k = true ↔ (lookupKey k ks vs).isSome = true)
  | [], [], _ => by simp [lookupKey]
  | [], _ :: _, h => by simp at h
  | _ :: _, [], h => by simp at h
  | n :: ns, v :: vs, h => by
    simp only [lookupKey, List.contains_cons]
    by_cases hn : n = k
    · simp [hn]
    · have hkn : (k == n) = false := by simpa using fun h' => hn h'.symm
      simp only [hn, if_false, hkn, Bool.false_or]
      exact contains_iff_lookupKey k ns vs (by simpa using h)

/-- Present key: Index returns exactly the stored member and HasIndex answers true. -/
theorem index_map_present (e : Ty) (ks : List String) (vs : List Payload) (k : String) (p : Payload)
    (h : lookupKey k ks vs = some p) :
    Value.index ⟨.map e, .smap ks vs⟩ ⟨.string, .s k⟩ = .ok ⟨e, p⟩ ∧
    Value.hasIndex ⟨.map e, .smap ks vs⟩ ⟨.string, .s k⟩ = .ok (boolVal true) := by
  rw [index_map, hasIndex_map, h, lookupKey_some_contains k ks vs p h]
  exact ⟨rfl, rfl⟩

example : lookupKey "b" ["a", "b"] [.s "x", .s "y"] = some (.s "y") := by decide

/-! ### 5. An index lookup succeeds exactly when HasIndex answers true (lists, tuples) -/

/-- Lists, EVERY number key (fractional, negative, huge, infinite included): Index succeeds iff HasIndex is True. -/
theorem indexOk_iff_hasIndex_list (e : Ty) (vs : List Payload) (x : Num) :
    (Value.index ⟨.list e, .seq vs⟩ ⟨.number, .n x⟩).isOk = true ↔
      Value.hasIndex ⟨.list e, .seq vs⟩ ⟨.number, .n x⟩ = .ok (boolVal true) := by
  rw [index_list_num, hasIndex_list_num]
  obtain ⟨o, ho⟩ := keyIndex_num_ok .number x
  rw [ho]
  cases o with
  | none => simp [Res.isOk, boolVal]
  | some i =>
    simp only [Res.ok.injEq, boolVal, Value.mk.injEq, Payload.b.injEq, true_and, decide_eq_true_eq]
    by_cases h : i < vs.length
    · simp [h, Res.isOk]
    · simp [h, Res.isOk]

/-- Tuples whose payload has as many members as the type has positions, EVERY number key. -/
theorem indexOk_iff_hasIndex_tuple (es : List Ty) (vs : List Payload) (hl : es.length = vs.length) (x : Num) :
    (Value.index ⟨.tuple es, .seq vs⟩ ⟨.number, .n x⟩).isOk = true ↔
      Value.hasIndex ⟨.tuple es, .seq vs⟩ ⟨.number, .n x⟩ = .ok (boolVal true) := by
  rw [index_tuple_num, hasIndex_tuple_num _ _ rfl]
  obtain ⟨o, ho⟩ := keyIndex_num_ok .number x
  rw [ho]
  cases o with
  | none => simp [Res.isOk, boolVal]
  | some i =>
    simp only [Res.ok.injEq, boolVal, Value.mk.injEq, Payload.b.injEq, true_and, decide_eq_true_eq]
    by_cases h : i < es.length
    · have h' : i < vs.length := hl ▸ h
      simp [h, h', Res.isOk]
    · simp [h, Res.isOk]

/-- The length hypothesis is needed: on a (malformed) tuple value with fewer members than
positions HasIndex answers True where Index panics. -/
theorem indexOk_iff_hasIndex_tuple_short_counterexample :
    Value.index ⟨.tuple [.string], .seq []⟩ (intVal (0 : Nat)) = .panic "index out of range" ∧
    Value.hasIndex ⟨.tuple [.string], .seq []⟩ (intVal (0 : Nat)) = .ok (boolVal true) := by
  constructor <;> decide

/-- Lists, any unmarked known key of a type other than the dynamic pseudo-type (string,
bool, collection keys: Index panics, HasIndex answers False; a null number: both panic). -/
theorem indexOk_iff_hasIndex_list_key (e : Ty) (vs : List Payload) (k : Value)
    (hm : k.isMarked = false) (hk : k.isKnown = true) (hd : k.ty.isDyn = false) :
    (Value.index ⟨.list e, .seq vs⟩ k).isOk = true ↔
      Value.hasIndex ⟨.list e, .seq vs⟩ k = .ok (boolVal true) := by
  have h1 : (⟨.list e, .seq vs⟩ : Value).isMarked = false := rfl
  have h2 : (⟨.list e, .seq vs⟩ : Value).isKnown = true := rfl
  have h3 : (Ty.list e).isDyn = false := rfl
  simp only [Value.index, Value.hasIndex, binMarks, h1, hm, Bool.or_self, Bool.false_eq_true, if_false,
    indexU, hasIndexU, h3, hd, hk, h2, Bool.not_true]
  by_cases hn : k.ty.isNumber = true
  · simp only [hn, Bool.not_true, Bool.false_eq_true, if_false, bind, Res.bind]
    cases hki : keyIndex k with
    | ok o =>
      cases o with
      | none => simp [Res.isOk, boolVal]
      | some i =>
        by_cases h : i < vs.length
        · simp [h, Res.isOk]
        · simp [h, Res.isOk, boolVal]
    | err c => simp [Res.isOk]
    | panic w => simp [Res.isOk]
    | unmodelled => simp [Res.isOk]
  · simp [hn, Res.isOk, boolVal]

/-- Tuples (as many members as positions), any unmarked known key of a non-dynamic type. -/
theorem indexOk_iff_hasIndex_tuple_key (es : List Ty) (vs : List Payload) (hl : es.length = vs.length) (k : Value)
    (hm : k.isMarked = false) (hk : k.isKnown = true) (hd : k.ty.isDyn = false) :
    (Value.index ⟨.tuple es, .seq vs⟩ k).isOk = true ↔
      Value.hasIndex ⟨.tuple es, .seq vs⟩ k = .ok (boolVal true) := by
  have h1 : (⟨.tuple es, .seq vs⟩ : Value).isMarked = false := rfl
  have h2 : (⟨.tuple es, .seq vs⟩ : Value).isKnown = true := rfl
  have h3 : (Ty.tuple es).isDyn = false := rfl
  simp only [Value.index, Value.hasIndex, binMarks, h1, hm, Bool.or_self, Bool.false_eq_true, if_false,
    indexU, hasIndexU, h3, hd, hk, h2, Bool.not_true]
  by_cases hn : k.ty.isNumber = true
  · simp only [hn, Bool.not_true, Bool.false_eq_true, if_false, bind, Res.bind]
    cases hki : keyIndex k with
    | ok o =>
      cases o with
      | none => simp [Res.isOk, boolVal]
      | some i =>
        by_cases h : i < es.length
        · have h' : i < vs.length := hl ▸ h
          simp [h, h', Res.isOk]
        · simp [h, Res.isOk, boolVal]
    | err c => simp [Res.isOk]
    | panic w => simp [Res.isOk]
    | unmodelled => simp [Res.isOk]
  · simp [hn, Res.isOk, boolVal]

/-- The key must be known and not dynamically typed: an unknown number key makes Index
succeed (with an unknown member) while HasIndex answers the unknown bool. -/
theorem indexOk_iff_hasIndex_unknown_key_counterexample :
    Value.index ⟨.list .string, .seq [.s "a"]⟩ ⟨.number, .unk .unref⟩ = .ok (unknown .string) ∧
    Value.hasIndex ⟨.list .string, .seq [.s "a"]⟩ ⟨.number, .unk .unref⟩ = .ok unkBool := by
  constructor <;> rfl

example : (⟨.string, .s "a"⟩ : Value).isMarked = false ∧ (⟨.string, .s "a"⟩ : Value).isKnown = true ∧
    (⟨.string, .s "a"⟩ : Value).ty.isDyn = false := by decide
example : Value.hasIndex ⟨.list .string, .seq [.s "a", .s "b"]⟩ ⟨.number, .n (.fin false 1 (-1) 53)⟩ = .ok (boolVal false) := by
  decide

/-! ### 4. Length -/

/-- Length of a tuple is the number of element types, whatever the payload. -/
theorem length_tuple (es : List Ty) (p : Payload) (hp : p.isMarked = false) :
    Value.length ⟨.tuple es, p⟩ = .ok (intVal es.length) := by
  have h1 : ∀ t, (⟨t, p⟩ : Value).isMarked = false := fun _ => hp
  simp [Value.length, unMarks, h1, lengthU]

/-- Length of an object is the number of attributes, whatever the payload. -/
theorem length_object (ns : List String) (ts : List Ty) (os : List Bool) (p : Payload) (hp : p.isMarked = false) :
    Value.length ⟨.object ns ts os, p⟩ = .ok (intVal ns.length) := by
  have h1 : ∀ t, (⟨t, p⟩ : Value).isMarked = false := fun _ => hp
  simp [Value.length, unMarks, h1, lengthU]

/-- Length of a known map is the number of members it was built from. -/
theorem length_map (e : Ty) (ks : List String) (vs : List Payload) :
    Value.length ⟨.map e, .smap ks vs⟩ = .ok (intVal vs.length) := by
  simp [Value.length, unMarks, Value.isMarked, Payload.isMarked, lengthU, Value.isKnown, Payload.isKnown,
    Payload.unmark1]

/-- Length of a set of wholly known members is the number of members. -/
theorem length_set (e : Ty) (ids : List Int) (vs : List Payload) (hk : Payload.whollyKnownL vs = true) :
    Value.length ⟨.set e, .sset ids vs⟩ = .ok (intVal vs.length) := by
  simp [Value.length, unMarks, Value.isMarked, Payload.isMarked, lengthU, Value.isKnown, Payload.isKnown,
    Payload.unmark1, hk]

/-- Length of a one-member set is 1 even if the member is unknown. -/
theorem length_set_singleton (e : Ty) (i : Int) (v : Payload) :
    Value.length ⟨.set e, .sset [i] [v]⟩ = .ok (intVal (1 : Nat)) := by
  simp [Value.length, unMarks, Value.isMarked, Payload.isMarked, lengthU, Value.isKnown, Payload.isKnown,
    Payload.unmark1]

example : Payload.whollyKnownL [.s "a", .seq [.b true]] = true := by decide

/-! ### 6. HasElement -/

/-- "some member `vs[j]` filed in bucket `h` (`ids[j] = h`) is `rec`-equal to `x` (a known True)" -/
def Hit (rec : EqRec) (e : Ty) (h : Int) (x : Payload) (ids : List Int) (vs : List Payload) : Prop :=
  ∃ (j : Nat) (y : Payload) (v : Value), ids[j]? = some h ∧ vs[j]? = some y ∧ rec e x e y = .ok v ∧ v.isTrue = true

/-- `rec` does not fail (error, panic) on the members of bucket `h` -/
def NoFail (rec : EqRec) (e : Ty) (h : Int) (x : Payload) (ids : List Int) (vs : List Payload) : Prop :=
  ∀ (j : Nat) (y : Payload), ids[j]? = some h → vs[j]? = some y → ∃ v, rec e x e y = .ok v

/-- `Hit` unfolds along the parallel lists -/
theorem hit_cons (rec : EqRec) (e : Ty) (h : Int) (x : Payload) (i : Int) (y : Payload) (ids : List Int)
    (vs : List Payload) :
    Hit rec e h x (i :: ids) (y :: vs) ↔
      (i = h ∧ ∃ v, rec e x e y = .ok v ∧ v.isTrue = true) ∨ Hit rec e h x ids vs := by
  constructor
  · rintro ⟨j, y', v, h1, h2, h3, h4⟩
    cases j with
    | zero =>
      simp only [List.getElem?_cons_zero, Option.some.injEq] at h1 h2
      subst h1 h2
      exact .inl ⟨rfl, v, h3, h4⟩
    | succ j =>
      simp only [List.getElem?_cons_succ] at h1 h2
      exact .inr ⟨j, y', v, h1, h2, h3, h4⟩
  · rintro (⟨rfl, v, h3, h4⟩ | ⟨j, y', v, h1, h2, h3, h4⟩)
    · exact ⟨0, y, v, by simp, by simp, h3, h4⟩
    · exact ⟨j + 1, y', v, by simpa using h1, by simpa using h2, h3, h4⟩

/-- (i, sound half, no hypothesis) whatever Boolean the bucket scan answers is right:
True iff some stored member of the bucket is `rec`-equal to the needle -/
theorem setHas_sound (rec : EqRec) (e : Ty) (h : Int) (x : Payload) :
    ∀ (ids : List Int) (vs : List Payload) (b : Bool),
      setHas rec e h x ids vs = .ok b → (b = true ↔ Hit rec e h x ids vs)
  | [], vs, b, hs => by
    simp only [setHas, Res.ok.injEq] at hs
    subst hs
    simp [Hit]
  | _ :: _, [], b, hs => by
    simp only [setHas, Res.ok.injEq] at hs
    subst hs
    simp [Hit]
  | i :: ids, y :: vs, b, hs => by
    rw [hit_cons]
    simp only [setHas] at hs
    by_cases hij : (h == i) = true
    · have hih : i = h := by simpa using Eq.symm (by simpa using hij : h = i)
      simp only [hij, if_true] at hs
      cases hr : rec e x e y with
      | ok v =>
        simp only [hr] at hs
        by_cases hv : v.isTrue = true
        · simp only [hv, if_true, Res.ok.injEq] at hs
          subst hs
          simp only [true_iff]
          exact .inl ⟨hih, v, rfl, hv⟩
        · simp only [hv, Bool.false_eq_true, if_false] at hs
          rw [setHas_sound rec e h x ids vs b hs]
          constructor
          · exact .inr
          · rintro (⟨_, v', h3, h4⟩ | h')
            · cases h3; exact absurd h4 hv
            · exact h'
      | err c => simp [hr] at hs
      | panic w => simp [hr] at hs
      | unmodelled => simp [hr] at hs
    · simp only [hij, Bool.false_eq_true, if_false] at hs
      rw [setHas_sound rec e h x ids vs b hs]
      constructor
      · exact .inr
      · rintro (⟨hih, _⟩ | h')
        · exact absurd (by simp [hih]) hij
        · exact h'

/-- (i, totality half) if `rec` does not fail on the members of the bucket, the scan answers -/
theorem setHas_total (rec : EqRec) (e : Ty) (h : Int) (x : Payload) :
    ∀ (ids : List Int) (vs : List Payload), NoFail rec e h x ids vs → ∃ b, setHas rec e h x ids vs = .ok b
  | [], vs, _ => ⟨false, by simp [setHas]⟩
  | _ :: _, [], _ => ⟨false, by simp [setHas]⟩
  | i :: ids, y :: vs, hn => by
    have hn' : NoFail rec e h x ids vs := fun j y' h1 h2 => hn (j + 1) y' (by simpa using h1) (by simpa using h2)
    obtain ⟨b, hb⟩ := setHas_total rec e h x ids vs hn'
    simp only [setHas]
    by_cases hij : (h == i) = true
    · have hih : i = h := by simpa using Eq.symm (by simpa using hij : h = i)
      obtain ⟨v, hv⟩ := hn 0 y (by simp [hih]) (by simp)
      simp only [hij, if_true, hv]
      by_cases hv' : v.isTrue = true
      · exact ⟨true, by simp [hv']⟩
      · exact ⟨b, by simp [hv', hb]⟩
    · simp only [hij, Bool.false_eq_true, if_false]
      exact ⟨b, hb⟩

/-- (i) Spec of the bucket scan `s.Has(x)`: given that `rec` does not fail on the scanned
members, it answers, and the answer is True iff some stored member of the bucket is `rec`-equal to `x`. -/
theorem setHas_spec (rec : EqRec) (e : Ty) (h : Int) (x : Payload) (ids : List Int) (vs : List Payload)
    (hn : NoFail rec e h x ids vs) :
    ∃ b, setHas rec e h x ids vs = .ok b ∧ (b = true ↔ Hit rec e h x ids vs) := by
  obtain ⟨b, hb⟩ := setHas_total rec e h x ids vs hn
  exact ⟨b, hb, setHas_sound rec e h x ids vs b hb⟩

/-- what (ii) assumes of a set member / needle of element type `e`: payload of that type,
wholly known, no mark at any depth -/
def Good (e : Ty) (p : Payload) : Prop :=
  p.shaped e = true ∧ p.whollyKnown = true ∧ p.containsMarked = false

/-- `Equals` of two such payloads, as the set scan calls it, is `RawEquals` (`rawB`) -/
theorem equalsP_good {e : Ty} (hw : e.wf = true) (hp : e.plain = true) {a b : Payload}
    (ha : Good e a) (hb : Good e b) : Value.equalsP e a e b = .ok (boolVal (rawB e a b)) := by
  obtain ⟨wa, ka, ma⟩ := ha
  obtain ⟨wb, kb, mb⟩ := hb
  have h := equals_of_members hw hp wa ka ma wb kb mb
  simpa only [Value.equals, Value.containsMarked, ma, mb, Bool.or_self, Bool.false_eq_true, if_false] using h

/-- the bucket scan over good members is the Boolean scan "same bucket and RawEquals" -/
theorem setHas_good {e : Ty} (hw : e.wf = true) (hp : e.plain = true) (h : Int) {x : Payload} (hx : Good e x) :
    ∀ (ids : List Int) (vs : List Payload), (∀ p ∈ vs, Good e p) →
      setHas Value.equalsP e h x ids vs = .ok ((ids.zip vs).any fun q => h == q.1 && rawB e x q.2)
  | [], vs, _ => by simp [setHas]
  | _ :: _, [], _ => by simp [setHas]
  | i :: ids, y :: vs, hg => by
    have ih := setHas_good hw hp h hx ids vs (fun p hp' => hg p (by simp [hp']))
    simp only [setHas, List.zip_cons_cons, List.any_cons, equalsP_good hw hp hx (hg y (by simp)), ih]
    by_cases hij : (h == i) = true
    · cases hr : rawB e x y <;> simp [hij, boolVal, Value.isTrue]
    · simp [hij]

/-- a wholly known mark-free payload is known -/
theorem isKnown_of_good {e : Ty} {p : Payload} (h : Good e p) : (⟨e, p⟩ : Value).isKnown = true := by
  obtain ⟨_, k, m⟩ := h
  cases p <;> simp_all [Payload.whollyKnown, Value.isKnown, Payload.isKnown, Payload.unmark1, Payload.containsMarked]

/-- good members make the set wholly known -/
theorem whollyKnownL_of_good {e : Ty} : ∀ (vs : List Payload), (∀ p ∈ vs, Good e p) → Payload.whollyKnownL vs = true
  | [], _ => rfl
  | v :: vs, h => by
    simp only [Payload.whollyKnownL, (h v (by simp)).2.1, Bool.true_and]
    exact whollyKnownL_of_good vs (fun p hp => h p (by simp [hp]))

/-- Full spec of HasElement on a set of wholly known members, for a wholly known needle of the
element type whose hash is `h`: True iff some stored member of bucket `h` is RawEquals to the needle. -/
theorem hasElement_good (e : Ty) (hw : e.wf = true) (hp : e.plain = true) (ids : List Int) (vs : List Payload)
    (hg : ∀ p ∈ vs, Good e p) (x : Payload) (hx : Good e x) (h : Int) :
    Value.hasElement ⟨.set e, .sset ids vs⟩ ⟨e, x⟩ (some h) =
      .ok (boolVal ((ids.zip vs).any fun q => h == q.1 && rawB e x q.2)) := by
  have h1 : (⟨.set e, .sset ids vs⟩ : Value).isMarked = false := rfl
  have h2 : (⟨e, x⟩ : Value).containsMarked = false := hx.2.2
  have h3 : (⟨.set e, .sset ids vs⟩ : Value).isNull = false := rfl
  have h4 : (⟨.set e, .sset ids vs⟩ : Value).isKnown = true := rfl
  have h5 : (⟨e, x⟩ : Value).isKnown = true := isKnown_of_good hx
  have h6 : e.equals e = true := Ty.equals_self hw
  have h7 : (⟨.set e, .sset ids vs⟩ : Value).whollyKnown = true := by
    simp [Value.whollyKnown, Payload.whollyKnown, whollyKnownL_of_good vs hg]
  simp only [Value.hasElement, h1, h2, Bool.or_self, Bool.false_eq_true, if_false, Value.hasElementU, h3, h4, h5,
    h6, Bool.not_true, Bool.and_false, setHas_good hw hp h hx ids vs hg, Res.map, h7, if_true]
  cases (ids.zip vs).any fun q => h == q.1 && rawB e x q.2 <;> rfl

/-- (ii) Every member the set was built from is reported as an element, given that the
needle's hash is the member's bucket id. -/
theorem hasElement_member (e : Ty) (hw : e.wf = true) (hp : e.plain = true) (ids : List Int) (vs : List Payload)
    (hg : ∀ p ∈ vs, Good e p) (hl : ids.length = vs.length) (j : Nat) (hj : j < vs.length) :
    Value.hasElement ⟨.set e, .sset ids vs⟩ ⟨e, vs[j]⟩ (some (ids[j]'(hl ▸ hj))) = .ok (boolVal true) := by
  have hgj : Good e vs[j] := hg _ (List.getElem_mem hj)
  rw [hasElement_good e hw hp ids vs hg _ hgj]
  have : ((ids.zip vs).any fun q => ids[j]'(hl ▸ hj) == q.1 && rawB e vs[j] q.2) = true := by
    rw [List.any_eq_true]
    refine ⟨(ids[j]'(hl ▸ hj), vs[j]), ?_, ?_⟩
    · rw [List.mem_iff_getElem]
      exact ⟨j, by simp [hl, hj], by simp⟩
    · simp [rawB_refl e vs[j] hp hgj.1]
  rw [this]

/-- (iii, True) a True answer means some stored member of the needle's bucket is `Equals`-true to the needle
(no hypothesis on the members) -/
theorem hasElement_true_hit (e : Ty) (ids : List Int) (vs : List Payload) (elem : Value) (h : Int)
    (hm : elem.containsMarked = false)
    (hr : Value.hasElement ⟨.set e, .sset ids vs⟩ elem (some h) = .ok (boolVal true)) :
    Hit Value.equalsP e h elem.v ids vs := by
  have h1 : (⟨.set e, .sset ids vs⟩ : Value).isMarked = false := rfl
  have h3 : (⟨.set e, .sset ids vs⟩ : Value).isNull = false := rfl
  have h4 : (⟨.set e, .sset ids vs⟩ : Value).isKnown = true := rfl
  simp only [Value.hasElement, h1, hm, Bool.or_self, Bool.false_eq_true, if_false, Value.hasElementU, h3, h4,
    Bool.not_true] at hr
  split at hr
  · simp [boolVal] at hr
  · split at hr
    · simp [boolVal, unkBool] at hr
    · split at hr
      · simp [boolVal] at hr
      · cases hs : setHas Value.equalsP e h elem.v ids vs with
        | ok b =>
          cases b with
          | true => exact (setHas_sound _ e h elem.v ids vs true hs).mp rfl
          | false =>
            simp only [hs, Res.map, Bool.false_eq_true, if_false, Res.ok.injEq] at hr
            split at hr <;> simp [boolVal, unkBool] at hr
        | err c => simp [hs, Res.map] at hr
        | panic w => simp [hs, Res.map] at hr
        | unmodelled => simp [hs, Res.map] at hr

/-- (iii, False) a False answer for a known needle of the element type means no stored member of the
needle's bucket is `Equals`-true to it -/
theorem hasElement_false_no_hit (e : Ty) (hw : e.wf = true) (ids : List Int) (vs : List Payload) (x : Payload) (h : Int)
    (hm : x.containsMarked = false) (hk : x.isKnown = true)
    (hr : Value.hasElement ⟨.set e, .sset ids vs⟩ ⟨e, x⟩ (some h) = .ok (boolVal false)) :
    ¬ Hit Value.equalsP e h x ids vs := by
  have h1 : (⟨.set e, .sset ids vs⟩ : Value).isMarked = false := rfl
  have h2 : (⟨e, x⟩ : Value).containsMarked = false := hm
  have h3 : (⟨.set e, .sset ids vs⟩ : Value).isNull = false := rfl
  have h4 : (⟨.set e, .sset ids vs⟩ : Value).isKnown = true := rfl
  have h5 : (⟨e, x⟩ : Value).isKnown = true := hk
  have h6 : e.equals e = true := Ty.equals_self hw
  simp only [Value.hasElement, h1, h2, Bool.or_self, Bool.false_eq_true, if_false, Value.hasElementU, h3, h4, h5,
    h6, Bool.not_true, Bool.and_false] at hr
  cases hs : setHas Value.equalsP e h x ids vs with
  | ok b =>
    cases b with
    | true => simp [hs, Res.map, boolVal] at hr
    | false =>
      intro hit
      have := (setHas_sound _ e h x ids vs false hs).mpr hit
      cases this
  | err c => simp [hs, Res.map] at hr
  | panic w => simp [hs, Res.map] at hr
  | unmodelled => simp [hs, Res.map] at hr

example : Good (.list .string) (.seq [.s "a", .null]) := by
  refine ⟨by decide, by decide, by decide⟩
example : (Ty.list .string).wf = true ∧ (Ty.list .string).plain = true := by decide
example : Value.hasElement ⟨.set .string, .sset [7, 7, 9] [.s "a", .s "b", .s "c"]⟩ ⟨.string, .s "b"⟩ (some 7)
    = .ok (boolVal true) :=
  hasElement_member .string (by decide) (by decide) [7, 7, 9] [.s "a", .s "b", .s "c"]
    (by intro p hp; simp at hp; rcases hp with rfl | rfl | rfl <;> exact ⟨by decide, by decide, by decide⟩)
    rfl 1 (by decide)

/-- The oracle column matters: with a hash other than the member's bucket id the member is not found
(the model scans one bucket only, as `set.Set.Has` does). -/
theorem hasElement_wrong_bucket_counterexample :
    Value.hasElement ⟨.set .string, .sset [7] [.s "a"]⟩ ⟨.string, .s "a"⟩ (some 8) = .ok (boolVal false) := by
  rw [hasElement_good .string (by decide) (by decide) [7] [.s "a"]
    (by intro p hp; simp at hp; subst hp; exact ⟨by decide, by decide, by decide⟩) (.s "a")
    ⟨by decide, by decide, by decide⟩ 8]
  rfl

/-! ### 8. The same lookups through a top-level marker: the unmarked answer with the marks re-applied -/

/-- an unmarked value is its own unmarking and carries no marks -/
theorem unmark_of_not_marked (k : Value) (hk : k.isMarked = false) : k.unmark = k ∧ k.marks = [] := by
  obtain ⟨t, p⟩ := k
  cases p <;> simp_all [Value.isMarked, Payload.isMarked, Value.unmark, Payload.unmark1, Value.marks, Payload.marks1]

/-- Index on a marked collection (unmarked key) is Index on the collection inside, marks re-applied -/
theorem index_marked (t : Ty) (ms : List String) (p : Payload) (hp : p.isMarked = false) (k : Value)
    (hk : k.isMarked = false) :
    Value.index ⟨t, .marked ms p⟩ k = (Value.index ⟨t, p⟩ k).map (·.withMarks (unionMarks ms [])) := by
  have h1 : (⟨t, p⟩ : Value).isMarked = false := hp
  have h0 : (⟨t, .marked ms p⟩ : Value).isMarked = true := rfl
  have h0u : (⟨t, .marked ms p⟩ : Value).unmark = ⟨t, p⟩ := rfl
  have h0m : (⟨t, .marked ms p⟩ : Value).marks = ms := rfl
  simp only [Value.index, binMarks, h0, h0u, h0m, h1, hk, (unmark_of_not_marked k hk).1,
    (unmark_of_not_marked k hk).2, Bool.true_or, if_true, Bool.or_self, Bool.false_eq_true, if_false]

/-- HasIndex on a marked collection (unmarked key) -/
theorem hasIndex_marked (t : Ty) (ms : List String) (p : Payload) (hp : p.isMarked = false) (k : Value)
    (hk : k.isMarked = false) :
    Value.hasIndex ⟨t, .marked ms p⟩ k = (Value.hasIndex ⟨t, p⟩ k).map (·.withMarks (unionMarks ms [])) := by
  have h1 : (⟨t, p⟩ : Value).isMarked = false := hp
  have h0 : (⟨t, .marked ms p⟩ : Value).isMarked = true := rfl
  have h0u : (⟨t, .marked ms p⟩ : Value).unmark = ⟨t, p⟩ := rfl
  have h0m : (⟨t, .marked ms p⟩ : Value).marks = ms := rfl
  simp only [Value.hasIndex, binMarks, h0, h0u, h0m, h1, hk, (unmark_of_not_marked k hk).1,
    (unmark_of_not_marked k hk).2, Bool.true_or, if_true, Bool.or_self, Bool.false_eq_true, if_false]

/-- Length of a marked collection -/
theorem length_marked (t : Ty) (ms : List String) (p : Payload) (hp : p.isMarked = false) :
    Value.length ⟨t, .marked ms p⟩ = (Value.length ⟨t, p⟩).map (·.withMarks ms) := by
  have h1 : (⟨t, p⟩ : Value).isMarked = false := hp
  have h0 : (⟨t, .marked ms p⟩ : Value).isMarked = true := rfl
  have h0u : (⟨t, .marked ms p⟩ : Value).unmark = ⟨t, p⟩ := rfl
  have h0m : (⟨t, .marked ms p⟩ : Value).marks = ms := rfl
  simp only [Value.length, unMarks, h0, h0u, h0m, h1, if_true, Bool.false_eq_true, if_false]

/-- GetAttr on a marked object -/
theorem getAttr_marked (t : Ty) (ms : List String) (p : Payload) (hp : p.isMarked = false) (name : String) :
    Value.getAttr ⟨t, .marked ms p⟩ name = (Value.getAttr ⟨t, p⟩ name).map (·.withMarks ms) := by
  have h1 : (⟨t, p⟩ : Value).isMarked = false := hp
  have h0 : (⟨t, .marked ms p⟩ : Value).isMarked = true := rfl
  have h0u : (⟨t, .marked ms p⟩ : Value).unmark = ⟨t, p⟩ := rfl
  have h0m : (⟨t, .marked ms p⟩ : Value).marks = ms := rfl
  simp only [Value.getAttr, h0, h0u, h0m, h1, if_true, Bool.false_eq_true, if_false]

example : Value.index ⟨.list .string, .marked ["m"] (.seq [.s "a"])⟩ (intVal (0 : Nat)) =
    .ok ⟨.string, .marked ["m"] (.s "a")⟩ := by decide

/-! ### 7. GetAttr -/

/-- an attribute the type declares but the payload has no entry for reads as null of the attribute type -/
theorem getAttr_object_no_entry (ns : List String) (ts : List Ty) (os : List Bool) (ks : List String)
    (vs : List Payload) (name : String) (t : Ty) (o : Bool)
    (ht : Ty.find name ns ts os = some (t, o)) (hv : lookupKey name ks vs = none) :
    Value.getAttr ⟨.object ns ts os, .smap ks vs⟩ name = .ok ⟨t, .null⟩ := by
  simp [Value.getAttr, Value.isMarked, Payload.isMarked, getAttrU, ht, Value.isKnown, Payload.isKnown,
    Payload.unmark1, hv, Ty.isDyn]

/-- attribute access on a known object whose payload keys need not be the type's names -/
theorem getAttr_object_keys (ns : List String) (ts : List Ty) (os : List Bool) (ks : List String)
    (vs : List Payload) (name : String) (t : Ty) (o : Bool)
    (ht : Ty.find name ns ts os = some (t, o)) :
    Value.getAttr ⟨.object ns ts os, .smap ks vs⟩ name = .ok ⟨t, (lookupKey name ks vs).getD .null⟩ := by
  cases hv : lookupKey name ks vs <;>
    simp [Value.getAttr, Value.isMarked, Payload.isMarked, getAttrU, ht, Value.isKnown, Payload.isKnown,
      Payload.unmark1, hv, Ty.isDyn]

example : Ty.find "a" ["a"] [.string] [false] = some (.string, false) ∧ lookupKey "a" [] [] = none := by decide

end D02
end CtyModel
