/-
D02 — lookup operations on KNOWN collections: Index / HasIndex / Length /
GetAttr / HasElement return exactly the members the value was constructed from,
and (for lists and tuples) an index lookup succeeds exactly when HasIndex
answers true — for every key, not only in-range integers.
-/
import CtyModel.Lemmas.NumOfInt
import CtyModel.Lemmas.ValEqRules
import CtyModel.Ops2
namespace CtyModel
namespace D02
open Num Value

/-! ### 1. `keyIndex` -/

/-- `keyIndex` on a number payload never fails: the exact non-negative int64 value, or `none` -/
theorem keyIndex_num (t : Ty) (x : Num) :
    keyIndex ⟨t, .n x⟩ =
      .ok (match x.toInt? with
        | some i => if i < 0 ∨ i > maxInt then none else some i.toNat
        | none => none) := by
  simp only [keyIndex]
  cases x.toInt? with
  | none => rfl
  | some i => by_cases h : i < 0 ∨ i > maxInt <;> simp [h]

/-- `keyIndex` answers `some i` exactly for the integers `0 ≤ i ≤ MaxInt64` -/
theorem keyIndex_eq_some_iff (t : Ty) (x : Num) (i : Nat) :
    keyIndex ⟨t, .n x⟩ = .ok (some i) ↔ x.toInt? = some (i : Int) ∧ (i : Int) ≤ maxInt := by
  rw [keyIndex_num]
  cases hx : x.toInt? with
  | none => simp
  | some j =>
    by_cases h : j < 0 ∨ j > maxInt
    · simp only [h, if_true, Res.ok.injEq, Option.some.injEq, reduceCtorEq, false_iff, not_and]
      intro hj; omega
    · simp only [h, if_false, Res.ok.injEq, Option.some.injEq]
      omega

/-- a number key is never a panic of `keyIndex` -/
theorem keyIndex_num_ok (t : Ty) (x : Num) : ∃ o, keyIndex ⟨t, .n x⟩ = .ok o :=
  ⟨_, keyIndex_num t x⟩

/-- the exact integer value of `NumberIntVal(i)` is `i` -/
theorem toInt?_ofInt (i : Int) (p : Nat) : (Num.ofInt i p).toInt? = some i := by
  simp [Num.toInt?, (truncInt_ofInt i p).1, (truncInt_ofInt i p).2]

/-- `NumberIntVal(i)` for `0 ≤ i ≤ MaxInt64` is the index `i` -/
theorem keyIndex_intVal (i : Nat) (hi : (i : Int) ≤ maxInt) : keyIndex (intVal i) = .ok (some i) := by
  simp only [intVal, numVal]
  exact (keyIndex_eq_some_iff _ _ _).mpr ⟨toInt?_ofInt _ _, hi⟩

/-- a negative integer key is no index -/
theorem keyIndex_neg (i : Int) (hi : i < 0) : keyIndex (intVal i) = .ok none := by
  simp only [intVal, numVal, keyIndex_num, toInt?_ofInt]
  simp [hi]

/-- an integer key above MaxInt64 is no index -/
theorem keyIndex_huge (i : Int) (hi : maxInt < i) : keyIndex (intVal i) = .ok none := by
  simp only [intVal, numVal, keyIndex_num, toInt?_ofInt]
  simp [hi]

/-- an infinite key is no index -/
theorem keyIndex_inf (t : Ty) (b : Bool) : keyIndex ⟨t, .n (.inf b)⟩ = .ok none := rfl

/-- a fractional key (negative binary exponent in normal form) is no index -/
theorem keyIndex_frac (t : Ty) (n : Bool) (m : Nat) (e : Int) (p : Nat) (he : e < 0) :
    keyIndex ⟨t, .n (.fin n m e p)⟩ = .ok none := by
  have : ¬ (0 ≤ e) := by omega
  simp [keyIndex_num, Num.toInt?, Num.isInt, this]

example : keyIndex (intVal (3 : Nat)) = .ok (some 3) := keyIndex_intVal 3 (by decide)
example : keyIndex ⟨.number, .n (.fin false 1 (-1) 53)⟩ = .ok none := by decide
example : keyIndex (intVal (-2)) = .ok none := keyIndex_neg _ (by decide)

/-! ### 2. Lists and tuples: Index / HasIndex with any number key -/

/-- list Index with an arbitrary (known, unmarked) number key -/
theorem index_list_num (e : Ty) (vs : List Payload) (x : Num) :
    Value.index ⟨.list e, .seq vs⟩ ⟨.number, .n x⟩ =
      (match keyIndex ⟨.number, .n x⟩ with
       | .ok (some i) => (match vs[i]? with | some p => .ok ⟨e, p⟩ | none => .panic "index out of range")
       | _ => .panic "list index must be non-negative integer") := by
  obtain ⟨o, ho⟩ := keyIndex_num_ok .number x
  rw [ho]
  cases o <;>
    simp [Value.index, binMarks, Value.isMarked, Payload.isMarked, indexU, Value.isKnown,
      Payload.isKnown, Payload.unmark1, Ty.isDyn, Ty.isNumber, ho] <;> rfl

/-- list HasIndex with an arbitrary (known, unmarked) number key -/
theorem hasIndex_list_num (e : Ty) (vs : List Payload) (x : Num) :
    Value.hasIndex ⟨.list e, .seq vs⟩ ⟨.number, .n x⟩ =
      .ok (boolVal (match keyIndex ⟨.number, .n x⟩ with
       | .ok (some i) => decide (i < vs.length)
       | _ => false)) := by
  obtain ⟨o, ho⟩ := keyIndex_num_ok .number x
  rw [ho]
  cases o <;>
    simp [Value.hasIndex, binMarks, Value.isMarked, Payload.isMarked, hasIndexU, Value.isKnown,
      Payload.isKnown, Payload.unmark1, Ty.isDyn, Ty.isNumber, ho]

/-- tuple Index with an arbitrary (known, unmarked) number key -/
theorem index_tuple_num (es : List Ty) (vs : List Payload) (x : Num) :
    Value.index ⟨.tuple es, .seq vs⟩ ⟨.number, .n x⟩ =
      (match keyIndex ⟨.number, .n x⟩ with
       | .ok (some i) =>
         (match es[i]? with
          | none => .panic "index out of range"
          | some t => match vs[i]? with | some p => .ok ⟨t, p⟩ | none => .panic "index out of range")
       | _ => .panic "tuple index must be non-negative integer") := by
  obtain ⟨o, ho⟩ := keyIndex_num_ok .number x
  rw [ho]
  cases o with
  | none =>
    simp [Value.index, binMarks, Value.isMarked, Payload.isMarked, indexU, Value.isKnown,
      Payload.isKnown, Payload.unmark1, Ty.isDyn, Ty.isNumber, ho]
  | some i =>
    simp only [Value.index, binMarks, Value.isMarked, Payload.isMarked, indexU, Value.isKnown,
      Payload.isKnown, Payload.unmark1, Ty.isDyn, Ty.isNumber, ho, Bool.or_self, Bool.false_eq_true,
      if_false, Bool.not_true, bind, Res.bind]
    cases es[i]? <;> rfl

/-- tuple HasIndex with an arbitrary (known, unmarked) number key; the payload plays no part -/
theorem hasIndex_tuple_num (es : List Ty) (p : Payload) (hp : p.isMarked = false) (x : Num) :
    Value.hasIndex ⟨.tuple es, p⟩ ⟨.number, .n x⟩ =
      .ok (boolVal (match keyIndex ⟨.number, .n x⟩ with
       | .ok (some i) => decide (i < es.length)
       | _ => false)) := by
  obtain ⟨o, ho⟩ := keyIndex_num_ok .number x
  rw [ho]
  have h1 : (⟨.tuple es, p⟩ : Value).isMarked = false := hp
  have h2 : (⟨.number, .n x⟩ : Value).isMarked = false := rfl
  have h3 : (⟨.number, .n x⟩ : Value).isKnown = true := rfl
  cases o <;>
    simp [Value.hasIndex, binMarks, h1, h2, h3, hasIndexU, Ty.isDyn, Ty.isNumber, ho]

/-- Tuple indexing returns exactly the member (with its own element type) the tuple was built from. -/
theorem index_tuple (es : List Ty) (vs : List Payload) (i : Nat) (hi : (i : Int) ≤ maxInt) :
    Value.index ⟨.tuple es, .seq vs⟩ (intVal i) =
      (match es[i]? with
       | none => .panic "index out of range"
       | some t => match vs[i]? with | some p => .ok ⟨t, p⟩ | none => .panic "index out of range") := by
  have hk := keyIndex_intVal i hi
  simp only [intVal, numVal] at hk ⊢
  rw [index_tuple_num, hk]

/-- Tuple HasIndex is true exactly for the positions the tuple type has. -/
theorem hasIndex_tuple (es : List Ty) (vs : List Payload) (i : Nat) (hi : (i : Int) ≤ maxInt) :
    Value.hasIndex ⟨.tuple es, .seq vs⟩ (intVal i) = .ok (boolVal (decide (i < es.length))) := by
  have hk := keyIndex_intVal i hi
  simp only [intVal, numVal] at hk ⊢
  rw [hasIndex_tuple_num _ _ rfl, hk]

/-- an in-range tuple position: Index returns the stored member at its declared type -/
theorem index_tuple_get (es : List Ty) (vs : List Payload) (i : Nat) (hi : (i : Int) ≤ maxInt)
    (h1 : i < es.length) (h2 : i < vs.length) :
    Value.index ⟨.tuple es, .seq vs⟩ (intVal i) = .ok ⟨es[i], vs[i]⟩ := by
  rw [index_tuple es vs i hi]
  simp [h1, h2]

example : Value.index ⟨.tuple [.string, .bool], .seq [.s "a", .b true]⟩ (intVal (1 : Nat)) = .ok ⟨.bool, .b true⟩ :=
  index_tuple_get _ _ 1 (by decide) (by decide) (by decide)

/-! ### 3. Maps -/

/-- Map indexing returns the stored member of the key (a missing key reads as null of the element type). -/
theorem index_map (e : Ty) (ks : List String) (vs : List Payload) (k : String) :
    Value.index ⟨.map e, .smap ks vs⟩ ⟨.string, .s k⟩ = .ok ⟨e, (lookupKey k ks vs).getD .null⟩ := by
  simp [Value.index, binMarks, Value.isMarked, Payload.isMarked, indexU, Value.isKnown,
    Payload.isKnown, Payload.unmark1, Ty.isDyn, Ty.isString]

/-- Map HasIndex is key membership. -/
theorem hasIndex_map (e : Ty) (ks : List String) (vs : List Payload) (k : String) :
    Value.hasIndex ⟨.map e, .smap ks vs⟩ ⟨.string, .s k⟩ = .ok (boolVal (ks.contains k)) := by
  simp [Value.hasIndex, binMarks, Value.isMarked, Payload.isMarked, hasIndexU, Value.isKnown,
    Payload.isKnown, Payload.unmark1, Ty.isDyn, Ty.isString]

/-- a key with a stored member is one of the keys -/
theorem lookupKey_some_contains (k : String) : ∀ (ks : List String) (vs : List Payload) (p : Payload),
    lookupKey k ks vs = some p → ks.contains k = true
  | [], _, _, h => by simp [lookupKey] at h
  | _ :: _, [], _, h => by simp [lookupKey] at h
  | n :: ns, v :: vs, p, h => by
    simp only [lookupKey] at h
    by_cases hn : n = k
    · simp [hn]
    · simp only [hn, if_false] at h
      have := lookupKey_some_contains k ns vs p h
      simp only [List.contains_cons, this, Bool.or_true]

/-- with as many members as keys: a key is present exactly when the lookup finds a member -/
theorem contains_iff_lookupKey (k : String) : ∀ (ks : List String) (vs : List Payload),
    ks.length = vs.length → (ks.contains k = true ↔ (lookupKey k ks vs).isSome = true)
  | [], [], _ => by simp [lookupKey]
  | [], _ :: _, h => by simp at h
  | _ :: _, [], h => by simp at h
  | n :: ns, v :: vs, h => by
    simp only [lookupKey, List.contains_cons]
    by_cases hn : n = k
    · simp [hn]
    · have hkn : (k == n) = false := by simpa using fun h' => hn h'.symm
      simp only [hn, if_false, hkn, Bool.false_or]
      exact contains_iff_lookupKey k ns vs (by simpa using h)

/-- Present key: Index returns exactly the stored member and HasIndex answers true. -/
theorem index_map_present (e : Ty) (ks : List String) (vs : List Payload) (k : String) (p : Payload)
    (h : lookupKey k ks vs = some p) :
    Value.index ⟨.map e, .smap ks vs⟩ ⟨.string, .s k⟩ = .ok ⟨e, p⟩ ∧
    Value.hasIndex ⟨.map e, .smap ks vs⟩ ⟨.string, .s k⟩ = .ok (boolVal true) := by
  rw [index_map, hasIndex_map, h, lookupKey_some_contains k ks vs p h]
  exact ⟨rfl, rfl⟩

example : lookupKey "b" ["a", "b"] [.s "x", .s "y"] = some (.s "y") := by decide

/-! ### 5. An index lookup succeeds exactly when HasIndex answers true (lists, tuples) -/

/-- Lists, EVERY number key (fractional, negative, huge, infinite included): Index succeeds iff HasIndex is True. -/
theorem indexOk_iff_hasIndex_list (e : Ty) (vs : List Payload) (x : Num) :
    (Value.index ⟨.list e, .seq vs⟩ ⟨.number, .n x⟩).isOk = true ↔
      Value.hasIndex ⟨.list e, .seq vs⟩ ⟨.number, .n x⟩ = .ok (boolVal true) := by
  rw [index_list_num, hasIndex_list_num]
  obtain ⟨o, ho⟩ := keyIndex_num_ok .number x
  rw [ho]
  cases o with
  | none => simp [Res.isOk, boolVal]
  | some i =>
    simp only [Res.ok.injEq, boolVal, Value.mk.injEq, Payload.b.injEq, true_and, decide_eq_true_eq]
    by_cases h : i < vs.length
    · simp [h, Res.isOk]
    · simp [h, Res.isOk]

/-- Tuples whose payload has as many members as the type has positions, EVERY number key. -/
theorem indexOk_iff_hasIndex_tuple (es : List Ty) (vs : List Payload) (hl : es.length = vs.length) (x : Num) :
    (Value.index ⟨.tuple es, .seq vs⟩ ⟨.number, .n x⟩).isOk = true ↔
      Value.hasIndex ⟨.tuple es, .seq vs⟩ ⟨.number, .n x⟩ = .ok (boolVal true) := by
  rw [index_tuple_num, hasIndex_tuple_num _ _ rfl]
  obtain ⟨o, ho⟩ := keyIndex_num_ok .number x
  rw [ho]
  cases o with
  | none => simp [Res.isOk, boolVal]
  | some i =>
    simp only [Res.ok.injEq, boolVal, Value.mk.injEq, Payload.b.injEq, true_and, decide_eq_true_eq]
    by_cases h : i < es.length
    · have h' : i < vs.length := hl ▸ h
      simp [h, h', Res.isOk]
    · simp [h, Res.isOk]

/-- The length hypothesis is needed: on a (malformed) tuple value with fewer members than
positions HasIndex answers True where Index panics. -/
theorem indexOk_iff_hasIndex_tuple_short_counterexample :
    Value.index ⟨.tuple [.string], .seq []⟩ (intVal (0 : Nat)) = .panic "index out of range" ∧
    Value.hasIndex ⟨.tuple [.string], .seq []⟩ (intVal (0 : Nat)) = .ok (boolVal true) := by
  constructor <;> decide

/-- Lists, any unmarked known key of a type other than the dynamic pseudo-type (string,
bool, collection keys: Index panics, HasIndex answers False; a null number: both panic). -/
theorem indexOk_iff_hasIndex_list_key (e : Ty) (vs : List Payload) (k : Value)
    (hm : k.isMarked = false) (hk : k.isKnown = true) (hd : k.ty.isDyn = false) :
    (Value.index ⟨.list e, .seq vs⟩ k).isOk = true ↔
      Value.hasIndex ⟨.list e, .seq vs⟩ k = .ok (boolVal true) := by
  have h1 : (⟨.list e, .seq vs⟩ : Value).isMarked = false := rfl
  have h2 : (⟨.list e, .seq vs⟩ : Value).isKnown = true := rfl
  have h3 : (Ty.list e).isDyn = false := rfl
  simp only [Value.index, Value.hasIndex, binMarks, h1, hm, Bool.or_self, Bool.false_eq_true, if_false,
    indexU, hasIndexU, h3, hd, hk, h2, Bool.not_true]
  by_cases hn : k.ty.isNumber = true
  · simp only [hn, Bool.not_true, Bool.false_eq_true, if_false, bind, Res.bind]
    cases hki : keyIndex k with
    | ok o =>
      cases o with
      | none => simp [Res.isOk, boolVal]
      | some i =>
        by_cases h : i < vs.length
        · simp [h, Res.isOk]
        · simp [h, Res.isOk, boolVal]
    | err c => simp [Res.isOk]
    | panic w => simp [Res.isOk]
    | unmodelled => simp [Res.isOk]
  · simp [hn, Res.isOk, boolVal]

/-- Tuples (as many members as positions), any unmarked known key of a non-dynamic type. -/
theorem indexOk_iff_hasIndex_tuple_key (es : List Ty) (vs : List Payload) (hl : es.length = vs.length) (k : Value)
    (hm : k.isMarked = false) (hk : k.isKnown = true) (hd : k.ty.isDyn = false) :
    (Value.index ⟨.tuple es, .seq vs⟩ k).isOk = true ↔
      Value.hasIndex ⟨.tuple es, .seq vs⟩ k = .ok (boolVal true) := by
  have h1 : (⟨.tuple es, .seq vs⟩ : Value).isMarked = false := rfl
  have h2 : (⟨.tuple es, .seq vs⟩ : Value).isKnown = true := rfl
  have h3 : (Ty.tuple es).isDyn = false := rfl
  simp only [Value.index, Value.hasIndex, binMarks, h1, hm, Bool.or_self, Bool.false_eq_true, if_false,
    indexU, hasIndexU, h3, hd, hk, h2, Bool.not_true]
  by_cases hn : k.ty.isNumber = true
  · simp only [hn, Bool.not_true, Bool.false_eq_true, if_false, bind, Res.bind]
    cases hki : keyIndex k with
    | ok o =>
      cases o with
      | none => simp [Res.isOk, boolVal]
      | some i =>
        by_cases h : i < es.length
        · have h' : i < vs.length := hl ▸ h
          simp [h, h', Res.isOk]
        · simp [h, Res.isOk, boolVal]
    | err c => simp [Res.isOk]
    | panic w => simp [Res.isOk]
    | unmodelled => simp [Res.isOk]
  · simp [hn, Res.isOk, boolVal]

/-- The key must be known and not dynamically typed: an unknown number key makes Index
succeed (with an unknown member) while HasIndex answers the unknown bool. -/
theorem indexOk_iff_hasIndex_unknown_key_counterexample :
    Value.index ⟨.list .string, .seq [.s "a"]⟩ ⟨.number, .unk .unref⟩ = .ok (unknown .string) ∧
    Value.hasIndex ⟨.list .string, .seq [.s "a"]⟩ ⟨.number, .unk .unref⟩ = .ok unkBool := by
  constructor <;> rfl

example : (⟨.string, .s "a"⟩ : Value).isMarked = false ∧ (⟨.string, .s "a"⟩ : Value).isKnown = true ∧
    (⟨.string, .s "a"⟩ : Value).ty.isDyn = false := by decide
example : Value.hasIndex ⟨.list .string, .seq [.s "a", .s "b"]⟩ ⟨.number, .n (.fin false 1 (-1) 53)⟩ = .ok (boolVal false) := by
  decide

/-! ### 4. Length -/

/-- Length of a tuple is the number of element types, whatever the payload. -/
theorem length_tuple (es : List Ty) (p : Payload) (hp : p.isMarked = false) :
    Value.length ⟨.tuple es, p⟩ = .ok (intVal es.length) := by
  have h1 : ∀ t, (⟨t, p⟩ : Value).isMarked = false := fun _ => hp
  simp [Value.length, unMarks, h1, lengthU]

/-- Length of an object is the number of attributes, whatever the payload. -/
theorem length_object (ns : List String) (ts : List Ty) (os : List Bool) (p : Payload) (hp : p.isMarked = false) :
    Value.length ⟨.object ns ts os, p⟩ = .ok (intVal ns.length) := by
  have h1 : ∀ t, (⟨t, p⟩ : Value).isMarked = false := fun _ => hp
  simp [Value.length, unMarks, h1, lengthU]

/-- Length of a known map is the number of members it was built from. -/
theorem length_map (e : Ty) (ks : List String) (vs : List Payload) :
    Value.length ⟨.map e, .smap ks vs⟩ = .ok (intVal vs.length) := by
  simp [Value.length, unMarks, Value.isMarked, Payload.isMarked, lengthU, Value.isKnown, Payload.isKnown,
    Payload.unmark1]

/-- Length of a set of wholly known members is the number of members. -/
theorem length_set (e : Ty) (ids : List Int) (vs : List Payload) (hk : Payload.whollyKnownL vs = true) :
    Value.length ⟨.set e, .sset ids vs⟩ = .ok (intVal vs.length) := by
  simp [Value.length, unMarks, Value.isMarked, Payload.isMarked, lengthU, Value.isKnown, Payload.isKnown,
    Payload.unmark1, hk]

/-- Length of a one-member set is 1 even if the member is unknown. -/
theorem length_set_singleton (e : Ty) (i : Int) (v : Payload) :
    Value.length ⟨.set e, .sset [i] [v]⟩ = .ok (intVal (1 : Nat)) := by
  simp [Value.length, unMarks, Value.isMarked, Payload.isMarked, lengthU, Value.isKnown, Payload.isKnown,
    Payload.unmark1]

example : Payload.whollyKnownL [.s "a", .seq [.b true]] = true := by decide

end D02
end CtyModel
