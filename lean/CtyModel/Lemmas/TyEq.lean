/- `Type.Equals` decides structural identity on well-formed types. -/
import CtyModel.Lemmas.Asc
namespace CtyModel
namespace Ty

theorem find_mem {k : String} : ∀ {ns : List String} {ts : List Ty} {os : List Bool} {r},
    find k ns ts os = some r → k ∈ ns
  | [], _, _, _, h => by simp [find] at h
  | _ :: _, [], _, _, h => by simp [find] at h
  | _ :: _, _ :: _, [], _, h => by simp [find] at h
  | n :: ns, t :: ts, o :: os, r, h => by
    simp only [find] at h
    split at h
    · simp [*]
    · exact List.mem_cons_of_mem _ (find_mem h)

theorem find_wf {k : String} : ∀ {ns : List String} {ts : List Ty} {os : List Bool} {u p},
    wfL ts = true → find k ns ts os = some (u, p) → wf u = true
  | [], _, _, _, _, _, h => by simp [find] at h
  | _ :: _, [], _, _, _, _, h => by simp [find] at h
  | _ :: _, _ :: _, [], _, _, _, h => by simp [find] at h
  | n :: ns, t :: ts, o :: os, u, p, hw, h => by
    simp only [find] at h
    simp only [wfL, Bool.and_eq_true] at hw
    split at h
    · simp at h; exact h.1 ▸ hw.1
    · exact find_wf hw.2 h

/-- every field of the first triple of lists is found, identically, in the second -/
def FieldsIn : List String → List Ty → List Bool → List String → List Ty → List Bool → Prop
  | k :: ks, t :: ts, o :: os, n2, t2, o2 =>
    find k n2 t2 o2 = some (t, o) ∧ FieldsIn ks ts os n2 t2 o2
  | _, _, _, _, _, _ => True

theorem FieldsIn_names : ∀ {ks ts os n2 t2 o2}, ks.length = ts.length → os.length = ts.length →
    FieldsIn ks ts os n2 t2 o2 → ∀ x ∈ ks, x ∈ n2
  | [], _, _, _, _, _, _, _, _ => by simp
  | k :: ks, [], _, _, _, _, h, _, _ => by simp at h
  | k :: ks, t :: ts, [], _, _, _, _, h, _ => by simp at h
  | k :: ks, t :: ts, o :: os, n2, t2, o2, h1, h2, hf => by
    intro x hx
    simp only [FieldsIn] at hf
    rcases List.mem_cons.mp hx with rfl | hx
    · exact find_mem hf.1
    · exact FieldsIn_names (by simpa using h1) (by simpa using h2) hf.2 x hx

theorem FieldsIn_skip {k : String} {u : Ty} {p : Bool} :
    ∀ {ks ts os n2 t2 o2}, (∀ x ∈ ks, x ≠ k) →
    (FieldsIn ks ts os (k :: n2) (u :: t2) (p :: o2) ↔ FieldsIn ks ts os n2 t2 o2)
  | [], _, _, _, _, _, _ => by simp [FieldsIn]
  | _ :: _, [], _, _, _, _, _ => by simp [FieldsIn]
  | _ :: _, _ :: _, [], _, _, _, _ => by simp [FieldsIn]
  | a :: ks, t :: ts, o :: os, n2, t2, o2, h => by
    have ha : k ≠ a := fun e => h a (by simp) e.symm
    simp only [FieldsIn, find, ha, if_false]
    rw [FieldsIn_skip (fun x hx => h x (List.mem_cons_of_mem _ hx))]

theorem FieldsIn_self : ∀ {ns : List String} {ts : List Ty} {os : List Bool},
    strictAsc ns = true → FieldsIn ns ts os ns ts os
  | [], _, _, _ => by simp [FieldsIn]
  | _ :: _, [], _, _ => by simp [FieldsIn]
  | _ :: _, _ :: _, [], _ => by simp [FieldsIn]
  | n :: ns, t :: ts, o :: os, h => by
    have ⟨h', hlt⟩ := strictAsc_cons h
    simp only [FieldsIn, find, if_true, true_and]
    rw [FieldsIn_skip]
    · exact FieldsIn_self h'
    · intro x hx e; exact String.lt_irrefl _ (e ▸ hlt x hx)

theorem FieldsIn_same_names {ns : List String} {t1 t2 : List Ty} {o1 o2 : List Bool}
    (h : strictAsc ns = true) (l1 : ns.length = t1.length) (l2 : o1.length = t1.length)
    (l3 : t2.length = t1.length) (l4 : o2.length = t1.length)
    (hf : FieldsIn ns t1 o1 ns t2 o2) : t1 = t2 ∧ o1 = o2 := by
  induction ns generalizing t1 t2 o1 o2 with
  | nil =>
    cases t1 with
    | cons _ _ => simp at l1
    | nil =>
      cases t2 with
      | cons _ _ => simp at l3
      | nil =>
        cases o1 with
        | cons _ _ => simp at l2
        | nil =>
          cases o2 with
          | cons _ _ => simp at l4
          | nil => exact ⟨rfl, rfl⟩
  | cons n ns ih =>
    cases t1 with
    | nil => simp at l1
    | cons a t1 =>
      cases t2 with
      | nil => simp at l3
      | cons b t2 =>
        cases o1 with
        | nil => simp at l2
        | cons p o1 =>
          cases o2 with
          | nil => simp at l4
          | cons q o2 =>
            have ⟨h', hlt⟩ := strictAsc_cons h
            simp only [FieldsIn, find, if_true, Option.some.injEq, Prod.mk.injEq] at hf
            obtain ⟨⟨hba, hqp⟩, hf⟩ := hf
            rw [FieldsIn_skip (fun x hx e => String.lt_irrefl _ (e ▸ hlt x hx))] at hf
            have := ih h' (by simpa using l1) (by simpa using l2)
              (by simpa using l3) (by simpa using l4) hf
            simp [hba, hqp, this.1, this.2]

/-- On well-formed attribute lists, mutual inclusion of fields is identity. -/
theorem FieldsIn_eq {n1 n2 : List String} {t1 t2 : List Ty} {o1 o2 : List Bool}
    (a1 : strictAsc n1 = true) (a2 : strictAsc n2 = true)
    (l1 : n1.length = t1.length) (l1' : o1.length = t1.length)
    (l2 : n2.length = t2.length) (l2' : o2.length = t2.length)
    (hlen : t1.length = t2.length)
    (hf : FieldsIn n1 t1 o1 n2 t2 o2) : n1 = n2 ∧ t1 = t2 ∧ o1 = o2 := by
  have hn : n1 = n2 := asc_subset_eq n1 n2 a1 a2 (by omega) (FieldsIn_names l1 l1' hf)
  subst hn
  have := FieldsIn_same_names a1 l1 l1' (by omega) (by omega) hf
  exact ⟨rfl, this.1, this.2⟩

mutual
theorem equals_iff_eq : ∀ (a b : Ty), wf a = true → wf b = true → (equals a b = true ↔ a = b)
  | .bool, b, _, _ => by cases b <;> simp [equals]
  | .number, b, _, _ => by cases b <;> simp [equals]
  | .string, b, _, _ => by cases b <;> simp [equals]
  | .dyn, b, _, _ => by cases b <;> simp [equals]
  | .capsule _, b, _, _ => by cases b <;> simp [equals]
  | .list a, b, ha, hb => by
    cases b <;> simp [equals]
    simp only [wf] at ha hb; exact equals_iff_eq a _ ha hb
  | .set a, b, ha, hb => by
    cases b <;> simp [equals]
    simp only [wf] at ha hb; exact equals_iff_eq a _ ha hb
  | .map a, b, ha, hb => by
    cases b <;> simp [equals]
    simp only [wf] at ha hb; exact equals_iff_eq a _ ha hb
  | .tuple as, b, ha, hb => by
    cases b <;> simp [equals]
    rename_i bs
    simp only [wf] at ha hb
    constructor
    · rintro ⟨hl, hz⟩; exact (equalsZip_iff as bs ha hb hl).mp hz
    · rintro rfl; exact ⟨rfl, (equalsZip_iff as as ha ha rfl).mpr rfl⟩
  | .object n1 t1 o1, b, ha, hb => by
    cases b <;> simp [equals]
    rename_i n2 t2 o2
    simp only [wf, Bool.and_eq_true, beq_iff_eq] at ha hb
    obtain ⟨⟨⟨l1, l1'⟩, a1⟩, w1⟩ := ha
    obtain ⟨⟨⟨l2, l2'⟩, a2⟩, w2⟩ := hb
    constructor
    · rintro ⟨hl, hf⟩
      have := (equalsFields_iff n1 t1 o1 n2 t2 o2 w1 w2).mp hf
      exact FieldsIn_eq a1 a2 l1 l1' l2 l2' hl this
    · rintro ⟨rfl, rfl, rfl⟩
      exact ⟨rfl, (equalsFields_iff n1 t1 o1 n1 t1 o1 w1 w1).mpr (FieldsIn_self a1)⟩
theorem equalsZip_iff : ∀ (as bs : List Ty), wfL as = true → wfL bs = true → as.length = bs.length →
    (equalsZip as bs = true ↔ as = bs)
  | [], [], _, _, _ => by simp [equalsZip]
  | [], _ :: _, _, _, h => by simp at h
  | _ :: _, [], _, _, h => by simp at h
  | a :: as, b :: bs, ha, hb, hl => by
    simp only [wfL, Bool.and_eq_true] at ha hb
    simp only [equalsZip, Bool.and_eq_true, List.cons.injEq]
    rw [equals_iff_eq a b ha.1 hb.1, equalsZip_iff as bs ha.2 hb.2 (by simpa using hl)]
theorem equalsFields_iff : ∀ (ks : List String) (ts : List Ty) (os : List Bool)
    (n2 : List String) (t2 : List Ty) (o2 : List Bool), wfL ts = true → wfL t2 = true →
    (equalsFields ks ts os n2 t2 o2 = true ↔ FieldsIn ks ts os n2 t2 o2)
  | [], _, _, _, _, _, _, _ => by simp [equalsFields, FieldsIn]
  | _ :: _, [], _, _, _, _, _, _ => by simp [equalsFields, FieldsIn]
  | _ :: _, _ :: _, [], _, _, _, _, _ => by simp [equalsFields, FieldsIn]
  | k :: ks, t :: ts, o :: os, n2, t2, o2, hw, hw2 => by
    simp only [wfL, Bool.and_eq_true] at hw
    simp only [equalsFields, FieldsIn, Bool.and_eq_true]
    rw [equalsFields_iff ks ts os n2 t2 o2 hw.2 hw2]
    apply and_congr_left'
    cases hfind : find k n2 t2 o2 with
    | none => simp
    | some r =>
      obtain ⟨u, p⟩ := r
      have hu := find_wf hw2 hfind
      simp only [Bool.and_eq_true, beq_iff_eq, Option.some.injEq, Prod.mk.injEq]
      rw [equals_iff_eq t u hw.1 hu]
      constructor <;> rintro ⟨h1, h2⟩ <;> exact ⟨h1.symm, h2.symm⟩
end

end Ty
end CtyModel
