/-
C01 for attribute / index / membership-by-key / length operations on lists, maps,
tuples and objects: a weakened container holds, position by position, members
that cover the concrete members, an unknown container or key answers with an
unknown of the member type (or the bounds of the length refinement), and a
container of the placeholder type answers `cty.DynamicVal`.
-/
import CtyModel.Lemmas.OpsArith
import CtyModel.Lemmas.NumOfInt
import CtyModel.Lemmas.CoversWeaken
namespace CtyModel
open Value Cov NumCmp







/-! ### lists of payloads under `stripMarks` and `coversL` -/
theorem stripMarksL_getElem? : ∀ (vs : List Payload) (i : Nat),
    (Payload.stripMarksL vs)[i]? = (vs[i]?).map Payload.stripMarks
  | [], i => by simp [Payload.stripMarksL]
  | v :: vs, 0 => by simp [Payload.stripMarksL]
  | v :: vs, i + 1 => by simp [Payload.stripMarksL, stripMarksL_getElem? vs i]

theorem stripMarksL_length : ∀ (vs : List Payload), (Payload.stripMarksL vs).length = vs.length
  | [] => by simp [Payload.stripMarksL]
  | v :: vs => by simp [Payload.stripMarksL, stripMarksL_length vs]

theorem lookupKey_strip (k : String) : ∀ (ks : List String) (vs : List Payload),
    lookupKey k ks (Payload.stripMarksL vs) = (lookupKey k ks vs).map Payload.stripMarks
  | [], vs => by cases vs <;> simp [lookupKey, Payload.stripMarksL]
  | n :: ns, [] => by simp [lookupKey, Payload.stripMarksL]
  | n :: ns, v :: vs => by
    simp only [lookupKey, Payload.stripMarksL]
    split
    · simp
    · exact lookupKey_strip k ns vs

theorem coversL_length {ex : Bool} : ∀ {as cs : List Payload}, coversL ex as cs = true → as.length = cs.length
  | [], cs, h => by cases cs <;> simp_all [coversL]
  | a :: as, [], h => by simp [coversL] at h
  | a :: as, c :: cs, h => by
    simp only [coversL, Bool.and_eq_true] at h
    simp [coversL_length h.2]

theorem coversL_getElem? {ex : Bool} : ∀ {as cs : List Payload} {i : Nat} {c : Payload},
    coversL ex as cs = true → cs[i]? = some c → ∃ a, as[i]? = some a ∧ coversP ex a c = true
  | [], cs, i, c, h, hc => by cases cs <;> simp_all [coversL]
  | a :: as, [], i, c, h, hc => by simp at hc
  | a :: as, c' :: cs, 0, c, h, hc => by
    simp only [coversL, Bool.and_eq_true] at h
    simp at hc; subst hc
    exact ⟨a, by simp, h.1⟩
  | a :: as, c' :: cs, i + 1, c, h, hc => by
    simp only [coversL, Bool.and_eq_true] at h
    simp at hc
    simpa using coversL_getElem? h.2 hc

theorem coversL_lookup {ex : Bool} (k : String) : ∀ {ks : List String} {as cs : List Payload},
    coversL ex as cs = true →
    (match lookupKey k ks cs with
     | some c => ∃ a, lookupKey k ks as = some a ∧ coversP ex a c = true
     | none => lookupKey k ks as = none)
  | [], as, cs, h => by cases as <;> cases cs <;> simp [lookupKey]
  | n :: ns, [], cs, h => by cases cs <;> simp_all [coversL, lookupKey]
  | n :: ns, a :: as, [], h => by simp [coversL] at h
  | n :: ns, a :: as, c :: cs, h => by
    simp only [coversL, Bool.and_eq_true] at h
    simp only [lookupKey]
    by_cases hk : n = k
    · simp [hk, h.1]
    · simp only [hk, if_false]
      exact coversL_lookup k h.2

/-! ### the shape of a known value that covers a known sequence / map -/
theorem covers_seq_inv {ex : Bool} {w o : Value} {vs : List Payload} (hc : CoversG ex w o = true) (ho : o.v = .seq vs)
    (hw : w.isMarked = false) (hu : w.isUnk = false) :
    ∃ ws, w.v = .seq ws ∧ coversL ex (Payload.stripMarksL ws) (Payload.stripMarksL vs) = true := by
  obtain ⟨tw, pw⟩ := w
  obtain ⟨to, po⟩ := o
  simp only at ho; subst ho
  simp only [CoversG, Bool.and_eq_true] at hc
  obtain ⟨_, hcp⟩ := hc
  cases pw <;> simp_all [Payload.stripMarks, coversP, Value.isMarked, Payload.isMarked, Value.isUnk]

theorem covers_smap_inv {ex : Bool} {w o : Value} {ks : List String} {vs : List Payload} (hc : CoversG ex w o = true)
    (ho : o.v = .smap ks vs) (hw : w.isMarked = false) (hu : w.isUnk = false) :
    ∃ ws, w.v = .smap ks ws ∧ coversL ex (Payload.stripMarksL ws) (Payload.stripMarksL vs) = true := by
  obtain ⟨tw, pw⟩ := w
  obtain ⟨to, po⟩ := o
  simp only at ho; subst ho
  simp only [CoversG, Bool.and_eq_true] at hc
  obtain ⟨_, hcp⟩ := hc
  cases pw <;> simp_all [Payload.stripMarks, coversP, Value.isMarked, Payload.isMarked, Value.isUnk]

/-- members found at the same place of exactly covering containers cover each other -/
theorem covers_member {t t' : Ty} {q p : Payload} (hm : Ty.matches t' t = true)
    (h : coversP true q.stripMarks p.stripMarks = true) : Covers ⟨t', q⟩ ⟨t, p⟩ = true := by
  simp only [Covers, CoversG, hm, Bool.true_and]
  exact coversP_mono _ _ h


theorem find_matchesL {k : String} : ∀ {ns : List String} {ts ts' : List Ty} {os os' : List Bool} {t : Ty} {b : Bool},
    Ty.matchesL ts' ts = true → os'.length = ts'.length → Ty.find k ns ts os = some (t, b) →
    ∃ t' b', Ty.find k ns ts' os' = some (t', b') ∧ Ty.matches t' t = true
  | [], ts, ts', os, os', t, b, hm, hl, hf => by simp [Ty.find] at hf
  | n :: ns, [], ts', os, os', t, b, hm, hl, hf => by simp [Ty.find] at hf
  | n :: ns, u :: ts, [], os, os', t, b, hm, hl, hf => by simp [Ty.matchesL] at hm
  | n :: ns, u :: ts, u' :: ts', [], os', t, b, hm, hl, hf => by simp [Ty.find] at hf
  | n :: ns, u :: ts, u' :: ts', o :: os, [], t, b, hm, hl, hf => by simp at hl
  | n :: ns, u :: ts, u' :: ts', o :: os, o' :: os', t, b, hm, hl, hf => by
    simp only [Ty.matchesL, Bool.and_eq_true] at hm
    simp only [Ty.find] at hf ⊢
    by_cases hk : n = k
    · simp only [hk, if_true, Option.some.injEq, Prod.mk.injEq] at hf ⊢
      exact ⟨u', o', ⟨rfl, rfl⟩, hf.1 ▸ hm.1⟩
    · simp only [hk, if_false] at hf ⊢
      exact find_matchesL hm.2 (by simpa using hl) hf

theorem isUnk_iff_not_isKnown {v : Value} (h : v.isMarked = false) : v.isUnk = !v.isKnown := by
  obtain ⟨t, p⟩ := v
  cases p <;> simp_all [Value.isUnk, Value.isKnown, Payload.isKnown, Payload.unmark1, Value.isMarked, Payload.isMarked]

theorem isKnown_of_whollyKnown {v : Value} (h : v.whollyKnown = true) : v.isKnown = true := by
  obtain ⟨t, p⟩ := v
  cases p <;> simp_all [Value.whollyKnown, Payload.whollyKnown, Value.isKnown, Payload.isKnown, Payload.unmark1]
  rename_i ms r
  cases r <;> simp_all [Payload.whollyKnown]

theorem getAttrU_sound (name : String) : SoundUW₁ (fun v => getAttrU v name) := by
  intro o w r hk hmo hmw hfo hfw hc ho
  have hg : CoversG true w o = true := hc
  simp only [getAttrU] at ho ⊢
  by_cases hd : o.ty.isDyn = true
  · simp only [hd, if_true, Res.ok.injEq] at ho
    subst ho
    simp only [covers_ty_dyn hg (isDyn_iff.mp hd), Ty.isDyn, if_true]
    exact ⟨_, rfl, covers_dynVal _⟩
  · simp only [hd, Bool.false_eq_true, if_false] at ho
    split at ho
    · rename_i ns ts os hty
      split at ho
      · simp at ho
      · rename_i aty ob hfind
        simp only [isKnown_of_whollyKnown hk, Bool.not_true, Bool.false_eq_true, if_false] at ho
        split at ho
        · rename_i ks vs hov
          -- the type of w
          have hm : Ty.matches w.ty (.object ns ts os) = true := by
            simp only [CoversG, Bool.and_eq_true] at hg; rw [← hty]; exact hg.1
          rcases matches_object_right hm with hwd | ⟨ts', os', hwt, hml⟩
          · simp only [hwd, Ty.isDyn, if_true]
            exact ⟨_, rfl, covers_dynVal _⟩
          · have hwf := wfc_ty hfw
            rw [hwt] at hwf
            simp only [Ty.wf, Bool.and_eq_true, beq_iff_eq] at hwf
            obtain ⟨t', b', hf', hmt⟩ := find_matchesL (os' := os') hml hwf.1.1.2 hfind
            simp only [hwt, Ty.isDyn, Bool.false_eq_true, if_false, hf']
            by_cases hwk : w.isKnown = true
            · simp only [hwk, Bool.not_true, Bool.false_eq_true, if_false]
              have hu : w.isUnk = false := by rw [isUnk_iff_not_isKnown hmw, hwk]; rfl
              obtain ⟨ws, hwv, hcl⟩ := covers_smap_inv hg hov hmw hu
              simp only [hwv]
              have hl := coversL_lookup name (ks := ks) hcl
              rw [lookupKey_strip, lookupKey_strip] at hl
              cases hlo : lookupKey name ks vs with
              | none =>
                simp only [hlo, Option.map_none] at hl ho
                simp only [Option.map_eq_none_iff] at hl
                simp only [hl]
                cases ho
                exact ⟨_, rfl, covers_member hmt (by simp [Payload.stripMarks, coversP])⟩
              | some p =>
                simp only [hlo, Option.map_some] at hl ho
                obtain ⟨a, ha, hcov⟩ := hl
                cases hlw : lookupKey name ks ws with
                | none => simp [hlw] at ha
                | some q =>
                  simp only [hlw, Option.map_some, Option.some.injEq] at ha
                  subst ha
                  cases ho
                  exact ⟨_, rfl, covers_member hmt hcov⟩
            · simp only [hwk, Bool.not_false, if_true]
              cases hlo : lookupKey name ks vs <;> simp only [hlo] at ho <;> cases ho <;>
                exact ⟨_, rfl, covers_unknown hmt⟩
        · simp at ho
    · simp at ho

/-! ### keys -/
theorem key_ty_of_covers {ex : Bool} {wk ok : Value} (hc : CoversG ex wk ok = true) (hd : wk.ty.isDyn = false) :
    wk.ty.isNumber = ok.ty.isNumber ∧ wk.ty.isString = ok.ty.isString ∧ ok.ty.isDyn = false := by
  simp only [CoversG, Bool.and_eq_true] at hc
  obtain ⟨hm, _⟩ := hc
  obtain ⟨tw, pw⟩ := wk
  obtain ⟨to, po⟩ := ok
  simp only at hm hd ⊢
  cases tw <;> cases to <;> simp_all [Ty.matches, Ty.isDyn, Ty.isNumber, Ty.isString]

theorem keyIndex_inv {k : Value} {j : Option Nat} (h : keyIndex k = .ok j) : ∃ x, k.v = .n x := by
  obtain ⟨t, p⟩ := k
  cases p <;> simp_all [keyIndex]

theorem num_payload_of_covers {ex : Bool} {w o : Value} {x : Num} (hc : CoversG ex w o = true) (ho : o.v = .n x)
    (hw : w.isMarked = false) (hu : w.isKnown = true) : ∃ y, w.v = .n y ∧ numEq ex y x = true := by
  have hx : asNum o = .ok x := by simp [asNum, ho]
  have : w.isUnk = false := by rw [isUnk_iff_not_isKnown hw, hu]; rfl
  obtain ⟨y, hy, hs⟩ := asNum_of_covers hc hx hw this
  exact ⟨y, asNum_inv hy, hs⟩

theorem keyIndex_of_covers {wk ok : Value} {j : Option Nat} (hc : CoversX wk ok = true) (hk : keyIndex ok = .ok j)
    (hw : wk.isMarked = false) (hu : wk.isKnown = true) : keyIndex wk = .ok j := by
  obtain ⟨x, hx⟩ := keyIndex_inv hk
  obtain ⟨y, hy, he⟩ := num_payload_of_covers (ex := true) hc hx hw hu
  have := numEq_exact he
  subst this
  simp only [keyIndex, hx] at hk
  simp only [keyIndex, hy, hk]

theorem str_payload_of_covers {ex : Bool} {w o : Value} {s : String} (hc : CoversG ex w o = true) (ho : o.v = .s s)
    (hw : w.isMarked = false) (hu : w.isKnown = true) : w.v = .s s := by
  obtain ⟨tw, pw⟩ := w
  obtain ⟨to, po⟩ := o
  simp only at ho; subst ho
  simp only [CoversG, Bool.and_eq_true] at hc
  obtain ⟨_, hcp⟩ := hc
  cases pw <;> simp_all [Payload.stripMarks, coversP, Value.isMarked, Payload.isMarked, Value.isKnown, Payload.isKnown, Payload.unmark1]

theorem covers_unkBool_of {r : Value} (h : r = unkBool ∨ ∃ b, r = boolVal b) : Covers unkBool r = true := by
  rcases h with rfl | ⟨b, rfl⟩
  · exact covers_unkBool_self
  · exact covers_unkBool_boolVal b

/-- every successful HasIndex answers the not-null unknown boolean or a boolean -/
theorem hasIndexU_result {v k r : Value} (h : hasIndexU v k = .ok r) : r = unkBool ∨ ∃ b, r = boolVal b := by
  unfold hasIndexU at h
  split at h
  · cases h; exact Or.inl rfl
  · split at h
    · split at h; · cases h; exact Or.inl rfl
      split at h; · cases h; exact Or.inr ⟨_, rfl⟩
      split at h; · cases h; exact Or.inl rfl
      split at h; · cases h; exact Or.inl rfl
      obtain ⟨j, hj, h⟩ := Res.bind_eq_ok.mp h
      split at h
      · cases h; exact Or.inr ⟨_, rfl⟩
      · split at h
        · cases h; exact Or.inr ⟨_, rfl⟩
        · simp at h
    · split at h; · cases h; exact Or.inl rfl
      split at h; · cases h; exact Or.inr ⟨_, rfl⟩
      split at h; · cases h; exact Or.inl rfl
      split at h; · cases h; exact Or.inl rfl
      split at h
      · cases h; exact Or.inr ⟨_, rfl⟩
      · simp at h
    · split at h; · cases h; exact Or.inl rfl
      split at h; · cases h; exact Or.inr ⟨_, rfl⟩
      split at h; · cases h; exact Or.inl rfl
      obtain ⟨j, hj, h⟩ := Res.bind_eq_ok.mp h
      split at h <;> (cases h; exact Or.inr ⟨_, rfl⟩)
    · simp at h

theorem covers_boolish_self {r : Value} (h : r = unkBool ∨ ∃ b, r = boolVal b) : Covers r r = true := by
  rcases h with rfl | ⟨b, rfl⟩
  · exact covers_unkBool_self
  · exact covers_boolVal_self b

theorem ty_of_coversG {ex : Bool} {w o : Value} (hc : CoversG ex w o = true) : Ty.matches w.ty o.ty = true := by
  simp only [CoversG, Bool.and_eq_true] at hc; exact hc.1

theorem isDyn_false_of {t : Ty} (h : t ≠ .dyn) : t.isDyn = false := by
  cases t <;> simp_all [Ty.isDyn]

theorem hasIndexU_sound : SoundUW₂ hasIndexU := by
  intro o k w wk r hk₁ hk₂ hmo hmk hmw hmwk _ _ _ _ hc₁ hc₂ ho
  have hg₁ : CoversG true w o = true := hc₁
  have hg₂ : CoversG true wk k = true := hc₂
  have hres := hasIndexU_result ho
  suffices h : ∃ r', hasIndexU w wk = .ok r' ∧ (r' = unkBool ∨ r' = r) by
    obtain ⟨r', h1, h2⟩ := h
    refine ⟨r', h1, ?_⟩
    rcases h2 with rfl | rfl
    · exact covers_unkBool_of hres
    · exact covers_boolish_self hres
  have hm := ty_of_coversG hg₁
  have hok := isKnown_of_whollyKnown hk₁
  have hkk := isKnown_of_whollyKnown hk₂
  unfold hasIndexU at ho ⊢
  by_cases hd : o.ty.isDyn = true
  · simp only [hd, if_true, Res.ok.injEq] at ho
    simp only [covers_ty_dyn hg₁ (isDyn_iff.mp hd), Ty.isDyn, if_true]
    exact ⟨_, rfl, Or.inl rfl⟩
  simp only [hd, Bool.false_eq_true, if_false] at ho
  by_cases hwd : w.ty.isDyn = true
  · simp only [hwd, if_true]; exact ⟨_, rfl, Or.inl rfl⟩
  simp only [hwd, Bool.false_eq_true, if_false]
  have hwd' : w.ty ≠ .dyn := fun h => hwd (by rw [h]; rfl)
  split at ho
  · -- list
    rename_i e hot
    rw [hot] at hm
    rcases matches_list_right hm with h | ⟨e', hwt, _⟩
    · exact absurd h hwd'
    simp only [hwt]
    by_cases hkd : wk.ty.isDyn = true
    · simp only [hkd, if_true]; exact ⟨_, rfl, Or.inl rfl⟩
    obtain ⟨kn, ks, kd⟩ := key_ty_of_covers hg₂ (by simpa using hkd)
    simp only [hkd, kd, kn, Bool.false_eq_true, if_false] at ho ⊢
    by_cases hn : ¬ (k.ty.isNumber = true)
    · simp only [hn, Bool.not_false, if_true] at ho ⊢; exact ⟨_, rfl, Or.inr (by cases ho; rfl)⟩
    replace hn : k.ty.isNumber = true := by simpa using hn
    simp only [hn, Bool.not_true, Bool.false_eq_true, if_false, hkk, hok] at ho ⊢
    by_cases hwkk : ¬ (wk.isKnown = true)
    · simp only [hwkk, Bool.not_false, if_true]; exact ⟨_, rfl, Or.inl rfl⟩
    replace hwkk : wk.isKnown = true := by simpa using hwkk
    simp only [hwkk, Bool.not_true, Bool.false_eq_true, if_false]
    by_cases hwk : ¬ (w.isKnown = true)
    · simp only [hwk, Bool.not_false, if_true]; exact ⟨_, rfl, Or.inl rfl⟩
    replace hwk : w.isKnown = true := by simpa using hwk
    simp only [hwk, Bool.not_true, Bool.false_eq_true, if_false]
    obtain ⟨j, hj, ho⟩ := Res.bind_eq_ok.mp ho
    rw [keyIndex_of_covers hc₂ hj hmwk hwkk, Res.bind_ok]
    cases j with
    | none => simp only [pure] at ho ⊢; exact ⟨_, rfl, Or.inr (by cases ho; rfl)⟩
    | some i =>
      simp only at ho ⊢
      split at ho
      · rename_i vs hov
        have hu : w.isUnk = false := by rw [isUnk_iff_not_isKnown hmw, hwk]; rfl
        obtain ⟨ws, hwv, hcl⟩ := covers_seq_inv hg₁ hov hmw hu
        have hl := coversL_length hcl
        rw [stripMarksL_length, stripMarksL_length] at hl
        simp only [hwv, hl, pure] at ho ⊢
        exact ⟨_, rfl, Or.inr (by cases ho; rfl)⟩
      · simp at ho
  · -- map
    rename_i e hot
    rw [hot] at hm
    rcases matches_map_right hm with h | ⟨e', hwt, _⟩
    · exact absurd h hwd'
    simp only [hwt]
    by_cases hkd : wk.ty.isDyn = true
    · simp only [hkd, if_true]; exact ⟨_, rfl, Or.inl rfl⟩
    obtain ⟨kn, ks, kd⟩ := key_ty_of_covers hg₂ (by simpa using hkd)
    simp only [hkd, kd, ks, Bool.false_eq_true, if_false] at ho ⊢
    by_cases hn : ¬ (k.ty.isString = true)
    · simp only [hn, Bool.not_false, if_true] at ho ⊢; exact ⟨_, rfl, Or.inr (by cases ho; rfl)⟩
    replace hn : k.ty.isString = true := by simpa using hn
    simp only [hn, Bool.not_true, Bool.false_eq_true, if_false, hkk, hok] at ho ⊢
    by_cases hwkk : ¬ (wk.isKnown = true)
    · simp only [hwkk, Bool.not_false, if_true]; exact ⟨_, rfl, Or.inl rfl⟩
    replace hwkk : wk.isKnown = true := by simpa using hwkk
    simp only [hwkk, Bool.not_true, Bool.false_eq_true, if_false]
    by_cases hwk : ¬ (w.isKnown = true)
    · simp only [hwk, Bool.not_false, if_true]; exact ⟨_, rfl, Or.inl rfl⟩
    replace hwk : w.isKnown = true := by simpa using hwk
    simp only [hwk, Bool.not_true, Bool.false_eq_true, if_false]
    split at ho
    · rename_i key ks' vs hkv hov
      have hu : w.isUnk = false := by rw [isUnk_iff_not_isKnown hmw, hwk]; rfl
      obtain ⟨ws, hwv, _⟩ := covers_smap_inv hg₁ hov hmw hu
      rw [str_payload_of_covers hg₂ hkv hmwk hwkk, hwv]
      exact ⟨_, rfl, Or.inr (by cases ho; rfl)⟩
    · simp at ho
  · -- tuple
    rename_i es hot
    rw [hot] at hm
    rcases matches_tuple_right hm with h | ⟨es', hwt, hml⟩
    · exact absurd h hwd'
    simp only [hwt]
    by_cases hkd : wk.ty.isDyn = true
    · simp only [hkd, if_true]; exact ⟨_, rfl, Or.inl rfl⟩
    obtain ⟨kn, ks, kd⟩ := key_ty_of_covers hg₂ (by simpa using hkd)
    simp only [hkd, kd, kn, Bool.false_eq_true, if_false] at ho ⊢
    by_cases hn : ¬ (k.ty.isNumber = true)
    · simp only [hn, Bool.not_false, if_true] at ho ⊢; exact ⟨_, rfl, Or.inr (by cases ho; rfl)⟩
    replace hn : k.ty.isNumber = true := by simpa using hn
    simp only [hn, Bool.not_true, Bool.false_eq_true, if_false, hkk] at ho ⊢
    by_cases hwkk : ¬ (wk.isKnown = true)
    · simp only [hwkk, Bool.not_false, if_true]; exact ⟨_, rfl, Or.inl rfl⟩
    replace hwkk : wk.isKnown = true := by simpa using hwkk
    simp only [hwkk, Bool.not_true, Bool.false_eq_true, if_false]
    obtain ⟨j, hj, ho⟩ := Res.bind_eq_ok.mp ho
    rw [keyIndex_of_covers hc₂ hj hmwk hwkk, Res.bind_ok]
    have hl := Ty.matchesL_length hml
    cases j with
    | none => simp only [pure] at ho ⊢; exact ⟨_, rfl, Or.inr (by cases ho; rfl)⟩
    | some i => simp only [pure, hl] at ho ⊢; exact ⟨_, rfl, Or.inr (by cases ho; rfl)⟩
  · simp at ho

theorem matchesL_getElem? : ∀ {cs ts : List Ty} {i : Nat} {t : Ty}, Ty.matchesL cs ts = true → ts[i]? = some t →
    ∃ c, cs[i]? = some c ∧ Ty.matches c t = true
  | [], [], i, t, _, h => by simp at h
  | [], _ :: _, i, t, hm, _ => by simp [Ty.matchesL] at hm
  | _ :: _, [], i, t, hm, _ => by simp [Ty.matchesL] at hm
  | c :: cs, u :: ts, 0, t, hm, h => by
    simp only [Ty.matchesL, Bool.and_eq_true] at hm
    simp at h; subst h; exact ⟨c, by simp, hm.1⟩
  | c :: cs, u :: ts, i + 1, t, hm, h => by
    simp only [Ty.matchesL, Bool.and_eq_true] at hm
    simp at h
    simpa using matchesL_getElem? hm.2 h

theorem covers_null_member {t t' : Ty} (hm : Ty.matches t' t = true) : Covers ⟨t', .null⟩ ⟨t, .null⟩ = true := by
  simp [Covers, CoversG, hm, Payload.stripMarks, coversP]

theorem indexU_sound : SoundUW₂ indexU := by
  intro o k w wk r hk₁ hk₂ hmo hmk hmw hmwk _ _ _ _ hc₁ hc₂ ho
  have hg₁ : CoversG true w o = true := hc₁
  have hg₂ : CoversG true wk k = true := hc₂
  have hm := ty_of_coversG hg₁
  have hok := isKnown_of_whollyKnown hk₁
  have hkk := isKnown_of_whollyKnown hk₂
  unfold indexU at ho ⊢
  by_cases hd : o.ty.isDyn = true
  · simp only [hd, if_true, Res.ok.injEq] at ho
    simp only [covers_ty_dyn hg₁ (isDyn_iff.mp hd), Ty.isDyn, if_true]
    exact ⟨_, rfl, covers_dynVal _⟩
  simp only [hd, Bool.false_eq_true, if_false] at ho
  by_cases hwd : w.ty.isDyn = true
  · simp only [hwd, if_true]; exact ⟨_, rfl, covers_dynVal _⟩
  simp only [hwd, Bool.false_eq_true, if_false]
  have hwd' : w.ty ≠ .dyn := fun h => hwd (by rw [h]; rfl)
  split at ho
  · -- list
    rename_i e hot
    rw [hot] at hm
    rcases matches_list_right hm with h | ⟨e', hwt, hme⟩
    · exact absurd h hwd'
    simp only [hwt]
    have hunk : ∀ p, Covers (unknown e') ⟨e, p⟩ = true := fun p => covers_unknown hme
    by_cases hkd : wk.ty.isDyn = true
    · simp only [hkd, if_true]
      refine ⟨_, rfl, ?_⟩
      split at ho; · cases ho; exact hunk _
      split at ho; · simp at ho
      split at ho; · cases ho; exact hunk _
      split at ho; · cases ho; exact hunk _
      obtain ⟨j, hj, ho⟩ := Res.bind_eq_ok.mp ho
      split at ho; · simp at ho
      split at ho
      · split at ho
        · cases ho; exact hunk _
        · simp at ho
      · simp at ho
    obtain ⟨kn, ks, kd⟩ := key_ty_of_covers hg₂ (by simpa using hkd)
    simp only [hkd, kd, kn, Bool.false_eq_true, if_false] at ho ⊢
    by_cases hn : ¬ (k.ty.isNumber = true)
    · simp [hn] at ho
    replace hn : k.ty.isNumber = true := by simpa using hn
    simp only [hn, Bool.not_true, Bool.false_eq_true, if_false, hkk, hok] at ho ⊢
    obtain ⟨j, hj, ho⟩ := Res.bind_eq_ok.mp ho
    cases j with
    | none => simp at ho
    | some i =>
      simp only at ho
      split at ho
      · rename_i vs hov
        cases hvi : vs[i]? with
        | none => simp [hvi] at ho
        | some p =>
          simp only [hvi, Res.ok.injEq] at ho
          subst ho
          by_cases hwkk : ¬ (wk.isKnown = true)
          · simp only [hwkk, Bool.not_false, if_true]; exact ⟨_, rfl, hunk _⟩
          replace hwkk : wk.isKnown = true := by simpa using hwkk
          simp only [hwkk, Bool.not_true, Bool.false_eq_true, if_false]
          by_cases hwk : ¬ (w.isKnown = true)
          · simp only [hwk, Bool.not_false, if_true]; exact ⟨_, rfl, hunk _⟩
          replace hwk : w.isKnown = true := by simpa using hwk
          simp only [hwk, Bool.not_true, Bool.false_eq_true, if_false]
          rw [keyIndex_of_covers hc₂ hj hmwk hwkk, Res.bind_ok]
          have hu : w.isUnk = false := by rw [isUnk_iff_not_isKnown hmw, hwk]; rfl
          obtain ⟨ws, hwv, hcl⟩ := covers_seq_inv hg₁ hov hmw hu
          have hsp : (Payload.stripMarksL vs)[i]? = some p.stripMarks := by rw [stripMarksL_getElem?, hvi]; rfl
          obtain ⟨a, ha, hcov⟩ := coversL_getElem? hcl hsp
          rw [stripMarksL_getElem?] at ha
          cases hwi : ws[i]? with
          | none => simp [hwi] at ha
          | some q =>
            simp only [hwi, Option.map_some, Option.some.injEq] at ha
            subst ha
            simp only [hwv, hwi]
            exact ⟨_, rfl, covers_member hme hcov⟩
      · simp at ho
  · -- map
    rename_i e hot
    rw [hot] at hm
    rcases matches_map_right hm with h | ⟨e', hwt, hme⟩
    · exact absurd h hwd'
    simp only [hwt]
    have hunk : ∀ p, Covers (unknown e') ⟨e, p⟩ = true := fun p => covers_unknown hme
    by_cases hkd : wk.ty.isDyn = true
    · simp only [hkd, if_true]
      refine ⟨_, rfl, ?_⟩
      split at ho; · cases ho; exact hunk _
      split at ho; · simp at ho
      split at ho; · cases ho; exact hunk _
      split at ho; · cases ho; exact hunk _
      split at ho
      · cases ho; exact hunk _
      · simp at ho
    obtain ⟨kn, ks, kd⟩ := key_ty_of_covers hg₂ (by simpa using hkd)
    simp only [hkd, kd, ks, Bool.false_eq_true, if_false] at ho ⊢
    by_cases hn : ¬ (k.ty.isString = true)
    · simp [hn] at ho
    replace hn : k.ty.isString = true := by simpa using hn
    simp only [hn, Bool.not_true, Bool.false_eq_true, if_false, hkk, hok] at ho ⊢
    split at ho
    · rename_i key ks' vs hkv hov
      simp only [Res.ok.injEq] at ho
      subst ho
      by_cases hwkk : ¬ (wk.isKnown = true)
      · simp only [hwkk, Bool.not_false, if_true]; exact ⟨_, rfl, hunk _⟩
      replace hwkk : wk.isKnown = true := by simpa using hwkk
      simp only [hwkk, Bool.not_true, Bool.false_eq_true, if_false]
      by_cases hwk : ¬ (w.isKnown = true)
      · simp only [hwk, Bool.not_false, if_true]; exact ⟨_, rfl, hunk _⟩
      replace hwk : w.isKnown = true := by simpa using hwk
      simp only [hwk, Bool.not_true, Bool.false_eq_true, if_false]
      have hu : w.isUnk = false := by rw [isUnk_iff_not_isKnown hmw, hwk]; rfl
      obtain ⟨ws, hwv, hcl⟩ := covers_smap_inv hg₁ hov hmw hu
      rw [str_payload_of_covers hg₂ hkv hmwk hwkk, hwv]
      refine ⟨_, rfl, ?_⟩
      have hl := coversL_lookup key (ks := ks') hcl
      rw [lookupKey_strip, lookupKey_strip] at hl
      cases hlo : lookupKey key ks' vs with
      | none =>
        simp only [hlo, Option.map_none, Option.map_eq_none_iff] at hl
        simp only [hl, Option.getD_none]
        exact covers_null_member hme
      | some p =>
        simp only [hlo, Option.map_some] at hl
        obtain ⟨a, ha, hcov⟩ := hl
        cases hlw : lookupKey key ks' ws with
        | none => simp [hlw] at ha
        | some q =>
          simp only [hlw, Option.map_some, Option.some.injEq] at ha
          subst ha
          simp only [Option.getD_some]
          exact covers_member hme hcov
    · simp at ho
  · -- tuple
    rename_i es hot
    rw [hot] at hm
    rcases matches_tuple_right hm with h | ⟨es', hwt, hml⟩
    · exact absurd h hwd'
    simp only [hwt]
    by_cases hkd : wk.ty.isDyn = true
    · simp only [hkd, if_true]; exact ⟨_, rfl, covers_dynVal _⟩
    obtain ⟨kn, ks, kd⟩ := key_ty_of_covers hg₂ (by simpa using hkd)
    simp only [hkd, kd, kn, Bool.false_eq_true, if_false] at ho ⊢
    by_cases hn : ¬ (k.ty.isNumber = true)
    · simp [hn] at ho
    replace hn : k.ty.isNumber = true := by simpa using hn
    simp only [hn, Bool.not_true, Bool.false_eq_true, if_false, hkk, hok] at ho ⊢
    by_cases hwkk : ¬ (wk.isKnown = true)
    · simp only [hwkk, Bool.not_false, if_true]; exact ⟨_, rfl, covers_dynVal _⟩
    replace hwkk : wk.isKnown = true := by simpa using hwkk
    simp only [hwkk, Bool.not_true, Bool.false_eq_true, if_false]
    obtain ⟨j, hj, ho⟩ := Res.bind_eq_ok.mp ho
    rw [keyIndex_of_covers hc₂ hj hmwk hwkk, Res.bind_ok]
    cases j with
    | none => simp at ho
    | some i =>
      simp only at ho ⊢
      cases hei : es[i]? with
      | none => simp [hei] at ho
      | some ety =>
        obtain ⟨ety', hei', hme⟩ := matchesL_getElem? hml hei
        simp only [hei, hei'] at ho ⊢
        split at ho
        · rename_i vs hov
          cases hvi : vs[i]? with
          | none => simp [hvi] at ho
          | some p =>
            simp only [hvi, Res.ok.injEq] at ho
            subst ho
            by_cases hwk : ¬ (w.isKnown = true)
            · simp only [hwk, Bool.not_false, if_true]; exact ⟨_, rfl, covers_unknown hme⟩
            replace hwk : w.isKnown = true := by simpa using hwk
            simp only [hwk, Bool.not_true, Bool.false_eq_true, if_false]
            have hu : w.isUnk = false := by rw [isUnk_iff_not_isKnown hmw, hwk]; rfl
            obtain ⟨ws, hwv, hcl⟩ := covers_seq_inv hg₁ hov hmw hu
            have hsp : (Payload.stripMarksL vs)[i]? = some p.stripMarks := by rw [stripMarksL_getElem?, hvi]; rfl
            obtain ⟨a, ha, hcov⟩ := coversL_getElem? hcl hsp
            rw [stripMarksL_getElem?] at ha
            cases hwi : ws[i]? with
            | none => simp [hwi] at ha
            | some q =>
              simp only [hwi, Option.map_some, Option.some.injEq] at ha
              subst ha
              simp only [hwv, hwi]
              exact ⟨_, rfl, covers_member hme hcov⟩
        · simp at ho
  · simp at ho

/-! ### Length -/
theorem covers_lenRange {lo hi n : Int} (h1 : lo ≤ n) (h2 : n ≤ hi) :
    Covers (numRangeResult (some (Num.ofInt lo 64)) (some (Num.ofInt hi 64))) (intVal n) = true := by
  unfold numRangeResult
  simp only
  split
  · rename_i hraw
    have := Num.rawEqual_ofInt hraw
    subst this
    have : lo = n := by omega
    subst this
    exact covers_numVal_self _
  · have a := Num.cmp_ofInt_le (p := 64) (q := 64) h1
    have b := Num.cmp_ofInt_le (p := 64) (q := 64) h2
    simp [Covers, CoversG, intVal, numVal, Ty.matches, Payload.stripMarks, coversP, admits, rfnAdmitsKnown,
      Rfn.nullness, loInside, hiInside, pt, a, b]
    decide

theorem lengthU_known_list {t : Ty} {vs : List Payload} (ht : ∃ e, t = .list e) :
    lengthU ⟨t, .seq vs⟩ = .ok (intVal vs.length) := by
  obtain ⟨e, rfl⟩ := ht
  simp [lengthU, Value.isKnown, Payload.isKnown, Payload.unmark1]

theorem lengthU_known_map {t : Ty} {ks : List String} {vs : List Payload} (ht : ∃ e, t = .map e) :
    lengthU ⟨t, .smap ks vs⟩ = .ok (intVal vs.length) := by
  obtain ⟨e, rfl⟩ := ht
  simp [lengthU, Value.isKnown, Payload.isKnown, Payload.unmark1]

def lenBounds (t : Ty) (rf : Rfn) : Int × Int :=
  if t.isDyn then (0, maxInt) else
  match rf with
  | .coll _ l h => (l, h)
  | _ => (0, maxInt)

/-- Length of an unknown collection (or of an unknown of the placeholder type):
the bounds of its refinement -/
theorem lengthU_unknown {t : Ty} (rf : Rfn) (ht : t = .dyn ∨ (∃ e, t = .list e) ∨ (∃ e, t = .map e) ∨ ∃ e, t = .set e) :
    lengthU ⟨t, .unk rf⟩ = .ok (numRangeResult (some (Num.ofInt (lenBounds t rf).1 64)) (some (Num.ofInt (lenBounds t rf).2 64))) := by
  rcases ht with rfl | ⟨e, rfl⟩ | ⟨e, rfl⟩ | ⟨e, rfl⟩ <;> cases rf <;>
    simp [lengthU, Value.isKnown, Payload.isKnown, Payload.unmark1, Value.range, Value.isMarked, Payload.isMarked,
      VRange.lenLower, VRange.lenUpper, Ty.isDyn, isCollection, lenBounds, Bind.bind, Res.bind, pure]

theorem lenBounds_of_admits {t : Ty} {rf : Rfn} {p : Payload} {n : Nat} (ht : t.isDyn = false)
    (hp : possibleLen p = some ((n : Int), (n : Int))) (hnn : p ≠ .null) (hnu : ∀ r, p ≠ .unk r) (hnm : ∀ ms q, p ≠ .marked ms q)
    (hfit : (n : Int) ≤ maxInt) (ha : admits rf p = true) : (lenBounds t rf).1 ≤ n ∧ (n : Int) ≤ (lenBounds t rf).2 := by
  simp only [lenBounds, ht, Bool.false_eq_true, if_false]
  cases rf with
  | coll nl l h =>
    cases p <;> simp_all [admits, rfnAdmitsKnown, possibleLen]
  | unref => exact ⟨by simp, hfit⟩
  | nullable _ => exact ⟨by simp, hfit⟩
  | str _ _ => exact ⟨by simp, hfit⟩
  | num _ _ _ => exact ⟨by simp, hfit⟩

theorem lengthU_sound_partial (o w r : Value) (hk : o.whollyKnown = true) (hmo : o.isMarked = false)
    (hmw : w.isMarked = false) (hfo : o.wfc = true) (hc : CoversX w o = true)
    (hwdyn : w.ty = .dyn → w.isKnown = false)
    (hset : ∀ e, o.ty ≠ .set e)
    (ho : lengthU o = .ok r) : ∃ r', lengthU w = .ok r' ∧ Covers r' r = true := by
  have hg : CoversG true w o = true := hc
  have hm := ty_of_coversG hg
  have hlf := wfc_lenFits hfo
  -- a weakened operand of the placeholder type, or an unknown one
  have hunk : ∀ (n : Nat), (n : Int) ≤ maxInt → r = intVal n →
      (w.ty = .dyn ∨ (∃ e, w.ty = .list e) ∨ (∃ e, w.ty = .map e) ∨ ∃ e, w.ty = .set e) →
      (∀ rf, w.v = .unk rf → w.ty.isDyn = false → (lenBounds w.ty rf).1 ≤ n ∧ (n : Int) ≤ (lenBounds w.ty rf).2) →
      w.isKnown = false → ∃ r', lengthU w = .ok r' ∧ Covers r' r = true := by
    intro n hn hr hty hb hwk
    obtain ⟨tw, pw⟩ := w
    have : ∃ rf, pw = .unk rf := by
      cases pw <;> simp_all [Value.isKnown, Payload.isKnown, Payload.unmark1, Value.isMarked, Payload.isMarked]
    obtain ⟨rf, rfl⟩ := this
    refine ⟨_, lengthU_unknown rf hty, ?_⟩
    subst hr
    by_cases hd : tw.isDyn = true
    · simp only [lenBounds, hd, if_true]
      exact covers_lenRange (by omega) hn
    · have := hb rf rfl (by simpa using hd)
      exact covers_lenRange this.1 this.2
  obtain ⟨to, po⟩ := o
  simp only at hm hset
  cases to with
  | tuple es =>
    simp only [lengthU, Res.ok.injEq] at ho
    have hfit : (es.length : Int) ≤ maxInt := by
      simp only [Value.lenFits, Bool.and_eq_true, decide_eq_true_eq] at hlf; exact hlf.1
    rcases matches_tuple_right hm with hwd | ⟨es', hwt, hml⟩
    · exact hunk es.length hfit ho.symm (Or.inl hwd) (fun rf _ h => by rw [hwd] at h; simp [Ty.isDyn] at h) (hwdyn hwd)
    · have hl := Ty.matchesL_length hml
      obtain ⟨tw, pw⟩ := w
      simp only at hwt; subst hwt
      refine ⟨intVal es'.length, by simp [lengthU], ?_⟩
      rw [← ho, hl]; exact covers_numVal_self _
  | list e =>
    cases po <;> simp [lengthU, Value.isKnown, Payload.isKnown, Payload.unmark1, Value.whollyKnown, Payload.whollyKnown,
      Value.isMarked, Payload.isMarked] at ho hk hmo
    rename_i vs
    have hfit : (vs.length : Int) ≤ maxInt := by
      simp only [Value.lenFits, Payload.unmark1, possibleLen, Bool.and_eq_true, decide_eq_true_eq, Bool.true_and] at hlf; exact hlf
    rcases matches_list_right hm with hwd | ⟨e', hwt, _⟩
    · exact hunk vs.length hfit ho.symm (Or.inl hwd) (fun rf _ h => by rw [hwd] at h; simp [Ty.isDyn] at h) (hwdyn hwd)
    · by_cases hwk : w.isKnown = true
      · have hu : w.isUnk = false := by rw [isUnk_iff_not_isKnown hmw, hwk]; rfl
        obtain ⟨ws, hwv, hcl⟩ := covers_seq_inv hg rfl hmw hu
        have hl := coversL_length hcl
        rw [stripMarksL_length, stripMarksL_length] at hl
        obtain ⟨tw, pw⟩ := w
        simp only at hwt hwv; subst hwt hwv
        refine ⟨_, lengthU_known_list ⟨e', rfl⟩, ?_⟩
        rw [← ho, hl]; exact covers_numVal_self _
      · refine hunk vs.length hfit ho.symm (Or.inr (Or.inl ⟨e', hwt⟩)) ?_ (by simpa using hwk)
        intro rf hrf hd
        simp only [CoversG, Bool.and_eq_true] at hg
        obtain ⟨_, hcp⟩ := hg
        rw [hrf] at hcp
        simp only [Payload.stripMarks, coversP] at hcp
        exact lenBounds_of_admits (n := vs.length) hd (by simp [possibleLen, stripMarksL_length]) (by simp) (by simp) (by simp) hfit hcp
  | map e =>
    cases po <;> simp [lengthU, Value.isKnown, Payload.isKnown, Payload.unmark1, Value.whollyKnown, Payload.whollyKnown,
      Value.isMarked, Payload.isMarked] at ho hk hmo
    rename_i ks vs
    have hfit : (vs.length : Int) ≤ maxInt := by
      simp only [Value.lenFits, Payload.unmark1, possibleLen, Bool.and_eq_true, decide_eq_true_eq, Bool.true_and] at hlf; exact hlf
    rcases matches_map_right hm with hwd | ⟨e', hwt, _⟩
    · exact hunk vs.length hfit ho.symm (Or.inl hwd) (fun rf _ h => by rw [hwd] at h; simp [Ty.isDyn] at h) (hwdyn hwd)
    · by_cases hwk : w.isKnown = true
      · have hu : w.isUnk = false := by rw [isUnk_iff_not_isKnown hmw, hwk]; rfl
        obtain ⟨ws, hwv, hcl⟩ := covers_smap_inv hg rfl hmw hu
        have hl := coversL_length hcl
        rw [stripMarksL_length, stripMarksL_length] at hl
        obtain ⟨tw, pw⟩ := w
        simp only at hwt hwv; subst hwt hwv
        refine ⟨_, lengthU_known_map ⟨e', rfl⟩, ?_⟩
        rw [← ho, hl]; exact covers_numVal_self _
      · refine hunk vs.length hfit ho.symm (Or.inr (Or.inr (Or.inl ⟨e', hwt⟩))) ?_ (by simpa using hwk)
        intro rf hrf hd
        simp only [CoversG, Bool.and_eq_true] at hg
        obtain ⟨_, hcp⟩ := hg
        rw [hrf] at hcp
        simp only [Payload.stripMarks, coversP] at hcp
        exact lenBounds_of_admits (n := vs.length) hd (by simp [possibleLen, stripMarksL_length]) (by simp) (by simp) (by simp) hfit hcp
  | object ns ts os =>
    simp only [lengthU, Res.ok.injEq] at ho
    have hfit : (ns.length : Int) ≤ maxInt := by
      simp only [Value.lenFits, Bool.and_eq_true, decide_eq_true_eq] at hlf; exact hlf.1
    rcases matches_object_right hm with hwd | ⟨ts', os', hwt, _⟩
    · exact hunk ns.length hfit ho.symm (Or.inl hwd) (fun rf _ h => by rw [hwd] at h; simp [Ty.isDyn] at h) (hwdyn hwd)
    · obtain ⟨tw, pw⟩ := w
      simp only at hwt; subst hwt
      refine ⟨intVal ns.length, by simp [lengthU], ?_⟩
      rw [← ho]; exact covers_numVal_self _
  | set e => exact absurd rfl (hset e)
  | dyn => cases po <;> simp [lengthU, Value.isKnown, Payload.isKnown, Payload.unmark1, Value.whollyKnown, Payload.whollyKnown, Value.isMarked, Payload.isMarked] at ho hk hmo
  | bool => cases po <;> simp [lengthU, Value.isKnown, Payload.isKnown, Payload.unmark1, Value.whollyKnown, Payload.whollyKnown, Value.isMarked, Payload.isMarked] at ho hk hmo
  | number => cases po <;> simp [lengthU, Value.isKnown, Payload.isKnown, Payload.unmark1, Value.whollyKnown, Payload.whollyKnown, Value.isMarked, Payload.isMarked] at ho hk hmo
  | string => cases po <;> simp [lengthU, Value.isKnown, Payload.isKnown, Payload.unmark1, Value.whollyKnown, Payload.whollyKnown, Value.isMarked, Payload.isMarked] at ho hk hmo
  | capsule i => cases po <;> simp [lengthU, Value.isKnown, Payload.isKnown, Payload.unmark1, Value.whollyKnown, Payload.whollyKnown, Value.isMarked, Payload.isMarked] at ho hk hmo
end CtyModel
