/-
d03b — `hashS` / `rawK` on a set-containing value compute what they compute on its
transliteration (`canon`), provided the treatment of nested sets (`sh`, `sr`) does
(`ShOK`, `SrOK`); `d03bEncLvl.lean` ties the knot over the nesting levels `lvl n`.
-/
import CtyModel.Lemmas.d03bEncG
namespace CtyModel
namespace D03b
open Value SetImpl

def sh0 : SetHashRec := fun _ _ _ => .unmodelled
def sr0 : SetRawRec := fun _ _ _ => .unmodelled

/-- the set node as its transliteration -/
def canonSet (e : Ty) (vs : List Payload) : Payload := .seq (sortStable (lessEnc e) (canonAll e vs))

def ShOK (sh : SetHashRec) (N : Nat) : Prop :=
  ∀ e ids vs, capFree e = true → GAll e vs → Payload.depthL vs + 1 ≤ N →
    sh e ids vs = hashS sh0 (.list (enc e)) (canonSet e vs)

def SrOK (sr : SetRawRec) (N : Nat) : Prop :=
  ∀ e xs ys, capFree e = true → GAll e xs → GAll e ys → Payload.depthL xs + 1 ≤ N → Payload.depthL ys + 1 ≤ N →
    sr e xs ys = .ok (rawB (.list (enc e)) (canonSet e xs) (canonSet e ys))

theorem depthL_cons {v : Payload} {vs : List Payload} {N : Nat} (h : Payload.depthL (v :: vs) ≤ N) :
    v.depth ≤ N ∧ Payload.depthL vs ≤ N := by
  simp only [Payload.depthL] at h; omega

theorem G_clean {t : Ty} {p : Payload} (h : G t p) : p.containsMarked = false := h.2.1

mutual
theorem hashS_enc (sh : SetHashRec) (N : Nat) (H : ShOK sh N) : ∀ (t : Ty) (p : Payload), capFree t = true → G t p →
    p.depth ≤ N → hashS sh t p = hashS sh0 (enc t) (canon t p)
  | _, .marked _ _, _, h, _ => by simp [G, Payload.containsMarked] at h
  | t, .null, _, _, _ => by rw [canon_null]; cases t <;> rfl
  | t, .unk r, _, _, _ => by rw [canon_unk]; cases t <;> rfl
  | t, .b x, _, h, _ => by
    have := h.1; simp only [Payload.shaped, Ty.isBool_iff] at this; subst this; rfl
  | t, .n x, _, h, _ => by
    have := h.1; simp only [Payload.shaped, Ty.isNumber_iff] at this; subst this; rfl
  | t, .s x, _, h, _ => by
    have := h.1; simp only [Payload.shaped, Ty.isString_iff] at this; subst this; rfl
  | t, .caps, hc, h, _ => by
    have := h.1
    cases t <;> simp [Payload.shaped] at this
    simp [capFree] at hc
  | _, .bad _, _, h, _ => by simp [G, Payload.shaped] at h
  | t, .seq xs, hc, h, hd => by
    obtain ⟨h1, h2, h3⟩ := h
    simp only [Payload.depth] at hd
    cases t <;> simp [Payload.shaped] at h1
    case list e =>
      simp only [capFree] at hc
      simp only [hashS, enc, canon]
      rw [hashAllS_enc sh N H e xs hc ⟨h1, by simpa [Payload.containsMarked] using h2, by simpa [Payload.quotable] using h3⟩
        (by omega)]
    case tuple ts =>
      simp only [capFree] at hc
      simp only [hashS, enc, canon]
      rw [hashZipS_enc sh N H ts xs hc ⟨h1, by simpa [Payload.containsMarked] using h2, by simpa [Payload.quotable] using h3⟩
        (by omega)]
  | t, .smap ks xs, hc, h, hd => by
    obtain ⟨h1, h2, h3⟩ := h
    simp only [Payload.depth] at hd
    simp only [Payload.quotable, Bool.and_eq_true] at h3
    cases t <;> simp [Payload.shaped] at h1
    case map e =>
      simp only [capFree] at hc
      simp only [hashS, enc, canon]
      rw [hashMapS_enc sh N H e ks xs hc ⟨h1.2, by simpa [Payload.containsMarked] using h2, h3.2⟩ (by omega)]
    case object ns ts os =>
      simp only [capFree, Bool.and_eq_true] at hc
      simp only [hashS, enc, canon]
      rw [hashZipS_enc sh N H ts xs hc.2 ⟨h1.2, by simpa [Payload.containsMarked] using h2, h3.2⟩ (by omega)]
  | t, .sset ids xs, hc, h, hd => by
    obtain ⟨h1, h2, h3⟩ := h
    simp only [Payload.depth] at hd
    cases t <;> simp [Payload.shaped] at h1
    case set e =>
      simp only [capFree] at hc
      simp only [hashS, enc, canon]
      exact H e ids xs hc ⟨h1.2, by simpa [Payload.containsMarked] using h2, by simpa [Payload.quotable] using h3⟩ hd
theorem hashAllS_enc (sh : SetHashRec) (N : Nat) (H : ShOK sh N) : ∀ (e : Ty) (xs : List Payload), capFree e = true →
    GAll e xs → Payload.depthL xs ≤ N → hashAllS sh e xs = hashAllS sh0 (enc e) (canonAll e xs)
  | _, [], _, _, _ => rfl
  | e, x :: xs, hc, h, hd => by
    obtain ⟨hx, hxs⟩ := GAll_cons h
    obtain ⟨d1, d2⟩ := depthL_cons hd
    simp only [hashAllS, canonAll, hashS_enc sh N H e x hc hx d1, hashAllS_enc sh N H e xs hc hxs d2]
theorem hashZipS_enc (sh : SetHashRec) (N : Nat) (H : ShOK sh N) : ∀ (ts : List Ty) (xs : List Payload),
    capFreeL ts = true → GZip ts xs → Payload.depthL xs ≤ N → hashZipS sh ts xs = hashZipS sh0 (encL ts) (canonZip ts xs)
  | [], xs, _, _, _ => by cases xs <;> simp [hashZipS, encL, canonZip]
  | _ :: _, [], _, _, _ => by simp [hashZipS, encL, canonZip]
  | t :: ts, x :: xs, hc, h, hd => by
    obtain ⟨hx, hxs⟩ := GZip_cons h
    obtain ⟨d1, d2⟩ := depthL_cons hd
    simp only [capFreeL, Bool.and_eq_true] at hc
    simp only [hashZipS, canonZip, encL, hashS_enc sh N H t x hc.1 hx d1, hashZipS_enc sh N H ts xs hc.2 hxs d2]
theorem hashMapS_enc (sh : SetHashRec) (N : Nat) (H : ShOK sh N) : ∀ (e : Ty) (ks : List String) (xs : List Payload),
    capFree e = true → GAll e xs → Payload.depthL xs ≤ N →
    hashMapS sh e ks xs = hashMapS sh0 (enc e) ks (canonAll e xs)
  | _, [], xs, _, _, _ => by cases xs <;> simp [hashMapS, canonAll]
  | _, _ :: _, [], _, _, _ => by simp [hashMapS, canonAll]
  | e, k :: ks, x :: xs, hc, h, hd => by
    obtain ⟨hx, hxs⟩ := GAll_cons h
    obtain ⟨d1, d2⟩ := depthL_cons hd
    simp only [hashMapS, canonAll, hashS_enc sh N H e x hc hx d1, hashMapS_enc sh N H e ks xs hc hxs d2]
end

end D03b
end CtyModel

namespace CtyModel
namespace D03b
open Value SetImpl

theorem lookupKey_canon (e : Ty) (k : String) : ∀ (ks : List String) (vs : List Payload),
    lookupKey k ks (canonAll e vs) = (lookupKey k ks vs).map (canon e)
  | [], vs => by cases vs <;> simp [lookupKey]
  | _ :: _, [] => by simp [lookupKey, canonAll]
  | n :: ns, v :: vs => by
    simp only [lookupKey, canonAll]
    split
    · rfl
    · exact lookupKey_canon e k ns vs

theorem G_of_lookupKey {e : Ty} {k : String} {N : Nat} : ∀ {ks : List String} {vs : List Payload} {y : Payload},
    lookupKey k ks vs = some y → GAll e vs → Payload.depthL vs ≤ N → G e y ∧ y.depth ≤ N
  | [], _, _, h, _, _ => by simp [lookupKey] at h
  | _ :: _, [], _, h, _, _ => by simp [lookupKey] at h
  | n :: ns, v :: vs, y, h, hg, hd => by
    obtain ⟨hv, hvs⟩ := GAll_cons hg
    obtain ⟨d1, d2⟩ := depthL_cons hd
    simp only [lookupKey] at h
    split at h
    · cases h; exact ⟨hv, d1⟩
    · exact G_of_lookupKey h hvs d2

mutual
theorem rawK_enc (sr : SetRawRec) (N : Nat) (H : SrOK sr N) : ∀ (t : Ty) (a b : Payload), capFree t = true →
    G t a → G t b → a.depth ≤ N → b.depth ≤ N → rawK sr t a b = .ok (rawB (enc t) (canon t a) (canon t b))
  | _, .marked _ _, _, _, h, _, _, _ => by simp [G, Payload.containsMarked] at h
  | _, .bad _, _, _, h, _, _, _ => by simp [G, Payload.shaped] at h
  | t, .unk r, q, _, _, hb, _, _ => by
    rw [canon_unk]
    cases q <;> first
      | (simp [G, Payload.containsMarked] at hb; done)
      | (cases t <;> simp [rawK, rawB, canon])
  | t, .null, q, _, _, hb, _, _ => by
    rw [canon_null]
    cases q <;> first
      | (simp [G, Payload.containsMarked] at hb; done)
      | (cases t <;> simp [rawK, rawB, canon])
  | t, .b x, q, _, ha, hb, _, _ => by
    have := ha.1; simp only [Payload.shaped, Ty.isBool_iff] at this; subst this
    have hb1 := hb.1
    cases q <;> simp [rawK, rawB, rawRhs, rawLeaf, primRawEq_bool, Payload.shaped, Ty.isNumber, Ty.isString, canon, enc] at hb1 ⊢
  | t, .n x, q, _, ha, hb, _, _ => by
    have := ha.1; simp only [Payload.shaped, Ty.isNumber_iff] at this; subst this
    have hb1 := hb.1
    cases q <;> simp [rawK, rawB, rawRhs, rawLeaf, primRawEq_num, Payload.shaped, Ty.isBool, Ty.isString, canon, enc] at hb1 ⊢
  | t, .s x, q, _, ha, hb, _, _ => by
    have := ha.1; simp only [Payload.shaped, Ty.isString_iff] at this; subst this
    have hb1 := hb.1
    cases q <;> simp [rawK, rawB, rawRhs, rawLeaf, primRawEq_str, Payload.shaped, Ty.isBool, Ty.isNumber, canon, enc] at hb1 ⊢
  | t, .caps, _, hc, ha, _, _, _ => by
    have := ha.1
    cases t <;> simp [Payload.shaped] at this
    simp [capFree] at hc
  | t, .seq xs, q, hc, ha, hb, da, db => by
    obtain ⟨a1, a2, a3⟩ := ha
    simp only [Payload.depth] at da
    cases t <;> simp [Payload.shaped] at a1
    case list e =>
      simp only [capFree] at hc
      obtain ⟨b1, b2, b3⟩ := hb
      cases q <;> simp [rawK, rawB, rawRhs, Payload.shaped, Ty.isBool, Ty.isNumber, Ty.isString, canon, enc,
        Payload.containsMarked] at b1 b2 ⊢
      case seq ys =>
        simp only [Payload.depth] at db
        rw [rawAll_enc sr N H e xs ys hc ⟨a1, by simpa [Payload.containsMarked] using a2, by simpa [Payload.quotable] using a3⟩
          ⟨b1, b2, by simpa [Payload.quotable] using b3⟩ (by omega) (by omega)]
        simp only [canonAll_length]
        by_cases hl : xs.length = ys.length <;> simp [hl]
    case tuple ts =>
      simp only [capFree] at hc
      obtain ⟨b1, b2, b3⟩ := hb
      cases q <;> simp [rawK, rawB, rawRhs, Payload.shaped, Ty.isBool, Ty.isNumber, Ty.isString, canon, enc,
        Payload.containsMarked] at b1 b2 ⊢
      case seq ys =>
        simp only [Payload.depth] at db
        exact rawZip_enc sr N H ts xs ys hc ⟨a1, by simpa [Payload.containsMarked] using a2, by simpa [Payload.quotable] using a3⟩
          ⟨b1, b2, by simpa [Payload.quotable] using b3⟩ (by omega) (by omega)
  | t, .smap kx xs, q, hc, ha, hb, da, db => by
    obtain ⟨a1, a2, a3⟩ := ha
    simp only [Payload.depth] at da
    simp only [Payload.quotable, Bool.and_eq_true] at a3
    cases t <;> simp [Payload.shaped] at a1
    case map e =>
      simp only [capFree] at hc
      obtain ⟨b1, b2, b3⟩ := hb
      cases q <;> simp [rawK, rawB, rawRhs, Payload.shaped, Ty.isBool, Ty.isNumber, Ty.isString, canon, enc,
        Payload.containsMarked] at b1 b2 ⊢
      case smap ky ys =>
        simp only [Payload.depth] at db
        simp only [Payload.quotable, Bool.and_eq_true] at b3
        rw [rawMap_enc sr N H e kx xs ky ys hc ⟨a1.2, by simpa [Payload.containsMarked] using a2, a3.2⟩
          ⟨b1.2, b2, b3.2⟩ (by omega) (by omega)]
        simp only [canonAll_length]
        by_cases hl : xs.length = ys.length <;> simp [hl]
    case object ns ts os =>
      simp only [capFree, Bool.and_eq_true] at hc
      obtain ⟨b1, b2, b3⟩ := hb
      cases q <;> simp [rawK, rawB, rawRhs, Payload.shaped, Ty.isBool, Ty.isNumber, Ty.isString, canon, enc,
        Payload.containsMarked] at b1 b2 ⊢
      case smap ky ys =>
        simp only [Payload.depth] at db
        simp only [Payload.quotable, Bool.and_eq_true] at b3
        exact rawZip_enc sr N H ts xs ys hc.2 ⟨a1.2, by simpa [Payload.containsMarked] using a2, a3.2⟩
          ⟨b1.2, b2, b3.2⟩ (by omega) (by omega)
  | t, .sset ix xs, q, hc, ha, hb, da, db => by
    obtain ⟨a1, a2, a3⟩ := ha
    simp only [Payload.depth] at da
    cases t <;> simp [Payload.shaped] at a1
    case set e =>
      simp only [capFree] at hc
      obtain ⟨b1, b2, b3⟩ := hb
      cases q <;> simp [rawK, rawB, rawRhs, Payload.shaped, Ty.isBool, Ty.isNumber, Ty.isString, canon, enc,
        Payload.containsMarked] at b1 b2 ⊢
      case sset iy ys =>
        simp only [Payload.depth] at db
        have := H e xs ys hc ⟨a1.2, by simpa [Payload.containsMarked] using a2, by simpa [Payload.quotable] using a3⟩
          ⟨b1.2, b2, by simpa [Payload.quotable] using b3⟩ da db
        simpa [canonSet, rawB] using this
theorem rawAll_enc (sr : SetRawRec) (N : Nat) (H : SrOK sr N) : ∀ (e : Ty) (xs ys : List Payload), capFree e = true →
    GAll e xs → GAll e ys → Payload.depthL xs ≤ N → Payload.depthL ys ≤ N →
    rawAll sr e xs ys = .ok (rawBAll (enc e) (canonAll e xs) (canonAll e ys))
  | _, [], _, _, _, _, _, _ => by simp [rawAll, rawBAll, canonAll]
  | _, _ :: _, [], _, _, _, _, _ => by simp [rawAll, rawBAll, canonAll]
  | e, x :: xs, y :: ys, hc, ha, hb, da, db => by
    obtain ⟨hx, hxs⟩ := GAll_cons ha
    obtain ⟨hy, hys⟩ := GAll_cons hb
    obtain ⟨dx, dxs⟩ := depthL_cons da
    obtain ⟨dy, dys⟩ := depthL_cons db
    simp only [rawAll, rawBAll, canonAll, rawK_enc sr N H e x y hc hx hy dx dy]
    cases rawB (enc e) (canon e x) (canon e y)
    · rfl
    · simpa [Res.andThen] using rawAll_enc sr N H e xs ys hc hxs hys dxs dys
theorem rawZip_enc (sr : SetRawRec) (N : Nat) (H : SrOK sr N) : ∀ (ts : List Ty) (xs ys : List Payload),
    capFreeL ts = true → GZip ts xs → GZip ts ys → Payload.depthL xs ≤ N → Payload.depthL ys ≤ N →
    rawZip sr ts xs ys = .ok (rawBZip (encL ts) (canonZip ts xs) (canonZip ts ys))
  | [], _, _, _, _, _, _, _ => by simp [rawZip, rawBZip, encL]
  | _ :: _, [], _, _, ha, _, _, _ => by have := ha.1; simp [Payload.shapedZip] at this
  | _ :: _, _ :: _, [], _, _, hb, _, _ => by have := hb.1; simp [Payload.shapedZip] at this
  | t :: ts, x :: xs, y :: ys, hc, ha, hb, da, db => by
    obtain ⟨hx, hxs⟩ := GZip_cons ha
    obtain ⟨hy, hys⟩ := GZip_cons hb
    obtain ⟨dx, dxs⟩ := depthL_cons da
    obtain ⟨dy, dys⟩ := depthL_cons db
    simp only [capFreeL, Bool.and_eq_true] at hc
    simp only [rawZip, rawBZip, canonZip, encL, rawK_enc sr N H t x y hc.1 hx hy dx dy]
    cases rawB (enc t) (canon t x) (canon t y)
    · rfl
    · simpa [Res.andThen] using rawZip_enc sr N H ts xs ys hc.2 hxs hys dxs dys
theorem rawMap_enc (sr : SetRawRec) (N : Nat) (H : SrOK sr N) : ∀ (e : Ty) (ks : List String) (xs : List Payload)
    (ky : List String) (ys : List Payload), capFree e = true → GAll e xs → GAll e ys → Payload.depthL xs ≤ N →
    Payload.depthL ys ≤ N →
    rawMap sr e ks xs ky ys = .ok (rawBMap (enc e) ks (canonAll e xs) ky (canonAll e ys))
  | _, [], _, _, _, _, _, _, _, _ => by simp [rawMap, rawBMap]
  | _, _ :: _, [], _, _, _, _, _, _, _ => by simp [rawMap, rawBMap, canonAll]
  | e, k :: ks, x :: xs, ky, ys, hc, ha, hb, da, db => by
    obtain ⟨hx, hxs⟩ := GAll_cons ha
    obtain ⟨dx, dxs⟩ := depthL_cons da
    simp only [rawMap, rawBMap, canonAll, lookupKey_canon]
    cases hl : lookupKey k ky ys with
    | none => rfl
    | some y =>
      obtain ⟨hy, dy⟩ := G_of_lookupKey hl hb db
      simp only [Option.map_some, rawK_enc sr N H e x y hc hx hy dx dy]
      cases rawB (enc e) (canon e x) (canon e y)
      · rfl
      · simpa [Res.andThen] using rawMap_enc sr N H e ks xs ky ys hc hxs hb dxs db
end

end D03b
end CtyModel
