/-
`Value.UnmarkDeep` rebuilds every set it passes (`Value.unmarkDeepR`,
CtyModel/MarksOps.lean).  The result is the deeply unmarked value
(`Payload.stripMarks`) up to the order in which hash-tied members are stored
inside their bucket: same buckets, same members, at every depth.
-/
import CtyModel.Lemmas.MarksSets
import CtyModel.Lemmas.SetRefineSort
namespace CtyModel
namespace Value

mutual
/-- equal up to the storage order of set members inside their buckets -/
def SameSets : Payload → Payload → Prop
  | .seq vs, q => ∃ ws, q = .seq ws ∧ SameSetsL vs ws
  | .smap ks vs, q => ∃ ws, q = .smap ks ws ∧ SameSetsL vs ws
  | .sset ids vs, q => ∃ ids' ws ws', q = .sset ids' ws' ∧ SameSetsL vs ws ∧ (ids.zip ws).Perm (ids'.zip ws')
  | .marked ms r, q => ∃ r', q = .marked ms r' ∧ SameSets r r'
  | p, q => q = p
def SameSetsL : List Payload → List Payload → Prop
  | [], ws => ws = []
  | v :: vs, ws => ∃ w ws', ws = w :: ws' ∧ SameSets v w ∧ SameSetsL vs ws'
end

theorem zip_unzip {α β} (l : List (α × β)) : (l.map (·.1)).zip (l.map (·.2)) = l := by
  induction l with
  | nil => rfl
  | cons a l ih => simp [ih]

theorem rebuildSet_perm (less : Payload → Payload → Bool) (ids : List Int) (vs : List Payload) :
    (ids.zip vs).Perm ((rebuildSet less ids vs).1.zip (rebuildSet less ids vs).2) := by
  simp only [rebuildSet, zip_unzip]
  exact ((SetImpl.sortStable_perm _ _).trans (SetImpl.sortStable_perm _ _)).symm

mutual
theorem sameSets_unmarkDeepR (bl : Ty → Payload → Payload → Bool) :
    ∀ (p : Payload) (t : Ty), SameSets p.stripMarks (unmarkDeepR bl t p)
  | .marked _ r, t => by simpa [Payload.stripMarks, unmarkDeepR] using sameSets_unmarkDeepR bl r t
  | .seq vs, t => by
    simp only [Payload.stripMarks, unmarkDeepR]
    split
    · exact ⟨_, rfl, sameSetsL_zip bl vs _⟩
    · exact ⟨_, rfl, sameSetsL_all bl vs _⟩
  | .smap ks vs, t => by
    simp only [Payload.stripMarks, unmarkDeepR]
    split
    · exact ⟨_, rfl, sameSetsL_zip bl vs _⟩
    · exact ⟨_, rfl, sameSetsL_all bl vs _⟩
  | .sset ids vs, t => by
    simp only [Payload.stripMarks, unmarkDeepR]
    exact ⟨_, _, _, rfl, sameSetsL_all bl vs _, rebuildSet_perm _ _ _⟩
  | .null, _ | .unk _, _ | .b _, _ | .n _, _ | .s _, _ | .caps, _ | .bad _, _ => by
    simp [Payload.stripMarks, unmarkDeepR, SameSets]
theorem sameSetsL_all (bl : Ty → Payload → Payload → Bool) :
    ∀ (vs : List Payload) (e : Ty), SameSetsL (Payload.stripMarksL vs) (unmarkDeepRAll bl e vs)
  | [], _ => by simp [Payload.stripMarksL, unmarkDeepRAll, SameSetsL]
  | v :: vs, e => by
    simp only [Payload.stripMarksL, unmarkDeepRAll, SameSetsL]
    exact ⟨_, _, rfl, sameSets_unmarkDeepR bl v e, sameSetsL_all bl vs e⟩
theorem sameSetsL_zip (bl : Ty → Payload → Payload → Bool) :
    ∀ (vs : List Payload) (ts : List Ty), SameSetsL (Payload.stripMarksL vs) (unmarkDeepRZip bl ts vs)
  | [], _ => by simp [Payload.stripMarksL, unmarkDeepRZip, SameSetsL]
  | v :: vs, ts => by
    simp only [Payload.stripMarksL, unmarkDeepRZip, SameSetsL]
    exact ⟨_, _, rfl, sameSets_unmarkDeepR bl v _, sameSetsL_zip bl vs ts.tail⟩
end

/-- a value without sets that hold several members in one bucket is rebuilt exactly -/
theorem rebuildSet_single (less : Payload → Payload → Bool) (i : Int) (v : Payload) :
    rebuildSet less [i] [v] = ([i], [v]) := by
  simp [rebuildSet, SetImpl.sortStable, SetImpl.insertBack]

end Value
end CtyModel
