/-
C01 for `Equals` on the fragment of primitives, lists and tuples (nested), with
refined unknowns anywhere: the weakened comparison answers "unknown" or exactly
what the concrete comparison answers.

* `equalsPre_eq` rewrites the early-return chain of `equalsPre` as one decision list.
* `includes_frag`: on the fragment `ValueRange.Includes` never panics and a False
  from it means the concrete comparison is False (numbers: integers, where cty's
  text-based `rawNumberEqual` coincides with `big.Float.Cmp`).
* `eqF_sound`: induction on the fuel, through `equalsZip` / `equalsAll`.
* `equalsFuel_stable`: the fuel `equalsP` picks is enough.
-/
import CtyModel.Lemmas.OpsColl
import CtyModel.Lemmas.OpsKnown
namespace CtyModel
open Value Cov NumCmp


/-- the derived `BEq` of `Tri` decides equality -/
local instance : LawfulBEq Tri where
  eq_of_beq := by intro a b h; cases a <;> cases b <;> first | rfl | cases h
  rfl := by intro a; cases a <;> rfl

/-- the checks of `equalsPre`, written as one decision list -/
def incFalse (r : Res (Option Bool)) : Res Bool :=
  match r with
  | .ok (some false) => .ok true
  | .ok _ => .ok false
  | .err c => .err c
  | .panic w => .panic w
  | .unmodelled => .unmodelled

def equalsPre' (a b : Value) : Res (Option Value) :=
  if a.isNull && definitelyNotNull b then .ok (some (boolVal false))
  else if b.isNull && definitelyNotNull a then .ok (some (boolVal false))
  else if a.isKnown && !b.isKnown then
    (match b.range with
     | .ok rb =>
       (match incFalse (includes rb a) with
        | .ok true => .ok (some (boolVal false))
        | .ok false =>
          if a.isNull || b.ty.hasDyn then .ok (some unkBool)
          else if !(a.ty.equals b.ty) then .ok (some (boolVal false))
          else .ok (some unkBool)
        | .err c => .err c | .panic w => .panic w | .unmodelled => .unmodelled)
     | .err c => .err c | .panic w => .panic w | .unmodelled => .unmodelled)
  else if b.isKnown && !a.isKnown then
    (match a.range with
     | .ok ra =>
       (match incFalse (includes ra b) with
        | .ok true => .ok (some (boolVal false))
        | .ok false =>
          if b.isNull || a.ty.hasDyn then .ok (some unkBool)
          else if !(b.ty.equals a.ty) then .ok (some (boolVal false))
          else .ok (some unkBool)
        | .err c => .err c | .panic w => .panic w | .unmodelled => .unmodelled)
     | .err c => .err c | .panic w => .panic w | .unmodelled => .unmodelled)
  else if !a.isKnown && !b.isKnown then .ok (some unkBool)
  else if a.isNull && b.isNull then .ok (some (boolVal true))
  else if a.isNull || b.isNull then .ok (some (boolVal false))
  else .ok none

theorem equalsPre_eq (a b : Value) : equalsPre a b = equalsPre' a b := by
  unfold equalsPre equalsPre'
  by_cases h1 : (a.isNull && definitelyNotNull b) = true
  · simp [h1]
  by_cases h2 : (b.isNull && definitelyNotNull a) = true
  · simp [h1, h2]
  simp only [h1, h2, Bool.false_eq_true, if_false]
  cases ak : a.isKnown <;> cases bk : b.isKnown <;> simp [Bind.bind, Res.bind, pure]
  · cases hr : a.range <;> simp only
    rename_i ra
    cases hi : includes ra b <;> simp only [incFalse]
    rename_i oo
    cases oo with
    | none => simp
    | some bb => cases bb <;> simp
  · cases hr : b.range <;> simp only
    rename_i rb
    cases hi : includes rb a <;> simp only [incFalse]
    rename_i oo
    cases oo with
    | none => simp
    | some bb => cases bb <;> simp

/-! ### the fragment: primitives, lists, tuples; well-typed payloads -/
mutual
def eqTy : Ty → Bool
  | .bool | .number | .string => true
  | .list e => eqTy e
  | .tuple es => eqTyL es
  | _ => false
def eqTyL : List Ty → Bool
  | [] => true
  | t :: ts => eqTy t && eqTyL ts
end

/-- the refinement kind belongs on an unknown of this type (fragment types only) -/
def kindOK (t : Ty) (r : Rfn) : Bool :=
  match r with
  | .unref => true
  | .nullable _ => (match t with | .bool | .tuple _ => true | _ => false)
  | .str _ _ => (match t with | .string => true | _ => false)
  | .num _ lo hi => (match t with | .number => true | _ => false) &&
      (match lo with | some b => b.v.isInt | none => true) && (match hi with | some b => b.v.isInt | none => true)
  | .coll _ _ _ => (match t with | .list _ => true | _ => false)

mutual
/-- the payload is what the type dictates (mark-free), unknowns carry a refinement
of the right kind, and every number in sight (members and numeric bounds) is an
integer -/
def wt : Ty → Payload → Bool
  | _, .null => true
  | t, .unk r => kindOK t r
  | t, .b _ => (match t with | .bool => true | _ => false)
  | t, .n x => (match t with | .number => x.isInt | _ => false)
  | t, .s _ => (match t with | .string => true | _ => false)
  | t, .seq vs => (match t with | .list e => wtAll e vs | .tuple es => wtZip es vs | _ => false)
  | _, _ => false
def wtAll : Ty → List Payload → Bool
  | _, [] => true
  | e, v :: vs => wt e v && wtAll e vs
def wtZip : List Ty → List Payload → Bool
  | [], [] => true
  | t :: ts, v :: vs => wt t v && wtZip ts vs
  | _, _ => false
end

mutual
theorem eqTy_noDyn : ∀ t : Ty, eqTy t = true → t.hasDyn = false
  | .bool, _ | .number, _ | .string, _ => by simp [Ty.hasDyn]
  | .list e, h => by simp only [eqTy] at h; simp [Ty.hasDyn, eqTy_noDyn e h]
  | .tuple es, h => by simp only [eqTy] at h; simp [Ty.hasDyn, eqTyL_noDyn es h]
  | .dyn, h | .set _, h | .map _, h | .object _ _ _, h | .capsule _, h => by simp [eqTy] at h
theorem eqTyL_noDyn : ∀ ts : List Ty, eqTyL ts = true → Ty.hasDynL ts = false
  | [], _ => by simp [Ty.hasDynL]
  | t :: ts, h => by
    simp only [eqTyL, Bool.and_eq_true] at h
    simp [Ty.hasDynL, eqTy_noDyn t h.1, eqTyL_noDyn ts h.2]
end

mutual
theorem hwkt_of_frag : ∀ (t : Ty) (p : Payload), eqTy t = true → wt t p = true → hasWhollyKnownType t p = true
  | t, .null, _, _ => by simp [hasWhollyKnownType]
  | t, .unk r, ht, _ => by simp [hasWhollyKnownType, eqTy_noDyn t ht]
  | t, .b _, _, _ => by cases t <;> simp [hasWhollyKnownType]
  | t, .n _, _, _ => by cases t <;> simp [hasWhollyKnownType]
  | t, .s _, _, _ => by cases t <;> simp [hasWhollyKnownType]
  | t, .caps, _, h => by simp [wt] at h
  | t, .bad _, _, h => by simp [wt] at h
  | t, .marked _ _, _, h => by simp [wt] at h
  | t, .smap _ _, _, h => by simp [wt] at h
  | t, .sset _ _, _, h => by simp [wt] at h
  | .list e, .seq vs, ht, h => by
    simp only [eqTy] at ht; simp only [wt] at h
    simp [hasWhollyKnownType, hwktAll_of_frag e vs ht h]
  | .tuple es, .seq vs, ht, h => by
    simp only [eqTy] at ht; simp only [wt] at h
    simp [hasWhollyKnownType, hwktZip_of_frag es vs ht h]
  | .bool, .seq _, _, h | .number, .seq _, _, h | .string, .seq _, _, h | .dyn, .seq _, _, h | .set _, .seq _, _, h
  | .map _, .seq _, _, h | .object _ _ _, .seq _, _, h | .capsule _, .seq _, _, h => by simp [wt] at h
theorem hwktAll_of_frag : ∀ (e : Ty) (vs : List Payload), eqTy e = true → wtAll e vs = true → hwktAll e vs = true
  | e, [], _, _ => by simp [hwktAll]
  | e, v :: vs, ht, h => by
    simp only [wtAll, Bool.and_eq_true] at h
    simp [hwktAll, hwkt_of_frag e v ht h.1, hwktAll_of_frag e vs ht h.2]
theorem hwktZip_of_frag : ∀ (ts : List Ty) (vs : List Payload), eqTyL ts = true → wtZip ts vs = true → hwktZip ts vs = true
  | [], [], _, _ => by simp [hwktZip]
  | [], _ :: _, _, h => by simp [wtZip] at h
  | _ :: _, [], _, h => by simp [wtZip] at h
  | t :: ts, v :: vs, ht, h => by
    simp only [eqTyL, Bool.and_eq_true] at ht
    simp only [wtZip, Bool.and_eq_true] at h
    simp [hwktZip, hwkt_of_frag t v ht.1 h.1, hwktZip_of_frag ts vs ht.2 h.2]
end

theorem equalsFuel_shape {fuel : Nat} {ta tb : Ty} {a b : Payload} {r : Value}
    (h : equalsFuel fuel ta a tb b = .ok r) : r = unkBool ∨ ∃ x, r = boolVal x := by
  cases fuel with
  | zero => cases h
  | succ n =>
    unfold equalsFuel at h
    split at h
    · rename_i r' hp
      cases h
      rcases equalsPre_shape hp with ⟨x, rfl⟩ | rfl
      · exact Or.inr ⟨x, rfl⟩
      · exact Or.inl rfl
    · cases h
    · cases h
    · cases h
    · simp only at h
      repeat' split at h
      all_goals first
        | (cases h; done)
        | (cases h; exact Or.inr ⟨_, rfl⟩)
        | (cases h; exact Or.inl rfl)
        | (obtain ⟨acc, _, rfl⟩ := res_map_ok h; cases acc <;> first | exact Or.inr ⟨_, rfl⟩ | exact Or.inl rfl)

/-- on wholly known operands Equals answers a boolean -/
theorem equalsFuel_conc_bool {fuel : Nat} {ta tb : Ty} {a b : Payload} {r : Value}
    (ha : a.whollyKnown = true) (hb : b.whollyKnown = true)
    (h : equalsFuel fuel ta a tb b = .ok r) : ∃ x, r = boolVal x := by
  have hw := equalsFuel_wk fuel ta a tb b r ha hb h
  rcases equalsFuel_shape h with rfl | h'
  · simp [unkBool, Value.whollyKnown, Payload.whollyKnown] at hw
  · exact h'

theorem equalsPre_both_known {a b : Value} (ha : a.isKnown = true) (hb : b.isKnown = true) :
    equalsPre a b = .ok (if a.isNull then some (boolVal b.isNull) else if b.isNull then some (boolVal false) else none) := by
  rw [equalsPre_eq]
  unfold equalsPre'
  cases an : a.isNull <;> cases bn : b.isNull <;> simp [definitelyNotNull, ha, hb, an, bn]

/-- payload-level facts -/
def pKnown (p : Payload) : Bool := match p with | .unk _ => false | .marked _ _ => false | _ => true

theorem isKnown_of_pKnown {t : Ty} {p : Payload} (h : pKnown p = true) : (⟨t, p⟩ : Value).isKnown = true := by
  cases p <;> simp [pKnown] at h <;> simp [Value.isKnown, Payload.isKnown, Payload.unmark1]

def pNull (p : Payload) : Bool := match p with | .null => true | _ => false

theorem isNull_val {t : Ty} {p : Payload} (h : pKnown p = true) : (⟨t, p⟩ : Value).isNull = pNull p := by
  cases p <;> simp [pKnown] at h <;> simp [Value.isNull, Payload.isNull, Payload.unmark1, pNull]

/-- a known payload covering exactly: null iff null, and known again -/
theorem coversP_known_null {w o : Payload} (hc : coversP true w o = true) (hw : pKnown w = true) :
    pKnown o = true ∧ ((w = .null) ↔ (o = .null)) := by
  cases w <;> cases o <;> simp_all [coversP, pKnown]

theorem pKnown_of_wk {t : Ty} {p : Payload} (h : p.whollyKnown = true) (hwt : wt t p = true) : pKnown p = true := by
  cases p <;> simp_all [pKnown, Payload.whollyKnown, wt]

/-! ### members: the induction hypothesis and the accumulators -/
def EqIH (rec : EqRec) : Prop :=
  ∀ (t1 t2 : Ty) (o1 o2 w1 w2 : Payload) (r : Value), eqTy t1 = true → eqTy t2 = true →
    wt t1 o1 = true → wt t2 o2 = true → wt t1 w1 = true → wt t2 w2 = true →
    o1.whollyKnown = true → o2.whollyKnown = true → coversP true w1 o1 = true → coversP true w2 o2 = true →
    rec t1 o1 t2 o2 = .ok r → ∃ r', rec t1 w1 t2 w2 = .ok r' ∧ (r' = unkBool ∨ r' = r)

def RecBool (rec : EqRec) : Prop :=
  ∀ (t1 t2 : Ty) (o1 o2 : Payload) (r : Value), o1.whollyKnown = true → o2.whollyKnown = true →
    rec t1 o1 t2 o2 = .ok r → ∃ x, r = boolVal x

theorem eqAccOf_ok {rc : Res Value} {acc : EqAcc} (h : eqAccOf rc = .ok acc) : ∃ v, rc = .ok v := by
  cases rc <;> simp_all [eqAccOf]

theorem eqAccOf_unkBool : eqAccOf (.ok unkBool) = .ok .u := by decide
theorem eqAccOf_boolVal (x : Bool) : eqAccOf (.ok (boolVal x)) = .ok (if x then .t else .f) := by cases x <;> decide

theorem equalsZip_sound {rec : EqRec} (ih : EqIH rec) (hb : RecBool rec) :
    ∀ (ts : List Ty) (os1 os2 ws1 ws2 : List Payload) (acc : EqAcc), eqTyL ts = true →
    wtZip ts os1 = true → wtZip ts os2 = true → wtZip ts ws1 = true → wtZip ts ws2 = true →
    Payload.whollyKnownL os1 = true → Payload.whollyKnownL os2 = true →
    coversL true ws1 os1 = true → coversL true ws2 os2 = true →
    equalsZip rec ts os1 os2 = .ok acc → ∃ acc', equalsZip rec ts ws1 ws2 = .ok acc' ∧ (acc' = .u ∨ acc' = acc)
  | [], os1, os2, ws1, ws2, acc, _, _, _, _, _, _, _, _, _, h => by
    simp only [equalsZip] at h ⊢; exact ⟨_, rfl, Or.inr (by cases h; rfl)⟩
  | t :: ts, [], _, _, _, _, _, h, _, _, _, _, _, _, _, _ => by simp [wtZip] at h
  | t :: ts, _ :: _, [], _, _, _, _, _, h, _, _, _, _, _, _, _ => by simp [wtZip] at h
  | t :: ts, _ :: _, _ :: _, [], _, _, _, _, _, h, _, _, _, _, _, _ => by simp [wtZip] at h
  | t :: ts, _ :: _, _ :: _, _ :: _, [], _, _, _, _, _, h, _, _, _, _, _ => by simp [wtZip] at h
  | t :: ts, o1 :: os1, o2 :: os2, w1 :: ws1, w2 :: ws2, acc, ht, ho1, ho2, hw1, hw2, hk1, hk2, hc1, hc2, h => by
    simp only [eqTyL, Bool.and_eq_true] at ht
    simp only [wtZip, Bool.and_eq_true] at ho1 ho2 hw1 hw2
    simp only [Payload.whollyKnownL, Bool.and_eq_true] at hk1 hk2
    simp only [coversL, Bool.and_eq_true] at hc1 hc2
    simp only [equalsZip] at h ⊢
    cases hro : rec t o1 t o2 with
    | ok v =>
      obtain ⟨x, rfl⟩ := hb t t o1 o2 v hk1.1 hk2.1 hro
      obtain ⟨r', hr', hor⟩ := ih t t o1 o2 w1 w2 _ ht.1 ht.1 ho1.1 ho2.1 hw1.1 hw2.1 hk1.1 hk2.1 hc1.1 hc2.1 hro
      rw [hro, eqAccOf_boolVal] at h
      rw [hr']
      rcases hor with rfl | rfl
      · rw [eqAccOf_unkBool]; exact ⟨_, rfl, Or.inl rfl⟩
      · rw [eqAccOf_boolVal]
        cases x
        · simp only [Bool.false_eq_true, if_false] at h ⊢; exact ⟨_, rfl, Or.inr (by cases h; rfl)⟩
        · simp only [if_true] at h ⊢
          exact equalsZip_sound ih hb ts os1 os2 ws1 ws2 acc ht.2 ho1.2 ho2.2 hw1.2 hw2.2 hk1.2 hk2.2 hc1.2 hc2.2 h
    | err c => rw [hro] at h; simp [eqAccOf] at h
    | panic c => rw [hro] at h; simp [eqAccOf] at h
    | unmodelled => rw [hro] at h; simp [eqAccOf] at h

theorem equalsAll_sound {rec : EqRec} (ih : EqIH rec) (hb : RecBool rec) (e : Ty) (he : eqTy e = true) :
    ∀ (os1 os2 ws1 ws2 : List Payload) (acc : EqAcc),
    wtAll e os1 = true → wtAll e os2 = true → wtAll e ws1 = true → wtAll e ws2 = true →
    Payload.whollyKnownL os1 = true → Payload.whollyKnownL os2 = true →
    coversL true ws1 os1 = true → coversL true ws2 os2 = true →
    equalsAll rec e os1 os2 = .ok acc → ∃ acc', equalsAll rec e ws1 ws2 = .ok acc' ∧ (acc' = .u ∨ acc' = acc)
  | [], os2, ws1, ws2, acc, _, _, _, _, _, _, hc1, _, h => by
    cases ws1 <;> simp [coversL] at hc1
    simp only [equalsAll] at h ⊢; exact ⟨_, rfl, Or.inr (by cases h; rfl)⟩
  | o1 :: os1, [], ws1, ws2, acc, _, _, _, _, _, _, hc1, hc2, h => by
    cases ws2 <;> simp [coversL] at hc2
    cases ws1 <;> simp [coversL] at hc1
    simp only [equalsAll] at h ⊢; exact ⟨_, rfl, Or.inr (by cases h; rfl)⟩
  | o1 :: os1, o2 :: os2, [], _, _, _, _, _, _, _, _, hc1, _, _ => by simp [coversL] at hc1
  | o1 :: os1, o2 :: os2, _ :: _, [], _, _, _, _, _, _, _, _, hc2, _ => by simp [coversL] at hc2
  | o1 :: os1, o2 :: os2, w1 :: ws1, w2 :: ws2, acc, ho1, ho2, hw1, hw2, hk1, hk2, hc1, hc2, h => by
    simp only [wtAll, Bool.and_eq_true] at ho1 ho2 hw1 hw2
    simp only [Payload.whollyKnownL, Bool.and_eq_true] at hk1 hk2
    simp only [coversL, Bool.and_eq_true] at hc1 hc2
    simp only [equalsAll] at h ⊢
    cases hro : rec e o1 e o2 with
    | ok v =>
      obtain ⟨x, rfl⟩ := hb e e o1 o2 v hk1.1 hk2.1 hro
      obtain ⟨r', hr', hor⟩ := ih e e o1 o2 w1 w2 _ he he ho1.1 ho2.1 hw1.1 hw2.1 hk1.1 hk2.1 hc1.1 hc2.1 hro
      rw [hro, eqAccOf_boolVal] at h
      rw [hr']
      rcases hor with rfl | rfl
      · rw [eqAccOf_unkBool]; exact ⟨_, rfl, Or.inl rfl⟩
      · rw [eqAccOf_boolVal]
        cases x
        · simp only [Bool.false_eq_true, if_false] at h ⊢; exact ⟨_, rfl, Or.inr (by cases h; rfl)⟩
        · simp only [if_true] at h ⊢
          exact equalsAll_sound ih hb e he os1 os2 ws1 ws2 acc ho1.2 ho2.2 hw1.2 hw2.2 hk1.2 hk2.2 hc1.2 hc2.2 h
    | err c => rw [hro] at h; simp [eqAccOf] at h
    | panic c => rw [hro] at h; simp [eqAccOf] at h
    | unmodelled => rw [hro] at h; simp [eqAccOf] at h

/-! ### the concrete call on known, non-null operands -/
theorem conform_zero_of_equals {t1 t2 : Ty} (h : Ty.equals t1 t2 = true) : Ty.conformErrs t2 t1 = 0 := by
  cases t2 <;> simp [Ty.conformErrs, h]

theorem beq_eq_icmp (a b : Int) : (a == b) = ((if a < b then (-1:Int) else if a = b then 0 else 1) == 0) := by
  by_cases h1 : a < b
  · have : ¬ a = b := by omega
    simp [h1, this]
  · by_cases h2 : a = b <;> simp [h1, h2]

theorem beq_neg_icmp (a b : Int) : (-a == -b) = ((if b < a then (-1:Int) else if a = b then 0 else 1) == 0) := by
  by_cases h1 : b < a
  · have : ¬ a = b := by omega
    have : ¬ (-a = -b) := by omega
    simp [h1, *]
  · by_cases h2 : a = b
    · simp [h2]
    · have : ¬ (-a = -b) := by omega
      simp [h1, h2, this]

theorem isInt_coh {x y : Num} (hx : x.isInt = true) (hy : y.isInt = true) :
    Num.rawEqual x y = (Num.cmp x y == 0) := by
  cases x with
  | inf _ => simp [Num.isInt] at hx
  | fin nx mx ex px =>
    cases y with
    | inf _ => simp [Num.isInt] at hy
    | fin ny my ey py =>
      simp only [Num.isInt, ge_iff_le, decide_eq_true_eq] at hx hy
      rw [cmp_eq_kcmp 0 _ _ (by simpa [below] using hx) (by simpa [below] using hy)]
      simp only [Num.rawEqual, Num.isInt, ge_iff_le, hx, hy, decide_true, bne_self_eq_false, Bool.false_eq_true,
        if_false, if_true, Num.truncInt, key, kcmp, Num.scaleTo, Int.sub_zero, Int.lt_irrefl, icmp, sgnm]
      have px : (0:Int) < 2 ^ ex.toNat := two_pow_pos _
      have py : (0:Int) < 2 ^ ey.toNat := two_pow_pos _
      have hvx : (mx = 0 → (mx:Int) * 2 ^ ex.toNat = 0) ∧ (mx ≠ 0 → 0 < (mx:Int) * 2 ^ ex.toNat) :=
        ⟨fun h => by simp [h], fun h => Int.mul_pos (by omega) px⟩
      have hvy : (my = 0 → (my:Int) * 2 ^ ey.toNat = 0) ∧ (my ≠ 0 → 0 < (my:Int) * 2 ^ ey.toNat) :=
        ⟨fun h => by simp [h], fun h => Int.mul_pos (by omega) py⟩
      cases nx <;> cases ny <;> simp only [Bool.false_eq_true, if_false, if_true, Int.neg_mul] <;>
        generalize (mx:Int) * 2 ^ ex.toNat = vx at hvx ⊢ <;>
        generalize (my:Int) * 2 ^ ey.toNat = vy at hvy ⊢ <;>
        by_cases hmx : mx = 0 <;> by_cases hmy : my = 0 <;>
        simp [Num.sign, hmx, hmy] <;>
        (first | (have := hvx.1 hmx) | (have := hvx.2 hmx)) <;>
        (first | (have := hvy.1 hmy) | (have := hvy.2 hmy)) <;>
        (try (split <;> (try split) <;> omega)) <;> (try omega) <;> (try exact beq_eq_icmp _ _) <;> (try exact beq_neg_icmp _ _)

theorem ne_null_of_nonnull {p : Payload} (h : p ≠ .null) : pNull p = false := by
  cases p <;> simp_all [pNull]

/-- concrete call, one side null -/
theorem equalsFuel_right_null {n : Nat} {t1 t2 : Ty} {a : Payload} (ha : pKnown a = true) (han : a ≠ .null) :
    equalsFuel (n + 1) t1 a t2 .null = .ok (boolVal false) := by
  unfold equalsFuel
  rw [equalsPre_both_known (isKnown_of_pKnown ha) (isKnown_of_pKnown (by rfl))]
  simp [isNull_val ha, isNull_val (p := .null) (by rfl), ne_null_of_nonnull han, pNull]

/-- concrete call on known non-null operands of the fragment: types first, then the structure -/
theorem equalsFuel_ty_mismatch {n : Nat} {t1 t2 : Ty} {a b : Payload} (ha : pKnown a = true) (hb : pKnown b = true)
    (han : a ≠ .null) (hbn : b ≠ .null) (h1 : hasWhollyKnownType t1 a = true) (h2 : hasWhollyKnownType t2 b = true)
    (hne : Ty.equals t1 t2 = false) : equalsFuel (n + 1) t1 a t2 b = .ok (boolVal false) := by
  unfold equalsFuel
  rw [equalsPre_both_known (isKnown_of_pKnown ha) (isKnown_of_pKnown hb)]
  simp [isNull_val ha, isNull_val hb, ne_null_of_nonnull han, ne_null_of_nonnull hbn, h1, h2, hne]

theorem equalsFuel_string {n : Nat} {t2 : Ty} {x y : String} (he : Ty.equals .string t2 = true) :
    equalsFuel (n + 1) .string (.s x) t2 (.s y) = .ok (boolVal (x == y)) := by
  unfold equalsFuel
  rw [equalsPre_both_known (isKnown_of_pKnown (by rfl)) (isKnown_of_pKnown (by rfl))]
  simp [isNull_val (p := .s x) (by rfl), isNull_val (p := .s y) (by rfl), hasWhollyKnownType, he, pNull]

theorem equalsFuel_number {n : Nat} {t2 : Ty} {x y : Num} (he : Ty.equals .number t2 = true) :
    equalsFuel (n + 1) .number (.n x) t2 (.n y) = .ok (boolVal (Num.rawEqual x y)) := by
  unfold equalsFuel
  rw [equalsPre_both_known (isKnown_of_pKnown (by rfl)) (isKnown_of_pKnown (by rfl))]
  simp [isNull_val (p := .n x) (by rfl), isNull_val (p := .n y) (by rfl), hasWhollyKnownType, he, pNull]

theorem equalsFuel_list_len {n : Nat} {e t2 : Ty} {xs ys : List Payload} (he : Ty.equals (.list e) t2 = true)
    (h1 : hasWhollyKnownType (.list e) (.seq xs) = true) (h2 : hasWhollyKnownType t2 (.seq ys) = true)
    (hl : xs.length ≠ ys.length) : equalsFuel (n + 1) (.list e) (.seq xs) t2 (.seq ys) = .ok (boolVal false) := by
  unfold equalsFuel
  rw [equalsPre_both_known (isKnown_of_pKnown (by rfl)) (isKnown_of_pKnown (by rfl))]
  simp [isNull_val (p := .seq xs) (by rfl), isNull_val (p := .seq ys) (by rfl), h1, h2, he, hl, pNull]

mutual
theorem eqTy_wf : ∀ t : Ty, eqTy t = true → t.wf = true
  | .bool, _ | .number, _ | .string, _ => by simp [Ty.wf]
  | .list e, h => by simp only [eqTy] at h; simp [Ty.wf, eqTy_wf e h]
  | .tuple es, h => by simp only [eqTy] at h; simp [Ty.wf, eqTyL_wf es h]
  | .dyn, h | .set _, h | .map _, h | .object _ _ _, h | .capsule _, h => by simp [eqTy] at h
theorem eqTyL_wf : ∀ ts : List Ty, eqTyL ts = true → Ty.wfL ts = true
  | [], _ => by simp [Ty.wfL]
  | t :: ts, h => by
    simp only [eqTyL, Bool.and_eq_true] at h
    simp [Ty.wfL, eqTy_wf t h.1, eqTyL_wf ts h.2]
end

theorem eqTy_equals_symm {a b : Ty} (ha : eqTy a = true) (hb : eqTy b = true) : Ty.equals a b = Ty.equals b a := by
  rw [Bool.eq_iff_iff, Ty.equals_iff_eq a b (eqTy_wf a ha) (eqTy_wf b hb), Ty.equals_iff_eq b a (eqTy_wf b hb) (eqTy_wf a ha)]
  exact eq_comm

theorem equalsFuel_left_null {n : Nat} {t1 t2 : Ty} {b : Payload} (hb : pKnown b = true) (hbn : b ≠ .null) :
    equalsFuel (n + 1) t1 .null t2 b = .ok (boolVal false) := by
  unfold equalsFuel
  rw [equalsPre_both_known (isKnown_of_pKnown (by rfl)) (isKnown_of_pKnown hb)]
  simp [isNull_val hb, isNull_val (p := .null) (by rfl), ne_null_of_nonnull hbn, pNull]

/-- the concrete comparison is False in both operand orders -/
def ConcFalse (n : Nat) (t1 : Ty) (o1 : Payload) (t2 : Ty) (o2 : Payload) : Prop :=
  equalsFuel (n + 1) t1 o1 t2 o2 = .ok (boolVal false) ∧ equalsFuel (n + 1) t2 o2 t1 o1 = .ok (boolVal false)

theorem concFalse_null {n : Nat} {t1 t2 : Ty} {a : Payload} (ha : pKnown a = true) (han : a ≠ .null) :
    ConcFalse n t1 a t2 .null := ⟨equalsFuel_right_null ha han, equalsFuel_left_null ha han⟩

theorem concFalse_ty {n : Nat} {t1 t2 : Ty} {a b : Payload} (ht1 : eqTy t1 = true) (ht2 : eqTy t2 = true)
    (ha : pKnown a = true) (han : a ≠ .null) (hb : pKnown b = true)
    (h1 : hasWhollyKnownType t1 a = true) (h2 : hasWhollyKnownType t2 b = true)
    (hne : Ty.equals t1 t2 = false) : ConcFalse n t1 a t2 b := by
  by_cases hbn : b = .null
  · subst hbn; exact concFalse_null ha han
  · exact ⟨equalsFuel_ty_mismatch ha hb han hbn h1 h2 hne,
      equalsFuel_ty_mismatch hb ha hbn han h2 h1 (by rw [eqTy_equals_symm ht2 ht1]; exact hne)⟩

theorem cmp_fin_negInf (n : Bool) (m : Nat) (e : Int) (p : Nat) : Num.cmp (.fin n m e p) (.inf true) = 1 := by
  simp [Num.cmp]
theorem cmp_fin_posInf (n : Bool) (m : Nat) (e : Int) (p : Nat) : Num.cmp (.fin n m e p) (.inf false) = -1 := by
  simp [Num.cmp]

/-- lower-bound test of `Includes` on integers: failing it puts `x` strictly below everything the bound admits -/
theorem minOk_false {x y : Num} {lo : Option Bound} (hx : x.isInt = true)
    (hlo : (match lo with | some b => b.v.isInt | none => true) = true)
    (hadm : loInside lo (pt y) = true)
    (hmin : (if (lo.getD ⟨.inf true, true⟩).incl then numGE x (lo.getD ⟨.inf true, true⟩).v
             else decide (Num.cmp x (lo.getD ⟨.inf true, true⟩).v > 0)) = false) : Num.cmp x y < 0 := by
  cases lo with
  | none =>
    cases x with
    | inf _ => simp [Num.isInt] at hx
    | fin n m e p => simp [numGE, cmp_fin_negInf] at hmin
  | some b =>
    simp only [Option.getD_some] at hmin
    simp only [loInside, pt, Option.getD_some] at hadm
    cases hi : b.incl
    · simp only [hi, Bool.false_eq_true, if_false, decide_eq_false_iff_not] at hmin
      simp [hi] at hadm
      replace hadm := of_decide_eq_true hadm
      exact cmp_le_lt_trans (by omega) hadm
    · simp only [hi, if_true, numGE, Bool.or_eq_false_iff, decide_eq_false_iff_not] at hmin
      simp [hi] at hadm
      have hc := isInt_coh hx hlo
      rw [hc] at hmin
      have h0 : Num.cmp x b.v ≠ 0 := by simpa using hmin.2
      replace hadm := of_decide_eq_true hadm
      exact cmp_lt_le_trans (by omega) hadm

theorem maxOk_false {x y : Num} {hi : Option Bound} (hx : x.isInt = true)
    (hhi : (match hi with | some b => b.v.isInt | none => true) = true)
    (hadm : hiInside hi (pt y) = true)
    (hmax : (if (hi.getD ⟨.inf false, true⟩).incl then numLE x (hi.getD ⟨.inf false, true⟩).v
             else decide (Num.cmp x (hi.getD ⟨.inf false, true⟩).v < 0)) = false) : Num.cmp x y > 0 := by
  cases hi with
  | none =>
    cases x with
    | inf _ => simp [Num.isInt] at hx
    | fin n m e p => simp [numLE, cmp_fin_posInf] at hmax
  | some b =>
    simp only [Option.getD_some] at hmax
    simp only [hiInside, pt, Option.getD_some] at hadm
    have sw : Num.cmp x y = - Num.cmp y x := cmp_swap y x
    cases hi' : b.incl
    · simp only [hi', Bool.false_eq_true, if_false, decide_eq_false_iff_not] at hmax
      simp [hi'] at hadm
      replace hadm := of_decide_eq_true hadm
      -- y < b ≤ x
      have : Num.cmp b.v x ≤ 0 := by rw [cmp_swap x b.v]; omega
      have := cmp_lt_le_trans hadm this
      omega
    · simp only [hi', if_true, numLE, Bool.or_eq_false_iff, decide_eq_false_iff_not] at hmax
      simp [hi'] at hadm
      replace hadm := of_decide_eq_true hadm
      have hc := isInt_coh hx hhi
      rw [hc] at hmax
      have h0 : Num.cmp x b.v ≠ 0 := by simpa using hmax.2
      have : Num.cmp b.v x < 0 := by rw [cmp_swap x b.v]; omega
      have := cmp_le_lt_trans hadm this
      omega

/-! ### a known operand against an unknown one: `ValueRange.Includes` -/
def normRfn (r : Rfn) : Rfn := match r with | .unref => .nullable .u | r => r

theorem range_unk (t : Ty) (r : Rfn) : (⟨t, .unk r⟩ : Value).range = .ok ⟨t, normRfn r⟩ := by
  cases r <;> simp [Value.range, Value.isMarked, Payload.isMarked, normRfn]

theorem nullness_norm (r : Rfn) : (normRfn r).nullness = r.nullness := by cases r <;> rfl

/-- `Includes` on a known non-null member of the fragment never panics, and when it
answers False the concrete comparison is False -/
theorem includes_frag {n : Nat} {t1 t2 : Ty} {w1 o1 o2 : Payload} {r2 : Rfn}
    (ht1 : eqTy t1 = true) (ht2 : eqTy t2 = true) (hw1 : wt t1 w1 = true) (ho1 : wt t1 o1 = true)
    (ho2 : wt t2 o2 = true) (hk2 : kindOK t2 r2 = true)
    (hkn : pKnown w1 = true) (hnn : w1 ≠ .null) (hc1 : coversP true w1 o1 = true)
    (hwk1 : o1.whollyKnown = true) (hwk2 : o2.whollyKnown = true) (hadm : admits r2 o2 = true) :
    ∃ res, includes ⟨t2, normRfn r2⟩ ⟨t1, w1⟩ = .ok res ∧
      (res = some false → ConcFalse n t1 o1 t2 o2) := by
  obtain ⟨hko1, hnull⟩ := coversP_known_null hc1 hkn
  have hon : o1 ≠ .null := fun h => hnn (hnull.mpr h)
  have hko2 := pKnown_of_wk hwk2 ho2
  have hh1 := hwkt_of_frag t1 o1 ht1 ho1
  have hh2 := hwkt_of_frag t2 o2 ht2 ho2
  -- the concrete answer when o2 is null, or the types differ
  have conc_null : o2 = .null → ConcFalse n t1 o1 t2 o2 := by
    intro h; subst h; exact concFalse_null hko1 hon
  have conc_ty : Ty.equals t1 t2 = false → ConcFalse n t1 o1 t2 o2 :=
    fun h => concFalse_ty ht1 ht2 hko1 hon hko2 hh1 hh2 h
  have hvn : (⟨t1, w1⟩ : Value).isNull = false := by rw [isNull_val hkn]; exact ne_null_of_nonnull hnn
  unfold includes
  simp only [nullness_norm, hvn, Bool.and_false, Bool.false_eq_true, if_false]
  by_cases hnt : (r2.nullness == Tri.t) = true
  · -- definitely null: the concrete second operand is null
    simp only [hnt, if_true]
    refine ⟨_, rfl, fun _ => conc_null ?_⟩
    cases o2 <;> simp_all [admits, pKnown]
  simp only [hnt, Bool.false_eq_true, if_false]
  by_cases hcf : (Ty.conformErrs t2 t1 != 0) = true
  · simp only [hcf, if_true]
    refine ⟨_, rfl, fun _ => conc_ty ?_⟩
    cases he : Ty.equals t1 t2
    · rfl
    · simp [conform_zero_of_equals he] at hcf
  simp only [hcf, Bool.false_eq_true, if_false]
  have hnd : t1.isDyn = false := by cases t1 <;> simp_all [eqTy, Ty.isDyn]
  simp only [hnd, Bool.false_eq_true, if_false]
  have hnt' : r2.nullness ≠ .t := by simpa using hnt
  have ho2nn : o2 ≠ .null → pNull o2 = false := ne_null_of_nonnull
  cases r2 with
  | unref => exact ⟨_, rfl, fun h => by simp at h⟩
  | nullable nl => exact ⟨_, rfl, fun h => by simp at h⟩
  | str nl pfx =>
    -- kind: t2 is string, hence t1 is string and w1 = o1 is a string
    have ht2s : t2 = .string := by cases t2 <;> simp [kindOK] at hk2 <;> rfl
    subst ht2s
    have ht1s : t1 = .string := by
      cases t1 <;> simp [Ty.conformErrs, Ty.equals, eqTy] at hcf ht1 ⊢
    subst ht1s
    cases w1 <;> simp [wt, pKnown] at hw1 hkn hnn
    rename_i str
    cases o1 <;> simp [coversP] at hc1
    subst hc1
    simp only [normRfn]
    by_cases hp : hasPrefix str pfx = true
    · exact ⟨none, by simp [hp], fun h => by simp at h⟩
    · refine ⟨some false, by simp [hp], fun _ => ?_⟩
      by_cases h2 : o2 = .null
      · exact conc_null h2
      · cases o2 <;> simp [admits, rfnAdmitsKnown, wt, pKnown] at hadm ho2 hko2 h2
        rename_i s2
        have hne : (str == s2) = false := by
          cases hs : (str == s2)
          · rfl
          · have := eq_of_beq hs; subst this; exact absurd hadm.2 hp
        have hne' : (s2 == str) = false := by
          cases hs : (s2 == str)
          · rfl
          · have := eq_of_beq hs; subst this; exact absurd hadm.2 hp
        exact ⟨by rw [equalsFuel_string (by rfl), hne], by rw [equalsFuel_string (by rfl), hne']⟩
  | coll nl lo hi =>
    have ⟨e2, ht2l⟩ : ∃ e2, t2 = .list e2 := by cases t2 <;> simp [kindOK] at hk2; exact ⟨_, rfl⟩
    subst ht2l
    have ⟨e1, ht1l⟩ : ∃ e1, t1 = .list e1 := by
      cases t1 <;> simp [Ty.conformErrs, Ty.equals, eqTy] at hcf ht1 ⊢
    subst ht1l
    cases w1 <;> simp [wt, pKnown] at hw1 hkn hnn
    rename_i ws
    cases o1 <;> simp [coversP] at hc1
    rename_i os
    have hl := coversL_length hc1
    simp only [normRfn]
    by_cases hout : ((ws.length : Int) < lo ∨ (ws.length : Int) > hi)
    · refine ⟨some false, by simp [hout], fun _ => ?_⟩
      by_cases h2 : o2 = .null
      · exact conc_null h2
      · cases o2 <;> simp [admits, rfnAdmitsKnown, wt, pKnown, possibleLen] at hadm ho2 hko2 h2
        rename_i ys
        by_cases he : Ty.equals (.list e1) (.list e2) = true
        · exact ⟨equalsFuel_list_len he hh1 hh2 (by omega),
            equalsFuel_list_len (by rw [eqTy_equals_symm ht2 ht1]; exact he) hh2 hh1 (by omega)⟩
        · exact conc_ty (by simpa using he)
    · exact ⟨none, by simp [hout], fun h => by simp at h⟩
  | num nl lo hi =>
    have ht2n : t2 = .number := by cases t2 <;> simp [kindOK] at hk2 <;> rfl
    subst ht2n
    have ht1n : t1 = .number := by
      cases t1 <;> simp [Ty.conformErrs, Ty.equals, eqTy] at hcf ht1 ⊢
    subst ht1n
    cases w1 <;> simp [wt, pKnown] at hw1 hkn hnn
    rename_i x
    cases o1 <;> simp [coversP] at hc1
    have hx := numEq_exact hc1
    subst hx
    simp only [normRfn]
    simp only [kindOK, Bool.and_eq_true] at hk2
    obtain ⟨⟨_, hloI⟩, hhiI⟩ := hk2
    generalize hmin : (if (lo.getD ⟨.inf true, true⟩).incl then numGE x (lo.getD ⟨.inf true, true⟩).v
             else decide (Num.cmp x (lo.getD ⟨.inf true, true⟩).v > 0)) = minOk
    generalize hmax : (if (hi.getD ⟨.inf false, true⟩).incl then numLE x (hi.getD ⟨.inf false, true⟩).v
             else decide (Num.cmp x (hi.getD ⟨.inf false, true⟩).v < 0)) = maxOk
    refine ⟨if (!minOk || !maxOk) = true then some false else none, by simp only [hmin, hmax], fun hres => ?_⟩
    by_cases h2 : o2 = .null
    · exact conc_null h2
    · cases o2 <;> simp [admits, rfnAdmitsKnown, wt, pKnown] at hadm ho2 hko2 h2
      rename_i y
      have hne : Num.cmp x y ≠ 0 := by
        cases hm : minOk
        · subst hm; have := minOk_false hw1 hloI hadm.2.1 hmin; omega
        · cases hM : maxOk
          · subst hM; have := maxOk_false hw1 hhiI hadm.2.2 hmax; omega
          · simp [hm, hM] at hres
      have e1 : (Num.cmp x y == 0) = false := by simpa using hne
      have e2 : (Num.cmp y x == 0) = false := by
        have : Num.cmp y x ≠ 0 := by rw [cmp_swap x y]; omega
        simpa using this
      exact ⟨by rw [equalsFuel_number (by rfl), isInt_coh hw1 ho2, e1],
        by rw [equalsFuel_number (by rfl), isInt_coh ho2 hw1, e2]⟩

/-! ### one operand known at its top, the other unknown -/
theorem isKnown_unk (t : Ty) (r : Rfn) : (⟨t, .unk r⟩ : Value).isKnown = false := by
  simp [Value.isKnown, Payload.isKnown, Payload.unmark1]
theorem isNull_unk (t : Ty) (r : Rfn) : (⟨t, .unk r⟩ : Value).isNull = false := by
  simp [Value.isNull, Payload.isNull, Payload.unmark1]
theorem defNotNull_unk (t : Ty) (r : Rfn) : definitelyNotNull ⟨t, .unk r⟩ = (r.nullness == .f) := by
  simp [definitelyNotNull, isKnown_unk]
theorem defNotNull_known {t : Ty} {p : Payload} (h : pKnown p = true) : definitelyNotNull ⟨t, p⟩ = !pNull p := by
  simp [definitelyNotNull, isKnown_of_pKnown h, isNull_val h]

theorem includes_null {t1 : Ty} (rg : VRange) (hnf : rg.raw.nullness ≠ .f) :
    includes rg ⟨t1, .null⟩ = .ok (some true) := by
  have hv : (⟨t1, .null⟩ : Value).isNull = true := by simp [Value.isNull, Payload.isNull, Payload.unmark1]
  unfold includes
  cases hn : rg.raw.nullness <;> simp_all

theorem known_vs_unknown {n : Nat} {t1 t2 : Ty} {w1 o1 o2 : Payload} {r2 : Rfn}
    (ht1 : eqTy t1 = true) (ht2 : eqTy t2 = true) (hw1 : wt t1 w1 = true) (ho1 : wt t1 o1 = true)
    (ho2 : wt t2 o2 = true) (hk2 : kindOK t2 r2 = true)
    (hkn : pKnown w1 = true) (hc1 : coversP true w1 o1 = true)
    (hwk1 : o1.whollyKnown = true) (hwk2 : o2.whollyKnown = true) (hadm : admits r2 o2 = true) :
    (∃ r', equalsFuel (n + 1) t1 w1 t2 (.unk r2) = .ok r' ∧ (r' = unkBool ∨ (r' = boolVal false ∧ ConcFalse n t1 o1 t2 o2))) ∧
    (∃ r', equalsFuel (n + 1) t2 (.unk r2) t1 w1 = .ok r' ∧ (r' = unkBool ∨ (r' = boolVal false ∧ ConcFalse n t1 o1 t2 o2))) := by
  obtain ⟨hko1, hnull⟩ := coversP_known_null hc1 hkn
  have hko2 := pKnown_of_wk hwk2 ho2
  have hh1 := hwkt_of_frag t1 o1 ht1 ho1
  have hh2 := hwkt_of_frag t2 o2 ht2 ho2
  have hnd2 : t2.hasDyn = false := eqTy_noDyn t2 ht2
  have hk1v := isKnown_of_pKnown (t := t1) hkn
  by_cases hwn : w1 = .null
  · -- the known operand is null
    subst hwn
    have hon : o1 = .null := hnull.mp rfl
    subst hon
    by_cases hf : r2.nullness = .f
    · -- the unknown is not null, so the concrete second operand is not null either
      have ho2n : o2 ≠ .null := by
        intro h; subst h; simp [admits, hf] at hadm
      have hcf : ConcFalse n t1 .null t2 o2 := ⟨equalsFuel_left_null hko2 ho2n, equalsFuel_right_null hko2 ho2n⟩
      constructor
      · refine ⟨boolVal false, ?_, Or.inr ⟨rfl, hcf⟩⟩
        unfold equalsFuel
        rw [equalsPre_eq]; unfold equalsPre'
        simp [isNull_val (t := t1) (p := .null) (by rfl), pNull, defNotNull_unk, hf]
      · refine ⟨boolVal false, ?_, Or.inr ⟨rfl, hcf⟩⟩
        unfold equalsFuel
        rw [equalsPre_eq]; unfold equalsPre'
        simp [isNull_val (t := t1) (p := .null) (by rfl), pNull, defNotNull_unk, hf, isNull_unk,
          defNotNull_known (t := t1) (p := .null) (by rfl)]
    · have hinc := includes_null (t1 := t1) ⟨t2, normRfn r2⟩ (by rw [nullness_norm]; exact hf)
      have hfb : (r2.nullness == Tri.f) = false := by simpa using hf
      constructor
      · refine ⟨unkBool, ?_, Or.inl rfl⟩
        unfold equalsFuel
        rw [equalsPre_eq]; unfold equalsPre'
        simp [isNull_val (t := t1) (p := .null) (by rfl), pNull, defNotNull_unk, hfb, isNull_unk, isKnown_unk,
          hk1v, range_unk, hinc, incFalse, defNotNull_known (t := t1) (p := .null) (by rfl)]
      · refine ⟨unkBool, ?_, Or.inl rfl⟩
        unfold equalsFuel
        rw [equalsPre_eq]; unfold equalsPre'
        simp [isNull_val (t := t1) (p := .null) (by rfl), pNull, defNotNull_unk, hfb, isNull_unk, isKnown_unk,
          hk1v, range_unk, hinc, incFalse, defNotNull_known (t := t1) (p := .null) (by rfl)]
  · -- the known operand is not null
    have hon : o1 ≠ .null := fun h => hwn (hnull.mpr h)
    obtain ⟨res, hres, hfalse⟩ := includes_frag (n := n) ht1 ht2 hw1 ho1 ho2 hk2 hkn hwn hc1 hwk1 hwk2 hadm
    have hwnn : pNull w1 = false := ne_null_of_nonnull hwn
    have common : ∀ (e12 : Bool), e12 = Ty.equals t1 t2 →
        ∃ r', (match incFalse (Res.ok res) with
          | .ok true => Res.ok (some (boolVal false))
          | .ok false => if e12 = false then Res.ok (some (boolVal false)) else Res.ok (some unkBool)
          | .err c => .err c | .panic w => .panic w | .unmodelled => .unmodelled) = Res.ok (some r') ∧
          (r' = unkBool ∨ (r' = boolVal false ∧ ConcFalse n t1 o1 t2 o2)) := by
      intro e12 he
      by_cases hr : res = some false
      · subst hr
        exact ⟨_, rfl, Or.inr ⟨rfl, hfalse rfl⟩⟩
      · have : incFalse (Res.ok res) = .ok false := by
          cases res with
          | none => rfl
          | some b => cases b <;> simp_all [incFalse]
        rw [this]
        cases e12
        · exact ⟨_, rfl, Or.inr ⟨rfl, concFalse_ty ht1 ht2 hko1 hon hko2 hh1 hh2 he.symm⟩⟩
        · exact ⟨_, rfl, Or.inl rfl⟩
    constructor
    · obtain ⟨r', hr', hor⟩ := common (Ty.equals t1 t2) rfl
      refine ⟨r', ?_, hor⟩
      unfold equalsFuel
      rw [equalsPre_eq]; unfold equalsPre'
      simp only [isNull_val hkn, hwnn, Bool.false_and, Bool.false_eq_true, if_false, isNull_unk, hk1v, isKnown_unk,
        Bool.not_false, Bool.and_self, if_true, range_unk, hres, hnd2, Bool.or_self, Bool.false_or]
      simp only [Bool.not_eq_true']
      rw [hr']
    · obtain ⟨r', hr', hor⟩ := common (Ty.equals t1 t2) rfl
      refine ⟨r', ?_, hor⟩
      unfold equalsFuel
      rw [equalsPre_eq]; unfold equalsPre'
      simp only [isNull_val hkn, hwnn, Bool.false_and, Bool.false_eq_true, if_false, isNull_unk, hk1v, isKnown_unk,
        Bool.not_false, Bool.and_self, if_true, range_unk, hres, hnd2, Bool.or_self, Bool.false_or, Bool.not_true,
        Bool.and_false, Bool.true_and]
      simp only [Bool.not_eq_true']
      rw [hr']

/-! ### the induction -/
theorem recBool_equalsFuel (n : Nat) : RecBool (equalsFuel n) :=
  fun _ _ _ _ _ h1 h2 h => equalsFuel_conc_bool h1 h2 h

theorem pKnown_or_unk {t : Ty} {p : Payload} (h : wt t p = true) : pKnown p = true ∨ ∃ r, p = .unk r := by
  cases p <;> simp_all [wt, pKnown]

theorem accVal_cases {acc' acc : EqAcc} (h : acc' = .u ∨ acc' = acc) : accVal acc' = unkBool ∨ accVal acc' = accVal acc := by
  rcases h with rfl | rfl
  · exact Or.inl rfl
  · exact Or.inr rfl

theorem eqF_sound : ∀ n, EqIH (equalsFuel n)
  | 0 => fun _ _ _ _ _ _ _ _ _ _ _ _ _ _ _ _ _ h => by simp [equalsFuel] at h
  | n + 1 => by
    intro t1 t2 o1 o2 w1 w2 r ht1 ht2 ho1 ho2 hw1 hw2 hk1 hk2 hc1 hc2 ho
    have ih := eqF_sound n
    have hko1 := pKnown_of_wk hk1 ho1
    have hko2 := pKnown_of_wk hk2 ho2
    rcases pKnown_or_unk hw1 with hkw1 | ⟨r1, rfl⟩
    · rcases pKnown_or_unk hw2 with hkw2 | ⟨r2, rfl⟩
      · -- both weakened operands are known at their top
        obtain ⟨_, hn1⟩ := coversP_known_null hc1 hkw1
        obtain ⟨_, hn2⟩ := coversP_known_null hc2 hkw2
        have hpn1 : pNull w1 = pNull o1 := by
          cases w1 <;> cases o1 <;> simp_all [pNull]
        have hpn2 : pNull w2 = pNull o2 := by
          cases w2 <;> cases o2 <;> simp_all [pNull]
        unfold equalsFuel at ho ⊢
        rw [equalsPre_both_known (isKnown_of_pKnown hko1) (isKnown_of_pKnown hko2)] at ho
        rw [equalsPre_both_known (isKnown_of_pKnown hkw1) (isKnown_of_pKnown hkw2)]
        simp only [isNull_val hko1, isNull_val hko2] at ho
        simp only [isNull_val hkw1, isNull_val hkw2, hpn1, hpn2]
        by_cases hnull : pNull o1 = true
        · simp only [hnull, if_true] at ho ⊢; exact ⟨_, rfl, Or.inr (by cases ho; rfl)⟩
        simp only [hnull, Bool.false_eq_true, if_false] at ho ⊢
        by_cases hnull2 : pNull o2 = true
        · simp only [hnull2, if_true] at ho ⊢; exact ⟨_, rfl, Or.inr (by cases ho; rfl)⟩
        simp only [hnull2, Bool.false_eq_true, if_false] at ho ⊢
        simp only [hwkt_of_frag t1 o1 ht1 ho1, hwkt_of_frag t2 o2 ht2 ho2, hwkt_of_frag t1 w1 ht1 hw1,
          hwkt_of_frag t2 w2 ht2 hw2, Bool.not_true, Bool.or_self, Bool.false_eq_true, if_false] at ho ⊢
        by_cases he : ¬ (Ty.equals t1 t2 = true)
        · simp only [he, Bool.not_false, if_true] at ho ⊢; exact ⟨_, rfl, Or.inr (by cases ho; rfl)⟩
        replace he : Ty.equals t1 t2 = true := by simpa using he
        simp only [he, Bool.not_true, Bool.false_eq_true, if_false] at ho ⊢
        have hte := (Ty.equals_iff_eq t1 t2 (eqTy_wf t1 ht1) (eqTy_wf t2 ht2)).mp he
        subst hte
        cases t1 with
        | number =>
          cases o1 <;> simp [wt, pNull, pKnown] at ho1 hnull hko1
          cases o2 <;> simp [wt, pNull, pKnown] at ho2 hnull2 hko2
          cases w1 <;> simp [coversP, pKnown] at hc1 hkw1
          cases w2 <;> simp [coversP, pKnown] at hc2 hkw2
          have e1 := numEq_exact hc1
          have e2 := numEq_exact hc2
          subst e1 e2
          exact ⟨_, rfl, Or.inr (by cases ho; rfl)⟩
        | bool =>
          cases o1 <;> simp [wt, pNull, pKnown] at ho1 hnull hko1
          cases o2 <;> simp [wt, pNull, pKnown] at ho2 hnull2 hko2
          cases w1 <;> simp [coversP, pKnown] at hc1 hkw1
          cases w2 <;> simp [coversP, pKnown] at hc2 hkw2
          subst hc1 hc2
          exact ⟨_, rfl, Or.inr (by cases ho; rfl)⟩
        | string =>
          cases o1 <;> simp [wt, pNull, pKnown] at ho1 hnull hko1
          cases o2 <;> simp [wt, pNull, pKnown] at ho2 hnull2 hko2
          cases w1 <;> simp [coversP, pKnown] at hc1 hkw1
          cases w2 <;> simp [coversP, pKnown] at hc2 hkw2
          subst hc1 hc2
          exact ⟨_, rfl, Or.inr (by cases ho; rfl)⟩
        | tuple ts =>
          obtain ⟨os1, rfl⟩ : ∃ xs, o1 = .seq xs := by
            cases o1 <;> simp [wt, pNull, pKnown] at ho1 hnull hko1; exact ⟨_, rfl⟩
          obtain ⟨os2, rfl⟩ : ∃ xs, o2 = .seq xs := by
            cases o2 <;> simp [wt, pNull, pKnown] at ho2 hnull2 hko2; exact ⟨_, rfl⟩
          obtain ⟨ws1, rfl⟩ : ∃ xs, w1 = .seq xs := by
            cases w1 <;> simp [coversP, pKnown] at hc1 hkw1; exact ⟨_, rfl⟩
          obtain ⟨ws2, rfl⟩ : ∃ xs, w2 = .seq xs := by
            cases w2 <;> simp [coversP, pKnown] at hc2 hkw2; exact ⟨_, rfl⟩
          simp only [coversP] at hc1 hc2
          simp only [wt] at ho1 ho2
          simp only [wt] at hw1 hw2
          simp only [eqTy] at ht1
          simp only [Payload.whollyKnown] at hk1 hk2
          simp only at ho ⊢
          obtain ⟨acc, hacc, rfl⟩ := res_map_ok ho
          obtain ⟨acc', hacc', hor⟩ := equalsZip_sound ih (recBool_equalsFuel n) ts os1 os2 ws1 ws2 acc ht1 ho1 ho2 hw1 hw2 hk1 hk2 hc1 hc2 hacc
          rw [hacc']
          exact ⟨_, rfl, accVal_cases hor⟩
        | list e =>
          obtain ⟨os1, rfl⟩ : ∃ xs, o1 = .seq xs := by
            cases o1 <;> simp [wt, pNull, pKnown] at ho1 hnull hko1; exact ⟨_, rfl⟩
          obtain ⟨os2, rfl⟩ : ∃ xs, o2 = .seq xs := by
            cases o2 <;> simp [wt, pNull, pKnown] at ho2 hnull2 hko2; exact ⟨_, rfl⟩
          obtain ⟨ws1, rfl⟩ : ∃ xs, w1 = .seq xs := by
            cases w1 <;> simp [coversP, pKnown] at hc1 hkw1; exact ⟨_, rfl⟩
          obtain ⟨ws2, rfl⟩ : ∃ xs, w2 = .seq xs := by
            cases w2 <;> simp [coversP, pKnown] at hc2 hkw2; exact ⟨_, rfl⟩
          simp only [coversP] at hc1 hc2
          simp only [wt] at ho1 ho2
          simp only [wt] at hw1 hw2
          simp only [eqTy] at ht1
          simp only [Payload.whollyKnown] at hk1 hk2
          have l1 := coversL_length hc1
          have l2 := coversL_length hc2
          simp only [l1, l2] at ho ⊢
          by_cases hl : (os1.length == os2.length) = true
          · simp only [hl, if_true] at ho ⊢
            obtain ⟨acc, hacc, rfl⟩ := res_map_ok ho
            obtain ⟨acc', hacc', hor⟩ := equalsAll_sound ih (recBool_equalsFuel n) e ht1 os1 os2 ws1 ws2 acc ho1 ho2 hw1 hw2 hk1 hk2 hc1 hc2 hacc
            rw [hacc']
            exact ⟨_, rfl, accVal_cases hor⟩
          · simp only [hl, Bool.false_eq_true, if_false] at ho ⊢
            exact ⟨_, rfl, Or.inr (by cases ho; rfl)⟩
        | dyn => simp [eqTy] at ht1
        | set _ => simp [eqTy] at ht1
        | map _ => simp [eqTy] at ht1
        | object _ _ _ => simp [eqTy] at ht1
        | capsule _ => simp [eqTy] at ht1
      · -- first known, second unknown
        have hk2' : kindOK t2 r2 = true := by simpa [wt] using hw2
        have hadm : admits r2 o2 = true := by simpa [coversP] using hc2
        obtain ⟨⟨r', hr', hor⟩, _⟩ := known_vs_unknown (n := n) ht1 ht2 hw1 ho1 ho2 hk2' hkw1 hc1 hk1 hk2 hadm
        refine ⟨r', hr', ?_⟩
        rcases hor with h | ⟨h, hcf⟩
        · exact Or.inl h
        · rw [hcf.1] at ho; cases ho; exact Or.inr h
    · rcases pKnown_or_unk hw2 with hkw2 | ⟨r2, rfl⟩
      · -- first unknown, second known
        have hk1' : kindOK t1 r1 = true := by simpa [wt] using hw1
        have hadm : admits r1 o1 = true := by simpa [coversP] using hc1
        obtain ⟨_, ⟨r', hr', hor⟩⟩ := known_vs_unknown (n := n) ht2 ht1 hw2 ho2 ho1 hk1' hkw2 hc2 hk2 hk1 hadm
        refine ⟨r', hr', ?_⟩
        rcases hor with h | ⟨h, hcf⟩
        · exact Or.inl h
        · rw [hcf.2] at ho; cases ho; exact Or.inr h
      · -- both unknown
        refine ⟨unkBool, ?_, Or.inl rfl⟩
        unfold equalsFuel
        rw [equalsPre_eq]; unfold equalsPre'
        simp [isNull_unk, isKnown_unk]

/-! ### the fuel of `equalsP` is enough, and more fuel changes nothing (fragment types) -/
theorem equalsZip_congr {rec rec' : EqRec} (dx dy : Nat)
    (h : ∀ t x y, eqTy t = true → x.depth ≤ dx → y.depth ≤ dy → rec t x t y = rec' t x t y) :
    ∀ (ts : List Ty) (xs ys : List Payload), eqTyL ts = true → Payload.depthL xs ≤ dx → Payload.depthL ys ≤ dy →
      equalsZip rec ts xs ys = equalsZip rec' ts xs ys
  | [], xs, ys, _, _, _ => by simp [equalsZip]
  | t :: ts, [], ys, _, _, _ => by simp [equalsZip]
  | t :: ts, x :: xs, [], _, _, _ => by simp [equalsZip]
  | t :: ts, x :: xs, y :: ys, ht, hx, hy => by
    simp only [Payload.depthL] at hx hy
    simp only [eqTyL, Bool.and_eq_true] at ht
    simp only [equalsZip]
    rw [h t x y ht.1 (by omega) (by omega), equalsZip_congr dx dy h ts xs ys ht.2 (by omega) (by omega)]

theorem equalsAll_congr {rec rec' : EqRec} (dx dy : Nat) (e : Ty) (he : eqTy e = true)
    (h : ∀ t x y, eqTy t = true → x.depth ≤ dx → y.depth ≤ dy → rec t x t y = rec' t x t y) :
    ∀ (xs ys : List Payload), Payload.depthL xs ≤ dx → Payload.depthL ys ≤ dy →
      equalsAll rec e xs ys = equalsAll rec' e xs ys
  | [], ys, _, _ => by simp [equalsAll]
  | x :: xs, [], _, _ => by simp [equalsAll]
  | x :: xs, y :: ys, hx, hy => by
    simp only [Payload.depthL] at hx hy
    simp only [equalsAll]
    rw [h e x y he (by omega) (by omega), equalsAll_congr dx dy e he h xs ys (by omega) (by omega)]

theorem depth_pos (p : Payload) : 1 ≤ p.depth := by
  cases p <;> simp [Payload.depth]

theorem equalsFuel_stable : ∀ (n m : Nat) (ta : Ty) (a : Payload) (tb : Ty) (b : Payload), eqTy ta = true →
    a.depth ≤ n → b.depth ≤ n → a.depth ≤ m → b.depth ≤ m →
    equalsFuel n ta a tb b = equalsFuel m ta a tb b
  | 0, _, _, a, _, _, _, h, _, _, _ => by have := depth_pos a; omega
  | _ + 1, 0, _, a, _, _, _, _, _, h, _ => by have := depth_pos a; omega
  | n + 1, m + 1, ta, a, tb, b, hta, han, hbn, ham, hbm => by
    unfold equalsFuel
    cases hpre : equalsPre ⟨ta, a⟩ ⟨tb, b⟩ with
    | ok o =>
      cases o with
      | some r => rfl
      | none =>
        simp only
        split
        · rfl
        · split
          · rfl
          · cases ta with
            | number => cases a <;> cases b <;> rfl
            | bool => cases a <;> cases b <;> rfl
            | string => cases a <;> cases b <;> rfl
            | tuple ts =>
              cases a with
              | seq xs =>
                cases b with
                | seq ys =>
                  simp only [Payload.depth] at han hbn ham hbm
                  simp only [eqTy] at hta
                  have := equalsZip_congr (rec := equalsFuel n) (rec' := equalsFuel m) (Payload.depthL xs) (Payload.depthL ys)
                    (fun t x y ht hx hy => equalsFuel_stable n m t x t y ht (by omega) (by omega) (by omega) (by omega))
                    ts xs ys hta (Nat.le_refl _) (Nat.le_refl _)
                  simp only [this]
                | _ => rfl
              | _ => cases b <;> rfl
            | list e =>
              cases a with
              | seq xs =>
                cases b with
                | seq ys =>
                  simp only [Payload.depth] at han hbn ham hbm
                  simp only [eqTy] at hta
                  have := equalsAll_congr (rec := equalsFuel n) (rec' := equalsFuel m) (Payload.depthL xs) (Payload.depthL ys) e hta
                    (fun t x y ht hx hy => equalsFuel_stable n m t x t y ht (by omega) (by omega) (by omega) (by omega))
                    xs ys (Nat.le_refl _) (Nat.le_refl _)
                  simp only [this]
                | _ => rfl
              | _ => cases b <;> rfl
            | dyn => simp [eqTy] at hta
            | set _ => simp [eqTy] at hta
            | map _ => simp [eqTy] at hta
            | object _ _ _ => simp [eqTy] at hta
            | capsule _ => simp [eqTy] at hta
    | err c => rfl
    | panic w => rfl
    | unmodelled => rfl

/-! ### from payloads to `Value.equals` -/
mutual
theorem stripMarks_id : ∀ p : Payload, p.containsMarked = false → p.stripMarks = p
  | .marked _ _, h => by simp [Payload.containsMarked] at h
  | .seq vs, h => by simp only [Payload.containsMarked] at h; simp [Payload.stripMarks, stripMarksL_id vs h]
  | .smap ks vs, h => by simp only [Payload.containsMarked] at h; simp [Payload.stripMarks, stripMarksL_id vs h]
  | .sset ids vs, h => by simp only [Payload.containsMarked] at h; simp [Payload.stripMarks, stripMarksL_id vs h]
  | .null, _ | .unk _, _ | .b _, _ | .n _, _ | .s _, _ | .caps, _ | .bad _, _ => by simp [Payload.stripMarks]
theorem stripMarksL_id : ∀ vs : List Payload, Payload.containsMarkedL vs = false → Payload.stripMarksL vs = vs
  | [], _ => by simp [Payload.stripMarksL]
  | v :: vs, h => by
    simp only [Payload.containsMarkedL, Bool.or_eq_false_iff] at h
    simp [Payload.stripMarksL, stripMarks_id v h.1, stripMarksL_id vs h.2]
end

/-- `Equals` compares the payloads with every marker removed; marks only decorate the result -/
theorem equals_strip (a b : Value) : ∃ ms, Value.equals a b =
    (equalsP a.ty a.v.stripMarks b.ty b.v.stripMarks).map (fun r => r.withMarks ms) ∨
    Value.equals a b = equalsP a.ty a.v.stripMarks b.ty b.v.stripMarks := by
  unfold Value.equals
  by_cases h : (a.containsMarked || b.containsMarked) = true
  · exact ⟨unionMarks a.marksDeep b.marksDeep, Or.inl (by simp [h])⟩
  · simp only [Bool.or_eq_true, not_or, Bool.not_eq_true] at h
    refine ⟨[], Or.inr ?_⟩
    have ha := stripMarks_id a.v h.1
    have hb := stripMarks_id b.v h.2
    simp [h.1, h.2, ha, hb]

/-- an operand that is `cty.DynamicVal` makes the comparison unknown -/
theorem equalsFuel_dyn_left (n : Nat) (tb : Ty) (b : Payload) (hb : ∀ ms q, b ≠ .marked ms q) :
    equalsFuel (n + 1) .dyn (.unk .unref) tb b = .ok unkBool := by
  unfold equalsFuel
  rw [equalsPre_eq]; unfold equalsPre'
  have hbk : (⟨tb, b⟩ : Value).isKnown = true ∨ (⟨tb, b⟩ : Value).isKnown = false := by
    cases (⟨tb, b⟩ : Value).isKnown <;> simp
  rcases hbk with hk | hk
  · have hinc : ∃ res, includes ⟨.dyn, .nullable .u⟩ ⟨tb, b⟩ = .ok res ∧ res ≠ some false := by
      unfold includes
      by_cases hn : (⟨tb, b⟩ : Value).isNull = true
      · exact ⟨_, by simp [Rfn.nullness, hn]; rfl, by simp⟩
      · simp only [Rfn.nullness, hn]
        by_cases hd : tb.isDyn = true
        · exact ⟨none, by simp [Ty.conformErrs, hd], by simp⟩
        · exact ⟨none, by simp [Ty.conformErrs, hd], by simp⟩
    obtain ⟨res, hres, hne⟩ := hinc
    have hif : incFalse (.ok res) = .ok false := by
      cases res with
      | none => rfl
      | some x => cases x <;> simp_all [incFalse]
    simp [isNull_unk, isKnown_unk, defNotNull_unk, Rfn.nullness, hk, range_unk, normRfn, hres, hif, Ty.hasDyn]
  · simp [isNull_unk, isKnown_unk, defNotNull_unk, Rfn.nullness, hk]

theorem equalsFuel_dyn_right (n : Nat) (ta : Ty) (a : Payload) (ha : ∀ ms q, a ≠ .marked ms q) :
    equalsFuel (n + 1) ta a .dyn (.unk .unref) = .ok unkBool := by
  unfold equalsFuel
  rw [equalsPre_eq]; unfold equalsPre'
  have hak : (⟨ta, a⟩ : Value).isKnown = true ∨ (⟨ta, a⟩ : Value).isKnown = false := by
    cases (⟨ta, a⟩ : Value).isKnown <;> simp
  rcases hak with hk | hk
  · have hinc : ∃ res, includes ⟨.dyn, .nullable .u⟩ ⟨ta, a⟩ = .ok res ∧ res ≠ some false := by
      unfold includes
      by_cases hn : (⟨ta, a⟩ : Value).isNull = true
      · exact ⟨_, by simp [Rfn.nullness, hn]; rfl, by simp⟩
      · simp only [Rfn.nullness, hn]
        by_cases hd : ta.isDyn = true
        · exact ⟨none, by simp [Ty.conformErrs, hd], by simp⟩
        · exact ⟨none, by simp [Ty.conformErrs, hd], by simp⟩
    obtain ⟨res, hres, hne⟩ := hinc
    have hif : incFalse (.ok res) = .ok false := by
      cases res with
      | none => rfl
      | some x => cases x <;> simp_all [incFalse]
    simp [isNull_unk, isKnown_unk, defNotNull_unk, Rfn.nullness, hk, range_unk, normRfn, hres, hif, Ty.hasDyn]
  · simp [isNull_unk, isKnown_unk, defNotNull_unk, Rfn.nullness, hk]

theorem stripMarks_not_marked : ∀ (p : Payload) (ms : List String) (q : Payload), p.stripMarks ≠ .marked ms q
  | .marked _ r, ms, q => by simp only [Payload.stripMarks]; exact stripMarks_not_marked r ms q
  | .seq _, _, _ | .smap _ _, _, _ | .sset _ _, _, _ => by simp [Payload.stripMarks]
  | .null, _, _ | .unk _, _, _ | .b _, _, _ | .n _, _, _ | .s _, _, _ | .caps, _, _ | .bad _, _, _ => by simp [Payload.stripMarks]

/-- an operand of the fragment: primitive, list or tuple type (nested), payload
as the type dictates, numbers integers -/
def EqOperand (o : Value) : Prop := eqTy o.ty = true ∧ wt o.ty o.v.stripMarks = true

/-- a weakened operand of the fragment: same type (so no placeholder nested in a
known value), well-kinded refinements with integer bounds — or `cty.DynamicVal` -/
def EqWeak (w o : Value) : Prop :=
  (w.ty = o.ty ∧ wt o.ty w.v.stripMarks = true) ∨ (w.ty = .dyn ∧ w.v.stripMarks = .unk .unref)

theorem covers_res_marks {r' r0 : Value} (h : Covers r' r0 = true) (f g : Value → Value)
    (hf : ∀ v, f v = v ∨ ∃ ms, f v = v.withMarks ms) (hg : ∀ v, g v = v ∨ ∃ ms, g v = v.withMarks ms) :
    Covers (f r') (g r0) = true := by
  rcases hf r' with e1 | ⟨ms1, e1⟩ <;> rcases hg r0 with e2 | ⟨ms2, e2⟩ <;>
    simp [e1, e2, covers_withMarks_left, covers_withMarks_right, h]

theorem equals_sound_partial (o₁ o₂ w₁ w₂ r : Value) (hk₁ : o₁.whollyKnown = true) (hk₂ : o₂.whollyKnown = true)
    (hf₁ : EqOperand o₁) (hf₂ : EqOperand o₂) (hw₁ : EqWeak w₁ o₁) (hw₂ : EqWeak w₂ o₂)
    (hc₁ : CoversX w₁ o₁ = true) (hc₂ : CoversX w₂ o₂ = true) (ho : Value.equals o₁ o₂ = .ok r) :
    ∃ r', Value.equals w₁ w₂ = .ok r' ∧ Covers r' r = true := by
  obtain ⟨t1, p1⟩ := o₁
  obtain ⟨t2, p2⟩ := o₂
  obtain ⟨tw1, q1⟩ := w₁
  obtain ⟨tw2, q2⟩ := w₂
  obtain ⟨ht1, hwt1⟩ := hf₁
  obtain ⟨ht2, hwt2⟩ := hf₂
  simp only at ht1 ht2 hwt1 hwt2
  have hks1 : p1.stripMarks.whollyKnown = true := by rw [wk_stripMarks]; exact hk₁
  have hks2 : p2.stripMarks.whollyKnown = true := by rw [wk_stripMarks]; exact hk₂
  simp only [CoversX, CoversG, Bool.and_eq_true] at hc₁ hc₂
  -- the concrete call on the stripped payloads
  have hconc : ∃ x, equalsP t1 p1.stripMarks t2 p2.stripMarks = .ok (boolVal x) ∧
      (r = boolVal x ∨ ∃ ms, r = (boolVal x).withMarks ms) := by
    obtain ⟨ms, h | h⟩ := equals_strip ⟨t1, p1⟩ ⟨t2, p2⟩
    · rw [h] at ho
      obtain ⟨r0, h0, rfl⟩ := res_map_ok ho
      obtain ⟨x, rfl⟩ := equalsFuel_conc_bool hks1 hks2 h0
      exact ⟨x, h0, Or.inr ⟨ms, rfl⟩⟩
    · rw [h] at ho
      obtain ⟨x, rfl⟩ := equalsFuel_conc_bool hks1 hks2 ho
      exact ⟨x, ho, Or.inl rfl⟩
  obtain ⟨x, hX, hr⟩ := hconc
  -- the weakened call on the stripped payloads answers unknown or the same boolean
  have hweak : ∃ r', equalsP tw1 q1.stripMarks tw2 q2.stripMarks = .ok r' ∧ (r' = unkBool ∨ r' = boolVal x) := by
    rcases hw₁ with ⟨e1, hq1⟩ | ⟨e1, hq1⟩
    · rcases hw₂ with ⟨e2, hq2⟩ | ⟨e2, hq2⟩
      · simp only at e1 e2 hq1 hq2
        subst e1 e2
        let N := max (max p1.stripMarks.depth p2.stripMarks.depth + 1) (max q1.stripMarks.depth q2.stripMarks.depth + 1)
        have hXN : equalsFuel N tw1 p1.stripMarks tw2 p2.stripMarks = .ok (boolVal x) := by
          rw [← hX]; unfold equalsP
          exact (equalsFuel_stable _ _ tw1 _ tw2 _ ht1 (by omega) (by omega) (by omega) (by omega)).symm
        obtain ⟨r', hr', hor⟩ := eqF_sound N tw1 tw2 _ _ _ _ _ ht1 ht2 hwt1 hwt2 hq1 hq2 hks1 hks2 hc₁.2 hc₂.2 hXN
        refine ⟨r', ?_, hor⟩
        rw [← hr']; unfold equalsP
        exact equalsFuel_stable _ _ tw1 _ tw2 _ ht1 (by omega) (by omega) (by omega) (by omega)
      · simp only at e2 hq2
        subst e2
        refine ⟨unkBool, ?_, Or.inl rfl⟩
        unfold equalsP; rw [hq2]
        exact equalsFuel_dyn_right _ _ _ (stripMarks_not_marked q1)
    · simp only at e1 hq1
      subst e1
      refine ⟨unkBool, ?_, Or.inl rfl⟩
      unfold equalsP; rw [hq1]
      exact equalsFuel_dyn_left _ _ _ (stripMarks_not_marked q2)
  obtain ⟨r', hr', hor⟩ := hweak
  have hcov : Covers r' (boolVal x) = true := by
    rcases hor with rfl | rfl
    · exact covers_unkBool_boolVal x
    · exact covers_boolVal_self x
  obtain ⟨ms, h | h⟩ := equals_strip ⟨tw1, q1⟩ ⟨tw2, q2⟩
  · refine ⟨r'.withMarks ms, by rw [h]; simp only [hr']; rfl, ?_⟩
    rw [covers_withMarks_left]
    rcases hr with rfl | ⟨ms', rfl⟩
    · exact hcov
    · rw [covers_withMarks_right]; exact hcov
  · refine ⟨r', by rw [h]; exact hr', ?_⟩
    rcases hr with rfl | ⟨ms', rfl⟩
    · exact hcov
    · rw [covers_withMarks_right]; exact hcov
end CtyModel
