/-
d14b — lemmas about the transliterated `time.ParseDuration` verdict and `timeadd` through it.
-/
import CtyModel.Stdlib.d14bDuration
import CtyModel.Lemmas.d14bRef
namespace CtyModel
namespace StdNum
namespace D14b
open Value

/-- `timeadd` with the transliterated verdict: the two error cases and the result -/
theorem timeAddImpl_ref (L : Lib) (ts d : String) :
    timeAddImpl (refLibDur L) [sv ts, sv d] =
      (match L.parseTimestamp ts with
       | none => .err "not a valid RFC3339 timestamp"
       | some _ =>
         if (durAccepts d.toList).getD false = false then .err "time.ParseDuration"
         else .ok (stringVal L.nfc (L.timeAdd ts d))) := by
  simp only [timeAddImpl, refLibDur]
  simp
  cases L.parseTimestamp ts <;> simp

/-- the unit table is exactly the eight names of `unitMap` -/
theorem unitOf_some (u : List Char) (k : Nat) (h : unitOf u = some k) :
    (u, k) ∈ [(['n', 's'], 1), (['u', 's'], 1000), (['µ', 's'], 1000), (['μ', 's'], 1000), (['m', 's'], 1000000),
      (['s'], 1000000000), (['m'], 60000000000), (['h'], 3600000000000)] := by
  unfold unitOf at h
  repeat' split at h
  all_goals first
    | (injection h with h; subst h; simp_all)
    | simp at h

/-- a string that (after an optional sign) does not start with a digit or a period is not a duration -/
theorem durAccepts_bad_start (c : Char) (cs : List Char)
    (h1 : c ≠ '-') (h2 : c ≠ '+') (h3 : c ≠ '.') (h4 : isDig c = false) : durAccepts (c :: cs) = some false := by
  have h0 : c ≠ '0' := by intro h; subst h; simp [isDig] at h4
  have hb : (c == '.' || isDig c) = false := by simp [h3, h4]
  have hs : durSign (c :: cs) = (false, c :: cs) := by
    unfold durSign; split <;> simp_all
  simp [durAccepts, hs, h0, durLoop, hb]

end D14b
end StdNum
end CtyModel
