/-
`modelEnv` (Stdlib/d13Env.lean) discharges the environment hypotheses of the C13
theorems: its hash IS the hash model, its `unify` IS the unification model.
-/
import CtyModel.Stdlib.d13Env
import CtyModel.Lemmas.d13SetHas
import CtyModel.Lemmas.UnifyTyLaws
namespace CtyModel
namespace Stdlib
open Value

/-- wherever the hash model answers, `modelEnv` answers the same -/
theorem modelEnv_hashAgrees (ety : Ty) (p : Payload) (h : (Value.hash ⟨ety, p⟩).isOk = true) :
    modelEnv.hashAgrees ety p := by
  cases hh : Value.hash ⟨ety, p⟩ with
  | ok x => exact ⟨x, hh, by simp [modelEnv, modelHash, hh]⟩
  | err c => simp [hh, Res.isOk] at h
  | panic w => simp [hh, Res.isOk] at h
  | unmodelled => simp [hh, Res.isOk] at h

/-- `convert.UnifyUnsafe` of `n ≥ 1` copies of one well-formed type without optional
attributes (nesting depth below the unification fuel of `modelEnv`) is that type -/
theorem modelEnv_unify_same (t : Ty) (n : Nat) (hn : 0 < n) (hw : t.wf = true) (ho : t.hasOpt = false)
    (hd : Unify.tyDepth t < d13UnifyFuel) :
    modelEnv.unify (List.replicate n t) = .ok (some t) := by
  have hne : (List.replicate n t).isEmpty = false := by
    cases n with
    | zero => omega
    | succ k => rfl
  simp only [modelEnv, Convert.Env.unifyG, hne, Bool.false_eq_true, if_false, d13CvEnv, Convert.Env.concrete]
  rw [Unify.unifyTyF_same d13UnifyFuel true t n hd hn hw ho]

end Stdlib
end CtyModel

namespace CtyModel
namespace Stdlib
open Value SetImpl

/-- **the set functions compose**: asking `sethaselement` of the result of a set-algebra
call answers the union / intersection / difference / symmetric difference of the
answers a plain `RawEquals` scan of the two argument member lists gives. -/
theorem setHasElement_of_setOp (E : Env) (ety : Ty) (ns : List Num) (k : SetOpKind) (ida idb : List Int)
    (va vb : List Payload)
    (hw : ety.wf = true) (hp : ety.plain = true) (ho : ety.hasOpt = false) (hc : HashCoherentNums ns = true)
    (hma : ∀ p ∈ va, p.member ety ns = true) (hmb : ∀ p ∈ vb, p.member ety ns = true)
    (hha : ∀ p ∈ va, E.hashAgrees ety p) (hhb : ∀ p ∈ vb, E.hashAgrees ety p)
    (q : Payload) (hq : q.member ety ns = true) (hhq : E.hashAgrees ety q) (retTy : Ty) :
    ∃ r b, setOpImpl E k [⟨.set ety, .sset ida va⟩, ⟨.set ety, .sset idb vb⟩] (.set ety) = .ok r ∧
      setHasElementImpl E [r, ⟨ety, q⟩] retTy = .ok (boolVal b) ∧
      (b = true ↔ k.spec ((va.any fun m => rawB ety q m) = true) ((vb.any fun m => rawB ety q m) = true)) := by
  obtain ⟨s, himpl, hinv, hmem, hspec⟩ :=
    setOp_members_carrier E ety ns k ida idb va vb hw hp ho hc hma hmb hha hhb
  have hmS : ∀ m ∈ values s, m.member ety ns = true := fun m hm => by
    rcases hmem m hm with h | h
    · exact hma m h
    · exact hmb m h
  have hhS : ∀ m ∈ values s, E.hashAgrees ety m := fun m hm => by
    rcases hmem m hm with h | h
    · exact hha m h
    · exact hhb m h
  have hfiled := filedUnder_ofSetImpl E ety s hinv (fun m hm => (hhS m hm).isSome)
  have hhas := setHasElementImpl_member E ety ns hw hp hc _ _ q retTy hfiled
    (by rw [bucketVals_eq_values]; exact hmS) (by rw [bucketVals_eq_values]; exact hhS) hq hhq
  refine ⟨_, _, himpl, hhas, ?_⟩
  rw [bucketVals_eq_values, ← memBy_iff_any E hw hp _ hmS hq, hspec q hq]
  exact k.spec_congr (memBy_iff_any E hw hp va hma hq) (memBy_iff_any E hw hp vb hmb hq)

end Stdlib
end CtyModel
