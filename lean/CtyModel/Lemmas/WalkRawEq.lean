/-
`RawEquals` is reflexive on shaped, capsule-free values of well-formed types
(capsules compare by pointer identity, which the model does not decide).
-/
import CtyModel.Lemmas.WalkMarks
import CtyModel.TySpec
namespace CtyModel
namespace Walk
open Value

theorem boundRawEqual_refl (b : Option Bound) : boundRawEqual b b = true := by
  cases b <;> simp [boundRawEqual, Num.rawEqual_refl]

theorem tri_beq_refl (n : Tri) : (n == n) = true := by cases n <;> rfl

theorem rfnRawEqual_refl (r : Rfn) : rfnRawEqual r r = true := by
  cases r <;> simp [rfnRawEqual, boundRawEqual_refl, tri_beq_refl]

theorem rawAll_refl (rec : RawRec) (e : Ty) : ∀ (xs : List Payload),
    (∀ x ∈ xs, rec e x e x = .ok true) → rawAll rec e xs xs = .ok true
  | [], _ => rfl
  | x :: xs, h => by
    simp only [rawAll, h x (by simp)]
    exact rawAll_refl rec e xs (fun y hy => h y (List.mem_cons_of_mem _ hy))

theorem rawZip_refl (rec : RawRec) : ∀ (ts : List Ty) (xs : List Payload),
    (∀ tx ∈ ts.zip xs, rec tx.1 tx.2 tx.1 tx.2 = .ok true) → rawZip rec ts xs xs = .ok true
  | [], xs, _ => by cases xs <;> rfl
  | _ :: _, [], _ => rfl
  | t :: ts, x :: xs, h => by
    simp only [rawZip, h (t, x) (by simp)]
    exact rawZip_refl rec ts xs (fun y hy => h y (by simp [hy]))

theorem rawMap_refl (rec : RawRec) (e : Ty) (KS : List String) (XS : List Payload) :
    ∀ (ks : List String) (xs : List Payload),
      (∀ (i : Nat) (k : String) (x : Payload), ks[i]? = some k → xs[i]? = some x →
        lookupKey k KS XS = some x) →
      (∀ x ∈ xs, rec e x e x = .ok true) → rawMap rec e ks xs KS XS = .ok true
  | [], xs, _, _ => by cases xs <;> rfl
  | _ :: _, [], _, _ => rfl
  | k :: ks, x :: xs, hl, h => by
    simp only [rawMap, hl 0 k x rfl rfl, h x (by simp)]
    exact rawMap_refl rec e KS XS ks xs
      (fun i k' x' hk hx => hl (i + 1) k' x' (by simpa using hk) (by simpa using hx))
      (fun y hy => h y (List.mem_cons_of_mem _ hy))

theorem hasCapsuleL_mem : ∀ {ts : List Ty}, Ty.hasCapsuleL ts = false → ∀ t ∈ ts, Ty.hasCapsule t = false
  | [], _, _, h => by cases h
  | t :: ts, hw, x, hx => by
    simp only [Ty.hasCapsuleL, Bool.or_eq_false_iff] at hw
    rcases List.mem_cons.mp hx with rfl | hx
    · exact hw.1
    · exact hasCapsuleL_mem hw.2 x hx

theorem shapedZip_zip : ∀ {ts : List Ty} {xs : List Payload}, shapedZip ts xs = true →
    ∀ tx ∈ ts.zip xs, shaped tx.1 tx.2 = true
  | [], _, _, _, h => by simp at h
  | _ :: _, [], _, _, h => by simp at h
  | t :: ts, x :: xs, hs, tx, h => by
    simp only [shapedZip, Bool.and_eq_true] at hs
    simp only [List.zip_cons_cons, List.mem_cons] at h
    rcases h with rfl | h
    · exact hs.1
    · exact shapedZip_zip hs.2 tx h

theorem equalsP_prim_refl (t : Ty) (x : Payload)
    (h : (t = .number ∧ ∃ y, x = .n y) ∨ (t = .bool ∧ ∃ y, x = .b y) ∨ (t = .string ∧ ∃ y, x = .s y)) :
    (Value.equalsP t x t x).map (·.isTrue) = .ok true := by
  rcases h with ⟨rfl, y, rfl⟩ | ⟨rfl, y, rfl⟩ | ⟨rfl, y, rfl⟩ <;>
    simp [Value.equalsP, Value.equalsFuel, Value.equalsPre, Value.isNull, Payload.isNull, Value.isKnown,
      Payload.isKnown, Payload.unmark1, Value.definitelyNotNull, Value.hasWhollyKnownType, Ty.equals,
      Res.map, Value.boolVal, Value.isTrue, Num.rawEqual_refl, pure]

/-- **`RawEquals` is reflexive** -/
theorem rawEqualsFuel_refl {X : SetOracle} (hX : IterPerm X) : ∀ (f : Nat) (t : Ty) (p : Payload),
    p.depth < f → shaped t p = true → Ty.wf t = true → Ty.hasCapsule t = false →
    rawEqualsFuel X f t p t p = .ok true
  | 0, _, _, h, _, _, _ => by omega
  | f + 1, t, p, hd, hs, hw, hc => by
    have heq : Ty.equals t t = true := (Ty.equals_iff_eq t t hw hw).mpr rfl
    have hsu := shaped_unmark1 hs
    have hmu := shaped_unmark1_notMarked hs
    have hdu : p.unmark1.depth ≤ p.depth := depth_unmark1_le p
    have ih : ∀ (t' : Ty) (m : Payload), m ∈ members p.unmark1 → shaped t' m = true →
        Ty.wf t' = true → Ty.hasCapsule t' = false → rawEqualsFuel X f t' m t' m = .ok true := by
      intro t' m hm h1 h2 h3
      have := depth_lt_of_mem_members hm
      exact rawEqualsFuel_refl hX f t' m (by omega) h1 h2 h3
    simp only [rawEqualsFuel, heq, Bool.not_true, Bool.false_eq_true, if_false, bne_self_eq_false,
      Bool.or_self]
    cases hp : p.unmark1 with
    | marked ms r => rw [hp] at hmu; simp [Payload.isMarked] at hmu
    | null => rfl
    | unk r => simp [rfnRawEqual_refl]
    | bad w => rw [hp] at hsu; cases t <;> simp [shaped] at hsu
    | caps =>
      rw [hp] at hsu
      cases t <;> first
        | (simp [shaped] at hsu; done)
        | (simp [Ty.hasCapsule] at hc)
    | b y =>
      rw [hp] at hsu
      cases t <;> first
        | (simp [shaped] at hsu; done)
        | exact equalsP_prim_refl _ _ (Or.inr (Or.inl ⟨rfl, y, rfl⟩))
    | n y =>
      rw [hp] at hsu
      cases t <;> first
        | (simp [shaped] at hsu; done)
        | exact equalsP_prim_refl _ _ (Or.inl ⟨rfl, y, rfl⟩)
    | s y =>
      rw [hp] at hsu
      cases t <;> first
        | (simp [shaped] at hsu; done)
        | exact equalsP_prim_refl _ _ (Or.inr (Or.inr ⟨rfl, y, rfl⟩))
    | seq xs =>
      rw [hp] at hsu ih
      simp only [members] at ih
      cases t <;> first
        | (simp [shaped] at hsu; done)
        | skip
      · -- list
        rename_i e
        simp only [shaped, Bool.and_eq_true] at hsu
        simp only [beq_self_eq_true, if_true]
        exact rawAll_refl _ e xs (fun x hx => ih e x hx (shapedAll_mem hsu.2 x hx)
          (by simpa [Ty.wf] using hw) (by simpa [Ty.hasCapsule] using hc))
      · -- tuple
        rename_i ts
        simp only [shaped, Bool.and_eq_true] at hsu
        simp only [Ty.wf] at hw
        simp only [Ty.hasCapsule] at hc
        exact rawZip_refl _ ts xs (fun tx htx => ih tx.1 tx.2 (List.of_mem_zip htx).2
          (shapedZip_zip hsu.2 tx htx) (wfL_mem hw tx.1 (List.of_mem_zip htx).1)
          (hasCapsuleL_mem hc tx.1 (List.of_mem_zip htx).1))
    | smap ks xs =>
      rw [hp] at hsu ih
      simp only [members] at ih
      cases t <;> first
        | (simp [shaped] at hsu; done)
        | skip
      · -- map
        rename_i e
        simp only [shaped, Bool.and_eq_true, beq_iff_eq, decide_eq_true_eq] at hsu
        simp only [beq_self_eq_true, if_true]
        exact rawMap_refl _ e ks xs ks xs
          (fun i k x hk hx => lookupKey_get ks xs i k x hsu.1.2 hk hx)
          (fun x hx => ih e x hx (shapedAll_mem hsu.2 x hx)
            (by simpa [Ty.wf] using hw) (by simpa [Ty.hasCapsule] using hc))
      · -- object
        rename_i ns ts os
        simp only [shaped, Bool.and_eq_true] at hsu
        simp only [Ty.wf, Bool.and_eq_true] at hw
        simp only [Ty.hasCapsule] at hc
        exact rawZip_refl _ ts xs (fun tx htx => ih tx.1 tx.2 (List.of_mem_zip htx).2
          (shapedZip_zip hsu.2 tx htx) (wfL_mem hw.2 tx.1 (List.of_mem_zip htx).1)
          (hasCapsuleL_mem hc tx.1 (List.of_mem_zip htx).1))
    | sset ids xs =>
      rw [hp] at hsu ih
      simp only [members] at ih
      cases t <;> first
        | (simp [shaped] at hsu; done)
        | skip
      rename_i e
      simp only [shaped, Bool.and_eq_true] at hsu
      simp only [beq_self_eq_true, if_true]
      exact rawAll_refl _ e _ (fun x hx => by
        have hx' := (hX e ids xs).mem_iff.mp hx
        exact ih e x hx' (shapedAll_mem hsu.2 x hx')
          (by simpa [Ty.wf] using hw) (by simpa [Ty.hasCapsule] using hc))

theorem rawEquals_refl {X : SetOracle} (hX : IterPerm X) (v : Value) (hs : shapedV v = true)
    (hw : Ty.wf v.ty = true) (hc : Ty.hasCapsule v.ty = false) : Value.rawEquals X v v = .ok true := by
  simp only [Value.rawEquals, Value.rawEqualsP, Nat.max_self]
  exact rawEqualsFuel_refl hX _ v.ty v.v (by omega) hs hw hc

end Walk
end CtyModel
