/-
`walk` with a callback that always descends produces the pre-order listing of
the value's positions: every position exactly once, in document order, each
reported with its member and its path.
-/
import CtyModel.Lemmas.WalkBase
namespace CtyModel
namespace Walk

/-- a visit together with the position it is a visit of -/
abbrev Node := Pos × Path × Value

def Node.visit (e : Node) : Visit := (e.2.1, e.2.2)

/-- the member loop of the pre-order listing -/
def preKids (rec : Pos → Path → Value → List Node) (pos : Pos) (path : Path) :
    Nat → List (PathStep × Value) → List Node
  | _, [] => []
  | i, (s, c) :: rest => rec (pos ++ [i]) (path ++ [s]) c ++ preKids rec pos path (i + 1) rest

/-- pre-order listing of the positions below (and including) a value, with the
position and path prefixes of that value -/
def preFuel (X : SetOracle) : Nat → Pos → Path → Value → List Node
  | 0, _, _, _ => []
  | f + 1, pos, path, v => (pos, path, v) :: preKids (preFuel X f) pos path 0 (kids X v)

/-- pre-order listing of a whole value -/
def preorder (X : SetOracle) (v : Value) : List Node := preFuel X (v.v.depth + 1) [] [] v

/-! ### walk = pre-order -/

theorem walkFuel_descend_succ (X : SetOracle) (f : Nat) (log : List Visit) (path : Path) (v : Value) :
    walkFuel X descend (f + 1) log path v =
      walkKids (walkFuel X descend f) (log ++ [(path, v)]) path (kids X v) := by
  simp only [walkFuel, descend, kids]
  by_cases h : (v.isNull || !v.isKnown) = true
  · simp [h, walkKids]
  · simp [h]

theorem walkKids_eq_pre (X : SetOracle) (f : Nat) (pos : Pos) (path : Path) :
    ∀ (cs : List (PathStep × Value)) (i : Nat) (log : List Visit),
      (∀ c ∈ cs, ∀ log pos path, walkFuel X descend f log path c.2 =
        (log ++ (preFuel X f pos path c.2).map Node.visit, .ok ())) →
      walkKids (walkFuel X descend f) log path cs =
        (log ++ (preKids (preFuel X f) pos path i cs).map Node.visit, .ok ())
  | [], _, log, _ => by simp [walkKids, preKids]
  | (s, c) :: rest, i, log, h => by
    simp only [walkKids, preKids]
    rw [h (s, c) (by simp) log (pos ++ [i]) (path ++ [s])]
    simp only
    rw [walkKids_eq_pre X f pos path rest (i + 1) _ (fun c hc => h c (List.mem_cons_of_mem _ hc))]
    simp [List.append_assoc]

/-- with a callback that always descends, `walk` appends the pre-order listing -/
theorem walkFuel_eq_pre {X : SetOracle} (hX : IterPerm X) :
    ∀ (f : Nat) (v : Value), v.v.depth < f → ∀ (log : List Visit) (pos : Pos) (path : Path),
      walkFuel X descend f log path v = (log ++ (preFuel X f pos path v).map Node.visit, .ok ())
  | 0, _, h => by omega
  | f + 1, v, h => by
    intro log pos path
    rw [walkFuel_descend_succ, walkKids_eq_pre X f pos path (kids X v) 0]
    · simp [preFuel, Node.visit, List.append_assoc]
    · intro c hc log pos path
      exact walkFuel_eq_pre hX f c.2 (by have := kids_depth_lt hX v c hc; omega) log pos path

theorem walk_eq_preorder {X : SetOracle} (hX : IterPerm X) (v : Value) :
    walk X descend v = ((preorder X v).map Node.visit, .ok ()) := by
  simp only [walk, preorder]
  rw [walkFuel_eq_pre hX _ v (by omega) [] [] []]
  simp

/-! ### what the pre-order listing contains -/

theorem mem_preKids (rec : Pos → Path → Value → List Node) (pos : Pos) (path : Path) (e : Node) :
    ∀ (cs : List (PathStep × Value)) (i : Nat), e ∈ preKids rec pos path i cs ↔
      ∃ j c, cs[j]? = some c ∧ e ∈ rec (pos ++ [i + j]) (path ++ [c.1]) c.2
  | [], i => by simp [preKids]
  | (s, c) :: rest, i => by
    simp only [preKids, List.mem_append, mem_preKids rec pos path e rest (i + 1)]
    constructor
    · rintro (h | ⟨j, c', hj, h⟩)
      · exact ⟨0, (s, c), rfl, by simpa using h⟩
      · refine ⟨j + 1, c', by simpa using hj, ?_⟩
        rw [show i + (j + 1) = i + 1 + j by omega]; exact h
    · rintro ⟨j, c', hj, h⟩
      cases j with
      | zero =>
        simp only [List.getElem?_cons_zero, Option.some.injEq] at hj
        subst hj
        exact Or.inl (by simpa using h)
      | succ j =>
        refine Or.inr ⟨j, c', by simpa using hj, ?_⟩
        rw [show i + 1 + j = i + (j + 1) by omega]; exact h

/-- every entry of the listing is a position of the value, with its member and path -/
theorem mem_preFuel {X : SetOracle} : ∀ (f : Nat) (pos : Pos) (path : Path) (v : Value) (e : Node),
    e ∈ preFuel X f pos path v →
      ∃ r p, e.1 = pos ++ r ∧ nodeAt X v r = some e.2.2 ∧ pathAt X v r = some p ∧ e.2.1 = path ++ p
  | 0, _, _, _, _, h => by simp [preFuel] at h
  | f + 1, pos, path, v, e, h => by
    simp only [preFuel, List.mem_cons] at h
    rcases h with rfl | h
    · exact ⟨[], [], by simp, rfl, rfl, by simp⟩
    · obtain ⟨j, c, hj, hin⟩ := (mem_preKids _ _ _ _ _ _).mp h
      obtain ⟨r, p, h1, h2, h3, h4⟩ := mem_preFuel f _ _ _ _ hin
      refine ⟨j :: r, c.1 :: p, ?_, ?_, ?_, ?_⟩
      · simpa [List.append_assoc] using h1
      · simpa [nodeAt, hj] using h2
      · simp [pathAt, hj, h3]
      · simpa [List.append_assoc] using h4

/-- every position of the value is in the listing -/
theorem pos_mem_preFuel {X : SetOracle} (hX : IterPerm X) :
    ∀ (f : Nat) (v : Value), v.v.depth < f → ∀ (pos : Pos) (path : Path) (r : Pos) (n : Value),
      nodeAt X v r = some n → ∃ e ∈ preFuel X f pos path v, e.1 = pos ++ r
  | 0, _, h => by omega
  | f + 1, v, h => by
    intro pos path r n hn
    cases r with
    | nil => exact ⟨(pos, path, v), by simp [preFuel], by simp⟩
    | cons j r =>
      simp only [nodeAt] at hn
      split at hn
      · rename_i c hj
        have hc : c ∈ kids X v := List.mem_of_getElem? hj
        obtain ⟨e, he, hpos⟩ := pos_mem_preFuel hX f c.2
          (by have := kids_depth_lt hX v c hc; omega) (pos ++ [j]) (path ++ [c.1]) r n hn
        refine ⟨e, ?_, by simpa [List.append_assoc] using hpos⟩
        simp only [preFuel, List.mem_cons]
        exact Or.inr ((mem_preKids _ _ _ _ _ _).mpr ⟨j, c, hj, by simpa using he⟩)
      · cases hn

/-- the listing is in document order -/
theorem preFuel_sorted {X : SetOracle} : ∀ (f : Nat) (pos : Pos) (path : Path) (v : Value),
    ((preFuel X f pos path v).map (·.1)).Pairwise (fun a b => posLt a b = true)
  | 0, _, _, _ => by simp [preFuel]
  | f + 1, pos, path, v => by
    simp only [preFuel, List.map_cons, List.pairwise_cons]
    constructor
    · intro q hq
      obtain ⟨e, he, rfl⟩ := List.mem_map.mp hq
      obtain ⟨j, c, _, hin⟩ := (mem_preKids _ _ _ _ _ _).mp he
      obtain ⟨r, _, h1, _⟩ := mem_preFuel f _ _ _ _ hin
      rw [h1, List.append_assoc]
      have := posLt_append pos [] ([0 + j] ++ r)
      simp only [List.append_nil] at this
      rw [this]; rfl
    · -- the member loop, for any starting index
      suffices hk : ∀ (cs : List (PathStep × Value)) (i : Nat),
          ((preKids (preFuel X f) pos path i cs).map (·.1)).Pairwise (fun a b => posLt a b = true) from
        hk _ 0
      intro cs
      induction cs with
      | nil => intro i; simp [preKids]
      | cons sc rest ih =>
        intro i
        obtain ⟨s, c⟩ := sc
        simp only [preKids, List.map_append, List.pairwise_append]
        refine ⟨preFuel_sorted f _ _ _, ih (i + 1), ?_⟩
        intro a ha b hb
        obtain ⟨ea, hea, rfl⟩ := List.mem_map.mp ha
        obtain ⟨eb, heb, rfl⟩ := List.mem_map.mp hb
        obtain ⟨ra, _, h1, _⟩ := mem_preFuel f _ _ _ _ hea
        obtain ⟨j, c', _, hin⟩ := (mem_preKids _ _ _ _ _ _).mp heb
        obtain ⟨rb, _, h2, _⟩ := mem_preFuel f _ _ _ _ hin
        rw [h1, h2, List.append_assoc, List.append_assoc, posLt_append]
        simp only [List.cons_append, List.nil_append, posLt, Bool.or_eq_true, decide_eq_true_eq]
        exact Or.inl (by omega)

theorem pairwise_posLt_nodup {l : List Pos} (h : l.Pairwise (fun a b => posLt a b = true)) :
    l.Nodup := by
  refine h.imp ?_
  intro a b hab heq
  subst heq
  rw [posLt_irrefl] at hab
  cases hab

/-! ### any callback: a sub-listing of the pre-order -/

theorem walkKids_sublist (X : SetOracle) (cb : WalkCb) (f : Nat) (pos : Pos) (path : Path)
    (ih : ∀ (log : List Visit) (pos : Pos) (path : Path) (v : Value),
      ∃ sub, (walkFuel X cb f log path v).1 = log ++ sub ∧
        sub.Sublist ((preFuel X f pos path v).map Node.visit)) :
    ∀ (cs : List (PathStep × Value)) (i : Nat) (log : List Visit),
      ∃ sub, (walkKids (walkFuel X cb f) log path cs).1 = log ++ sub ∧
        sub.Sublist ((preKids (preFuel X f) pos path i cs).map Node.visit)
  | [], _, log => ⟨[], by simp [walkKids], by simp⟩
  | (s, c) :: rest, i, log => by
    obtain ⟨sub1, h1, hs1⟩ := ih log (pos ++ [i]) (path ++ [s]) c
    simp only [walkKids, preKids, List.map_append]
    generalize hr : walkFuel X cb f log (path ++ [s]) c = r at h1
    obtain ⟨log', res⟩ := r
    simp only at h1
    subst h1
    cases res with
    | ok u =>
      obtain ⟨sub2, h2, hs2⟩ := walkKids_sublist X cb f pos path ih rest (i + 1) (log ++ sub1)
      refine ⟨sub1 ++ sub2, ?_, hs1.append hs2⟩
      simp only [h2, List.append_assoc]
    | err c => exact ⟨sub1, rfl, hs1.trans (List.sublist_append_left _ _)⟩
    | panic w => exact ⟨sub1, rfl, hs1.trans (List.sublist_append_left _ _)⟩
    | unmodelled => exact ⟨sub1, rfl, hs1.trans (List.sublist_append_left _ _)⟩

/-- whatever the callback answers (descend, prune, fail, panic — depending on the
calls made so far): the visits made are a sub-listing of the pre-order listing -/
theorem walkFuel_sublist (X : SetOracle) (cb : WalkCb) :
    ∀ (f : Nat) (log : List Visit) (pos : Pos) (path : Path) (v : Value),
      ∃ sub, (walkFuel X cb f log path v).1 = log ++ sub ∧
        sub.Sublist ((preFuel X f pos path v).map Node.visit)
  | 0, log, _, _, _ => ⟨[], by simp [walkFuel], by simp⟩
  | f + 1, log, pos, path, v => by
    have head : [(path, v)].Sublist ((preFuel X (f + 1) pos path v).map Node.visit) := by
      simp [preFuel, Node.visit]
    simp only [walkFuel]
    cases hcb : cb log path v with
    | ok deeper =>
      simp only
      by_cases hd : deeper = true
      · by_cases hn : (v.isNull || !v.isKnown) = true
        · simp only [hd, hn]
          exact ⟨[(path, v)], rfl, head⟩
        · obtain ⟨sub, h1, hs⟩ := walkKids_sublist X cb f pos path (walkFuel_sublist X cb f)
            (kids X v) 0 (log ++ [(path, v)])
          have hk : kids X v = children X v.unmark := by simp [kids, hn]
          rw [hk] at h1
          refine ⟨(path, v) :: sub, ?_, ?_⟩
          · simp only [hd, hn]
            simpa [List.append_assoc] using h1
          · simp only [preFuel, List.map_cons]
            exact List.Sublist.cons_cons _ hs
      · simp only [hd]
        exact ⟨[(path, v)], rfl, head⟩
    | err c => exact ⟨[(path, v)], rfl, head⟩
    | panic w => exact ⟨[(path, v)], rfl, head⟩
    | unmodelled => exact ⟨[(path, v)], rfl, head⟩

theorem walk_sublist_preorder (X : SetOracle) (cb : WalkCb) (v : Value) :
    (walk X cb v).1.Sublist ((preorder X v).map Node.visit) := by
  obtain ⟨sub, h1, hs⟩ := walkFuel_sublist X cb (v.v.depth + 1) [] [] [] v
  simp only [walk, preorder, h1, List.nil_append]
  exact hs

end Walk
end CtyModel
