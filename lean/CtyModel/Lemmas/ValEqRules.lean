/-
cty's set rules (`ctyRules e`) on admitted members: `Equivalent` is `rawB`,
`Hash` respects it — the lawfulness the generic `cty/set` theorems ask for.
-/
import CtyModel.Lemmas.ValEqEquals
import CtyModel.Lemmas.ValEqHash
import CtyModel.Lemmas.ValEqDec
import CtyModel.Lemmas.SetRefineRun
namespace CtyModel
open Value

/-! ### on a plain type the hash bytes do not depend on how nested sets are treated -/
mutual
theorem hashS_sh_irrel (sh sh' : SetHashRec) : ∀ (t : Ty) (p : Payload), t.plain = true → p.shaped t = true →
    hashS sh t p = hashS sh' t p
  | t, .marked _ r, hp, hw => by
    simp only [Payload.shaped, Bool.and_eq_true] at hw
    simp only [hashS]
    exact hashS_sh_irrel sh sh' t r hp hw.2
  | t, .unk _, _, _ => by cases t <;> simp [hashS]
  | t, .null, _, _ => by cases t <;> simp [hashS]
  | t, .b _, _, hw => by
    simp only [Payload.shaped, Ty.isBool_iff] at hw
    subst hw; rfl
  | t, .n _, _, hw => by
    simp only [Payload.shaped, Ty.isNumber_iff] at hw
    subst hw; rfl
  | t, .s _, _, hw => by
    simp only [Payload.shaped, Ty.isString_iff] at hw
    subst hw; rfl
  | t, .seq xs, hp, hw => by
    cases t <;> simp [Payload.shaped] at hw
    case list e => simp only [Ty.plain] at hp; simp only [hashS, hashAllS_sh_irrel sh sh' e xs hp hw]
    case tuple ts => simp only [Ty.plain] at hp; simp only [hashS, hashZipS_sh_irrel sh sh' ts xs hp hw]
  | t, .smap ks xs, hp, hw => by
    cases t <;> simp [Payload.shaped] at hw
    case map e => simp only [Ty.plain] at hp; simp only [hashS, hashMapS_sh_irrel sh sh' e ks xs hp hw.2]
    case object ns ts os => simp only [Ty.plain] at hp; simp only [hashS, hashZipS_sh_irrel sh sh' ts xs hp hw.2]
  | t, .sset _ _, hp, hw => by
    cases t <;> simp [Payload.shaped] at hw
    simp [Ty.plain] at hp
  | t, .caps, hp, hw => by
    cases t <;> simp [Payload.shaped] at hw
    simp [Ty.plain] at hp
  | _, .bad _, _, hw => by simp [Payload.shaped] at hw
theorem hashAllS_sh_irrel (sh sh' : SetHashRec) : ∀ (e : Ty) (xs : List Payload), e.plain = true →
    Payload.shapedAll e xs = true → hashAllS sh e xs = hashAllS sh' e xs
  | _, [], _, _ => rfl
  | e, x :: xs, hp, hw => by
    simp only [Payload.shapedAll, Bool.and_eq_true] at hw
    simp only [hashAllS, hashS_sh_irrel sh sh' e x hp hw.1, hashAllS_sh_irrel sh sh' e xs hp hw.2]
theorem hashZipS_sh_irrel (sh sh' : SetHashRec) : ∀ (ts : List Ty) (xs : List Payload), Ty.plainL ts = true →
    Payload.shapedZip ts xs = true → hashZipS sh ts xs = hashZipS sh' ts xs
  | [], xs, _, _ => by cases xs <;> rfl
  | _ :: _, [], _, _ => rfl
  | t :: ts, x :: xs, hp, hw => by
    simp only [Payload.shapedZip, Ty.plainL, Bool.and_eq_true] at hw hp
    simp only [hashZipS, hashS_sh_irrel sh sh' t x hp.1 hw.1, hashZipS_sh_irrel sh sh' ts xs hp.2 hw.2]
theorem hashMapS_sh_irrel (sh sh' : SetHashRec) : ∀ (e : Ty) (ks : List String) (xs : List Payload),
    e.plain = true → Payload.shapedAll e xs = true → hashMapS sh e ks xs = hashMapS sh' e ks xs
  | _, [], xs, _, _ => by cases xs <;> rfl
  | _, _ :: _, [], _, _ => rfl
  | e, k :: ks, x :: xs, hp, hw => by
    simp only [Payload.shapedAll, Bool.and_eq_true] at hw
    simp only [hashMapS, hashS_sh_irrel sh sh' e x hp hw.1, hashMapS_sh_irrel sh sh' e ks xs hp hw.2]
end

/-! ### `Equals` of two admitted members -/

theorem equals_of_members {e : Ty} (hw : e.wf = true) (hp : e.plain = true) {a b : Payload}
    (wa : a.shaped e = true) (ka : a.whollyKnown = true) (ma : a.containsMarked = false)
    (wb : b.shaped e = true) (kb : b.whollyKnown = true) (mb : b.containsMarked = false) :
    Value.equals ⟨e, a⟩ ⟨e, b⟩ = .ok (boolVal (rawB e a b)) := by
  simp only [Value.equals, Value.containsMarked, ma, mb, Bool.or_self, Bool.false_eq_true, if_false, equalsP]
  exact equalsFuel_ok _ e a b hw hp ⟨wa, ka, ma, by omega⟩ ⟨wb, kb, mb, by omega⟩

theorem ctyRules_equiv_eq {e : Ty} (hw : e.wf = true) (hp : e.plain = true) {a b : Payload}
    (wa : a.shaped e = true) (ka : a.whollyKnown = true) (ma : a.containsMarked = false)
    (wb : b.shaped e = true) (kb : b.whollyKnown = true) (mb : b.containsMarked = false) :
    (ctyRules e).equiv a b = rawB e a b := by
  simp only [ctyRules, equals_of_members hw hp wa ka ma wb kb mb]
  cases rawB e a b <;> rfl

theorem ctyRules_hash_eq {e : Ty} (hp : e.plain = true) {ns : List Num} (hc : HashCoherentNums ns = true)
    {a b : Payload} (wa : a.shaped e = true) (ma : a.containsMarked = false) (na : a.numsIn ns = true)
    (wb : b.shaped e = true) (mb : b.containsMarked = false) (nb : b.numsIn ns = true)
    (h : rawB e a b = true) : (ctyRules e).hash a = (ctyRules e).hash b := by
  have hb : hashBytes ⟨e, a⟩ = hashBytes ⟨e, b⟩ := by
    simp only [hashBytes, hashBytesP, lvl]
    rw [hashS_sh_irrel _ (lvl b.depth).setHash e a hp wa]
    exact hashS_eq_of_rawB _ hc e a b hp wa wb na nb h
  simp only [ctyRules, Value.hash, hb, Value.containsMarked, ma, mb]

end CtyModel

namespace CtyModel
open Value

/-! ### `RawEquals` of two well-formed values -/

theorem Value.shaped_iff (v : Value) : v.shaped = true ↔ v.ty.wf = true ∧ v.v.shaped v.ty = true := by
  simp [Value.shaped]

theorem rawEquals_eq_rawB (a b : Value) (wa : a.shaped = true) (wb : b.shaped = true) (pa : a.ty.plain = true) :
    rawEq a b = .ok (decide (a.ty = b.ty) && rawB a.ty a.v b.v) := by
  obtain ⟨ta, pa'⟩ := a
  obtain ⟨tb, pb'⟩ := b
  simp only [Value.shaped_iff] at wa wb
  simp only [rawEq, rawEqP, lvl, rawS]
  by_cases h : ta = tb
  · subst h
    simp only [Ty.equals_self wa.1, Bool.not_true, Bool.false_eq_true, if_false, decide_true, Bool.true_and]
    exact rawK_eq_rawB _ ta pa' pb' pa wa.2 wb.2
  · have : ta.equals tb = false := by
      cases he : ta.equals tb with
      | false => rfl
      | true => exact absurd ((Ty.equals_iff_eq ta tb wa.1 wb.1).mp he) h
    simp [this, h]

end CtyModel
