/-
C06 lemmas, part 1: how `wfP` behaves under the mark layer (`withMarks`,
`unmark1`, `stripMarks`), and that members of a well-formed container are
well-formed for the element / attribute type the container's type declares.
-/
import CtyModel.WF
import CtyModel.Lemmas.TyEq
namespace CtyModel
namespace Payload
variable {nfc : String → Bool}

@[simp] theorem wfP_null (t : Ty) : wfP nfc t .null = true := by cases t <;> simp [wfP]
@[simp] theorem wfP_unk (t : Ty) (r : Rfn) : wfP nfc t (.unk r) = Refine.kindOk t r := by cases t <;> simp [wfP]
@[simp] theorem wfP_marked (t : Ty) (ms : List String) (r : Payload) :
    wfP nfc t (.marked ms r) = (!ms.isEmpty && !r.isMarked && wfP nfc t r) := by cases t <;> simp [wfP]
theorem kindOk_unref (t : Ty) : Refine.kindOk t .unref = true := by cases t <;> rfl

theorem insertMark_ne_nil (m : String) (l : List String) : insertMark m l ≠ [] := by
  cases l with
  | nil => simp [insertMark]
  | cons x xs =>
    simp only [insertMark]
    split
    · simp
    · split <;> simp

theorem unionMarks_isEmpty (a b : List String) : (unionMarks a b).isEmpty = (a.isEmpty && b.isEmpty) := by
  cases a with
  | nil => simp [unionMarks]
  | cons x xs =>
    simp only [unionMarks, List.foldr_cons, List.isEmpty_cons, Bool.false_and]
    have := insertMark_ne_nil x (List.foldr insertMark b xs)
    cases h : insertMark x (List.foldr insertMark b xs) with
    | nil => exact absurd h this
    | cons _ _ => rfl

theorem wfP_unmark1 {t : Ty} {p : Payload} (h : wfP nfc t p = true) :
    wfP nfc t p.unmark1 = true ∧ p.unmark1.isMarked = false := by
  cases p <;> simp_all [unmark1, isMarked]

theorem wfP_withMarks {t : Ty} {p : Payload} (ms : List String) (h : wfP nfc t p = true) :
    wfP nfc t (p.withMarks ms) = true := by
  simp only [withMarks]
  split
  · exact h
  · rename_i hne
    have := wfP_unmark1 h
    simp [this.1, this.2, hne]

mutual
theorem stripMarks_id : ∀ (p : Payload), containsMarked p = false → stripMarks p = p
  | .marked _ _, h => by simp [containsMarked] at h
  | .seq vs, h => by simp only [containsMarked] at h; simp [stripMarks, stripMarksL_id vs h]
  | .smap ks vs, h => by simp only [containsMarked] at h; simp [stripMarks, stripMarksL_id vs h]
  | .sset ids vs, h => by simp only [containsMarked] at h; simp [stripMarks, stripMarksL_id vs h]
  | .null, _ | .unk _, _ | .b _, _ | .n _, _ | .s _, _ | .caps, _ | .bad _, _ => by simp [stripMarks]
theorem stripMarksL_id : ∀ (vs : List Payload), containsMarkedL vs = false → stripMarksL vs = vs
  | [], _ => rfl
  | v :: vs, h => by
    simp only [containsMarkedL, Bool.or_eq_false_iff] at h
    simp [stripMarksL, stripMarks_id v h.1, stripMarksL_id vs h.2]
end

theorem stripMarksL_length : ∀ (vs : List Payload), (stripMarksL vs).length = vs.length
  | [] => rfl
  | _ :: vs => by simp [stripMarksL, stripMarksL_length vs]

mutual
theorem stripMarks_clean : ∀ (p : Payload), containsMarked (stripMarks p) = false
  | .marked _ r => by simp only [stripMarks]; exact stripMarks_clean r
  | .seq vs => by simp [stripMarks, containsMarked, stripMarksL_clean vs]
  | .smap ks vs => by simp [stripMarks, containsMarked, stripMarksL_clean vs]
  | .sset ids vs => by simp [stripMarks, containsMarked, stripMarksL_clean vs]
  | .null | .unk _ | .b _ | .n _ | .s _ | .caps | .bad _ => by simp [stripMarks, containsMarked]
theorem stripMarksL_clean : ∀ (vs : List Payload), containsMarkedL (stripMarksL vs) = false
  | [] => rfl
  | v :: vs => by simp [stripMarksL, containsMarkedL, stripMarks_clean v, stripMarksL_clean vs]
end

mutual
theorem wfP_stripMarks : ∀ (t : Ty) (p : Payload), wfP nfc t p = true → wfP nfc t (stripMarks p) = true
  | t, .marked ms r, h => by
    simp only [wfP_marked, Bool.and_eq_true] at h
    simp only [stripMarks]; exact wfP_stripMarks t r h.2
  | t, .seq vs, h => by
    cases t <;> simp [wfP] at h
    · simp only [stripMarks, wfP]; exact wfAll_stripMarks _ vs h
    · simp only [stripMarks, wfP, stripMarksL_length, Bool.and_eq_true, beq_iff_eq]
      exact ⟨h.1, wfZip_stripMarks _ vs h.2⟩
  | t, .smap ks vs, h => by
    cases t <;> simp [wfP] at h
    · simp only [stripMarks, wfP, stripMarksL_length, Bool.and_eq_true, beq_iff_eq, List.all_eq_true]
      exact ⟨⟨⟨h.1.1.1, h.1.1.2⟩, h.1.2⟩, wfAll_stripMarks _ vs h.2⟩
    · simp only [stripMarks, wfP, stripMarksL_length, Bool.and_eq_true, beq_iff_eq]
      exact ⟨⟨h.1.1, h.1.2⟩, wfZip_stripMarks _ vs h.2⟩
  | t, .sset ids vs, h => by
    cases t <;> simp [wfP] at h
    simp only [stripMarks, stripMarksL_id vs h.1.1.2]
    simp [wfP, h]
  | t, .null, _ => by simp [stripMarks]
  | t, .unk r, h => by simpa [stripMarks] using h
  | t, .b _, h | t, .n _, h | t, .s _, h | t, .caps, h | t, .bad _, h => by simpa [stripMarks] using h
theorem wfAll_stripMarks : ∀ (e : Ty) (vs : List Payload), wfAll nfc e vs = true → wfAll nfc e (stripMarksL vs) = true
  | _, [], _ => rfl
  | e, v :: vs, h => by
    simp only [wfAll, Bool.and_eq_true] at h
    simp [stripMarksL, wfAll, wfP_stripMarks e v h.1, wfAll_stripMarks e vs h.2]
theorem wfZip_stripMarks : ∀ (ts : List Ty) (vs : List Payload), wfZip nfc ts vs = true → wfZip nfc ts (stripMarksL vs) = true
  | [], vs, _ => by cases vs <;> simp [stripMarksL, wfZip]
  | _ :: _, [], _ => by simp [stripMarksL, wfZip]
  | t :: ts, v :: vs, h => by
    simp only [wfZip, Bool.and_eq_true] at h
    simp [stripMarksL, wfZip, wfP_stripMarks t v h.1, wfZip_stripMarks ts vs h.2]
end
theorem wfAll_getElem : ∀ {e : Ty} {vs : List Payload} {i : Nat} {p : Payload},
    wfAll nfc e vs = true → vs[i]? = some p → wfP nfc e p = true
  | _, [], _, _, _, h => by simp at h
  | e, v :: vs, 0, p, hw, h => by
    simp only [wfAll, Bool.and_eq_true] at hw
    simp at h; exact h ▸ hw.1
  | e, v :: vs, i + 1, p, hw, h => by
    simp only [wfAll, Bool.and_eq_true] at hw
    exact wfAll_getElem hw.2 (by simpa using h)

theorem wfAll_mem : ∀ {e : Ty} {vs : List Payload} {p : Payload},
    wfAll nfc e vs = true → p ∈ vs → wfP nfc e p = true
  | _, [], _, _, h => by simp at h
  | e, v :: vs, p, hw, h => by
    simp only [wfAll, Bool.and_eq_true] at hw
    rcases List.mem_cons.mp h with rfl | h
    · exact hw.1
    · exact wfAll_mem hw.2 h

theorem wfAll_lookupKey : ∀ {e : Ty} {ks : List String} {vs : List Payload} {k : String} {p : Payload},
    wfAll nfc e vs = true → Value.lookupKey k ks vs = some p → wfP nfc e p = true
  | _, [], _, _, _, _, h => by simp [Value.lookupKey] at h
  | _, _ :: _, [], _, _, _, h => by simp [Value.lookupKey] at h
  | e, k0 :: ns, v :: vs, k, p, hw, h => by
    simp only [wfAll, Bool.and_eq_true] at hw
    simp only [Value.lookupKey] at h
    split at h
    · simp at h; exact h ▸ hw.1
    · exact wfAll_lookupKey hw.2 h

theorem wfZip_getElem : ∀ {ts : List Ty} {vs : List Payload} {i : Nat} {t : Ty} {p : Payload},
    wfZip nfc ts vs = true → ts[i]? = some t → vs[i]? = some p → wfP nfc t p = true
  | [], _, _, _, _, _, h, _ => by simp at h
  | _ :: _, [], _, _, _, _, _, h => by simp at h
  | t :: ts, v :: vs, 0, u, p, hw, h1, h2 => by
    simp only [wfZip, Bool.and_eq_true] at hw
    simp at h1 h2; exact h1 ▸ h2 ▸ hw.1
  | t :: ts, v :: vs, i + 1, u, p, hw, h1, h2 => by
    simp only [wfZip, Bool.and_eq_true] at hw
    exact wfZip_getElem hw.2 (by simpa using h1) (by simpa using h2)

theorem wfZip_find : ∀ {ns : List String} {ts : List Ty} {os : List Bool} {vs : List Payload}
    {k : String} {t : Ty} {o : Bool} {p : Payload},
    wfZip nfc ts vs = true → Ty.find k ns ts os = some (t, o) → Value.lookupKey k ns vs = some p →
    wfP nfc t p = true
  | [], _, _, _, _, _, _, _, _, h, _ => by simp [Ty.find] at h
  | _ :: _, [], _, _, _, _, _, _, _, h, _ => by simp [Ty.find] at h
  | _ :: _, _ :: _, [], _, _, _, _, _, _, h, _ => by simp [Ty.find] at h
  | _ :: _, _ :: _, _ :: _, [], _, _, _, _, _, _, h => by simp [Value.lookupKey] at h
  | k0 :: ns, t :: ts, o :: os, v :: vs, k, u, o', p, hw, h1, h2 => by
    simp only [wfZip, Bool.and_eq_true] at hw
    simp only [Ty.find] at h1
    simp only [Value.lookupKey] at h2
    by_cases hk : k0 = k
    · simp [hk] at h1 h2; exact h1.1 ▸ h2 ▸ hw.1
    · simp [hk] at h1 h2; exact wfZip_find hw.2 h1 h2

end Payload

namespace Ty
variable {nfc : String → Bool}

theorem okL_getElem : ∀ {ts : List Ty} {i : Nat} {t : Ty}, okL nfc ts = true → ts[i]? = some t → ok nfc t = true
  | [], _, _, _, h => by simp at h
  | t :: ts, 0, u, hw, h => by
    simp only [okL, wfL, hasOptL, namesAllL, Bool.and_eq_true, Bool.not_eq_true', Bool.or_eq_false_iff] at hw
    simp at h; subst h
    simp [ok, hw.1.1.1, hw.1.2.1, hw.2.1]
  | t :: ts, i + 1, u, hw, h => by
    simp only [okL, wfL, hasOptL, namesAllL, Bool.and_eq_true, Bool.not_eq_true', Bool.or_eq_false_iff] at hw
    exact okL_getElem (ts := ts) (by simp [okL, hw.1.1.2, hw.1.2.2, hw.2.2]) (by simpa using h)

theorem okL_find : ∀ {ns : List String} {ts : List Ty} {os : List Bool} {k : String} {t : Ty} {o : Bool},
    okL nfc ts = true → find k ns ts os = some (t, o) → ok nfc t = true
  | [], _, _, _, _, _, _, h => by simp [find] at h
  | _ :: _, [], _, _, _, _, _, h => by simp [find] at h
  | _ :: _, _ :: _, [], _, _, _, _, h => by simp [find] at h
  | n :: ns, t :: ts, o :: os, k, u, o', hw, h => by
    simp only [okL, wfL, hasOptL, namesAllL, Bool.and_eq_true, Bool.not_eq_true', Bool.or_eq_false_iff] at hw
    simp only [find] at h
    split at h
    · simp at h; obtain ⟨rfl, _⟩ := h
      simp [ok, hw.1.1.1, hw.1.2.1, hw.2.1]
    · exact okL_find (ts := ts) (by simp [okL, hw.1.1.2, hw.1.2.2, hw.2.2]) h

theorem ok_list {e : Ty} : ok nfc (.list e) = ok nfc e := by simp [ok, wf, hasOpt, namesAll]
theorem ok_set {e : Ty} : ok nfc (.set e) = ok nfc e := by simp [ok, wf, hasOpt, namesAll]
theorem ok_map {e : Ty} : ok nfc (.map e) = ok nfc e := by simp [ok, wf, hasOpt, namesAll]
theorem ok_tuple {es : List Ty} : ok nfc (.tuple es) = okL nfc es := by simp [ok, okL, wf, hasOpt, namesAll]
theorem ok_object {ns : List String} {ts : List Ty} {os : List Bool} (h : ok nfc (.object ns ts os) = true) :
    okL nfc ts = true ∧ ns.length = ts.length ∧ os.length = ts.length ∧ strictAsc ns = true ∧
    os.any id = false ∧ ns.all nfc = true := by
  simp only [ok, wf, hasOpt, namesAll, Bool.and_eq_true, Bool.not_eq_true', Bool.or_eq_false_iff, beq_iff_eq] at h
  simp [okL, h]
@[simp] theorem ok_bool : ok nfc .bool = true := rfl
@[simp] theorem ok_number : ok nfc .number = true := rfl
@[simp] theorem ok_string : ok nfc .string = true := rfl
@[simp] theorem ok_dyn : ok nfc .dyn = true := rfl
end Ty
end CtyModel
