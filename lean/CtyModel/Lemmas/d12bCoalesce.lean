/-
C12 / d12b: `coalescelist` end to end (collection.go CoalesceListFunc): the first argument that is a
non-empty list or tuple; an UNKNOWN argument met before that makes the result unknown.  Arguments that are
known at the top but hold unknown members are returned as they are.
-/
import CtyModel.Lemmas.d12bColl
namespace CtyModel
namespace D12b
open Fn Stdlib C12L Cov

theorem clean_not_marked {v : Value} (h : v.containsMarked = false) : v.isMarked = false := by
  obtain ⟨t, p⟩ := v
  cases p <;> simp_all [Value.isMarked, Payload.isMarked, Value.containsMarked, Payload.containsMarked]

/-- a weakening that is known at the top weakens a known value, null exactly when that is null -/
theorem known_shape {w o : Value} (hmw : w.containsMarked = false) (hmo : o.containsMarked = false)
    (hc : CoversX w o = true) (hk : w.isKnown = true) : o.isKnown = true ∧ w.isNull = o.isNull := by
  obtain ⟨wt, wp⟩ := w
  obtain ⟨ot, op⟩ := o
  simp only [CoversX, CoversG, Bool.and_eq_true] at hc
  have h1 := stripMarks_clean' wp hmw
  have h2 := stripMarks_clean' op hmo
  simp only [h1, h2] at hc
  have hc2 := hc.2
  cases wp <;> cases op <;>
    simp_all [coversP, Value.isKnown, Payload.isKnown, Payload.unmark1, Value.isNull, Payload.isNull,
      Value.containsMarked, Payload.containsMarked]

/-- … and has the same number of elements (lists, maps, tuples, objects: not sets) -/
theorem lengthInt_covers {w o : Value} (hmw : w.containsMarked = false) (hmo : o.containsMarked = false)
    (hty : w.ty = o.ty) (hc : CoversX w o = true) (hk : w.isKnown = true) (hset : isSetTy o.ty = false)
    {l : Nat} (h : Stdlib.lengthInt o = .ok l) : Stdlib.lengthInt w = .ok l := by
  have hnw := clean_not_marked hmw
  have hno := clean_not_marked hmo
  obtain ⟨wt, wp⟩ := w
  obtain ⟨ot, op⟩ := o
  simp only at hty
  subst hty
  simp only [CoversX, CoversG, Bool.and_eq_true] at hc
  have h1 := stripMarks_clean' wp hmw
  have h2 := stripMarks_clean' op hmo
  simp only [h1, h2] at hc
  have hc2 := hc.2
  unfold Stdlib.lengthInt at h ⊢
  simp only [hnw, hno, Bool.false_eq_true, if_false] at h ⊢
  cases wt with
  | tuple ts => exact h
  | object ns ts os => exact h
  | set e => simp [isSetTy] at hset
  | list e =>
    cases op <;> simp at h
    rename_i vs
    cases wp <;> simp [coversP, Value.isKnown, Payload.isKnown, Payload.unmark1, Value.containsMarked, Payload.containsMarked] at hc2 hk hmw ⊢
    rename_i ws
    rw [CtyModel.coversL_length hc2]
    exact h
  | map e =>
    cases op <;> simp at h
    rename_i ks vs
    cases wp <;> simp [coversP, Value.isKnown, Payload.isKnown, Payload.unmark1, Value.containsMarked, Payload.containsMarked] at hc2 hk hmw ⊢
    rename_i ks' ws
    rw [CtyModel.coversL_length hc2.2]
    exact h
  | _ =>
    cases op <;> simp at h

/-- strengthened `TyKept`: same type, or `cty.DynamicVal` (an unknown of the placeholder type) -/
def TyKeptU : List Value → List Value → Prop
  | [], [] => True
  | w :: ws, o :: os => (w.ty = o.ty ∨ (w.ty.isDyn = true ∧ w.isKnown = false)) ∧ TyKeptU ws os
  | _, _ => False

theorem TyKeptU.toTyKept : ∀ {ws os : List Value}, TyKeptU ws os → TyKept ws os
  | [], [], _ => trivial
  | [], _ :: _, h => h
  | _ :: _, [], h => h
  | _ :: ws, _ :: os, h => ⟨h.1.elim Or.inl (fun h' => Or.inr h'.1), TyKeptU.toTyKept h.2⟩

theorem coalesceListArgTypes_weaken : ∀ (os ws : List Value) (ts : List Ty),
    (∀ a ∈ os, a.isKnown = true) → TyKeptU ws os →
    coalesceListArgTypes os = .ok (some ts) →
    coalesceListArgTypes ws = .ok none ∨ coalesceListArgTypes ws = .ok (some ts)
  | [], [], ts, _, _, h => Or.inr h
  | [], _ :: _, _, _, hk, _ => by cases hk
  | _ :: _, [], _, _, hk, _ => by cases hk
  | o :: os, w :: ws, ts, hko, hk, h => by
    simp only [coalesceListArgTypes] at h ⊢
    have hok : o.isKnown = true := hko o (by simp)
    simp only [hok, Bool.not_true, Bool.false_eq_true, if_false] at h
    by_cases hwk : w.isKnown = true
    · simp only [hwk, Bool.not_true, Bool.false_eq_true, if_false]
      have hty : w.ty = o.ty := by
        rcases hk.1 with h' | h'
        · exact h'
        · rw [hwk] at h'; cases h'.2
      rw [hty]
      split at h
      · cases h
      · rename_i hlt
        simp only [hlt, if_false]
        cases hrec : coalesceListArgTypes os with
        | ok x =>
          rw [hrec] at h
          cases x with
          | none => simp at h
          | some ts' =>
            simp only [Res.ok.injEq, Option.some.injEq] at h
            subst h
            rcases coalesceListArgTypes_weaken os ws ts' (fun a ha => hko a (by simp [ha])) hk.2 hrec with h' | h'
            · left; rw [h']; simp
            · right; rw [h']; simp
        | err c => rw [hrec] at h; cases h
        | panic c => rw [hrec] at h; cases h
        | unmodelled => rw [hrec] at h; cases h
    · left
      simp [hwk]

/-- wholly known arguments never make the first loop of the `Type` callback give up -/
theorem coalesceListArgTypes_known : ∀ (os : List Value), (∀ a ∈ os, a.isKnown = true) →
    coalesceListArgTypes os ≠ .ok none
  | [], _ => by simp [coalesceListArgTypes]
  | o :: os, hko => by
    intro ha
    simp only [coalesceListArgTypes] at ha
    have hok : o.isKnown = true := hko o (by simp)
    simp only [hok, Bool.not_true, Bool.false_eq_true, if_false] at ha
    split at ha
    · cases ha
    · cases hrec : coalesceListArgTypes os with
      | ok y =>
        rw [hrec] at ha
        cases y with
        | none => exact coalesceListArgTypes_known os (fun a h => hko a (by simp [h])) hrec
        | some ts => simp at ha
      | err c => rw [hrec] at ha; cases ha
      | panic c => rw [hrec] at ha; cases ha
      | unmodelled => rw [hrec] at ha; cases ha

theorem admits_dyn' (t : Ty) : C11.Admits .dyn t := fun c _ => by simp [Ty.conformErrs]

theorem coalesceListType_mono {os ws : List Value} (hko : ∀ a ∈ os, a.isKnown = true) (hk : TyKeptU ws os)
    (hlen : ws.length = os.length) : TypeMonoAt coalesceListType os ws := by
  intro t ht
  unfold coalesceListType at ht ⊢
  rw [hlen]
  split at ht
  · cases ht
  · rename_i hl
    simp only [hl, if_false]
    cases ha : coalesceListArgTypes os with
    | ok x =>
      rw [ha] at ht
      cases x with
      | none =>
        exact absurd ha (coalesceListArgTypes_known os hko)
      | some ts =>
        rcases coalesceListArgTypes_weaken os ws ts hko hk ha with h' | h'
        · rw [h']
          exact ⟨.dyn, rfl, admits_dyn' t⟩
        · rw [h']
          exact ⟨t, ht, fun _ hc => hc⟩
    | err c => rw [ha] at ht; cases ht
    | panic c => rw [ha] at ht; cases ht
    | unmodelled => rw [ha] at ht; cases ht

/-- the concrete arguments the `Type` callback accepted are lists or tuples -/
theorem coalesceListArgTypes_types : ∀ (os : List Value) (ts : List Ty), (∀ a ∈ os, a.isKnown = true) →
    coalesceListArgTypes os = .ok (some ts) → ∀ o ∈ os, isSetTy o.ty = false
  | [], _, _, _ => by simp
  | o :: os, ts, hko, h => by
    simp only [coalesceListArgTypes] at h
    have hok : o.isKnown = true := hko o (by simp)
    simp only [hok, Bool.not_true, Bool.false_eq_true, if_false] at h
    split at h
    · cases h
    · rename_i hlt
      intro a ha
      simp only [List.mem_cons] at ha
      rcases ha with rfl | ha
      · cases hty : a.ty <;> simp_all [isListTy, isTupleTy, isSetTy]
      · cases hrec : coalesceListArgTypes os with
        | ok y =>
          rw [hrec] at h
          cases y with
          | none => simp at h
          | some ts' => exact coalesceListArgTypes_types os ts' (fun a h => hko a (by simp [h])) hrec a ha
        | err c => rw [hrec] at h; cases h
        | panic c => rw [hrec] at h; cases h
        | unmodelled => rw [hrec] at h; cases h

/-- the argument loop of `Impl` -/
theorem coalesceListLoop_sound (rt rt' : Ty) (r : Value) (hunk : Covers (Value.unknown rt') r = true) :
    ∀ (os ws : List Value), coversAll ws os = true → TyKeptU ws os →
    (∀ a ∈ os, a.containsMarked = false) → (∀ a ∈ ws, a.containsMarked = false) →
    (∀ o ∈ os, isSetTy o.ty = false) →
    coalesceListLoop rt os = .ok r →
    ∃ r', coalesceListLoop rt' ws = .ok r' ∧ Covers r' r = true ∧ (r' = Value.unknown rt' ∨ r'.ty = r.ty)
  | [], [], _, _, _, _, _, h => by simp [coalesceListLoop] at h
  | [], _ :: _, hc, _, _, _, _, _ => by simp [coversAll] at hc
  | _ :: _, [], hc, _, _, _, _, _ => by simp [coversAll] at hc
  | o :: os, w :: ws, hc, hk, hmo, hmw, hns, h => by
    simp only [coversAll, Bool.and_eq_true] at hc
    have hmo0 := hmo o (by simp)
    have hmw0 := hmw w (by simp)
    have ih := coalesceListLoop_sound rt rt' r hunk os ws hc.2 hk.2 (fun a ha => hmo a (by simp [ha]))
      (fun a ha => hmw a (by simp [ha])) (fun a ha => hns a (by simp [ha]))
    simp only [coalesceListLoop] at h ⊢
    by_cases hwk : w.isKnown = true
    · obtain ⟨hok, hnull⟩ := known_shape hmw0 hmo0 hc.1 hwk
      simp only [hwk, hok, Bool.not_true, Bool.false_eq_true, if_false] at h ⊢
      rw [hnull]
      have hty : w.ty = o.ty := by
        rcases hk.1 with h' | h'
        · exact h'
        · rw [hwk] at h'; cases h'.2
      by_cases hn : o.isNull = true
      · simp only [hn, if_true] at h ⊢
        exact ih h
      · simp only [hn, Bool.false_eq_true, if_false] at h ⊢
        cases hl : Stdlib.lengthInt o with
        | ok l =>
          rw [hl] at h
          rw [lengthInt_covers hmw0 hmo0 hty hc.1 hwk (hns o (by simp)) hl]
          simp only at h ⊢
          by_cases hpos : l > 0
          · simp only [hpos, if_true, Res.ok.injEq] at h ⊢
            subst h
            exact ⟨w, rfl, coversX_covers hc.1, Or.inr hty⟩
          · simp only [hpos, if_false] at h ⊢
            exact ih h
        | err c => rw [hl] at h; cases h
        | panic c => rw [hl] at h; cases h
        | unmodelled => rw [hl] at h; cases h
    · simp only [hwk, Bool.not_false, if_true]
      exact ⟨_, rfl, hunk, Or.inl rfl⟩

theorem coalescelist_implSound (os ws : List Value) (hcov : coversAll ws os = true) (hk : TyKeptU ws os)
    (hko : ∀ a ∈ os, a.isKnown = true)
    (hmo : ∀ a ∈ os, a.containsMarked = false) (hmw : ∀ a ∈ ws, a.containsMarked = false) :
    ImplSoundAt coalesceListType coalesceListImpl os ws := by
  intro rt rt' r ho hw hio hconf hwf' hrwf _
  have hm := coalesceListType_mono hko hk (coversAll_length ws os hcov)
  obtain ⟨h1, h2⟩ := unk_branch hm ho hw hconf hwf' hrwf
  have hns : ∀ o ∈ os, isSetTy o.ty = false := by
    unfold coalesceListType at ho
    split at ho
    · cases ho
    · cases ha : coalesceListArgTypes os with
      | ok x =>
        cases x with
        | none =>
          exact absurd ha (coalesceListArgTypes_known os hko)
        | some ts => exact coalesceListArgTypes_types os ts hko ha
      | err c => rw [ha] at ho; cases ho
      | panic c => rw [ha] at ho; cases ho
      | unmodelled => rw [ha] at ho; cases ho
  obtain ⟨r', hr', hcr, hty⟩ := coalesceListLoop_sound rt rt' r h2 os ws hcov hk hmo hmw hns hio
  refine ⟨r', hr', ?_, hcr⟩
  rcases hty with h | h
  · rw [h]; exact h1
  · rw [h]
    obtain ⟨t', ht', had⟩ := hm rt ho
    rw [hw] at ht'
    cases ht'
    exact had _ hconf

theorem coalesceListArgTypes_eq : ∀ (ws : List Value) (ts : List Ty),
    coalesceListArgTypes ws = .ok (some ts) → ts = ws.map (·.ty)
  | [], ts, h => by simp [coalesceListArgTypes] at h; simp [h]
  | w :: ws, ts, h => by
    simp only [coalesceListArgTypes] at h
    split at h
    · cases h
    · split at h
      · cases h
      · cases hrec : coalesceListArgTypes ws with
        | ok y =>
          rw [hrec] at h
          cases y with
          | none => simp at h
          | some ts' =>
            simp only [Res.ok.injEq, Option.some.injEq] at h
            subst h
            simp [coalesceListArgTypes_eq ws ts' hrec]
        | err c => rw [hrec] at h; cases h
        | panic c => rw [hrec] at h; cases h
        | unmodelled => rw [hrec] at h; cases h

/-- the `Type` callback answers the placeholder or the type of an argument -/
theorem coalesceListType_wf {ws : List Value} (hwf : ∀ a ∈ ws, Ty.wf a.ty = true) {t : Ty}
    (h : coalesceListType ws = .ok t) : Ty.wf t = true := by
  unfold coalesceListType at h
  split at h
  · cases h
  · cases ha : coalesceListArgTypes ws with
    | ok x =>
      rw [ha] at h
      cases x with
      | none => simp at h; subst h; rfl
      | some ts =>
        have := coalesceListArgTypes_eq ws ts ha
        cases ts with
        | nil => simp [oob] at h
        | cons last rest =>
          simp only at h
          split at h
          · cases h
            cases ws with
            | nil => simp at this
            | cons w ws =>
              simp only [List.map_cons, List.cons.injEq] at this
              rw [this.1]
              exact hwf w (by simp)
          · cases h; rfl
    | err c => rw [ha] at h; cases h
    | panic c => rw [ha] at h; cases h
    | unmodelled => rw [ha] at h; cases h

end D12b
end CtyModel
