/-
C06 lemmas, part 7: `Function.Call` returns well-formed values when its callbacks do.
-/
import CtyModel.Lemmas.WFRefine
set_option linter.unusedSimpArgs false
set_option linter.unusedVariables false
namespace CtyModel
namespace Fn
variable {nfc : String → Bool}
open Value

theorem rtfv_ok {spec : Spec} {tf : TypeFn} {args : List Value} {t : Ty} {d : Bool} {tr : List Event}
    (htf : ∀ as t, tf as = .ok t → t.ok nfc = true)
    (h : returnTypeForValues spec tf args = (.ok (t, d), tr)) : t.ok nfc = true := by
  unfold returnTypeForValues at h
  split at h
  · cases h
  · cases h
  · simp only [Prod.mk.injEq, Out.ok.injEq] at h
    obtain ⟨⟨rfl, _⟩, _⟩ := h
    rfl
  · split at h <;> simp only [Prod.mk.injEq, Out.ok.injEq, reduceCtorEq, false_and] at h
    rename_i ty hty
    obtain ⟨⟨rfl, _⟩, _⟩ := h
    exact htf _ _ hty

theorem wf_callBody {spec : Spec} {impl : ImplFn} {args : List Value} {t : Ty} {d : Bool} {r : Value}
    (ht : t.ok nfc = true) (himpl : ∀ as t v, impl as t = .ok v → v.WF nfc = true)
    (h : (callBody spec impl args t d).1 = .ok r) : r.WF nfc = true := by
  unfold callBody at h
  cases hvp : spec.varParam <;> simp only [hvp] at h
  all_goals
    split at h
    · simp only [Out.ok.injEq] at h
      subst h
      exact wf_withMarkSets _ (wf_unknown ht)
    · split at h <;> try (simp at h; done)
      rename_i retVal hret
      have hr := himpl _ _ _ hret
      split at h <;> split at h <;> first
        | (simp at h; done)
        | (simp only [Out.ok.injEq] at h; subst h; first | exact wf_withMarkSets _ hr | exact hr)

theorem wf_refineWith {rf : RefineFn} {val r : Value} (hval : val.WF nfc = true)
    (href : ∀ v p, v.WF nfc = true → rf v = some p → (⟨v.ty, p⟩ : Value).WF nfc = true)
    (h : refineWith rf val = .ok r) : r.WF nfc = true := by
  unfold refineWith at h
  split at h
  · cases h
  · rename_i p hp
    simp only [Out.ok.injEq] at h
    subst h
    have := href val.unmark p (wf_unmark hval) hp
    exact wf_withMarks _ this

/-- `Function.Call`: whatever it returns is well-formed, provided the callbacks keep their side of the
contract (the `Type` callback names a type a value may have, `Impl` returns well-formed values, the
`RefineResult` callback only uses the builder). -/
theorem wf_call (spec : Spec) (tf : TypeFn) (impl : ImplFn) (args : List Value) (r : Value)
    (htf : ∀ as t, tf as = .ok t → t.ok nfc = true)
    (himpl : ∀ as t v, impl as t = .ok v → v.WF nfc = true)
    (href : ∀ rf, spec.refine = some rf → ∀ v p, v.WF nfc = true → rf v = some p → (⟨v.ty, p⟩ : Value).WF nfc = true)
    (h : (call spec tf impl args).1 = .ok r) : r.WF nfc = true := by
  unfold call at h
  split at h <;> try (simp at h; done)
  rename_i t d tr hrt
  have ht := rtfv_ok htf hrt
  simp only at h
  have hbody : ∀ r', (callBody spec impl args t d).1 = .ok r' → r'.WF nfc = true :=
    fun r' hr' => wf_callBody ht himpl hr'
  split at h
  · rename_i rf hrf
    split at h
    · unfold deferredRefine at h
      simp only at h
      split at h
      · rename_i val hval
        split at h
        · exact wf_refineWith (hbody val hval) (href rf hrf) h
        · simp only at h
          rw [hval] at h
          simp only [Out.ok.injEq] at h
          subst h
          exact hbody _ hval
      · rename_i hne
        simp only at h
        exact absurd h (by intro hh; exact hne r hh)
    · exact hbody r h
  · exact hbody r h
end Fn
end CtyModel
