/-
d19b — `pathSetRules` on paths whose index keys may hold SETS: the carrier of the C03
`Equals` theorems for values with sets (`Payload.deepMember`: well-formed, wholly
known, every set node well-formed with `Less` a strict total order on its members,
whole numbers, quotable strings) of a capsule-free type — marked at any depth or not.
`Equals` is an equivalence there (C03 `equals_equiv_with_sets`), across types it is
true for two nulls only, so `Equivalent` is an equivalence on such paths.
-/
import CtyModel.Lemmas.d19bKeys
import CtyModel.Props.C03
namespace CtyModel
namespace PathSet
open Value SetImpl

/-- a key of the C03 carrier for values with sets -/
def deepKey (k : Value) : Bool := D03b.capFree k.ty && k.v.deepMember k.ty

theorem deepKey_spec {k : Value} (h : deepKey k = true) :
    D03b.capFree k.ty = true ∧ k.v.deepMember k.ty = true ∧ k.ty.wf = true ∧ k.v.whollyKnown = true ∧
      k.v.containsMarked = false := by
  simp only [deepKey, Bool.and_eq_true] at h
  have hd := h.2
  simp only [Payload.deepMember, Bool.and_eq_true, Bool.not_eq_true'] at hd
  exact ⟨h.1, h.2, D03b.capFree_wf _ h.1, hd.1.1.2, hd.1.1.1.1.2⟩

theorem keyT_deep_iff {t : Ty} {a b : Payload} (ha : deepKey ⟨t, a⟩ = true) (hb : deepKey ⟨t, b⟩ = true) :
    keyT ⟨t, a⟩ ⟨t, b⟩ = true ↔ Value.equals ⟨t, a⟩ ⟨t, b⟩ = .ok (boolVal true) := by
  obtain ⟨hc, da, _⟩ := deepKey_spec ha
  obtain ⟨_, db, _⟩ := deepKey_spec hb
  have := D03b.equals_full hc (D03b.W.of da) (D03b.W.of db)
  simp only [keyT, this, keyT_boolVal]
  cases D03b.R' t a b <;> simp [boolVal]

theorem deepKey_equiv : KeyEquiv deepKey :=
  keyEquiv_of_sameType deepKey
    (fun k hk => by obtain ⟨_, _, h1, h2, h3⟩ := deepKey_spec hk; exact ⟨h1, h2, h3⟩)
    (fun a ha => by
      obtain ⟨t, p⟩ := a
      obtain ⟨hc, da, _⟩ := deepKey_spec ha
      exact (keyT_deep_iff ha ha).mpr (C03.equals_equiv_with_sets t hc p p p da da da).1)
    (fun t a b ha hb h => by
      obtain ⟨hc, da, _⟩ := deepKey_spec ha
      obtain ⟨_, db, _⟩ := deepKey_spec hb
      rw [keyT_deep_iff ha hb] at h
      rw [keyT_deep_iff hb ha, ← (C03.equals_equiv_with_sets t hc a b b da db db).2.1]
      exact h)
    (fun t a b c ha hb hc' h h' => by
      obtain ⟨hc, da, _⟩ := deepKey_spec ha
      obtain ⟨_, db, _⟩ := deepKey_spec hb
      obtain ⟨_, dc, _⟩ := deepKey_spec hc'
      rw [keyT_deep_iff ha hb] at h
      rw [keyT_deep_iff hb hc'] at h'
      rw [keyT_deep_iff ha hc']
      exact (C03.equals_equiv_with_sets t hc a b c da db dc).2.2.1 h h')

/-- every index key, its marks removed at every depth, is a key of the with-sets carrier -/
def keysDeepM (p : Path) : Bool := keysIn (fun k => deepKey k.unmarkDeep) p

/-- **`pathSetRules` is lawful on paths whose keys may hold sets** -/
theorem pathRules_lawfulOn_deepM : pathRules.LawfulOn (fun p => keysDeepM p = true) :=
  pathRules_lawfulOn_in deepKey_equiv.unmarkDeep

theorem keysIn_take (K : Value → Bool) : ∀ (p : Path) (n : Nat), keysIn K p = true → keysIn K (p.take n) = true
  | [], n, _ => by cases n <;> rfl
  | _ :: _, 0, _ => rfl
  | .getAttr _ :: p, n + 1, h => by
    simp only [List.take_succ_cons, keysIn] at h ⊢
    exact keysIn_take K p n h
  | .index k :: p, n + 1, h => by
    simp only [List.take_succ_cons, keysIn, Bool.and_eq_true] at h ⊢
    exact ⟨h.1, keysIn_take K p n h.2⟩

abbrev DeepPathM := { p : Path // keysDeepM p = true }

/-- the very functions of `pathRules`, on the subtype -/
def deepRulesM : Rules DeepPathM := pathRules.pull Subtype.val

theorem deepRulesM_lawful : deepRulesM.Lawful := pathRules_lawfulOn_deepM.pull

def prefixesDM (p : DeepPathM) : List DeepPathM :=
  (List.range p.1.length).map fun i => ⟨p.1.take (i + 1), keysIn_take _ p.1 (i + 1) p.2⟩

end PathSet
end CtyModel
