/-
Interval multiplication over the extended integers (−∞, integers, +∞; `0·±∞`
undefined): the product of two members of a box lies between the smallest and the
largest of the four corner products, whenever those are defined.  This is the
arithmetic fact behind `numericRangeArithmetic(Value.Multiply, …)` for operand
ranges that are unbounded on one or both sides (the unrefined unknown number is
`(−∞, +∞)`).  Pure: nothing of the cty model is mentioned here.
-/
namespace CtyModel
namespace D01

inductive Ext where
  | ninf
  | fin (k : Int)
  | pinf
  deriving DecidableEq, Repr

namespace Ext

def le : Ext → Ext → Prop
  | .ninf, _ => True
  | .fin _, .ninf => False
  | .fin a, .fin b => a ≤ b
  | .fin _, .pinf => True
  | .pinf, .pinf => True
  | .pinf, _ => False

/-- `a · (+∞)` for an integer `a` -/
def sgnInf (a : Int) : Option Ext := if a = 0 then none else if a < 0 then some .ninf else some .pinf

def mul : Ext → Ext → Option Ext
  | .fin a, .fin b => some (.fin (a * b))
  | .fin a, .pinf => sgnInf a
  | .fin a, .ninf => sgnInf (-a)
  | .pinf, .fin b => sgnInf b
  | .ninf, .fin b => sgnInf (-b)
  | .pinf, .pinf => some .pinf
  | .ninf, .ninf => some .pinf
  | .pinf, .ninf => some .ninf
  | .ninf, .pinf => some .ninf

theorem sgnInf_neg {a : Int} (h : a < 0) : sgnInf a = some .ninf := by
  unfold sgnInf; rw [if_neg (by omega), if_pos h]
theorem sgnInf_pos {a : Int} (h : 0 < a) : sgnInf a = some .pinf := by
  unfold sgnInf; rw [if_neg (by omega), if_neg (by omega)]
theorem sgnInf_zero : sgnInf 0 = none := rfl

def neg : Ext → Ext
  | .ninf => .pinf
  | .fin a => .fin (-a)
  | .pinf => .ninf

theorem le_refl (a : Ext) : le a a := by cases a <;> simp [le]

theorem le_trans {a b c : Ext} (h1 : le a b) (h2 : le b c) : le a c := by
  cases a <;> cases b <;> cases c <;> simp [le] at * <;> omega

theorem le_pinf (a : Ext) : le a .pinf := by cases a <;> simp [le]
theorem ninf_le (a : Ext) : le .ninf a := by cases a <;> simp [le]

theorem mul_comm (a b : Ext) : mul a b = mul b a := by
  cases a <;> cases b <;> simp [mul, Int.mul_comm]

theorem neg_neg (a : Ext) : neg (neg a) = a := by cases a <;> simp [neg]

theorem le_neg {a b : Ext} : le (neg a) (neg b) ↔ le b a := by
  cases a <;> cases b <;> simp [le, neg]

theorem sgnInf_cases (a : Int) :
    (a < 0 ∧ sgnInf a = some .ninf ∧ sgnInf (-a) = some .pinf) ∨ (a = 0 ∧ sgnInf a = none ∧ sgnInf (-a) = none) ∨
    (0 < a ∧ sgnInf a = some .pinf ∧ sgnInf (-a) = some .ninf) := by
  rcases Int.lt_trichotomy a 0 with h | h | h
  · exact .inl ⟨h, sgnInf_neg h, sgnInf_pos (by omega)⟩
  · subst h; exact .inr (.inl ⟨rfl, rfl, rfl⟩)
  · exact .inr (.inr ⟨h, sgnInf_pos h, sgnInf_neg (by omega)⟩)

theorem mul_neg_left (a b : Ext) : mul (neg a) b = (mul a b).map neg := by
  cases a <;> cases b <;> simp [mul, neg, Int.neg_mul]
  all_goals (rename_i k; rcases sgnInf_cases k with ⟨_, h1, h2⟩ | ⟨_, h1, h2⟩ | ⟨_, h1, h2⟩ <;> simp [h1, h2, neg])

theorem sgnInf_eq_some {a : Int} {P : Ext} :
    sgnInf a = some P ↔ (a < 0 ∧ P = .ninf) ∨ (0 < a ∧ P = .pinf) := by
  rcases sgnInf_cases a with ⟨h, h1, _⟩ | ⟨h, h1, _⟩ | ⟨h, h1, _⟩ <;> rw [h1] <;> simp <;> constructor
  all_goals (intro h'; first | omega | (subst h'; first | exact .inl ⟨h, rfl⟩ | exact .inr ⟨h, rfl⟩) | (rcases h' with ⟨h2, h3⟩ | ⟨h2, h3⟩ <;> first | omega | exact h3.symm))

/-- multiplication by a non-negative factor keeps the order -/
theorem mul_le_mul_right_nonneg {A X Y P Q : Ext} (h : le A X) (hy : le (.fin 0) Y)
    (hp : mul A Y = some P) (hq : mul X Y = some Q) : le P Q := by
  cases A <;> cases X <;> cases Y <;> simp [le, mul] at h hy hp hq
  all_goals (try subst hp) <;> (try subst hq)
  all_goals (try simp only [sgnInf_eq_some] at *)
  all_goals first
    | (simp [le]; done)
    | (simp [le]; exact Int.mul_le_mul_of_nonneg_right h hy)
    | (rcases hp with ⟨a1, rfl⟩ | ⟨a1, rfl⟩ <;> rcases hq with ⟨a2, rfl⟩ | ⟨a2, rfl⟩ <;> simp [le] <;> omega)
    | (rcases hp with ⟨a1, rfl⟩ | ⟨a1, rfl⟩ <;> simp [le] <;> omega)
    | (rcases hq with ⟨a1, rfl⟩ | ⟨a1, rfl⟩ <;> simp [le] <;> omega)

/-- multiplication by a non-positive factor reverses the order -/
theorem mul_le_mul_right_nonpos {A X Y P Q : Ext} (h : le A X) (hy : le Y (.fin 0))
    (hp : mul A Y = some P) (hq : mul X Y = some Q) : le Q P := by
  cases A <;> cases X <;> cases Y <;> simp [le, mul] at h hy hp hq
  all_goals (try subst hp) <;> (try subst hq)
  all_goals (try simp only [sgnInf_eq_some] at *)
  all_goals first
    | (simp [le]; done)
    | (simp [le]; exact Int.mul_le_mul_of_nonpos_right h hy)
    | (rcases hp with ⟨a1, rfl⟩ | ⟨a1, rfl⟩ <;> rcases hq with ⟨a2, rfl⟩ | ⟨a2, rfl⟩ <;> simp [le] <;> omega)
    | (rcases hp with ⟨a1, rfl⟩ | ⟨a1, rfl⟩ <;> simp [le] <;> omega)
    | (rcases hq with ⟨a1, rfl⟩ | ⟨a1, rfl⟩ <;> simp [le] <;> omega)

theorem mul_le_mul_left_nonneg {A P Q U V : Ext} (h : le P Q) (ha : le (.fin 0) A)
    (hu : mul A P = some U) (hv : mul A Q = some V) : le U V := by
  rw [mul_comm] at hu hv; exact mul_le_mul_right_nonneg h ha hu hv

theorem mul_le_mul_left_nonpos {A P Q U V : Ext} (h : le P Q) (ha : le A (.fin 0))
    (hu : mul A P = some U) (hv : mul A Q = some V) : le V U := by
  rw [mul_comm] at hu hv; exact mul_le_mul_right_nonpos h ha hu hv

theorem le_total (a b : Ext) : le a b ∨ le b a := by
  cases a <;> cases b <;> simp [le]; omega

/-- when is a product undefined -/
theorem mul_eq_none {a b : Ext} (h : mul a b = none) :
    (a = .fin 0 ∧ (b = .pinf ∨ b = .ninf)) ∨ (b = .fin 0 ∧ (a = .pinf ∨ a = .ninf)) := by
  cases a <;> cases b <;> simp [mul] at h ⊢
  all_goals (rename_i k; rcases sgnInf_cases k with ⟨_, h1, h2⟩ | ⟨h0, h1, h2⟩ | ⟨_, h1, h2⟩ <;> simp_all)

/-- the product over a box is at least one of the four corner products -/
theorem box_lower {A1 X B1 A2 Y B2 Z C11 C12 C21 C22 : Ext}
    (a1 : le A1 X) (b1 : le X B1) (a2 : le A2 Y) (b2 : le Y B2)
    (h11 : mul A1 A2 = some C11) (h12 : mul A1 B2 = some C12) (h21 : mul B1 A2 = some C21) (h22 : mul B1 B2 = some C22)
    (hz : mul X Y = some Z) : le C11 Z ∨ le C12 Z ∨ le C21 Z ∨ le C22 Z := by
  rcases le_total (.fin 0) Y with hy | hy
  · -- Y ≥ 0: X·Y ≥ A1·Y
    cases hay : mul A1 Y with
    | some W =>
      have h1 := mul_le_mul_right_nonneg a1 hy hay hz
      rcases le_total (.fin 0) A1 with ha | ha
      · exact .inl (le_trans (mul_le_mul_left_nonneg a2 ha h11 hay) h1)
      · exact .inr (.inl (le_trans (mul_le_mul_left_nonpos b2 ha hay h12) h1))
    | none =>
      rcases mul_eq_none hay with ⟨rfl, rfl | rfl⟩ | ⟨rfl, rfl | rfl⟩
      · -- A1 = 0, Y = +∞: X > 0, so Z = +∞
        cases X <;> simp [le, mul] at a1 hz
        · rw [sgnInf_pos (by rcases sgnInf_cases ‹Int› with ⟨_, h, _⟩ | ⟨_, h, _⟩ | ⟨h', _, _⟩ <;> simp_all <;> omega)] at hz
          cases hz; exact .inl (le_pinf _)
        · subst hz; exact .inl (le_pinf _)
      · simp [le] at hy
      · -- A1 = +∞ ≤ X, Y = 0: impossible
        cases X <;> simp [le, mul, sgnInf] at a1 hz
      · -- A1 = −∞, Y = 0: Z = 0 (or X = −∞: undefined); B2 > 0 so A1·B2 = −∞
        cases B2 <;> simp [le, mul] at b2 h12
        · rename_i k
          rcases sgnInf_cases k with ⟨hk, h, h'⟩ | ⟨hk, h, h'⟩ | ⟨hk, h, h'⟩
          · omega
          · rw [h'] at h12; cases h12
          · rw [h'] at h12; cases h12; exact .inr (.inl (ninf_le _))
        · subst h12; exact .inr (.inl (ninf_le _))
  · -- Y ≤ 0: X·Y ≥ B1·Y
    cases hby : mul B1 Y with
    | some W =>
      have h1 := mul_le_mul_right_nonpos b1 hy hz hby
      rcases le_total (.fin 0) B1 with hb | hb
      · exact .inr (.inr (.inl (le_trans (mul_le_mul_left_nonneg a2 hb h21 hby) h1)))
      · exact .inr (.inr (.inr (le_trans (mul_le_mul_left_nonpos b2 hb hby h22) h1)))
    | none =>
      rcases mul_eq_none hby with ⟨rfl, rfl | rfl⟩ | ⟨rfl, rfl | rfl⟩
      · simp [le] at hy
      · -- B1 = 0, Y = −∞: X < 0, so Z = +∞
        cases X <;> simp [le, mul] at b1 hz
        · subst hz; exact .inl (le_pinf _)
        · rw [sgnInf_pos (by rcases sgnInf_cases ‹Int› with ⟨h', _, _⟩ | ⟨_, _, h⟩ | ⟨_, _, h⟩ <;> simp_all <;> omega)] at hz
          cases hz; exact .inl (le_pinf _)
      · -- B1 = +∞, Y = 0: A2 < 0 so B1·A2 = −∞
        cases A2 <;> simp [le, mul] at a2 h21
        · subst h21; exact .inr (.inr (.inl (ninf_le _)))
        · rename_i k
          rcases sgnInf_cases k with ⟨hk, h, h'⟩ | ⟨hk, h, h'⟩ | ⟨hk, h, h'⟩
          · rw [h] at h21; cases h21; exact .inr (.inr (.inl (ninf_le _)))
          · rw [h] at h21; cases h21
          · omega
      · -- B1 = −∞ ≥ X, Y = 0: impossible
        cases X <;> simp [le, mul, sgnInf] at b1 hz

theorem mul_neg_left_some {a b c : Ext} (h : mul a b = some c) : mul (neg a) b = some (neg c) := by
  rw [mul_neg_left, h]; rfl

/-- … and at most one of them -/
theorem box_upper {A1 X B1 A2 Y B2 Z C11 C12 C21 C22 : Ext}
    (a1 : le A1 X) (b1 : le X B1) (a2 : le A2 Y) (b2 : le Y B2)
    (h11 : mul A1 A2 = some C11) (h12 : mul A1 B2 = some C12) (h21 : mul B1 A2 = some C21) (h22 : mul B1 B2 = some C22)
    (hz : mul X Y = some Z) : le Z C11 ∨ le Z C12 ∨ le Z C21 ∨ le Z C22 := by
  have := box_lower (A1 := neg B1) (X := neg X) (B1 := neg A1) (le_neg.mpr b1) (le_neg.mpr a1) a2 b2
    (mul_neg_left_some h21) (mul_neg_left_some h22) (mul_neg_left_some h11) (mul_neg_left_some h12) (mul_neg_left_some hz)
  simp only [le_neg] at this
  rcases this with h | h | h | h
  · exact .inr (.inr (.inl h))
  · exact .inr (.inr (.inr h))
  · exact .inl h
  · exact .inr (.inl h)

end Ext
end D01
end CtyModel
