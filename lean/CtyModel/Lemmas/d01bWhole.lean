/-
C01 (slice d01b), `Equals` with an operand of OBJECT or MAP type replaced AS A WHOLE by
an unknown of its type (lists and tuples replaced as a whole are already inside
`EqWeak`, Lemmas/OpsEquals.lean).  The unknown carries what cty's refinement builder
lets an unknown of that type carry: nothing, nullness, and — maps — length bounds.
The comparison then answers "unknown", except that a map whose length the bounds exclude
is answered False — and then the two concrete maps have different lengths.
-/
import CtyModel.Lemmas.d01EqObj
namespace CtyModel
open Value Cov

namespace D01b

/-- the refinements of an unknown object: none, or nullness -/
def objRfn (r : Rfn) : Bool := match r with | .unref | .nullable _ => true | _ => false
/-- … of an unknown map: also length bounds -/
def mapRfn (r : Rfn) : Bool := match r with | .unref | .nullable _ | .coll _ _ _ => true | _ => false

theorem equalsFuel_unk_unk (n : Nat) (ta tb : Ty) (r1 r2 : Rfn) :
    equalsFuel (n + 1) ta (.unk r1) tb (.unk r2) = .ok unkBool := by
  unfold equalsFuel
  rw [equalsPre_eq]
  simp [equalsPre', Value.isNull, Payload.isNull, Payload.unmark1, Value.isKnown, Payload.isKnown]

/-- an unknown against a known non-null value of the same placeholder-free type -/
theorem equalsFuel_unk_known {n : Nat} {t : Ty} {r : Rfn} {q : Payload} (hwf : t.wf = true) (hnd : t.hasDyn = false)
    (hq : pKnown q = true) (hqn : pNull q = false) :
    equalsFuel (n + 1) t (.unk r) t q =
      (match incFalse (includes ⟨t, normRfn r⟩ ⟨t, q⟩) with
       | .ok true => .ok (boolVal false)
       | .ok false => .ok unkBool
       | .err c => .err c | .panic w => .panic w | .unmodelled => .unmodelled) ∧
    equalsFuel (n + 1) t q t (.unk r) =
      (match incFalse (includes ⟨t, normRfn r⟩ ⟨t, q⟩) with
       | .ok true => .ok (boolVal false)
       | .ok false => .ok unkBool
       | .err c => .err c | .panic w => .panic w | .unmodelled => .unmodelled) := by
  have hk : (⟨t, q⟩ : Value).isKnown = true := isKnown_of_pKnown hq
  have hn : (⟨t, q⟩ : Value).isNull = false := by rw [isNull_val hq]; exact hqn
  have hee := ty_equals_self hwf
  constructor
  · unfold equalsFuel
    rw [equalsPre_eq]
    simp only [equalsPre', hk, hn, isKnown_unk, isNull_unk, range_unk, hnd, hee, Bool.false_and, Bool.and_false, Bool.not_true,
      Bool.false_eq_true, if_false, Bool.not_false, Bool.and_true, if_true, Bool.or_self]
    cases incFalse (includes ⟨t, normRfn r⟩ ⟨t, q⟩) with
    | ok b => cases b <;> rfl
    | err c => rfl
    | panic w => rfl
    | unmodelled => rfl
  · unfold equalsFuel
    rw [equalsPre_eq]
    simp only [equalsPre', hk, hn, isKnown_unk, isNull_unk, range_unk, hnd, hee, Bool.false_and, Bool.and_false, Bool.not_true,
      Bool.false_eq_true, if_false, Bool.not_false, Bool.and_true, if_true, Bool.or_self]
    cases incFalse (includes ⟨t, normRfn r⟩ ⟨t, q⟩) with
    | ok b => cases b <;> rfl
    | err c => rfl
    | panic w => rfl
    | unmodelled => rfl

/-- `Includes` of an unknown object's range for a known object of that type: no answer -/
theorem includes_object {ns : List String} {ts : List Ty} {opt : List Bool} {r : Rfn} {ks : List String} {vs : List Payload}
    (hwf : (Ty.object ns ts opt).wf = true) (hr : objRfn r = true) (hnl : r.nullness ≠ .t) :
    incFalse (includes ⟨.object ns ts opt, normRfn r⟩ ⟨.object ns ts opt, .smap ks vs⟩) = .ok false := by
  have hc := conform_zero_of_equals (ty_equals_self hwf)
  have hn : (⟨.object ns ts opt, .smap ks vs⟩ : Value).isNull = false := rfl
  have h1 : ((normRfn r).nullness == Tri.t) = false := by
    rw [nullness_norm]; cases h : r.nullness <;> first | rfl | exact absurd h hnl
  unfold includes
  simp only [h1, hn, hc, Ty.isDyn, Bool.and_false, Bool.false_eq_true, if_false, bne_self_eq_false]
  cases r <;> simp only [objRfn] at hr <;> first | (cases hr; done) | rfl

/-- … of an unknown map's range for a known map of that type: False exactly when the
length bounds exclude the map's length -/
theorem includes_map {e : Ty} {r : Rfn} {ks : List String} {vs : List Payload}
    (hwf : (Ty.map e).wf = true) (hr : mapRfn r = true) (hnl : r.nullness ≠ .t) :
    incFalse (includes ⟨.map e, normRfn r⟩ ⟨.map e, .smap ks vs⟩) =
      .ok (match r with | .coll _ lo hi => decide ((vs.length : Int) < lo) || decide ((vs.length : Int) > hi) | _ => false) := by
  have hc := conform_zero_of_equals (ty_equals_self hwf)
  have hn : (⟨.map e, .smap ks vs⟩ : Value).isNull = false := rfl
  have h1 : ((normRfn r).nullness == Tri.t) = false := by
    rw [nullness_norm]; cases h : r.nullness <;> first | rfl | exact absurd h hnl
  unfold includes
  simp only [h1, hn, hc, Ty.isDyn, Bool.and_false, Bool.false_eq_true, if_false, bne_self_eq_false]
  cases r with
  | unref => rfl
  | nullable _ => rfl
  | num _ _ _ => simp [mapRfn] at hr
  | str _ _ => simp [mapRfn] at hr
  | coll nl lo hi =>
    simp only [normRfn]
    by_cases h : ((vs.length : Int) < lo ∨ hi < (vs.length : Int))
    · simp only [incFalse]
      rcases h with h | h <;> simp [h]
    · simp only [incFalse]
      simp only [not_or] at h
      simp [h.1, h.2]

/-! ### Value level -/

/-- an operand replaced AS A WHOLE by an unknown of its own type that carries no
refinement or nullness (objects) -/
def EqObjWhole (w o : Value) : Prop := w.ty = o.ty ∧ ∃ r, w.v.stripMarks = .unk r ∧ objRfn r = true
/-- … no refinement, nullness or length bounds (maps) -/
def EqMapWhole (w o : Value) : Prop := w.ty = o.ty ∧ ∃ r, w.v.stripMarks = .unk r ∧ mapRfn r = true

theorem nullness_of_admits_smap {r : Rfn} {ks : List String} {vs : List Payload}
    (h : admits r (.smap ks vs) = true) : r.nullness ≠ .t := by
  simp only [admits, Bool.and_eq_true] at h
  intro ht
  rw [ht] at h
  exact absurd h.1 (by decide)

theorem equals_sound_object_whole (o₁ o₂ w₁ w₂ r : Value) (hk₁ : o₁.whollyKnown = true) (hk₂ : o₂.whollyKnown = true)
    (hf₁ : EqObjOperand o₁) (hf₂ : EqObjOperand o₂) (hty : o₁.ty = o₂.ty)
    (hw₁ : EqObjWeak w₁ o₁ ∨ EqObjWhole w₁ o₁) (hw₂ : EqObjWeak w₂ o₂ ∨ EqObjWhole w₂ o₂)
    (hc₁ : CoversX w₁ o₁ = true) (hc₂ : CoversX w₂ o₂ = true) (ho : Value.equals o₁ o₂ = .ok r) :
    ∃ r', Value.equals w₁ w₂ = .ok r' ∧ Covers r' r = true := by
  rcases hw₁ with hw₁ | hw₁ <;> rcases hw₂ with hw₂ | hw₂
  · exact equals_sound_object o₁ o₂ w₁ w₂ r hk₁ hk₂ hf₁ hf₂ hty hw₁ hw₂ hc₁ hc₂ ho
  all_goals
    obtain ⟨ns, ts, opt, k1, xs, e1, hwf, hts, p1, wt1⟩ := hf₁
    obtain ⟨ns2, ts2, opt2, k2, ys, e2, _, _, p2, wt2⟩ := hf₂
    have hnd : (Ty.object ns ts opt).hasDyn = false := by simp only [Ty.hasDyn]; exact eqTyL_noDyn ts hts
    have e2' : o₂.ty = .object ns ts opt := by rw [← hty]; exact e1
    simp only [CoversX, CoversG, Bool.and_eq_true] at hc₁ hc₂
    apply equals_lift _ _ _ _ r hk₁ hk₂ _ ho
    intro x _
  · obtain ⟨t1, k1', ws1, q1, _⟩ := hw₁
    obtain ⟨t2, r2, q2, hr2⟩ := hw₂
    have hnl : r2.nullness ≠ .t := by
      have := hc₂.2; rw [q2, p2] at this; exact nullness_of_admits_smap this
    rw [t1, t2, e1, e2', q1, q2]
    unfold equalsP
    rw [(equalsFuel_unk_known (r := r2) (q := .smap k1' ws1) hwf hnd (by rfl) (by rfl)).2, includes_object hwf hr2 hnl]
    exact ⟨_, rfl, Or.inl rfl⟩
  · obtain ⟨t1, r1, q1, hr1⟩ := hw₁
    obtain ⟨t2, k2', ws2, q2, _⟩ := hw₂
    have hnl : r1.nullness ≠ .t := by
      have := hc₁.2; rw [q1, p1] at this; exact nullness_of_admits_smap this
    rw [t1, t2, e1, e2', q1, q2]
    unfold equalsP
    rw [(equalsFuel_unk_known (r := r1) (q := .smap k2' ws2) hwf hnd (by rfl) (by rfl)).1, includes_object hwf hr1 hnl]
    exact ⟨_, rfl, Or.inl rfl⟩
  · obtain ⟨_, r1, q1, _⟩ := hw₁
    obtain ⟨_, r2, q2, _⟩ := hw₂
    rw [q1, q2]
    unfold equalsP
    rw [equalsFuel_unk_unk]
    exact ⟨_, rfl, Or.inl rfl⟩

theorem len_of_admits_smap {nl : Tri} {lo hi : Int} {ks : List String} {vs : List Payload}
    (h : admits (.coll nl lo hi) (.smap ks vs) = true) : lo ≤ (vs.length : Int) ∧ (vs.length : Int) ≤ hi := by
  simp only [admits, rfnAdmitsKnown, possibleLen, Bool.and_eq_true, decide_eq_true_eq] at h
  exact h.2

theorem equals_sound_map_whole (o₁ o₂ w₁ w₂ r : Value) (hk₁ : o₁.whollyKnown = true) (hk₂ : o₂.whollyKnown = true)
    (hf₁ : EqMapOperand o₁) (hf₂ : EqMapOperand o₂) (hty : o₁.ty = o₂.ty)
    (hw₁ : EqMapWeak w₁ o₁ ∨ EqMapWhole w₁ o₁) (hw₂ : EqMapWeak w₂ o₂ ∨ EqMapWhole w₂ o₂)
    (hc₁ : CoversX w₁ o₁ = true) (hc₂ : CoversX w₂ o₂ = true) (ho : Value.equals o₁ o₂ = .ok r) :
    ∃ r', Value.equals w₁ w₂ = .ok r' ∧ Covers r' r = true := by
  rcases hw₁ with hw₁ | hw₁ <;> rcases hw₂ with hw₂ | hw₂
  · exact equals_sound_map o₁ o₂ w₁ w₂ r hk₁ hk₂ hf₁ hf₂ hty hw₁ hw₂ hc₁ hc₂ ho
  all_goals
    obtain ⟨e, k1, xs, e1, he, p1, wt1⟩ := hf₁
    obtain ⟨e', k2, ys, e2, _, p2, wt2⟩ := hf₂
    have hwf : (Ty.map e).wf = true := by simpa [Ty.wf] using eqTy_wf e he
    have hnd : (Ty.map e).hasDyn = false := by simp only [Ty.hasDyn]; exact eqTy_noDyn e he
    have e2' : o₂.ty = .map e := by rw [← hty]; exact e1
    have wt2' : wtAll e ys = true := by rw [e2] at e2'; cases e2'; exact wt2
    simp only [CoversX, CoversG, Bool.and_eq_true] at hc₁ hc₂
    apply equals_lift _ _ _ _ r hk₁ hk₂ _ ho
    intro x hX
    rw [e1, e2', p1, p2] at hX
    unfold equalsP at hX
    rw [equalsFuel_map he wt1 wt2'] at hX
  · obtain ⟨t1, k1', ws1, q1, _⟩ := hw₁
    obtain ⟨t2, r2, q2, hr2⟩ := hw₂
    have hadm : admits r2 (.smap k2 ys) = true := by have := hc₂.2; rw [q2, p2] at this; exact this
    have hcl : ws1.length = xs.length := by
      have := hc₁.2; rw [q1, p1] at this; simp only [coversP, Bool.and_eq_true] at this; exact coversL_length this.2
    rw [t1, t2, e1, e2', q1, q2]
    unfold equalsP
    rw [(equalsFuel_unk_known (r := r2) (q := .smap k1' ws1) hwf hnd (by rfl) (by rfl)).2,
      includes_map hwf hr2 (nullness_of_admits_smap hadm)]
    cases r2 with
    | coll nl lo hi =>
      have hb := len_of_admits_smap hadm
      by_cases hout : ((ws1.length : Int) < lo ∨ hi < (ws1.length : Int))
      · have hne : (xs.length == ys.length) = false := by
          rw [hcl] at hout; simp only [beq_eq_false_iff_ne, ne_eq]; omega
        rw [hne] at hX
        simp only [Bool.false_eq_true, if_false, Res.ok.injEq] at hX
        have hd : (decide ((ws1.length : Int) < lo) || decide ((ws1.length : Int) > hi)) = true := by
          rcases hout with h | h <;> simp [h]
        simp only [hd]
        exact ⟨_, rfl, Or.inr hX⟩
      · have hd : (decide ((ws1.length : Int) < lo) || decide ((ws1.length : Int) > hi)) = false := by
          simp only [not_or] at hout; simp [hout.1, hout.2]
        simp only [hd]
        exact ⟨_, rfl, Or.inl rfl⟩
    | _ => exact ⟨_, rfl, Or.inl rfl⟩
  · obtain ⟨t1, r1, q1, hr1⟩ := hw₁
    obtain ⟨t2, k2', ws2, q2, _⟩ := hw₂
    have hadm : admits r1 (.smap k1 xs) = true := by have := hc₁.2; rw [q1, p1] at this; exact this
    have hcl : ws2.length = ys.length := by
      have := hc₂.2; rw [q2, p2] at this; simp only [coversP, Bool.and_eq_true] at this; exact coversL_length this.2
    rw [t1, t2, e1, e2', q1, q2]
    unfold equalsP
    rw [(equalsFuel_unk_known (r := r1) (q := .smap k2' ws2) hwf hnd (by rfl) (by rfl)).1,
      includes_map hwf hr1 (nullness_of_admits_smap hadm)]
    cases r1 with
    | coll nl lo hi =>
      have hb := len_of_admits_smap hadm
      by_cases hout : ((ws2.length : Int) < lo ∨ hi < (ws2.length : Int))
      · have hne : (xs.length == ys.length) = false := by
          rw [hcl] at hout; simp only [beq_eq_false_iff_ne, ne_eq]; omega
        rw [hne] at hX
        simp only [Bool.false_eq_true, if_false, Res.ok.injEq] at hX
        have hd : (decide ((ws2.length : Int) < lo) || decide ((ws2.length : Int) > hi)) = true := by
          rcases hout with h | h <;> simp [h]
        simp only [hd]
        exact ⟨_, rfl, Or.inr hX⟩
      · have hd : (decide ((ws2.length : Int) < lo) || decide ((ws2.length : Int) > hi)) = false := by
          simp only [not_or] at hout; simp [hout.1, hout.2]
        simp only [hd]
        exact ⟨_, rfl, Or.inl rfl⟩
    | _ => exact ⟨_, rfl, Or.inl rfl⟩
  · obtain ⟨_, r1, q1, _⟩ := hw₁
    obtain ⟨_, r2, q2, _⟩ := hw₂
    rw [q1, q2]
    unfold equalsP
    rw [equalsFuel_unk_unk]
    exact ⟨_, rfl, Or.inl rfl⟩

end D01b
end CtyModel
