/-
C06 lemmas, part 5a: what `set.NewSetFromSlice` guarantees for rules that are only
known to behave on the members being added (cty's `setRules` are not reflexive on
unknown members, so `Rules.Lawful` is not available): ascending buckets, members
in the bucket of their hash, no two equivalent members in a bucket — and, when
equivalent members hash alike, none anywhere.
-/
import CtyModel.Lemmas.SetRefineInv
import CtyModel.Lemmas.SetRefineAlg
set_option linter.unusedSimpArgs false
set_option linter.unusedVariables false
namespace CtyModel
namespace SetImpl
variable {α : Type}

/-- the invariant `NewSetFromSlice` maintains while it adds members of `l`, for rules that are only
known to behave on the members of `l` -/
structure J (R : Rules α) (l : List α) (s : SetImpl α) : Prop where
  asc : Asc s.buckets
  hashed : ∀ p ∈ s.buckets, ∀ m ∈ p.2, R.hash m = p.1 ∧ m ∈ l
  nodupB : ∀ p ∈ s.buckets, Inequiv R p.2

theorem J_empty (R : Rules α) (l : List α) : J R l (empty : SetImpl α) :=
  ⟨asc_nil, by simp [empty], by simp [empty]⟩

theorem J_add {R : Rules α} {l : List α}
    (hsym : ∀ a ∈ l, ∀ b ∈ l, R.equiv a b = false → R.equiv b a = false)
    {s : SetImpl α} (h : J R l s) {x : α} (hx : x ∈ l) : J R l (add R s x) := by
  rw [add_eq]
  split
  · exact h
  · rename_i hnot
    have hnot : has R s x = false := by simpa using hnot
    have hb : ∀ m ∈ (lookup s.buckets (R.hash x)).getD [],
        (R.hash x, (lookup s.buckets (R.hash x)).getD []) ∈ s.buckets := by
      intro m hm
      cases hl : lookup s.buckets (R.hash x) with
      | none => rw [hl] at hm; simp at hm
      | some b => simpa using mem_of_lookup hl
    have hany : ∀ m ∈ (lookup s.buckets (R.hash x)).getD [], R.equiv x m = false := by
      intro m hm
      simp only [has] at hnot
      cases hl : lookup s.buckets (R.hash x) with
      | none => rw [hl] at hm; simp at hm
      | some b =>
        rw [hl] at hnot hm
        simp only [Option.getD_some] at hm
        simp only [List.any_eq_false] at hnot
        simpa using hnot m hm
    refine ⟨asc_setBucket h.asc _ _, ?_, ?_⟩
    · intro p hp m hm
      rcases (mem_setBucket h.asc _ _ p).mp hp with rfl | ⟨hp, _⟩
      · rcases List.mem_append.mp hm with hm | hm
        · exact h.hashed _ (hb m hm) m hm
        · simp at hm; subst hm; exact ⟨rfl, hx⟩
      · exact h.hashed p hp m hm
    · intro p hp
      rcases (mem_setBucket h.asc _ _ p).mp hp with rfl | ⟨hp, _⟩
      · simp only [Inequiv, List.pairwise_append]
        refine ⟨?_, by simp, ?_⟩
        · cases hl : lookup s.buckets (R.hash x) with
          | none => simp
          | some b => simpa [Inequiv] using h.nodupB _ (mem_of_lookup hl)
        · intro a ha b hb'
          simp at hb'
          subst hb'
          exact hsym _ hx a (h.hashed _ (hb a ha) a ha).2 (hany a ha)
      · exact h.nodupB p hp

theorem J_addAll {R : Rules α} {l : List α}
    (hsym : ∀ a ∈ l, ∀ b ∈ l, R.equiv a b = false → R.equiv b a = false) :
    ∀ (l' : List α) (s : SetImpl α), (∀ x ∈ l', x ∈ l) → J R l s → J R l (addWhere R (fun _ => true) s l')
  | [], s, _, h => by simpa [addWhere] using h
  | x :: xs, s, hsub, h => by
    rw [addWhere_cons]
    simp only [if_true]
    exact J_addAll hsym xs _ (fun y hy => hsub y (by simp [hy])) (J_add hsym h (hsub x (by simp)))

theorem J_fromList {R : Rules α} {l : List α}
    (hsym : ∀ a ∈ l, ∀ b ∈ l, R.equiv a b = false → R.equiv b a = false) : J R l (fromList R l) :=
  J_addAll hsym l _ (fun _ h => h) (J_empty R l)

/-- with hash-coherent members, no two members anywhere in the set are equivalent -/
theorem J_inequiv {R : Rules α} {l : List α}
    (hcoh : ∀ a ∈ l, ∀ b ∈ l, R.equiv a b = true → R.hash a = R.hash b)
    {s : SetImpl α} (h : J R l s) : Inequiv R (values s) := by
  simp only [Inequiv, values, List.pairwise_flatMap]
  refine ⟨h.nodupB, ?_⟩
  have hasc := h.asc
  have hh := h.hashed
  revert hasc hh
  generalize s.buckets = bs
  intro hasc hh
  refine List.Pairwise.imp_of_mem ?_ hasc
  intro p q hp hq hlt x hx y hy
  cases he : R.equiv x y with
  | false => rfl
  | true =>
    have := hcoh x (hh p hp x hx).2 y (hh q hq y hy).2 he
    rw [(hh p hp x hx).1, (hh q hq y hy).1] at this
    omega

theorem J_mem_values {R : Rules α} {l : List α} {s : SetImpl α} (h : J R l s) {m : α} (hm : m ∈ values s) : m ∈ l := by
  obtain ⟨p, hp, hmp⟩ := mem_values.mp hm
  exact (h.hashed p hp m hmp).2

end SetImpl
end CtyModel
