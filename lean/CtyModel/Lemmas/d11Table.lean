/-
C11: which entries of the regenerated syntax table the theorems have a `Type` callback for
(`Std.tfOf`), as a decidable fact about the table — so that "proved for … / only searched for …"
is a theorem about the CURRENT source, not a comment.
-/
import CtyModel.Lemmas.StdOblTable
namespace CtyModel
namespace Std
open Fn

/-- `(tfOf E sy).isSome`, without the environment -/
def hasTf (sy : Generated.StdSyntax) : Bool :=
  match sy.staticType with
  | some e => (staticTy? e).isSome
  | none => ((modelName? sy.var).bind Stdlib.byName).isSome

theorem tfOf_isSome (E : Stdlib.Env) (sy : Generated.StdSyntax) : (tfOf E sy).isSome = hasTf sy := by
  unfold tfOf hasTf
  cases sy.staticType with
  | some e => simp
  | none =>
    cases modelName? sy.var with
    | none => simp
    | some n => cases h : Stdlib.byName n <;> simp [h]

/-- the dynamically typed functions whose `Type` callback is NOT modelled: for these the clause
"type checker never contradicts evaluation" is searched by the harness only -/
def unmodelledTypeCallbacks : List String :=
  (Generated.stdlibSyntax.filter fun sy => !hasTf sy).map (·.var)

/-- the dynamically typed functions -/
def dynamicallyTyped : List String :=
  (Generated.stdlibSyntax.filter fun sy => sy.staticType.isNone).map (·.var)

end Std
end CtyModel
