/-
Structure-changing conversions between a tuple / object whose members all have one
type and the list / map of that type keep every member as it is; and the map →
object conversion is the inverse of object → map on such values.
-/
import CtyModel.Lemmas.ConvertProps
namespace CtyModel
namespace Convert
open Ty

theorem gcAll_same (E : Env) (uns : Bool) (T : Ty) (hT : wf T = true) : ∀ (its : List Ty),
    (∀ it ∈ its, it = T) → gcAll E its T uns = some (its.map fun _ => Plan.nil)
  | [], _ => rfl
  | it :: its, h => by
    have : it = T := h it (by simp)
    subst this
    simp [gcAll, equals_self hT, gcAll_same E uns it hT its fun x hx => h x (by simp [hx])]

theorem applyZip_nil' (rec : Rec) : ∀ (cs : List Plan) (es : List Value), (∀ c ∈ cs, c = Plan.nil) →
    es.length = cs.length → applyZip rec id cs es = .ok es
  | [], [], _, _ => rfl
  | [], _ :: _, _, h => by simp at h
  | _ :: _, [], _, h => by simp at h
  | c :: cs, e :: es, hc, h => by
    have : c = .nil := hc c (by simp)
    subst this
    simp [applyZip, applyOpt, Res.bind,
      applyZip_nil' rec cs es (fun x hx => hc x (by simp [hx])) (by simpa using h)]

theorem applyZip_nil (rec : Rec) (its : List Ty) (es : List Value) (h : es.length = its.length) :
    applyZip rec id (its.map fun _ => Plan.nil) es = .ok es :=
  applyZip_nil' rec _ es (by simp) (by simpa using h)

theorem zipTys_length : ∀ {its : List Ty} {ps : List Payload}, wtZip its ps = true →
    (zipTys its ps).length = its.length
  | [], [], _ => rfl
  | [], _ :: _, h => by simp [wtZip] at h
  | _ :: _, [], h => by simp [wtZip] at h
  | _ :: its, _ :: ps, h => by
    simp only [wtZip, Bool.and_eq_true] at h
    simp [zipTys, zipTys_length h.2]

theorem zipTys_v : ∀ {its : List Ty} {ps : List Payload}, wtZip its ps = true →
    (zipTys its ps).map (·.v) = ps
  | [], [], _ => rfl
  | [], _ :: _, h => by simp [wtZip] at h
  | _ :: _, [], h => by simp [wtZip] at h
  | _ :: its, _ :: ps, h => by
    simp only [wtZip, Bool.and_eq_true] at h
    simp [zipTys, zipTys_v h.2]

theorem zipTys_ty : ∀ {its : List Ty} {ps : List Payload}, wtZip its ps = true →
    ∀ e ∈ zipTys its ps, e.ty ∈ its
  | [], [], _, e, he => by simp [zipTys] at he
  | [], _ :: _, h, _, _ => by simp [wtZip] at h
  | _ :: _, [], h, _, _ => by simp [wtZip] at h
  | it :: its, p :: ps, h, e, he => by
    simp only [wtZip, Bool.and_eq_true] at h
    simp only [zipTys, List.mem_cons] at he
    rcases he with rfl | he
    · simp
    · exact List.mem_cons_of_mem _ (zipTys_ty h.2 e he)

/-- a tuple whose elements all have type `T`, converted to `list(T)`: the list of the
same elements in the same order -/
theorem tuple_to_list_same {E : Env} (hU : UnifyLaws E) (fuel : Nat) (T : Ty) (its : List Ty)
    (ps : List Payload) (hT : wf T = true) (hTo : hasOpt T = false) (hTd : hasDyn T = false)
    (hne : its ≠ []) (hall : ∀ it ∈ its, it = T) (hw : wtZip its ps = true) :
    convert E (fuel + 2) ⟨.tuple its, .seq ps⟩ (.list T) = .ok ⟨.list T, .seq ps⟩ := by
  have hnd : T.isDyn = false := not_isDyn_of_noDyn hTd
  have hne' : its.isEmpty = false := by cases its <;> simp at hne ⊢
  have hg : getConv E (.tuple its) (.list T) true =
      some (.wrap (.list T) (.tupToList (its.map fun _ => Plan.nil) true)) := by
    have h1 : (Ty.list T).isDyn = false := rfl
    have h2 : (Ty.tuple its).isDyn = false := rfl
    simp [getConv, gck, h1, h2, isPrim, hne, seqTargetEty, hnd, gcAll_same E true T hT its hall]
  have hes : ∀ e ∈ zipTys its ps, e.ty = T := fun e he => hall _ (zipTys_ty hw e he)
  have hnz : zipTys its ps ≠ [] := by
    intro h0
    have := zipTys_length hw
    rw [h0] at this
    exact hne (List.length_eq_zero_iff.mp this.symm)
  have hneq : (Ty.tuple its).equals (Ty.list T).stripOpt = false := by simp [stripOpt, Ty.equals]
  have hstep : applyStep E (apply E fuel) (.tupToList (its.map fun _ => Plan.nil) true)
      ⟨.tuple its, .seq ps⟩ = .ok ⟨.list T, .seq ps⟩ := by
    simp only [applyStep, elemsOf, Res.bind, applyZip_nil (apply E fuel) its _ (zipTys_length hw),
      unifyElems_same hU hT hTo hnz hes, canCollVal_same hT hnd hnz hes]
    unfold listVal
    have : (zipTys its ps).isEmpty = false := by
      cases hz : zipTys its ps with
      | nil => exact absurd hz hnz
      | cons => rfl
    simp [this, elemTyOf_same hT hnd hnz hes, zipTys_v hw]
  have h1 : (Ty.list T).isDyn = false := rfl
  simp only [convert, convertWith, hneq, hg, apply, applyStep, Value.isMarked, Payload.isMarked, h1,
    Value.isKnown, Payload.isKnown, Payload.unmark1, Value.isNull, Payload.isNull, Bool.false_eq_true,
    if_false, Bool.not_true, Bool.or_self]
  exact hstep

/-! ### object → map → object -/

theorem lookupPlan_nils (k : String) : ∀ (ns : List String) (cs : List Plan), (∀ c ∈ cs, c = Plan.nil) →
    (lookupPlan k ns cs).getD .nil = .nil
  | [], _, _ => by simp [lookupPlan]
  | _ :: _, [], _ => by simp [lookupPlan]
  | n :: ns, c :: cs, h => by
    simp only [lookupPlan]
    split
    · simp [h c (by simp)]
    · exact lookupPlan_nils k ns cs fun x hx => h x (by simp [hx])

/-- an object whose attributes all have type `T`, converted to `map(T)`: the map with the
same keys and members -/
theorem object_to_map_same {E : Env} (hU : UnifyLaws E) (fuel : Nat) (T : Ty) (ns : List String)
    (its : List Ty) (os : List Bool) (ps : List Payload) (hT : wf T = true) (hTo : hasOpt T = false)
    (hTd : hasDyn T = false) (hne : its ≠ []) (hall : ∀ it ∈ its, it = T) (hw : wtZip its ps = true)
    (hln : ns.length = its.length) :
    convert E (fuel + 2) ⟨.object ns its os, .smap ns ps⟩ (.map T) = .ok ⟨.map T, .smap ns ps⟩ := by
  have hnd : T.isDyn = false := not_isDyn_of_noDyn hTd
  have h1 : (Ty.map T).isDyn = false := rfl
  have h2 : (Ty.object ns its os).isDyn = false := rfl
  have hg : getConv E (.object ns its os) (.map T) true =
      some (.wrap (.map T) (.objToMap ns (its.map fun _ => Plan.nil) T true)) := by
    simp [getConv, gck, h1, h2, isPrim, hne, mapTargetEty, hnd, gcAll_same E true T hT its hall]
  have hes : ∀ e ∈ zipTys its ps, e.ty = T := fun e he => hall _ (zipTys_ty hw e he)
  have hnz : zipTys its ps ≠ [] := by
    intro h0
    have := zipTys_length hw
    rw [h0] at this
    exact hne (List.length_eq_zero_iff.mp this.symm)
  have hneq : (Ty.object ns its os).equals (Ty.map T).stripOpt = false := by simp [stripOpt, Ty.equals]
  have hplans : ∀ c ∈ ns.map (fun k => (lookupPlan k ns (its.map fun _ => Plan.nil)).getD .nil), c = Plan.nil := by
    intro c hc
    obtain ⟨k, _, rfl⟩ := List.mem_map.mp hc
    exact lookupPlan_nils k ns _ (by simp)
  have hstep : applyStep E (apply E fuel) (.objToMap ns (its.map fun _ => Plan.nil) T true)
      ⟨.object ns its os, .smap ns ps⟩ = .ok ⟨.map T, .smap ns ps⟩ := by
    have hz := applyZip_nil' (apply E fuel) _ (zipTys its ps) hplans (by
      rw [zipTys_length hw]; simp [hln])
    simp only [applyStep, elemsOf, keysOf, Res.bind, hz]
    have hun : (if isCollOrObj T = true then unifyElems E (apply E fuel) true (zipTys its ps)
        else Res.ok (zipTys its ps)) = .ok (zipTys its ps) := by
      split
      · exact unifyElems_same hU hT hTo hnz hes
      · rfl
    simp only [hun, canCollVal_same hT hnd hnz hes]
    unfold mapVal
    have : (zipTys its ps).isEmpty = false := by
      cases hz : zipTys its ps with
      | nil => exact absurd hz hnz
      | cons => rfl
    simp [this, elemTyOf_same hT hnd hnz hes, zipTys_v hw]
  simp only [convert, convertWith, hneq, hg, apply, applyStep, Value.isMarked, Payload.isMarked, h1,
    Value.isKnown, Payload.isKnown, Payload.unmark1, Value.isNull, Payload.isNull, Bool.false_eq_true,
    if_false, Bool.not_true, Bool.or_self]
  exact hstep

theorem mapToObjConvs_same (f : Ty → Option Plan) (T : Ty) (hT : wf T = true) : ∀ (its : List Ty) (os : List Bool),
    (∀ it ∈ its, it = T) → os.length = its.length →
    mapToObjConvs f T its os = some (its.map fun _ => Plan.nil)
  | [], _, _, _ => by simp [mapToObjConvs]
  | _ :: _, [], _, h => by simp at h
  | it :: its, o :: os, hall, hl => by
    have : it = T := hall it (by simp)
    subst this
    simp [mapToObjConvs, equals_self hT,
      mapToObjConvs_same f it hT its os (fun x hx => hall x (by simp [hx])) (by simpa using hl)]

theorem lookupVal_prefix : ∀ (pre : List String) (preV : List Value) (k : String) (post : List String)
    (v : Value) (postV : List Value), pre.length = preV.length → k ∉ pre →
    lookupVal k (pre ++ k :: post) (preV ++ v :: postV) = some v
  | [], [], k, post, v, postV, _, _ => by simp [lookupVal]
  | [], _ :: _, _, _, _, _, h, _ => by simp at h
  | _ :: _, [], _, _, _, _, h, _ => by simp at h
  | a :: pre, b :: preV, k, post, v, postV, hl, hk => by
    have hak : a ≠ k := fun e => hk (by simp [e])
    simp only [List.cons_append, lookupVal, hak, if_false]
    exact lookupVal_prefix pre preV k post v postV (by simpa using hl) (fun h => hk (by simp [h]))

theorem mapObjFill_self : ∀ (pre : List String) (preV : List Value) (ns : List String) (es : List Value)
    (ts : List Ty) (os : List Bool), pre.length = preV.length → ns.length = es.length →
    ts.length = es.length → os.length = es.length → (∀ x ∈ ns, x ∉ pre) → ns.Nodup →
    mapObjFill (pre ++ ns) (preV ++ es) ns ts os = .ok es
  | _, _, [], [], [], [], _, _, _, _, _, _ => by simp [mapObjFill]
  | _, _, [], _ :: _, _, _, _, h, _, _, _, _ => by simp at h
  | _, _, _ :: _, [], _, _, _, h, _, _, _, _ => by simp at h
  | _, _, _ :: _, _ :: _, [], _, _, _, h, _, _, _ => by simp at h
  | _, _, _ :: _, _ :: _, _ :: _, [], _, _, _, h, _, _ => by simp at h
  | pre, preV, n :: ns, e :: es, t :: ts, o :: os, hl, h1, h2, h3, hpre, hnd => by
    have hnd' := List.nodup_cons.mp hnd
    simp only [mapObjFill, lookupVal_prefix pre preV n ns e es hl (hpre n (by simp))]
    have := mapObjFill_self (pre ++ [n]) (preV ++ [e]) ns es ts os (by simp [hl]) (by simpa using h1)
      (by simpa using h2) (by simpa using h3)
      (by
        intro x hx hm
        rcases List.mem_append.mp hm with hm | hm
        · exact hpre x (by simp [hx]) hm
        · simp at hm; subst hm; exact hnd'.1 hx) hnd'.2
    simp only [List.append_assoc, List.singleton_append] at this
    simp [this, Res.map]

theorem mapObjLoop_same (rec : Rec) (names : List String) (tys : List Ty) (opts : List Bool) (convs : List Plan)
    (hc : ∀ c ∈ convs, c = Plan.nil) : ∀ (ks : List String) (es : List Value), ks.length = es.length →
    (∀ k ∈ ks, names.contains k = true) → (∀ e ∈ es, e.isNull = false) →
    mapObjLoop rec names tys opts convs ks es = .ok (ks, es)
  | [], [], _, _, _ => rfl
  | [], _ :: _, h, _, _ => by simp at h
  | _ :: _, [], h, _, _ => by simp at h
  | k :: ks, e :: es, hl, hk, hn => by
    have hck : names.contains k = true := hk k (by simp)
    have hlk : lookupPlan k names convs = none ∨ lookupPlan k names convs = some .nil := by
      cases h : lookupPlan k names convs with
      | none => exact .inl rfl
      | some p =>
        right
        have := lookupPlan_nils k names convs hc
        rw [h] at this
        simpa using this
    have hnn : e.isNull = false := hn e (by simp)
    have ih := mapObjLoop_same rec names tys opts convs hc ks es (by simpa using hl)
      (fun x hx => hk x (by simp [hx])) (fun x hx => hn x (by simp [hx]))
    simp only [mapObjLoop, hck, Bool.not_true, Bool.false_eq_true, if_false]
    rcases hlk with h | h <;> simp [h, Res.bind, ih, stripNull, hnn]

/-- … and converting that map back to the object type gives the original value: the
round trip object → map → object (members must not be null: a null is rebuilt) -/
theorem map_to_object_same {E : Env} (fuel : Nat) (T : Ty) (ns : List String)
    (its : List Ty) (os : List Bool) (ps : List Payload) (hT : wf T = true)
    (hTd : hasDyn T = false) (hall : ∀ it ∈ its, it = T) (hos : ∀ o ∈ os, o = false)
    (hnd : ns.Nodup) (hln : ns.length = its.length) (hlo : os.length = its.length)
    (hlp : ps.length = its.length) (hnn : ∀ p ∈ ps, p.isNull = false) :
    convert E (fuel + 2) ⟨.map T, .smap ns ps⟩ (.object ns its os) =
      .ok ⟨.object ns its os, .smap ns ps⟩ := by
  have h1 : (Ty.object ns its os).isDyn = false := rfl
  have h2 : (Ty.map T).isDyn = false := rfl
  have hg : getConv E (.map T) (.object ns its os) true =
      some (.wrap (.object ns its os) (.mapToObj ns its os (its.map fun _ => Plan.nil))) := by
    simp [getConv, gck, h1, h2, isPrim, mapToObjConvs_same _ T hT its os hall hlo]
  have hneq : (Ty.map T).equals (Ty.object ns its os).stripOpt = false := by simp [stripOpt, Ty.equals]
  let es : List Value := ps.map fun p => ⟨T, p⟩
  have hesl : es.length = its.length := by simp [es, hlp]
  have hloop := mapObjLoop_same (apply E fuel) ns its os (its.map fun _ => Plan.nil) (by simp) ns es
    (by rw [hesl, hln]) (fun k hk => by simpa using hk) (by
      intro e he
      obtain ⟨p, hp, rfl⟩ := List.mem_map.mp he
      exact hnn p hp)
  have hfill := mapObjFill_self [] [] ns es its os rfl (by rw [hesl, hln]) hesl.symm (by rw [hesl, hlo])
    (by simp) hnd
  simp only [List.nil_append] at hfill
  have htys : es.map (·.ty) = its := by
    have : ∀ (its : List Ty) (ps : List Payload), ps.length = its.length → (∀ it ∈ its, it = T) →
        (ps.map fun p => (⟨T, p⟩ : Value)).map (·.ty) = its := by
      intro its
      induction its with
      | nil => intro ps h _; cases ps <;> simp at h ⊢
      | cons a as ih =>
        intro ps h hall
        cases ps with
        | nil => simp at h
        | cons p ps =>
          simp only [List.map_cons, List.cons.injEq]
          exact ⟨(hall a (by simp)).symm, ih ps (by simpa using h) fun x hx => hall x (by simp [hx])⟩
    exact this its ps hlp hall
  have hopts : es.map (fun _ => false) = os := by
    have : ∀ (os : List Bool) (es : List Value), es.length = os.length → (∀ o ∈ os, o = false) →
        es.map (fun _ => false) = os := by
      intro os
      induction os with
      | nil => intro es h _; cases es <;> simp at h ⊢
      | cons a as ih =>
        intro es h hall
        cases es with
        | nil => simp at h
        | cons e es =>
          simp only [List.map_cons, List.cons.injEq]
          exact ⟨(hall a (by simp)).symm, ih es (by simpa using h) fun x hx => hall x (by simp [hx])⟩
    exact this os es (by rw [hesl, hlo]) hos
  have hvs : es.map (·.v) = ps := by
    simp only [es, List.map_map]
    have : ((fun x : Value => x.v) ∘ fun p => (⟨T, p⟩ : Value)) = id := by funext p; rfl
    rw [this, List.map_id]
  have hstep : applyStep E (apply E fuel) (.mapToObj ns its os (its.map fun _ => Plan.nil))
      ⟨.map T, .smap ns ps⟩ = .ok ⟨.object ns its os, .smap ns ps⟩ := by
    have hloop' : mapObjLoop (apply E fuel) ns its os (its.map fun _ => Plan.nil) ns
        (ps.map fun p => (⟨T, p⟩ : Value)) = .ok (ns, es) := hloop
    simp only [applyStep, elemsOf, keysOf, Res.bind, hloop', hfill, objectVal, htys, hopts, hvs]
  simp only [convert, convertWith, hneq, hg, apply, applyStep, Value.isMarked, Payload.isMarked, h1,
    Value.isKnown, Payload.isKnown, Payload.unmark1, Value.isNull, Payload.isNull, Bool.false_eq_true,
    if_false, Bool.not_true, Bool.or_self]
  exact hstep

end Convert
end CtyModel
