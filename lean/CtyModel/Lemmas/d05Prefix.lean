/-
C05, `SafeKnownPrefix` when the normalised prefix has NO normalisation boundary (`LastBoundary = −1`: the
prefix consists of characters that may all combine backwards — combining marks, Hangul vowel/trailing jamo, …).

The code then skips the boundary cut and runs the grapheme-cluster scan over the whole string.  Structurally
(no law needed, any scanner answers): the delimiter exception cannot fire (delimiters are ASCII, and an ASCII byte
is always a normalisation boundary), so the result is the text before the LAST cluster the scanner reported —
empty when there is only one.  Continuation safety of that cut is a law about the interplay of the two external
libraries (`ExtNB.lastClusterStart_stable`), taken as a structure field like `Ext.lastBoundary_stable`, probed
against x/text and textseg on every run over the alphabet of the property; it is not an axiom.

With it, continuation safety holds for EVERY prefix (`ExtNB.safe_continuation_all`): boundary present (the
existing theorem), no boundary (here), and — vacuously, the result is empty — a `LastBoundary` below −1.
-/
import CtyModel.Lemmas.RefinePrefix
namespace CtyModel
namespace Refine
namespace D05

/-- below −1 (never returned by x/text): the model cuts at 0 -/
theorem safeKnownPrefix_neg (delims nfc : List UInt8) (lb : Int) (advs : List Nat) (h : lb < -1) :
    safeKnownPrefix delims nfc lb advs = [] := by
  unfold safeKnownPrefix
  have h1 : lb ≠ -1 ∧ lb ≠ (nfc.length : Int) := ⟨by omega, by omega⟩
  rw [if_pos h1]
  have : lb.toNat = 0 := by omega
  rw [this]; rfl

/-- no boundary: the delimiter exception cannot fire on a string without ASCII bytes, so the result is the text
before the last cluster the scanner reported -/
theorem safeKnownPrefix_noBoundary (delims nfc : List UInt8) (advs : List Nat)
    (hd : ∀ d ∈ delims, d < 128) (hn : ∀ b ∈ nfc, 128 ≤ b) :
    safeKnownPrefix delims nfc (-1) advs = nfc.take (scanLoop advs nfc.length 0 0).1 := by
  unfold safeKnownPrefix
  have h1 : ¬ ((-1 : Int) ≠ -1 ∧ (-1 : Int) ≠ (nfc.length : Int)) := by intro h; exact h.1 rfl
  rw [if_neg h1]
  simp only
  have hm : mustEndCluster delims
      ((nfc.drop (scanLoop advs nfc.length 0 0).1).take
        ((scanLoop advs nfc.length 0 0).2 - (scanLoop advs nfc.length 0 0).1)) = false := by
    generalize hs : (nfc.drop (scanLoop advs nfc.length 0 0).1).take
        ((scanLoop advs nfc.length 0 0).2 - (scanLoop advs nfc.length 0 0).1) = suspect
    have hsub : ∀ b ∈ suspect, b ∈ nfc := by
      intro b hb
      rw [← hs] at hb
      exact List.mem_of_mem_drop (List.mem_of_mem_take hb)
    unfold mustEndCluster
    split
    · rename_i b
      cases hc : delims.contains b
      · rfl
      · have h2 : b ∈ delims := by simpa using hc
        have h3 := hd b h2
        have h4 := hn b (hsub b (by simp))
        exact absurd h3 (by
          intro h5
          have : b.toNat < 128 := h5
          have : 128 ≤ b.toNat := h4
          omega)
    · rfl
  rw [hm]
  simp

/-- only one cluster scanned (or none): nothing is kept -/
theorem safeKnownPrefix_noBoundary_single (delims nfc : List UInt8) (advs : List Nat)
    (hd : ∀ d ∈ delims, d < 128) (hn : ∀ b ∈ nfc, 128 ≤ b) (h1 : (scanLoop advs nfc.length 0 0).1 = 0) :
    safeKnownPrefix delims nfc (-1) advs = [] := by
  rw [safeKnownPrefix_noBoundary delims nfc advs hd hn, h1]; rfl

/-- the external libraries with the two further laws the no-boundary case needs -/
structure ExtNB extends Ext where
  /-- every ASCII byte starts a normalisation boundary: a normalised string with no boundary has none -/
  noBoundary_nonascii : ∀ p, lastBoundary (nfc p) = -1 → ∀ b ∈ nfc p, 128 ≤ b
  /-- in a normalised string with no normalisation boundary, the text before the last grapheme cluster the
  streaming scanner reported is unaffected by anything appended -/
  lastClusterStart_stable : ∀ p c, lastBoundary (nfc p) = -1 →
    (nfc p).take (scanLoop (advances (nfc p)) (nfc p).length 0 0).1 <+: nfc (p ++ c)

/-- continuation safety for EVERY prefix: with or without a normalisation boundary -/
theorem ExtNB.safe_continuation_all (E : ExtNB) (delims : List UInt8) (hd : ∀ d ∈ delims, d < 128)
    (p c : List UInt8) : E.toExt.safe delims p <+: E.nfc (p ++ c) := by
  by_cases h0 : 0 ≤ E.lastBoundary (E.nfc p)
  · exact E.toExt.safe_continuation delims p c h0
  · by_cases h1 : E.lastBoundary (E.nfc p) = -1
    · unfold Ext.safe
      rw [h1, safeKnownPrefix_noBoundary delims _ _ hd (E.noBoundary_nonascii p h1)]
      exact E.lastClusterStart_stable p c h1
    · unfold Ext.safe
      rw [safeKnownPrefix_neg _ _ _ _ (by omega)]
      exact List.nil_prefix

/-! ### an instance in which the no-boundary case occurs (the laws are jointly satisfiable, non-vacuously) -/

/-- index of the last ASCII byte, −1 if there is none -/
def lastAsciiFrom : List UInt8 → Nat → Int → Int
  | [], _, best => best
  | b :: bs, i, best => lastAsciiFrom bs (i + 1) (if b < 128 then (i : Int) else best)

theorem lastAsciiFrom_neg : ∀ (s : List UInt8) (i : Nat) (best : Int),
    lastAsciiFrom s i best = -1 → best = -1 ∧ ∀ b ∈ s, 128 ≤ b := by
  intro s
  induction s with
  | nil => intro i best h; exact ⟨h, fun _ hb => by cases hb⟩
  | cons a s ih =>
    intro i best h
    simp only [lastAsciiFrom] at h
    by_cases ha : a < 128
    · rw [if_pos ha] at h
      have := (ih (i + 1) (i : Int) h).1
      omega
    · rw [if_neg ha] at h
      obtain ⟨h1, h2⟩ := ih (i + 1) best h
      refine ⟨h1, fun b hb => ?_⟩
      cases hb with
      | head => exact UInt8.not_lt.mp ha
      | tail _ hb' => exact h2 b hb'

/-- toy text: normalisation is the identity, a boundary before every ASCII byte and nowhere else, every byte
its own cluster -/
def ExtNB.toy : ExtNB where
  nfc := id
  lastBoundary := fun s => lastAsciiFrom s 0 (-1)
  advances := fun s => s.map fun _ => 1
  lastBoundary_stable := by
    intro p c _
    exact (List.take_prefix _ _).trans (List.prefix_append p c)
  noBoundary_nonascii := by
    intro p h
    exact (lastAsciiFrom_neg p 0 (-1) h).2
  lastClusterStart_stable := by
    intro p c _
    exact (List.take_prefix _ _).trans (List.prefix_append p c)

end D05
end Refine
end CtyModel
