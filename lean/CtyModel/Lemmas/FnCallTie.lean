/-
The REGENERATED-MODEL tie for C10: the definitions that `extract/translate_fn.go`
regenerates from cty/function/function.go on every check (`Generated/FnCall.lean`)
compute exactly what the hand-written model (`Fn.returnTypeForValues`,
`Fn.returnTypeForValuesPub`, `Fn.returnType`, `Fn.call`) computes — outcome AND trace
of callback invocations — for all specs, callbacks and argument lists.  In particular
none of the slice operations of the Go text panics, and the code wrapped by the
deferred `RefineResult` closure never panics (the one case `FnGo.deferRun` leaves
unmodelled).  Every C10 theorem therefore holds of the translated source text.

A refactoring inside the translated fragment that preserves the meaning still goes
through (the loop lemmas are stated for an arbitrary continuation `k`); a change of
meaning makes this file fail to build.
-/
import CtyModel.Generated.FnCall
import CtyModel.Lemmas.FnCall
set_option linter.unusedSimpArgs false
namespace CtyModel
namespace FnCallTie
open Fn FnGo Generated.FnCall

/-! ### slices under construction -/

theorem done_map_some {α} : ∀ xs : List α, FnGo.done (xs.map some) = .ok xs
  | [] => rfl
  | x :: xs => by simp [FnGo.done, done_map_some xs]

theorem copy_make {α} (xs : List α) : FnGo.copy (FnGo.make xs.length) xs = xs.map some := by
  simp [FnGo.copy, FnGo.make]

/-- `newArgs := make(…, len(args)); copy(newArgs, args); newArgs[i] = v; args = newArgs` -/
theorem set_copy {α} (xs : List α) (i : Nat) (v : α) (h : i < xs.length) :
    FnGo.setIdx (FnGo.copy (FnGo.make xs.length) xs) i v = .ok ((xs.set i v).map some) := by
  simp [copy_make, FnGo.setIdx, h, List.map_set]

theorem set_mid {α} (pre vs tl : List α) (v w : α) :
    (pre ++ (v :: vs) ++ tl).set pre.length w = pre ++ (w :: vs) ++ tl := by
  simp [List.set_append]

theorem index_mid {α} (pre vs : List α) (v : α) : FnGo.index (pre ++ v :: vs) pre.length = .ok v := by
  simp [FnGo.index]

@[simp] theorem op_ok {α β} (a : α) (k : α → M β) : FnGo.op (.ok a) k = k a := rfl

/-! ### the argument loops of `returnTypeForValues` -/

/-- how the rest of the function continues after an argument loop -/
def pass1K (k : List Value → M (Ty × Bool)) (pre tl : List Value) : Pass1 → M (Ty × Bool)
  | .ok r => k (pre ++ r ++ tl)
  | .argErr j => FnGo.fail (.arg j)
  | .dyn => FnGo.ret (.dyn, true)
  | .countErr => FnGo.fail .argCount

theorem rtfv_posLoop (k : List Value → M (Ty × Bool)) (tl : List Value) :
    ∀ (ps : List Param) (vs dn pre : List Value), dn.length = pre.length → ps.length = vs.length →
      Function_returnTypeForValues_loop2 (dn ++ vs) k (pre ++ vs ++ tl) pre.length ps
        = pass1K k pre tl (checkLoop ps vs pre.length 0)
  | [], [], dn, pre, _, _ => by simp [Function_returnTypeForValues_loop2, checkLoop, pass1K]
  | [], _ :: _, _, _, _, h => by simp at h
  | _ :: _, [], _, _, _, h => by simp at h
  | p :: ps, v :: vs, dn, pre, hd, hl => by
    have ih := fun x => rtfv_posLoop k tl ps vs (dn ++ [v]) (pre ++ [x]) (by simp [hd]) (by simpa using hl)
    simp only [List.append_assoc, List.cons_append, List.nil_append, List.length_append, List.length_cons,
      List.length_nil] at ih
    have hi : FnGo.index (dn ++ v :: vs) pre.length = .ok v := by rw [← hd]; exact index_mid ..
    have hlt : pre.length < (pre ++ v :: (vs ++ tl)).length := by simp
    have hset : ∀ w, (pre ++ v :: (vs ++ tl)).set pre.length w = pre ++ w :: (vs ++ tl) := by
      intro w; simp [List.set_append]
    unfold Function_returnTypeForValues_loop2
    simp only [List.append_assoc, List.cons_append, hi, op_ok, set_copy _ _ _ hlt, hset, done_map_some]
    simp only [checkLoop, Param.check, Param.typeArg, FnGo.testConformance, FnGo.errIndex, FnGo.argError]
    simp only [Nat.zero_add, Nat.add_zero] at ih ⊢
    by_cases h0 : (v.containsMarked && !p.allowMarked) = true <;>
    by_cases h1 : (v.isNull && !p.allowNull) = true <;>
    by_cases h2 : v.ty.isDyn = true <;>
    by_cases h3 : (!p.allowDynamic) = true <;>
    by_cases h4 : p.ty.conformErrs v.ty = 0 <;>
    simp [h0, h1, h2, h3, h4, ih, pass1K, Nat.pos_iff_ne_zero] <;>
    (cases checkLoop ps vs (pre.length + 1) 0 <;> simp [pass1K])

@[simp] theorem rbind_ok {α β} (a : α) (f : α → Res β) : Res.bind (.ok a) f = f a := rfl

theorem rtfv_varLoop (spec : Spec) (vp : Param) (hv : spec.varParam = some vp) (posArgs : List Value)
    (k : List Value → M (Ty × Bool)) (tl : List Value) :
    ∀ (vs pre : List Value) (i : Nat), pre.length = i + posArgs.length →
      Function_returnTypeForValues_loop1 spec posArgs k (pre ++ vs ++ tl) i vs
        = pass1K k pre tl (checkLoop (List.replicate vs.length vp) vs i posArgs.length)
  | [], pre, i, _ => by simp [Function_returnTypeForValues_loop1, checkLoop, pass1K]
  | v :: vs, pre, i, hp => by
    have ih := fun x => rtfv_varLoop spec vp hv posArgs k tl vs (pre ++ [x]) (i + 1) (by simp [hp]; omega)
    simp only [List.append_assoc, List.cons_append, List.nil_append] at ih
    have hlt : i + posArgs.length < (pre ++ v :: (vs ++ tl)).length := by simp; omega
    have hset : ∀ w, (pre ++ v :: (vs ++ tl)).set (i + posArgs.length) w = pre ++ w :: (vs ++ tl) := by
      intro w; rw [← hp]; simp [List.set_append]
    unfold Function_returnTypeForValues_loop1
    simp only [List.append_assoc, List.cons_append, hv, FnGo.deref, op_ok, rbind_ok, set_copy _ _ _ hlt, hset,
      done_map_some, List.length_cons, List.replicate_succ]
    simp only [checkLoop, Param.check, Param.typeArg, FnGo.testConformance, FnGo.errIndex, FnGo.argError]
    by_cases h0 : v.containsMarked = true <;> by_cases h0' : vp.allowMarked = true <;>
    by_cases h1 : v.isNull = true <;> by_cases h1' : vp.allowNull = true <;>
    by_cases h2 : v.ty.isDyn = true <;>
    by_cases h3 : (!vp.allowDynamic) = true <;>
    by_cases h4 : vp.ty.conformErrs v.ty = 0 <;>
    simp [h0, h0', h1, h1', h2, h3, h4, ih, pass1K, Nat.pos_iff_ne_zero] <;>
    (cases checkLoop (List.replicate vs.length vp) vs (i + 1) posArgs.length <;> simp [pass1K])

theorem checkLoop_ok_length : ∀ (ps : List Param) (vs : List Value) (i off : Nat) (r : List Value),
    ps.length = vs.length → checkLoop ps vs i off = .ok r → r.length = vs.length
  | [], [], _, _, r, _, h => by simp [checkLoop] at h; simp [← h]
  | [], _ :: _, _, _, _, h, _ => by simp at h
  | _ :: _, [], _, _, _, h, _ => by simp at h
  | p :: ps, v :: vs, i, off, r, hl, h => by
    simp only [checkLoop] at h
    cases hc : p.check v with
    | some f => cases f <;> simp [hc] at h
    | none =>
      simp only [hc] at h
      cases hr : checkLoop ps vs (i + 1) off with
      | ok rest =>
        simp [hr] at h
        have := checkLoop_ok_length ps vs (i + 1) off rest (by simpa using hl) hr
        simp [← h, this]
      | countErr => simp [hr] at h
      | argErr j => simp [hr] at h
      | dyn => simp [hr] at h

/-- the end of `returnTypeForValues`: the recover wrapper around the `Type` callback -/
theorem rtfv_tail (tf : TypeFn) (a : List Value) :
    FnGo.deferRecover (fun r => FnGo.fail (FnGo.errorForPanic r))
      (FnGo.call (FnGo.callType tf a) (fun x => FnGo.ret (x, false)) (fun e => FnGo.fail e))
    = match tf a with
      | .ok ty => (.ok (ty, false), [.type a])
      | .err c => (.err (.callback c), [.type a])
      | .panic w => (.err (.panicError w), [.type a])
      | .unmodelled => (.unmodelled, [.type a]) := by
  cases h : tf a <;> simp [FnGo.deferRecover, FnGo.call, FnGo.callType, FnGo.after, FnGo.ret, FnGo.fail, FnGo.errorForPanic, h]

theorem rtfv_eq (spec : Spec) (tf : TypeFn) (impl : ImplFn) (args : List Value) (argsNil : Bool)
    (hn : argsNil = true → args = []) :
    Function_returnTypeForValues spec tf impl args argsNil = Fn.returnTypeForValues spec tf args := by
  unfold Function_returnTypeForValues Fn.returnTypeForValues pass1
  cases hv : spec.varParam with
  | none =>
    by_cases hl : args.length = spec.params.length
    · have := rtfv_posLoop (fun a => FnGo.deferRecover (fun r => FnGo.fail (FnGo.errorForPanic r))
          (FnGo.call (FnGo.callType tf a) (fun x => FnGo.ret (x, false)) (fun e => FnGo.fail e))) [] spec.params args [] []
          rfl hl.symm
      simp only [List.nil_append, List.append_nil, List.length_nil] at this
      simp [hl, this]
      cases checkLoop spec.params args 0 0 <;> simp only [pass1K, rtfv_tail, List.nil_append, List.append_nil] <;>
        first | rfl | (cases tf _ <;> rfl)
    · simp [hl, FnGo.fail, FnGo.plainError]
  | some vp =>
    by_cases hl : args.length < spec.params.length
    · simp [hl, FnGo.fail, FnGo.plainError]
    · have hle : spec.params.length ≤ args.length := by omega
      have hs1 : FnGo.slice args 0 spec.params.length = .ok (args.take spec.params.length) := by
        simp [FnGo.slice, hle]
      have hs2 : FnGo.slice args spec.params.length args.length = .ok (args.drop spec.params.length) := by
        simp [FnGo.slice, hle]
      simp only [Option.isNone_some, hl, decide_false, Bool.false_eq_true, if_false, hs1, hs2, op_ok]
      have hpos := fun K => rtfv_posLoop K (args.drop spec.params.length) spec.params (args.take spec.params.length) [] []
        rfl (by simp; omega)
      simp only [List.nil_append, List.take_append_drop, List.length_nil] at hpos
      rw [hpos]
      cases hc : checkLoop spec.params (args.take spec.params.length) 0 0 with
      | countErr => rfl
      | argErr j => rfl
      | dyn => rfl
      | ok pos =>
        have hpl : pos.length = 0 + (args.take spec.params.length).length := by
          rw [checkLoop_ok_length _ _ _ _ _ (by simp; omega) hc]; simp
        have hvar := fun K => rtfv_varLoop spec vp hv (args.take spec.params.length) K [] (args.drop spec.params.length) pos 0 hpl
        simp only [List.append_nil] at hvar
        simp only [pass1K, List.nil_append]
        have hlen : (args.take spec.params.length).length = spec.params.length := by simp; omega
        -- however the source guards the variadic loop (`varArgs != nil`, `len(varArgs) > 0`, not at all): without
        -- variadic arguments the loop does nothing, and with some the slice is not nil
        rcases hd : args.drop spec.params.length with _ | ⟨d, ds⟩
        · simp only [hd] at hvar
          simp [hvar, hlen, checkLoop, rtfv_tail, pass1K, Function_returnTypeForValues_loop1]
          cases argsNil <;> (try simp [rtfv_tail]) <;> first | rfl | (cases tf _ <;> rfl)
        · have hf : argsNil = false := by
            cases argsNil with
            | false => rfl
            | true => simp [hn rfl] at hd
          have hne : 0 < (args.drop spec.params.length).length := by rw [hd]; simp
          have hne' : 0 < args.length - spec.params.length := by simpa using hne
          subst hf
          rw [← hd]
          simp [hvar, hlen, hne, hne']
          cases checkLoop (List.replicate (args.length - spec.params.length) vp) (args.drop spec.params.length) 0
            spec.params.length <;> simp only [pass1K, rtfv_tail, List.append_nil] <;>
            first | rfl | (cases tf _ <;> rfl)

@[simp] theorem call_ok {α β} (a : α) (tr : List Event) (k1 : α → M β) (k2 : CallErr → M β) :
    FnGo.call (.ok a, tr) k1 k2 = FnGo.after tr (k1 a) := rfl
@[simp] theorem call_err {α β} (e : CallErr) (tr : List Event) (k1 : α → M β) (k2 : CallErr → M β) :
    FnGo.call (.err e, tr) k1 k2 = FnGo.after tr (k2 e) := rfl
@[simp] theorem call_panic {α β} (w : String) (tr : List Event) (k1 : α → M β) (k2 : CallErr → M β) :
    FnGo.call (.panic w, tr) k1 k2 = (.panic w, tr) := rfl
@[simp] theorem call_unmodelled {α β} (tr : List Event) (k1 : α → M β) (k2 : CallErr → M β) :
    FnGo.call (.unmodelled, tr) k1 k2 = (.unmodelled, tr) := rfl
@[simp] theorem after_ret {α} (tr : List Event) (a : α) : FnGo.after tr (FnGo.ret a) = (.ok a, tr) := by
  simp [FnGo.after, FnGo.ret]
@[simp] theorem after_fail {α} (tr : List Event) (e : CallErr) : FnGo.after tr (FnGo.fail (α := α) e) = (.err e, tr) := by
  simp [FnGo.after, FnGo.fail]

theorem rtfvPub_eq (spec : Spec) (tf : TypeFn) (impl : ImplFn) (args : List Value) (argsNil : Bool)
    (hn : argsNil = true → args = []) :
    Function_ReturnTypeForValues spec tf impl args argsNil = Fn.returnTypeForValuesPub spec tf args := by
  unfold Function_ReturnTypeForValues Fn.returnTypeForValuesPub
  rw [rtfv_eq spec tf impl args argsNil hn]
  rcases Fn.returnTypeForValues spec tf args with ⟨o, tr⟩
  cases o <;> simp

/-- the loop of `ReturnType` fills the made slice with unknown values of the given types -/
theorem returnType_loop (k : List (Option Value) → M Ty) :
    ∀ (tys : List Ty) (dn : List Value),
      Function_ReturnType_loop1 k (dn.map some ++ List.replicate tys.length none) dn.length tys
        = k ((dn ++ tys.map Value.unknown).map some)
  | [], dn => by simp [Function_ReturnType_loop1]
  | t :: ts, dn => by
    have ih := returnType_loop k ts (dn ++ [Value.unknown t])
    simp only [List.map_append, List.length_append, List.length_cons, List.length_nil, List.append_assoc,
      List.map_cons, List.map_nil, List.cons_append, List.nil_append, Nat.zero_add] at ih
    unfold Function_ReturnType_loop1
    have : FnGo.setIdx (dn.map some ++ List.replicate (t :: ts).length none) dn.length (Value.unknown t)
        = .ok (dn.map some ++ some (Value.unknown t) :: List.replicate ts.length none) := by
      simp [FnGo.setIdx, List.set_append, List.replicate_succ]
    simp only [this, op_ok, ih]
    simp

theorem returnType_eq (spec : Spec) (tf : TypeFn) (impl : ImplFn) (tys : List Ty) :
    Function_ReturnType spec tf impl tys = Fn.returnType spec tf tys := by
  unfold Function_ReturnType Fn.returnType
  have := returnType_loop (fun vals => FnGo.op (FnGo.done vals) fun vals_2 =>
    Function_ReturnTypeForValues spec tf impl vals_2 false) tys []
  simp only [List.map_nil, List.nil_append, List.length_nil] at this
  simp only [FnGo.make, this, done_map_some, op_ok]
  exact rtfvPub_eq spec tf impl _ false (by simp)

/-! ### the argument loops of `Call` -/

theorem pass2_args_length : ∀ (ps : List Param) (vs : List Value), ps.length = vs.length →
    (pass2 ps vs).args.length = vs.length
  | [], [], _ => rfl
  | [], _ :: _, h => by simp at h
  | _ :: _, [], h => by simp at h
  | p :: ps, v :: vs, h => by simp [pass2, pass2_args_length ps vs (by simpa using h)]

theorem call_posLoop (k : List Value → List (List String) → Bool → M Value) (tl : List Value) :
    ∀ (ps : List Param) (vs dn pre : List Value) (rm : List (List String)) (ru : Bool),
      dn.length = pre.length → ps.length = vs.length →
      Function_Call_loop2 (dn ++ vs) k (pre ++ vs ++ tl) rm ru pre.length ps
        = k (pre ++ (pass2 ps vs).args ++ tl) (rm ++ (pass2 ps vs).marks) (ru || (pass2 ps vs).unknown)
  | [], [], dn, pre, rm, ru, _, _ => by simp [Function_Call_loop2, pass2]
  | [], _ :: _, _, _, _, _, _, h => by simp at h
  | _ :: _, [], _, _, _, _, _, h => by simp at h
  | p :: ps, v :: vs, dn, pre, rm, ru, hd, hl => by
    have ih := fun x rm ru => call_posLoop k tl ps vs (dn ++ [v]) (pre ++ [x]) rm ru (by simp [hd]) (by simpa using hl)
    simp only [List.append_assoc, List.cons_append, List.nil_append, List.length_append, List.length_cons,
      List.length_nil, Nat.zero_add] at ih
    have hi : FnGo.index (dn ++ v :: vs) pre.length = .ok v := by rw [← hd]; exact index_mid ..
    have hlt : pre.length < (pre ++ v :: (vs ++ tl)).length := by simp
    have hset : ∀ w, (pre ++ v :: (vs ++ tl)).set pre.length w = pre ++ w :: (vs ++ tl) := by
      intro w; simp [List.set_append]
    unfold Function_Call_loop2
    simp only [List.append_assoc, List.cons_append, hi, op_ok, set_copy _ _ _ hlt, hset, done_map_some]
    simp only [pass2, Param.callArg, Param.blocksUnknown]
    by_cases h0 : p.allowMarked = true <;> by_cases h1 : v.marksDeep.length > 0 <;>
    by_cases h2 : v.isKnown = true <;> by_cases h3 : p.allowUnknown = true <;>
    simp [h0, h1, h2, h3, ih]

theorem call_varLoop (spec : Spec) (vp : Param) (hv : spec.varParam = some vp) (posArgs : List Value)
    (k : List Value → List (List String) → Bool → M Value) (tl : List Value) :
    ∀ (vs pre : List Value) (rm : List (List String)) (ru : Bool) (i : Nat), pre.length = posArgs.length + i →
      Function_Call_loop1 spec posArgs k (pre ++ vs ++ tl) rm ru i vs
        = k (pre ++ (pass2 (List.replicate vs.length vp) vs).args ++ tl)
            (rm ++ (pass2 (List.replicate vs.length vp) vs).marks)
            (ru || (pass2 (List.replicate vs.length vp) vs).unknown)
  | [], pre, rm, ru, i, _ => by simp [Function_Call_loop1, pass2]
  | v :: vs, pre, rm, ru, i, hp => by
    have ih := fun x rm ru => call_varLoop spec vp hv posArgs k tl vs (pre ++ [x]) rm ru (i + 1) (by simp [hp]; omega)
    simp only [List.append_assoc, List.cons_append, List.nil_append] at ih
    have hlt : posArgs.length + i < (pre ++ v :: (vs ++ tl)).length := by simp; omega
    have hset : ∀ w, (pre ++ v :: (vs ++ tl)).set (posArgs.length + i) w = pre ++ w :: (vs ++ tl) := by
      intro w; rw [← hp]; simp [List.set_append]
    unfold Function_Call_loop1
    simp only [List.append_assoc, List.cons_append, hv, FnGo.deref, op_ok, rbind_ok, set_copy _ _ _ hlt, hset,
      done_map_some, List.length_cons, List.replicate_succ]
    simp only [pass2, Param.callArg, Param.blocksUnknown]
    by_cases h0 : vp.allowMarked = true <;> by_cases h1 : v.marksDeep.length > 0 <;>
    by_cases h2 : v.isKnown = true <;> by_cases h3 : vp.allowUnknown = true <;>
    simp [h0, h1, h2, h3, ih]

/-! ### the combinators on concrete outcomes -/

@[simp] theorem deferRun_ok {α} (a : α) (tr : List Event) (k1 : α → M α) (k2 : CallErr → M α) :
    FnGo.deferRun k1 k2 (.ok a, tr) = FnGo.after tr (k1 a) := rfl
@[simp] theorem deferRun_err {α} (e : CallErr) (tr : List Event) (k1 : α → M α) (k2 : CallErr → M α) :
    FnGo.deferRun k1 k2 (.err e, tr) = FnGo.after tr (k2 e) := rfl
@[simp] theorem deferRun_unmodelled {α} (tr : List Event) (k1 : α → M α) (k2 : CallErr → M α) :
    FnGo.deferRun k1 k2 (.unmodelled, tr) = (.unmodelled, tr) := rfl
@[simp] theorem deferRecover_ok {α} (a : α) (tr : List Event) (h : String → M α) :
    FnGo.deferRecover h (.ok a, tr) = (.ok a, tr) := rfl
@[simp] theorem deferRecover_err {α} (e : CallErr) (tr : List Event) (h : String → M α) :
    FnGo.deferRecover h (.err e, tr) = (.err e, tr) := rfl
@[simp] theorem deferRecover_unmodelled {α} (tr : List Event) (h : String → M α) :
    FnGo.deferRecover (α := α) h (.unmodelled, tr) = (.unmodelled, tr) := rfl
@[simp] theorem deferRecover_panic {α} (w : String) (tr : List Event) (h : String → M α) :
    FnGo.deferRecover h (.panic w, tr) = FnGo.after tr (h w) := rfl
@[simp] theorem after_pair {α} (tr tr' : List Event) (o : Out α) : FnGo.after tr (o, tr') = (o, tr ++ tr') := rfl
@[simp] theorem ret_def {α} (a : α) : (FnGo.ret a : M α) = (.ok a, []) := rfl
@[simp] theorem fail_def {α} (e : CallErr) : (FnGo.fail e : M α) = (.err e, []) := rfl
@[simp] theorem goPanic_def {α} (w : String) : (FnGo.goPanic w : M α) = (.panic w, []) := rfl

/-- `val.RefineWith(refineResult)` for a non-nil callback, then `return` -/
theorem seq_refineWith (r : RefineFn) (a : Value) :
    FnGo.seq (FnGo.refineWith (some r) a) (fun x => (.ok x, [])) = (Fn.refineWith r a, [.refine a.unmark]) := by
  unfold FnGo.seq FnGo.refineWith Fn.refineWith
  cases h : r a.unmark <;> simp [h]

/-- the recover wrapper around the `Impl` callback and what follows it -/
theorem implBlock (impl : ImplFn) (A : List Value) (ty : Ty) (k : Value → M Value) :
    FnGo.deferRecover (fun r => FnGo.fail (FnGo.errorForPanic r)) (FnGo.call (FnGo.callImpl impl A ty) k (fun e => FnGo.fail e))
    = match impl A ty with
      | .ok v => FnGo.deferRecover (fun r => FnGo.fail (FnGo.errorForPanic r)) (FnGo.after [.impl A ty] (k v))
      | .err c => (.err (.callback c), [.impl A ty])
      | .panic w => (.err (.panicError w), [.impl A ty])
      | .unmodelled => (.unmodelled, [.impl A ty]) := by
  unfold FnGo.callImpl
  cases impl A ty <;> simp [FnGo.errorForPanic]

theorem errIndex_pos {n : Nat} (h : n ≠ 0) : FnGo.errIndex n 0 = .ok () := by
  simp [FnGo.errIndex]; omega

theorem rtfv_ok_count {spec : Spec} {tf : TypeFn} {args : List Value} {x : Ty × Bool} {tr : List Event}
    (h : Fn.returnTypeForValues spec tf args = (.ok x, tr)) :
    spec.params.length ≤ args.length ∧ (spec.varParam = none → args.length = spec.params.length) := by
  unfold Fn.returnTypeForValues pass1 at h
  cases hv : spec.varParam with
  | none =>
    by_cases hl : args.length = spec.params.length
    · exact ⟨by omega, fun _ => hl⟩
    · simp [hv, hl] at h
  | some vp =>
    by_cases hl : args.length < spec.params.length
    · simp [hv, hl] at h
    · exact ⟨by omega, fun h => by simp at h⟩

theorem call_eq (spec : Spec) (tf : TypeFn) (impl : ImplFn) (args : List Value) (argsNil : Bool)
    (hn : argsNil = true → args = []) :
    Function_Call spec tf impl args argsNil = Fn.call spec tf impl args := by
  unfold Function_Call Fn.call
  rw [rtfv_eq spec tf impl args argsNil hn]
  rcases h : Fn.returnTypeForValues spec tf args with ⟨o, tr⟩
  cases o with
  | err e => simp
  | panic w => simp
  | unmodelled => simp
  | ok x =>
    obtain ⟨ty, dyn⟩ := x
    obtain ⟨hle, hex⟩ := rtfv_ok_count h
    have hs1 : FnGo.slice args 0 spec.params.length = .ok (args.take spec.params.length) := by
      simp [FnGo.slice, hle]
    have hs2 : FnGo.slice args spec.params.length args.length = .ok (args.drop spec.params.length) := by
      simp [FnGo.slice, hle]
    have hpos := fun K rm ru => call_posLoop K (args.drop spec.params.length) spec.params (args.take spec.params.length) [] []
      rm ru rfl (by simp; omega)
    simp only [List.nil_append, List.take_append_drop, List.length_nil] at hpos
    simp only [call_ok, hs1, hs2, op_ok, hpos]
    have hlen : (args.take spec.params.length).length = spec.params.length := by simp; omega
    have hpl : (pass2 spec.params (args.take spec.params.length)).args.length = (args.take spec.params.length).length + 0 := by
      rw [pass2_args_length _ _ (by simp; omega)]; simp
    simp only [callBody]
    rcases hv : spec.varParam with _ | vp
    -- after the loops: the arguments for `Impl`, the marks set aside, the two "unknown" flags
    all_goals first
      | (have hvar := fun K rm ru => call_varLoop spec vp hv (args.take spec.params.length) K [] (args.drop spec.params.length)
          (pass2 spec.params (args.take spec.params.length)).args rm ru 0 hpl
         simp only [List.append_nil] at hvar
         simp only [Option.isNone_some, Bool.not_false, if_true, hvar, List.nil_append]
         generalize (pass2 spec.params (args.take spec.params.length)).args ++
           (pass2 (List.replicate (args.drop spec.params.length).length vp) (args.drop spec.params.length)).args = A
         generalize (pass2 spec.params (args.take spec.params.length)).marks ++
           (pass2 (List.replicate (args.drop spec.params.length).length vp) (args.drop spec.params.length)).marks = RM
         generalize (pass2 (List.replicate (args.drop spec.params.length).length vp) (args.drop spec.params.length)).unknown = U2)
      | (simp only [Option.isNone_none, Bool.not_true, Bool.false_eq_true, if_false, List.nil_append, List.append_nil,
           Bool.or_false]
         generalize (pass2 spec.params (args.take spec.params.length)).args ++ args.drop spec.params.length = A
         generalize (pass2 spec.params (args.take spec.params.length)).marks = RM)
    all_goals generalize (pass2 spec.params (args.take spec.params.length)).unknown = U1
    all_goals simp only [implBlock]
    all_goals rcases hr : spec.refine with _ | r <;> cases dyn <;> cases U1 <;> (try cases U2) <;>
      simp [seq_refineWith, deferredRefine]
    all_goals first
      | (split <;> simp <;> done)
      | (rcases hi : impl A ty with v | c | w | _ <;>
          simp [hi, FnGo.testConformance, FnGo.errorForPanic, FnGo.panicValue] <;>
          by_cases hRM : 0 < RM.length <;> simp only [hRM, if_true, if_false] <;>
          split <;> rename_i hc <;> simp [hc, FnGo.errIndex, Nat.pos_iff_ne_zero] <;> (try (split <;> simp)))

/-! ### the entry points -/

/-- `Function.ReturnTypeForValues` as written in the source is the model's `returnTypeForValuesPub` -/
theorem returnTypeForValuesPub_eq (spec : Spec) (tf : TypeFn) (args : List Value) (argsNil : Bool)
    (hn : argsNil = true → args = []) :
    Generated.FnCall.returnTypeForValuesPub spec tf args argsNil = Fn.returnTypeForValuesPub spec tf args :=
  rtfvPub_eq spec tf _ args argsNil hn

/-- `Function.ReturnType` as written in the source is the model's `returnType` -/
theorem returnType_eq' (spec : Spec) (tf : TypeFn) (tys : List Ty) :
    Generated.FnCall.returnType spec tf tys = Fn.returnType spec tf tys :=
  returnType_eq spec tf _ tys

/-- `Function.Call` as written in the source is the model's `call`: same outcome, same trace -/
theorem call_eq' (spec : Spec) (tf : TypeFn) (impl : ImplFn) (args : List Value) (argsNil : Bool)
    (hn : argsNil = true → args = []) :
    Generated.FnCall.call spec tf impl args argsNil = Fn.call spec tf impl args :=
  call_eq spec tf impl args argsNil hn

end FnCallTie
end CtyModel
