/-
Lemmas: `flatten` computes the recursive flattening of nested lists and tuples.
-/
import CtyModel.Lemmas.StdlibMisc
namespace CtyModel
namespace Stdlib
open Value

/-! ### `flatten` -/

/-! SPECIFICATION: every non-null list or tuple, at any depth, is replaced by its
members, recursively; everything else (null sequences included) is an element of
the result. -/
mutual
def flatElem : Ty → Payload → List Value
  | .list e, .seq vs => flatAll e vs
  | .tuple ts, .seq vs => flatZip ts vs
  | t, p => [⟨t, p⟩]
def flatAll : Ty → List Payload → List Value
  | _, [] => []
  | e, v :: vs => flatElem e v ++ flatAll e vs
def flatZip : List Ty → List Payload → List Value
  | t :: ts, v :: vs => flatElem t v ++ flatZip ts vs
  | _, _ => []
end

/-! the inputs the statement covers: wholly known, mark-free, no set anywhere
(a set's members come in the set's iteration order, which `Spec` does not
describe), payloads of the kind their type dictates -/
mutual
def flatOK : Ty → Payload → Bool
  | .list e, .seq vs => flatOKAll e vs
  | .tuple ts, .seq vs => ts.length == vs.length && flatOKZip ts vs
  | .list _, .null => true
  | .tuple _, .null => true
  | .list _, _ => false
  | .tuple _, _ => false
  | .set _, .null => true
  | .set _, _ => false
  | _, .marked _ _ => false
  | _, .unk _ => false
  | _, _ => true
def flatOKAll : Ty → List Payload → Bool
  | _, [] => true
  | e, v :: vs => flatOK e v && flatOKAll e vs
def flatOKZip : List Ty → List Payload → Bool
  | t :: ts, v :: vs => flatOK t v && flatOKZip ts vs
  | _, _ => true
end

/-- is this value a non-null list or tuple (the ones `flattener` descends into)? -/
def isNest : Ty → Payload → Bool
  | .list _, .seq _ => true
  | .tuple _, .seq _ => true
  | _, _ => false

/-- a leaf of the flattening: appended as it is -/
theorem flatLoop_leaf (rec : Value → Res Flat) (t : Ty) (p : Payload) (rest out : List Value)
    (markses : List (List String)) (k : Bool) (hok : flatOK t p = true) (hn : isNest t p = false) :
    flatLoop rec (⟨t, p⟩ :: rest) out markses k = flatLoop rec rest (out ++ [⟨t, p⟩]) markses k := by
  have hdyn : Refine.isDynVal ⟨t, p⟩ = false := by
    cases t <;> cases p <;> simp_all [Refine.isDynVal, flatOK]
  have hcond : (!(⟨t, p⟩ : Value).isNull && isSeqTy t) = false := by
    cases t <;> cases p <;> simp_all [flatOK, isNest, isSeqTy, Value.isNull, Payload.isNull, Payload.unmark1]
  simp only [flatLoop, hdyn, Bool.false_eq_true, if_false, hcond]

/-- a nested list or tuple whose recursive flattening succeeds: its flattening is appended -/
theorem flatLoop_nest (rec : Value → Res Flat) (t : Ty) (p : Payload) (rest out : List Value)
    (k : Bool) (hn : isNest t p = true) (r : List Value) (hr : rec ⟨t, p⟩ = .ok ⟨r, [], true⟩) :
    flatLoop rec (⟨t, p⟩ :: rest) out [] k = flatLoop rec rest (out ++ r) [] k := by
  have hdyn : Refine.isDynVal ⟨t, p⟩ = false := by
    cases t <;> cases p <;> simp_all [Refine.isDynVal, isNest]
  have hcond : (!(⟨t, p⟩ : Value).isNull && isSeqTy t) = true := by
    cases t <;> cases p <;> simp_all [isNest, isSeqTy, Value.isNull, Payload.isNull, Payload.unmark1]
  have hk : (⟨t, p⟩ : Value).isKnown = true := by
    cases t <;> cases p <;> simp_all [isNest, Value.isKnown, Payload.isKnown, Payload.unmark1]
  simp [flatLoop, hdyn, hcond, hk, hr]

theorem flatElem_leaf (t : Ty) (p : Payload) (hn : isNest t p = false) : flatElem t p = [⟨t, p⟩] := by
  cases t <;> cases p <;> simp_all [isNest, flatElem]

theorem depth_le_depthL (v : Payload) (vs : List Payload) (hv : v ∈ vs) : v.depth ≤ Payload.depthL vs := by
  induction vs with
  | nil => simp at hv
  | cons w ws ih =>
    simp only [Payload.depthL]
    rcases List.mem_cons.mp hv with rfl | hv
    · omega
    · have := ih hv; omega

theorem flattenerFuel_succ (E : Env) (fuel : Nat) (fl0 : Value) :
    flattenerFuel E (fuel + 1) fl0 =
      (let markses := if fl0.marks.length > 0 then [fl0.marks] else []
       let fl := fl0.unmark
       match Value.length fl with
       | .ok len =>
         if !len.isKnown then .ok ⟨[], markses, false⟩
         else
           (match elems E fl with
            | .ok es => flatLoop (flattenerFuel E fuel) es [] markses true
            | r => Res.cast r)
       | r => Res.cast r) := rfl

/-- **`flattener` computes the specification** on every list or tuple the
statement covers, for any fuel above the nesting depth -/
theorem flattenerFuel_spec (E : Env) :
    ∀ (fuel : Nat) (t : Ty) (p : Payload), isNest t p = true → flatOK t p = true → p.depth ≤ fuel →
      flattenerFuel E (fuel + 1) ⟨t, p⟩ = .ok ⟨flatElem t p, [], true⟩ := by
  intro fuel
  induction fuel with
  | zero =>
    intro t p hn _ hd
    -- a nest has depth ≥ 1
    cases t <;> cases p <;> simp_all [isNest, Payload.depth]
  | succ fuel ih =>
    intro t p hn hok hd
    -- one member
    have hstep : ∀ (e : Ty) (v : Payload) (rest out : List Value), flatOK e v = true → v.depth ≤ fuel →
        flatLoop (flattenerFuel E (fuel + 1)) (⟨e, v⟩ :: rest) out [] true =
          flatLoop (flattenerFuel E (fuel + 1)) rest (out ++ flatElem e v) [] true := by
      intro e v rest out hok' hdv
      by_cases hnest : isNest e v = true
      · exact flatLoop_nest _ e v rest out true hnest _ (ih e v hnest hok' hdv)
      · have hnest' : isNest e v = false := by simpa using hnest
        rw [flatLoop_leaf _ e v rest out [] true hok' hnest', flatElem_leaf e v hnest']
    -- the loops over the members, by induction on the member list
    have hAll : ∀ (e : Ty) (vs : List Payload) (out : List Value), flatOKAll e vs = true →
        Payload.depthL vs ≤ fuel →
        flatLoop (flattenerFuel E (fuel + 1)) (vs.map (⟨e, ·⟩)) out [] true =
          .ok ⟨out ++ flatAll e vs, [], true⟩ := by
      intro e vs
      induction vs with
      | nil => intro out _ _; simp [flatLoop, flatAll]
      | cons v vs ihv =>
        intro out hok' hd'
        simp only [flatOKAll, Bool.and_eq_true] at hok'
        simp only [Payload.depthL] at hd'
        simp only [List.map_cons, flatAll]
        rw [hstep e v _ out hok'.1 (by omega), ihv _ hok'.2 (by omega)]
        simp
    have hZip : ∀ (ts : List Ty) (vs : List Payload) (out : List Value), flatOKZip ts vs = true →
        Payload.depthL vs ≤ fuel →
        flatLoop (flattenerFuel E (fuel + 1)) (zipTV ts vs) out [] true =
          .ok ⟨out ++ flatZip ts vs, [], true⟩ := by
      intro ts
      induction ts with
      | nil => intro vs out _ _; simp [zipTV, flatLoop, flatZip]
      | cons t' ts iht =>
        intro vs out hok' hd'
        cases vs with
        | nil => simp [zipTV, flatLoop, flatZip]
        | cons v vs =>
          simp only [flatOKZip, Bool.and_eq_true] at hok'
          simp only [Payload.depthL] at hd'
          simp only [zipTV, flatZip]
          rw [hstep t' v _ out hok'.1 (by omega), iht vs _ hok'.2 (by omega)]
          simp
    -- the value itself
    cases t <;> cases p <;> simp [isNest] at hn
    · rename_i e vs
      simp only [flatOK] at hok
      simp only [Payload.depth] at hd
      have hl : Value.length ⟨.list e, .seq vs⟩ = .ok (intVal vs.length) := length_list_known e vs
      have hu : (⟨.list e, .seq vs⟩ : Value).unmark = ⟨.list e, .seq vs⟩ := rfl
      have hm : (⟨.list e, .seq vs⟩ : Value).marks = [] := rfl
      rw [flattenerFuel_succ]
      simp only [hu, hm, List.length_nil, Nat.lt_irrefl, decide_false, Bool.false_eq_true,
        if_false, hl, intVal_isKnown, Bool.not_true, elems_list, hAll e vs [] hok (by omega), flatElem,
        List.nil_append]
    · rename_i ts vs
      simp only [flatOK, Bool.and_eq_true] at hok
      simp only [Payload.depth] at hd
      have hl : Value.length ⟨.tuple ts, .seq vs⟩ = .ok (intVal ts.length) := by
        simp [Value.length, unMarks, Value.isMarked, Payload.isMarked, lengthU]
      have hu : (⟨.tuple ts, .seq vs⟩ : Value).unmark = ⟨.tuple ts, .seq vs⟩ := rfl
      have hm : (⟨.tuple ts, .seq vs⟩ : Value).marks = [] := rfl
      rw [flattenerFuel_succ]
      simp only [hu, hm, List.length_nil, Nat.lt_irrefl, decide_false, Bool.false_eq_true,
        if_false, hl, intVal_isKnown, Bool.not_true, elems_tuple, hZip ts vs [] hok.2 (by omega), flatElem,
        List.nil_append]

/-- the fuel `flattener` starts with is enough -/
theorem flattener_spec (E : Env) (t : Ty) (p : Payload) (hn : isNest t p = true) (hok : flatOK t p = true) :
    flattener E ⟨t, p⟩ = .ok ⟨flatElem t p, [], true⟩ :=
  flattenerFuel_spec E p.depth t p hn hok (Nat.le_refl _)

/-- **flatten** of a non-empty list or tuple: the tuple of the leaves, in order,
each with its own type -/
theorem flattenImpl_spec (E : Env) (t : Ty) (p : Payload) (hn : isNest t p = true) (hok : flatOK t p = true)
    (hne : ∀ n, lengthInt ⟨t, p⟩ = .ok n → n ≠ 0) (retTy : Ty) :
    flattenImpl E [⟨t, p⟩] retTy = .ok (Gocty.tupleVal (flatElem t p)) := by
  have hu : (⟨t, p⟩ : Value).unmark = ⟨t, p⟩ := by
    cases t <;> cases p <;> simp_all [isNest, Value.unmark, Payload.unmark1]
  simp only [flattenImpl, hu, flattener_spec E t p hn hok, Bool.not_true, Bool.false_eq_true, if_false,
    withMarkSets_empty]
  cases hlen : lengthInt ⟨t, p⟩ with
  | ok n =>
    have := hne n hlen
    simp [this]
  | err c => cases t <;> cases p <;> simp_all [isNest, lengthInt, Value.isMarked, Payload.isMarked]
  | panic c => cases t <;> cases p <;> simp_all [isNest, lengthInt, Value.isMarked, Payload.isMarked]
  | unmodelled => cases t <;> cases p <;> simp_all [isNest, lengthInt, Value.isMarked, Payload.isMarked]

/-- an empty list or tuple flattens to the empty tuple -/
theorem flattenImpl_empty (E : Env) (e : Ty) (retTy : Ty) :
    flattenImpl E [⟨.list e, .seq []⟩] retTy = .ok emptyTuple ∧
    flattenImpl E [⟨.tuple [], .seq []⟩] retTy = .ok emptyTuple := by
  constructor <;> rfl


/-- result type of `flatten`: the tuple of the leaves' types -/
theorem flattenType_spec (E : Env) (t : Ty) (p : Payload) (hn : isNest t p = true) (hok : flatOK t p = true)
    (hwk : (⟨t, p⟩ : Value).whollyKnown = true) :
    flattenType E [⟨t, p⟩] = .ok (.tuple ((flatElem t p).map (·.ty))) := by
  have hs : isSeqTy t = true := by cases t <;> cases p <;> simp_all [isNest, isSeqTy]
  simp [flattenType, hwk, hs, flattener_spec E t p hn hok]

/-- the type callback and the result agree -/
theorem flatten_result_type (t : Ty) (p : Payload) :
    (Gocty.tupleVal (flatElem t p)).ty = .tuple ((flatElem t p).map (·.ty)) := by
  simp only [Gocty.tupleVal]
  congr 1
  induction flatElem t p with
  | nil => rfl
  | cons v vs ih => simp [Gocty.tysOf, ih]

end Stdlib
end CtyModel
