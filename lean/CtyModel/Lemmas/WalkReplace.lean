/-
Transform with a callback that replaces the member at one position and leaves
every other member alone: the result is the value with that member replaced
(`replaceAt`), every container on the way rebuilt around it.
-/
import CtyModel.Lemmas.WalkMap
import CtyModel.Lemmas.WalkApply
namespace CtyModel
namespace Walk
open Value

/-! ### callbacks that are the identity below a node -/

/-- the callback returns what it is given at every path below (and at) `path`,
the path of the node `v` -/
def IdOn (cb : TCb) (X : SetOracle) (path : Path) (v : Value) : Prop :=
  ∀ r q, pathAt X v r = some q → ∀ log v', cb log (path ++ q) v' = .ok v'

theorem pathAt_cons {X : SetOracle} {v : Value} {i : Nat} {c : PathStep × Value}
    (hc : (kids X v)[i]? = some c) (r : Pos) :
    pathAt X v (i :: r) = (pathAt X c.2 r).map (c.1 :: ·) := by
  simp only [pathAt, hc]

theorem nodeAt_cons {X : SetOracle} {v : Value} {i : Nat} {c : PathStep × Value}
    (hc : (kids X v)[i]? = some c) (r : Pos) : nodeAt X v (i :: r) = nodeAt X c.2 r := by
  simp only [nodeAt, hc]

theorem IdOn.kid {cb : TCb} {X : SetOracle} {path : Path} {v : Value} (h : IdOn cb X path v)
    {i : Nat} {c : PathStep × Value} (hc : (kids X v)[i]? = some c) :
    IdOn cb X (path ++ [c.1]) c.2 := by
  intro r q hq log v'
  have := h (i :: r) (c.1 :: q) (by rw [pathAt_cons hc, hq]; rfl) log v'
  simpa [List.append_assoc] using this

/-- identity on the subtree: the value comes back, with the identity's events -/
theorem transformFuel_idOn {X : SetOracle} (hX : IterPerm X) {σ : Sched} (hσ : SchedOk σ) (cb : TCb) :
    ∀ (f : Nat) (v : Value), v.v.depth < f → Good X v → ∀ (path : Path), IdOn cb X path v →
      ∀ (log : List Ev),
      transformFuel X σ (postorder cb) f log path v = (log ++ idEvs X σ f path v, .ok v)
  | 0, _, h, _ => by omega
  | f + 1, v, hd, hg => by
    intro path hid log
    have ih : ∀ c ∈ kids X v, ∀ log,
        transformFuel X σ (postorder cb) f log (path ++ [c.1]) c.2 =
          (log ++ idEvs X σ f (path ++ [c.1]) c.2, .ok c.2) := by
      intro c hc log
      obtain ⟨i, hi⟩ := List.getElem?_of_mem hc
      exact transformFuel_idOn hX hσ cb f c.2 (by have := kids_depth_lt hX v c hc; omega)
        (kids_good hX v hg c hc) _ (hid.kid hi) log
    have hen : ∀ l, (postorder cb).enter l path v = .ok v := fun _ => rfl
    have hex : ∀ l, (postorder cb).exit l path v = .ok v := fun l => by
      have := hid [] [] rfl l v
      simpa [postorder] using this
    simp only [transformFuel, hen, idEvs]
    rw [rebuild_id hX hσ _ (idEvs X σ f) v hg path ih]
    simp only [hex]
    simp [List.append_assoc]

/-! ### members of a container are pairwise different -/

theorem ofInt_nat_inj {i j : Nat} (h : Num.ofInt (i : Int) 64 = Num.ofInt (j : Int) 64) : i = j := by
  simp only [Num.ofInt, Num.mk, Int.natAbs_natCast, Num.fin.injEq] at h
  obtain ⟨_, h1, h2, _⟩ := h
  by_cases hi : i = 0
  · by_cases hj : j = 0
    · omega
    · have := (Num.norm_val j 0 hj).2
      rw [← h1, ← h2, hi] at this
      simp [Num.norm, Num.normFuel] at this
      omega
  · by_cases hj : j = 0
    · have := (Num.norm_val i 0 hi).2
      rw [h1, h2, hj] at this
      simp [Num.norm, Num.normFuel] at this
      omega
    · have e1 := (Num.norm_val i 0 hi).2
      have e2 := (Num.norm_val j 0 hj).2
      rw [h1, h2] at e1
      omega

theorem intVal_nat_inj {i j : Nat} (h : intVal (i : Int) = intVal (j : Int)) : i = j := by
  simp only [intVal, numVal, Value.mk.injEq, Payload.n.injEq, true_and] at h
  exact ofInt_nat_inj h

theorem seqKids_steps_ge (e : Ty) : ∀ (i : Nat) (vs : List Payload) (c : PathStep × Value),
    c ∈ seqKids e i vs → ∃ j, i ≤ j ∧ c.1 = .index (intVal (j : Int))
  | _, [], _, h => by simp [seqKids] at h
  | i, v :: vs, c, h => by
    simp only [seqKids, List.mem_cons] at h
    rcases h with rfl | h
    · exact ⟨i, Nat.le_refl _, rfl⟩
    · obtain ⟨j, hj, hc⟩ := seqKids_steps_ge e (i + 1) vs c h
      exact ⟨j, by omega, hc⟩

theorem seqKids_nodup (e : Ty) : ∀ (i : Nat) (vs : List Payload), (seqKids e i vs).Nodup
  | _, [] => by simp [seqKids]
  | i, v :: vs => by
    simp only [seqKids, List.nodup_cons]
    refine ⟨?_, seqKids_nodup e (i + 1) vs⟩
    intro hmem
    obtain ⟨j, hj, hc⟩ := seqKids_steps_ge e (i + 1) vs _ hmem
    simp only [PathStep.index.injEq] at hc
    have := intVal_nat_inj hc
    omega

theorem tupKids_steps_ge : ∀ (i : Nat) (ts : List Ty) (vs : List Payload) (c : PathStep × Value),
    c ∈ tupKids i ts vs → ∃ j, i ≤ j ∧ c.1 = .index (intVal (j : Int))
  | _, [], _, _, h => by simp [tupKids] at h
  | _, _ :: _, [], _, h => by simp [tupKids] at h
  | i, t :: ts, v :: vs, c, h => by
    simp only [tupKids, List.mem_cons] at h
    rcases h with rfl | h
    · exact ⟨i, Nat.le_refl _, rfl⟩
    · obtain ⟨j, hj, hc⟩ := tupKids_steps_ge (i + 1) ts vs c h
      exact ⟨j, by omega, hc⟩

theorem tupKids_nodup : ∀ (i : Nat) (ts : List Ty) (vs : List Payload), (tupKids i ts vs).Nodup
  | _, [], _ => by simp [tupKids]
  | _, _ :: _, [] => by simp [tupKids]
  | i, t :: ts, v :: vs => by
    simp only [tupKids, List.nodup_cons]
    refine ⟨?_, tupKids_nodup (i + 1) ts vs⟩
    intro hmem
    obtain ⟨j, hj, hc⟩ := tupKids_steps_ge (i + 1) ts vs _ hmem
    simp only [PathStep.index.injEq] at hc
    have := intVal_nat_inj hc
    omega

theorem mapKids_step_mem (e : Ty) : ∀ (ks : List String) (vs : List Payload) (c : PathStep × Value),
    c ∈ mapKids e ks vs → ∃ k ∈ ks, c.1 = .index (strVal k)
  | [], _, _, h => by simp [mapKids] at h
  | _ :: _, [], _, h => by simp [mapKids] at h
  | k :: ks, v :: vs, c, h => by
    simp only [mapKids, List.mem_cons] at h
    rcases h with rfl | h
    · exact ⟨k, by simp, rfl⟩
    · obtain ⟨k', hk', hc⟩ := mapKids_step_mem e ks vs c h
      exact ⟨k', List.mem_cons_of_mem _ hk', hc⟩

theorem mapKids_nodup (e : Ty) : ∀ (ks : List String) (vs : List Payload), ks.Nodup →
    (mapKids e ks vs).Nodup
  | [], _, _ => by simp [mapKids]
  | _ :: _, [], _ => by simp [mapKids]
  | k :: ks, v :: vs, hnd => by
    have ⟨hnot, hnd'⟩ := List.nodup_cons.mp hnd
    simp only [mapKids, List.nodup_cons]
    refine ⟨?_, mapKids_nodup e ks vs hnd'⟩
    intro hmem
    obtain ⟨k', hk', hc⟩ := mapKids_step_mem e ks vs _ hmem
    simp only [strVal, PathStep.index.injEq, Value.mk.injEq, Payload.s.injEq, true_and] at hc
    exact hnot (hc ▸ hk')

theorem objKids_step_mem : ∀ (ns : List String) (ts : List Ty) (vs : List Payload)
    (c : PathStep × Value), c ∈ objKids ns ts vs → ∃ n ∈ ns, c.1 = .getAttr n
  | [], _, _, _, h => by simp [objKids] at h
  | _ :: _, [], _, _, h => by simp [objKids] at h
  | _ :: _, _ :: _, [], _, h => by simp [objKids] at h
  | n :: ns, t :: ts, v :: vs, c, h => by
    simp only [objKids, List.mem_cons] at h
    rcases h with rfl | h
    · exact ⟨n, by simp, rfl⟩
    · obtain ⟨n', hn', hc⟩ := objKids_step_mem ns ts vs c h
      exact ⟨n', List.mem_cons_of_mem _ hn', hc⟩

theorem objKids_nodup : ∀ (ns : List String) (ts : List Ty) (vs : List Payload), ns.Nodup →
    (objKids ns ts vs).Nodup
  | [], _, _, _ => by simp [objKids]
  | _ :: _, [], _, _ => by simp [objKids]
  | _ :: _, _ :: _, [], _ => by simp [objKids]
  | n :: ns, t :: ts, v :: vs, hnd => by
    have ⟨hnot, hnd'⟩ := List.nodup_cons.mp hnd
    simp only [objKids, List.nodup_cons]
    refine ⟨?_, objKids_nodup ns ts vs hnd'⟩
    intro hmem
    obtain ⟨n', hn', hc⟩ := objKids_step_mem ns ts vs _ hmem
    simp only [PathStep.getAttr.injEq] at hc
    exact hnot (hc ▸ hn')

/-- the members of a container other than a set are pairwise different (their
steps are) -/
theorem kids_nodup {X : SetOracle} (v : Value) (hs : shapedV v = true) (hset : notSet v.ty = true) :
    (kids X v).Nodup := by
  simp only [kids]
  split
  · exact List.nodup_nil
  · have hsu : shaped v.ty v.v.unmark1 = true := shaped_unmark1 hs
    obtain ⟨t, p⟩ := v
    simp only [Value.unmark]
    cases t <;> (try (simp [notSet] at hset; done)) <;> cases hp : p.unmark1 <;>
      simp only [children, List.nodup_nil] <;> simp only [hp] at hsu
    · exact seqKids_nodup _ _ _
    · simp only [shaped, Bool.and_eq_true, decide_eq_true_eq] at hsu
      exact mapKids_nodup _ _ _ hsu.1.2
    · exact tupKids_nodup _ _ _
    · simp only [shaped, Bool.and_eq_true, decide_eq_true_eq, beq_iff_eq] at hsu
      exact objKids_nodup _ _ _ hsu.1.2

/-! ### the value with one member replaced -/

/-- `v` with the member at position `r` replaced by `x`: every container on the way
is the same container around the changed member -/
def replaceAt (X : SetOracle) : Value → Pos → Value → Value
  | _, [], x => x
  | v, i :: r, x =>
    match (kids X v)[i]? with
    | some c => withKids v (((kids X v).map (·.2)).set i (replaceAt X c.2 r x))
    | none => v

theorem withKids_ty (v : Value) (ws : List Value) : (withKids v ws).ty = v.ty := rfl

theorem replaceAt_ty {X : SetOracle} : ∀ (r : Pos) (v x n : Value), nodeAt X v r = some n →
    x.ty = n.ty → (replaceAt X v r x).ty = v.ty
  | [], v, x, n, hn, hx => by
    simp only [nodeAt, Option.some.injEq] at hn
    simp only [replaceAt, hx, hn]
  | i :: r, v, x, n, hn, hx => by
    simp only [replaceAt]
    split <;> rfl

theorem map_ite_eq_set {α β : Type} [DecidableEq α] : ∀ (l : List α), l.Nodup → ∀ (i : Nat) (a : α),
    l[i]? = some a → ∀ (f : α → β) (b : β),
    l.map (fun c => if c = a then b else f c) = (l.map f).set i b
  | [], _, _, _, h, _, _ => by simp at h
  | c :: l, hnd, 0, a, h, f, b => by
    simp only [List.getElem?_cons_zero, Option.some.injEq] at h
    subst h
    have ⟨hnot, _⟩ := List.nodup_cons.mp hnd
    simp only [List.map_cons, if_true, List.set_cons_zero, List.cons.injEq, true_and]
    apply List.map_congr_left
    intro x hx
    have : x ≠ c := fun h => hnot (h ▸ hx)
    simp [this]
  | c :: l, hnd, i + 1, a, h, f, b => by
    simp only [List.getElem?_cons_succ] at h
    have ⟨hnot, hnd'⟩ := List.nodup_cons.mp hnd
    have hca : c ≠ a := fun hc => hnot (hc ▸ List.mem_of_getElem? h)
    simp only [List.map_cons, hca, if_false, List.set_cons_succ, List.cons.injEq, true_and]
    exact map_ite_eq_set l hnd' i a h f b

open Classical in
/-- **replace one member.**  The callback returns `x` at the path of position `r0`
and what it is given at the path of every other position: the transform returns
the value with that member replaced. -/
theorem transformFuel_replace {X : SetOracle} (hX : IterPerm X) {σ : Sched} (hσ : SchedOk σ)
    (cb : TCb) (x : Value) :
    ∀ (f : Nat) (v : Value), v.v.depth < f → Good X v → ∀ (r0 : Pos) (path : Path) (n : Value),
      nodeAt X v r0 = some n → noSetAt X v r0 = true → x.ty = n.ty →
      (∀ q0, pathAt X v r0 = some q0 → ∀ log v', cb log (path ++ q0) v' = .ok x) →
      (∀ r q, r ≠ r0 → pathAt X v r = some q → ∀ log v', cb log (path ++ q) v' = .ok v') →
      ∃ evs, ∀ log, transformFuel X σ (postorder cb) f log path v =
        (log ++ evs, .ok (replaceAt X v r0 x))
  | 0, _, h, _ => by omega
  | f + 1, v, hd, hg => by
    intro r0 path n hn hns hx hrep hid
    have hen : ∀ l, (postorder cb).enter l path v = .ok v := fun _ => rfl
    cases r0 with
    | nil =>
      -- every member is returned as it is; the callback replaces the rebuilt value
      have ih : ∀ c ∈ kids X v, ∀ log,
          transformFuel X σ (postorder cb) f log (path ++ [c.1]) c.2 =
            (log ++ idEvs X σ f (path ++ [c.1]) c.2, .ok c.2) := by
        intro c hc log
        obtain ⟨i, hi⟩ := List.getElem?_of_mem hc
        refine transformFuel_idOn hX hσ cb f c.2 (by have := kids_depth_lt hX v c hc; omega)
          (kids_good hX v hg c hc) _ ?_ log
        intro r q hq log v'
        have := hid (i :: r) (c.1 :: q) (by simp) (by rw [pathAt_cons hi, hq]; rfl) log v'
        simpa [List.append_assoc] using this
      refine ⟨.enter path v :: (idEvKids (idEvs X σ f) path (ordKids X σ path v) ++ [.exit path v]),
        fun log => ?_⟩
      simp only [transformFuel, hen]
      rw [rebuild_id hX hσ _ (idEvs X σ f) v hg path ih]
      have hex : ∀ l, (postorder cb).exit l path v = .ok x := fun l => by
        have := hrep [] rfl l v
        simpa [postorder] using this
      simp only [hex, replaceAt]
      simp [List.append_assoc]
    | cons i r =>
      simp only [nodeAt, noSetAt, Bool.and_eq_true] at hn hns
      cases hci : (kids X v)[i]? with
      | none => simp [hci] at hn
      | some ci =>
        simp only [hci] at hn hns
        have hcim : ci ∈ kids X v := List.mem_of_getElem? hci
        have hnd := kids_nodup (X := X) v hg.shaped hns.1
        -- the member on the way to the target
        obtain ⟨evi, hevi⟩ := transformFuel_replace hX hσ cb x f ci.2
          (by have := kids_depth_lt hX v ci hcim; omega) (kids_good hX v hg ci hcim) r
          (path ++ [ci.1]) n hn hns.2 hx
          (by
            intro q0 hq0 log v'
            have := hrep (ci.1 :: q0) (by rw [pathAt_cons hci, hq0]; rfl) log v'
            simpa [List.append_assoc] using this)
          (by
            intro r' q hne hq log v'
            have := hid (i :: r') (ci.1 :: q) (by simpa using hne) (by rw [pathAt_cons hci, hq]; rfl) log v'
            simpa [List.append_assoc] using this)
        -- what the recursive call returns for each member, and the events it adds
        let g : PathStep × Value → Value := fun c =>
          if c = ci then replaceAt X ci.2 r x else c.2
        let ev : PathStep × Value → List Ev := fun c =>
          if c = ci then evi else idEvs X σ f (path ++ [c.1]) c.2
        have ih : ∀ c ∈ kids X v, ∀ log,
            transformFuel X σ (postorder cb) f log (path ++ [c.1]) c.2 = (log ++ ev c, .ok (g c)) := by
          intro c hc log
          by_cases hcc : c = ci
          · subst hcc
            simp only [g, ev, if_true]
            exact hevi log
          · simp only [g, ev, hcc, if_false]
            obtain ⟨j, hj⟩ := List.getElem?_of_mem hc
            have hji : j ≠ i := by
              intro h; subst h; rw [hci] at hj; exact hcc (Option.some.inj hj).symm
            refine transformFuel_idOn hX hσ cb f c.2 (by have := kids_depth_lt hX v c hc; omega)
              (kids_good hX v hg c hc) _ ?_ log
            intro r' q hq log v'
            have := hid (j :: r') (c.1 :: q) (by simp [hji]) (by rw [pathAt_cons hj, hq]; rfl) log v'
            simpa [List.append_assoc] using this
        have hty : ∀ c ∈ kids X v, (g c).ty = c.2.ty := by
          intro c _
          by_cases hcc : c = ci
          · subst hcc
            simp only [g, if_true]
            exact replaceAt_ty r c.2 x n hn hx
          · simp only [g, hcc, if_false]
        have hsetv : ∀ e, v.ty = .set e → ∀ c ∈ kids X v, g c = c.2 := by
          intro e he
          rw [he] at hns
          simp [notSet] at hns
        refine ⟨.enter path v :: (mapEvKids ev (ordKids X σ path v) ++
          [.exit path (withKids v ((kids X v).map g))]), fun log => ?_⟩
        simp only [transformFuel, hen]
        rw [rebuild_map hX hσ _ ev g v hg path hty hsetv ih]
        have hex : ∀ l w, (postorder cb).exit l path w = .ok w := fun l w => by
          have := hid [] [] (by simp) rfl l w
          simpa [postorder] using this
        have hmg : (kids X v).map g = ((kids X v).map (·.2)).set i (replaceAt X ci.2 r x) := by
          simp only [g]
          exact map_ite_eq_set (kids X v) hnd i ci hci (fun c => c.2) (replaceAt X ci.2 r x)
        simp only [hex, replaceAt, hci]
        rw [hmg]
        simp [List.append_assoc]

/-! ### the members of a rebuilt container -/

theorem eta_ty {w : Value} {e : Ty} (h : w.ty = e) : (⟨e, w.v⟩ : Value) = w := by
  cases w; simp_all

theorem seqKids_zip (e : Ty) : ∀ (i : Nat) (vs : List Payload) (ws : List Value),
    ws.length = vs.length → (∀ w ∈ ws, w.ty = e) →
    seqKids e i (ws.map (·.v)) = List.zipWith (fun c w => (c.1, w)) (seqKids e i vs) ws
  | _, [], [], _, _ => rfl
  | _, [], _ :: _, h, _ => by simp at h
  | _, _ :: _, [], h, _ => by simp at h
  | i, v :: vs, w :: ws, h, hty => by
    simp only [List.map_cons, seqKids, List.zipWith_cons_cons, eta_ty (hty w (by simp))]
    rw [seqKids_zip e (i + 1) vs ws (by simpa using h) (fun x hx => hty x (List.mem_cons_of_mem _ hx))]

theorem mapKids_zip (e : Ty) : ∀ (ks : List String) (vs : List Payload) (ws : List Value),
    ws.length = vs.length → ks.length = vs.length → (∀ w ∈ ws, w.ty = e) →
    mapKids e ks (ws.map (·.v)) = List.zipWith (fun c w => (c.1, w)) (mapKids e ks vs) ws
  | [], [], [], _, _, _ => rfl
  | [], _ :: _, _, _, h, _ => by simp at h
  | _ :: _, [], _, _, h, _ => by simp at h
  | [], [], _ :: _, h, _, _ => by simp at h
  | _ :: _, _ :: _, [], h, _, _ => by simp at h
  | k :: ks, v :: vs, w :: ws, h, h2, hty => by
    simp only [List.map_cons, mapKids, List.zipWith_cons_cons, eta_ty (hty w (by simp))]
    rw [mapKids_zip e ks vs ws (by simpa using h) (by simpa using h2)
      (fun x hx => hty x (List.mem_cons_of_mem _ hx))]

theorem tupKids_zip : ∀ (i : Nat) (ts : List Ty) (vs : List Payload) (ws : List Value),
    ws.length = vs.length → ts.length = vs.length → ws.map (·.ty) = ts →
    tupKids i ts (ws.map (·.v)) = List.zipWith (fun c w => (c.1, w)) (tupKids i ts vs) ws
  | _, [], [], [], _, _, _ => rfl
  | _, [], _ :: _, _, _, h, _ => by simp at h
  | _, _ :: _, [], _, _, h, _ => by simp at h
  | _, [], [], _ :: _, h, _, _ => by simp at h
  | _, _ :: _, _ :: _, [], h, _, _ => by simp at h
  | i, t :: ts, v :: vs, w :: ws, h, h2, hty => by
    simp only [List.map_cons, List.cons.injEq] at hty
    simp only [List.map_cons, tupKids, List.zipWith_cons_cons, eta_ty hty.1]
    rw [tupKids_zip (i + 1) ts vs ws (by simpa using h) (by simpa using h2) hty.2]

theorem objKids_zip : ∀ (ns : List String) (ts : List Ty) (vs : List Payload) (ws : List Value),
    ws.length = vs.length → ts.length = vs.length → ns.length = ts.length → ws.map (·.ty) = ts →
    objKids ns ts (ws.map (·.v)) = List.zipWith (fun c w => (c.1, w)) (objKids ns ts vs) ws
  | [], [], [], [], _, _, _, _ => rfl
  | [], _ :: _, _, _, _, _, h, _ => by simp at h
  | _ :: _, [], _, _, _, _, h, _ => by simp at h
  | _, [], _ :: _, _, _, h, _, _ => by simp at h
  | _, _ :: _, [], _, _, h, _, _ => by simp at h
  | [], [], [], _ :: _, h, _, _, _ => by simp at h
  | _ :: _, _ :: _, _ :: _, [], h, _, _, _ => by simp at h
  | n :: ns, t :: ts, v :: vs, w :: ws, h, h2, h3, hty => by
    simp only [List.map_cons, List.cons.injEq] at hty
    simp only [List.map_cons, objKids, List.zipWith_cons_cons, eta_ty hty.1]
    rw [objKids_zip ns ts vs ws (by simpa using h) (by simpa using h2) (by simpa using h3) hty.2]

theorem kids_types_list {ws : List Value} {cs : List (PathStep × Value)}
    (hlen : ws.length = cs.length)
    (hty : ∀ (j : Nat) (c : PathStep × Value) (w : Value),
      cs[j]? = some c → ws[j]? = some w → w.ty = c.2.ty) :
    ws.map (·.ty) = (cs.map (·.2)).map (·.ty) := by
  induction cs generalizing ws with
  | nil => cases ws <;> simp_all
  | cons c cs ih =>
    cases ws with
    | nil => simp at hlen
    | cons w ws =>
      simp only [List.map_cons, List.cons.injEq]
      refine ⟨hty 0 c w rfl rfl, ih (by simpa using hlen) ?_⟩
      intro j c' w' hc hw
      exact hty (j + 1) c' w' (by simpa using hc) (by simpa using hw)

/-- the members of `withKids v ws` are the steps of `v`'s members with the values `ws` -/
theorem kids_withKids {X : SetOracle} (v : Value) (hs : shapedV v = true) (hset : notSet v.ty = true)
    (hnull : v.isNull = false) (hknown : v.isKnown = true) (ws : List Value)
    (hlen : ws.length = (kids X v).length)
    (hty : ∀ (j : Nat) (c : PathStep × Value) (w : Value),
      (kids X v)[j]? = some c → ws[j]? = some w → w.ty = c.2.ty) :
    kids X (withKids v ws) = List.zipWith (fun c w => (c.1, w)) (kids X v) ws := by
  have hk : kids X v = children X v.unmark := by simp [kids, hnull, hknown]
  have hraw := raw_of_flags hnull hknown
  have hsu : shaped v.ty v.v.unmark1 = true := shaped_unmark1 hs
  have hmu := shaped_unmark1_notMarked hs
  rw [hk] at hlen hty ⊢
  have htys := kids_types_list hlen hty
  -- the rebuilt value is known and not null, and its raw payload is the rebuilt one
  have hraw' : (withKids v ws).v.unmark1 = replaceRaw v.v.unmark1 (ws.map (·.v)) := by
    simp only [withKids, Value.withMarks, unmark1_withMarks]
    cases hp : v.v.unmark1 <;> simp_all [replaceRaw, Payload.unmark1, Payload.isMarked]
  obtain ⟨t, p⟩ := v
  simp only at hraw hsu hmu hraw'
  have hfinish : ∀ (raw' : Payload), (withKids ⟨t, p⟩ ws).v.unmark1 = raw' →
      raw' ≠ .null → (∀ r, raw' ≠ .unk r) → raw'.isMarked = false →
      kids X (withKids ⟨t, p⟩ ws) = children X ⟨t, raw'⟩ := by
    intro raw' h1 h2 h3 h4
    have hn : (withKids ⟨t, p⟩ ws).isNull = false := by
      show (match (withKids ⟨t, p⟩ ws).v.unmark1 with | .null => true | _ => false) = false
      rw [h1]
      cases raw' <;> first | rfl | exact absurd rfl h2
    have hkn : (withKids ⟨t, p⟩ ws).isKnown = true := by
      show (match (withKids ⟨t, p⟩ ws).v.unmark1 with | .unk _ => false | _ => true) = true
      rw [h1]
      cases raw' <;> first | rfl | exact absurd rfl (h3 _)
    simp only [kids, hn, hkn, Bool.not_true, Bool.or_self, Bool.false_eq_true, if_false, Value.unmark, h1]
    rfl
  cases t with
  | set e => simp [notSet] at hset
  | list e =>
    obtain ⟨vs, hv⟩ := shaped_known_cases hsu hmu hraw.1 hraw.2
    simp only [hv, replaceRaw] at hraw'
    rw [hfinish _ hraw' (by simp) (by simp) rfl]
    simp only [Value.unmark, hv, children] at hlen hty htys ⊢
    have hall : ∀ w ∈ ws, w.ty = e := by
      intro w hw
      obtain ⟨j, hj⟩ := List.getElem?_of_mem hw
      have hjl : j < (seqKids e 0 vs).length := by
        rw [← hlen]; exact (List.getElem?_eq_some_iff.mp hj).1
      have := hty j _ w (List.getElem?_eq_getElem hjl) hj
      rw [this]
      exact (seqKids_info X 0 vs _ (List.getElem_mem hjl)).1
    have hl : ws.length = vs.length := by
      have : (seqKids e 0 vs).length = vs.length := by
        have := congrArg List.length (seqKids_vals e 0 vs); simpa using this
      omega
    exact seqKids_zip e 0 vs ws hl hall
  | map e =>
    obtain ⟨ks, vs, hv⟩ := shaped_known_cases hsu hmu hraw.1 hraw.2
    have hsh := hsu
    rw [hv] at hsh
    simp only [shaped, Bool.and_eq_true, beq_iff_eq] at hsh
    simp only [hv, replaceRaw] at hraw'
    rw [hfinish _ hraw' (by simp) (by simp) rfl]
    simp only [Value.unmark, hv, children] at hlen hty htys ⊢
    have hall : ∀ w ∈ ws, w.ty = e := by
      intro w hw
      obtain ⟨j, hj⟩ := List.getElem?_of_mem hw
      have hjl : j < (mapKids e ks vs).length := by
        rw [← hlen]; exact (List.getElem?_eq_some_iff.mp hj).1
      have := hty j _ w (List.getElem?_eq_getElem hjl) hj
      rw [this]
      exact (mapKids_info X ks vs _ (List.getElem_mem hjl)).1
    have hl : ws.length = vs.length := by
      have : (mapKids e ks vs).length = vs.length := by
        have := congrArg List.length (mapKids_vals e ks vs hsh.1.1); simpa using this
      omega
    exact mapKids_zip e ks vs ws hl hsh.1.1 hall
  | tuple ts =>
    obtain ⟨vs, hv, hlen2⟩ := shaped_known_cases hsu hmu hraw.1 hraw.2
    simp only [hv, replaceRaw] at hraw'
    rw [hfinish _ hraw' (by simp) (by simp) rfl]
    simp only [Value.unmark, hv, children] at hlen hty htys ⊢
    have hl : ws.length = vs.length := by
      have : (tupKids 0 ts vs).length = vs.length := by
        have := congrArg List.length (tupKids_vals 0 ts vs hlen2).2; simpa using this
      omega
    rw [(tupKids_vals 0 ts vs hlen2).1] at htys
    exact tupKids_zip 0 ts vs ws hl hlen2 htys
  | object ns ts os =>
    obtain ⟨vs, hv, h1, h2⟩ := shaped_known_cases hsu hmu hraw.1 hraw.2
    have hsh := hsu
    rw [hv] at hsh
    simp only [shaped, Bool.and_eq_true, beq_iff_eq, decide_eq_true_eq] at hsh
    have htv := hsh.1.1.2
    simp only [hv, replaceRaw] at hraw'
    rw [hfinish _ hraw' (by simp) (by simp) rfl]
    simp only [Value.unmark, hv, children] at hlen hty htys ⊢
    have hl : ws.length = vs.length := by
      have : (objKids ns ts vs).length = vs.length := by
        have := congrArg List.length (objKids_vals ns ts vs h1 htv).2; simpa using this
      omega
    rw [(objKids_vals ns ts vs h1 htv).1] at htys
    exact objKids_zip ns ts vs ws hl htv h1 htys
  | _ =>
    -- primitives: no members
    have hr := replaceRaw_of_prim (ws := ws.map (·.v)) hsu trivial
    rw [hr] at hraw'
    rw [hfinish _ hraw' hraw.1 hraw.2 hmu]
    simp [Value.unmark, children]

theorem zipWith_set_snd {α β : Type} : ∀ (l : List (α × β)) (i : Nat) (a : α × β) (y : β),
    l[i]? = some a →
    List.zipWith (fun c w => (c.1, w)) l ((l.map (·.2)).set i y) = l.set i (a.1, y)
  | [], _, _, _, h => by simp at h
  | c :: l, 0, a, y, h => by
    simp only [List.getElem?_cons_zero, Option.some.injEq] at h
    subst h
    simp only [List.map_cons, List.set_cons_zero, List.zipWith_cons_cons, List.cons.injEq, true_and]
    induction l with
    | nil => rfl
    | cons d l ih => simp [ih]
  | c :: l, i + 1, a, y, h => by
    simp only [List.getElem?_cons_succ] at h
    simp only [List.map_cons, List.set_cons_succ, List.zipWith_cons_cons, List.cons.injEq, true_and]
    exact zipWith_set_snd l i a y h

/-- the members of the value with one member replaced -/
theorem kids_replaceAt {X : SetOracle} (v : Value) (hs : shapedV v = true) (hset : notSet v.ty = true)
    (i : Nat) (r : Pos) (x : Value) (ci : PathStep × Value) (hci : (kids X v)[i]? = some ci)
    (hty : (replaceAt X ci.2 r x).ty = ci.2.ty) :
    kids X (replaceAt X v (i :: r) x) = (kids X v).set i (ci.1, replaceAt X ci.2 r x) := by
  obtain ⟨hnull, hknown, _⟩ := kids_eq_children hci
  simp only [replaceAt, hci]
  rw [kids_withKids v hs hset hnull hknown _ (by simp)]
  · exact zipWith_set_snd (kids X v) i ci _ hci
  · intro j c w hc hw
    rw [List.getElem?_set] at hw
    split at hw
    · rename_i hij
      subst hij
      split at hw
      · simp only [Option.some.injEq] at hw
        rw [hci] at hc
        simp only [Option.some.injEq] at hc
        subst hw hc
        exact hty
      · cases hw
    · simp only [List.getElem?_map, hc, Option.map_some, Option.some.injEq] at hw
      rw [← hw]

/-- **the replaced member is where it was put** -/
theorem nodeAt_replaceAt_self {X : SetOracle} (hX : IterPerm X) : ∀ (r : Pos) (v x n : Value),
    shapedV v = true → nodeAt X v r = some n → noSetAt X v r = true → x.ty = n.ty →
    nodeAt X (replaceAt X v r x) r = some x
  | [], _, _, _, _, _, _, _ => rfl
  | i :: r, v, x, n, hs, hn, hns, hx => by
    simp only [nodeAt, noSetAt, Bool.and_eq_true] at hn hns
    cases hci : (kids X v)[i]? with
    | none => simp [hci] at hn
    | some ci =>
      simp only [hci] at hn hns
      have hcs := kids_shaped hX v hs ci (List.mem_of_getElem? hci)
      have hk := kids_replaceAt v hs hns.1 i r x ci hci (replaceAt_ty r ci.2 x n hn hx)
      have hlt : i < (kids X v).length := (List.getElem?_eq_some_iff.mp hci).1
      simp only [nodeAt, hk, List.getElem?_set, hlt, if_true]
      exact nodeAt_replaceAt_self hX r ci.2 x n hcs hn hns.2 hx

/-- **the other members are undisturbed**: a position that is neither above nor
below the replaced one holds the member it held -/
theorem nodeAt_replaceAt_other {X : SetOracle} (hX : IterPerm X) : ∀ (r0 : Pos) (v x n : Value),
    shapedV v = true → nodeAt X v r0 = some n → noSetAt X v r0 = true → x.ty = n.ty →
    ∀ (r : Pos), ¬ r0 <+: r → ¬ r <+: r0 → nodeAt X (replaceAt X v r0 x) r = nodeAt X v r
  | [], _, _, _, _, _, _, _, r, h, _ => absurd (List.nil_prefix) h
  | i :: r0, v, x, n, hs, hn, hns, hx, r, h1, h2 => by
    cases r with
    | nil => exact absurd (List.nil_prefix) h2
    | cons j r =>
      simp only [nodeAt, noSetAt, Bool.and_eq_true] at hn hns
      cases hci : (kids X v)[i]? with
      | none => simp [hci] at hn
      | some ci =>
        simp only [hci] at hn hns
        have hcs := kids_shaped hX v hs ci (List.mem_of_getElem? hci)
        have hk := kids_replaceAt v hs hns.1 i r0 x ci hci (replaceAt_ty r0 ci.2 x n hn hx)
        have hlt : i < (kids X v).length := (List.getElem?_eq_some_iff.mp hci).1
        simp only [nodeAt, hk, List.getElem?_set]
        by_cases hij : i = j
        · subst hij
          simp only [hlt, if_true, hci]
          refine nodeAt_replaceAt_other hX r0 ci.2 x n hcs hn hns.2 hx r ?_ ?_
          · intro hp; exact h1 (by simpa using hp)
          · intro hp; exact h2 (by simpa using hp)
        · simp only [hij, if_false]

end Walk
end CtyModel
