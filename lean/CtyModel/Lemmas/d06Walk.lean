/-
C06 (production sites), part 2: the values `cty.Transform`,
`cty.TransformWithTransformer`, `Value.UnmarkDeepWithPaths` and
`Value.MarkWithPaths` return are well-formed (`Value.WF`), for ANY callback /
transformer that maps well-formed values to well-formed values.

Side conditions
* `IterPerm X`  — the set-iteration oracle returns a permutation of the stored
  members (what `set.Set.Values` does).
* `SchedOk σ`   — the schedule of `for name := range atys` visits every
  attribute name once (a Go map range does).
* the callback: `cb … v = .ok w → v.WF → w.WF` (its result may have ANY type).
* sets: a set node with members is rebuilt by `SetVal` through the hash oracle
  `X.hash`.  Either the input's type is set-free (`Ty.d06_setFree`; then no law
  about the oracle is needed — `…_setFree` theorems), or the oracle and the
  model's `Equals` satisfy `SetLaws` on well-formed mark-free members:
  `Equivalent` is symmetric and equivalent members hash alike (what
  cty/set/rules.go asks of `Rules`).
-/
import CtyModel.Lemmas.WFCons
import CtyModel.Lemmas.WFSet
import CtyModel.Lemmas.WalkTrans
set_option linter.unusedSimpArgs false
set_option linter.unusedVariables false
namespace CtyModel

/-! does a set type occur anywhere in the type -/
mutual
def Ty.d06_setFree : Ty → Bool
  | .set _ => false
  | .list e | .map e => Ty.d06_setFree e
  | .tuple es => Ty.d06_setFreeL es
  | .object _ ts _ => Ty.d06_setFreeL ts
  | _ => true
def Ty.d06_setFreeL : List Ty → Bool
  | [] => true
  | t :: ts => Ty.d06_setFree t && Ty.d06_setFreeL ts
end

namespace D06Prod
open Walk Value
variable {nfc : String → Bool}

theorem setFreeL_mem : ∀ {ts : List Ty}, Ty.d06_setFreeL ts = true → ∀ t ∈ ts, Ty.d06_setFree t = true
  | [], _, _, h => by cases h
  | t :: ts, hs, x, hx => by
    simp only [Ty.d06_setFreeL, Bool.and_eq_true] at hs
    rcases List.mem_cons.mp hx with rfl | hx
    · exact hs.1
    · exact setFreeL_mem hs.2 x hx

/-! ### `walk.go`'s constructor copies are the constructors of `Gocty.lean` -/

theorem isDyn_eq (t : Ty) : t.isDyn = Gocty.isDynTy t := by cases t <;> rfl

theorem unify_eq : ∀ (vs : List Value) (acc : Ty), unifyElemTy acc vs = Gocty.elemTypeOf acc vs
  | [], _ => rfl
  | v :: vs, acc => by
    simp only [unifyElemTy, Gocty.elemTypeOf, isDyn_eq, unify_eq vs]

theorem payloads_eq : ∀ (vs : List Value), vs.map (·.v) = Gocty.payloads vs
  | [] => rfl
  | v :: vs => by simp [Gocty.payloads, payloads_eq vs]

theorem tysOf_eq : ∀ (vs : List Value), vs.map (·.ty) = Gocty.tysOf vs
  | [] => rfl
  | v :: vs => by simp [Gocty.tysOf, tysOf_eq vs]

theorem listVal_eq (vs : List Value) : Walk.listVal vs = Gocty.listVal vs := by
  simp only [Walk.listVal, Gocty.listVal, unify_eq, payloads_eq]
  split
  · rfl
  · cases Gocty.elemTypeOf .dyn vs <;> rfl

theorem mapVal_eq (ks : List String) (vs : List Value) : Walk.mapVal ks vs = Gocty.mapVal ks vs := by
  simp only [Walk.mapVal, Gocty.mapVal, unify_eq, payloads_eq]
  split
  · rfl
  · cases Gocty.elemTypeOf .dyn vs <;> rfl

theorem tupleVal_eq (vs : List Value) : Walk.tupleVal vs = Gocty.tupleVal vs := by
  simp only [Walk.tupleVal, Gocty.tupleVal, tysOf_eq, payloads_eq]

theorem objectVal_eq (ks : List String) (vs : List Value) : Walk.objectVal ks vs = Gocty.objectVal ks vs := by
  simp only [Walk.objectVal, Gocty.objectVal, tysOf_eq, payloads_eq]


/-! ### the members of a well-formed value are well-formed -/

/-- the invariant carried down the traversal: well-formed and — unless sets are allowed
(`b = true`) — of a set-free type -/
def Inv (nfc : String → Bool) (b : Bool) (v : Value) : Prop :=
  v.WF nfc = true ∧ (b = true ∨ v.ty.d06_setFree = true)

theorem okL_cons {t : Ty} {ts : List Ty} (h : Ty.okL nfc (t :: ts) = true) : t.ok nfc = true ∧ Ty.okL nfc ts = true := by
  simp only [Ty.okL, Ty.ok, Ty.wfL, Ty.hasOptL, Ty.namesAllL, Bool.and_eq_true, Bool.not_eq_true', Bool.or_eq_false_iff] at h ⊢
  simp [h]

theorem allKids_wf {e : Ty} (he : e.ok nfc = true) {vs : List Payload} (hw : Payload.wfAll nfc e vs = true)
    {c : PathStep × Value} (ht : c.2.ty = e) (hm : c.2.v ∈ vs) : c.2.WF nfc = true := by
  simp only [WF, Bool.and_eq_true, ht]
  exact ⟨he, Payload.wfAll_mem hw hm⟩

theorem tupKids_wf : ∀ (i : Nat) (ts : List Ty) (vs : List Payload), Ty.okL nfc ts = true →
    Payload.wfZip nfc ts vs = true → ∀ c ∈ tupKids i ts vs, c.2.WF nfc = true
  | _, [], _, _, _, _, h => by simp [tupKids] at h
  | _, _ :: _, [], _, _, _, h => by simp [tupKids] at h
  | i, t :: ts, v :: vs, ho, hw, c, h => by
    simp only [tupKids, List.mem_cons] at h
    simp only [Payload.wfZip, Bool.and_eq_true] at hw
    have ⟨h0, h1⟩ := okL_cons ho
    rcases h with rfl | h
    · simp [WF, h0, hw.1]
    · exact tupKids_wf (i + 1) ts vs h1 hw.2 c h

theorem objKids_wf : ∀ (ns : List String) (ts : List Ty) (vs : List Payload), Ty.okL nfc ts = true →
    Payload.wfZip nfc ts vs = true → ∀ c ∈ objKids ns ts vs, c.2.WF nfc = true
  | [], _, _, _, _, _, h => by simp [objKids] at h
  | _ :: _, [], _, _, _, _, h => by simp [objKids] at h
  | _ :: _, _ :: _, [], _, _, _, h => by simp [objKids] at h
  | n :: ns, t :: ts, v :: vs, ho, hw, c, h => by
    simp only [objKids, List.mem_cons] at h
    simp only [Payload.wfZip, Bool.and_eq_true] at hw
    have ⟨h0, h1⟩ := okL_cons ho
    rcases h with rfl | h
    · simp [WF, h0, hw.1]
    · exact objKids_wf ns ts vs h1 hw.2 c h

/-- the members `ElementIterator` delivers for a well-formed value are well-formed (and of a
set-free type if the container's type is) -/
theorem children_inv {X : SetOracle} (hX : IterPerm X) {b : Bool} (v : Value) (h : Inv nfc b v)
    (c : PathStep × Value) (hc : c ∈ children X v) : Inv nfc b c.2 := by
  obtain ⟨hw, hb⟩ := h
  obtain ⟨ty, p⟩ := v
  simp only [WF, Bool.and_eq_true] at hw
  obtain ⟨hty, hp⟩ := hw
  cases ty <;> cases p <;> simp only [children, List.not_mem_nil] at hc <;> simp only [Payload.wfP] at hp
  · have hi := (seqKids_info X _ _ c hc).1
    rw [Ty.ok_list] at hty
    refine ⟨allKids_wf hty hp hi (seqKids_mem _ _ _ _ hc), hb.imp id fun hs => ?_⟩
    rw [hi]; simpa [Ty.d06_setFree] using hs
  · have hi := (setKids_info X _ c hc).1
    rw [Ty.ok_set] at hty
    simp only [Bool.and_eq_true] at hp
    refine ⟨allKids_wf hty hp.2 hi ((hX _ _ _).mem_iff.mp (setKids_mem _ _ _ hc)), hb.imp id fun hs => ?_⟩
    simp [Ty.d06_setFree] at hs
  · have hi := (mapKids_info X _ _ c hc).1
    rw [Ty.ok_map] at hty
    simp only [Bool.and_eq_true] at hp
    refine ⟨allKids_wf hty hp.2 hi (mapKids_mem _ _ _ _ hc), hb.imp id fun hs => ?_⟩
    rw [hi]; simpa [Ty.d06_setFree] using hs
  · have hi := (tupKids_info X _ _ _ c hc).1
    rw [Ty.ok_tuple] at hty
    simp only [Bool.and_eq_true] at hp
    refine ⟨tupKids_wf _ _ _ hty hp.2 c hc, hb.imp id fun hs => ?_⟩
    exact setFreeL_mem (by simpa [Ty.d06_setFree] using hs) _ hi
  · have hi := (objKids_info X _ _ _ c hc).1
    simp only [Bool.and_eq_true] at hp
    refine ⟨objKids_wf _ _ _ (Ty.ok_object hty).1 hp.2 c hc, hb.imp id fun hs => ?_⟩
    exact setFreeL_mem (by simpa [Ty.d06_setFree] using hs) _ hi

theorem Inv.unmark {b : Bool} {v : Value} (h : Inv nfc b v) : Inv nfc b v.unmark :=
  ⟨Value.wf_unmark h.1, h.2⟩

/-! ### the element loop -/

theorem transformKids_wf {rec' : TRec} {P Q : Value → Prop}
    (hrec : ∀ log path v log' r, P v → rec' log path v = (log', .ok r) → Q r) :
    ∀ (cs : List (PathStep × Value)) (log : List Ev) (path : Path) (log' : List Ev) (nvs : List Value),
      (∀ c ∈ cs, P c.2) → transformKids rec' log path cs = (log', .ok nvs) →
      nvs.length = cs.length ∧ ∀ w ∈ nvs, Q w
  | [], log, path, log', nvs, _, h => by
    simp only [transformKids, Prod.mk.injEq, Res.ok.injEq] at h
    rw [← h.2]; simp
  | (s, c) :: rest, log, path, log', nvs, hP, h => by
    simp only [transformKids] at h
    cases h1 : rec' log (path ++ [s]) c with
    | mk lg r1 =>
      rw [h1] at h
      cases r1 with
      | ok nv =>
        simp only at h
        cases h2 : transformKids rec' lg path rest with
        | mk lg2 r2 =>
          rw [h2] at h
          cases r2 with
          | ok nvs' =>
            simp only [Prod.mk.injEq, Res.ok.injEq] at h
            obtain ⟨hl, hq⟩ := transformKids_wf hrec rest lg path lg2 nvs' (fun x hx => hP x (by simp [hx])) h2
            rw [← h.2]
            refine ⟨by simp [hl], ?_⟩
            intro w hw
            rcases List.mem_cons.mp hw with rfl | hw
            · exact hrec _ _ _ _ _ (hP (s, c) (by simp)) h1
            · exact hq w hw
          | err _ => simp at h
          | panic _ => simp at h
          | unmodelled => simp at h
      | err _ => simp at h
      | panic _ => simp at h
      | unmodelled => simp at h


/-! ### the object branch: schedule order and back -/

theorem objKids_length : ∀ (ns : List String) (ts : List Ty) (vs : List Payload), ns.length = ts.length →
    ts.length = vs.length → (objKids ns ts vs).length = ns.length
  | [], _, _, _, _ => by simp [objKids]
  | _ :: _, [], _, h, _ => by simp at h
  | _ :: _, _ :: _, [], _, h => by simp at h
  | _ :: ns, _ :: ts, _ :: vs, h1, h2 => by
    simp [objKids, objKids_length ns ts vs (by simpa using h1) (by simpa using h2)]

theorem mapKids_length (e : Ty) : ∀ (ks : List String) (vs : List Payload), ks.length = vs.length →
    (mapKids e ks vs).length = ks.length
  | [], _, _ => by simp [mapKids]
  | _ :: _, [], h => by simp at h
  | _ :: ks, _ :: vs, h => by simp [mapKids, mapKids_length e ks vs (by simpa using h)]

theorem lookupVal_mem {n : String} : ∀ {order : List String} {nvs : List Value} {v : Value},
    lookupVal n order nvs = some v → v ∈ nvs
  | [], _, _, h => by simp [lookupVal] at h
  | _ :: _, [], _, h => by simp [lookupVal] at h
  | k :: ks, w :: ws, v, h => by
    simp only [lookupVal] at h
    split at h
    · simp only [Option.some.injEq] at h; simp [h]
    · exact List.mem_cons_of_mem _ (lookupVal_mem h)

theorem lookupVal_some {n : String} : ∀ {order : List String} {nvs : List Value}, n ∈ order →
    order.length ≤ nvs.length → ∃ v, lookupVal n order nvs = some v
  | [], _, h, _ => by cases h
  | _ :: _, [], _, h => by simp at h
  | k :: ks, w :: ws, hn, hl => by
    simp only [lookupVal]
    by_cases hk : k = n
    · exact ⟨w, by simp [hk]⟩
    · simp only [hk, if_false]
      rcases List.mem_cons.mp hn with rfl | hn
      · exact absurd rfl hk
      · exact lookupVal_some hn (by simpa using hl)

theorem filterMap_length_of_some {α β} {f : α → Option β} : ∀ {l : List α}, (∀ x ∈ l, ∃ y, f x = some y) →
    (l.filterMap f).length = l.length
  | [], _ => rfl
  | a :: l, h => by
    obtain ⟨y, hy⟩ := h a (by simp)
    have ih := filterMap_length_of_some (f := f) (l := l) fun x hx => h x (List.mem_cons_of_mem _ hx)
    simp [List.filterMap_cons, hy, ih]

theorem unsched_spec {ns order : List String} {nvs : List Value} (hp : order.Perm ns)
    (hl : nvs.length = order.length) :
    (unsched ns order nvs).length = ns.length ∧ ∀ w ∈ unsched ns order nvs, w ∈ nvs := by
  constructor
  · exact filterMap_length_of_some fun n hn => lookupVal_some (hp.mem_iff.mpr hn) (by omega)
  · intro w hw
    simp only [unsched, List.mem_filterMap] at hw
    obtain ⟨n, _, h⟩ := hw
    exact lookupVal_mem h

/-! ### `SetVal` as a hypothesis, `transform`'s switch, the recursion -/

/-- `cty.SetVal` (walk.go's use of it, through the oracle `X`) returns a well-formed set for well-formed members -/
def SetValOk (X : SetOracle) (nfc : String → Bool) : Prop :=
  ∀ elems r, (∀ w ∈ elems, w.WF nfc = true) → setVal X elems = .ok r → r.WF nfc = true

theorem map_withMarks_wf {res : Res Value} {marks : List String} {r : Value}
    (h : res.map (·.withMarks marks) = .ok r) (hres : ∀ x, res = .ok x → x.WF nfc = true) : r.WF nfc = true := by
  cases res with
  | ok x => simp only [Res.map, Res.ok.injEq] at h; rw [← h]; exact Value.wf_withMarks _ (hres x rfl)
  | err _ => simp [Res.map] at h
  | panic _ => simp [Res.map] at h
  | unmodelled => simp [Res.map] at h

theorem liftRes_not_ok {α β} {log lg : List Ev} {r : Res α} {x : β} : liftRes log r ≠ (lg, Res.ok x) := by
  cases r <;> simp [liftRes]

theorem raw_map {e : Ty} {p : Payload} (hw : Payload.wfP nfc (.map e) p = true)
    (hnk : ¬ (((⟨.map e, p⟩ : Value).isNull || !(⟨.map e, p⟩ : Value).isKnown) = true)) :
    ∃ ks vs, p.unmark1 = .smap ks vs ∧ ks.length = vs.length ∧ Ty.strictAsc ks = true ∧ ks.all nfc = true := by
  have := (Payload.wfP_unmark1 hw).1
  have hm := (Payload.wfP_unmark1 hw).2
  simp only [Value.isNull, Value.isKnown, Payload.isNull, Payload.isKnown] at hnk
  cases hq : p.unmark1 <;> rw [hq] at this hm hnk <;> simp [Payload.wfP, Payload.isMarked] at this hm hnk
  rename_i ks vs
  exact ⟨ks, vs, rfl, this.1.1.1, this.1.1.2, by simpa using this.1.2⟩

theorem raw_obj {ns : List String} {ts : List Ty} {os : List Bool} {p : Payload}
    (hw : Payload.wfP nfc (.object ns ts os) p = true)
    (hnk : ¬ (((⟨.object ns ts os, p⟩ : Value).isNull || !(⟨.object ns ts os, p⟩ : Value).isKnown) = true)) :
    ∃ vs, p.unmark1 = .smap ns vs ∧ ts.length = vs.length := by
  have := (Payload.wfP_unmark1 hw).1
  have hm := (Payload.wfP_unmark1 hw).2
  simp only [Value.isNull, Value.isKnown, Payload.isNull, Payload.isKnown] at hnk
  cases hq : p.unmark1 <;> rw [hq] at this hm hnk <;> simp [Payload.wfP, Payload.isMarked] at this hm hnk
  rename_i ks vs
  exact ⟨vs, by rw [this.1.1], this.1.2⟩

theorem rebuild_wf {X : SetOracle} (hX : IterPerm X) {σ : Sched} (hσ : SchedOk σ) {b : Bool}
    (hset : b = true → SetValOk X nfc) {rec' : TRec}
    (hrec : ∀ log path v log' r, Inv nfc b v → rec' log path v = (log', .ok r) → r.WF nfc = true)
    (log : List Ev) (path : Path) (val : Value) (log' : List Ev) (r : Value) (hv : Inv nfc b val)
    (h : rebuild X σ rec' log path val = (log', .ok r)) : r.WF nfc = true := by
  have hraw := hv.unmark
  have hkids := children_inv hX val.unmark hraw
  have hself : ∀ {lg : List Ev}, (lg, Res.ok val) = (log', Res.ok r) → r.WF nfc = true := by
    intro lg e
    simp only [Prod.mk.injEq, Res.ok.injEq] at e
    rw [← e.2]; exact hv.1
  unfold rebuild at h
  simp only at h
  split at h
  · exact hself h
  rename_i hnk
  split at h
  · -- list
    split at h
    · exact hself h
    · cases hk : transformKids rec' log path (children X val.unmark) with
      | mk lg rr =>
        rw [hk] at h
        cases rr with
        | ok elems =>
          simp only [Prod.mk.injEq] at h
          obtain ⟨_, hq⟩ := transformKids_wf hrec _ _ _ _ _ hkids hk
          exact map_withMarks_wf h.2 fun x hx => Value.wf_listVal (by rw [← listVal_eq]; exact hx) hq
        | err _ => exact absurd h liftRes_not_ok
        | panic _ => exact absurd h liftRes_not_ok
        | unmodelled => exact absurd h liftRes_not_ok
  · -- set
    rename_i e hty
    split at h
    · exact hself h
    · rename_i hne
      cases hk : transformKids rec' log path (children X val.unmark) with
      | mk lg rr =>
        rw [hk] at h
        cases rr with
        | ok elems =>
          simp only [Prod.mk.injEq] at h
          obtain ⟨_, hq⟩ := transformKids_wf hrec _ _ _ _ _ hkids hk
          rcases hv.2 with hb | hb
          · exact map_withMarks_wf h.2 fun x hx => hset hb elems x hq hx
          · rw [hty] at hb; simp [Ty.d06_setFree] at hb
        | err _ => exact absurd h liftRes_not_ok
        | panic _ => exact absurd h liftRes_not_ok
        | unmodelled => exact absurd h liftRes_not_ok
  · -- tuple
    split at h
    · exact hself h
    · cases hk : transformKids rec' log path (children X val.unmark) with
      | mk lg rr =>
        rw [hk] at h
        cases rr with
        | ok elems =>
          simp only [Prod.mk.injEq, Res.ok.injEq] at h
          obtain ⟨_, hq⟩ := transformKids_wf hrec _ _ _ _ _ hkids hk
          rw [← h.2, tupleVal_eq]
          exact Value.wf_withMarks _ (Value.wf_tupleVal hq)
        | err _ => exact absurd h liftRes_not_ok
        | panic _ => exact absurd h liftRes_not_ok
        | unmodelled => exact absurd h liftRes_not_ok
  · -- map
    rename_i e hty
    split at h
    · exact hself h
    · cases hk : transformKids rec' log path (children X val.unmark) with
      | mk lg rr =>
        rw [hk] at h
        cases rr with
        | ok elems =>
          simp only [Prod.mk.injEq] at h
          obtain ⟨hl, hq'⟩ := transformKids_wf hrec _ _ _ _ _ hkids hk
          refine map_withMarks_wf h.2 fun x hx => ?_
          rw [mapVal_eq] at hx
          -- the raw payload is a map payload with as many keys as members
          obtain ⟨ty, p⟩ := val
          simp only at hty; subst hty
          have hw := hv.1
          simp only [WF, Bool.and_eq_true] at hw
          obtain ⟨ks, vs, hq, hlen, hasc, hnfc⟩ := raw_map hw.2 hnk
          simp only [Value.unmark, hq] at hx hl
          simp only [children] at hl
          rw [mapKids_length e ks vs hlen] at hl
          exact Value.wf_mapVal hx hq' hl.symm hasc hnfc
        | err _ => exact absurd h liftRes_not_ok
        | panic _ => exact absurd h liftRes_not_ok
        | unmodelled => exact absurd h liftRes_not_ok
  · -- object
    rename_i ns ts os hty
    split at h
    · exact hself h
    · obtain ⟨ty, p⟩ := val
      simp only at hty; subst hty
      have hw := hv.1
      simp only [WF, Bool.and_eq_true] at hw
      obtain ⟨hL, hlen, _, hasc, _, hnfc⟩ := Ty.ok_object hw.1
      obtain ⟨vs, hq, hlen2⟩ := raw_obj hw.2 hnk
      have hcs : children X (Value.unmark ⟨.object ns ts os, p⟩) = objKids ns ts vs := by
        simp only [Value.unmark, hq, children]
      rw [hcs] at h hkids
      have hperm := schedKids_perm ts vs (hσ path ns) (Ty.strictAsc_nodup hasc) hlen hlen2
      cases hk : transformKids rec' log path (schedKids (σ path ns) (objKids ns ts vs)) with
      | mk lg rr =>
        rw [hk] at h
        cases rr with
        | ok nvs =>
          simp only [Prod.mk.injEq, Res.ok.injEq] at h
          obtain ⟨hl, hq'⟩ := transformKids_wf hrec _ _ _ _ _
            (fun c hc => hkids c (hperm.mem_iff.mp hc)) hk
          have hlo : nvs.length = (σ path ns).length := by
            rw [hl, hperm.length_eq, objKids_length ns ts vs hlen hlen2, (hσ path ns).length_eq]
          obtain ⟨hul, hum⟩ := unsched_spec (hσ path ns) hlo
          rw [← h.2, objectVal_eq]
          exact Value.wf_withMarks _ (Value.wf_objectVal (fun w hw' => hq' w (hum w hw')) hul.symm hasc hnfc)
        | err _ => exact absurd h liftRes_not_ok
        | panic _ => exact absurd h liftRes_not_ok
        | unmodelled => exact absurd h liftRes_not_ok
  · exact hself h


/-- `transform(path, val, t)` for a transformer whose `Enter` keeps the invariant and whose `Exit`
maps well-formed values to well-formed values -/
theorem transformFuel_wf {X : SetOracle} (hX : IterPerm X) {σ : Sched} (hσ : SchedOk σ) {b : Bool}
    (hset : b = true → SetValOk X nfc) (t : Transformer)
    (henter : ∀ log p v w, Inv nfc b v → t.enter log p v = .ok w → Inv nfc b w)
    (hexit : ∀ log p v w, v.WF nfc = true → t.exit log p v = .ok w → w.WF nfc = true) :
    ∀ (fuel : Nat) (log : List Ev) (path : Path) (v : Value) (log' : List Ev) (r : Value), Inv nfc b v →
      transformFuel X σ t fuel log path v = (log', .ok r) → r.WF nfc = true
  | 0, _, _, _, _, _, _, h => by simp [transformFuel] at h
  | fuel + 1, log, path, v, log', r, hv, h => by
    simp only [transformFuel] at h
    cases he : t.enter log path v with
    | ok val =>
      rw [he] at h
      simp only at h
      cases hr : rebuild X σ (transformFuel X σ t fuel) (log ++ [.enter path v]) path val with
      | mk lg rr =>
        rw [hr] at h
        cases rr with
        | ok newVal =>
          simp only at h
          have hnew : newVal.WF nfc = true :=
            rebuild_wf hX hσ hset (transformFuel_wf hX hσ hset t henter hexit fuel) _ _ _ _ _
              (henter _ _ _ _ hv he) hr
          cases hx : t.exit lg path newVal with
          | ok r' =>
            rw [hx] at h
            simp only [Prod.mk.injEq, Res.ok.injEq] at h
            rw [← h.2]; exact hexit _ _ _ _ hnew hx
          | err _ => rw [hx] at h; simp at h
          | panic _ => rw [hx] at h; simp at h
          | unmodelled => rw [hx] at h; simp at h
        | err _ => simp at h
        | panic _ => simp at h
        | unmodelled => simp at h
    | err _ => rw [he] at h; simp at h
    | panic _ => rw [he] at h; simp at h
    | unmodelled => rw [he] at h; simp at h


/-! ### `SetVal` through the oracle -/

/-- the laws cty/set/rules.go asks of a `Rules` implementation, on well-formed mark-free members of a
legal element type: `Equivalent` is symmetric, and equivalent members hash alike -/
def SetLaws (X : SetOracle) (nfc : String → Bool) : Prop :=
  ∀ (e : Ty) (a b : Payload), e.ok nfc = true → Payload.wfP nfc e a = true → Payload.wfP nfc e b = true →
    a.containsMarked = false → b.containsMarked = false →
    equivP e a b = equivP e b a ∧ (equivP e a b = true → X.hash e a = X.hash e b)

theorem ofBuckets_length : ∀ (bs : List (Int × List Payload)), (ofBuckets bs).1.length = (ofBuckets bs).2.length
  | [] => rfl
  | kv :: bs => by
    have := ofBuckets_length bs
    simp only [ofBuckets, List.flatMap_cons, List.length_append, List.length_map] at this ⊢
    omega

theorem idsAsc_ofBuckets {bs : List (Int × List Payload)} (h : SetImpl.Asc bs) : idsAsc (ofBuckets bs).1 = true := by
  rw [idsAsc_iff]
  simp only [ofBuckets, List.pairwise_flatMap]
  refine ⟨?_, ?_⟩
  · intro kv _
    simp [List.pairwise_map]
    exact List.Pairwise.imp (fun _ => trivial) (List.pairwise_of_forall (R := fun _ _ => True) (fun _ _ => trivial))
  · refine List.Pairwise.imp ?_ h
    intro p q hlt x hx y hy
    simp only [List.mem_map] at hx hy
    obtain ⟨_, _, rfl⟩ := hx
    obtain ⟨_, _, rfl⟩ := hy
    exact Int.le_of_lt hlt

theorem containsMarkedL_of_all : ∀ (l : List Payload), (∀ m ∈ l, m.containsMarked = false) →
    Payload.containsMarkedL l = false
  | [], _ => rfl
  | x :: xs, h => by
    simp [Payload.containsMarkedL, h x (by simp), containsMarkedL_of_all xs fun m hm => h m (by simp [hm])]

theorem wfAll_of_all {e : Ty} : ∀ (l : List Payload), (∀ m ∈ l, Payload.wfP nfc e m = true) →
    Payload.wfAll nfc e l = true
  | [], _ => rfl
  | x :: xs, h => by
    simp [Payload.wfAll, h x (by simp), wfAll_of_all xs fun m hm => h m (by simp [hm])]

/-- `cty.SetVal` as `transform` calls it (members from the callback, hashes from the oracle):
well-formed members give a well-formed set, under the set-rules laws -/
theorem setVal_wf {X : SetOracle} (hlaw : SetLaws X nfc) : SetValOk X nfc := by
  intro elems r hws h
  unfold setVal at h
  split at h
  · cases h
  · simp only at h
    split at h <;> try cases h
    rename_i et he
    split at h
    · cases h
    · simp only [Res.ok.injEq] at h
      subst h
      apply Value.wf_withMarks
      have hus : ∀ u ∈ elems.map Value.unmarkDeep, u.WF nfc = true := by
        intro u hu
        obtain ⟨w, hw, rfl⟩ := List.mem_map.mp hu
        exact Value.wf_unmarkDeep (hws w hw)
      rw [unify_eq] at he
      obtain ⟨hetok, _, hmem⟩ := Value.elemTypeOf_spec (elems.map Value.unmarkDeep) .dyn et he rfl hus
      have hl : ∀ a ∈ (elems.map Value.unmarkDeep).map (·.v),
          Payload.wfP nfc et a = true ∧ a.containsMarked = false := by
        intro a ha
        obtain ⟨u, hu, rfl⟩ := List.mem_map.mp ha
        refine ⟨hmem u hu, ?_⟩
        obtain ⟨w, _, rfl⟩ := List.mem_map.mp hu
        exact Payload.stripMarks_clean _
      have heq : ∀ a b, (setRules X et).equiv a b = equivP et a b := fun _ _ => rfl
      have hsym : ∀ a ∈ (elems.map Value.unmarkDeep).map (·.v), ∀ b ∈ (elems.map Value.unmarkDeep).map (·.v),
          (setRules X et).equiv a b = false → (setRules X et).equiv b a = false := by
        intro a ha b hb hab
        rw [heq] at hab ⊢
        rw [← (hlaw et a b hetok (hl a ha).1 (hl b hb).1 (hl a ha).2 (hl b hb).2).1]; exact hab
      have hcoh : ∀ a ∈ (elems.map Value.unmarkDeep).map (·.v), ∀ b ∈ (elems.map Value.unmarkDeep).map (·.v),
          (setRules X et).equiv a b = true → (setRules X et).hash a = (setRules X et).hash b := by
        intro a ha b hb hab
        rw [heq] at hab
        exact (hlaw et a b hetok (hl a ha).1 (hl b hb).1 (hl a ha).2 (hl b hb).2).2 hab
      have hJ := SetImpl.J_fromList (R := setRules X et) hsym
      have hin := SetImpl.J_inequiv hcoh hJ
      have hval : ∀ m ∈ SetImpl.values (SetImpl.fromList (setRules X et) ((elems.map Value.unmarkDeep).map (·.v))),
          Payload.wfP nfc et m = true ∧ m.containsMarked = false :=
        fun m hm => hl m (SetImpl.J_mem_values hJ hm)
      generalize SetImpl.fromList (setRules X et) ((elems.map Value.unmarkDeep).map (·.v)) = s at hJ hin hval
      have hv2 : (ofBuckets s.buckets).2 = SetImpl.values s := rfl
      simp only [WF, Ty.ok_set, hetok, Payload.wfP, Bool.and_eq_true, Bool.true_and, beq_iff_eq, Bool.not_eq_true']
      refine ⟨⟨⟨⟨ofBuckets_length s.buckets, idsAsc_ofBuckets hJ.asc⟩, ?_⟩, ?_⟩, ?_⟩
      · rw [hv2]; exact containsMarkedL_of_all _ fun m hm => (hval m hm).2
      · rw [hv2, noDup_iff]; exact hin
      · rw [hv2]; exact wfAll_of_all _ fun m hm => (hval m hm).1

theorem inv_of {b : Bool} {v : Value} (hv : v.WF nfc = true) (hb : b = true ∨ v.ty.d06_setFree = true) :
    Inv nfc b v := ⟨hv, hb⟩

theorem snd_eq {α β} {x : α × β} {y : β} (h : x.2 = y) : x = (x.1, y) := by
  cases x; simp only at h; rw [h]

end D06Prod

namespace D06Thm
open Walk Value D06Prod
variable {nfc : String → Bool}

/-- `cty.TransformWithTransformer(val, t)` on a value of a set-free type: whenever it returns a value,
that value is well-formed — for any transformer whose `Enter` returns a well-formed value of the
type it was given and whose `Exit` returns a well-formed value (of any type) when given one. -/
theorem d06_transformWith_wf_setFree {X : SetOracle} (hX : IterPerm X) {σ : Sched} (hσ : SchedOk σ)
    (t : Transformer)
    (henter : ∀ log p v w, v.WF nfc = true → t.enter log p v = .ok w → w.WF nfc = true ∧ w.ty = v.ty)
    (hexit : ∀ log p v w, v.WF nfc = true → t.exit log p v = .ok w → w.WF nfc = true)
    (fuel : Nat) (v r : Value) (hv : v.WF nfc = true) (hs : v.ty.d06_setFree = true)
    (h : (transformWith X σ t fuel v).2 = .ok r) : r.WF nfc = true := by
  refine transformFuel_wf (b := false) hX hσ (fun hb => by cases hb) t ?_ hexit fuel [] [] v _ r
    (inv_of hv (Or.inr hs)) (snd_eq h)
  intro log p v' w hv' he
  obtain ⟨h1, h2⟩ := henter log p v' w hv'.1 he
  exact ⟨h1, hv'.2.imp id fun hs' => by rw [h2]; exact hs'⟩

/-- `cty.TransformWithTransformer(val, t)` on any well-formed value, sets included, when the set rules
are lawful on well-formed members (`SetLaws`): the result is well-formed, for any transformer whose
`Enter` and `Exit` return well-formed values (of any type) when given one. -/
theorem d06_transformWith_wf {X : SetOracle} (hX : IterPerm X) (hlaw : SetLaws X nfc) {σ : Sched} (hσ : SchedOk σ)
    (t : Transformer)
    (henter : ∀ log p v w, v.WF nfc = true → t.enter log p v = .ok w → w.WF nfc = true)
    (hexit : ∀ log p v w, v.WF nfc = true → t.exit log p v = .ok w → w.WF nfc = true)
    (fuel : Nat) (v r : Value) (hv : v.WF nfc = true)
    (h : (transformWith X σ t fuel v).2 = .ok r) : r.WF nfc = true :=
  transformFuel_wf (b := true) hX hσ (fun _ => setVal_wf hlaw) t
    (fun log p v' w hv' he => ⟨henter log p v' w hv'.1 he, Or.inl rfl⟩) hexit fuel [] [] v _ r
    (inv_of hv (Or.inl rfl)) (snd_eq h)

/-- `cty.Transform(val, cb)` on a value of a set-free type: for ANY callback that returns a well-formed
value (of any type) whenever it is given one, the value `Transform` returns is well-formed. -/
theorem d06_transform_wf_setFree {X : SetOracle} (hX : IterPerm X) {σ : Sched} (hσ : SchedOk σ) (cb : TCb)
    (hcb : ∀ log p v w, v.WF nfc = true → cb log p v = .ok w → w.WF nfc = true)
    (v r : Value) (hv : v.WF nfc = true) (hs : v.ty.d06_setFree = true)
    (h : (transform X σ cb v).2 = .ok r) : r.WF nfc = true :=
  d06_transformWith_wf_setFree hX hσ (postorder cb)
    (fun _ _ v' w hv' he => by simp only [postorder, Res.ok.injEq] at he; subst he; exact ⟨hv', rfl⟩)
    hcb _ v r hv hs h

/-- `cty.Transform(val, cb)` on any well-formed value, sets included, under `SetLaws`. -/
theorem d06_transform_wf {X : SetOracle} (hX : IterPerm X) (hlaw : SetLaws X nfc) {σ : Sched} (hσ : SchedOk σ)
    (cb : TCb) (hcb : ∀ log p v w, v.WF nfc = true → cb log p v = .ok w → w.WF nfc = true)
    (v r : Value) (hv : v.WF nfc = true) (h : (transform X σ cb v).2 = .ok r) : r.WF nfc = true :=
  d06_transformWith_wf hX hlaw hσ (postorder cb)
    (fun _ _ v' w hv' he => by simp only [postorder, Res.ok.injEq] at he; subst he; exact hv')
    hcb _ v r hv h

/-- `cty.Transform(val, identity)` under the hypotheses of `transform_id_partial` (C19): the result is
the input itself, hence well-formed — sets included, with `SetsStable` in place of `SetLaws`. -/
theorem d06_transform_id_wf {X : SetOracle} (hX : IterPerm X) {σ : Sched} (hσ : SchedOk σ) (v r : Value)
    (hg : Walk.Good X v) (hv : v.WF nfc = true) (h : (transform X σ idCb v).2 = .ok r) : r.WF nfc = true := by
  rw [transform_id_eq hX hσ v hg] at h
  simp only [Res.ok.injEq] at h
  rw [← h]; exact hv

theorem d06_unmarkT_enter (log : List Ev) (p : Path) (v w : Value) (hv : v.WF nfc = true)
    (he : unmarkT.enter log p v = .ok w) : w.WF nfc = true ∧ w.ty = v.ty := by
  simp only [unmarkT, Res.ok.injEq] at he; subst he
  exact ⟨Value.wf_unmark hv, rfl⟩

theorem d06_unmarkT_exit (log : List Ev) (p : Path) (v w : Value) (hv : v.WF nfc = true)
    (he : unmarkT.exit log p v = .ok w) : w.WF nfc = true := by
  simp only [unmarkT, Res.ok.injEq] at he; subst he; exact hv

/-- `Value.UnmarkDeepWithPaths` (the transformer form of `UnmarkDeep`) on a value of a set-free type:
the value returned is well-formed. -/
theorem d06_unmarkDeepWithPaths_wf_setFree {X : SetOracle} (hX : IterPerm X) {σ : Sched} (hσ : SchedOk σ)
    (v r : Value) (pvm : List PVM) (hv : v.WF nfc = true) (hs : v.ty.d06_setFree = true)
    (h : unmarkDeepWithPaths X σ v = .ok (r, pvm)) : r.WF nfc = true := by
  unfold unmarkDeepWithPaths at h
  cases ht : transformWith X σ unmarkT (v.v.depth + 1) v with
  | mk lg rr =>
    rw [ht] at h
    cases rr with
    | ok r' =>
      simp only [Res.ok.injEq, Prod.mk.injEq] at h
      rw [← h.1]
      exact d06_transformWith_wf_setFree hX hσ unmarkT d06_unmarkT_enter d06_unmarkT_exit _ v r' hv hs
        (by rw [ht])
    | err _ =>
      simp only [Res.ok.injEq, Prod.mk.injEq] at h
      rw [← h.1]; exact Value.wf_unknown rfl
    | panic _ => simp at h
    | unmodelled => simp at h

/-- `Value.UnmarkDeepWithPaths` on any well-formed value, sets included, under `SetLaws`. -/
theorem d06_unmarkDeepWithPaths_wf {X : SetOracle} (hX : IterPerm X) (hlaw : SetLaws X nfc) {σ : Sched}
    (hσ : SchedOk σ) (v r : Value) (pvm : List PVM) (hv : v.WF nfc = true)
    (h : unmarkDeepWithPaths X σ v = .ok (r, pvm)) : r.WF nfc = true := by
  unfold unmarkDeepWithPaths at h
  cases ht : transformWith X σ unmarkT (v.v.depth + 1) v with
  | mk lg rr =>
    rw [ht] at h
    cases rr with
    | ok r' =>
      simp only [Res.ok.injEq, Prod.mk.injEq] at h
      rw [← h.1]
      exact d06_transformWith_wf hX hlaw hσ unmarkT (fun l p a w ha he => (d06_unmarkT_enter l p a w ha he).1)
        d06_unmarkT_exit _ v r' hv (by rw [ht])
    | err _ =>
      simp only [Res.ok.injEq, Prod.mk.injEq] at h
      rw [← h.1]; exact Value.wf_unknown rfl
    | panic _ => simp at h
    | unmodelled => simp at h

theorem d06_markT_exit (X : SetOracle) (pvm : List PVM) (log : List Ev) (p : Path) (v w : Value)
    (hv : v.WF nfc = true) (he : (markT X pvm).exit log p v = .ok w) : w.WF nfc = true := by
  simp only [markT] at he
  cases hf : findPVM X p pvm with
  | ok o =>
    rw [hf] at he
    cases o with
    | some ms => simp only [Res.map, Res.ok.injEq] at he; subst he; exact Value.wf_withMarks _ hv
    | none => simp only [Res.map, Res.ok.injEq] at he; subst he; exact hv
  | err _ => rw [hf] at he; simp [Res.map] at he
  | panic _ => rw [hf] at he; simp [Res.map] at he
  | unmodelled => rw [hf] at he; simp [Res.map] at he

/-- `Value.MarkWithPaths(pvm)` on a value of a set-free type: the value returned is well-formed. -/
theorem d06_markWithPaths_wf_setFree {X : SetOracle} (hX : IterPerm X) {σ : Sched} (hσ : SchedOk σ)
    (v r : Value) (pvm : List PVM) (hv : v.WF nfc = true) (hs : v.ty.d06_setFree = true)
    (h : markWithPaths X σ v pvm = .ok r) : r.WF nfc = true := by
  unfold markWithPaths at h
  cases ht : transformWith X σ (markT X pvm) (v.v.depth + 1) v with
  | mk lg rr =>
    rw [ht] at h
    cases rr with
    | ok r' =>
      simp only [Res.ok.injEq] at h
      rw [← h]
      refine d06_transformWith_wf_setFree hX hσ (markT X pvm) ?_ (d06_markT_exit X pvm) _ v r' hv hs (by rw [ht])
      intro _ _ a w ha he
      simp only [markT, Res.ok.injEq] at he; subst he; exact ⟨ha, rfl⟩
    | err _ =>
      simp only [Res.ok.injEq] at h
      rw [← h]; exact Value.wf_unknown rfl
    | panic _ => simp at h
    | unmodelled => simp at h

/-- `Value.MarkWithPaths(pvm)` on any well-formed value, sets included, under `SetLaws`. -/
theorem d06_markWithPaths_wf {X : SetOracle} (hX : IterPerm X) (hlaw : SetLaws X nfc) {σ : Sched}
    (hσ : SchedOk σ) (v r : Value) (pvm : List PVM) (hv : v.WF nfc = true)
    (h : markWithPaths X σ v pvm = .ok r) : r.WF nfc = true := by
  unfold markWithPaths at h
  cases ht : transformWith X σ (markT X pvm) (v.v.depth + 1) v with
  | mk lg rr =>
    rw [ht] at h
    cases rr with
    | ok r' =>
      simp only [Res.ok.injEq] at h
      rw [← h]
      refine d06_transformWith_wf hX hlaw hσ (markT X pvm) ?_ (d06_markT_exit X pvm) _ v r' hv (by rw [ht])
      intro _ _ a w ha he
      simp only [markT, Res.ok.injEq] at he; subst he; exact ha
    | err _ =>
      simp only [Res.ok.injEq] at h
      rw [← h]; exact Value.wf_unknown rfl
    | panic _ => simp at h
    | unmodelled => simp at h

theorem d06_unmarkDeepT_inv {X : SetOracle} {σ : Sched} {v r : Value} {ms : List String}
    (h : unmarkDeepT X σ v = .ok (r, ms)) : ∃ pvm, unmarkDeepWithPaths X σ v = .ok (r, pvm) := by
  unfold unmarkDeepT at h
  cases hu : unmarkDeepWithPaths X σ v with
  | ok x =>
    rw [hu] at h
    simp only [Res.map, Res.ok.injEq, Prod.mk.injEq] at h
    exact ⟨x.2, by rw [← h.1]⟩
  | err _ => rw [hu] at h; simp [Res.map] at h
  | panic _ => rw [hu] at h; simp [Res.map] at h
  | unmodelled => rw [hu] at h; simp [Res.map] at h

/-- `Value.UnmarkDeep` (by way of the transformer, as marks.go implements it) on a value of a set-free
type: the unmarked value returned is well-formed. -/
theorem d06_unmarkDeepT_wf_setFree {X : SetOracle} (hX : IterPerm X) {σ : Sched} (hσ : SchedOk σ)
    (v r : Value) (ms : List String) (hv : v.WF nfc = true) (hs : v.ty.d06_setFree = true)
    (h : unmarkDeepT X σ v = .ok (r, ms)) : r.WF nfc = true := by
  obtain ⟨pvm, hp⟩ := d06_unmarkDeepT_inv h
  exact d06_unmarkDeepWithPaths_wf_setFree hX hσ v r pvm hv hs hp

/-- `Value.UnmarkDeep` (transformer form) on any well-formed value, sets included, under `SetLaws`. -/
theorem d06_unmarkDeepT_wf {X : SetOracle} (hX : IterPerm X) (hlaw : SetLaws X nfc) {σ : Sched}
    (hσ : SchedOk σ) (v r : Value) (ms : List String) (hv : v.WF nfc = true)
    (h : unmarkDeepT X σ v = .ok (r, ms)) : r.WF nfc = true := by
  obtain ⟨pvm, hp⟩ := d06_unmarkDeepT_inv h
  exact d06_unmarkDeepWithPaths_wf hX hlaw hσ v r pvm hv hp

/-! ### the hypotheses are jointly satisfiable, and the conclusion is not vacuous -/

def d06_wnfc (s : String) : Bool := s != "é"

/-- object { a: list(string) with a marked member, b: number }, itself marked -/
def d06_wv : Value :=
  ⟨.object ["a", "b"] [.list .string, .number] [false, false],
   .marked ["m"] (.smap ["a", "b"] [.seq [.s "x", .marked ["k"] (.s "y")], .n (.fin false 1 0 512)])⟩

/-- a callback that changes types: every string becomes a (marked) bool, everything else gets a mark -/
def d06_wcb : TCb := fun _ _ v =>
  match v.ty with
  | .string => .ok ((⟨.bool, .b true⟩ : Value).withMarks ["s"])
  | _ => .ok (v.withMarks ["z"])

theorem d06_wcb_ok : ∀ log p v w, v.WF d06_wnfc = true → d06_wcb log p v = .ok w → w.WF d06_wnfc = true := by
  intro log p v w hv h
  unfold d06_wcb at h
  split at h
  · simp only [Res.ok.injEq] at h; subst h; exact Value.wf_withMarks _ (by decide)
  · simp only [Res.ok.injEq] at h; subst h; exact Value.wf_withMarks _ hv

example : d06_wv.WF d06_wnfc = true := by decide
example : d06_wv.ty.d06_setFree = true := by decide
example : (transform (SetOracle.storage) Sched.sorted d06_wcb d06_wv).2.isOk = true := by decide
example (r : Value) (h : (transform (SetOracle.storage) Sched.sorted d06_wcb d06_wv).2 = .ok r) :
    r.WF d06_wnfc = true :=
  d06_transform_wf_setFree (iterPerm_storage _) schedOk_sorted d06_wcb d06_wcb_ok _ r (by decide) (by decide) h

end D06Thm
end CtyModel

