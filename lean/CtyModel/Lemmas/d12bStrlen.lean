/-
C12 / d12b: `strlen` end to end, unknown branch included (model: Stdlib/d12bStrlen.lean, tied to
StrlenFunc.Call on unknown arguments by the verb `c12.strlen`).  An unknown string whose refinement carries
the prefix `p` gives an unknown number with the inclusive lower bound "number of grapheme clusters of `p`";
this admits the length of every string the unknown stands for PROVIDED segmentation is monotone on that
prefix — a law of the external library textseg, a hypothesis here (probed by the harness on every pair).
-/
import CtyModel.Lemmas.d12bKnown
import CtyModel.Stdlib.d12bStrlen
import CtyModel.Lemmas.NumOfInt
namespace CtyModel
namespace D12b
open Fn Stdlib C12L Cov

/-- `UnknownVal(Number).Refine().NumberRangeLowerBound(NumberIntVal(k), true).NewValue()` -/
theorem refine_numLower (k : Int) :
    Refine.refine (Value.unknown .number) [.numLower (.known (Num.ofInt k 64)) true] =
      .ok ⟨.number, .unk (.num .u (some ⟨Num.ofInt k 64, true⟩) none)⟩ := by
  have hgt : Refine.gt (Num.ofInt k 64) (.inf false) = false := by
    have := NumCmp.cmp_posInf (Num.ofInt k 64)
    simp only [Refine.gt, decide_eq_false_iff_not]
    omega
  simp [Refine.refine, Refine.init, Value.unknown, Value.unmark, Payload.unmark1, Payload.isMarked, Refine.freshWip,
    Value.marks, Payload.marks1, Res.bind, Refine.run, Refine.step, Refine.Builder.isDyn, Refine.isDynVal, Refine.step1,
    Refine.stepNumLower, Refine.lowerCore, Refine.origRejectsLower, Refine.origUpper, hgt, Refine.lowerTighter?,
    Refine.consistent?, Refine.newValue, Value.isKnown, Payload.isKnown, Rfn.nullness, Value.withMarks, Payload.withMarks,
    unionMarks]

/-- an unknown number with the inclusive lower bound `k` admits the integer `n ≥ k` -/
theorem covers_numLower {k n : Int} (h : k ≤ n) :
    Covers ⟨.number, .unk (.num .u (some ⟨Num.ofInt k 64, true⟩) none)⟩ (Value.intVal n) = true := by
  have a := Num.cmp_ofInt_le (p := 64) (q := 64) h
  have b := NumCmp.cmp_posInf (Num.ofInt n 64)
  simp [Covers, CoversG, Value.intVal, Value.numVal, Ty.matches, Payload.stripMarks, coversP, admits, rfnAdmitsKnown,
    Rfn.nullness, loInside, hiInside, pt, posInfB, a, b]
  decide

/-- **`strlen`** at the level of the callback.  `hlaw`: the segmentation law, for the prefixes the unknown can
carry (byte prefixes of the string, and the empty prefix). -/
theorem strlen_implSound (clusters : String → List String) (s : String) (w : Value)
    (hty : w.ty = .string ∨ (w.ty = .dyn ∧ w.isKnown = false)) (hmw : w.containsMarked = false)
    (hc : CoversX w ⟨.string, .s s⟩ = true)
    (hlaw : ∀ p, (p = "" ∨ Value.hasPrefix s p = true) →
      clusterCount (clusters p) ≤ clusterCount (clusters s)) :
    ImplSoundAt strlenType (strlenImplU clusters) [⟨.string, .s s⟩] [w] := by
  intro rt rt' r ho hw hio hconf hwf' hrwf hrefl
  simp only [strlenType, Res.ok.injEq] at ho hw
  subst ho hw
  have hr : r = Value.intVal (clusterCount (clusters s)) := by
    simp [strlenImplU, Value.isKnown, Payload.isKnown, Payload.unmark1, asString, Value.isMarked, Payload.isMarked,
      Ty.isString] at hio
    exact hio.symm
  subst hr
  by_cases hkw : w.isKnown = true
  · -- a known weakening of a string is the string
    have hts : w.ty = .string := by
      rcases hty with h | h
      · exact h
      · rw [hkw] at h; cases h.2
    have := leaf_eq (o := ⟨.string, .s s⟩) hmw rfl hts hc hkw rfl
    subst this
    exact ⟨_, hio, hconf, hrefl⟩
  · have hkw' : w.isKnown = false := by simpa using hkw
    obtain ⟨wt, wp⟩ := w
    have hwp : ∃ ρ, wp = .unk ρ := by
      cases wp <;> simp_all [Value.isKnown, Payload.isKnown, Payload.unmark1, Value.containsMarked, Payload.containsMarked]
    obtain ⟨ρ, rfl⟩ := hwp
    simp only [strlenImplU, hkw', Bool.not_false, if_true, Refine.range]
    rcases hty with h | h
    · simp only at h
      subst h
      -- the prefix the range reports
      have hpfx : ∃ p, Refine.ValueRange.stringPrefix ⟨.string, if ρ = .unref then .nullable .u else ρ⟩ = .ok p ∧
          (p = "" ∨ Value.hasPrefix s p = true) := by
        simp only [CoversX, CoversG, Bool.and_eq_true] at hc
        have hc2 := hc.2
        simp only [Payload.stripMarks, coversP, admits, Bool.and_eq_true] at hc2
        cases ρ with
        | str n p =>
          simp only [rfnAdmitsKnown] at hc2
          exact ⟨p, by simp [Refine.ValueRange.stringPrefix], Or.inr hc2.2⟩
        | unref => exact ⟨"", by simp [Refine.ValueRange.stringPrefix], Or.inl rfl⟩
        | nullable n => exact ⟨"", by simp [Refine.ValueRange.stringPrefix], Or.inl rfl⟩
        | num n a b => exact ⟨"", by simp [Refine.ValueRange.stringPrefix], Or.inl rfl⟩
        | coll n a b => exact ⟨"", by simp [Refine.ValueRange.stringPrefix], Or.inl rfl⟩
      obtain ⟨p, hp, hpp⟩ := hpfx
      simp only [hp, refine_numLower]
      exact ⟨_, rfl, rfl, covers_numLower (by exact_mod_cast hlaw p hpp)⟩
    · simp only at h
      obtain ⟨h1, _⟩ := h
      subst h1
      simp only
      exact ⟨_, rfl, rfl, unknown_covers_of_matches .number _ rfl⟩

end D12b
end CtyModel
