/-
d18: numbers into every numeric target, behind any number of pointers: `FromCtyValue` of a
number is `fromNum` on the pointer-stripped target with the result wrapped in fresh pointers;
big.Int accepts exactly the whole numbers, big.Float every number (stored as it is).
-/
import CtyModel.Lemmas.GoctyRT
namespace CtyModel
namespace Gocty

/-- `n` pointer levels around a Go type -/
def ptrN : Nat → GoTy → GoTy
  | 0, T => T
  | n + 1, T => .ptr (ptrN n T)

theorem ptrN_base : ∀ (n : Nat) (T : GoTy), (ptrN n T).base = T.base
  | 0, _ => rfl
  | n + 1, T => by simp [ptrN, GoTy.base, ptrN_base n T]

theorem ptrN_depth : ∀ (n : Nat) (T : GoTy), (ptrN n T).depth = n + T.depth
  | 0, _ => by simp [ptrN]
  | n + 1, T => by simp [ptrN, GoTy.depth, ptrN_depth n T]; omega

/-- a known, unmarked number into any target that is not a `cty.Value` -/
theorem fromCtyP_number (S : Sched) (x : Num) (T : GoTy) (h : T.base.isCval = false) :
    fromCtyP S [] .number (.n x) T = mapRes (wrapPtr T.depth) (fromNum x T.base) := by
  unfold fromCtyP
  simp [h]

theorem wrapPtr_inj : ∀ (n : Nat) (a b : GoVal), wrapPtr n a = wrapPtr n b → a = b
  | 0, _, _, h => h
  | n + 1, a, b, h => by
    simp only [wrapPtr, GoVal.ptr.injEq] at h
    exact wrapPtr_inj n a b h

/-- scalar numeric targets (no pointer inside) -/
def isNumTarget : GoTy → Bool
  | .int _ _ | .float _ | .bigInt | .bigFloat => true
  | _ => false

theorem fromCtyP_number_ptrN (S : Sched) (x : Num) (n : Nat) (T : GoTy) (hT : isNumTarget T = true) :
    fromCtyP S [] .number (.n x) (ptrN n T) = mapRes (wrapPtr n) (fromNum x T) := by
  have hb : T.base = T := by cases T <;> simp_all [isNumTarget, GoTy.base]
  have hd : T.depth = 0 := by cases T <;> simp_all [isNumTarget, GoTy.depth]
  have hc : T.isCval = false := by cases T <;> simp_all [isNumTarget, GoTy.isCval]
  rw [fromCtyP_number S x (ptrN n T) (by rw [ptrN_base, hb]; exact hc), ptrN_base, ptrN_depth, hb, hd]
  rfl

/-- big.Int: exactly the whole numbers, stored exactly -/
theorem fromNum_bigInt_ok_iff (x : Num) (hx : normalNum x = true) (g : GoVal) :
    fromNum x .bigInt = .ok g ↔ ∃ k : Int, IsTheInt x k ∧ g = .bigInt k := by
  simp only [fromNum]
  cases h : x.toInt? with
  | none =>
    simp only []
    refine ⟨fun h' => (by cases h'), ?_⟩
    rintro ⟨k, hk, _⟩
    rw [(toInt?_iff x hx k).mpr hk] at h; cases h
  | some k =>
    simp only [Res.ok.injEq]
    have hk := (toInt?_iff x hx k).mp h
    constructor
    · rintro rfl; exact ⟨k, hk, rfl⟩
    · rintro ⟨k', hk', rfl⟩
      have := (toInt?_iff x hx k').mpr hk'
      rw [h] at this; cases this; rfl

theorem fromNum_bigInt_err (x : Num) (hx : normalNum x = true) (h : ¬ ∃ k : Int, IsTheInt x k) :
    fromNum x .bigInt = .err "value must be a whole number" := by
  simp only [fromNum]
  cases h' : x.toInt? with
  | none => rfl
  | some k => exact absurd ⟨k, (toInt?_iff x hx k).mp h'⟩ h

end Gocty
end CtyModel
