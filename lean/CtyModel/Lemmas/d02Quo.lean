/-
C02, division: `Num.quo` (long division with a sticky bit, then one rounding) is
the nearest-even rounding of the exact rational quotient at precision
`max pa pb`.  `RoundQ N D p q k`: `q·2^k` is the nearest-even rounding of the
positive rational `N/D` to exactly `p` significant bits (cross-multiplied by `D`,
no `Rat`): within half a unit of the last place, ties to even, `2^(p-1) ≤ q ≤ 2^p`.
-/
import CtyModel.Lemmas.d02Round
namespace CtyModel
namespace D02
open Num NumCmp

/-- `q·2^k` is the nearest-even rounding of `N/D` to exactly `p` significant bits -/
structure RoundQ (N D p q k : Nat) : Prop where
  lo : 2 * (q * 2 ^ k) * D ≤ 2 * N + 2 ^ k * D
  hi : 2 * N ≤ 2 * (q * 2 ^ k) * D + 2 ^ k * D
  tie : (2 * (q * 2 ^ k) * D = 2 * N + 2 ^ k * D ∨ 2 * N = 2 * (q * 2 ^ k) * D + 2 ^ k * D) → q % 2 = 0
  fits : q ≤ 2 ^ p
  full : 2 ^ (p - 1) ≤ q

/-- the sticky-bit trick: rounding `2·⌊n/d⌋ + [d ∤ n]` at a position at least two
bits above the sticky bit rounds the exact quotient `2n/d` correctly -/
theorem sticky_round (n d p q k : Nat) (hd : 0 < d) (hk : 2 ≤ k)
    (h : RoundNE (2 * (n / d) + (if n % d = 0 then 0 else 1)) p q k) : RoundQ (2 * n) d p q k := by
  obtain ⟨_, hlo, hhi, htie, hfits, hfull⟩ := h
  have hdm := Nat.div_add_mod n d
  have hr := Nat.mod_lt n hd
  generalize n / d = q0 at *
  generalize n % d = r0 at *
  have hK : 2 ^ k = 4 * 2 ^ (k - 2) := by
    have : k = (k - 2) + 2 := by omega
    rw [this, Nat.pow_add]; simp; omega
  generalize 2 ^ (k - 2) = K4 at *
  have hq4 : q * 2 ^ k = 4 * (q * K4) := by rw [hK, Nat.mul_left_comm]
  rw [hq4, hK] at hlo hhi htie
  generalize q * K4 = t at *
  -- the products with d, as atoms
  have e1 : 2 * (q * 2 ^ k) * d = 8 * (t * d) := by rw [hq4, ← Nat.mul_assoc, Nat.mul_assoc]
  have e2 : 2 ^ k * d = 4 * (K4 * d) := by rw [hK, Nat.mul_assoc]
  have e3 : q0 * d = d * q0 := Nat.mul_comm _ _
  by_cases h0 : r0 = 0
  · simp only [h0, if_true, Nat.add_zero] at hlo hhi htie hdm
    have a1 : (2 * t) * d ≤ (q0 + K4) * d := Nat.mul_le_mul_right d (by omega)
    have a2 : q0 * d ≤ (2 * t + K4) * d := Nat.mul_le_mul_right d (by omega)
    rw [Nat.add_mul, Nat.mul_assoc] at a1
    rw [Nat.add_mul, Nat.mul_assoc] at a2
    refine ⟨by rw [e1, e2]; omega, by rw [e1, e2]; omega, ?_, hfits, hfull (by omega)⟩
    rw [e1, e2]
    rintro (ht | ht)
    · apply htie; left
      have : (2 * t) * d = (q0 + K4) * d := by rw [Nat.add_mul, Nat.mul_assoc]; omega
      have := Nat.eq_of_mul_eq_mul_right hd this
      omega
    · apply htie; right
      have : q0 * d = (2 * t + K4) * d := by rw [Nat.add_mul, Nat.mul_assoc]; omega
      have := Nat.eq_of_mul_eq_mul_right hd this
      omega
  · simp only [h0, if_false] at hlo hhi htie
    have a1 : (2 * t) * d ≤ (q0 + K4) * d := Nat.mul_le_mul_right d (by omega)
    have a2 : (q0 + 1) * d ≤ (2 * t + K4) * d := Nat.mul_le_mul_right d (by omega)
    rw [Nat.add_mul, Nat.mul_assoc] at a1
    rw [Nat.add_mul, Nat.add_mul, Nat.mul_assoc, Nat.one_mul] at a2
    refine ⟨by rw [e1, e2]; omega, by rw [e1, e2]; omega, ?_, hfits, hfull (by omega)⟩
    rw [e1, e2]
    rintro (ht | ht) <;> omega

/-- the mantissa handed to the final rounding has at least `p + 3` bits -/
theorem quo_m2_bits (ma mb p : Nat) (ha : ma ≠ 0) (hb : mb ≠ 0) :
    p + 3 ≤ bitlen (2 * ((ma <<< ((p + 3 + bitlen mb) - bitlen ma)) / mb) +
      (if (ma <<< ((p + 3 + bitlen mb) - bitlen ma)) % mb = 0 then 0 else 1)) := by
  generalize hs : (p + 3 + bitlen mb) - bitlen ma = s
  rw [Nat.shiftLeft_eq]
  have h1 : 2 ^ (bitlen ma - 1) ≤ ma := two_pow_bitlen_le ha
  have h2 : mb < 2 ^ bitlen mb := lt_two_pow_bitlen mb
  have hbp := bitlen_pos ha
  have h3 : 2 ^ (p + 2 + bitlen mb) ≤ ma * 2 ^ s := by
    have : 2 ^ (p + 2 + bitlen mb) ≤ 2 ^ (bitlen ma - 1 + s) := Nat.pow_le_pow_right (by decide) (by omega)
    rw [Nat.pow_add 2 (bitlen ma - 1) s] at this
    exact Nat.le_trans this (Nat.mul_le_mul_right _ h1)
  have h4 : 2 ^ (p + 1) ≤ ma * 2 ^ s / mb := by
    rw [Nat.le_div_iff_mul_le (by omega)]
    have : 2 ^ (p + 1) * mb ≤ 2 ^ (p + 1) * 2 ^ bitlen mb := Nat.mul_le_mul_left _ (Nat.le_of_lt h2)
    rw [← Nat.pow_add] at this
    have h5 : 2 ^ (p + 1 + bitlen mb) ≤ 2 ^ (p + 2 + bitlen mb) := Nat.pow_le_pow_right (by decide) (by omega)
    omega
  generalize ma * 2 ^ s / mb = q0 at *
  have h6 : 2 ^ (p + 2) ≤ 2 * q0 + (if ma * 2 ^ s % mb = 0 then 0 else 1) := by
    rw [Nat.pow_succ]; omega
  apply Nat.lt_of_not_le
  intro hle
  have h7 : bitlen (2 * q0 + (if ma * 2 ^ s % mb = 0 then 0 else 1)) ≤ p + 2 := by omega
  rw [bitlen_le_iff] at h7
  omega

/-- DIVIDE, finite non-zero operands: the result is the nearest-even rounding of the
exact quotient `(ma·2^ea)/(mb·2^eb)` at precision `max pa pb`.  The quotient is
written `(2·ma·2^s / mb) · 2^(ea−eb−s−1)` for the scaling `s` the division used. -/
theorem quo_fin_rounds (na nb : Bool) (ma mb : Nat) (ea eb : Int) (pa pb : Nat)
    (hp : 0 < max pa pb) (ha : ma ≠ 0) (hb : mb ≠ 0) :
    ∃ (c : Num) (s k q : Nat), Num.quo (.fin na ma ea pa) (.fin nb mb eb pb) = .ok c ∧
      c.prec = max pa pb ∧
      Exact c (sgnm (na != nb) q) (ea - eb - (s : Int) - 1 + (k : Int)) ∧
      RoundQ (2 * (ma * 2 ^ s)) mb (max pa pb) q k := by
  generalize hs : (max pa pb + 3 + bitlen mb) - bitlen ma = s
  have hbits := quo_m2_bits ma mb (max pa pb) ha hb
  rw [hs, Nat.shiftLeft_eq] at hbits
  have hq : Num.quo (.fin na ma ea pa) (.fin nb mb eb pb) =
      .ok (round (na != nb) (2 * ((ma * 2 ^ s) / mb) + (if (ma * 2 ^ s) % mb = 0 then 0 else 1))
        (ea - eb - (s : Int) - 1) (max pa pb)) := by
    simp only [Num.quo, hb, ha, if_false, hs, Nat.shiftLeft_eq]
  generalize hm2 : 2 * ((ma * 2 ^ s) / mb) + (if (ma * 2 ^ s) % mb = 0 then 0 else 1) = m2 at hbits hq
  obtain ⟨q, h1, h2, h3⟩ := round_roundNE (na != nb) m2 (ea - eb - (s : Int) - 1) (max pa pb) hp
  refine ⟨_, s, bitlen m2 - max pa pb, q, hq, h3, h1, ?_⟩
  subst hm2
  exact sticky_round (ma * 2 ^ s) mb (max pa pb) q _ (by omega) (by omega) h2

/-- DIVIDE by zero: the documented signed infinity; 0/0 is the NaN panic -/
theorem quo_zero (na nb : Bool) (ma : Nat) (ea eb : Int) (pa pb : Nat) :
    Num.quo (.fin na ma ea pa) (.fin nb 0 eb pb) =
      if ma = 0 then .panic "ErrNaN" else .ok (.inf (na != nb)) := by
  simp [Num.quo]

/-- a zero dividend gives a zero of precision `max pa pb` with the product sign -/
theorem quo_zero_dividend (na nb : Bool) (mb : Nat) (ea eb : Int) (pa pb : Nat) (hb : mb ≠ 0) :
    Num.quo (.fin na 0 ea pa) (.fin nb mb eb pb) = .ok (.fin (na != nb) 0 0 (max pa pb)) := by
  simp [Num.quo, hb]

/-- infinities in a division -/
theorem quo_inf (a b : Num) :
    (∀ na nb, a = .inf na → b = .inf nb → Num.quo a b = .panic "ErrNaN") ∧
    (∀ na nb mb eb pb, a = .inf na → b = .fin nb mb eb pb → Num.quo a b = .ok (.inf (na != nb))) ∧
    (∀ na ma ea pa nb, a = .fin na ma ea pa → b = .inf nb → Num.quo a b = .ok (.fin (na != nb) 0 0 pa)) := by
  refine ⟨?_, ?_, ?_⟩ <;> intros <;> subst_vars <;> rfl

end D02
end CtyModel
