/-
d18: the shape clause for objects.  `fromCtyObject` accepts an object exactly when no attribute of
a field that can not be nil is missing, every attribute has a tagged field, and every attribute
decodes; an attribute without a tagged field ("stray") or a missing required one is refused
with an error — never silently dropped.
-/
import CtyModel.Lemmas.d18Total
import CtyModel.Lemmas.GoctyStruct
namespace CtyModel
namespace Gocty

theorem allOk_eq_map {α} : ∀ (rs : List (Res α)), allOk rs = true → rs = (okVals rs).map Res.ok
  | [], _ => rfl
  | .ok a :: rs, h => by
    simp only [allOk] at h
    simp only [okVals, List.map_cons]
    rw [← allOk_eq_map rs h]
  | .err _ :: _, h | .panic _ :: _, h | .unmodelled :: _, h => by simp [allOk] at h

/-- the attribute loop succeeds iff every attribute does — under every schedule -/
theorem combSched_ok_iff {α} (order names : List String) (rs : List (Res α)) (xs : List α) :
    combSched order names rs = .ok xs ↔ rs = xs.map Res.ok := by
  constructor
  · intro h
    have hc := cls_combSched order names rs
    rw [h] at hc
    by_cases hu : anyUnmodelled rs = true
    · simp [hu, cls] at hc
    · simp only [hu, Bool.false_eq_true, if_false] at hc
      by_cases ha : allOk rs = true
      · simp only [ha, if_true, cls, Cls.ok.injEq] at hc
        rw [hc]; exact allOk_eq_map rs ha
      · simp [ha, cls] at hc
  · rintro rfl; exact combSched_map_ok order names xs

/-- `fromCtyObject` into a struct (behind any number of pointers) -/
theorem fromCtyP_object_ok_iff (S : Sched) (names : List String) (atys : List Ty) (opt : List Bool)
    (cs : List Payload) (T : GoTy) (tags : List String) (tys : List GoTy) (hT : T.base = .struct tags tys) (g : GoVal) :
    fromCtyP S [] (.object names atys opt) (.smap names cs) T = .ok g ↔
      missingRequired names (effTags tags) tys = false ∧
      ∃ gs, fromCtyA S.next [] names atys cs (effTags tags) tys = gs.map Res.ok ∧
        g = wrapPtr T.depth (.struct tags (assemble names gs (effTags tags) tys)) := by
  unfold fromCtyP
  simp only [hT, GoTy.isCval, Bool.false_eq_true, if_false, bne_self_eq_false]
  cases hm : missingRequired names (effTags tags) tys
  · simp only [Bool.false_eq_true, if_false, true_and, mapRes_ok_iff, combSched_ok_iff]
  · simp

/-- an attribute that no tagged field carries yields an error in the loop -/
theorem fromCtyA_stray (S : Sched) (ms : List String) (k : String) (tags : List String) (tys : List GoTy)
    (hk : lookupTag k tags tys = none) : ∀ (names : List String) (atys : List Ty) (cs : List Payload),
    k ∈ names → names.length ≤ atys.length → names.length ≤ cs.length →
    Res.err "unsupported attribute" ∈ fromCtyA S ms names atys cs tags tys
  | [], _, _, h, _, _ => by simp at h
  | n :: names, [], _, _, h, _ => by simp at h
  | n :: names, _ :: _, [], _, _, h => by simp at h
  | n :: names, aty :: atys, c :: cs, h, h1, h2 => by
    simp only [fromCtyA, List.mem_cons]
    rcases List.mem_cons.mp h with rfl | h
    · left; rw [hk]
    · right
      exact fromCtyA_stray S ms k tags tys hk names atys cs h (by simpa using h1) (by simpa using h2)

theorem modelledZ_length : ∀ (ts : List Ty) (cs : List Payload), modelledZ ts cs = true → ts.length = cs.length
  | [], [], _ => rfl
  | [], _ :: _, h => by simp [modelledZ] at h
  | _ :: _, [], h => by simp [modelledZ] at h
  | t :: ts, c :: cs, h => by
    simp only [modelledZ, Bool.and_eq_true] at h
    simp [modelledZ_length ts cs h.2]

/-- a stray attribute is refused: an error under every schedule, not a silent drop -/
theorem fromCtyP_object_stray (S : Sched) (names : List String) (atys : List Ty) (opt : List Bool)
    (cs : List Payload) (T : GoTy) (tags : List String) (tys : List GoTy) (hT : T.base = .struct tags tys)
    (hm : modelledZ atys cs = true) (hl : names.length = atys.length)
    (k : String) (hk : k ∈ names) (hs : lookupTag k (effTags tags) tys = none) :
    ∃ c, fromCtyP S [] (.object names atys opt) (.smap names cs) T = .err c := by
  have htot := fromCtyP_total S (.object names atys opt) (.smap names cs) T (by simp [modelled, hm])
  rcases isOkOrErr_cases htot with ⟨g, hg⟩ | hc
  · exfalso
    obtain ⟨_, gs, h1, _⟩ := (fromCtyP_object_ok_iff S names atys opt cs T tags tys hT g).mp hg
    have := fromCtyA_stray S.next [] k (effTags tags) tys hs names atys cs hk (by omega)
      (by rw [hl, modelledZ_length atys cs hm]; exact Nat.le_refl _)
    rw [h1] at this
    obtain ⟨a, _, ha⟩ := List.mem_map.mp this
    cases ha
  · exact hc

/-- a missing attribute whose field can not be nil is refused -/
theorem fromCtyP_object_missing (S : Sched) (names : List String) (atys : List Ty) (opt : List Bool)
    (cs : List Payload) (T : GoTy) (tags : List String) (tys : List GoTy) (hT : T.base = .struct tags tys)
    (hm : missingRequired names (effTags tags) tys = true) :
    fromCtyP S [] (.object names atys opt) (.smap names cs) T = .err "missing required attribute" := by
  unfold fromCtyP
  simp [hT, GoTy.isCval, hm]

end Gocty
end CtyModel
