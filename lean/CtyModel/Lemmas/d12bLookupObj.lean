/-
C12 / d12b: `lookup` on an OBJECT first argument: the `Type` callback reads the attribute's type off
`GetAttr` of the value, which depends on the object TYPE only; the rest is as for maps (d12bLookup.lean).
-/
import CtyModel.Lemmas.d12bIndex
namespace CtyModel
namespace D12b
open Fn Stdlib C12L Cov

theorem getAttr_clean {v : Value} (hv : v.containsMarked = false) (name : String) :
    Value.getAttr v name = Value.getAttrU v name := by
  simp [Value.getAttr, clean_not_marked hv]

/-- `GetAttr` of a weakening (same object type) of a known object answers, with the attribute's type -/
theorem getAttr_ty_weaken {w o r : Value} {name : String} (hmw : w.containsMarked = false) (hmo : o.containsMarked = false)
    (hty : w.ty = o.ty) (hc : CoversX w o = true) (h : Value.getAttr o name = .ok r) :
    ∃ r', Value.getAttr w name = .ok r' ∧ r'.ty = r.ty := by
  rw [getAttr_clean hmo] at h
  rw [getAttr_clean hmw]
  obtain ⟨wt, wp⟩ := w
  obtain ⟨ot, op⟩ := o
  simp only at hty
  subst hty
  simp only [CoversX, CoversG, Bool.and_eq_true] at hc
  have h1 := stripMarks_clean' wp hmw
  have h2 := stripMarks_clean' op hmo
  simp only [h1, h2] at hc
  have hc2 := hc.2
  unfold Value.getAttrU at h ⊢
  simp only at h ⊢
  split at h
  · rename_i hd
    simp only [hd, if_true]
    cases h
    exact ⟨_, rfl, rfl⟩
  · rename_i hd
    simp only [hd, if_false]
    cases wt <;> simp only at h ⊢ <;> try (cases h; done)
    rename_i ns ts os
    cases hf : Ty.find name ns ts os with
    | none => rw [hf] at h; cases h
    | some p =>
      obtain ⟨aty, b⟩ := p
      rw [hf] at h
      simp only at h ⊢
      by_cases hkw : (⟨.object ns ts os, wp⟩ : Value).isKnown = true
      · simp only [hkw, Bool.not_true, Bool.false_eq_true, if_false]
        split at h
        · cases h
          -- concrete unknown, weakened known: impossible
          rename_i hko
          exfalso
          cases wp <;> cases op <;>
            simp_all [coversP, Value.isKnown, Payload.isKnown, Payload.unmark1, Value.containsMarked, Payload.containsMarked, admits]
        · cases op <;> simp only at h <;> try (cases h; done)
          rename_i ks vs
          cases wp <;> simp [coversP, Value.isKnown, Payload.isKnown, Payload.unmark1, Value.containsMarked,
            Payload.containsMarked] at hc2 hkw hmw
          rename_i ks' ws
          have hr : r.ty = aty := by
            split at h <;> (cases h; rfl)
          simp only
          split
          · exact ⟨_, rfl, hr.symm⟩
          · exact ⟨_, rfl, hr.symm⟩
      · simp only [hkw, Bool.not_false, if_true]
        have hr : r.ty = aty := by
          split at h
          · cases h; rfl
          · split at h
            · split at h <;> (cases h; rfl)
            · cases h
        exact ⟨_, rfl, hr.symm⟩

/-- the `Type` callback on an object, same key: the same answer for a weakening of the object and of the default -/
theorem lookupType_obj_eq (E : Env) {om wm k od wd : Value} {ns : List String} {ts : List Ty} {os : List Bool} {t : Ty}
    (hobj : om.ty = .object ns ts os) (htm : wm.ty = om.ty) (htd : wd.ty = od.ty)
    (hmom : om.containsMarked = false) (hmwm : wm.containsMarked = false) (hcm : CoversX wm om = true)
    (h : lookupType E [om, k, od] = .ok t) : lookupType E [wm, k, wd] = .ok t := by
  simp only [lookupType, htm, hobj] at h ⊢
  split at h
  · rename_i hk; simp only [hk, if_true]; exact h
  · rename_i hk
    simp only [hk, if_false]
    cases hs : asString k.unmark with
    | ok key =>
      rw [hs] at h
      simp only at h ⊢
      split at h
      · rename_i hc
        simp only [hc, if_true]
        obtain ⟨r, hr, rfl⟩ := res_map_ok h
        obtain ⟨r', hr', hty⟩ := getAttr_ty_weaken hmwm hmom htm hcm hr
        rw [hr']
        simp [Res.map, hty]
      · rename_i hc
        simp only [hc, if_false]
        simp only [htd]
        exact h
    | err c => rw [hs] at h; simp [Res.cast] at h
    | panic c => rw [hs] at h; simp [Res.cast] at h
    | unmodelled => rw [hs] at h; simp [Res.cast] at h

theorem lookupType_obj_unknown_key (E : Env) {wm wk wd : Value} {ns : List String} {ts : List Ty} {os : List Bool}
    (hobj : wm.ty = .object ns ts os) (hk : wk.isKnown = false) : lookupType E [wm, wk, wd] = .ok .dyn := by
  simp [lookupType, hobj, hk]

/-- **`lookup(object, key, default)`** at the level of the callback -/
theorem lookup_obj_implSound (E : Env) (hE : EnvConvertSound E) (om wm k od wd : Value)
    {ns : List String} {ts : List Ty} {os : List Bool}
    (hobj : om.ty = .object ns ts os) (htm : wm.ty = om.ty) (htd : wd.ty = od.ty)
    (hmom : om.containsMarked = false) (hmwm : wm.containsMarked = false) (hmk : k.containsMarked = false)
    (hs : noSet wm.v = true) (hcm : CoversX wm om = true) (hcd : CoversX wd od = true) :
    ImplSoundAt (lookupType E) (lookupImpl E) [om, k, od] [wm, k, wd] := by
  intro rt rt' r ho hw hio hconf hwf' hrwf hrefl
  have := lookupType_obj_eq E hobj htm htd hmom hmwm hcm ho
  rw [this] at hw
  cases hw
  obtain ⟨huw, hmsw⟩ := clean_unmark hmwm
  obtain ⟨huo, hmso⟩ := clean_unmark hmom
  obtain ⟨huk, hmsk⟩ := clean_unmark hmk
  simp only [lookupImpl, huw, hmsw, huo, hmso, huk, hmsk, List.length_nil, Nat.lt_irrefl, if_false,
    List.append_nil, gt_iff_lt] at hio ⊢
  cases hks : asString k with
  | ok key =>
    rw [hks] at hio
    simp only at hio ⊢
    by_cases hkw : wm.whollyKnown = true
    · have := coversX_wk_eq htm hmwm hmom hkw hs hcm
      subst this
      simp only [hkw, Bool.not_true, Bool.false_eq_true, if_false] at hio ⊢
      rw [hobj] at hio ⊢
      simp only at hio ⊢
      refine ite_branch (P := fun x' x => Ty.conformErrs rt x'.ty = 0 ∧ Covers x' x = true) hio ⟨hconf, hrefl⟩ ?_
      intro hx
      obtain ⟨c, hc1, rfl⟩ := res_map_ok hx
      obtain ⟨c', h1, h2, h3⟩ := convertTo_sound E hE rt htd hcd hc1
      rw [h1]
      refine ⟨_, rfl, ?_, ?_⟩
      · show Ty.conformErrs rt (Stdlib.withMarkSets c' [[]]).ty = 0
        rw [withMarkSets_nil1', withMarks_ty, h2]
        rw [withMarkSets_nil1', withMarks_ty] at hconf
        exact hconf
      · show Covers (Stdlib.withMarkSets c' [[]]) (Stdlib.withMarkSets c [[]]) = true
        rw [withMarkSets_nil1', withMarkSets_nil1', covers_withMarks_left, covers_withMarks_right]
        exact h3
    · have hkw' : wm.whollyKnown = false := by simpa using hkw
      simp only [hkw', Bool.not_false, if_true]
      refine ⟨_, rfl, ?_, ?_⟩
      · rw [withMarkSets_nil1']
        exact (Ty.conform_iff rt rt hwf' hwf').mpr (Ty.matches_refl rt)
      · rw [withMarkSets_nil1', covers_withMarks_left]
        exact unknown_covers_of_matches rt r ((Ty.conform_iff rt r.ty hwf' hrwf).mp hconf)
  | err c => rw [hks] at hio; simp [Res.cast] at hio
  | panic c => rw [hks] at hio; simp [Res.cast] at hio
  | unmodelled => rw [hks] at hio; simp [Res.cast] at hio

end D12b
end CtyModel
