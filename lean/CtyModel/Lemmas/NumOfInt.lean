/-
Facts about `Num.ofInt` (cty.NumberIntVal): exact value, comparison, equality.
-/
import CtyModel.Lemmas.NumCmp
import CtyModel.Lemmas.NumRound
import CtyModel.NumText
namespace CtyModel
namespace Num
open NumCmp

/-- `ofInt i p` is the integer `i`: sign, a non-negative exponent, exact value -/
theorem ofInt_spec (i : Int) (p : Nat) :
    ∃ m e, ofInt i p = .fin (decide (i < 0)) m e p ∧ 0 ≤ e ∧ sgnm (decide (i < 0)) m * 2 ^ e.toNat = i := by
  unfold ofInt mk
  by_cases h0 : i = 0
  · subst h0
    refine ⟨0, 0, by simp [norm, normFuel, bitlen], by omega, by simp [sgnm]⟩
  · have hm : i.natAbs ≠ 0 := by omega
    obtain ⟨h1, h2⟩ := norm_val i.natAbs 0 hm
    refine ⟨_, _, rfl, h1, ?_⟩
    have h3 : ((norm i.natAbs 0).1 : Int) * 2 ^ ((norm i.natAbs 0).2).toNat = (i.natAbs : Int) := by
      simp only [Int.sub_zero] at h2; exact_mod_cast h2
    unfold sgnm
    by_cases hn : i < 0
    · simp only [hn, decide_true, if_true, Int.neg_mul, h3]; omega
    · simp only [hn, decide_false, Bool.false_eq_true, if_false, h3]; omega

theorem cmp_ofInt (a b : Int) (p q : Nat) : cmp (ofInt a p) (ofInt b q) = icmp a b := by
  obtain ⟨ma, ea, ha, hea, hva⟩ := ofInt_spec a p
  obtain ⟨mb, eb, hb, heb, hvb⟩ := ofInt_spec b q
  rw [ha, hb, cmp_eq_kcmp 0 _ _ (by simpa [below] using hea) (by simpa [below] using heb)]
  simp only [key, kcmp, scaleTo, Int.sub_zero, hva, hvb]
  simp

theorem cmp_ofInt_le {a b : Int} {p q : Nat} (h : a ≤ b) : cmp (ofInt a p) (ofInt b q) ≤ 0 := by
  rw [cmp_ofInt]; unfold icmp
  split
  · omega
  · split <;> omega

theorem truncInt_ofInt (i : Int) (p : Nat) : (ofInt i p).truncInt = some i ∧ (ofInt i p).isInt = true := by
  obtain ⟨m, e, h, he, hv⟩ := ofInt_spec i p
  rw [h]
  simp only [truncInt, isInt, ge_iff_le, he, decide_true, if_true, and_true]
  unfold sgnm at hv
  by_cases hn : i < 0
  · simp only [hn, decide_true, if_true, Int.neg_mul] at hv ⊢; congr 1
  · simp only [hn, decide_false, Bool.false_eq_true, if_false] at hv ⊢; congr 1

theorem rawEqual_ofInt {a b : Int} {p q : Nat} (h : rawEqual (ofInt a p) (ofInt b q) = true) : a = b := by
  unfold rawEqual at h
  simp only [(truncInt_ofInt a p).2, (truncInt_ofInt b q).2, (truncInt_ofInt a p).1, (truncInt_ofInt b q).1] at h
  by_cases hs : ((ofInt a p).sign != (ofInt b q).sign) = true
  · simp [hs] at h
  · simp [hs] at h; exact h

end Num
end CtyModel
