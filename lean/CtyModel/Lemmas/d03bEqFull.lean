/-
d03b — `Equals` on values with sets at ANY depth (lists of sets, objects with set
attributes, sets of sets of …): on wholly known, mark-free, integer-numbered values
all of whose set nodes are well-formed (`deepWF`), `Equals` returns the known bool
`RawEquals` returns — both are `RawEquals` of the transliterations.
-/
import CtyModel.Lemmas.d03bEqSet3
namespace CtyModel
namespace D03b
open Value SetImpl

/-- the carrier: admitted (`M`) and every set node well-formed -/
structure W (t : Ty) (p : Payload) : Prop where
  m : M t p
  d : Payload.deepWF t p = true

/-- positional version for tuples / objects, with the fuel that suffices -/
def WZipD (fuel : Nat) : List Ty → List Payload → Prop
  | [], [] => True
  | t :: ts, v :: vs => (W t v ∧ v.depth ≤ fuel) ∧ WZipD fuel ts vs
  | _, _ => False

def RecOk' (rec : EqRec) (fuel : Nat) : Prop :=
  ∀ (t : Ty) (x y : Payload), capFree t = true → W t x → W t y → x.depth ≤ fuel → y.depth ≤ fuel →
    rec t x t y = .ok (boolVal (R' t x y))

theorem deepWFAll_iff {e : Ty} : ∀ {vs : List Payload}, Payload.deepWFAll e vs = true ↔ ∀ v ∈ vs, Payload.deepWF e v = true
  | [] => by simp [Payload.deepWFAll]
  | v :: vs => by simp [Payload.deepWFAll, deepWFAll_iff (vs := vs)]

/-- the members of a list-like node are in the carrier -/
theorem wAll_of {e : Ty} {fuel : Nat} {vs : List Payload} (h1 : Payload.shapedAll e vs = true)
    (h2 : Payload.containsMarkedL vs = false) (h3 : Payload.quotableL vs = true) (h4 : Payload.whollyKnownL vs = true)
    (h5 : (Payload.numsL vs).all Num.isInt = true) (h6 : Payload.deepWFAll e vs = true) (hd : Payload.depthL vs ≤ fuel) :
    ∀ v ∈ vs, W e v ∧ v.depth ≤ fuel := fun v hv =>
  ⟨⟨⟨⟨shapedAll_iff.mp h1 v hv, cleanL_iff.mp h2 v hv, quotableL_iff.mp h3 v hv⟩, whollyKnownL_iff.mp h4 v hv,
    (numsL_all_iff Num.isInt).mp h5 v hv⟩, deepWFAll_iff.mp h6 v hv⟩, Nat.le_trans (depth_le_of_mem hv) hd⟩

theorem wZip_of {fuel : Nat} : ∀ {ts : List Ty} {vs : List Payload}, Payload.shapedZip ts vs = true →
    Payload.containsMarkedL vs = false → Payload.quotableL vs = true → Payload.whollyKnownL vs = true →
    (Payload.numsL vs).all Num.isInt = true → Payload.deepWFZip ts vs = true → Payload.depthL vs ≤ fuel →
    WZipD fuel ts vs
  | [], [], _, _, _, _, _, _, _ => trivial
  | [], _ :: _, h, _, _, _, _, _, _ => by simp [Payload.shapedZip] at h
  | _ :: _, [], h, _, _, _, _, _, _ => by simp [Payload.shapedZip] at h
  | t :: ts, v :: vs, h1, h2, h3, h4, h5, h6, hd => by
    simp only [Payload.shapedZip, Payload.containsMarkedL, Payload.quotableL, Payload.whollyKnownL, Payload.numsL,
      Payload.deepWFZip, Payload.depthL, List.all_append, Bool.and_eq_true, Bool.or_eq_false_iff] at h1 h2 h3 h4 h5 h6 hd
    exact ⟨⟨⟨⟨⟨h1.1, h2.1, h3.1⟩, h4.1, h5.1⟩, h6.1⟩, by omega⟩,
      wZip_of h1.2 h2.2 h3.2 h4.2 h5.2 h6.2 (by omega)⟩

theorem equalsAll_ok' {rec : EqRec} {fuel : Nat} (hr : RecOk' rec fuel) (e : Ty) (hc : capFree e = true) :
    ∀ (xs ys : List Payload), (∀ v ∈ xs, W e v ∧ v.depth ≤ fuel) → (∀ v ∈ ys, W e v ∧ v.depth ≤ fuel) →
    equalsAll rec e xs ys = .ok (if rawBAll (enc e) (canonAll e xs) (canonAll e ys) then .t else .f)
  | [], _, _, _ => by simp [equalsAll, rawBAll, canonAll]
  | _ :: _, [], _, _ => by simp [equalsAll, rawBAll, canonAll]
  | x :: xs, y :: ys, hx, hy => by
    have wx := hx x (List.mem_cons_self ..)
    have wy := hy y (List.mem_cons_self ..)
    simp only [equalsAll, rawBAll, canonAll, hr e x y hc wx.1 wy.1 wx.2 wy.2, eqAccOf_ok_boolVal, R']
    cases rawB (enc e) (canon e x) (canon e y)
    · rfl
    · simpa using equalsAll_ok' hr e hc xs ys (fun v hv => hx v (List.mem_cons_of_mem _ hv))
        (fun v hv => hy v (List.mem_cons_of_mem _ hv))

theorem equalsZip_ok' {rec : EqRec} {fuel : Nat} (hr : RecOk' rec fuel) : ∀ (ts : List Ty) (xs ys : List Payload),
    capFreeL ts = true → WZipD fuel ts xs → WZipD fuel ts ys →
    equalsZip rec ts xs ys = .ok (if rawBZip (encL ts) (canonZip ts xs) (canonZip ts ys) then .t else .f)
  | [], _, _, _, _, _ => by simp [equalsZip, rawBZip, encL]
  | _ :: _, [], _, _, hx, _ => by simp [WZipD] at hx
  | _ :: _, _ :: _, [], _, _, hy => by simp [WZipD] at hy
  | t :: ts, x :: xs, y :: ys, hc, hx, hy => by
    simp only [capFreeL, Bool.and_eq_true] at hc
    simp only [equalsZip, rawBZip, canonZip, encL, hr t x y hc.1 hx.1.1 hy.1.1 hx.1.2 hy.1.2, eqAccOf_ok_boolVal, R']
    cases rawB (enc t) (canon t x) (canon t y)
    · rfl
    · simpa using equalsZip_ok' hr ts xs ys hc.2 hx.2 hy.2

theorem equalsObj_ok' {rec : EqRec} {fuel : Nat} (hr : RecOk' rec fuel) : ∀ (ts : List Ty) (xs ys : List Payload),
    capFreeL ts = true → WZipD fuel ts xs → WZipD fuel ts ys →
    equalsObj rec ts xs ys false = .ok (if rawBZip (encL ts) (canonZip ts xs) (canonZip ts ys) then .t else .f)
  | [], _, _, _, _, _ => by simp [equalsObj, rawBZip, encL]
  | _ :: _, [], _, _, hx, _ => by simp [WZipD] at hx
  | _ :: _, _ :: _, [], _, _, hy => by simp [WZipD] at hy
  | t :: ts, x :: xs, y :: ys, hc, hx, hy => by
    simp only [capFreeL, Bool.and_eq_true] at hc
    simp only [equalsObj, rawBZip, canonZip, encL, hr t x y hc.1 hx.1.1 hy.1.1 hx.1.2 hy.1.2, eqAccOf_ok_boolVal, R']
    cases rawB (enc t) (canon t x) (canon t y)
    · rfl
    · simpa using equalsObj_ok' hr ts xs ys hc.2 hx.2 hy.2

theorem mem_of_lookupKey {k : String} : ∀ {ks : List String} {vs : List Payload} {y : Payload},
    lookupKey k ks vs = some y → y ∈ vs
  | [], _, _, h => by simp [lookupKey] at h
  | _ :: _, [], _, h => by simp [lookupKey] at h
  | n :: ns, v :: vs, y, h => by
    simp only [lookupKey] at h
    split at h
    · cases h; exact List.mem_cons_self ..
    · exact List.mem_cons_of_mem _ (mem_of_lookupKey h)

theorem equalsMap_ok' {rec : EqRec} {fuel : Nat} (hr : RecOk' rec fuel) (e : Ty) (hc : capFree e = true)
    (ky : List String) (ys : List Payload) (hy : ∀ v ∈ ys, W e v ∧ v.depth ≤ fuel) :
    ∀ (ks : List String) (xs : List Payload), (∀ v ∈ xs, W e v ∧ v.depth ≤ fuel) →
    equalsMap rec e ks xs ky ys false =
      .ok (if rawBMap (enc e) ks (canonAll e xs) ky (canonAll e ys) then .t else .f)
  | [], _, _ => by simp [equalsMap, rawBMap]
  | _ :: _, [], _ => by simp [equalsMap, rawBMap, canonAll]
  | k :: ks, x :: xs, hx => by
    have wx := hx x (List.mem_cons_self ..)
    simp only [equalsMap, rawBMap, canonAll, lookupKey_canon]
    cases hl : lookupKey k ky ys with
    | none => rfl
    | some y =>
      have wy := hy y (mem_of_lookupKey hl)
      simp only [Option.map_some, hr e x y hc wx.1 wy.1 wx.2 wy.2, eqAccOf_ok_boolVal, R']
      by_cases h : rawB (enc e) (canon e x) (canon e y) = true
      · simp only [h, if_true, Bool.true_and]
        exact equalsMap_ok' hr e hc ky ys hy ks xs (fun v hv => hx v (List.mem_cons_of_mem _ hv))
      · have h' : rawB (enc e) (canon e x) (canon e y) = false := by simpa using h
        simp [h']

end D03b
end CtyModel

namespace CtyModel
namespace D03b
open Value SetImpl

theorem rawB_null_left' {t : Ty} {q : Payload} (mq : q.containsMarked = false) : rawB t .null q = q.isNull := by
  cases q <;> simp_all [rawB, Payload.isNull, Payload.unmark1, Payload.containsMarked]

theorem rawB_null_right' {t : Ty} {p : Payload} (mp : p.containsMarked = false) : rawB t p .null = p.isNull := by
  cases hq : rawB t p .null
  · cases hn : p.isNull
    · rfl
    · have := (isNull_iff mp).mp hn; subst this; simp [rawB] at hq
  · have := (rawB_null_right mp).mp hq; subst this; rfl

/-- if either operand is null, `RawEquals` of the transliterations is "both null" -/
theorem R'_null {t : Ty} {x y : Payload} (gx : G t x) (gy : G t y) (h : x.isNull = true ∨ y.isNull = true) :
    R' t x y = (x.isNull && y.isNull) := by
  have cx := (canon_G t x gx).2.1
  have cy := (canon_G t y gy).2.1
  rcases h with h | h
  · have := (isNull_iff gx.2.1).mp h; subst this
    simp only [R', canon_null, rawB_null_left' cy, canon_isNull t y gy.2.1]
    simp [Payload.isNull, Payload.unmark1]
  · have := (isNull_iff gy.2.1).mp h; subst this
    simp only [R', canon_null, rawB_null_right' cx, canon_isNull t x gx.2.1]
    simp [Payload.isNull, Payload.unmark1]

/-- **`Equals` = `RawEquals` of the transliterations, at every depth** -/
theorem equalsFuel_ok' : ∀ fuel : Nat, RecOk' (equalsFuel fuel) fuel
  | 0 => by
    intro t x y _ _ _ dx _
    have := Payload.depth_pos x
    omega
  | fuel + 1 => by
    have ih := equalsFuel_ok' fuel
    intro t x y hc wx wy dx dy
    have hw := capFree_wf t hc
    have hself := Ty.equals_self hw
    obtain ⟨⟨gx, kx, ix⟩, ex⟩ := wx
    obtain ⟨⟨gy, ky, iy⟩, ey⟩ := wy
    have knx := wk_isKnown kx gx.2.1
    have kny := wk_isKnown ky gy.2.1
    by_cases hnull : x.isNull = true ∨ y.isNull = true
    · rw [R'_null gx gy hnull]
      simp only [equalsFuel]
      rw [equalsPre_of_known _ _ _ _ knx kny]
      rcases hnull with h | h <;> cases hx : x.isNull <;> cases hy : y.isNull <;> simp_all
    · have hnx : x.isNull = false := by cases h : x.isNull <;> simp_all
      have hny : y.isNull = false := by cases h : y.isNull <;> simp_all
      obtain ⟨sx, mx, qx⟩ := gx
      obtain ⟨sy, my, qy⟩ := gy
      cases x with
      | unk _ => simp [Payload.whollyKnown] at kx
      | marked _ _ => simp [Payload.containsMarked] at mx
      | bad _ => simp [Payload.shaped] at sx
      | null => simp [Payload.isNull, Payload.unmark1] at hnx
      | caps => cases t <;> simp [Payload.shaped] at sx; simp [capFree] at hc
      | b v =>
        simp only [Payload.shaped, Ty.isBool_iff] at sx
        subst sx
        cases y <;> simp [Payload.shaped, Ty.isBool, Ty.isNumber, Ty.isString, Payload.whollyKnown, Payload.containsMarked,
          Payload.isNull, Payload.unmark1] at sy ky my hny
        simp only [equalsFuel]; rw [equalsPre_of_known _ _ _ _ rfl rfl]
        simp [Payload.isNull, Payload.unmark1, R', rawB, enc, canon, hasWhollyKnownType, Ty.equals]
      | n v =>
        simp only [Payload.shaped, Ty.isNumber_iff] at sx
        subst sx
        cases y <;> simp [Payload.shaped, Ty.isBool, Ty.isNumber, Ty.isString, Payload.whollyKnown, Payload.containsMarked,
          Payload.isNull, Payload.unmark1] at sy ky my hny
        simp only [equalsFuel]; rw [equalsPre_of_known _ _ _ _ rfl rfl]
        simp [Payload.isNull, Payload.unmark1, R', rawB, enc, canon, hasWhollyKnownType, Ty.equals]
      | s v =>
        simp only [Payload.shaped, Ty.isString_iff] at sx
        subst sx
        cases y <;> simp [Payload.shaped, Ty.isBool, Ty.isNumber, Ty.isString, Payload.whollyKnown, Payload.containsMarked,
          Payload.isNull, Payload.unmark1] at sy ky my hny
        simp only [equalsFuel]; rw [equalsPre_of_known _ _ _ _ rfl rfl]
        simp [Payload.isNull, Payload.unmark1, R', rawB, enc, canon, hasWhollyKnownType, Ty.equals]
      | seq xs =>
        simp only [Payload.whollyKnown, Payload.containsMarked, Payload.depth, Payload.quotable, Payload.intNums,
          Payload.nums] at kx mx dx qx ix
        cases t <;> simp [Payload.shaped] at sx
        case list e =>
          simp only [capFree] at hc
          simp only [Payload.deepWF] at ex
          cases y <;> simp [Payload.shaped, Ty.isBool, Ty.isNumber, Ty.isString, Payload.whollyKnown,
            Payload.containsMarked, Payload.isNull, Payload.unmark1] at sy ky my hny
          rename_i ys
          simp only [Payload.depth, Payload.quotable, Payload.intNums, Payload.nums, Payload.deepWF] at dy qy iy ey
          have wxs := wAll_of (fuel := fuel) sx mx qx kx ix ex (by omega)
          have wys := wAll_of (fuel := fuel) sy my qy ky iy ey (by omega)
          simp only [equalsFuel]
          rw [equalsPre_of_known _ _ _ _ rfl rfl]
          simp only [Payload.isNull, Payload.unmark1, Bool.and_self, Bool.or_self, Bool.false_eq_true, if_false,
            hasWhollyKnownType, hwktAll_of_known _ _ kx, hwktAll_of_known _ _ ky, hself,
            equalsAll_ok' ih e hc xs ys wxs wys, R', enc, canon, rawB, canonAll_length]
          by_cases hl : xs.length = ys.length
          · simp [hl, Res.map]; cases rawBAll (enc e) (canonAll e xs) (canonAll e ys) <;> rfl
          · simp [beq_false_of_ne hl]
        case tuple ts =>
          simp only [capFree] at hc
          simp only [Payload.deepWF] at ex
          cases y <;> simp [Payload.shaped, Ty.isBool, Ty.isNumber, Ty.isString, Payload.whollyKnown,
            Payload.containsMarked, Payload.isNull, Payload.unmark1] at sy ky my hny
          rename_i ys
          simp only [Payload.depth, Payload.quotable, Payload.intNums, Payload.nums, Payload.deepWF] at dy qy iy ey
          have wxs := wZip_of (fuel := fuel) sx mx qx kx ix ex (by omega)
          have wys := wZip_of (fuel := fuel) sy my qy ky iy ey (by omega)
          simp only [equalsFuel]
          rw [equalsPre_of_known _ _ _ _ rfl rfl]
          simp only [Payload.isNull, Payload.unmark1, Bool.and_self, Bool.or_self, Bool.false_eq_true, if_false,
            hasWhollyKnownType, hwktZip_of_known _ _ kx, hwktZip_of_known _ _ ky, hself,
            equalsZip_ok' ih ts xs ys hc wxs wys, R', enc, canon, rawB]
          simp [Res.map]
          cases rawBZip (encL ts) (canonZip ts xs) (canonZip ts ys) <;> rfl
      | smap kxs xs =>
        simp only [Payload.whollyKnown, Payload.containsMarked, Payload.depth, Payload.quotable, Payload.intNums,
          Payload.nums, Bool.and_eq_true] at kx mx dx qx ix
        cases t <;> simp [Payload.shaped] at sx
        case map e =>
          simp only [capFree] at hc
          simp only [Payload.deepWF] at ex
          cases y <;> simp [Payload.shaped, Ty.isBool, Ty.isNumber, Ty.isString, Payload.whollyKnown,
            Payload.containsMarked, Payload.isNull, Payload.unmark1] at sy ky my hny
          rename_i kys ys
          simp only [Payload.depth, Payload.quotable, Payload.intNums, Payload.nums, Payload.deepWF, Bool.and_eq_true]
            at dy qy iy ey
          have wxs := wAll_of (fuel := fuel) sx.2 mx qx.2 kx ix ex (by omega)
          have wys := wAll_of (fuel := fuel) sy.2 my qy.2 ky iy ey (by omega)
          simp only [equalsFuel]
          rw [equalsPre_of_known _ _ _ _ rfl rfl]
          simp only [Payload.isNull, Payload.unmark1, Bool.and_self, Bool.or_self, Bool.false_eq_true, if_false,
            hasWhollyKnownType, hwktAll_of_known _ _ kx, hwktAll_of_known _ _ ky, hself,
            equalsMap_ok' ih e hc kys ys wys kxs xs wxs, R', enc, canon, rawB, canonAll_length]
          by_cases hl : xs.length = ys.length
          · simp [hl, Res.map]; cases rawBMap (enc e) kxs (canonAll e xs) kys (canonAll e ys) <;> rfl
          · simp [beq_false_of_ne hl]
        case object ns ts os =>
          simp only [capFree, Bool.and_eq_true] at hc
          simp only [Payload.deepWF] at ex
          cases y <;> simp [Payload.shaped, Ty.isBool, Ty.isNumber, Ty.isString, Payload.whollyKnown,
            Payload.containsMarked, Payload.isNull, Payload.unmark1] at sy ky my hny
          rename_i kys ys
          simp only [Payload.depth, Payload.quotable, Payload.intNums, Payload.nums, Payload.deepWF, Bool.and_eq_true]
            at dy qy iy ey
          have wxs := wZip_of (fuel := fuel) sx.2 mx qx.2 kx ix ex (by omega)
          have wys := wZip_of (fuel := fuel) sy.2 my qy.2 ky iy ey (by omega)
          simp only [equalsFuel]
          rw [equalsPre_of_known _ _ _ _ rfl rfl]
          simp only [Payload.isNull, Payload.unmark1, Bool.and_self, Bool.or_self, Bool.false_eq_true, if_false,
            hasWhollyKnownType, hwktZip_of_known _ _ kx, hwktZip_of_known _ _ ky, hself,
            equalsObj_ok' ih ts xs ys hc.2 wxs wys, R', enc, canon, rawB]
          simp [Res.map]
          cases rawBZip (encL ts) (canonZip ts xs) (canonZip ts ys) <;> rfl
      | sset ixs xs =>
        simp only [Payload.whollyKnown, Payload.containsMarked, Payload.depth] at kx mx dx
        cases t <;> simp [Payload.shaped] at sx
        case set e =>
          simp only [capFree] at hc
          simp only [Payload.deepWF, Bool.and_eq_true] at ex
          cases y <;> simp [Payload.shaped, Ty.isBool, Ty.isNumber, Ty.isString, Payload.whollyKnown,
            Payload.containsMarked, Payload.isNull, Payload.unmark1] at sy ky my hny
          rename_i iys ys
          simp only [Payload.depth, Payload.deepWF, Bool.and_eq_true] at dy ey
          have fx := setWF_spec hc ex.1
          have fy := setWF_spec hc ey.1
          have hrec : ∀ a b, (a ∈ xs ∨ a ∈ ys) → (b ∈ xs ∨ b ∈ ys) →
              equalsFuel fuel e a e b = .ok (boolVal (R' e a b)) := by
            intro a b ha hb
            have wa : W e a ∧ a.depth ≤ fuel := by
              rcases ha with h | h
              · exact ⟨⟨fx.mem a h, deepWFAll_iff.mp ex.2 a h⟩, by have := depth_le_of_mem h; omega⟩
              · exact ⟨⟨fy.mem a h, deepWFAll_iff.mp ey.2 a h⟩, by have := depth_le_of_mem h; omega⟩
            have wb : W e b ∧ b.depth ≤ fuel := by
              rcases hb with h | h
              · exact ⟨⟨fx.mem b h, deepWFAll_iff.mp ex.2 b h⟩, by have := depth_le_of_mem h; omega⟩
              · exact ⟨⟨fy.mem b h, deepWFAll_iff.mp ey.2 b h⟩, by have := depth_le_of_mem h; omega⟩
            exact ih e a b hc wa.1 wb.1 wa.2 wb.2
          obtain ⟨s1, s2, s3⟩ := setEquals_spec _ hc fx fy hrec
          simp only [equalsFuel]
          rw [equalsPre_of_known _ _ _ _ rfl rfl]
          simp only [Payload.isNull, Payload.unmark1, Bool.and_self, Bool.or_self, Bool.false_eq_true, if_false,
            hasWhollyKnownType, hwktAll_of_known _ _ kx, hwktAll_of_known _ _ ky, hself, Bool.not_true, s1, s2, s3]
          rfl

/-- `Value.Equals` of two values of the carrier -/
theorem equals_full {t : Ty} (hc : capFree t = true) {a b : Payload} (wa : W t a) (wb : W t b) :
    Value.equals ⟨t, a⟩ ⟨t, b⟩ = .ok (boolVal (R' t a b)) := by
  simp only [Value.equals, Value.containsMarked, wa.m.1.2.1, wb.m.1.2.1, Bool.or_self, Bool.false_eq_true, if_false,
    equalsP]
  exact equalsFuel_ok' _ t a b hc wa wb (by omega) (by omega)

theorem W.of {t : Ty} {p : Payload} (h : Payload.deepMember t p = true) : W t p := by
  simp only [Payload.deepMember, Bool.and_eq_true, Bool.not_eq_true'] at h
  obtain ⟨⟨⟨⟨⟨a, b⟩, c⟩, d⟩, e⟩, f⟩ := h
  exact ⟨⟨⟨a, b, c⟩, d, e⟩, f⟩

end D03b
end CtyModel
