/-
d18: "exact or refuses" composes: a list / map / tuple is decoded iff every member is — a member
that is refused (an unknown, a null into a non-nilable element type, a number that does not fit,
a stray attribute further down) makes the whole decode return that failure; nothing is skipped.
-/
import CtyModel.Lemmas.d18Object
namespace CtyModel
namespace Gocty

theorem seqAll_ok_iff {α} : ∀ (rs : List (Res α)) (xs : List α), seqAll rs = .ok xs ↔ rs = xs.map Res.ok
  | [], xs => by
    simp only [seqAll, Res.ok.injEq]
    constructor
    · rintro rfl; rfl
    · intro h; cases xs <;> simp_all
  | r :: rs, xs => by
    cases r with
    | ok a =>
      simp only [seqAll]
      cases hs : seqAll rs with
      | ok as =>
        have ih := (seqAll_ok_iff rs as).mp hs
        simp only [Res.ok.injEq]
        constructor
        · rintro rfl; simp [ih]
        · intro h
          cases xs with
          | nil => simp at h
          | cons x xs =>
            simp only [List.map_cons, List.cons.injEq, Res.ok.injEq] at h
            have := (seqAll_ok_iff rs xs).mpr h.2
            rw [hs] at this; cases this
            rw [h.1]
      | err c =>
        simp only []
        refine ⟨fun h => (by cases h), fun h => ?_⟩
        cases xs with
        | nil => simp at h
        | cons x xs =>
          simp only [List.map_cons, List.cons.injEq] at h
          have := (seqAll_ok_iff rs xs).mpr h.2
          rw [hs] at this; cases this
      | panic w =>
        simp only []
        refine ⟨fun h => (by cases h), fun h => ?_⟩
        cases xs with
        | nil => simp at h
        | cons x xs =>
          simp only [List.map_cons, List.cons.injEq] at h
          have := (seqAll_ok_iff rs xs).mpr h.2
          rw [hs] at this; cases this
      | unmodelled =>
        simp only []
        refine ⟨fun h => (by cases h), fun h => ?_⟩
        cases xs with
        | nil => simp at h
        | cons x xs =>
          simp only [List.map_cons, List.cons.injEq] at h
          have := (seqAll_ok_iff rs xs).mpr h.2
          rw [hs] at this; cases this
    | err c =>
      simp only [seqAll]
      refine ⟨fun h => (by cases h), fun h => ?_⟩
      cases xs <;> simp at h
    | panic w =>
      simp only [seqAll]
      refine ⟨fun h => (by cases h), fun h => ?_⟩
      cases xs <;> simp at h
    | unmodelled =>
      simp only [seqAll]
      refine ⟨fun h => (by cases h), fun h => ?_⟩
      cases xs <;> simp at h

/-- an unmarked list into a slice (behind any pointers): decoded iff every element is -/
theorem fromCtyP_list_slice_ok_iff (S : Sched) (ety : Ty) (cs : List Payload) (T : GoTy) (E : GoTy)
    (hT : T.base = .slice E) (g : GoVal) :
    fromCtyP S [] (.list ety) (.seq cs) T = .ok g ↔
      ∃ gs, fromCtyL S ety cs E = gs.map Res.ok ∧ g = wrapPtr T.depth (.slice gs) := by
  unfold fromCtyP
  simp only [hT, GoTy.isCval, Bool.false_eq_true, if_false, List.isEmpty_nil, Bool.not_true, mapRes_ok_iff, seqAll_ok_iff]

/-- … into an array: the length must be the array's, and every element decoded -/
theorem fromCtyP_list_array_ok_iff (S : Sched) (ety : Ty) (cs : List Payload) (T : GoTy) (n : Nat) (E : GoTy)
    (hT : T.base = .array n E) (g : GoVal) :
    fromCtyP S [] (.list ety) (.seq cs) T = .ok g ↔
      cs.length = n ∧ ∃ gs, fromCtyL S ety cs E = gs.map Res.ok ∧ g = wrapPtr T.depth (.arr gs) := by
  unfold fromCtyP
  simp only [hT, GoTy.isCval, Bool.false_eq_true, if_false, List.isEmpty_nil, Bool.not_true]
  by_cases hl : cs.length = n
  · simp [hl, mapRes_ok_iff, seqAll_ok_iff]
  · simp [hl]

/-- an unmarked map into a Go map: decoded iff every element is; the keys are kept -/
theorem fromCtyP_map_ok_iff (S : Sched) (ety : Ty) (ks : List String) (cs : List Payload) (T : GoTy) (E : GoTy)
    (hT : T.base = .map E) (g : GoVal) :
    fromCtyP S [] (.map ety) (.smap ks cs) T = .ok g ↔
      ∃ gs, fromCtyL S ety cs E = gs.map Res.ok ∧ g = wrapPtr T.depth (.map ks gs) := by
  unfold fromCtyP
  simp only [hT, GoTy.isCval, Bool.false_eq_true, if_false, List.isEmpty_nil, Bool.not_true, mapRes_ok_iff, seqAll_ok_iff]

/-- an unmarked tuple into a struct, position by position: as many elements as fields, each decoded -/
theorem fromCtyP_tuple_ok_iff (S : Sched) (etys : List Ty) (cs : List Payload) (T : GoTy) (tags : List String)
    (tys : List GoTy) (hT : T.base = .struct tags tys) (g : GoVal) :
    fromCtyP S [] (.tuple etys) (.seq cs) T = .ok g ↔
      tys.length = etys.length ∧ ∃ gs, fromCtyZ S [] etys cs tys = gs.map Res.ok ∧ g = wrapPtr T.depth (.struct tags gs) := by
  unfold fromCtyP
  simp only [hT, GoTy.isCval, Bool.false_eq_true, if_false]
  by_cases hl : tys.length = etys.length
  · simp [hl, mapRes_ok_iff, seqAll_ok_iff]
  · simp [hl]

theorem fromCtyL_mem (S : Sched) (ety : Ty) (E : GoTy) {c : Payload} : ∀ {cs : List Payload}, c ∈ cs →
    fromCtyP S [] ety c E ∈ fromCtyL S ety cs E
  | [], h => by simp at h
  | x :: xs, h => by
    simp only [fromCtyL, List.mem_cons]
    rcases List.mem_cons.mp h with rfl | h
    · left; rfl
    · right; exact fromCtyL_mem S ety E h

/-- a refused member makes the whole list refused (with an error): nothing is skipped -/
theorem fromCtyP_list_member_refused (S : Sched) (ety : Ty) (cs : List Payload) (T : GoTy) (E : GoTy)
    (hT : T.base = .slice E) (hm : modelledL ety cs = true) (c : Payload) (hc : c ∈ cs)
    (he : ∃ e, fromCtyP S [] ety c E = .err e) : ∃ e, fromCtyP S [] (.list ety) (.seq cs) T = .err e := by
  have htot := fromCtyP_total S (.list ety) (.seq cs) T (by simpa [modelled] using hm)
  rcases isOkOrErr_cases htot with ⟨g, hg⟩ | h
  · exfalso
    obtain ⟨gs, h1, _⟩ := (fromCtyP_list_slice_ok_iff S ety cs T E hT g).mp hg
    have := fromCtyL_mem S ety E hc
    rw [h1] at this
    obtain ⟨a, _, ha⟩ := List.mem_map.mp this
    obtain ⟨e, he⟩ := he
    rw [he] at ha; cases ha
  · exact h

end Gocty
end CtyModel
