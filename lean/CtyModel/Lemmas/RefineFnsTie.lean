/-
The REGENERATED-MODEL tie for C05: the definitions that `extract/translate_rfn.go`
regenerates from cty/unknown_refinement.go on every check (`Generated/RefineFns.lean`)
compute what the hand-written model `CtyModel/Refine.lean` computes:

* `init_eq`      `Value.Refine`            = `Refine.init`      (on every value the model models)
* `step_eq`      every `RefinementBuilder` method = `Refine.step` (all builders, all arguments)
* `run_eq`       call chains               = `Refine.run`
* `newValue_eq`  `NewValue`                = `Refine.newValue`  (well-formed builders: `Builder.wf`)
* `refine_eq`    `v.Refine().….NewValue()` = `Refine.refine`
* `rawEqual_eq`  `rawEqual` of the four refinement structs = `rfnRawEq` (the model of C03)

Outcomes are compared up to the TEXT of a panic (`er`): the model abbreviates Go's
messages.  The external string functions (`class RefineGo.Strings`) are applied to
the call's argument as the source applies them (`ext`); the equality oracle is the
model's parameter.  Every C05 theorem therefore holds of the translated source text
(`Props/C05.lean`, `…_generated`).

The proofs unfold the generated definitions with `simp` and replace the calls of the
given API (`RefineGo`) by the model's vocabulary through small lemmas, so a
refactoring of the Go code inside the translated fragment that preserves the meaning
still goes through, while a change of meaning makes this file fail to build.
-/
import CtyModel.Generated.RefineFns
import CtyModel.Lemmas.RefineBase
import CtyModel.Lemmas.NumOfInt
import CtyModel.SetRules
set_option linter.unusedSimpArgs false
set_option linter.unusedSectionVars false
set_option linter.unusedVariables false
namespace CtyModel
namespace RefineFnsTie
open Refine RefineGo Generated.RefineFns

/-- an outcome up to the text of a panic or error -/
def er {α} : Res α → Res α
  | .panic _ => .panic ""
  | .err _ => .err ""
  | r => r

@[simp] theorem er_ok {α} (a : α) : er (Res.ok a) = .ok a := rfl
@[simp] theorem er_panic {α} (w : String) : er (Res.panic w : Res α) = .panic "" := rfl
@[simp] theorem er_unmodelled {α} : er (Res.unmodelled : Res α) = .unmodelled := rfl
@[simp] theorem rbind_ok {α β} (a : α) (f : α → Res β) : Res.bind (.ok a) f = f a := rfl
@[simp] theorem rbind_panic {α β} (w : String) (f : α → Res β) : Res.bind (.panic w) f = .panic w := rfl
@[simp] theorem rbind_unmodelled {α β} (f : α → Res β) : Res.bind .unmodelled f = .unmodelled := rfl
@[simp] theorem rbind_err {α β} (w : String) (f : α → Res β) : Res.bind (.err w) f = .err w := rfl

/-- case analysis on every `if`/`match` of both sides, then `simp_all` -/
macro "ifs" : tactic => `(tactic| ((repeat' split) <;> simp_all))

variable [EqOracle] [Strings]

theorem refineable_eq (b : Builder) : RefinementBuilder_refineable b =
    if b.isDyn then .ok false else if b.wip = .unref then .panic "cannot refine a %#v value" else .ok true := by
  unfold RefinementBuilder_refineable
  simp only [isDynamicVal, Builder.isDyn]
  cases hw : b.wip <;> simp [isNil]


theorem notNull_eq (b : Builder) : er (RefinementBuilder_NotNull b) = er (Refine.step b .notNull) := by
  unfold RefinementBuilder_NotNull Refine.step
  rw [refineable_eq]
  by_cases hd : b.isDyn = true
  · simp [hd]
  · simp only [hd]
    cases hw : b.wip <;>
      simp [step1, stepNotNull, RefineGo.isKnown, RefineGo.isNull, refinementNullable_null, refinementNullable_setNull, Rfn.nullness, hw, setNull] <;> ifs

theorem null_eq (b : Builder) : er (RefinementBuilder_Null b) = er (Refine.step b .null) := by
  unfold RefinementBuilder_Null Refine.step
  rw [refineable_eq]
  by_cases hd : b.isDyn = true
  · simp [hd]
  · simp only [hd]
    cases hw : b.wip <;>
      simp [step1, stepNull, RefineGo.isKnown, RefineGo.isNull, refinementNullable_null, refinementNullable_setNull, Rfn.nullness, hw, setNull] <;> ifs


theorem gt_ofInt (a b : Int) : gt (Num.ofInt a) (Num.ofInt b) = decide (a > b) := by
  unfold gt; rw [Num.cmp_ofInt]; unfold NumCmp.icmp
  by_cases h1 : a < b
  · simp [h1]; omega
  · by_cases h2 : a = b
    · simp [h1, h2]
    · simp [h1, h2]; omega

theorem lt_ofInt (a b : Int) : lt (Num.ofInt a) (Num.ofInt b) = decide (a < b) := by
  unfold lt; rw [Num.cmp_ofInt]; unfold NumCmp.icmp
  by_cases h1 : a < b
  · simp [h1]
  · by_cases h2 : a = b
    · simp [h1, h2]
    · simp [h1, h2]

theorem mk_wip {b : Builder} {r : Rfn} (h : b.wip = r) : (⟨b.orig, b.marks, r⟩ : Builder) = b := by
  cases b; cases h; rfl

@[simp] theorem kt_bool (t : Bool) :
    (if isKnown (boolVal t) = true then (RefineGo.isTrue (boolVal t)).bind fun z => Res.ok z else Res.ok false) = .ok t := by
  simp [isKnown, boolVal, Value.isKnown, Payload.isKnown, Payload.unmark1, RefineGo.isTrue]
@[simp] theorem kt_unk :
    (if isKnown unknownBool = true then (RefineGo.isTrue unknownBool).bind fun z => Res.ok z else Res.ok false) = .ok false := by
  simp [isKnown, unknownBool, Value.isKnown, Payload.isKnown, Payload.unmark1]
@[simp] theorem kf_bool (t : Bool) :
    (if isKnown (boolVal t) = true then (RefineGo.isFalse (boolVal t)).bind fun z => Res.ok z else Res.ok false) = .ok (!t) := by
  simp [isKnown, boolVal, Value.isKnown, Payload.isKnown, Payload.unmark1, RefineGo.isFalse]
@[simp] theorem kf_unk :
    (if isKnown unknownBool = true then (RefineGo.isFalse unknownBool).bind fun z => Res.ok z else Res.ok false) = .ok false := by
  simp [isKnown, unknownBool, Value.isKnown, Payload.isKnown, Payload.unmark1]

@[simp] theorem isKnown_v (x : Value) : isKnown (.v x) = x.isKnown := rfl
@[simp] theorem isNull_v (x : Value) : isNull (.v x) = x.isNull := rfl

theorem len_gt {β} (o : Value) (n : Int) (k : Bool → Res β) :
    ((length (.v o)).bind fun x => (greaterThan (numberIntVal n) x).bind fun y =>
      (if isKnown y = true then (RefineGo.isTrue y).bind fun z => Res.ok z else Res.ok false).bind k) =
    (match knownLength o with
    | .ok (_, most) => Res.ok (decide (n > (most : Int)))
    | .err e => Res.err e
    | .panic w => Res.panic w
    | .unmodelled => Res.unmodelled).bind k := by
  cases hkl : knownLength o with
  | ok p =>
    obtain ⟨least, most⟩ := p
    by_cases h : least = most
    · simp [length, hkl, h, greaterThan, num?, numberIntVal, gt_ofInt]
    · simp only [length, hkl, h, greaterThan, num?, numberIntVal, gt_ofInt, origUpper, origLower, lt_ofInt, if_false, rbind_ok]
      by_cases h1 : n > (most : Int)
      · simp [h1]
      · simp only [h1, decide_false, Bool.false_eq_true, if_false]; split <;> simp
  | err e => simp [length, hkl]
  | panic w => simp [length, hkl]
  | unmodelled => simp [length, hkl]

theorem len_lt {β} (o : Value) (n : Int) (k : Bool → Res β) :
    ((length (.v o)).bind fun x => (lessThan (numberIntVal n) x).bind fun y =>
      (if isKnown y = true then (RefineGo.isTrue y).bind fun z => Res.ok z else Res.ok false).bind k) =
    (match knownLength o with
    | .ok (least, _) => Res.ok (decide (n < (least : Int)))
    | .err e => Res.err e
    | .panic w => Res.panic w
    | .unmodelled => Res.unmodelled).bind k := by
  cases hkl : knownLength o with
  | ok p =>
    obtain ⟨least, most⟩ := p
    by_cases h : least = most
    · simp [length, hkl, h, lessThan, num?, numberIntVal, lt_ofInt]
    · simp only [length, hkl, h, lessThan, num?, numberIntVal, gt_ofInt, origUpper, origLower, lt_ofInt, if_false, rbind_ok]
      by_cases h1 : n < (least : Int)
      · simp [h1]
      · simp only [h1, decide_false, Bool.false_eq_true, if_false]; split <;> simp
  | err e => simp [length, hkl]
  | panic w => simp [length, hkl]
  | unmodelled => simp [length, hkl]

theorem lenLower_eq (b : Builder) (n : Int) :
    er (RefinementBuilder_CollectionLengthLowerBound b n) = er (Refine.step b (.lenLower n)) := by
  unfold RefinementBuilder_CollectionLengthLowerBound Refine.step
  rw [refineable_eq]
  by_cases hd : b.isDyn = true
  · simp [hd]
  · simp only [hd]
    cases hw : b.wip <;> simp [step1, stepLenLower, hw]
    rename_i nl lo hi
    simp only [len_gt, mk_wip hw, refinementCollection_assertConsistentLengthBounds]
    by_cases hk : b.orig.isKnown = true
    · simp only [hk, if_true]
      cases knownLength b.orig with
      | ok p =>
        obtain ⟨least, most⟩ := p
        simp
        ifs
      | err e => simp [er]
      | panic w => simp
      | unmodelled => simp
    · simp [hk]
      ifs

theorem lenUpper_eq (b : Builder) (n : Int) :
    er (RefinementBuilder_CollectionLengthUpperBound b n) = er (Refine.step b (.lenUpper n)) := by
  unfold RefinementBuilder_CollectionLengthUpperBound Refine.step
  rw [refineable_eq]
  by_cases hd : b.isDyn = true
  · simp [hd]
  · simp only [hd]
    cases hw : b.wip <;> simp [step1, stepLenUpper, hw]
    rename_i nl lo hi
    simp only [len_lt, mk_wip hw, refinementCollection_assertConsistentLengthBounds]
    by_cases hk : b.orig.isKnown = true
    · simp only [hk, if_true]
      cases knownLength b.orig with
      | ok p =>
        obtain ⟨least, most⟩ := p
        simp
        ifs
      | err e => simp [er]
      | panic w => simp
      | unmodelled => simp
    · simp [hk]
      ifs

theorem er_eq_ok {α} {r : Res α} {a : α} : er r = .ok a ↔ r = .ok a := by
  cases r <;> simp [er]

theorem er_bind_congr {α β} {r r' : Res α} {f f' : α → Res β} (h : er r = er r')
    (hf : ∀ a, r' = .ok a → er (f a) = er (f' a)) : er (r.bind f) = er (r'.bind f') := by
  cases r' with
  | ok a => rw [er_ok, er_eq_ok] at h; subst h; simpa using hf a rfl
  | err e => cases r <;> simp [er] at h ⊢
  | panic w => cases r <;> simp [er] at h ⊢
  | unmodelled => cases r <;> simp [er] at h ⊢

/-- the second half of a two-call shorthand sees a builder that is still refineable -/
theorem step_seq (b : Builder) (c1 c2 c : RefineCall)
    (h12 : ∀ b0, step1 b0 c = (step1 b0 c1).bind fun b' => step1 b' c2)
    (hk : ∀ b0 b', step1 b0 c1 = .ok b' → b'.isDyn = b0.isDyn ∧ (b0.wip ≠ .unref → b'.wip ≠ .unref)) :
    ((Refine.step b c1).bind fun b' => Refine.step b' c2) = Refine.step b c := by
  unfold Refine.step
  by_cases hd : b.isDyn = true
  · simp [hd]
  · by_cases hw : b.wip = .unref
    · simp [hd, hw]
    · simp only [hd, hw, if_false, Bool.false_eq_true, h12]
      cases h1 : step1 b c1 with
      | ok b' =>
        obtain ⟨e1, e2⟩ := hk b b' h1
        simp [e1, hd, e2 hw]
      | err e => simp
      | panic w => simp
      | unmodelled => simp

theorem collectionLength_eq (b : Builder) (n : Int) :
    er (RefinementBuilder_CollectionLength b n) = er (Refine.step b (.collectionLength n)) := by
  unfold RefinementBuilder_CollectionLength
  rw [← step_seq b (.lenLower n) (.lenUpper n) (.collectionLength n) (fun _ => rfl)]
  · exact er_bind_congr (lenLower_eq b n) (fun a _ => lenUpper_eq a n)
  · intro b0 b' h
    have hb := stepLenLower_base h
    refine ⟨Builder.isDyn_congr hb.1, fun _ => ?_⟩
    obtain ⟨nl, lo, hi, hw, hc, _⟩ := stepLenLower_ok h
    rcases hc with ⟨rfl, _⟩ | ⟨_, _, rfl⟩ <;> simp [hw]


theorem strTake_ok (s : String) (k : Nat) (h : k ≤ (bytes s).length) : strTake s (k : Int) = .ok ((bytes s).take k) := by
  unfold strTake strLen
  have : (0 : Int) ≤ k ∧ (k : Int) ≤ ((bytes s).length : Int) := ⟨by omega, by omega⟩
  simp [this]

/-- the overlap test of `StringPrefixFull` as the source computes it -/
theorem overlap_eq {β} (q p : String) (A B : Res β) :
    (if strLen p < strLen q then
      (strTake q (strLen p)).bind fun a => (strTake p (strLen p)).bind fun c => if a = c then A else B
    else
      (strTake q (strLen q)).bind fun a => (strTake p (strLen q)).bind fun c => if a = c then A else B) =
    if overlapDiffers (bytes q) (bytes p) = true then B else A := by
  unfold overlapDiffers
  by_cases h : strLen p < strLen q
  · have h' : (bytes p).length < (bytes q).length := by unfold strLen at h; omega
    rw [if_pos h]
    unfold strLen
    rw [strTake_ok q _ (by omega), strTake_ok p _ (by omega)]
    simp only [rbind_ok]
    rw [Nat.min_eq_right (by omega)]
    by_cases e : List.take (bytes p).length (bytes q) = List.take (bytes p).length (bytes p) <;> simp [e] <;> simp_all
  · have h' : (bytes q).length ≤ (bytes p).length := by unfold strLen at h; omega
    rw [if_neg h]
    unfold strLen
    rw [strTake_ok q _ (by omega), strTake_ok p _ (by omega)]
    simp only [rbind_ok]
    rw [Nat.min_eq_left (by omega)]
    by_cases e : List.take (bytes q).length (bytes q) = List.take (bytes q).length (bytes p) <;> simp [e] <;> simp_all

theorem stringPrefixFull_eq (b : Builder) (s : String) :
    er (RefinementBuilder_StringPrefixFull b s) = er (Refine.step b (.stringPrefixFull (Strings.normalizeString s))) := by
  unfold RefinementBuilder_StringPrefixFull Refine.step
  rw [refineable_eq]
  by_cases hd : b.isDyn = true
  · simp [hd]
  · simp only [hd]
    cases hw : b.wip <;> simp [step1, stepPrefix, hw]
    rename_i nl q
    simp only [overlap_eq, asString, hasPrefix]
    have hl : (strLen q < strLen (Strings.normalizeString s)) ↔ ((bytes q).length < (bytes (Strings.normalizeString s)).length) := by
      unfold strLen; omega
    simp only [hl]
    cases b.orig.v
    case s known => cases hp : (bytes (Strings.normalizeString s)).isPrefixOf (bytes known) <;> simp [hp] <;> ifs
    all_goals ifs

theorem stringPrefix_eq (b : Builder) (s : String) :
    er (RefinementBuilder_StringPrefix b s) =
      er (Refine.step b (.stringPrefix (Strings.normalizeString (Strings.safeKnownPrefix s)))) := by
  unfold RefinementBuilder_StringPrefix
  rw [stringPrefixFull_eq]
  unfold Refine.step
  rfl


/-! ### numbers -/

/-- `if y.IsKnown() && y.True()` / `y.False()` on the result of a comparison the oracle may not answer -/
theorem kt_opt {β} (o : Option Bool) (k : Bool → Res β) :
    ((optRes (o.map boolVal)).bind fun y =>
      (if isKnown y = true then (RefineGo.isTrue y).bind fun z => Res.ok z else Res.ok false).bind k) =
    match o with
    | none => .unmodelled
    | some t => k t := by
  cases o <;> simp [optRes]

theorem kf_opt {β} (o : Option Bool) (k : Bool → Res β) :
    ((optRes (o.map boolVal)).bind fun y =>
      (if isKnown y = true then (RefineGo.isFalse y).bind fun z => Res.ok z else Res.ok false).bind k) =
    match o with
    | none => .unmodelled
    | some t => k (!t) := by
  cases o <;> simp [optRes]

theorem num?_v {g : GoVal} {m : Num} (h : num? g = some m) :
    g = .negInf ∧ m = .inf true ∨ g = .posInf ∧ m = .inf false ∨ ∃ x, g = .v x ∧ x.v = .n m := by
  cases g with
  | nilVal => simp [num?] at h
  | negInf => simp [num?] at h; exact .inl ⟨rfl, h.symm⟩
  | posInf => simp [num?] at h; exact .inr (.inl ⟨rfl, h.symm⟩)
  | v x =>
    refine .inr (.inr ⟨x, rfl, ?_⟩)
    unfold num? at h
    cases hx : x.v <;> simp [hx] at h
    rw [h]

section
variable {g1 g2 : GoVal} {m1 m2 : Num} (h1 : num? g1 = some m1) (h2 : num? g2 = some m2)
include h1 h2
theorem gt_num : greaterThan g1 g2 = .ok (boolVal (gt m1 m2)) := by
  rcases num?_v h2 with ⟨rfl, rfl⟩ | ⟨rfl, rfl⟩ | ⟨x, rfl, hx⟩ <;> simp [greaterThan, h1, *]
theorem lt_num : lessThan g1 g2 = .ok (boolVal (lt m1 m2)) := by
  rcases num?_v h2 with ⟨rfl, rfl⟩ | ⟨rfl, rfl⟩ | ⟨x, rfl, hx⟩ <;> simp [lessThan, h1, *]
theorem ge_num : greaterThanOrEqualTo g1 g2 = optRes ((ge? m1 m2).map boolVal) := by
  rcases num?_v h2 with ⟨rfl, rfl⟩ | ⟨rfl, rfl⟩ | ⟨x, rfl, hx⟩ <;> simp [greaterThanOrEqualTo, h1, *]
theorem le_num : lessThanOrEqualTo g1 g2 = optRes ((le? m1 m2).map boolVal) := by
  rcases num?_v h2 with ⟨rfl, rfl⟩ | ⟨rfl, rfl⟩ | ⟨x, rfl, hx⟩ <;> simp [lessThanOrEqualTo, h1, *]
theorem eq_num : equals g1 g2 = optRes ((numEq? m1 m2).map boolVal) := by
  simp [equals, h1, h2]
end

theorem optRes_some {α} (a : α) : optRes (some a) = .ok a := rfl

/-- `if gt := min.GreaterThan(b.orig); gt.IsKnown() && gt.True()` and its exclusive variant -/
theorem rejectsLower_incl {β} {g : GoVal} {m : Num} (h : num? g = some m) (o : Value) (k : Bool → Res β) :
    ((greaterThan g (.v o)).bind fun y =>
      (if isKnown y = true then (RefineGo.isTrue y).bind fun z => Res.ok z else Res.ok false).bind k) =
      (origRejectsLower o m true).bind k := by
  unfold origRejectsLower greaterThan
  simp only [h]
  cases o.v <;> simp
  case unk r =>
    by_cases h1 : gt m (origUpper r) = true <;> by_cases h2 : lt m (origLower r) = true <;> simp [h1, h2]

theorem rejectsLower_excl {β} {g : GoVal} {m : Num} (h : num? g = some m) (o : Value) (k : Bool → Res β) :
    ((greaterThanOrEqualTo g (.v o)).bind fun y =>
      (if isKnown y = true then (RefineGo.isTrue y).bind fun z => Res.ok z else Res.ok false).bind k) =
      (origRejectsLower o m false).bind k := by
  unfold origRejectsLower greaterThanOrEqualTo
  simp only [h]
  cases o.v <;> simp
  case n y => cases ge? m y <;> simp [optRes]
  case unk r => by_cases h1 : gt m (origUpper r) = true <;> simp [h1]

theorem rejectsUpper_incl {β} {g : GoVal} {m : Num} (h : num? g = some m) (o : Value) (k : Bool → Res β) :
    ((lessThan g (.v o)).bind fun y =>
      (if isKnown y = true then (RefineGo.isTrue y).bind fun z => Res.ok z else Res.ok false).bind k) =
      (origRejectsUpper o m true).bind k := by
  unfold origRejectsUpper lessThan
  simp only [h]
  cases o.v <;> simp
  case unk r =>
    by_cases h1 : gt m (origUpper r) = true <;> by_cases h2 : lt m (origLower r) = true <;> simp [h1, h2]

theorem rejectsUpper_excl {β} {g : GoVal} {m : Num} (h : num? g = some m) (o : Value) (k : Bool → Res β) :
    ((lessThanOrEqualTo g (.v o)).bind fun y =>
      (if isKnown y = true then (RefineGo.isTrue y).bind fun z => Res.ok z else Res.ok false).bind k) =
      (origRejectsUpper o m false).bind k := by
  unfold origRejectsUpper lessThanOrEqualTo
  simp only [h]
  cases o.v <;> simp
  case n y => cases le? m y <;> simp [optRes]
  case unk r => by_cases h1 : lt m (origLower r) = true <;> simp [h1]


theorem mkBound_num {g : GoVal} {m : Num} (h : num? g = some m) (inc : Bool) : mkBound g inc = .ok (some ⟨m, inc⟩) := by
  cases g <;> simp [num?] at h <;> simp [mkBound, num?, h]

@[simp] theorem mkBound_bound (lo : Option Bound) : mkBound (boundVal lo) (boundInc lo) = .ok lo := by
  cases lo <;> simp [mkBound, boundVal, boundInc, num?]

@[simp] theorem num?_bound (w : Bound) : num? (boundVal (some w)) = some w.v := rfl
@[simp] theorem isNilVal_bound (lo : Option Bound) : isNilVal (boundVal lo) = lo.isNone := by cases lo <;> rfl

theorem mkBound_ok {g : GoVal} {i : Bool} {lo : Option Bound} (h : mkBound g i = .ok lo) :
    (g = .nilVal ∧ i = false ∧ lo = none) ∨ ∃ m, num? g = some m ∧ lo = some ⟨m, i⟩ := by
  cases g with
  | nilVal => cases i <;> simp [mkBound] at h; exact .inl ⟨rfl, rfl, h.symm⟩
  | negInf => simp [mkBound, num?] at h; exact .inr ⟨_, rfl, h.symm⟩
  | posInf => simp [mkBound, num?] at h; exact .inr ⟨_, rfl, h.symm⟩
  | v x =>
    simp only [mkBound] at h
    cases hn : num? (.v x) with
    | none => simp [hn] at h
    | some m => simp [hn] at h; exact .inr ⟨m, rfl, h.symm⟩

/-- `assertConsistentBounds` on fields that hold the bounds `lo`, `hi` -/
theorem assert_eq {β} (n : Tri) {g1 g2 : GoVal} {i1 i2 : Bool} {lo hi : Option Bound}
    (h1 : mkBound g1 i1 = .ok lo) (h2 : mkBound g2 i2 = .ok hi) (k : Unit → Res β) :
    (refinementNumber_assertConsistentBounds n g1 g2 i1 i2).bind k =
    match consistent? lo hi with
    | none => .unmodelled
    | some false => .panic "number lower bound %#v is greater than upper bound %#v"
    | some true => k () := by
  unfold refinementNumber_assertConsistentBounds
  rcases mkBound_ok h1 with ⟨rfl, rfl, rfl⟩ | ⟨m1, hm1, rfl⟩
  · simp [isNilVal, consistent?]
  · rcases mkBound_ok h2 with ⟨rfl, rfl, rfl⟩ | ⟨m2, hm2, rfl⟩
    · simp [isNilVal, consistent?]
    · have n1 : isNilVal g1 = false := by cases g1 <;> simp [num?] at hm1 <;> rfl
      have n2 : isNilVal g2 = false := by cases g2 <;> simp [num?] at hm2 <;> rfl
      simp only [n1, n2, Bool.or_self, Bool.false_eq_true, if_false, consistent?, le_num hm1 hm2, lt_num hm1 hm2]
      by_cases hi : (i1 && i2) = true
      · simp only [hi, if_true]
        cases le? m1 m2 with
        | none => simp [optRes]
        | some t => cases t <;> simp [optRes]
      · simp only [hi, if_false]
        cases lt m1 m2 <;> simp


theorem lower_num (b : Builder) (hd : b.isDyn = false) (n : Tri) (lo hi : Option Bound) (hw : b.wip = .num n lo hi)
    {g : GoVal} {m : Num} (hg : num? g = some m) (hk : isKnown g = true) (hn : isNull g = false) (incl : Bool) :
    er (RefinementBuilder_NumberRangeLowerBound b g incl) = er (lowerCore b n lo hi m incl (!isNegInf g)) := by
  unfold RefinementBuilder_NumberRangeLowerBound
  rw [refineable_eq]
  simp only [hd, hw, hk, hn, Bool.false_eq_true, if_false, reduceCtorEq, rbind_ok, Bool.not_true, Bool.not_false, if_true]
  simp only [rejectsLower_incl hg, rejectsLower_excl hg, mk_wip hw, assert_eq n (mkBound_num hg incl) (mkBound_bound hi),
    assert_eq n (mkBound_bound lo) (mkBound_bound hi), mkBound_num hg incl, rbind_ok]
  unfold lowerCore
  have hb := mk_wip hw
  cases lo with
  | none =>
    simp only [isNilVal_bound, Option.isNone, Bool.not_true, Bool.false_eq_true, if_false, lowerTighter?]
    cases incl <;> simp only [if_true, if_false, Bool.false_eq_true] <;>
      (cases origRejectsLower b.orig m _ with
       | ok t => cases t <;> simp <;> cases isNegInf g <;> simp <;> ifs
       | _ => simp)
  | some w =>
    simp only [isNilVal_bound, Option.isNone, Bool.not_false, if_true, lowerTighter?, gt_num hg (num?_bound w),
      ge_num hg (num?_bound w), kf_opt, rbind_ok, kf_bool, boundInc]
    cases incl <;> cases hi' : isNegInf g <;> cases hwi : w.incl <;>
      simp only [if_true, if_false, Bool.false_eq_true, Bool.and_false, Bool.and_true, Bool.not_true, Bool.not_false, Bool.false_and, Bool.true_and] <;>
      (cases origRejectsLower b.orig m _ with
       | ok t => cases t <;> simp <;> ifs
       | _ => simp)

theorem upper_num (b : Builder) (hd : b.isDyn = false) (n : Tri) (lo hi : Option Bound) (hw : b.wip = .num n lo hi)
    {g : GoVal} {m : Num} (hg : num? g = some m) (hk : isKnown g = true) (hn : isNull g = false) (incl : Bool) :
    er (RefinementBuilder_NumberRangeUpperBound b g incl) = er (upperCore b n lo hi m incl (!isPosInf g)) := by
  unfold RefinementBuilder_NumberRangeUpperBound
  rw [refineable_eq]
  simp only [hd, hw, hk, hn, Bool.false_eq_true, if_false, reduceCtorEq, rbind_ok, Bool.not_true, Bool.not_false, if_true]
  simp only [rejectsUpper_incl hg, rejectsUpper_excl hg, mk_wip hw, assert_eq n (mkBound_bound lo) (mkBound_num hg incl),
    assert_eq n (mkBound_bound lo) (mkBound_bound hi), mkBound_num hg incl, rbind_ok]
  unfold upperCore
  have hb := mk_wip hw
  cases hi with
  | none =>
    simp only [isNilVal_bound, Option.isNone, Bool.not_true, Bool.false_eq_true, if_false, upperTighter?]
    cases incl <;> simp only [if_true, if_false, Bool.false_eq_true] <;>
      (cases origRejectsUpper b.orig m _ with
       | ok t => cases t <;> simp <;> cases isPosInf g <;> simp <;> ifs
       | _ => simp)
  | some w =>
    simp only [isNilVal_bound, Option.isNone, Bool.not_false, if_true, upperTighter?, lt_num hg (num?_bound w),
      le_num hg (num?_bound w), kf_opt, rbind_ok, kf_bool, boundInc]
    cases incl <;> cases hi' : isPosInf g <;> cases hwi : w.incl <;>
      simp only [if_true, if_false, Bool.false_eq_true, Bool.and_false, Bool.and_true, Bool.not_true, Bool.not_false, Bool.false_and, Bool.true_and] <;>
      (cases origRejectsUpper b.orig m _ with
       | ok t => cases t <;> simp <;> ifs
       | _ => simp)


theorem numLower_eq (b : Builder) (a : NumArg) (incl : Bool) :
    er (RefinementBuilder_NumberRangeLowerBound b (ofArg a) incl) = er (Refine.step b (.numLower a incl)) := by
  by_cases hd : b.isDyn = true
  · unfold RefinementBuilder_NumberRangeLowerBound Refine.step
    rw [refineable_eq]; simp [hd]
  · have hd' : b.isDyn = false := by simpa using hd
    cases hw : b.wip with
    | num n lo hi =>
      cases a with
      | known m =>
        rw [lower_num b hd' n lo hi hw (g := ofArg (.known m)) rfl rfl rfl]
        simp [Refine.step, hd', hw, step1, stepNumLower, ofArg, isNegInf]
      | negInf =>
        rw [lower_num b hd' n lo hi hw (g := ofArg .negInf) rfl rfl rfl]
        simp [Refine.step, hd', hw, step1, stepNumLower, ofArg, isNegInf]
      | posInf =>
        rw [lower_num b hd' n lo hi hw (g := ofArg .posInf) rfl rfl rfl]
        simp [Refine.step, hd', hw, step1, stepNumLower, ofArg, isNegInf]
      | unknown =>
        unfold RefinementBuilder_NumberRangeLowerBound Refine.step
        rw [refineable_eq]
        simp [hd', hw, step1, stepNumLower, ofArg, Value.isKnown, Payload.isKnown, Payload.unmark1, mk_wip hw]
      | null =>
        unfold RefinementBuilder_NumberRangeLowerBound Refine.step
        rw [refineable_eq]
        simp [hd', hw, step1, stepNumLower, ofArg, Value.isKnown, Payload.isKnown, Payload.unmark1, Value.isNull, Payload.isNull]
    | _ =>
      unfold RefinementBuilder_NumberRangeLowerBound Refine.step
      rw [refineable_eq]
      simp [hd', hw, step1, stepNumLower]

theorem numUpper_eq (b : Builder) (a : NumArg) (incl : Bool) :
    er (RefinementBuilder_NumberRangeUpperBound b (ofArg a) incl) = er (Refine.step b (.numUpper a incl)) := by
  by_cases hd : b.isDyn = true
  · unfold RefinementBuilder_NumberRangeUpperBound Refine.step
    rw [refineable_eq]; simp [hd]
  · have hd' : b.isDyn = false := by simpa using hd
    cases hw : b.wip with
    | num n lo hi =>
      cases a with
      | known m =>
        rw [upper_num b hd' n lo hi hw (g := ofArg (.known m)) rfl rfl rfl]
        simp [Refine.step, hd', hw, step1, stepNumUpper, ofArg, isPosInf]
      | negInf =>
        rw [upper_num b hd' n lo hi hw (g := ofArg .negInf) rfl rfl rfl]
        simp [Refine.step, hd', hw, step1, stepNumUpper, ofArg, isPosInf]
      | posInf =>
        rw [upper_num b hd' n lo hi hw (g := ofArg .posInf) rfl rfl rfl]
        simp [Refine.step, hd', hw, step1, stepNumUpper, ofArg, isPosInf]
      | unknown =>
        unfold RefinementBuilder_NumberRangeUpperBound Refine.step
        rw [refineable_eq]
        simp [hd', hw, step1, stepNumUpper, ofArg, Value.isKnown, Payload.isKnown, Payload.unmark1, mk_wip hw]
      | null =>
        unfold RefinementBuilder_NumberRangeUpperBound Refine.step
        rw [refineable_eq]
        simp [hd', hw, step1, stepNumUpper, ofArg, Value.isKnown, Payload.isKnown, Payload.unmark1, Value.isNull, Payload.isNull]
    | _ =>
      unfold RefinementBuilder_NumberRangeUpperBound Refine.step
      rw [refineable_eq]
      simp [hd', hw, step1, stepNumUpper]


theorem numRangeInclusive_eq (b : Builder) (lo hi : NumArg) :
    er (RefinementBuilder_NumberRangeInclusive b (ofArg lo) (ofArg hi)) = er (Refine.step b (.numRangeInclusive lo hi)) := by
  unfold RefinementBuilder_NumberRangeInclusive
  rw [← step_seq b (.numLower lo true) (.numUpper hi true) (.numRangeInclusive lo hi) (fun _ => rfl)]
  · exact er_bind_congr (numLower_eq b lo true) (fun a _ => numUpper_eq a hi true)
  · intro b0 b' h
    have hb := stepNumLower_base h
    refine ⟨Builder.isDyn_congr hb.1, fun _ => ?_⟩
    obtain ⟨n, l, u, hw, hc⟩ := stepNumLower_ok h
    rcases hc with ⟨_, rfl⟩ | ⟨m, _, hcore⟩
    · simp [hw]
    · obtain ⟨_, hc⟩ := lowerCore_ok hcore
      rcases hc with ⟨rfl, _⟩ | ⟨_, rfl, _⟩ <;> simp [hw]

/-- every call of the model's vocabulary: the translated method does what `Refine.step` does
(`ext`: the external string functions applied to the argument, as the source applies them) -/
def ext : RefineCall → RefineCall
  | .stringPrefix p => .stringPrefix (Strings.normalizeString (Strings.safeKnownPrefix p))
  | .stringPrefixFull p => .stringPrefixFull (Strings.normalizeString p)
  | c => c

theorem step_eq (b : Builder) (c : RefineCall) :
    er (Generated.RefineFns.step b c) = er (Refine.step b (ext c)) := by
  cases c <;> simp only [Generated.RefineFns.step, ext]
  · exact notNull_eq b
  · exact null_eq b
  · exact numLower_eq b _ _
  · exact numUpper_eq b _ _
  · exact numRangeInclusive_eq b _ _
  · exact lenLower_eq b _
  · exact lenUpper_eq b _
  · exact collectionLength_eq b _
  · exact stringPrefix_eq b _
  · exact stringPrefixFull_eq b _

theorem run_eq (cs : List RefineCall) : ∀ b : Builder,
    er (Generated.RefineFns.run b cs) = er (Refine.run b (cs.map ext)) := by
  induction cs with
  | nil => intro b; rfl
  | cons c cs ih =>
    intro b
    simp only [Generated.RefineFns.run, Refine.run, List.map]
    exact er_bind_congr (step_eq b c) (fun a _ => ih a)


/-! ### `Value.Refine` -/

theorem copy_eq (r : Rfn) (h : r ≠ .unref) :
    (match r with
      | Rfn.nullable n => refinementNullable_copy n
      | Rfn.str n p => refinementString_copy n p
      | Rfn.num n lo hi => refinementNumber_copy n (boundVal lo) (boundVal hi) (boundInc lo) (boundInc hi)
      | Rfn.coll n lo hi => refinementCollection_copy n lo hi
      | Rfn.unref => Res.panic "invalid memory address or nil pointer dereference") = .ok r := by
  cases r <;> simp [refinementNullable_copy, refinementString_copy, refinementNumber_copy, refinementCollection_copy] at h ⊢

theorem value_eta (u : Value) {t : Ty} {p : Payload} (ht : u.ty = t) (hv : u.v = p) : u = ⟨t, p⟩ := by
  cases u; cases ht; cases hv; rfl

theorem init_eq (v : Value) (h : Refine.init v ≠ .unmodelled) : Generated.RefineFns.init v = Refine.init v := by
  unfold Generated.RefineFns.init Value_Refine Refine.init at *
  simp only [unmark] at *
  cases hv : v.unmark.v
  case unk r =>
    by_cases hr : r = .unref
    · subst hr
      simp only [hv, unknownRefinement, isNil, rbind_ok, Payload.isMarked]
      cases ht : v.unmark.ty <;>
        simp [hv, ht, typeOf, toValue?, toValue, optRes, freshWip, Value.isKnown,
          Payload.isKnown, Value.isNull, Payload.isNull, Payload.unmark1, mkBound, isString, isNumber, isBool, isObjectType,
          isTupleType, isCapsuleType, TyGo.isCollectionType, Ty.isDyn, Value.dynVal]
      exact (value_eta _ ht hv).symm
    · simp [hv, hr, Payload.isMarked] at h
      have hk : kindOk v.unmark.ty r = true := by
        cases hk : kindOk v.unmark.ty r
        · simp [hk] at h
        · rfl
      simp only [hv, unknownRefinement, rbind_ok, Payload.isMarked]
      cases r <;> simp [isNil, hk, toValue, toValue?, optRes, refinementNullable_copy, refinementString_copy,
        refinementNumber_copy, refinementCollection_copy] at hr ⊢
  case marked ms p => simp [hv, Payload.isMarked] at h
  case bad w => simp [hv, Payload.isMarked] at h
  all_goals
    simp only [hv, unknownRefinement, rbind_ok, Payload.isMarked]
    cases ht : v.unmark.ty <;>
      simp [hv, ht, typeOf, toValue?, toValue, optRes, freshWip, Value.isKnown,
        Payload.isKnown, Value.isNull, Payload.isNull, Payload.unmark1, mkBound, isString, isNumber, isBool, isObjectType,
        isTupleType, isCapsuleType, TyGo.isCollectionType, Ty.isDyn, Value.dynVal]


/-! ### `NewValue` -/

theorem toValues_replicate (x : Value) : ∀ n : Nat, toValues (List.replicate n (GoVal.v x)) = some (List.replicate n x)
  | 0 => rfl
  | n + 1 => by simp [List.replicate_succ, toValues, toValue?, toValues_replicate x n]

theorem sliceSet_at (pre post : List GoVal) (a c : GoVal) :
    sliceSet (pre ++ a :: post) (pre.length : Int) c = .ok (pre ++ c :: post) := by
  unfold sliceSet
  have : (0 : Int) ≤ pre.length ∧ (pre.length : Int).toNat < (pre ++ a :: post).length := by
    constructor
    · omega
    · simp
  simp [this]

/-- the loop of `NewValue`: every element of the fresh slice is assigned the unknown element -/
theorem newValue_loop (b : Builder) (e : Ty) : ∀ (rest pre : List GoVal),
    RefinementBuilder_NewValue_loop1 b e (pre ++ List.replicate rest.length .nilVal) (pre.length : Int) rest =
      (listVal (pre ++ List.replicate rest.length (unknownVal e))).bind fun x =>
        (withMarks x b.marks).bind fun y => .ok y
  | [], pre => by simp [RefinementBuilder_NewValue_loop1]
  | r :: rest, pre => by
    have ih := newValue_loop b e rest (pre ++ [unknownVal e])
    simp only [List.length_cons, List.replicate_succ, RefinementBuilder_NewValue_loop1, sliceSet_at, rbind_ok]
    simp only [List.length_append, List.length_singleton, List.append_assoc, List.singleton_append, Int.natCast_add,
      Int.natCast_one] at ih
    exact ih


@[simp] theorem withMarks_v (x : Value) (ms : List String) : withMarks (.v x) ms = .ok (.v (x.withMarks ms)) := rfl
@[simp] theorem toValue_v (x : Value) : toValue (.v x) = .ok x := rfl
@[simp] theorem typeOf_v (x : Value) : typeOf (.v x) = .ok x.ty := rfl

theorem isDynamicVal_v (b : Builder) : isDynamicVal (.v b.orig) = b.isDyn := rfl

theorem newValue_eq (b : Builder) (hwf : b.wf = true) :
    er (Generated.RefineFns.newValue b) = er (Refine.newValue b) := by
  unfold Generated.RefineFns.newValue RefinementBuilder_NewValue Refine.newValue
  simp only [isKnown_v, isDynamicVal_v]
  by_cases hk : (b.orig.isKnown || b.isDyn) = true
  · simp [hk]
  · simp only [hk, Bool.false_eq_true, if_false]
    have hkind : kindOk b.orig.ty b.wip = true := by
      unfold Builder.wf at hwf
      simp only [Bool.or_eq_true, not_or] at hk
      simp [hk.1] at hwf
      exact hwf.2
    cases hw : b.wip with
    | unref => simp
    | nullable n => cases n <;> simp [refinementNullable_null, refinementNullable_copy, Rfn.nullness, nullVal, unknownWith, collapse]
    | str n p => cases n <;> simp [refinementNullable_null, refinementString_copy, Rfn.nullness, nullVal, unknownWith, collapse]
    | num n lo hi =>
      have hty : b.orig.ty = .number := by
        rw [hw] at hkind; cases ht : b.orig.ty <;> simp [kindOk, ht] at hkind ⊢
      cases n <;> simp [refinementNullable_null, refinementNumber_copy, Rfn.nullness, nullVal, unknownWith, collapse]
      cases lo <;> cases hi <;> simp [boundInc, isNilVal, boundVal]
      rename_i l h
      simp only [eq_num (g1 := GoVal.v ⟨Ty.number, Payload.n l.v⟩) (g2 := GoVal.v ⟨Ty.number, Payload.n h.v⟩) rfl rfl, kt_opt]
      rw [hty]
      by_cases hi2 : h.incl = true ∧ l.incl = true
      · simp only [hi2, and_self, if_true]
        cases numEq? l.v h.v with
        | none => simp
        | some t => cases t <;> simp
      · simp [hi2]
    | coll n lo hi =>
      cases n <;> simp [refinementNullable_null, refinementCollection_copy, Rfn.nullness, nullVal, unknownWith, collapse]
      by_cases h1 : lo = hi
      · subst h1
        by_cases h0 : lo = 0
        · subst h0
          cases ht : b.orig.ty <;>
            simp [isListType, isSetType, isMapType, TyGo.elementType, listValEmpty, setValEmpty, mapValEmpty]
        · simp only [h0, if_false, if_true]
          cases ht : b.orig.ty <;>
            simp [isListType, isSetType, isMapType, TyGo.elementType, listValEmpty, setValEmpty, mapValEmpty]
          case list e =>
            by_cases hneg : lo < 0
            · simp [makeSlice, hneg]
            · obtain ⟨k, rfl⟩ := Int.eq_ofNat_of_zero_le (by omega : 0 ≤ lo)
              have hk0 : k ≠ 0 := by intro e0; apply h0; simp [e0]
              have hl := newValue_loop b e (List.replicate k GoVal.nilVal) []
              simp only [List.length_replicate, List.nil_append, List.length_nil, Int.natCast_zero] at hl
              have hneg' : ¬ ((k : Int) < 0) := by omega
              simp only [makeSlice, hneg', if_false, rbind_ok, Int.toNat_natCast, hl]
              obtain ⟨j, rfl⟩ := Nat.exists_eq_succ_of_ne_zero hk0
              have ht2 := toValues_replicate ⟨e, Payload.unk Rfn.unref⟩ (j + 1)
              simp only [List.replicate_succ] at ht2
              simp [listVal, unknownVal, Value.unknown, List.replicate_succ, ht2]
          case set e =>
            by_cases h11 : lo = 1
            · subst h11; simp [setVal, unknownVal, Value.unknown]
            · simp [h11]
      · simp [h1]


/-! ### `rawEqual` -/

theorem rawEquals_bound (lo lo' : Option Bound) :
    rawEquals (boundVal lo) (boundVal lo') = .ok (rfnBoundRawEq lo lo') := by
  cases lo <;> cases lo' <;> simp [rawEquals, boundVal, rfnBoundRawEq, num?]

theorem boundInc_eq (lo : Option Bound) : boundInc lo = (lo.map (·.incl)).getD false := by cases lo <;> rfl

/-- `a.rawEqual(b)` as written in the source is the model's `rfnRawEq` (used by `Value.RawEquals`, C03) -/
theorem rawEqual_eq (a b : Rfn) (ha : a ≠ .unref) : Generated.RefineFns.rawEqual a b = .ok (rfnRawEq a b) := by
  cases a <;> cases b <;>
    simp [Generated.RefineFns.rawEqual, refinementNullable_rawEqual, refinementString_rawEqual, refinementNumber_rawEqual,
      refinementCollection_rawEqual, rfnRawEq, rawEquals_bound, boundInc_eq] at ha ⊢
  case str.str n p n' p' => by_cases h : p = p' <;> simp [h]
  case coll.coll n lo hi n' lo' hi' => by_cases h1 : lo = lo' <;> by_cases h2 : hi = hi' <;> simp [h1, h2]
  case num.num n lo hi n' lo' hi' =>
    by_cases h : n = n' <;> simp [h]
    cases rfnBoundRawEq lo lo' <;> simp


/-! ### end to end -/

/-- the values `Value.Refine` is modelled on: at most one marker layer, a payload of a kind the type can
have, a refinement struct of the kind the type calls for -/
def Modelled (v : Value) : Prop := Refine.init v ≠ .unmodelled

theorem refine_eq (v : Value) (cs : List RefineCall) (h : Modelled v) :
    er (Generated.RefineFns.refine v cs) = er (Refine.refine v (cs.map ext)) := by
  unfold Generated.RefineFns.refine Refine.refine
  rw [init_eq v h]
  cases hi : Refine.init v with
  | ok b =>
    simp only [rbind_ok]
    refine er_bind_congr (run_eq cs b) (fun b' hb' => newValue_eq b' ?_)
    exact (run_base_any hb').2.1 (init_ok hi).2.2.1
  | err e => rfl
  | panic w => rfl
  | unmodelled => rfl

/-- `v.RefineNotNull()` is `v.Refine().NotNull().NewValue()` -/
theorem refineNotNull_eq (v : Value) (h : Modelled v) :
    er ((Value_RefineNotNull (.v v)).bind toValue) = er (Refine.refine v [.notNull]) := by
  have := refine_eq v [.notNull] h
  simp only [Generated.RefineFns.refine, Generated.RefineFns.run, Generated.RefineFns.step, Generated.RefineFns.init,
    Generated.RefineFns.newValue, List.map, ext] at this
  rw [← this]
  unfold Value_RefineNotNull
  cases Value_Refine (GoVal.v v) with
  | ok b => simp only [rbind_ok]; cases RefinementBuilder_NotNull b <;> rfl
  | _ => rfl

end RefineFnsTie
end CtyModel
