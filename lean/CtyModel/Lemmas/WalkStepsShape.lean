/-
A successful step returns a shaped value of a well-formed type again, so the
one-step theorem (`step_ok_iff`) iterates along a whole path (`apply_ok_iff`).
-/
import CtyModel.Lemmas.WalkSteps
import CtyModel.Lemmas.WalkTrans
namespace CtyModel
namespace Walk
open Value

theorem shaped_withMarks {t : Ty} {p : Payload} (h : shaped t p = true) (L : List String) :
    shaped t (p.withMarks L) = true := by
  simp only [Payload.withMarks]
  split
  · exact h
  · rename_i hne
    simp only [shaped, Bool.and_eq_true, Bool.not_eq_true', shaped_unmark1 h,
      shaped_unmark1_notMarked h, and_true]
    simpa using hne

/-- what the mark prologue returns: the operation's result, possibly re-marked -/
theorem binMarks_result (f : Value → Value → Res Value) (a k r' : Value)
    (h : binMarks f a k = .ok r') :
    ∃ r, f a.unmark k.unmark = .ok r ∧ (r' = r ∨ ∃ L, r' = r.withMarks L) := by
  simp only [binMarks] at h
  by_cases hm : (a.isMarked || k.isMarked) = true
  · simp only [hm, if_true] at h
    cases hf : f a.unmark k.unmark with
    | ok r =>
      rw [hf] at h
      simp only [Res.map, Res.ok.injEq] at h
      exact ⟨r, rfl, Or.inr ⟨_, h.symm⟩⟩
    | err c => rw [hf] at h; cases h
    | panic w => rw [hf] at h; cases h
    | unmodelled => rw [hf] at h; cases h
  · simp only [hm, Bool.false_eq_true, if_false] at h
    simp only [Bool.or_eq_true, not_or, Bool.not_eq_true] at hm
    rw [unmark_of_not_marked a hm.1, unmark_of_not_marked k hm.2]
    exact ⟨r', h, Or.inl rfl⟩

theorem getAttr_result (a r' : Value) (n : String) (h : Value.getAttr a n = .ok r') :
    ∃ r, getAttrU a.unmark n = .ok r ∧ (r' = r ∨ ∃ L, r' = r.withMarks L) := by
  simp only [Value.getAttr] at h
  by_cases ha : a.isMarked = true
  · simp only [ha, if_true] at h
    cases hf : getAttrU a.unmark n with
    | ok r =>
      rw [hf] at h
      simp only [Res.map, Res.ok.injEq] at h
      exact ⟨r, rfl, Or.inr ⟨_, h.symm⟩⟩
    | err c => rw [hf] at h; cases h
    | panic w => rw [hf] at h; cases h
    | unmodelled => rw [hf] at h; cases h
  · have ha' : a.isMarked = false := by simpa using ha
    simp only [ha', Bool.false_eq_true, if_false] at h
    rw [unmark_of_not_marked a ha']
    exact ⟨r', h, Or.inl rfl⟩

theorem remarked_shaped {r r' : Value} (h : r' = r ∨ ∃ L, r' = r.withMarks L)
    (hs : shapedV r = true) (hw : Ty.wf r.ty = true) : shapedV r' = true ∧ Ty.wf r'.ty = true := by
  rcases h with rfl | ⟨L, rfl⟩
  · exact ⟨hs, hw⟩
  · exact ⟨shaped_withMarks hs L, hw⟩

theorem shapedZip_get : ∀ {ts : List Ty} {vs : List Payload} {i : Nat} {t : Ty} {p : Payload},
    shapedZip ts vs = true → ts[i]? = some t → vs[i]? = some p → shaped t p = true
  | [], _, _, _, _, _, h, _ => by simp at h
  | _ :: _, [], _, _, _, _, _, h => by simp at h
  | t' :: ts, v :: vs, 0, t, p, hs, ht, hp => by
    simp only [List.getElem?_cons_zero, Option.some.injEq] at ht hp
    simp only [shapedZip, Bool.and_eq_true] at hs
    rw [← ht, ← hp]; exact hs.1
  | t' :: ts, v :: vs, i + 1, t, p, hs, ht, hp => by
    simp only [List.getElem?_cons_succ] at ht hp
    simp only [shapedZip, Bool.and_eq_true] at hs
    exact shapedZip_get hs.2 ht hp

theorem lookupKey_mem : ∀ {ks : List String} {vs : List Payload} {k : String} {p : Payload},
    lookupKey k ks vs = some p → p ∈ vs
  | [], _, _, _, h => by simp [lookupKey] at h
  | _ :: _, [], _, _, h => by simp [lookupKey] at h
  | k' :: ks, v :: vs, k, p, h => by
    simp only [lookupKey] at h
    split at h
    · simp only [Option.some.injEq] at h; simp [h]
    · exact List.mem_cons_of_mem _ (lookupKey_mem h)

/-- attribute lookup by name in the parallel lists of a shaped object -/
theorem find_lookup_shaped : ∀ {ns : List String} {ts : List Ty} {os : List Bool} {vs : List Payload}
    {n : String} {t : Ty} {o : Bool} {p : Payload},
    shapedZip ts vs = true → Ty.find n ns ts os = some (t, o) → lookupKey n ns vs = some p →
    shaped t p = true
  | [], _, _, _, _, _, _, _, _, h, _ => by simp [Ty.find] at h
  | _ :: _, [], _, _, _, _, _, _, _, h, _ => by simp [Ty.find] at h
  | _ :: _, _ :: _, [], _, _, _, _, _, _, h, _ => by simp [Ty.find] at h
  | _ :: _, _ :: _, _ :: _, [], _, _, _, _, _, _, h => by simp [lookupKey] at h
  | n' :: ns, t' :: ts, o' :: os, v :: vs, n, t, o, p, hs, hf, hl => by
    simp only [shapedZip, Bool.and_eq_true] at hs
    simp only [Ty.find, lookupKey] at hf hl
    by_cases hn : n' = n
    · simp only [hn, if_true, Option.some.injEq, Prod.mk.injEq] at hf hl
      rw [← hf.1, ← hl]; exact hs.1
    · simp only [hn, if_false] at hf hl
      exact find_lookup_shaped hs.2 hf hl

theorem find_ty_mem : ∀ {ns : List String} {ts : List Ty} {os : List Bool} {n : String} {t : Ty} {o : Bool},
    Ty.find n ns ts os = some (t, o) → t ∈ ts
  | [], _, _, _, _, _, h => by simp [Ty.find] at h
  | _ :: _, [], _, _, _, _, h => by simp [Ty.find] at h
  | _ :: _, _ :: _, [], _, _, _, h => by simp [Ty.find] at h
  | n' :: ns, t' :: ts, o' :: os, n, t, o, h => by
    simp only [Ty.find] at h
    split at h
    · simp only [Option.some.injEq, Prod.mk.injEq] at h; simp [h.1]
    · exact List.mem_cons_of_mem _ (find_ty_mem h)

theorem unknown_shaped (t : Ty) : shapedV (Value.unknown t) = true := by
  simp [shapedV, Value.unknown, shaped]

theorem getAttrU_shaped (t : Ty) (raw : Payload) (n : String) (r : Value)
    (hs : shaped t raw = true) (hw : Ty.wf t = true)
    (h : getAttrU ⟨t, raw⟩ n = .ok r) : shapedV r = true ∧ Ty.wf r.ty = true := by
  cases t <;> simp only [getAttrU, Ty.isDyn, Bool.false_eq_true, if_false, if_true, Res.ok.injEq] at h <;>
    try (cases h; done)
  · -- dyn
    subst h; exact ⟨rfl, rfl⟩
  · -- object
    rename_i ns ts os
    simp only [Ty.wf, Bool.and_eq_true] at hw
    cases hf : Ty.find n ns ts os with
    | none => simp [hf] at h
    | some to =>
      obtain ⟨aty, o⟩ := to
      have hwa : Ty.wf aty = true := wfL_mem hw.2 aty (find_ty_mem hf)
      simp only [hf] at h
      split at h
      · simp only [Res.ok.injEq] at h; subst h; exact ⟨unknown_shaped aty, hwa⟩
      · cases raw with
        | smap ks vs =>
          simp only [shaped, Bool.and_eq_true, beq_iff_eq] at hs
          obtain ⟨⟨⟨⟨⟨rfl, _⟩, _⟩, _⟩, _⟩, hz⟩ := hs
          cases hl : lookupKey n ks vs with
          | none =>
            simp only [hl, Res.ok.injEq] at h
            subst h
            exact ⟨by simp [shapedV, shaped], hwa⟩
          | some p =>
            simp only [hl, Res.ok.injEq] at h
            subst h
            exact ⟨find_lookup_shaped hz hf hl, hwa⟩
        | _ => simp at h

theorem null_shaped (t : Ty) : shapedV ⟨t, .null⟩ = true := by simp [shapedV, shaped]

theorem getElem?_mem_shaped {e : Ty} {vs : List Payload} {i : Nat} {p : Payload}
    (hs : shapedAll e vs = true) (h : vs[i]? = some p) : shaped e p = true :=
  shapedAll_mem hs p (List.mem_of_getElem? h)

theorem indexU_list_shaped (e : Ty) (raw : Payload) (x : Num) (r : Value)
    (hs : shaped (.list e) raw = true) (hm : raw.isMarked = false) (hw : Ty.wf e = true)
    (h : indexU ⟨.list e, raw⟩ ⟨.number, .n x⟩ = .ok r) : shapedV r = true ∧ Ty.wf r.ty = true := by
  obtain ⟨o, ho⟩ := keyIndex_num x
  cases raw with
  | marked ms real => simp [Payload.isMarked] at hm
  | null =>
    cases o <;>
      simp [indexU, Ty.isDyn, Ty.isNumber, Value.isKnown, Payload.isKnown, Payload.unmark1, ho, bind,
        Res.bind] at h
  | unk rf =>
    simp [indexU, Ty.isDyn, Ty.isNumber, Value.isKnown, Payload.isKnown, Payload.unmark1] at h
    subst h; exact ⟨unknown_shaped e, hw⟩
  | seq vs =>
    simp only [shaped, Bool.and_eq_true] at hs
    cases o with
    | none =>
      simp [indexU, Ty.isDyn, Ty.isNumber, Value.isKnown, Payload.isKnown, Payload.unmark1, ho, bind,
        Res.bind] at h
    | some i =>
      cases hp : vs[i]? with
      | none =>
        simp [indexU, Ty.isDyn, Ty.isNumber, Value.isKnown, Payload.isKnown, Payload.unmark1, ho, bind,
          Res.bind, hp] at h
      | some p =>
        simp [indexU, Ty.isDyn, Ty.isNumber, Value.isKnown, Payload.isKnown, Payload.unmark1, ho, bind,
          Res.bind, hp] at h
        subst h
        exact ⟨getElem?_mem_shaped hs.2 hp, hw⟩
  | _ =>
    cases o <;>
      simp [indexU, Ty.isDyn, Ty.isNumber, Value.isKnown, Payload.isKnown, Payload.unmark1, ho, bind,
        Res.bind] at h

theorem indexU_tuple_shaped (ts : List Ty) (raw : Payload) (x : Num) (r : Value)
    (hs : shaped (.tuple ts) raw = true) (hm : raw.isMarked = false) (hw : Ty.wfL ts = true)
    (h : indexU ⟨.tuple ts, raw⟩ ⟨.number, .n x⟩ = .ok r) : shapedV r = true ∧ Ty.wf r.ty = true := by
  obtain ⟨o, ho⟩ := keyIndex_num x
  cases o with
  | none =>
    simp [indexU, Ty.isDyn, Ty.isNumber, Value.isKnown, Payload.isKnown, Payload.unmark1, ho, bind,
      Res.bind] at h
  | some i =>
    cases ht : ts[i]? with
    | none =>
      simp [indexU, Ty.isDyn, Ty.isNumber, Value.isKnown, Payload.isKnown, Payload.unmark1, ho, bind,
        Res.bind, ht] at h
    | some ety =>
      have hwe : Ty.wf ety = true := wfL_mem hw ety (List.mem_of_getElem? ht)
      cases raw with
      | marked ms real => simp [Payload.isMarked] at hm
      | null =>
        simp [indexU, Ty.isDyn, Ty.isNumber, Value.isKnown, Payload.isKnown, Payload.unmark1, ho, bind,
          Res.bind, ht] at h
      | unk rf =>
        simp [indexU, Ty.isDyn, Ty.isNumber, Value.isKnown, Payload.isKnown, Payload.unmark1, ho, bind,
          Res.bind, ht] at h
        subst h; exact ⟨unknown_shaped ety, hwe⟩
      | seq vs =>
        simp only [shaped, Bool.and_eq_true] at hs
        cases hp : vs[i]? with
        | none =>
          simp [indexU, Ty.isDyn, Ty.isNumber, Value.isKnown, Payload.isKnown, Payload.unmark1, ho, bind,
            Res.bind, ht, hp] at h
        | some p =>
          simp [indexU, Ty.isDyn, Ty.isNumber, Value.isKnown, Payload.isKnown, Payload.unmark1, ho, bind,
            Res.bind, ht, hp] at h
          subst h
          exact ⟨shapedZip_get hs.2 ht hp, hwe⟩
      | _ =>
        simp [indexU, Ty.isDyn, Ty.isNumber, Value.isKnown, Payload.isKnown, Payload.unmark1, ho, bind,
          Res.bind, ht] at h

theorem indexU_map_shaped (e : Ty) (raw : Payload) (key : String) (r : Value)
    (hs : shaped (.map e) raw = true) (hm : raw.isMarked = false) (hw : Ty.wf e = true)
    (h : indexU ⟨.map e, raw⟩ ⟨.string, .s key⟩ = .ok r) : shapedV r = true ∧ Ty.wf r.ty = true := by
  cases raw with
  | marked ms real => simp [Payload.isMarked] at hm
  | null =>
    simp [indexU, Ty.isDyn, Ty.isString, Value.isKnown, Payload.isKnown, Payload.unmark1] at h
  | unk rf =>
    simp [indexU, Ty.isDyn, Ty.isString, Value.isKnown, Payload.isKnown, Payload.unmark1] at h
    subst h; exact ⟨unknown_shaped e, hw⟩
  | smap ks vs =>
    simp only [shaped, Bool.and_eq_true] at hs
    simp [indexU, Ty.isDyn, Ty.isString, Value.isKnown, Payload.isKnown, Payload.unmark1] at h
    subst h
    cases hl : lookupKey key ks vs with
    | none => exact ⟨null_shaped e, hw⟩
    | some p => exact ⟨shapedAll_mem hs.2 p (lookupKey_mem hl), hw⟩
  | _ =>
    simp [indexU, Ty.isDyn, Ty.isString, Value.isKnown, Payload.isKnown, Payload.unmark1] at h

theorem unmark_shaped_parts {v : Value} (hs : shapedV v = true) :
    shaped v.ty v.unmark.v = true ∧ v.unmark.v.isMarked = false ∧ v.unmark = ⟨v.ty, v.unmark.v⟩ :=
  ⟨shaped_unmark1 hs, shaped_unmark1_notMarked hs, rfl⟩

theorem indexU_unkkey_shaped (t : Ty) (raw : Payload) (kt : Ty) (rf : Rfn) (r : Value)
    (hw : Ty.wf t = true) (h : indexU ⟨t, raw⟩ ⟨kt, .unk rf⟩ = .ok r) :
    shapedV r = true ∧ Ty.wf r.ty = true := by
  cases t <;> cases kt <;>
    simp [indexU, Ty.isDyn, Ty.isNumber, Ty.isString, Value.isKnown, Payload.isKnown,
      Payload.unmark1] at h <;>
    first
    | (subst h; exact ⟨rfl, rfl⟩)
    | (subst h; exact ⟨unknown_shaped _, by simpa [Ty.wf, Value.unknown] using hw⟩)

/-- what `Index` returns for a shaped unmarked key is shaped -/
theorem indexU_key_shaped (v : Value) (kt : Ty) (kp : Payload) (r : Value) (hs : shapedV v = true)
    (hw : Ty.wf v.ty = true) (hks : shaped kt kp = true) (hkm : kp.isMarked = false)
    (hkn : (⟨kt, kp⟩ : Value).isNull = false)
    (hty : (kt = .number ∧ PathStep.isListOrTuple v.ty = true) ∨ (kt = .string ∧ PathStep.isMap v.ty = true))
    (h : indexU v.unmark ⟨kt, kp⟩ = .ok r) : shapedV r = true ∧ Ty.wf r.ty = true := by
  have hp := unmark_shaped_parts hs
  rw [hp.2.2] at h
  obtain ⟨t, p⟩ := v
  rcases hty with ⟨rfl, ht⟩ | ⟨rfl, ht⟩
  · cases kp <;> first
      | (simp [Payload.isMarked] at hkm; done)
      | (exfalso; exact Bool.noConfusion (show false = true from hks))
      | (exfalso; exact Bool.noConfusion (show true = false from hkn))
      | skip
    · exact indexU_unkkey_shaped _ _ _ _ r hw h
    · rename_i x
      cases t <;> simp [PathStep.isListOrTuple] at ht
      · exact indexU_list_shaped _ _ x r hp.1 hp.2.1 (by simpa [Ty.wf] using hw) h
      · exact indexU_tuple_shaped _ _ x r hp.1 hp.2.1 (by simpa [Ty.wf] using hw) h
  · cases kp <;> first
      | (simp [Payload.isMarked] at hkm; done)
      | (exfalso; exact Bool.noConfusion (show false = true from hks))
      | (exfalso; exact Bool.noConfusion (show true = false from hkn))
      | skip
    · exact indexU_unkkey_shaped _ _ _ _ r hw h
    · rename_i x
      cases t <;> simp [PathStep.isMap] at ht
      exact indexU_map_shaped _ _ x r hp.1 hp.2.1 (by simpa [Ty.wf] using hw) h

/-- **a successful step returns a shaped value of a well-formed type** -/
theorem step_shaped (s : PathStep) (v v' : Value) (hs : shapedV v = true) (hw : Ty.wf v.ty = true)
    (hk : (match s with | .index k => shapedV k | .getAttr _ => true) = true)
    (h : s.apply v = .ok v') : shapedV v' = true ∧ Ty.wf v'.ty = true := by
  have hp := unmark_shaped_parts hs
  cases s with
  | getAttr n =>
    simp only [PathStep.apply] at h
    split at h
    · cases h
    · split at h
      · split at h
        · cases h
        · obtain ⟨r, hr, hrel⟩ := getAttr_result v v' n h
          rw [hp.2.2] at hr
          have := getAttrU_shaped _ _ n r hp.1 hw hr
          exact remarked_shaped hrel this.1 this.2
      · cases h
  | index k =>
    have hfit : (k.ty = .number ∧ PathStep.isListOrTuple v.ty = true) ∨
        (k.ty = .string ∧ PathStep.isMap v.ty = true) := by
      have h' := h
      simp only [PathStep.apply] at h'
      split at h'
      · cases h'
      · obtain ⟨kt, kp⟩ := k
        cases kt with
        | number =>
          by_cases hl : PathStep.isListOrTuple v.ty = true
          · exact Or.inl ⟨rfl, hl⟩
          · simp [hl] at h'
        | string =>
          by_cases hl : PathStep.isMap v.ty = true
          · exact Or.inr ⟨rfl, hl⟩
          · simp [hl] at h'
        | _ => simp at h'
    simp only [PathStep.apply] at h
    split at h
    · cases h
    · rename_i hvn
      have hfit2 := hfit
      rcases hfit with ⟨h1, h2⟩ | ⟨h1, h2⟩ <;> simp only [h1, h2, if_true] at h <;>
      (split at h
       · cases h
       · rename_i hkn
         have hkn' : k.isNull = false := by simpa using hkn
         cases hh : v.hasIndex k with
         | ok has =>
           simp only [hh] at h
           split at h
           · split at h
             · simp only [Res.ok.injEq] at h
               subst h
               exact ⟨rfl, rfl⟩
             · cases he : PathStep.elementType v.ty with
               | ok e =>
                 simp only [he, Res.map, Res.ok.injEq] at h
                 subst h
                 refine ⟨unknown_shaped e, ?_⟩
                 obtain ⟨t, p⟩ := v
                 cases t <;> simp [PathStep.elementType] at he <;> subst he <;>
                   simpa [Ty.wf, Value.unknown] using hw
               | err c => simp [he, Res.map] at h
               | panic w => simp [he, Res.map] at h
               | unmodelled => simp [he, Res.map] at h
           · split at h
             · cases h
             · obtain ⟨r, hr, hrel⟩ := binMarks_result indexU v k v' h
               have hkn0 : (⟨k.ty, k.v.unmark1⟩ : Value).isNull = false := by
                 have := isNull_unmark hk
                 simp only [Value.unmark] at this
                 rw [this]; exact hkn'
               have := indexU_key_shaped v k.ty k.v.unmark1 r hs hw (shaped_unmark1 hk)
                 (shaped_unmark1_notMarked hk) hkn0 hfit2 hr
               exact remarked_shaped hrel this.1 this.2
         | err c => simp [hh] at h
         | panic w => simp [hh] at h
         | unmodelled => simp [hh] at h)

/-! ### whole paths -/

/-- every step names an existing member of the value reached so far -/
def stepsExist : Path → Value → Bool
  | [], _ => true
  | s :: p, v =>
    stepExists s v &&
      (match s.apply v with
       | .ok v' => stepsExist p v'
       | _ => false)

theorem keysShaped_cons (s : PathStep) (p : Path) : keysShaped (s :: p) = true →
    (match s with | .index k => shapedV k | .getAttr _ => true) = true ∧ keysShaped p = true := by
  cases s with
  | getAttr n => intro h; exact ⟨rfl, by simpa [keysShaped] using h⟩
  | index k => intro h; simp only [keysShaped, Bool.and_eq_true] at h; exact ⟨h.1, h.2⟩

/-- **`Path.Apply` succeeds exactly when every step names an existing member, and
never panics** (any shaped keys, shaped value of a well-formed type) -/
theorem apply_ok_iff : ∀ (p : Path) (v : Value), shapedV v = true → Ty.wf v.ty = true →
    keysShaped p = true →
    (Path.apply p v).isOk = stepsExist p v ∧ (Path.apply p v).isPanic = false
  | [], _, _, _, _ => ⟨rfl, rfl⟩
  | s :: p, v, hs, hw, hk => by
    obtain ⟨hk1, hk2⟩ := keysShaped_cons s p hk
    have h1 := step_ok_iff s v hs hw hk1
    simp only [Path.apply, stepsExist]
    cases hr : s.apply v with
    | ok v' =>
      rw [hr] at h1
      have hsh := step_shaped s v v' hs hw hk1 hr
      have ih := apply_ok_iff p v' hsh.1 hsh.2 hk2
      simp only [Res.isOk] at h1
      simp only [← h1.1, Bool.true_and, ih.1, ih.2, and_self]
    | err c =>
      rw [hr] at h1
      simp only [Res.isOk] at h1
      simp [← h1.1, Res.isOk, Res.isPanic]
    | panic w => rw [hr] at h1; simp [Res.isPanic] at h1
    | unmodelled =>
      rw [hr] at h1
      simp only [Res.isOk] at h1
      simp [← h1.1, Res.isOk, Res.isPanic]

end Walk
end CtyModel
