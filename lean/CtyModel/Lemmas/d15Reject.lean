/-
C15 (d15) — "the refusal is an error, not a panic" WITHOUT the set-free side condition (audit
C15 item 3): the proof of `Lemmas/JsonValReject.lean` again, with the set branch of `marshal`
included.  The only thing the set branch adds is the iteration order, which goes through the
hash oracle `env.hkey`; under "the oracle answers for every member" (which is what the real
`Value.Hash` does — it is total; the harness supplies its answers) the encoder still returns
a document or an error.
-/
import CtyModel.Lemmas.JsonValReject
namespace CtyModel
namespace JsonVal
open Ty

theorem attachHex_some (env : JEnv) (htot : ∀ t p, (env.hkey t p).isSome = true) (ety : Ty) :
    ∀ vs : List Payload, ∃ r, attachHex env ety vs = some r
  | [] => ⟨[], rfl⟩
  | v :: vs => by
    obtain ⟨r, hr⟩ := attachHex_some env htot ety vs
    have := htot ety v
    cases hk : env.hkey ety v with
    | none => simp [hk] at this
    | some q => exact ⟨(v, q.2) :: r, by simp [attachHex, hk, hr]⟩

theorem setIterWith_some {α} (env : JEnv) (htot : ∀ t p, (env.hkey t p).isSome = true) (ety : Ty)
    (vs : List Payload) (xs : List α) : ∃ r, setIterWith env ety vs xs = some r := by
  unfold setIterWith
  split
  · exact ⟨_, rfl⟩
  · split
    · exact ⟨_, rfl⟩
    · obtain ⟨r, hr⟩ := attachHex_some env htot ety vs
      rw [hr]
      exact ⟨_, rfl⟩

/-- what "never panics" needs once the hash oracle is total: well-formed, conforming,
capsule-free (unknowns, marks and SETS allowed) -/
structure RWS (t vt : Ty) (p : Payload) : Prop where
  wt : wf t = true
  wvt : wf vt = true
  noCaps : hasCapsule vt = false
  conf : «matches» t vt = true
  wfp : wfP vt p = true

theorem RWS.self {t vt p} (h : RWS t vt p) : RWS vt vt p :=
  { h with wt := h.wvt, conf := matches_refl vt }

def ZipWS : List Ty → List Ty → List Payload → Prop
  | e :: es, ve :: ves, v :: vs => RWS e ve v ∧ ZipWS es ves vs
  | [], [], [] => True
  | _, _, _ => False

theorem zipWS_of : ∀ (es ves : List Ty) (vs : List Payload),
    wfL es = true → wfL ves = true → hasCapsuleL ves = false →
    matchesL es ves = true → ves.length = vs.length → wfZip ves vs = true → ZipWS es ves vs
  | [], [], [], _, _, _, _, _, _ => trivial
  | [], _ :: _, _, _, _, _, h, _, _ => by simp [matchesL] at h
  | _ :: _, [], _, _, _, _, h, _, _ => by simp [matchesL] at h
  | [], [], _ :: _, _, _, _, _, h, _ => by simp at h
  | _ :: _, _ :: _, [], _, _, _, _, h, _ => by simp at h
  | e :: es, ve :: ves, v :: vs, h1, h2, h4, h7, h8, h9 => by
    simp only [wfL, Bool.and_eq_true] at h1 h2
    simp only [hasCapsuleL, Bool.or_eq_false_iff] at h4
    simp only [matchesL, wfZip, Bool.and_eq_true] at h7 h9
    exact ⟨⟨h1.1, h2.1, h4.1, h7.1, h9.1⟩,
      zipWS_of es ves vs h1.2 h2.2 h4.2 h7.2 (by simpa using h8) h9.2⟩

theorem okErrS_entry (t vt : Ty) (p : Payload) (body : Ty → Res Json) (h : RWS t vt p)
    (hb : ∀ t', RWS t' vt p → (t'.isDyn = true → vt.isDyn = true) → OkOrErr (body t')) :
    OkOrErr (marshalEntry t vt p body) := by
  unfold marshalEntry
  split
  · exact .inr ⟨_, rfl⟩
  · split
    · exact .inr ⟨_, rfl⟩
    · split
      · rename_i hd
        simp only [Bool.and_eq_true, Bool.not_eq_true'] at hd
        obtain ⟨tj, htj⟩ := toJson_ok vt h.noCaps
        simp only [htj]
        rcases hb vt h.self (fun a => a) with ⟨j, hj⟩ | ⟨c, hc⟩
        · simp only [hj]; exact .inl ⟨_, rfl⟩
        · simp only [hc]; exact .inr ⟨_, rfl⟩
      · rename_i hd
        refine hb t h ?_
        intro ht
        simp only [ht, Bool.true_and, Bool.not_eq_true', Bool.not_eq_false] at hd
        exact hd

mutual
theorem okErrS_known (env : JEnv) (htot : ∀ t p, (env.hkey t p).isSome = true) : ∀ (p : Payload) (t vt : Ty), RWS t vt p →
    (t.isDyn = true → vt.isDyn = true) → OkOrErr (marshalKnown env t vt p)
  | .null, _, _, _, _ => by simp [OkOrErr, marshalKnown]
  | .unk _, _, _, _, _ => by simp [OkOrErr, marshalKnown]
  | .marked _ _, _, _, _, _ => by simp [OkOrErr, marshalKnown]
  | .caps, _, vt, h, _ => by have := h.wfp; cases vt <;> simp [wfP] at this
  | .bad _, _, vt, h, _ => by have := h.wfp; cases vt <;> simp [wfP] at this
  | .sset ids vs, t, vt, h, hd => by
    have hw := h.wfp
    cases vt with
    | set ve =>
      have hc := h.conf
      cases t with
      | set e =>
        simp only [«matches»] at hc
        simp only [wfP, Bool.and_eq_true, beq_iff_eq] at hw
        have hel : ∀ v ∈ vs, RWS e ve v := fun v hv =>
          { wt := by simpa [wf] using h.wt, wvt := by simpa [wf] using h.wvt
            noCaps := by simpa [hasCapsule] using h.noCaps
            conf := hc, wfp := wfAll_mem hw.2 v hv }
        simp only [marshalKnown]
        rcases okErrS_all env htot vs e ve hel with ⟨js, hjs⟩ | ⟨c, hc'⟩
        · simp only [hjs]
          obtain ⟨js', hjs'⟩ := setIterWith_some env htot ve vs js
          simp only [hjs']
          exact .inl ⟨_, rfl⟩
        · simp only [hc']
          exact .inr ⟨_, rfl⟩
      | dyn => exact absurd (hd rfl) (by simp [Ty.isDyn])
      | _ => simp [«matches»] at hc
    | _ => simp [wfP] at hw
  | .b x, t, vt, h, hd => by
    have hw := h.wfp
    cases vt with
    | bool =>
      have hc := h.conf
      cases t with
      | bool => simp [OkOrErr, marshalKnown]
      | dyn => exact absurd (hd rfl) (by simp [Ty.isDyn])
      | _ => simp [«matches»] at hc
    | _ => simp [wfP] at hw
  | .s x, t, vt, h, hd => by
    have hw := h.wfp
    cases vt with
    | string =>
      have hc := h.conf
      cases t with
      | string => simp [OkOrErr, marshalKnown]
      | dyn => exact absurd (hd rfl) (by simp [Ty.isDyn])
      | _ => simp [«matches»] at hc
    | _ => simp [wfP] at hw
  | .n x, t, vt, h, hd => by
    have hw := h.wfp
    cases vt with
    | number =>
      have hc := h.conf
      cases t with
      | number =>
        simp only [marshalKnown]
        split
        · exact .inr ⟨_, rfl⟩
        · exact .inl ⟨_, rfl⟩
      | dyn => exact absurd (hd rfl) (by simp [Ty.isDyn])
      | _ => simp [«matches»] at hc
    | _ => simp [wfP] at hw
  | .seq vs, t, vt, h, hd => by
    have hw := h.wfp
    cases vt with
    | list ve =>
      have hc := h.conf
      cases t with
      | list e =>
        simp only [«matches»] at hc
        simp only [wfP] at hw
        have hel : ∀ v ∈ vs, RWS e ve v := fun v hv =>
          { wt := by simpa [wf] using h.wt, wvt := by simpa [wf] using h.wvt
            noCaps := by simpa [hasCapsule] using h.noCaps
            conf := hc, wfp := wfAll_mem hw v hv }
        simp only [marshalKnown]
        exact okErr_map _ (okErrS_all env htot vs e ve hel)
      | dyn => exact absurd (hd rfl) (by simp [Ty.isDyn])
      | _ => simp [«matches»] at hc
    | tuple ves =>
      have hc := h.conf
      cases t with
      | tuple es =>
        simp only [«matches»] at hc
        simp only [wfP, Bool.and_eq_true, beq_iff_eq] at hw
        have hz : ZipWS es ves vs :=
          zipWS_of es ves vs (by simpa [wf] using h.wt) (by simpa [wf] using h.wvt)
            (by simpa [hasCapsule] using h.noCaps) hc hw.1 hw.2
        simp only [marshalKnown]
        exact okErr_map _ (okErrS_zip env htot vs es ves hz)
      | dyn => exact absurd (hd rfl) (by simp [Ty.isDyn])
      | _ => simp [«matches»] at hc
    | _ => simp [wfP] at hw
  | .smap ks vs, t, vt, h, hd => by
    have hw := h.wfp
    cases vt with
    | map ve =>
      have hc := h.conf
      cases t with
      | map e =>
        simp only [«matches»] at hc
        simp only [wfP, Bool.and_eq_true, beq_iff_eq] at hw
        have hel : ∀ v ∈ vs, RWS e ve v := fun v hv =>
          { wt := by simpa [wf] using h.wt, wvt := by simpa [wf] using h.wvt
            noCaps := by simpa [hasCapsule] using h.noCaps
            conf := hc, wfp := wfAll_mem hw.2 v hv }
        simp only [marshalKnown]
        exact okErr_map _ (okErrS_all env htot vs e ve hel)
      | dyn => exact absurd (hd rfl) (by simp [Ty.isDyn])
      | _ => simp [«matches»] at hc
    | object vns vts vos =>
      have hc := h.conf
      cases t with
      | object ns ts os =>
        simp only [«matches», Bool.and_eq_true, beq_iff_eq] at hc
        obtain ⟨hns, hc⟩ := hc
        subst hns
        simp only [wfP, Bool.and_eq_true, beq_iff_eq] at hw
        obtain ⟨⟨hks, hvl⟩, hw⟩ := hw
        subst hks
        have hwt := h.wt
        have hwvt := h.wvt
        simp only [wf, Bool.and_eq_true, beq_iff_eq] at hwt hwvt
        have hz : ZipWS ts vts vs :=
          zipWS_of ts vts vs hwt.2 hwvt.2 (by simpa [hasCapsule] using h.noCaps)
            hc hvl hw
        simp only [marshalKnown, beq_self_eq_true, if_true]
        exact okErr_map _ (okErrS_zip env htot vs ts vts hz)
      | dyn => exact absurd (hd rfl) (by simp [Ty.isDyn])
      | _ => simp [«matches»] at hc
    | _ => simp [wfP] at hw
theorem okErrS_all (env : JEnv) (htot : ∀ t p, (env.hkey t p).isSome = true) : ∀ (vs : List Payload) (e ve : Ty), (∀ v ∈ vs, RWS e ve v) →
    OkOrErr (marshalAll env e ve vs)
  | [], _, _, _ => .inl ⟨[], rfl⟩
  | v :: vs, e, ve, h => by
    simp only [marshalAll]
    rcases okErrS_entry e ve v (fun t' => marshalKnown env t' ve v) (h v (by simp))
      (fun t' a b => okErrS_known env htot v t' ve a b) with ⟨j, hj⟩ | ⟨c, hc⟩
    · simp only [hj]
      exact okErr_map _ (okErrS_all env htot vs e ve (fun x hx => h x (List.mem_cons_of_mem _ hx)))
    · simp only [hc]; exact .inr ⟨_, rfl⟩
theorem okErrS_zip (env : JEnv) (htot : ∀ t p, (env.hkey t p).isSome = true) : ∀ (vs : List Payload) (es ves : List Ty), ZipWS es ves vs →
    OkOrErr (marshalZip env es ves vs)
  | [], _, _, _ => .inl ⟨[], by simp [marshalZip]⟩
  | _ :: _, [], _, h => by cases ‹List Ty› <;> simp [ZipWS] at h
  | _ :: _, _ :: _, [], h => by simp [ZipWS] at h
  | v :: vs, e :: es, ve :: ves, h => by
    simp only [ZipWS] at h
    simp only [marshalZip]
    rcases okErrS_entry e ve v (fun t' => marshalKnown env t' ve v) h.1
      (fun t' a b => okErrS_known env htot v t' ve a b) with ⟨j, hj⟩ | ⟨c, hc⟩
    · simp only [hj]
      exact okErr_map _ (okErrS_zip env htot vs es ves h.2)
    · simp only [hc]; exact .inr ⟨_, rfl⟩
end

/-- on well-formed conforming capsule-free input — sets included — with a total hash oracle the
encoder returns a document or an error, never a panic -/
theorem okErrS_marshal (env : JEnv) (htot : ∀ t p, (env.hkey t p).isSome = true) (v : Value) (t : Ty)
    (h : RWS t v.ty v.v) : OkOrErr (marshal env v t) :=
  okErrS_entry t v.ty v.v _ h (fun t' a b => okErrS_known env htot v.v t' v.ty a b)

end JsonVal
end CtyModel
