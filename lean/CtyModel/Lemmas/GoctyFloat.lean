/- When does `Float64()` overflow?  A closed form for the float64 clause of C18:
a finite number is refused exactly from `2^1024 − 2^970` on (the midpoint between the
largest float64 and 2^1024, the tie going up). -/
import CtyModel.Lemmas.GoctyRoundtrip
import CtyModel.Lemmas.NumRound
import CtyModel.Lemmas.NumCmp
namespace CtyModel
namespace Num
open NumCmp

/-- rounding a mantissa of `53 + k` bits (`k ≥ 1`) to 53 bits: the exponent rises by `k`, and the
result needs 54 bits (a carry out of the top) exactly from `(2^54 − 1)·2^(k−1)` on — the midpoint
between the largest 53-bit mantissa and `2^53`, the tie going up because `2^53 − 1` is odd -/
theorem roundME53_carry (m : Nat) (e : Int) (k : Nat) (hk : 0 < k) (hbl : bitlen m = 53 + k) :
    (roundME m e 53).2 = e + k ∧
    (bitlen (roundME m e 53).1 = 54 ∨ bitlen (roundME m e 53).1 = 53) ∧
    (bitlen (roundME m e 53).1 = 54 ↔ (2 ^ 54 - 1) * 2 ^ (k - 1) ≤ m) := by
  have hm0 : m ≠ 0 := by intro h; subst h; simp [bitlen] at hbl; omega
  have hlo := two_pow_bitlen_le hm0
  have hhi := lt_two_pow_bitlen m
  rw [hbl] at hlo hhi
  have hk' : 53 + k - 1 = 52 + k := by omega
  rw [hk'] at hlo
  unfold roundME
  have hnb : ¬ (53 + k ≤ 53) := by omega
  simp only [show (53:Nat) ≠ 0 by decide, if_false, hbl, hnb, Nat.add_sub_cancel_left]
  rw [Nat.shiftRight_eq_div_pow]
  have hdm := Nat.div_add_mod m (2 ^ k)
  have hlt := Nat.mod_lt m (Nat.two_pow_pos k)
  have hhalf : 2 ^ k = 2 * 2 ^ (k - 1) := by
    rw [← Nat.pow_succ']; congr 1; omega
  have hq1 : 2 ^ 52 ≤ m / 2 ^ k := by
    rw [Nat.le_div_iff_mul_le (Nat.two_pow_pos k), ← Nat.pow_add]; exact hlo
  have hq2 : m / 2 ^ k < 2 ^ 53 := by
    rw [Nat.div_lt_iff_lt_mul (Nat.two_pow_pos k), ← Nat.pow_add]; exact hhi
  generalize m / 2 ^ k = q at *
  generalize m % 2 ^ k = r at *
  generalize hH : 2 ^ (k - 1) = H at *
  rw [hhalf] at hdm hlt
  refine ⟨trivial, ?_, ?_⟩
  · split
    · by_cases hq : q + 1 = 2 ^ 53
      · left; rw [hq]; decide
      · right
        have h1 : bitlen (q + 1) ≤ 53 := (bitlen_le_iff _ _).mpr (by omega)
        have h2 : ¬ bitlen (q + 1) ≤ 52 := by rw [bitlen_le_iff]; omega
        omega
    · right
      have h1 : bitlen q ≤ 53 := (bitlen_le_iff _ _).mpr hq2
      have h2 : ¬ bitlen q ≤ 52 := by rw [bitlen_le_iff]; omega
      omega
  · have hthr : (2 ^ 54 - 1) * H = (2 ^ 53 - 1) * (2 * H) + H := by
      have : (2:Nat) ^ 54 - 1 = 2 * (2 ^ 53 - 1) + 1 := by decide
      rw [this, Nat.add_mul, Nat.one_mul, Nat.mul_assoc, Nat.mul_left_comm (2 ^ 53 - 1) 2 H]
    rw [hthr, ← hdm]
    by_cases hq : q = 2 ^ 53 - 1
    · subst hq
      have hodd : (2 ^ 53 - 1) % 2 = 1 := by decide
      rw [Nat.mul_comm (2 * H)]
      split
      · rename_i hup
        have : r ≥ H := by
          rcases hup with h1 | h1
          · exact Nat.le_of_lt h1
          · exact Nat.le_of_eq h1.1.symm
        constructor
        · intro _; omega
        · intro _; decide
      · rename_i hdown
        have : r < H := by
          rcases Nat.lt_or_ge r H with h | h
          · exact h
          · exfalso; apply hdown
            rcases Nat.lt_or_eq_of_le h with h | h
            · exact Or.inl h
            · exact Or.inr ⟨h.symm, hodd⟩
        constructor
        · intro hb
          have : bitlen (2 ^ 53 - 1) = 53 := by decide
          omega
        · intro _; omega
    · have hq3 : q + 1 ≤ 2 ^ 53 - 1 := by omega
      have hmul : 2 * H * (q + 1) ≤ 2 * H * (2 ^ 53 - 1) := Nat.mul_le_mul_left _ hq3
      have hb : ∀ x, x ≤ q + 1 → bitlen x ≠ 54 := by
        intro x hx hb
        have : bitlen x ≤ 53 := (bitlen_le_iff _ _).mpr (by omega)
        omega
      constructor
      · intro h; exfalso
        split at h
        · exact hb _ (Nat.le_refl _) h
        · exact hb _ (by omega) h
      · intro h; exfalso
        rw [Nat.mul_add, Nat.mul_one, Nat.mul_comm (2 * H) (2 ^ 53 - 1)] at hmul
        omega


/-- rounding to `p` bits moves the position of the top bit (`exponent + bit length`) by at most one, upwards -/
theorem roundME_top (m : Nat) (e : Int) (p : Nat) (hp : 0 < p) (hm : m ≠ 0) :
    e + (bitlen m : Int) ≤ (roundME m e p).2 + (bitlen (roundME m e p).1 : Int) ∧
    (roundME m e p).2 + (bitlen (roundME m e p).1 : Int) ≤ e + (bitlen m : Int) + 1 := by
  unfold roundME
  have hp' : p ≠ 0 := by omega
  simp only [hp', if_false]
  split
  · simp only []; omega
  · rename_i hnb
    have hlo := two_pow_bitlen_le hm
    have hhi := lt_two_pow_bitlen m
    obtain ⟨k, hk⟩ : ∃ k, bitlen m = p + k := ⟨bitlen m - p, by omega⟩
    have hk0 : 0 < k := by omega
    simp only [hk, Nat.add_sub_cancel_left] at hlo hhi ⊢
    rw [Nat.shiftRight_eq_div_pow]
    have hq1 : 2 ^ (p - 1) ≤ m / 2 ^ k := by
      rw [Nat.le_div_iff_mul_le (Nat.two_pow_pos k), ← Nat.pow_add]
      have : p - 1 + k = p + k - 1 := by omega
      rw [this]; exact hlo
    have hq2 : m / 2 ^ k < 2 ^ p := by
      rw [Nat.div_lt_iff_lt_mul (Nat.two_pow_pos k), ← Nat.pow_add]; exact hhi
    generalize m / 2 ^ k = q at *
    have hge : ∀ x, q ≤ x → p ≤ bitlen x := by
      intro x hx
      have : ¬ bitlen x ≤ p - 1 := by
        rw [bitlen_le_iff]; omega
      omega
    have hle : ∀ x, x ≤ q + 1 → bitlen x ≤ p + 1 := by
      intro x hx
      rw [bitlen_le_iff, Nat.pow_succ]; omega
    split
    · have := hge (q + 1) (by omega); have := hle (q + 1) (by omega)
      push_cast; omega
    · have := hge q (by omega); have := hle q (by omega)
      push_cast; omega

open Gocty in
/-- `Float64()` of a finite number overflows exactly when the number's top bit is above 2^1023, or
at 2^1023 with more than 53 significant bits that reach the midpoint between the largest float64 and
2^1024: in mantissa/exponent form, `|x| ≥ 2^1024 − 2^970` -/
theorem toF64_isInf_iff (n : Bool) (m : Nat) (e : Int) (p0 : Nat) (hx : normalNum (.fin n m e p0) = true)
    (hm : m ≠ 0) :
    (toF64 (.fin n m e p0)).1.isInf = true ↔
      (1025 ≤ e + (bitlen m : Int) ∨
       (e + (bitlen m : Int) = 1024 ∧ 54 ≤ bitlen m ∧ (2 ^ 54 - 1) * 2 ^ (bitlen m - 54) ≤ m)) := by
  have hn := norm_of_normal hx
  unfold toF64
  rw [toIEEE_fin 52 (-1022) 1023 n m e p0 m e hn hm]
  have hblpos := bitlen_pos hm
  by_cases hsub : e + (bitlen m : Int) - 1 < -1022
  · -- below the normal range: never an overflow
    have hP : ieeeP 52 (-1022) m e = 1075 + (e + (bitlen m : Int) - 1) := by
      unfold ieeeP; rw [if_pos hsub]; omega
    have hrhs : ¬ (1025 ≤ e + (bitlen m : Int) ∨
        (e + (bitlen m : Int) = 1024 ∧ 54 ≤ bitlen m ∧ (2 ^ 54 - 1) * 2 ^ (bitlen m - 54) ≤ m)) := by omega
    simp only [hrhs, iff_false]
    split
    · simp [isInf]
    · split
      · simp [isInf]
      · rename_i h1 h2
        have hPpos : 0 < (ieeeP 52 (-1022) m e).toNat := by omega
        have htop := (roundME_top m e (ieeeP 52 (-1022) m e).toNat hPpos hm).2
        rw [if_neg (by omega)]
        simp [mk_not_inf]
  · have hP : ieeeP 52 (-1022) m e = 53 := by
      unfold ieeeP; rw [if_neg hsub]; rfl
    rw [hP]
    rw [if_neg (by omega), if_neg (by omega)]
    have h53 : (53 : Int).toNat = 53 := rfl
    rw [h53]
    have htop := roundME_top m e 53 (by decide) hm
    by_cases hbig : 1025 ≤ e + (bitlen m : Int)
    · rw [if_pos (by omega)]
      simp [isInf, hbig]
    · by_cases hsmall : e + (bitlen m : Int) ≤ 1023
      · rw [if_neg (by omega)]
        have hrhs : ¬ (1025 ≤ e + (bitlen m : Int) ∨
            (e + (bitlen m : Int) = 1024 ∧ 54 ≤ bitlen m ∧ (2 ^ 54 - 1) * 2 ^ (bitlen m - 54) ≤ m)) := by omega
        simp [mk_not_inf, hrhs]
      · have heq : e + (bitlen m : Int) = 1024 := by omega
        by_cases hbl : bitlen m ≤ 53
        · rw [roundME_fits m e 53 (by decide) hbl]
          rw [if_neg (by simp only []; omega)]
          have hrhs : ¬ (1025 ≤ e + (bitlen m : Int) ∨
              (e + (bitlen m : Int) = 1024 ∧ 54 ≤ bitlen m ∧ (2 ^ 54 - 1) * 2 ^ (bitlen m - 54) ≤ m)) := by omega
          simp [mk_not_inf, hrhs]
        · obtain ⟨k, hk⟩ : ∃ k, bitlen m = 53 + k := ⟨bitlen m - 53, by omega⟩
          have hk0 : 0 < k := by omega
          obtain ⟨c1, c2, c3⟩ := roundME53_carry m e k hk0 hk
          have hkk : bitlen m - 54 = k - 1 := by omega
          rw [hkk]
          by_cases hcarry : (2 ^ 54 - 1) * 2 ^ (k - 1) ≤ m
          · have hb := c3.mpr hcarry
            rw [if_pos (by rw [c1, hb]; push_cast; omega)]
            simp only [isInf, true_iff]
            right; exact ⟨heq, by omega, hcarry⟩
          · have hb : bitlen (roundME m e 53).1 = 53 := by
              rcases c2 with h | h
              · exact absurd (c3.mp h) hcarry
              · exact h
            rw [if_neg (by rw [c1, hb]; push_cast; omega)]
            simp only [mk_not_inf, Bool.false_eq_true, false_iff]
            omega

theorem thr_nat (m a b bl : Nat) (hlo : 2 ^ (bl - 1) ≤ m) (hhi : m < 2 ^ bl) (hbl : 0 < bl)
    (hab : a = 0 ∨ b = 0) :
    (2 ^ 54 - 1) * 2 ^ b ≤ m * 2 ^ a ↔
      (55 + b ≤ bl + a ∨ (bl + a = 54 + b ∧ 54 ≤ bl ∧ (2 ^ 54 - 1) * 2 ^ (bl - 54) ≤ m)) := by
  have hM1 : (2:Nat) ^ 54 - 1 < 2 ^ 54 := by decide
  have hM2 : (2:Nat) ^ 53 ≤ 2 ^ 54 - 1 := by decide
  have hpa := Nat.two_pow_pos a
  have hpb := Nat.two_pow_pos b
  by_cases h1 : 55 + b ≤ bl + a
  · simp only [h1, true_or, iff_true]
    have : 2 ^ (54 + b) ≤ 2 ^ (bl - 1 + a) := Nat.pow_le_pow_right (by decide) (by omega)
    rw [Nat.pow_add, Nat.pow_add] at this
    have h2 : 2 ^ (bl - 1) * 2 ^ a ≤ m * 2 ^ a := Nat.mul_le_mul_right _ hlo
    have h3 : (2 ^ 54 - 1) * 2 ^ b ≤ 2 ^ 54 * 2 ^ b := Nat.mul_le_mul_right _ (Nat.le_of_lt hM1)
    omega
  · by_cases h2 : bl + a ≤ 53 + b
    · have hr : ¬ (55 + b ≤ bl + a ∨ (bl + a = 54 + b ∧ 54 ≤ bl ∧ (2 ^ 54 - 1) * 2 ^ (bl - 54) ≤ m)) := by omega
      simp only [hr, iff_false]
      have : 2 ^ (bl + a) ≤ 2 ^ (53 + b) := Nat.pow_le_pow_right (by decide) h2
      rw [Nat.pow_add, Nat.pow_add] at this
      have h3 : m * 2 ^ a < 2 ^ bl * 2 ^ a := Nat.mul_lt_mul_of_pos_right hhi hpa
      have h4 : 2 ^ 53 * 2 ^ b ≤ (2 ^ 54 - 1) * 2 ^ b := Nat.mul_le_mul_right _ hM2
      omega
    · have heq : bl + a = 54 + b := by omega
      by_cases hbl53 : bl ≤ 53
      · have hb0 : b = 0 := by rcases hab with h | h <;> omega
        subst hb0
        have hr : ¬ (55 + 0 ≤ bl + a ∨ (bl + a = 54 + 0 ∧ 54 ≤ bl ∧ (2 ^ 54 - 1) * 2 ^ (bl - 54) ≤ m)) := by omega
        simp only [hr, iff_false, Nat.pow_zero, Nat.mul_one]
        have h3 : (m + 1) * 2 ^ a ≤ 2 ^ bl * 2 ^ a := Nat.mul_le_mul_right _ hhi
        rw [← Nat.pow_add, heq, Nat.add_mul, Nat.one_mul] at h3
        have : 2 ≤ 2 ^ a := by
          have : 2 ^ 1 ≤ 2 ^ a := Nat.pow_le_pow_right (by decide) (by omega)
          simpa using this
        have h54 : (2:Nat) ^ (54 + 0) = 2 ^ 54 := rfl
        omega
      · have ha0 : a = 0 := by rcases hab with h | h <;> omega
        subst ha0
        have hb : b = bl - 54 := by omega
        subst hb
        simp only [Nat.pow_zero, Nat.mul_one]
        constructor
        · intro h; right; exact ⟨by omega, by omega, h⟩
        · rintro (h | ⟨_, _, h⟩)
          · omega
          · exact h


/-- `|x| ≥ 2^1024 − 2^970` (exact comparison `cmp`) in mantissa/exponent form -/
theorem cmp_thr64_iff (m : Nat) (e : Int) (p q : Nat) (hm : m ≠ 0) :
    0 ≤ cmp (.fin false m e p) (.fin false (2 ^ 54 - 1) 970 q) ↔
      (1025 ≤ e + (bitlen m : Int) ∨
       (e + (bitlen m : Int) = 1024 ∧ 54 ≤ bitlen m ∧ (2 ^ 54 - 1) * 2 ^ (bitlen m - 54) ≤ m)) := by
  rw [cmp_fin]
  unfold icmp scaleTo sgnm
  simp only [Bool.false_eq_true, if_false]
  generalize ha : (e - min e 970).toNat = a
  generalize hb : ((970:Int) - min e 970).toNat = b
  have hab : a = 0 ∨ b = 0 := by omega
  have he : e = 970 + (a : Int) - (b : Int) := by omega
  have hlo := two_pow_bitlen_le hm
  have hhi := lt_two_pow_bitlen m
  have hbl := bitlen_pos hm
  have key := thr_nat m a b (bitlen m) hlo hhi hbl hab
  generalize (2 ^ 54 - 1 : Nat) = M at key ⊢
  have hA : ((m:Int) * 2 ^ a) = ((m * 2 ^ a : Nat) : Int) := by push_cast; rfl
  have hB : ((M : Int) * 2 ^ b) = ((M * 2 ^ b : Nat) : Int) := by push_cast; rfl
  rw [hA, hB]
  have hge : (0 : Int) ≤ (if ((m * 2 ^ a : Nat) : Int) < ((M * 2 ^ b : Nat) : Int) then -1
      else if ((m * 2 ^ a : Nat) : Int) = ((M * 2 ^ b : Nat) : Int) then 0 else 1) ↔
      M * 2 ^ b ≤ m * 2 ^ a := by
    generalize m * 2 ^ a = X
    generalize M * 2 ^ b = Y
    split
    · constructor <;> intro _ <;> omega
    · split <;> (constructor <;> intro _ <;> omega)
  rw [hge, key]
  constructor
  · rintro (h | ⟨h1, h2, h3⟩)
    · left; omega
    · right; exact ⟨by omega, h2, h3⟩
  · rintro (h | ⟨h1, h2, h3⟩)
    · left; omega
    · right; exact ⟨by omega, h2, h3⟩

end Num
end CtyModel
