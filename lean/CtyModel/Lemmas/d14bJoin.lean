/-
d14b — more about the transliterated strings package: no piece of a split contains the
separator; `String.intercalate` (the reference `join` is stated with) is `strings.Join`
as transliterated; `join` over several lists; trailing-run removal (chomp).
-/
import CtyModel.Lemmas.d14bRef
namespace CtyModel
namespace StdNum
namespace D14b
open Value

/-! ### no piece contains the separator -/

theorem goIndex_take_none {sep : List Char} (hsep : sep ≠ []) : ∀ {s : List Char} {i : Nat},
    goIndex sep s = some i → goIndex sep (s.take i) = none
  | [], i, _ => by simp [goIndex_nil_of_ne hsep]
  | c :: rest, i, h => by
    unfold goIndex at h
    split at h
    · have hi : i = 0 := by simpa using h.symm
      subst hi; simp [goIndex_nil_of_ne hsep]
    · rename_i hp
      cases hr : goIndex sep rest with
      | none => simp [hr] at h
      | some j =>
        simp [hr] at h; subst h
        have ih := goIndex_take_none hsep hr
        simp only [List.take_succ_cons]
        unfold goIndex
        have hnp : sep.isPrefixOf (c :: List.take j rest) = false := by
          cases hb : sep.isPrefixOf (c :: List.take j rest) with
          | false => rfl
          | true =>
            exfalso; apply hp
            rw [List.isPrefixOf_iff_prefix] at hb ⊢
            exact hb.trans ((List.prefix_cons_inj c).mpr (List.take_prefix j rest))
        simp [hnp, ih]

theorem splitLoop_pieces {sep : List Char} (hsep : sep ≠ []) : ∀ (f : Nat) (s : List Char), s.length < f →
    ∀ p ∈ splitLoop sep f s, goIndex sep p = none
  | 0, _, hf => by omega
  | f + 1, s, hf => by
    intro p hp
    unfold splitLoop at hp
    cases hi : goIndex sep s with
    | none => simp [hi] at hp; subst hp; exact hi
    | some i =>
      simp only [hi, List.mem_cons] at hp
      rcases hp with rfl | hp
      · exact goIndex_take_none hsep hi
      · have hlt := goIndex_lt hsep hi
        have hpos : 0 < sep.length := List.length_pos_iff.mpr hsep
        exact splitLoop_pieces hsep f _ (by simp; omega) p hp

theorem goSplit_pieces {sep : List Char} (hsep : sep ≠ []) (s : List Char) :
    ∀ p ∈ goSplit s sep, goIndex sep p = none := by
  have he : sep.isEmpty = false := by cases sep <;> simp_all
  simp only [goSplit, he, Bool.false_eq_true, if_false]
  exact splitLoop_pieces hsep _ s (by omega)

/-! ### String.intercalate is strings.Join -/

theorem intercalate_toList (s : String) : ∀ xs : List String,
    (s.intercalate xs).toList = goJoin s.toList (xs.map String.toList)
  | [] => by simp [goJoin]
  | [a] => by simp [goJoin]
  | a :: b :: r => by
    rw [String.intercalate_cons_cons]
    simp only [String.toList_append, List.map_cons, goJoin]
    rw [intercalate_toList s (b :: r)]
    rfl

/-! ### removing a trailing run (chomp) -/

theorem dropRight_middle (f : Char → Bool) (m r : List Char) (hr : ∀ c ∈ r, f c = true)
    (hm : ∀ c, m.getLast? = some c → f c = false) : ((m ++ r).reverse.dropWhile f).reverse = m := by
  rw [List.reverse_append, List.dropWhile_append_of_pos (by intro c hc; exact hr c (List.mem_reverse.mp hc))]
  cases hrev : m.reverse with
  | nil =>
    have : m = [] := by simpa using hrev
    subst this; rfl
  | cons z w =>
    have hz : m.getLast? = some z := by rw [← List.head?_reverse, hrev]; rfl
    rw [List.dropWhile_cons_of_neg (by simp [hm z hz]), ← hrev, List.reverse_reverse]

/-! ### join over several lists -/

/-- a list of known strings as a cty value -/
def strList (xs : List String) : Value := ⟨.list .string, .seq (xs.map Payload.s)⟩

theorem joinCollect_strLists : ∀ xss : List (List String), joinCollect (xss.map strList) = .ok xss.flatten
  | [] => rfl
  | xs :: r => by
    simp [joinCollect, strList, joinItems_strings, joinCollect_strLists r, Res.map]

theorem strLists_fine (xss : List (List String)) :
    (xss.map strList).any (fun l => !l.whollyKnown || l.isNull) = false := by
  induction xss with
  | nil => rfl
  | cons xs r ih =>
    simp only [List.map_cons, List.any_cons, ih, Bool.or_false]
    simp [strList, Value.whollyKnown, Payload.whollyKnown, whollyKnownL_strings, Value.isNull, Payload.isNull, Payload.unmark1]

theorem joinImpl_strLists (L : Lib) (sep : String) (xss : List (List String)) (h : xss ≠ []) :
    joinImpl L (sv sep :: xss.map strList) = .ok (stringVal L.nfc (sep.intercalate xss.flatten)) := by
  have hlen : ¬ (xss.map strList).length < 1 := by
    cases xss with
    | nil => exact absurd rfl h
    | cons a r => simp
  have hfine : ¬ ∃ x, x ∈ xss ∧ ((strList x).whollyKnown = false ∨ (strList x).isNull = true) := by
    rintro ⟨x, _, hx⟩
    simp [strList, Value.whollyKnown, Payload.whollyKnown, whollyKnownL_strings, Value.isNull, Payload.isNull, Payload.unmark1] at hx
  simp only [joinImpl, List.drop_succ_cons, List.drop_zero]
  simp [joinCollect_strLists, h, hfine]

theorem joinImpl_no_list (L : Lib) (sep : String) : joinImpl L [sv sep] = .err "at least one list is required" := by
  simp [joinImpl]

/-- at the level of strings: joining the pieces of the split gives the string back -/
theorem intercalate_goSplit (s sep : String) :
    sep.intercalate ((goSplit s.toList sep.toList).map String.ofList) = s := by
  apply String.toList_injective
  rw [intercalate_toList, List.map_map]
  have : (String.toList ∘ String.ofList) = id := by funext l; simp
  rw [this, List.map_id, goJoin_goSplit]

/-- `join(sep, split(sep, s)) = s` through the two `Impl`s, when the pieces and the string are
in normal form already (NFC is closed under taking substrings — a fact about x/text the
harness observes as "the result is a fixed point of NFC") -/
theorem join_split_roundtrip (L : Lib) (sep s : String) (r : Value)
    (hp : ∀ p ∈ (goSplit s.toList sep.toList).map String.ofList, L.nfc p = p)
    (hr : splitImpl (refLib L) [sv sep, sv s] = .ok r) :
    joinImpl L [sv sep, r] = .ok (stringVal L.nfc s) := by
  rw [splitImpl_ref] at hr
  have hr' : r = strList ((goSplit s.toList sep.toList).map String.ofList) := by
    have := (Res.ok.inj hr).symm
    rw [this]
    simp only [strList, List.map_map]
    congr 2
    apply List.map_congr_left
    intro p hpm
    have := hp (String.ofList p) (List.mem_map.mpr ⟨p, hpm, rfl⟩)
    simp [this]
  rw [hr']
  have := joinImpl_strLists L sep [(goSplit s.toList sep.toList).map String.ofList] (by simp)
  simp only [List.map_cons, List.map_nil, List.flatten_cons, List.flatten_nil, List.append_nil] at this
  rw [this, intercalate_goSplit]

end D14b
end StdNum
end CtyModel
