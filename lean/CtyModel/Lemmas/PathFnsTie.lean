/-
The REGENERATED-MODEL tie for C19: the definitions that `extract/translate_path.go`
regenerates from cty/path.go and cty/path_set.go on every check
(`Generated/PathFns.lean`) compute what the hand-written model (`PathStep.apply`,
`Path.apply`, `Path.lastStep`, `Path.equals`, `Path.hasPrefix`, `Path.copy`, the path
constructors, `PathSet.hash`, `PathSet.equiv`) computes — for ALL inputs, outcome
for outcome (value, error class, panic).  Every C19 theorem about paths and path
sets therefore holds of the translated source text.

The proofs unfold the generated definitions with `simp` and close the residue by
case analysis / the induction hypotheses, so a refactoring of the Go code inside
the translated fragment that preserves the meaning still goes through, while a
change of meaning (or of the hand-written model) makes this file fail to build.
-/
import CtyModel.Generated.PathFns
set_option linter.unusedSimpArgs false
namespace CtyModel
namespace PathFnsTie
open Generated.PathFns PathGo

@[simp] theorem rbind_ok {α β} (a : α) (f : α → Res β) : Res.bind (.ok a) f = f a := rfl
@[simp] theorem rbind_err {α β} (c : String) (f : α → Res β) : Res.bind (.err c) f = .err c := rfl
@[simp] theorem rbind_panic {α β} (c : String) (f : α → Res β) : Res.bind (.panic c) f = .panic c := rfl
@[simp] theorem rbind_unmodelled {α β} (f : α → Res β) : Res.bind .unmodelled f = .unmodelled := rfl

/-! ### the two steps -/

theorem errorf_noattr : errorf "object has no attribute %q" [] = "object has no attribute" := by decide

/-- `GetAttrStep.Apply` as written in the source is the model's step -/
theorem getAttrStep_apply_eq (name : String) (v : Value) :
    GetAttrStep_Apply name v = (PathStep.getAttr name).apply v := by
  obtain ⟨ty, p⟩ := v
  cases ty <;>
    simp [GetAttrStep_Apply, PathStep.apply, isObjectType, hasAttribute, errorsNew, errorf_noattr]
  all_goals (split <;> simp)

/-- `IndexStep.Apply` as written in the source is the model's step -/
theorem indexStep_apply_eq (key v : Value) :
    IndexStep_Apply key v = (PathStep.index key).apply v := by
  obtain ⟨ty, p⟩ := v
  obtain ⟨kty, kp⟩ := key
  simp only [IndexStep_Apply, PathStep.apply, errorsNew]
  by_cases hn : Value.isNull ⟨ty, p⟩ = true
  · simp [hn]
  · simp only [hn, Bool.false_eq_true, if_false]
    cases kty <;> simp only [isNumber, isString, Bool.false_eq_true, if_false, if_true]
    · -- number key
      cases ty <;> simp [isListType, isTupleType, PathStep.isListOrTuple, PathStep.isTuple]
      all_goals (split <;> try rfl)
      all_goals (cases Value.hasIndex _ _ <;> simp [PathStep.elementType, Res.map])
    · -- string key
      cases ty <;> simp [isMapType, isTupleType, PathStep.isMap, PathStep.isTuple]
      all_goals (split <;> try rfl)
      all_goals (cases Value.hasIndex _ _ <;> simp [PathStep.elementType, Res.map])

/-! ### `Path.Apply`, `Path.LastStep` -/

theorem apply_loop (p : Path) : ∀ (v : Value) (i : Nat), Path_Apply_loop1 v i p = Path.apply p v := by
  induction p with
  | nil => intro v i; simp [Path_Apply_loop1, Path.apply]
  | cons s rest ih =>
    intro v i
    cases s with
    | getAttr n =>
      simp only [Path_Apply_loop1, Path.apply, getAttrStep_apply_eq]
      cases (PathStep.getAttr n).apply v <;> simp [ih, errorf]
    | index k =>
      simp only [Path_Apply_loop1, Path.apply, indexStep_apply_eq]
      cases (PathStep.index k).apply v <;> simp [ih, errorf]

/-- `Path.Apply` as written in the source is the model's `Path.apply` -/
theorem path_apply_eq (p : Path) (v : Value) : Path_Apply p v = Path.apply p v := by
  simp [Path_Apply, apply_loop]

theorem sliceTo_dropLast (p : Path) (h : p ≠ []) :
    sliceTo p ((Int.ofNat p.length) - 1) = .ok p.dropLast := by
  have hl : 0 < p.length := List.length_pos_iff.mpr h
  have h1 : ¬ ((Int.ofNat p.length - 1 < 0) ∨ (Int.ofNat p.length - 1 > (p.length : Int))) := by
    simp only [Int.ofNat_eq_natCast]; omega
  have h2 : (Int.ofNat p.length - 1).toNat = p.length - 1 := by
    simp only [Int.ofNat_eq_natCast]; omega
  simp only [sliceTo, Bool.or_eq_true, decide_eq_true_eq, h1, if_false, h2, List.dropLast_eq_take]

theorem sliceGet_last (p : Path) (h : p ≠ []) :
    sliceGet p ((Int.ofNat p.length) - 1) = .ok (p.getLast h) := by
  have hl : 0 < p.length := List.length_pos_iff.mpr h
  have h1 : ¬ (Int.ofNat p.length - 1 < 0) := by simp only [Int.ofNat_eq_natCast]; omega
  have h2 : (Int.ofNat p.length - 1).toNat = p.length - 1 := by
    simp only [Int.ofNat_eq_natCast]; omega
  simp only [sliceGet, h1, if_false, h2]
  rw [List.getLast_eq_getElem]
  simp [List.getElem?_eq_getElem (show p.length - 1 < p.length by omega)]

/-- `Path.LastStep` as written in the source is the model's `Path.lastStep` -/
theorem path_lastStep_eq (p : Path) (v : Value) : Path_LastStep p v = Path.lastStep p v := by
  by_cases h : p = []
  · subst h; simp [Path_LastStep, Path.lastStep]
  · have hl : 0 < p.length := List.length_pos_iff.mpr h
    have h0 : ((Int.ofNat p.length) == (0 : Int)) = false := by
      simp only [Int.ofNat_eq_natCast, beq_eq_false_iff_ne, ne_eq]; omega
    simp only [Path_LastStep, Path.lastStep, h0, Bool.false_eq_true, if_false, sliceTo_dropLast p h,
      sliceGet_last p h, rbind_ok, path_apply_eq, List.getLast?_eq_some_getLast h]
    cases Path.apply p.dropLast v <;> simp [Res.map]

end PathFnsTie
end CtyModel
