/-
The REGENERATED-MODEL tie for C19: the definitions that `extract/translate_path.go`
regenerates from cty/path.go and cty/path_set.go on every check
(`Generated/PathFns.lean`) compute what the hand-written model (`PathStep.apply`,
`Path.apply`, `Path.lastStep`, `Path.equals`, `Path.hasPrefix`, `Path.copy`, the path
constructors, `PathSet.hash`, `PathSet.equiv`) computes — for ALL inputs, outcome
for outcome (value, error class, panic).  Every C19 theorem about paths and path
sets therefore holds of the translated source text.

The proofs unfold the generated definitions with `simp` and close the residue by
case analysis / the induction hypotheses, so a refactoring of the Go code inside
the translated fragment that preserves the meaning still goes through, while a
change of meaning (or of the hand-written model) makes this file fail to build.
-/
import CtyModel.Generated.PathFns
set_option linter.unusedSimpArgs false
namespace CtyModel
namespace PathFnsTie
open Generated.PathFns PathGo

@[simp] theorem rbind_ok {α β} (a : α) (f : α → Res β) : Res.bind (.ok a) f = f a := rfl
@[simp] theorem rbind_err {α β} (c : String) (f : α → Res β) : Res.bind (.err c) f = .err c := rfl
@[simp] theorem rbind_panic {α β} (c : String) (f : α → Res β) : Res.bind (.panic c) f = .panic c := rfl
@[simp] theorem rbind_unmodelled {α β} (f : α → Res β) : Res.bind .unmodelled f = .unmodelled := rfl

/-! ### the two steps -/

theorem errorf_noattr : errorf "object has no attribute %q" [] = "object has no attribute" := by decide

/-- `GetAttrStep.Apply` as written in the source is the model's step -/
theorem getAttrStep_apply_eq (name : String) (v : Value) :
    GetAttrStep_Apply name v = (PathStep.getAttr name).apply v := by
  obtain ⟨ty, p⟩ := v
  cases ty <;>
    simp [GetAttrStep_Apply, PathStep.apply, isObjectType, hasAttribute, errorsNew, errorf_noattr]
  all_goals (split <;> simp)

/-- `IndexStep.Apply` as written in the source is the model's step -/
theorem indexStep_apply_eq (key v : Value) :
    IndexStep_Apply key v = (PathStep.index key).apply v := by
  obtain ⟨ty, p⟩ := v
  obtain ⟨kty, kp⟩ := key
  simp only [IndexStep_Apply, PathStep.apply, errorsNew]
  by_cases hn : Value.isNull ⟨ty, p⟩ = true
  · simp [hn]
  · simp only [hn, Bool.false_eq_true, if_false]
    cases kty <;> simp only [isNumber, isString, Bool.false_eq_true, if_false, if_true]
    · -- number key
      cases ty <;> simp [isListType, isTupleType, PathStep.isListOrTuple, PathStep.isTuple]
      all_goals (split <;> try rfl)
      all_goals (cases Value.hasIndex _ _ <;> simp [PathStep.elementType, Res.map])
    · -- string key
      cases ty <;> simp [isMapType, isTupleType, PathStep.isMap, PathStep.isTuple]
      all_goals (split <;> try rfl)
      all_goals (cases Value.hasIndex _ _ <;> simp [PathStep.elementType, Res.map])

/-! ### `Path.Apply`, `Path.LastStep` -/

theorem apply_loop (p : Path) : ∀ (v : Value) (i : Nat), Path_Apply_loop1 v i p = Path.apply p v := by
  induction p with
  | nil => intro v i; simp [Path_Apply_loop1, Path.apply]
  | cons s rest ih =>
    intro v i
    cases s with
    | getAttr n =>
      simp only [Path_Apply_loop1, Path.apply, getAttrStep_apply_eq]
      cases (PathStep.getAttr n).apply v <;> simp [ih, errorf]
    | index k =>
      simp only [Path_Apply_loop1, Path.apply, indexStep_apply_eq]
      cases (PathStep.index k).apply v <;> simp [ih, errorf]

/-- `Path.Apply` as written in the source is the model's `Path.apply` -/
theorem path_apply_eq (p : Path) (v : Value) : Path_Apply p v = Path.apply p v := by
  simp [Path_Apply, apply_loop]

theorem sliceTo_dropLast (p : Path) (h : p ≠ []) :
    sliceTo p ((Int.ofNat p.length) - 1) = .ok p.dropLast := by
  have hl : 0 < p.length := List.length_pos_iff.mpr h
  have h1 : ¬ ((Int.ofNat p.length - 1 < 0) ∨ (Int.ofNat p.length - 1 > (p.length : Int))) := by
    simp only [Int.ofNat_eq_natCast]; omega
  have h2 : (Int.ofNat p.length - 1).toNat = p.length - 1 := by
    simp only [Int.ofNat_eq_natCast]; omega
  simp only [sliceTo, Bool.or_eq_true, decide_eq_true_eq, h1, if_false, h2, List.dropLast_eq_take]

theorem sliceGet_last (p : Path) (h : p ≠ []) :
    sliceGet p ((Int.ofNat p.length) - 1) = .ok (p.getLast h) := by
  have hl : 0 < p.length := List.length_pos_iff.mpr h
  have h1 : ¬ (Int.ofNat p.length - 1 < 0) := by simp only [Int.ofNat_eq_natCast]; omega
  have h2 : (Int.ofNat p.length - 1).toNat = p.length - 1 := by
    simp only [Int.ofNat_eq_natCast]; omega
  simp only [sliceGet, h1, if_false, h2]
  rw [List.getLast_eq_getElem]
  simp [List.getElem?_eq_getElem (show p.length - 1 < p.length by omega)]

/-- `Path.LastStep` as written in the source is the model's `Path.lastStep` -/
theorem path_lastStep_eq (p : Path) (v : Value) : Path_LastStep p v = Path.lastStep p v := by
  by_cases h : p = []
  · subst h; simp [Path_LastStep, Path.lastStep]
  · have hl : 0 < p.length := List.length_pos_iff.mpr h
    have h0 : ((Int.ofNat p.length) == (0 : Int)) = false := by
      simp only [Int.ofNat_eq_natCast, beq_eq_false_iff_ne, ne_eq]; omega
    simp only [Path_LastStep, Path.lastStep, h0, Bool.false_eq_true, if_false, sliceTo_dropLast p h,
      sliceGet_last p h, rbind_ok, path_apply_eq, List.getLast?_eq_some_getLast h]
    cases Path.apply p.dropLast v <;> simp [Res.map]

/-! ### slices -/

theorem sliceGet_nat (xs : List PathStep) (i : Nat) :
    sliceGet xs (i : Int) = match xs[i]? with
      | some s => .ok s
      | none => .panic "index out of range" := by
  have h1 : ¬ ((i : Int) < 0) := by omega
  simp only [sliceGet, h1, if_false, Int.toNat_natCast]
  cases xs[i]? <;> rfl

theorem drop_cons_get {xs : List PathStep} {i : Nat} {b : PathStep} {q : List PathStep}
    (h : xs.drop i = b :: q) : xs[i]? = some b ∧ xs.drop (i + 1) = q := by
  constructor
  · have := List.getElem?_drop (xs := xs) (i := i) (j := 0)
    rw [h] at this
    simpa using this.symm
  · have : (xs.drop i).drop 1 = xs.drop (i + 1) := by rw [List.drop_drop]
    rw [← this, h]; rfl

theorem sliceTo_nat (xs : List PathStep) (n : Nat) (h : n ≤ xs.length) :
    sliceTo xs (n : Int) = .ok (xs.take n) := by
  have h1 : ¬ (((n : Int) < 0) ∨ ((n : Int) > (xs.length : Int))) := by omega
  simp only [sliceTo, Bool.or_eq_true, decide_eq_true_eq, h1, if_false, Int.toNat_natCast]

theorem sliceDone_some : ∀ xs : List PathStep, sliceDone (xs.map some) = .ok xs
  | [] => rfl
  | x :: xs => by simp [sliceDone, sliceDone_some xs, Res.map]

theorem sliceCopy_fresh : ∀ (p : List PathStep) (k : Nat),
    sliceCopy (List.replicate (p.length + k) none) p = p.map some ++ List.replicate k none
  | [], k => by cases k <;> simp [sliceCopy, List.replicate]
  | x :: p, k => by
    have : (x :: p).length + k = (p.length + k) + 1 := by simp; omega
    rw [this, List.replicate_succ]
    simp [sliceCopy, sliceCopy_fresh p k]

theorem sliceMake_nat (n : Nat) : sliceMake (n : Int) = .ok (List.replicate n none) := by
  have h1 : ¬ ((n : Int) < 0) := by omega
  simp only [sliceMake, h1, if_false, Int.toNat_natCast]

theorem sliceMake_succ (n : Nat) : sliceMake ((n : Int) + 1) = .ok (List.replicate (n + 1) none) := by
  have : (n : Int) + 1 = ((n + 1 : Nat) : Int) := by omega
  rw [this, sliceMake_nat]

/-- `make(Path, len(p)+1); copy(ret, p); ret[len(p)] = s` is `p ++ [s]` -/
theorem append_one (p : List PathStep) (s : PathStep) :
    (Res.bind (sliceMake ((p.length : Int) + 1)) fun x =>
      Res.bind (sliceSet (sliceCopy x p) (p.length : Int) s) fun ret => sliceDone ret) = .ok (p ++ [s]) := by
  have hc := sliceCopy_fresh p 1
  have h1 : ¬ (((p.length : Int) < 0) ∨ ((p.length : Int) ≥ ((p.map some ++ [none]).length : Int))) := by
    simp only [List.length_append, List.length_map, List.length_singleton]; omega
  have h2 : (List.map some p ++ [none]).set p.length (some s) = (p ++ [s]).map some := by
    rw [List.set_append_right _ _ (by simp)]
    simp
  simp only [sliceMake_succ, rbind_ok, hc, List.replicate_one, sliceSet, Bool.or_eq_true, decide_eq_true_eq, h1,
    if_false, Int.toNat_natCast, h2, sliceDone_some]

/-! ### `Path.Equals`, `Path.HasPrefix`, `Path.Copy`, the constructors -/

theorem equals_loop (X : SetOracle) (other : Path) : ∀ (p q : Path) (i : Nat), other.drop i = q → p.length = q.length →
    Path_Equals_loop1 X other i p = Path.equals X p q := by
  intro p
  induction p with
  | nil =>
    intro q i _ hl
    cases q with
    | nil => simp [Path_Equals_loop1, Path.equals]
    | cons _ _ => simp at hl
  | cons s rest ih =>
    intro q i hd hl
    cases q with
    | nil => simp at hl
    | cons b q' =>
      obtain ⟨hg, hd'⟩ := drop_cons_get hd
      have hl' : rest.length = q'.length := by simpa using hl
      have ih' := ih q' (i + 1) hd' hl'
      cases s <;> cases b <;>
        simp [Path_Equals_loop1, Path.equals, Int.ofNat_eq_natCast, sliceGet_nat, hg, ih']
      all_goals (cases Value.rawEquals X _ _ with
        | ok x => cases x <;> rfl
        | _ => rfl)

/-- `Path.Equals` as written in the source is the model's `Path.equals` on paths of one length… -/
theorem path_equals_eq (X : SetOracle) (p q : Path) (h : p.length = q.length) :
    Path_Equals X p q = Path.equals X p q := by
  simp [Path_Equals, Int.ofNat_eq_natCast, h, equals_loop X q p q 0 rfl h]

/-- …and answers `false` at once when the lengths differ (the hand-written model walks the common prefix
first, so it can meet a `RawEquals` it has no answer for; where it has an answer, it is the same one). -/
theorem path_equals_ne_len (X : SetOracle) (p q : Path) (h : p.length ≠ q.length) :
    Path_Equals X p q = .ok false := by
  have : ¬ ((p.length : Int) = (q.length : Int)) := by omega
  simp [Path_Equals, Int.ofNat_eq_natCast, this]

theorem model_equals_ne_len (X : SetOracle) : ∀ (p q : Path) (b : Bool), p.length ≠ q.length →
    Path.equals X p q = .ok b → b = false
  | [], [], _, h, _ => by simp at h
  | [], _ :: _, b, _, he => by simp [Path.equals] at he; exact he
  | _ :: _, [], b, _, he => by simp [Path.equals] at he; exact he
  | .getAttr a :: p, .getAttr c :: q, b, h, he => by
    simp only [Path.equals] at he
    split at he
    · exact model_equals_ne_len X p q b (by simpa using h) he
    · injection he with he; exact he.symm
  | .index a :: p, .index c :: q, b, h, he => by
    simp only [Path.equals] at he
    split at he
    · exact model_equals_ne_len X p q b (by simpa using h) he
    · cases b with
      | false => rfl
      | true => simp_all
  | .getAttr _ :: _, .index _ :: _, b, _, he => by simp [Path.equals] at he; exact he
  | .index _ :: _, .getAttr _ :: _, b, _, he => by simp [Path.equals] at he; exact he

/-- whenever the hand-written `Path.equals` has an answer, the source text computes the same -/
theorem path_equals_of_model (X : SetOracle) (p q : Path) (b : Bool) (h : Path.equals X p q = .ok b) :
    Path_Equals X p q = .ok b := by
  by_cases hl : p.length = q.length
  · rw [path_equals_eq X p q hl, h]
  · rw [path_equals_ne_len X p q hl, model_equals_ne_len X p q b hl h]

/-- `Path.HasPrefix` as written in the source is the model's `Path.hasPrefix` -/
theorem path_hasPrefix_eq (X : SetOracle) (p pre : Path) : Path_HasPrefix X p pre = Path.hasPrefix X p pre := by
  by_cases h : pre.length > p.length
  · have : (pre.length : Int) > (p.length : Int) := by omega
    simp [Path_HasPrefix, Path.hasPrefix, Int.ofNat_eq_natCast, h, this]
  · have h' : ¬ ((pre.length : Int) > (p.length : Int)) := by omega
    have hl : (p.take pre.length).length = pre.length := by simp; omega
    simp only [Path_HasPrefix, Path.hasPrefix, Int.ofNat_eq_natCast, h, h', decide_false, Bool.false_eq_true, if_false,
      sliceTo_nat p pre.length (by omega), rbind_ok, path_equals_eq X _ _ hl]

/-- `Path.Copy` -/
theorem path_copy_eq (p : Path) : Path_Copy p = .ok (Path.copy p) := by
  have := sliceCopy_fresh p 0
  simp only [Nat.add_zero, List.replicate_zero, List.append_nil] at this
  simp only [Path_Copy, Int.ofNat_eq_natCast, sliceMake_nat, rbind_ok, this, sliceDone_some, Path.copy]

/-- `Path.Index`, `Path.GetAttr` and the convenience constructors -/
theorem path_index_eq (p : Path) (v : Value) : Path_Index p v = .ok (Path.index p v) := by
  simp only [Path_Index, Path.index, Int.ofNat_eq_natCast]; exact append_one p _
theorem path_getAttr_eq (p : Path) (n : String) : Path_GetAttr p n = .ok (Path.getAttr p n) := by
  simp only [Path_GetAttr, Path.getAttr, Int.ofNat_eq_natCast]; exact append_one p _
theorem path_indexInt_eq (p : Path) (i : Int) : Path_IndexInt p i = .ok (Path.indexInt p i) := by
  simp only [Path_IndexInt, Path.indexInt, path_index_eq]
theorem path_indexString_eq (p : Path) (s : String) : Path_IndexString p s = .ok (Path.indexString p s) := by
  simp only [Path_IndexString, Path.indexString, path_index_eq]
theorem indexPath_eq (v : Value) : IndexPath v = .ok (Path.indexPath v) := by
  simp only [IndexPath, Path.indexPath, path_index_eq]
theorem indexIntPath_eq (i : Int) : IndexIntPath i = .ok (Path.indexIntPath i) := by
  simp only [IndexIntPath, Path.indexIntPath, Path.indexInt, indexPath_eq, Path.indexPath]
theorem indexStringPath_eq (s : String) : IndexStringPath s = .ok (Path.indexStringPath s) := by
  simp only [IndexStringPath, Path.indexStringPath, Path.indexString, indexPath_eq, Path.indexPath]
theorem getAttrPath_eq (n : String) : GetAttrPath n = .ok (Path.getAttrPath n) := by
  simp only [GetAttrPath, Path.getAttrPath, path_getAttr_eq]

/-! ### `pathSetRules` -/

theorem placeholder_eq : indexStepPlaceholder = [35] := by
  unfold indexStepPlaceholder bytes; decide +kernel

theorem hash_loop : ∀ (p : Path) (h : Hash64),
    pathSetRules_Hash_loop1 h p = .ok (PathSet.toInt64 (PathSet.crc64 (h ++ PathSet.hashBytes p)))
  | [], h => by simp [pathSetRules_Hash_loop1, PathSet.hashBytes, intOfUint64, crcSum64]
  | .getAttr n :: p, h => by
    simp [pathSetRules_Hash_loop1, PathSet.hashBytes, hash_loop p, crcWrite, bytes]
  | .index k :: p, h => by
    simp [pathSetRules_Hash_loop1, PathSet.hashBytes, hash_loop p, crcWrite, placeholder_eq]

/-- `pathSetRules.Hash` as written in the source — the attribute names, one `#` for every other step, CRC-64/ISO
of the lot, truncated to `int` — is the model's `PathSet.hash` -/
theorem hash_eq (p : Path) : pathSetRules_Hash p = .ok (PathSet.hash p) := by
  simp [pathSetRules_Hash, hash_loop, crcNew, PathSet.hash]

theorem equiv_loop (other : Path) : ∀ (p q : Path) (i : Nat), other.drop i = q → p.length = q.length →
    pathSetRules_Equivalent_loop1 other i p = PathSet.equivSteps p q := by
  intro p
  induction p with
  | nil => intro q i _ _; simp [pathSetRules_Equivalent_loop1, PathSet.equivSteps]
  | cons s rest ih =>
    intro q i hd hl
    cases q with
    | nil => simp at hl
    | cons b q' =>
      obtain ⟨hg, hd'⟩ := drop_cons_get hd
      have hl' : rest.length = q'.length := by simpa using hl
      have ih' := ih q' (i + 1) hd' hl'
      cases s <;> cases b <;>
        simp [pathSetRules_Equivalent_loop1, PathSet.equivSteps, Int.ofNat_eq_natCast, sliceGet_nat, hg, ih']
      cases Value.equals _ _ with
      | ok x =>
        by_cases hk : x.unmark.isKnown = true <;> by_cases ht : x.unmark.isTrue = true <;>
          simp [valFalse, hk, ht]
      | _ => rfl

/-- `pathSetRules.Equivalent` as written in the source is the model's `PathSet.equiv`, for all paths -/
theorem equivalent_eq (p q : Path) : pathSetRules_Equivalent p q = PathSet.equiv p q := by
  by_cases h : p.length = q.length
  · simp [pathSetRules_Equivalent, PathSet.equiv, Int.ofNat_eq_natCast, h, equiv_loop q p q 0 rfl h]
  · have : ¬ ((p.length : Int) = (q.length : Int)) := by omega
    simp [pathSetRules_Equivalent, PathSet.equiv, Int.ofNat_eq_natCast, h, this]

/-- `pathSetRules.SameRules`: exactly the other `pathSetRules{}` values -/
theorem sameRules_eq (o : RulesImpl) : pathSetRules_SameRules o = .ok (decide (o = .pathSetRules)) := by
  cases o <;> rfl

/-- the `set.Rules[Path]` the source defines (`Hash`, `Equivalent` as translated), as a `Rules Path` of the set
model; a panicking comparison cannot be expressed in `Rules` (as in `PathSet.pathRules`) -/
def genRules : Rules Path :=
  { hash := fun p => match pathSetRules_Hash p with | .ok h => h | _ => 0,
    equiv := fun p q => match pathSetRules_Equivalent p q with | .ok b => b | _ => false }

/-- …and on paths with known number / string keys -/
def genGoodRules : Rules PathSet.GoodPath :=
  { hash := fun p => genRules.hash p.1, equiv := fun p q => genRules.equiv p.1 q.1 }

/-- …is the hand-written `pathRules` -/
theorem genRules_eq : genRules = PathSet.pathRules := by
  simp only [genRules, PathSet.pathRules, hash_eq, equivalent_eq]
  rfl

theorem genGoodRules_eq : genGoodRules = PathSet.goodRules := by
  simp only [genGoodRules, PathSet.goodRules, genRules_eq]

/-! ### the `PathSet` methods (for any rules `R` over paths) -/

theorem sliceTo3_nat (xs : List PathStep) (n : Nat) (h : n ≤ xs.length) :
    sliceTo3 xs (n : Int) (n : Int) = .ok (xs.take n) := by
  have h1 : ¬ (((n : Int) < 0) ∨ ((n : Int) > (n : Int)) ∨ ((n : Int) > (xs.length : Int))) := by omega
  simp only [sliceTo3, Bool.or_eq_true, decide_eq_true_eq, or_assoc, h1, if_false, Int.toNat_natCast]

theorem addAll_loop (R : Rules Path) (p : Path) : ∀ (n k : Nat) (s : SetImpl Path), k + n = p.length →
    PathSet_AddAllSteps_loop1 R p s n ((k : Int) + 1) =
      .ok (((List.range' k n).map fun i => p.take (i + 1)).foldl (SetImpl.add R) s)
  | 0, k, s, _ => by simp [PathSet_AddAllSteps_loop1]
  | n + 1, k, s, h => by
    have hk : ((k : Int) + 1) = ((k + 1 : Nat) : Int) := by omega
    have ih := addAll_loop R p n (k + 1) (SetImpl.add R s (p.take (k + 1))) (by omega)
    simp only [PathSet_AddAllSteps_loop1, hk, sliceTo3_nat p (k + 1) (by omega), rbind_ok, PathSet_Add,
      List.range'_succ, List.map_cons, List.foldl_cons]
    rw [← ih]

/-- `PathSet.AddAllSteps` as written in the source adds `path[:1], …, path[:len(path)]`, in that order: the model's
`addAll` of `prefixes` (no slice bound is out of range) -/
theorem addAllSteps_eq (R : Rules Path) (s : SetImpl Path) (p : Path) :
    PathSet_AddAllSteps R s p = .ok (PathSet.addAll R s (PathSet.prefixes p)) := by
  have hn : Int.toNat (((p.length : Int) - 1) + 1) = p.length := by omega
  have := addAll_loop R p p.length 0 s (by omega)
  simp only [Int.ofNat_eq_natCast, Int.natCast_zero, Int.zero_add] at this
  simp only [PathSet_AddAllSteps, Int.ofNat_eq_natCast, hn, this, PathSet.addAll, PathSet.prefixes, List.range_eq_range']

theorem equal_loop (R : Rules Path) (o : SetImpl Path) : ∀ l : List Path,
    PathSet_Equal_loop1 R o l = .ok (l.all fun v => SetImpl.has R o v)
  | [] => by simp [PathSet_Equal_loop1]
  | v :: l => by
    simp only [PathSet_Equal_loop1, equal_loop R o l, List.all_cons]
    cases SetImpl.has R o v <;> simp

/-- `PathSet.Equal` as written in the source is the model's `PathSet.equal` -/
theorem equal_eq (R : Rules Path) (s o : SetImpl Path) : PathSet_Equal R s o = .ok (PathSet.equal R s o) := by
  by_cases h : s.length = o.length
  · simp [PathSet_Equal, PathSet.equal, Int.ofNat_eq_natCast, h, equal_loop]
  · have : ¬ ((s.length : Int) = (o.length : Int)) := by omega
    have this' : ¬ ((o.length : Int) = (s.length : Int)) := by omega
    simp [PathSet_Equal, PathSet.equal, Int.ofNat_eq_natCast, h, this, this']

/-- `PathSet.Empty` -/
theorem empty_eq (s : SetImpl Path) : PathSet_Empty s = .ok (PathSet.isEmpty s) := by
  by_cases h : s.length = 0
  · simp [PathSet_Empty, PathSet.isEmpty, Int.ofNat_eq_natCast, h]
  · have : ¬ ((s.length : Int) = 0) := by omega
    have h1 : ((s.length : Int) == 0) = false := by simpa using this
    have h2 : (s.length == 0) = false := by simpa using h
    simp only [PathSet_Empty, PathSet.isEmpty, Int.ofNat_eq_natCast, h1, h2]

theorem list_loop : ∀ (l acc : List Path), PathSet_List_loop1 acc l = .ok (acc ++ l)
  | [], acc => by simp [PathSet_List_loop1]
  | v :: l, acc => by simp [PathSet_List_loop1, list_loop l]

/-- `PathSet.List` -/
theorem list_eq (R : Rules Path) (s : SetImpl Path) : PathSet_List R s = .ok (PathSet.list R s) := by
  have h1 : ¬ ((s.length : Int) < 0) := by omega
  simp only [PathSet_List, empty_eq, rbind_ok, PathSet.list, makePaths, Int.ofNat_eq_natCast, h1, if_false, list_loop,
    List.nil_append]
  split <;> rfl

/-- the methods that forward to cty/set -/
theorem add_eq (R : Rules Path) (s : SetImpl Path) (p : Path) : PathSet_Add R s p = .ok (SetImpl.add R s p) := rfl
theorem remove_eq (R : Rules Path) (s : SetImpl Path) (p : Path) : PathSet_Remove R s p = .ok (SetImpl.remove R s p) := rfl
theorem has_eq (R : Rules Path) (s : SetImpl Path) (p : Path) : PathSet_Has R s p = .ok (SetImpl.has R s p) := rfl
theorem union_eq (R : Rules Path) (s o : SetImpl Path) : PathSet_Union R s o = .ok (SetImpl.union R s o) := rfl
theorem intersection_eq (R : Rules Path) (s o : SetImpl Path) :
    PathSet_Intersection R s o = .ok (SetImpl.intersection R s o) := rfl
theorem subtract_eq (R : Rules Path) (s o : SetImpl Path) : PathSet_Subtract R s o = .ok (SetImpl.subtract R s o) := rfl
theorem symmetricDifference_eq (R : Rules Path) (s o : SetImpl Path) :
    PathSet_SymmetricDifference R s o = .ok (SetImpl.symmetricDifference R s o) := rfl

/-! ### `Walk` / `walk` (cty/walk.go) -/

theorem stepKey_getAttr (n : String) : stepKey (.getAttr n) = ⟨.string, .s n⟩ := rfl
theorem stepKey_index (k : Value) : stepKey (.index k) = k := rfl

theorem loop1_eq (path : Path) (self : Walk.WalkRec) : ∀ (kids : List (PathStep × Value)) (log : List Walk.Visit),
    (∀ sc ∈ kids, ∃ n, sc.1 = .getAttr n) →
    walk_loop1 path self log (kids.map fun sc => (stepKey sc.1, sc.2)) = Walk.walkKids self log path kids
  | [], log, _ => by simp [walk_loop1, Walk.walkKids]
  | (s, c) :: kids, log, h => by
    obtain ⟨n, hn⟩ := h (s, c) (by simp)
    simp only at hn
    subst hn
    have ih := fun l => loop1_eq path self kids l (fun sc hsc => h sc (by simp [hsc]))
    simp only [List.map_cons, walk_loop1, Walk.walkKids, stepKey_getAttr, asString, bindT]
    rcases hr : self log (path ++ [PathStep.getAttr n]) c with ⟨l, r⟩
    cases r <;> simp [callT, ih]

theorem loop2_eq (path : Path) (self : Walk.WalkRec) : ∀ (kids : List (PathStep × Value)) (log : List Walk.Visit),
    (∀ sc ∈ kids, ∃ k, sc.1 = .index k) →
    walk_loop2 path self log (kids.map fun sc => (stepKey sc.1, sc.2)) = Walk.walkKids self log path kids
  | [], log, _ => by simp [walk_loop2, Walk.walkKids]
  | (s, c) :: kids, log, h => by
    obtain ⟨k, hk⟩ := h (s, c) (by simp)
    simp only at hk
    subst hk
    have ih := fun l => loop2_eq path self kids l (fun sc hsc => h sc (by simp [hsc]))
    simp only [List.map_cons, walk_loop2, Walk.walkKids, stepKey_index]
    rcases hr : self log (path ++ [PathStep.index k]) c with ⟨l, r⟩
    cases r <;> simp [callT, ih]

theorem objKids_attr : ∀ (ns : List String) (ts : List Ty) (vs : List Payload),
    ∀ sc ∈ Walk.objKids ns ts vs, ∃ n, sc.1 = PathStep.getAttr n
  | [], _, _ => by simp [Walk.objKids]
  | _ :: _, [], _ => by simp [Walk.objKids]
  | _ :: _, _ :: _, [] => by simp [Walk.objKids]
  | n :: ns, t :: ts, v :: vs => by
    intro sc h
    simp only [Walk.objKids, List.mem_cons] at h
    rcases h with rfl | h
    · exact ⟨n, rfl⟩
    · exact objKids_attr ns ts vs sc h

theorem seqKids_index (e : Ty) : ∀ (vs : List Payload) (i : Nat), ∀ sc ∈ Walk.seqKids e i vs, ∃ k, sc.1 = PathStep.index k
  | [], _ => by simp [Walk.seqKids]
  | v :: vs, i => by
    intro sc h
    simp only [Walk.seqKids, List.mem_cons] at h
    rcases h with rfl | h
    · exact ⟨_, rfl⟩
    · exact seqKids_index e vs (i + 1) sc h

theorem tupKids_index : ∀ (ts : List Ty) (vs : List Payload) (i : Nat), ∀ sc ∈ Walk.tupKids i ts vs, ∃ k, sc.1 = PathStep.index k
  | [], _, _ => by simp [Walk.tupKids]
  | _ :: _, [], _ => by simp [Walk.tupKids]
  | t :: ts, v :: vs, i => by
    intro sc h
    simp only [Walk.tupKids, List.mem_cons] at h
    rcases h with rfl | h
    · exact ⟨_, rfl⟩
    · exact tupKids_index ts vs (i + 1) sc h

theorem mapKids_index (e : Ty) : ∀ (ks : List String) (vs : List Payload), ∀ sc ∈ Walk.mapKids e ks vs, ∃ k, sc.1 = PathStep.index k
  | [], _ => by simp [Walk.mapKids]
  | _ :: _, [] => by simp [Walk.mapKids]
  | k :: ks, v :: vs => by
    intro sc h
    simp only [Walk.mapKids, List.mem_cons] at h
    rcases h with rfl | h
    · exact ⟨_, rfl⟩
    · exact mapKids_index e ks vs sc h

theorem setKids_index (e : Ty) : ∀ (ms : List Payload), ∀ sc ∈ Walk.setKids e ms, ∃ k, sc.1 = PathStep.index k
  | [] => by simp [Walk.setKids]
  | m :: ms => by
    intro sc h
    simp only [Walk.setKids, List.mem_cons] at h
    rcases h with rfl | h
    · exact ⟨_, rfl⟩
    · exact setKids_index e ms sc h

/-- the members of an object are reached by attribute steps, all others by index steps, and a value that
`CanIterateElements` refuses has no members -/
theorem children_steps (X : SetOracle) (v : Value) :
    (isObjectType v.ty = true → ∀ sc ∈ Walk.children X v, ∃ n, sc.1 = PathStep.getAttr n) ∧
    (isObjectType v.ty = false → ∀ sc ∈ Walk.children X v, ∃ k, sc.1 = PathStep.index k) ∧
    (isObjectType v.ty = false → canIterateElements v = false → Walk.children X v = []) := by
  obtain ⟨ty, p⟩ := v
  cases ty <;> cases p <;>
    simp [Walk.children, isObjectType, canIterateElements, isListType, isMapType, isSetType, isTupleType,
      Value.isMarked, Payload.isMarked]
  all_goals first
    | exact fun a b h => objKids_attr _ _ _ (a, b) h
    | exact fun a b h => seqKids_index _ _ _ (a, b) h
    | exact fun a b h => tupKids_index _ _ _ (a, b) h
    | exact fun a b h => mapKids_index _ _ _ (a, b) h
    | exact fun a b h => setKids_index _ _ (a, b) h

/-- `walk` as written in the source is the model's `walkFuel`: same callback invocations, same outcome, for every
callback (failing, pruning, panicking ones included) -/
theorem walk_fuel_eq (X : SetOracle) (cb : Walk.WalkCb) : ∀ (n : Nat) (log : List Walk.Visit) (path : Path) (val : Value),
    walk_fuel X cb n log path val = Walk.walkFuel X cb n log path val
  | 0, _, _, _ => rfl
  | n + 1, log, path, val => by
    have ih : walk_fuel X cb n = Walk.walkFuel X cb n := by
      funext l p v; exact walk_fuel_eq X cb n l p v
    obtain ⟨h1, h2, h3⟩ := children_steps X val.unmark
    have hty : (Value.unmark val).ty = val.ty := rfl
    rw [hty] at h1 h2 h3
    -- the three ways the member loops of the source relate to the model's `walkKids` over `children`
    have e1 : isObjectType val.ty = true → ∀ l, walk_loop1 path (Walk.walkFuel X cb n) l (elements X val.unmark) =
        Walk.walkKids (Walk.walkFuel X cb n) l path (Walk.children X val.unmark) :=
      fun ho l => loop1_eq path _ _ l (h1 ho)
    have e2 : isObjectType val.ty = false → ∀ l, walk_loop2 path (Walk.walkFuel X cb n) l (elements X val.unmark) =
        Walk.walkKids (Walk.walkFuel X cb n) l path (Walk.children X val.unmark) :=
      fun ho l => loop2_eq path _ _ l (h2 ho)
    have e3 : isObjectType val.ty = false → canIterateElements val.unmark = false → ∀ l,
        Walk.walkKids (Walk.walkFuel X cb n) l path (Walk.children X val.unmark) = (l, .ok ()) :=
      fun ho hc l => by rw [h3 ho hc]; rfl
    simp only [walk_fuel, Walk.walkFuel, ih]
    cases cb log path val with
    | ok deeper =>
      simp only [callCb]
      cases deeper <;> cases hn1 : val.isNull <;> cases hn2 : val.isKnown <;> cases ho : isObjectType val.ty <;>
        cases hc : canIterateElements val.unmark <;> simp_all
    | err c => rfl
    | panic w => rfl
    | unmodelled => rfl

/-- `cty.Walk` as written in the source is the model's `Walk.walk` -/
theorem walk_eq (X : SetOracle) (cb : Walk.WalkCb) (val : Value) : go_Walk X cb [] val = Walk.walk X cb val := by
  simp only [go_Walk, walk, Walk.walk, walk_fuel_eq]

end PathFnsTie
end CtyModel
