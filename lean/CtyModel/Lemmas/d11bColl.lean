/-
C11 totality obligations (slice d11b) for `keys`, `values`, `reverse`, `coalescelist`, `compact`
(collection.go): `type_total_<f>` and `implGood_<f>` over every argument list the protocol may
hand the callbacks, then `call_total_<f>` by `call_total_of_good`.
-/
import CtyModel.Lemmas.d11bBase
import CtyModel.Lemmas.StdlibSeq
namespace CtyModel
namespace Stdlib
open Fn Value
variable {nfc : String → Bool}

/-! ### small facts about the constructors -/

theorem tysOf_map_strVal (ns : List String) : Gocty.tysOf (ns.map strVal) = ns.map fun _ => Ty.string := by
  induction ns with
  | nil => rfl
  | cons n ns ih => simp [Gocty.tysOf, ih, strVal]

theorem wfL_strings (ns : List String) : Ty.wfL (ns.map fun _ => Ty.string) = true := by
  induction ns with
  | nil => rfl
  | cons n ns ih => simp [Ty.wfL, Ty.wf, ih]

theorem map_strVal_eq (ks : List String) : ks.map strVal = (ks.map Payload.s).map (⟨Ty.string, ·⟩) := by
  simp [List.map_map, Function.comp_def, strVal]

theorem tysOf_reverse (l : List Value) : Gocty.tysOf l.reverse = (Gocty.tysOf l).reverse := by
  have h : ∀ l : List Value, Gocty.tysOf l = l.map (·.ty) := by
    intro l; induction l with
    | nil => rfl
    | cons v l ih => simp [Gocty.tysOf, ih]
  simp [h]

theorem wf_list_elem {e : Ty} (h : Ty.wf (.list e) = true) : Ty.wf e = true := by simpa [Ty.wf] using h
theorem wf_set_elem {e : Ty} (h : Ty.wf (.set e) = true) : Ty.wf e = true := by simpa [Ty.wf] using h
theorem wf_map_elem {e : Ty} (h : Ty.wf (.map e) = true) : Ty.wf e = true := by simpa [Ty.wf] using h

/-- `ListVal` of non-empty members that all have the element type `e`: the list of type `list(e)` -/
theorem listVal_of_ty {e : Ty} (he : Ty.wf e = true) {ws : List Value} (hne : ws ≠ []) (h : ∀ w ∈ ws, w.ty = e) :
    ∃ ps, Gocty.listVal ws = .ok ⟨.list e, .seq ps⟩ := by
  have : ws = (ws.map (·.v)).map (⟨e, ·⟩) := by
    rw [List.map_map]
    conv => lhs; rw [← List.map_id ws]
    apply List.map_congr_left
    intro w hw
    have := h w hw
    cases w; simp_all
  rw [this]
  exact ⟨_, listVal_map e (Ty.equals_self he) _ (by simpa using hne)⟩


/-! ### `ElementIterator` with the types of what it yields -/

/-- what `elems` of a known, non-null, unmarked well-formed value yields has the element type
(collections) resp. the per-position types (tuples, objects) -/
def ElemsTyped (t : Ty) (xs : List Value) : Prop :=
  match t with
  | .list e | .set e | .map e => ∀ x ∈ xs, x.ty = e
  | .tuple ts | .object _ ts _ => Gocty.tysOf xs = ts
  | _ => True

theorem elems_typed (E : Env) {v : Value} (hv : v.WF nfc = true) (hm : v.isMarked = false)
    (hk : v.isKnown = true) (hn : v.isNull = false) (ht : isIterTy v.ty = true) :
    ∃ xs, elems E v = .ok xs ∧ lengthInt v = .ok xs.length ∧ (∀ x ∈ xs, x.WF nfc = true) ∧ ElemsTyped v.ty xs := by
  obtain ⟨xs, h1, h2, h3⟩ := elems_total E hv hm hk hn ht
  refine ⟨xs, h1, h2, h3, ?_⟩
  obtain ⟨t, p⟩ := v
  cases t <;> simp [isIterTy] at ht <;> cases p <;>
    simp [Value.WF, Payload.wfP, Value.isMarked, Value.isKnown, Value.isNull, Payload.isMarked, Payload.isKnown,
      Payload.isNull, Payload.unmark1] at hv hm hk hn <;>
    simp [elems] at h1 <;> subst h1 <;> simp [ElemsTyped]
  · exact tysOf_zipTV _ _ hv.2.1
  · exact tysOf_zipTV _ _ hv.2.1.2

/-! ### `keys` -/

theorem type_total_keys {as : List Value} (h : TypeArgsOK nfc keysSpec as) (w : String) :
    keysType as ≠ .panic w := by
  obtain ⟨a, rfl, _⟩ := args_inv1 h
  simp only [keysType]
  split <;> simp

theorem implGood_keys {as : List Value} {rt : Ty} (h : ImplArgsOK nfc keysSpec as) (ht : keysType as = .ok rt) :
    ImplGood rt (keysImpl as rt) := by
  obtain ⟨a, rfl, ha⟩ := args_inv1 h
  have hnn := arg_nonnull ha.toArgOK rfl
  obtain ⟨huw, hum, huk, hun⟩ := arg_unmark ha.toArgOK
  rw [hnn] at hun
  have hty : a.unmark.ty = a.ty := rfl
  simp only [keysType] at ht
  simp only [keysImpl]
  rw [← hty] at ht
  generalize a.unmark = m at *
  generalize a.marks = ms
  obtain ⟨t, q⟩ := m
  cases t <;> simp at ht <;> dsimp only
  · -- map
    rename_i e
    subst ht
    by_cases hk' : (Value.mk (Ty.map e) q).isKnown = true
    case neg =>
      simp only [hk', Bool.not_false, if_true]
      exact implGood_withMarkSets _ (implGood_unknown (rt := .list .string) rfl)
    case pos =>
      simp only [hk', Bool.not_true, Bool.false_eq_true, if_false]
      -- the keys of a known non-null map
      cases q <;> simp [WF, Payload.wfP, Value.isKnown, Value.isNull, Payload.isKnown, Payload.isNull,
        Payload.unmark1, Value.isMarked, Payload.isMarked] at huw hk' hun hum
      rename_i ks vs
      simp only [elemKeys]
      by_cases hl : ks.length = 0
      · simp only [hl, beq_self_eq_true, if_true]
        exact implGood_withMarkSets _ (implGood_seq (by decide) rfl)
      · simp only [hl, beq_iff_eq, if_false]
        refine implGood_map_withMarkSets _ ?_
        rw [map_strVal_eq, listVal_map .string rfl _ (by
          intro hnil; apply hl; simpa using congrArg List.length hnil)]
        exact implGood_seq (by decide) rfl
  · -- object
    rename_i ns ts os
    subst ht
    by_cases hl : ns.length = 0
    · have : ns = [] := List.length_eq_zero_iff.mp hl
      subst this
      simp only [List.length_nil, beq_self_eq_true, if_true, List.map_nil]
      exact implGood_withMarkSets _ (implGood_seq (by decide) rfl)
    · simp only [hl, beq_iff_eq, if_false]
      refine implGood_withMarkSets _ ?_
      simp only [Gocty.tupleVal, tysOf_map_strVal]
      exact implGood_seq (conform_refl _ (by simpa [Ty.wf] using wfL_strings ns)) rfl

theorem call_total_keys (args : List Value) (hargs : ∀ a ∈ args, a.WF nfc = true) :
    (∀ w, (call keysSpec keysType keysImpl args).1 ≠ .panic w) ∧
    (∀ w, (call keysSpec keysType keysImpl args).1 ≠ .err (.panicError w)) :=
  call_total_of_good keysSpec keysType keysImpl rfl (fun _ w h => type_total_keys h w)
    (fun _ _ h ht => implGood_keys h ht) args hargs


/-! ### `values` -/

theorem type_total_values {as : List Value} (h : TypeArgsOK nfc valuesSpec as) (w : String) :
    valuesType as ≠ .panic w := by
  obtain ⟨a, rfl, _⟩ := args_inv1 h
  simp only [valuesType]
  split <;> simp

theorem wf_object_tuple {ns : List String} {ts : List Ty} {os : List Bool} (h : Ty.wf (.object ns ts os) = true) :
    Ty.wf (.tuple ts) = true := by
  simp only [Ty.wf, Bool.and_eq_true] at h ⊢
  exact h.2

theorem implGood_values (E : Env) {as : List Value} {rt : Ty} (h : ImplArgsOK nfc valuesSpec as)
    (ht : valuesType as = .ok rt) : ImplGood rt (valuesImpl E as rt) := by
  obtain ⟨a, rfl, ha⟩ := args_inv1 h
  obtain ⟨hk, hn⟩ := arg_known_nonnull ha rfl rfl
  obtain ⟨huw, hum, huk, hun⟩ := arg_unmark ha.toArgOK
  rw [hk] at huk; rw [hn] at hun
  have hty : a.unmark.ty = a.ty := rfl
  simp only [valuesType] at ht
  simp only [valuesImpl]
  rw [← hty] at ht
  generalize a.unmark = m at *
  generalize a.marks = ms
  have hit : isIterTy m.ty = true := by cases hmt : m.ty <;> simp [hmt] at ht <;> rfl
  obtain ⟨xs, hx, hl, hxw, hxt⟩ := elems_typed E huw hum huk hun hit
  rw [hx]; dsimp only
  have hwt := wf_ty_wf huw
  obtain ⟨t, q⟩ := m
  cases t <;> simp at ht
  · -- map
    rename_i e
    subst ht
    have hwe : Ty.wf e = true := wf_map_elem hwt
    simp only [isTupleTy, Bool.false_eq_true, if_false]
    by_cases hl0 : xs.length = 0
    · simp only [hl0, beq_self_eq_true, if_true, elementTypeOf, Res.map]
      exact implGood_withMarkSets _ (implGood_seq (conform_refl _ (by simpa [Ty.wf] using hwe)) rfl)
    · simp only [hl0, beq_iff_eq, if_false]
      refine implGood_map_withMarkSets _ ?_
      obtain ⟨ps, hps⟩ := listVal_of_ty hwe (by intro h0; simp [h0] at hl0) hxt
      rw [hps]
      exact implGood_seq (conform_refl _ (by simpa [Ty.wf] using hwe)) rfl
  · -- object
    rename_i ns ts os
    subst ht
    simp only [isTupleTy, if_true]
    refine implGood_withMarkSets _ ?_
    have hxt' : Gocty.tysOf xs = ts := hxt
    simp only [Gocty.tupleVal, hxt']
    exact implGood_seq (conform_refl _ (wf_object_tuple hwt)) rfl

theorem call_total_values (E : Env) (args : List Value) (hargs : ∀ a ∈ args, a.WF nfc = true) :
    (∀ w, (call valuesSpec valuesType (valuesImpl E) args).1 ≠ .panic w) ∧
    (∀ w, (call valuesSpec valuesType (valuesImpl E) args).1 ≠ .err (.panicError w)) :=
  call_total_of_good valuesSpec valuesType (valuesImpl E) rfl (fun _ w h => type_total_values h w)
    (fun _ _ h ht => implGood_values E h ht) args hargs


/-! ### `reverse` -/

theorem wfL_iff (ts : List Ty) : Ty.wfL ts = true ↔ ∀ t ∈ ts, Ty.wf t = true := by
  induction ts with
  | nil => simp [Ty.wfL]
  | cons t ts ih => simp [Ty.wfL, ih]

theorem wf_tuple_reverse {ts : List Ty} (h : Ty.wf (.tuple ts) = true) : Ty.wf (.tuple ts.reverse) = true := by
  simp only [Ty.wf] at h ⊢
  rw [wfL_iff] at h ⊢
  intro t ht
  exact h t (List.mem_reverse.mp ht)

theorem asValueSlice_of_elems {E : Env} {m : Value} {xs : List Value} (h1 : elems E m = .ok xs)
    (h2 : lengthInt m = .ok xs.length) : asValueSlice E m = .ok xs := by
  unfold asValueSlice
  rw [h2]
  cases xs with
  | nil => rfl
  | cons x xs => simpa using h1

theorem type_total_reverse {as : List Value} (h : TypeArgsOK nfc reverseSpec as) (w : String) :
    reverseType as ≠ .panic w := by
  obtain ⟨a, rfl, _⟩ := args_inv1 h
  simp only [reverseType]
  split <;> simp

theorem implGood_reverse (E : Env) {as : List Value} {rt : Ty} (h : ImplArgsOK nfc reverseSpec as)
    (ht : reverseType as = .ok rt) : ImplGood rt (reverseImpl E as rt) := by
  obtain ⟨a, rfl, ha⟩ := args_inv1 h
  obtain ⟨hk, hn⟩ := arg_known_nonnull ha rfl rfl
  obtain ⟨huw, hum, huk, hun⟩ := arg_unmark ha.toArgOK
  rw [hk] at huk; rw [hn] at hun
  have hty : a.unmark.ty = a.ty := rfl
  simp only [reverseType] at ht
  simp only [reverseImpl]
  rw [← hty] at ht
  generalize a.unmark = m at *
  generalize a.marks = ms
  have hit : isIterTy m.ty = true := by cases hmt : m.ty <;> simp [hmt] at ht <;> rfl
  obtain ⟨xs, hx, hl, hxw, hxt⟩ := elems_typed E huw hum huk hun hit
  have hwt := wf_ty_wf huw
  have hrt : rt.wf = true := by
    cases hmt : m.ty <;> simp [hmt] at ht <;> subst ht <;> rw [hmt] at hwt
    · simpa [Ty.wf] using hwt
    · simpa [Ty.wf] using hwt
    · exact wf_tuple_reverse hwt
  split
  · exact implGood_withMarkSets _ (implGood_unknown hrt)
  · rw [asValueSlice_of_elems hx hl]; dsimp only
    rw [reverseLoop_eq, List.append_nil]
    obtain ⟨t, q⟩ := m
    cases t <;> simp at ht
    · -- list
      rename_i e hsplit
      subst ht
      have hwe : Ty.wf e = true := wf_list_elem hwt
      have hxt' : ∀ x ∈ xs.reverse, x.ty = e := fun x hx => hxt x (List.mem_reverse.mp hx)
      simp only [isTupleTy, Bool.false_eq_true, if_false]
      by_cases hl0 : xs.reverse.length = 0
      · simp only [hl0, beq_self_eq_true, if_true, elementTypeOf, Res.map]
        exact implGood_withMarkSets _ (implGood_seq (conform_refl _ hrt) rfl)
      · simp only [hl0, beq_iff_eq, if_false]
        refine implGood_map_withMarkSets _ ?_
        obtain ⟨ps, hps⟩ := listVal_of_ty hwe (by intro h0; simp [h0] at hl0) hxt'
        rw [hps]
        exact implGood_seq (conform_refl _ hrt) rfl
    · -- set
      rename_i e hsplit
      subst ht
      have hwe : Ty.wf e = true := wf_set_elem hwt
      have hxt' : ∀ x ∈ xs.reverse, x.ty = e := fun x hx => hxt x (List.mem_reverse.mp hx)
      simp only [isTupleTy, Bool.false_eq_true, if_false]
      by_cases hl0 : xs.reverse.length = 0
      · simp only [hl0, beq_self_eq_true, if_true, elementTypeOf, Res.map]
        exact implGood_withMarkSets _ (implGood_seq (conform_refl _ hrt) rfl)
      · simp only [hl0, beq_iff_eq, if_false]
        refine implGood_map_withMarkSets _ ?_
        obtain ⟨ps, hps⟩ := listVal_of_ty hwe (by intro h0; simp [h0] at hl0) hxt'
        rw [hps]
        exact implGood_seq (conform_refl _ hrt) rfl
    · -- tuple
      rename_i ts hsplit
      subst ht
      simp only [isTupleTy, if_true]
      refine implGood_withMarkSets _ ?_
      have hxt' : Gocty.tysOf xs = ts := hxt
      simp only [Gocty.tupleVal, tysOf_reverse, hxt']
      exact implGood_seq (conform_refl _ hrt) rfl

theorem call_total_reverse (E : Env) (args : List Value) (hargs : ∀ a ∈ args, a.WF nfc = true) :
    (∀ w, (call reverseSpec reverseType (reverseImpl E) args).1 ≠ .panic w) ∧
    (∀ w, (call reverseSpec reverseType (reverseImpl E) args).1 ≠ .err (.panicError w)) :=
  call_total_of_good reverseSpec reverseType (reverseImpl E) rfl (fun _ w h => type_total_reverse h w)
    (fun _ _ h ht => implGood_reverse E h ht) args hargs


/-! ### `coalescelist`

The `Type` callback scans the arguments in order and answers the placeholder type at the first
unknown one; before that it has refused every argument that is not a list or a tuple.  `Impl`
scans in the same order and returns at the first unknown argument — so it only asks the length
of lists and tuples. -/

/-- every argument before the first unknown one is a list or a tuple -/
def clPre : List Value → Bool
  | [] => true
  | a :: rest => !a.isKnown || ((isListTy a.ty || isTupleTy a.ty) && clPre rest)

theorem coalesceListArgTypes_inv : ∀ (args : List Value) (o : Option (List Ty)),
    coalesceListArgTypes args = .ok o → clPre args = true ∧ ∀ ts, o = some ts → ts = args.map (·.ty)
  | [], o, h => by
    simp only [coalesceListArgTypes] at h
    cases h
    exact ⟨rfl, fun ts hts => by cases hts; rfl⟩
  | a :: rest, o, h => by
    simp only [coalesceListArgTypes] at h
    by_cases hk : a.isKnown = true
    · simp only [hk, Bool.not_true, Bool.false_eq_true, if_false] at h
      by_cases hl : (isListTy a.ty || isTupleTy a.ty) = true
      · have hl' : (!isListTy a.ty && !isTupleTy a.ty) = false := by
          cases h1 : isListTy a.ty <;> cases h2 : isTupleTy a.ty <;> simp_all
        simp only [hl', Bool.false_eq_true, if_false] at h
        cases hr : coalesceListArgTypes rest with
        | ok o' =>
          obtain ⟨ih1, ih2⟩ := coalesceListArgTypes_inv rest o' hr
          rw [hr] at h
          cases o' with
          | none =>
            cases h
            exact ⟨by simp [clPre, hk, hl, ih1], fun ts hts => by cases hts⟩
          | some ts' =>
            cases h
            refine ⟨by simp [clPre, hk, hl, ih1], fun ts hts => ?_⟩
            cases hts
            simp [ih2 ts' rfl]
        | err c => rw [hr] at h; cases h
        | panic w => rw [hr] at h; cases h
        | unmodelled => rw [hr] at h; cases h
      · have hl' : (!isListTy a.ty && !isTupleTy a.ty) = true := by
          cases h1 : isListTy a.ty <;> cases h2 : isTupleTy a.ty <;> simp_all
        simp [hl'] at h
    · simp only [hk, Bool.not_false, if_true] at h
      cases h
      exact ⟨by simp [clPre, hk], fun ts hts => by cases hts⟩

theorem coalesceListArgTypes_no_panic (args : List Value) (w : String) : coalesceListArgTypes args ≠ .panic w := by
  induction args with
  | nil => simp [coalesceListArgTypes]
  | cons a rest ih =>
    simp only [coalesceListArgTypes]
    split
    · simp
    · split
      · simp
      · split
        · simp
        · rename_i r hr
          intro h
          exact ih h

theorem type_total_coalesceList {as : List Value} (w : String) : coalesceListType as ≠ .panic w := by
  simp only [coalesceListType]
  split
  · simp
  · rename_i hl
    cases hr : coalesceListArgTypes as with
    | ok o =>
      cases o with
      | none => simp
      | some ts =>
        cases ts with
        | nil =>
          have := (coalesceListArgTypes_inv as _ hr).2 [] rfl
          have h0 : as = [] := by simpa using this.symm
          simp [h0] at hl
        | cons last rest => dsimp only; split <;> simp
    | err c => simp [Res.cast]
    | panic w' => exact absurd hr (coalesceListArgTypes_no_panic as w')
    | unmodelled => simp [Res.cast]

theorem wf_not_bad {v : Value} (h : v.WF nfc = true) (w : String) : v.v ≠ .bad w := by
  intro hb
  obtain ⟨t, p⟩ := v
  simp only at hb
  subst hb
  cases t <;> simp [Value.WF, Payload.wfP] at h

theorem coalesceListLoop_good {vp : Param} (hvm : vp.allowMarked = false) (rt : Ty) (hrt : rt.wf = true) :
    ∀ (args : List Value), (∀ a ∈ args, ImplArgOK nfc vp a) → clPre args = true →
      (∀ a ∈ args, Ty.conformErrs rt a.ty = 0) → ImplGood rt (coalesceListLoop rt args)
  | [], _, _, _ => implGood_err _ _
  | a :: rest, hc, hp, hcf => by
    have ih := coalesceListLoop_good hvm rt hrt rest (fun b hb => hc b (List.mem_cons_of_mem _ hb))
    simp only [coalesceListLoop]
    by_cases hk : a.isKnown = true
    · simp only [hk, Bool.not_true, Bool.false_eq_true, if_false]
      simp only [clPre, hk, Bool.not_true, Bool.false_or, Bool.and_eq_true] at hp
      have ih' := ih hp.2 (fun b hb => hcf b (List.mem_cons_of_mem _ hb))
      by_cases hn : a.isNull = true
      · simpa only [hn, if_true] using ih'
      · simp only [hn, Bool.false_eq_true, if_false]
        have ha := hc a List.mem_cons_self
        have hm : a.isMarked = false := isMarked_of_clean (ha.mark hvm)
        have hn' : a.isNull = false := by simpa using hn
        have hit : isIterTy a.ty = true := by
          cases hty : a.ty <;> simp [hty, isListTy, isTupleTy] at hp <;> rfl
        obtain ⟨xs, _, hl, _⟩ := elems_total (nfc := nfc) {} ha.wf hm hk hn' hit
        rw [hl]; dsimp only
        split
        · refine implGood_known (hcf a List.mem_cons_self) hm hk hn' (wf_not_bad ha.wf) ?_
          cases hty : a.ty <;> simp [hty, isListTy, isTupleTy] at hp <;> rfl
        · exact ih'
    · simp only [hk, Bool.not_false, if_true]
      exact implGood_unknown hrt

theorem implGood_coalesceList {as : List Value} {rt : Ty} (h : ImplArgsOK nfc coalesceListSpec as)
    (ht : coalesceListType as = .ok rt) : ImplGood rt (coalesceListImpl as rt) := by
  have hc := args_invVar h
  simp only [coalesceListType] at ht
  split at ht
  · cases ht
  · cases hr : coalesceListArgTypes as with
    | ok o =>
      obtain ⟨hpre, hts⟩ := coalesceListArgTypes_inv as o hr
      rw [hr] at ht
      cases o with
      | none =>
        cases ht
        exact coalesceListLoop_good rfl .dyn rfl as hc hpre (fun a _ => conform_dyn _)
      | some ts =>
        have hts' := hts ts rfl
        cases ts with
        | nil => simp [oob] at ht
        | cons last rest =>
          dsimp only at ht
          split at ht
          · rename_i hall
            cases ht
            -- every argument has the type of the first one
            cases as with
            | nil => simp at hts'
            | cons a0 as' =>
              simp only [List.map_cons, List.cons.injEq] at hts'
              obtain ⟨h0, hr'⟩ := hts'
              have hw0 : Ty.wf a0.ty = true := wf_ty_wf (hc a0 List.mem_cons_self).wf
              subst h0 hr'
              refine coalesceListLoop_good rfl _ hw0 _ hc hpre fun a ha => ?_
              rcases List.mem_cons.mp ha with rfl | ha'
              · exact conform_refl _ hw0
              · have he : a.ty.equals a0.ty = true := by
                  simp only [List.all_eq_true, List.mem_map] at hall
                  exact hall _ ⟨a, ha', rfl⟩
                rw [(Ty.equals_iff_eq _ _ (wf_ty_wf (hc a ha).wf) hw0).mp he]
                exact conform_refl _ hw0
          · cases ht
            exact coalesceListLoop_good rfl .dyn rfl as hc hpre (fun a _ => conform_dyn _)
    | err c => rw [hr] at ht; simp [Res.cast] at ht
    | panic w' => exact absurd hr (coalesceListArgTypes_no_panic as w')
    | unmodelled => rw [hr] at ht; simp [Res.cast] at ht

theorem call_total_coalesceList (args : List Value) (hargs : ∀ a ∈ args, a.WF nfc = true) :
    (∀ w, (call coalesceListSpec coalesceListType coalesceListImpl args).1 ≠ .panic w) ∧
    (∀ w, (call coalesceListSpec coalesceListType coalesceListImpl args).1 ≠ .err (.panicError w)) :=
  call_total_of_good coalesceListSpec coalesceListType coalesceListImpl rfl (fun _ w _ => type_total_coalesceList w)
    (fun _ _ h ht => implGood_coalesceList h ht) args hargs


/-! ### `compact` -/

theorem compactLoop_strings : ∀ (vs : List Payload), Payload.wfAll nfc .string vs = true →
    Payload.containsMarkedL vs = false → Payload.whollyKnownL vs = true →
    ∃ out, compactLoop (vs.map (⟨Ty.string, ·⟩)) = .ok out ∧ ∀ v ∈ out, v.ty = .string
  | [], _, _, _ => ⟨[], rfl, fun _ h => by cases h⟩
  | p :: vs, hw, hm, hk => by
    simp only [Payload.wfAll, Bool.and_eq_true] at hw
    simp only [Payload.containsMarkedL, Bool.or_eq_false_iff] at hm
    simp only [Payload.whollyKnownL, Bool.and_eq_true] at hk
    obtain ⟨out, ho, hot⟩ := compactLoop_strings vs hw.2 hm.2 hk.2
    simp only [List.map_cons, compactLoop]
    cases p <;> simp [Payload.wfP, Payload.containsMarked, Payload.whollyKnown] at hw hm hk
    · -- null
      simp only [Value.isNull, Payload.isNull, Payload.unmark1, if_true]
      exact ⟨out, ho, hot⟩
    · -- string
      rename_i x
      simp only [Value.isNull, Payload.isNull, Payload.unmark1, Bool.false_eq_true, if_false, asString,
        Value.isMarked, Payload.isMarked, Ty.isString, Bool.not_true]
      by_cases hx : x = ""
      · simp only [hx, beq_self_eq_true, if_true]; exact ⟨out, ho, hot⟩
      · simp only [beq_iff_eq, hx, if_false, ho]
        exact ⟨_, rfl, fun v hv => by
          rcases List.mem_cons.mp hv with rfl | hv'
          · rfl
          · exact hot v hv'⟩

theorem implGood_compact (E : Env) {as : List Value} {rt : Ty} (h : ImplArgsOK nfc compactSpec as)
    (ht : compactType as = .ok rt) : ImplGood rt (compactImpl E as rt) := by
  obtain ⟨a, rfl, ha⟩ := args_inv1 h
  obtain ⟨hk, hn⟩ := arg_known_nonnull ha rfl rfl
  have hcm : a.containsMarked = false := ha.mark rfl
  have hm : a.isMarked = false := isMarked_of_clean hcm
  have hd := not_dyn_of_known_nonnull ha.wf hk hn
  have hty := conform_list_string_inv (ha.conf hd)
  simp only [compactType] at ht
  cases ht
  simp only [compactImpl]
  split
  · exact implGood_unknown rfl
  · rename_i hwk
    obtain ⟨t, p⟩ := a
    simp only at hty
    subst hty
    have hw := ha.wf
    cases p <;> simp [Value.WF, Payload.wfP, Value.isKnown, Value.isNull, Payload.isKnown, Payload.isNull,
      Payload.unmark1, Value.isMarked, Payload.isMarked] at hw hk hn hm
    rename_i vs
    simp only [Value.containsMarked, Payload.containsMarked] at hcm
    simp only [Value.whollyKnown, Payload.whollyKnown, Bool.not_eq_true', Bool.not_eq_false] at hwk
    obtain ⟨out, ho, hot⟩ := compactLoop_strings vs hw.2 hcm hwk
    simp only [elems, ho]
    by_cases hl : out.length = 0
    · simp only [hl, beq_self_eq_true, if_true]
      exact implGood_seq (by decide) rfl
    · simp only [hl, beq_iff_eq, if_false]
      obtain ⟨ps, hps⟩ := listVal_of_ty (e := .string) rfl (by intro h0; simp [h0] at hl) hot
      rw [hps]
      exact implGood_seq (by decide) rfl

theorem call_total_compact (E : Env) (args : List Value) (hargs : ∀ a ∈ args, a.WF nfc = true) :
    (∀ w, (call compactSpec compactType (compactImpl E) args).1 ≠ .panic w) ∧
    (∀ w, (call compactSpec compactType (compactImpl E) args).1 ≠ .err (.panicError w)) :=
  call_total_of_good compactSpec compactType (compactImpl E) rfl (fun _ w _ => by simp [compactType])
    (fun _ _ h ht => implGood_compact E h ht) args hargs


/-! ### `chunklist` -/

/-- the chunk loop: every closed chunk is a list of the element type, and the output is not empty
as soon as there was an element (the last element always closes a chunk: `(i+1) == l`) -/
theorem chunkLoop_good {e : Ty} (he : Ty.wf e = true) (size l : Nat) :
    ∀ (rest : List Value) (i : Nat) (chunk output : List Value),
      (∀ x ∈ chunk, x.ty = e) → (∀ x ∈ rest, x.ty = e) → (∀ o ∈ output, o.ty = .list e) →
      i + rest.length = l →
      ∃ out, chunkLoop size l i chunk output rest = .ok out ∧ (∀ o ∈ out, o.ty = .list e) ∧
        ((output ≠ [] ∨ rest ≠ []) → out ≠ [])
  | [], i, chunk, output, _, _, ho, _ => ⟨output, rfl, ho, fun h => by simpa using h⟩
  | v :: rest, i, chunk, output, hc, hr, ho, hl => by
    simp only [chunkLoop]
    have hc' : ∀ x ∈ chunk ++ [v], x.ty = e := by
      intro x hx
      rcases List.mem_append.mp hx with h | h
      · exact hc x h
      · simp only [List.mem_singleton] at h; subst h; exact hr _ List.mem_cons_self
    have hr' : ∀ x ∈ rest, x.ty = e := fun x hx => hr x (List.mem_cons_of_mem _ hx)
    split
    · obtain ⟨ps, hps⟩ := listVal_of_ty he (ws := chunk ++ [v]) (by simp) hc'
      rw [hps]; dsimp only
      obtain ⟨out, h1, h2, h3⟩ := chunkLoop_good he size l rest (i + 1) [] (output ++ [⟨.list e, .seq ps⟩])
        (fun _ h => by cases h) hr' (by
          intro o ho'
          rcases List.mem_append.mp ho' with h | h
          · exact ho o h
          · simp only [List.mem_singleton] at h; subst h; rfl) (by simp at hl ⊢; omega)
      exact ⟨out, h1, h2, fun _ => h3 (.inl (by simp))⟩
    · rename_i hcond
      have hne : rest ≠ [] := by
        intro h0
        subst h0
        simp only [List.length_cons, List.length_nil] at hl
        apply hcond
        simp [hl]
      obtain ⟨out, h1, h2, h3⟩ := chunkLoop_good he size l rest (i + 1) (chunk ++ [v]) output hc' hr' ho
        (by simp at hl ⊢; omega)
      exact ⟨out, h1, h2, fun _ => h3 (.inr hne)⟩

theorem type_total_chunklist {as : List Value} (h : TypeArgsOK nfc chunklistSpec as) (w : String) :
    chunklistType as ≠ .panic w := by
  obtain ⟨a, b, rfl, _⟩ := args_inv2 h
  simp [chunklistType]

theorem implGood_chunklist (E : Env) {as : List Value} {rt : Ty} (h : ImplArgsOK nfc chunklistSpec as)
    (ht : chunklistType as = .ok rt) : ImplGood rt (chunklistImpl E as rt) := by
  obtain ⟨a, b, rfl, ha, hb⟩ := args_inv2 h
  obtain ⟨hka, hna⟩ := arg_known_nonnull ha rfl rfl
  obtain ⟨hkb, hnb⟩ := arg_known_nonnull hb rfl rfl
  obtain ⟨haw, ham, hak, han⟩ := arg_unmark ha.toArgOK
  obtain ⟨hbw, hbm, hbk, hbn⟩ := arg_unmark hb.toArgOK
  rw [hka] at hak; rw [hna] at han; rw [hkb] at hbk; rw [hnb] at hbn
  have hda := not_dyn_of_known_nonnull ha.wf hka hna
  have hdb := not_dyn_of_known_nonnull hb.wf hkb hnb
  obtain ⟨e, hte⟩ := conform_list_inv (ha.conf hda)
  have htb : b.ty = .number := conform_number_inv (hb.conf hdb)
  obtain ⟨x, hx⟩ := wf_number_shape hbw hbm hbk hbn htb
  simp only [chunklistType] at ht
  cases ht
  have htu : a.unmark.ty = .list e := hte
  have hwl : Ty.wf (.list e) = true := htu ▸ wf_ty_wf haw
  have hwe : Ty.wf e = true := wf_list_elem hwl
  have hwll : Ty.wf (.list (.list e)) = true := by simpa [Ty.wf] using hwe
  obtain ⟨xs, hxs, hlen, _, hxt⟩ := elems_typed E haw ham hak han (by rw [htu]; rfl)
  have hxt' : ∀ v ∈ xs, v.ty = e := by rw [htu] at hxt; exact hxt
  simp only [chunklistImpl, hx]
  rcases fromCtyInt_numVal x with ⟨size, hs⟩ | ⟨c, hc⟩
  · rw [hs]; dsimp only
    split
    · exact implGood_err _ _
    · rw [hlen]; dsimp only
      rw [hte]
      split
      · refine implGood_withMarkSets _ ?_
        rw [htu]
        exact implGood_seq (conform_refl _ hwll) rfl
      · rename_i hl0
        split
        · refine implGood_map_withMarkSets _ ?_
          obtain ⟨ps, hps⟩ := listVal_of_ty (e := .list e) hwl (ws := [a.unmark]) (by simp)
            (by intro w hw; simp only [List.mem_singleton] at hw; subst hw; exact htu)
          rw [hps]
          exact implGood_seq (conform_refl _ hwll) rfl
        · rw [hxs]; dsimp only
          obtain ⟨out, ho, hot, hne⟩ := chunkLoop_good hwe size.toNat xs.length xs 0 [] []
            (fun _ h => by cases h) hxt' (fun _ h => by cases h) (by simp)
          rw [ho]; dsimp only
          refine implGood_map_withMarkSets _ ?_
          have hxne : xs ≠ [] := by
            intro h0; apply hl0; simp [h0]
          obtain ⟨ps, hps⟩ := listVal_of_ty (e := .list e) hwl (hne (.inr hxne)) hot
          rw [hps]
          exact implGood_seq (conform_refl _ hwll) rfl
  · rw [hc]; exact implGood_err _ _

theorem call_total_chunklist (E : Env) (args : List Value) (hargs : ∀ a ∈ args, a.WF nfc = true) :
    (∀ w, (call chunklistSpec chunklistType (chunklistImpl E) args).1 ≠ .panic w) ∧
    (∀ w, (call chunklistSpec chunklistType (chunklistImpl E) args).1 ≠ .err (.panicError w)) :=
  call_total_of_good chunklistSpec chunklistType (chunklistImpl E) rfl (fun _ w h => type_total_chunklist h w)
    (fun _ _ h ht => implGood_chunklist E h ht) args hargs

end Stdlib
end CtyModel
