/-
`setproduct` of known SETS: the result is the set value built (`cty.SetVal`) from the
row-major Cartesian product of the arguments' members in iteration order; under the
carrier-relative lawfulness of `setRules` it holds exactly the rows (up to
`RawEquals`), and, when the rows are pairwise different, as many members as the
product of the lengths.
-/
import CtyModel.Lemmas.d13Model
import CtyModel.Lemmas.StdlibProduct
import CtyModel.Lemmas.StdlibCall
namespace CtyModel
namespace Stdlib
open Value SetImpl

/-- known set arguments `(element type, bucket ids, members)` -/
abbrev SetArg := Ty × List Int × List Payload

def setArgs3 (sets : List SetArg) : List Value := sets.map fun s => ⟨.set s.1, .sset s.2.1 s.2.2⟩
/-- the members of each argument as the iterator yields them -/
def setSlices (E : Env) (sets : List SetArg) : List (List Value) :=
  sets.map fun s => (setIter E s.1 s.2.2).map (⟨s.1, ·⟩)
/-- …as payloads -/
def setIters (E : Env) (sets : List SetArg) : List (List Payload) :=
  sets.map fun s => setIter E s.1 s.2.2

theorem length_setIter (E : Env) (e : Ty) (vs : List Payload) : (setIter E e vs).length = vs.length :=
  (sortStable_perm _ vs).length_eq

theorem length_set_known (e : Ty) (ids : List Int) (vs : List Payload) (hk : Payload.whollyKnownL vs = true) :
    Value.length ⟨.set e, .sset ids vs⟩ = .ok (intVal vs.length) := by
  simp [Value.length, unMarks, Value.isMarked, Payload.isMarked, lengthU, Value.isKnown, Payload.isKnown,
    Payload.unmark1, hk]

theorem setProductScan_sets (E : Env) (sets : List SetArg) (hk : ∀ s ∈ sets, Payload.whollyKnownL s.2.2 = true)
    (t : Nat) :
    setProductScan (setArgs3 sets) [] t false =
      .ok ([], t * ((setSlices E sets).map (·.length)).foldr (· * ·) 1, false) := by
  induction sets generalizing t with
  | nil => simp [setArgs3, setSlices, setProductScan]
  | cons s ss ih =>
    have hu : (⟨.set s.1, .sset s.2.1 s.2.2⟩ : Value).unmark = ⟨.set s.1, .sset s.2.1 s.2.2⟩ := rfl
    have hm : (⟨.set s.1, .sset s.2.1 s.2.2⟩ : Value).marks = [] := rfl
    have hkn : (⟨.set s.1, .sset s.2.1 s.2.2⟩ : Value).isKnown = true := rfl
    simp only [setArgs3, List.map_cons, setProductScan, hu, hm, hkn, unionMarks, List.foldr_nil,
      Bool.not_true, Bool.false_eq_true, if_false, length_set_known s.1 s.2.1 s.2.2 (hk s (by simp)), Res.map,
      intVal_isKnown, lengthInt_set]
    have := ih (fun x hx => hk x (by simp [hx])) (t * s.2.2.length)
    simp only [setArgs3] at this
    rw [this]
    simp [setSlices, Nat.mul_assoc, length_setIter]

theorem asValueSlice_set (E : Env) (e : Ty) (ids : List Int) (vs : List Payload) :
    asValueSlice E ⟨.set e, .sset ids vs⟩ = .ok ((setIter E e vs).map (⟨e, ·⟩)) := by
  cases vs with
  | nil => simp [asValueSlice, setIter, sortStable]
  | cons v vs => simp [asValueSlice]

theorem argSlices_sets (E : Env) (sets : List SetArg) :
    argSlices E (setArgs3 sets) = .ok (setSlices E sets) := by
  induction sets with
  | nil => rfl
  | cons s ss ih =>
    have hu : (⟨.set s.1, .sset s.2.1 s.2.2⟩ : Value).unmark = ⟨.set s.1, .sset s.2.1 s.2.2⟩ := rfl
    simp only [setArgs3, List.map_cons, argSlices, hu, asValueSlice_set]
    simp only [setArgs3] at ih
    rw [ih]
    rfl

theorem typesMatch_sets (E : Env) (sets : List SetArg) (he : ∀ s ∈ sets, s.1.equals s.1 = true) :
    TypesMatch (setSlices E sets) (sets.map (·.1)) := by
  induction sets with
  | nil => trivial
  | cons s ss ih =>
    refine ⟨?_, ih (fun x hx => he x (by simp [hx]))⟩
    intro v hv
    obtain ⟨p, _, rfl⟩ := List.mem_map.mp hv
    exact he s (by simp)

theorem tysOf_cartesian_sets (E : Env) (sets : List SetArg) :
    ∀ row ∈ Spec.cartesian (setSlices E sets), Gocty.tysOf row = sets.map (·.1) := by
  induction sets with
  | nil => simp [setSlices, Spec.cartesian, Gocty.tysOf]
  | cons s ss ih =>
    intro row hrow
    simp only [setSlices, List.map_cons, Spec.cartesian, List.mem_flatMap, List.mem_map] at hrow
    obtain ⟨v, ⟨p, _, rfl⟩, r, hr, rfl⟩ := hrow
    simp [Gocty.tysOf, ih r (by simpa [setSlices] using hr)]

theorem payloads_cartesian_sets (E : Env) (sets : List SetArg) :
    (Spec.cartesian (setSlices E sets)).map Gocty.payloads = Spec.cartesian (setIters E sets) := by
  induction sets with
  | nil => simp [setSlices, setIters, Spec.cartesian, Gocty.payloads]
  | cons s ss ih =>
    simp only [setSlices, setIters, List.map_cons, Spec.cartesian, List.map_flatMap, List.flatMap_map, List.map_map]
    simp only [setSlices, setIters] at ih
    rw [← ih]
    simp [Function.comp_def, Gocty.payloads, List.map_map]

/-- the rows of the product as tuple payloads -/
def productRows (E : Env) (sets : List SetArg) : List Payload :=
  (Spec.cartesian (setIters E sets)).map Payload.seq

theorem mem_cartesian {α} : ∀ (ls : List (List α)) (row : List α), row ∈ Spec.cartesian ls →
    ∀ x ∈ row, ∃ l ∈ ls, x ∈ l
  | [], row, h => by simp [Spec.cartesian] at h; subst h; intro x hx; simp at hx
  | l :: ls, row, h => by
    simp only [Spec.cartesian, List.mem_flatMap, List.mem_map] at h
    obtain ⟨a, ha, r, hr, rfl⟩ := h
    intro x hx
    rcases List.mem_cons.mp hx with rfl | hx
    · exact ⟨l, by simp, ha⟩
    · obtain ⟨l', hl', hxl⟩ := mem_cartesian ls r hr x hx
      exact ⟨l', List.mem_cons_of_mem _ hl', hxl⟩

theorem containsMarkedL_of_forall : ∀ (l : List Payload), (∀ p ∈ l, p.containsMarked = false) →
    Payload.containsMarkedL l = false
  | [], _ => rfl
  | p :: l, h => by
    simp only [Payload.containsMarkedL, Bool.or_eq_false_iff]
    exact ⟨h p (by simp), containsMarkedL_of_forall l (fun q hq => h q (by simp [hq]))⟩

/-- `cty.SetVal` of non-empty, same-typed, mark-free, hashable members -/
theorem setVal_map (E : Env) (et : Ty) (he : et.equals et = true) (ps : List Payload) (hne : ps ≠ [])
    (hm : ∀ p ∈ ps, p.containsMarked = false) (hh : ∀ p ∈ ps, (E.hash et p).isSome = true) :
    setVal E (ps.map (⟨et, ·⟩)) = .ok (ofSetImpl et (SetImpl.fromList (setRules E et) ps)) := by
  have hmd : ∀ w ∈ ps.map (fun p => (⟨et, p⟩ : Value)), ¬ (w.marksDeep.length > 0) := by
    intro w hw
    obtain ⟨p, hp, rfl⟩ := List.mem_map.mp hw
    simp [Value.marksDeep, Payload.marksDeep_of_not_containsMarked p (hm p hp)]
  have hfilter : (ps.map (fun p => (⟨et, p⟩ : Value))).filter (fun w => decide (w.marksDeep.length > 0)) = [] := by
    rw [List.filter_eq_nil_iff]
    intro w hw
    simpa using hmd w hw
  have hmap : (ps.map (fun p => (⟨et, p⟩ : Value))).map
      (fun w => if w.marksDeep.length > 0 then w.unmarkDeep else w) = ps.map (⟨et, ·⟩) := by
    conv => rhs; rw [← List.map_id (ps.map (fun p => (⟨et, p⟩ : Value)))]
    apply List.map_congr_left
    intro w hw
    simp [hmd w hw]
  have hety : Gocty.elemTypeOf .dyn (ps.map (⟨et, ·⟩)) = .ok et := by
    cases ps with
    | nil => exact absurd rfl hne
    | cons v vs =>
      have h := elemTypeOf_same et he vs
      have hd : Gocty.isDynTy Ty.dyn = true := rfl
      simp only [List.map_cons, Gocty.elemTypeOf, hd, if_true, h]
  have hany : (ps.any fun p => (E.hash et p).isNone) = false := by
    rw [List.any_eq_false]
    intro p hp
    have := hh p hp
    cases h : E.hash et p <;> simp_all
  have hemp : (ps.map (fun p => (⟨et, p⟩ : Value))).isEmpty = false := by
    cases ps with
    | nil => exact absurd rfl hne
    | cons _ _ => rfl
  simp only [setVal, hemp, Bool.false_eq_true, if_false, hfilter, List.map_nil, hmap, hety, payloads_map, hany,
    withMarkSets_empty]

/-- **`setproduct` of known non-empty sets**: `cty.SetVal` of the rows of the row-major
Cartesian product of the members in iteration order, a set of tuples of the element types -/
theorem setProductImpl_sets (E : Env) (sets : List SetArg)
    (hne : ∀ s ∈ sets, s.2.2 ≠ []) (he : ∀ s ∈ sets, s.1.equals s.1 = true)
    (hk : ∀ s ∈ sets, Payload.whollyKnownL s.2.2 = true)
    (hm : ∀ s ∈ sets, ∀ p ∈ s.2.2, p.containsMarked = false)
    (hh : ∀ row ∈ productRows E sets, (E.hash (.tuple (sets.map (·.1))) row).isSome = true) :
    setProductImpl E (setArgs3 sets) (.set (.tuple (sets.map (·.1)))) =
      .ok (ofSetImpl (.tuple (sets.map (·.1)))
        (SetImpl.fromList (setRules E (.tuple (sets.map (·.1)))) (productRows E sets))) := by
  have hneS : ∀ vals ∈ setSlices E sets, vals ≠ [] := by
    intro vals hv
    obtain ⟨s, hs, rfl⟩ := List.mem_map.mp hv
    intro hnil
    have := congrArg List.length hnil
    simp only [List.length_map, length_setIter, List.length_nil] at this
    exact hne s hs (List.eq_nil_of_length_eq_zero this)
  have hpos := prod_pos ((setSlices E sets).map (·.length)) (by
    intro n hn
    obtain ⟨vals, hv, rfl⟩ := List.mem_map.mp hn
    exact List.length_pos_iff.mpr (hneS vals hv))
  have hloop := productLoop_eq E (setSlices E sets) (sets.map (·.1)) hneS (typesMatch_sets E sets he)
  have hz : ((setArgs3 sets).map fun _ => 0) = ((setSlices E sets).map fun _ => 0) := by
    simp [setArgs3, setSlices]
  simp only [setProductImpl, elementTypeOf, setProductScan_sets E sets hk 1, Nat.one_mul, Bool.false_eq_true,
    if_false, argSlices_sets, hz, hloop]
  have h0 : ¬ (((setSlices E sets).map (·.length)).foldr (· * ·) 1 = 0) := by omega
  have hb : (((setSlices E sets).map (·.length)).foldr (· * ·) 1 == 0) = false := by simpa using h0
  have hns : isListTy (Ty.set (Ty.tuple (sets.map (·.1)))) = false := rfl
  simp only [hb, hns, Bool.false_eq_true, if_false]
  -- the rows as tuple values
  have hrows : (Spec.cartesian (setSlices E sets)).map Gocty.tupleVal =
      (productRows E sets).map (⟨.tuple (sets.map (·.1)), ·⟩) := by
    rw [productRows, ← payloads_cartesian_sets, List.map_map, List.map_map]
    apply List.map_congr_left
    intro row hrow
    simp [Gocty.tupleVal, tysOf_cartesian_sets E sets row hrow]
  have hcne : productRows E sets ≠ [] := by
    have := cartesian_ne_nil (setIters E sets) (by
      intro l hl
      obtain ⟨x, hx, rfl⟩ := List.mem_map.mp hl
      intro hnil
      have := congrArg List.length hnil
      simp only [length_setIter, List.length_nil] at this
      exact hne x hx (List.eq_nil_of_length_eq_zero this))
    simpa [productRows] using this
  -- no row carries a mark
  have hmr : ∀ row ∈ productRows E sets, row.containsMarked = false := by
    intro row hrow
    obtain ⟨r, hr, rfl⟩ := List.mem_map.mp hrow
    simp only [Payload.containsMarked]
    apply containsMarkedL_of_forall
    intro x hx
    obtain ⟨l, hl, hxl⟩ := mem_cartesian _ r hr x hx
    obtain ⟨s, hs, rfl⟩ := List.mem_map.mp hl
    exact hm s hs x ((mem_sortStable _ _ _).mp hxl)
  rw [hrows, setVal_map E _ (equals_tuple_refl _ (by
    intro t ht
    obtain ⟨l, hl, rfl⟩ := List.mem_map.mp ht
    exact he l hl)) _ hcne hmr hh]
  simp [Res.map, ofSetImpl, withMarkSets, Fn.withMarkSets, Fn.unionAll, unionMarks, Value.withMarks,
    Payload.withMarks, Payload.marks1]

/-! ### what a set built from carrier members holds -/

/-- `NewSetFromSlice` on members of a carrier on which the rules are lawful: the
representation invariant holds, the members are members of the input, a probe of the
carrier is represented iff it is equivalent to an input value, and pairwise
inequivalent inputs are all kept (as many members as inputs) -/
theorem fromList_on_carrier {α : Type} (R : Rules α) (P : α → Prop) (hR : R.LawfulOn P) (l : List α)
    (hl : ∀ x ∈ l, P x) :
    Inv R (fromList R l) ∧ (∀ m ∈ values (fromList R l), m ∈ l) ∧
    (∀ y, P y → (SetImpl.abs R (fromList R l) y ↔ ∃ x ∈ l, R.equiv y x = true)) ∧
    (Inequiv R l → (values (fromList R l)).Perm l ∧ SetImpl.length (fromList R l) = l.length) := by
  let f : {a // P a} → α := Subtype.val
  let R' := R.pull f
  have hR' : R'.Lawful := hR.pull
  let l' := liftL l hl
  have e : fromList R l = mapS f (fromList R' l') := by rw [← fromList_mapS, liftL_val]
  rw [e]
  refine ⟨(inv_mapS R f _).mpr ((invB_fromList hR' _).toInv hR'), ?_, ?_, ?_⟩
  · intro m hm
    rw [values_mapS] at hm
    obtain ⟨m', hm', rfl⟩ := List.mem_map.mp hm
    exact mem_liftL.mp (mem_values_fromList hR' _ _ hm')
  · intro y hy
    have : y = f ⟨y, hy⟩ := rfl
    rw [this, abs_mapS, abs_fromList hR']
    constructor
    · rintro ⟨x, hx, he⟩; exact ⟨x.1, mem_liftL.mp hx, he⟩
    · rintro ⟨x, hx, he⟩; exact ⟨⟨x, hl x hx⟩, mem_liftL.mpr hx, he⟩
  · intro hin
    have hin' : Inequiv R' l' := by
      have h2 : Inequiv R (l'.map f) := by rw [liftL_val]; exact hin
      simp only [Inequiv, List.pairwise_map] at h2
      exact h2
    have hperm := values_fromList_perm hR' hin'
    have hp2 : (values (mapS f (fromList R' l'))).Perm l := by
      rw [values_mapS]
      have := hperm.map f
      rwa [liftL_val] at this
    exact ⟨hp2, by rw [length_eq_values_length]; exact hp2.length_eq⟩

/-! ### the rows of a product are pairwise different -/

/-- two rows of tuples differ (up to `RawEquals`) as soon as they differ in one position -/
theorem rawBZip_cons_false_head (t : Ty) (ts : List Ty) (a b : Payload) (xs ys : List Payload)
    (h : rawB t a b = false) : rawBZip (t :: ts) (a :: xs) (b :: ys) = false := by
  simp [rawBZip, h]

theorem rawBZip_cons_false_tail (t : Ty) (ts : List Ty) (a b : Payload) (xs ys : List Payload)
    (h : rawBZip ts xs ys = false) : rawBZip (t :: ts) (a :: xs) (b :: ys) = false := by
  simp [rawBZip, h]

/-- "different in both directions" — a symmetric relation, so it survives the re-ordering
of the members by the iterator -/
def BothFalse (t : Ty) (a b : Payload) : Prop := rawB t a b = false ∧ rawB t b a = false

def RowsDiffer (ts : List Ty) (r1 r2 : List Payload) : Prop :=
  rawBZip ts r1 r2 = false ∧ rawBZip ts r2 r1 = false

theorem cartesian_pairwise : ∀ (ts : List Ty) (ls : List (List Payload)), ts.length = ls.length →
    (∀ i (h1 : i < ts.length) (h2 : i < ls.length), (ls[i]).Pairwise (BothFalse ts[i])) →
    (Spec.cartesian ls).Pairwise (RowsDiffer ts)
  | [], [], _, _ => by simp [Spec.cartesian]
  | [], _ :: _, h, _ => by simp at h
  | _ :: _, [], h, _ => by simp at h
  | t :: ts, l :: ls, hlen, hp => by
    have ih := cartesian_pairwise ts ls (by simpa using hlen) (by
      intro i h1 h2
      have := hp (i + 1) (by simp; omega) (by simp; omega)
      simpa using this)
    have hl : l.Pairwise (BothFalse t) := by
      have := hp 0 (by simp) (by simp)
      simpa using this
    simp only [Spec.cartesian, List.pairwise_flatMap, List.pairwise_map]
    refine ⟨?_, ?_⟩
    · intro a _
      refine ih.imp ?_
      intro r1 r2 h
      exact ⟨rawBZip_cons_false_tail t ts a a r1 r2 h.1, rawBZip_cons_false_tail t ts a a r2 r1 h.2⟩
    · refine hl.imp ?_
      intro a b hab x hx y hy
      obtain ⟨r1, _, rfl⟩ := List.mem_map.mp hx
      obtain ⟨r2, _, rfl⟩ := List.mem_map.mp hy
      exact ⟨rawBZip_cons_false_head t ts a b r1 r2 hab.1, rawBZip_cons_false_head t ts b a r2 r1 hab.2⟩

theorem bothFalse_perm (t : Ty) {l l' : List Payload} (hp : l.Perm l') (h : l.Pairwise (BothFalse t)) :
    l'.Pairwise (BothFalse t) :=
  (hp.pairwise_iff (fun {a b} hab => ⟨hab.2, hab.1⟩)).mp h

theorem length_cartesian {α} : ∀ (ls : List (List α)),
    (Spec.cartesian ls).length = (ls.map (·.length)).foldr (· * ·) 1
  | [] => by simp [Spec.cartesian]
  | l :: ls => by
    simp only [Spec.cartesian, List.map_cons, List.foldr_cons]
    rw [← length_cartesian ls]
    generalize Spec.cartesian ls = C
    induction l with
    | nil => simp
    | cons a l ih => simp [List.flatMap_cons, ih, Nat.succ_mul, Nat.add_comm]

/-- every row of the product of admitted members is an admitted member of the tuple type -/
theorem rows_member (E : Env) (ns : List Num) : ∀ (sets : List SetArg),
    (∀ s ∈ sets, ∀ p ∈ s.2.2, p.member s.1 ns = true) →
    ∀ row ∈ Spec.cartesian (setIters E sets),
      Payload.shapedZip (sets.map (·.1)) row = true ∧ Payload.whollyKnownL row = true ∧
      Payload.containsMarkedL row = false ∧ Payload.numsInL ns row = true
  | [], _, row, h => by
    simp [setIters, Spec.cartesian] at h; subst h
    simp [Payload.shapedZip, Payload.whollyKnownL, Payload.containsMarkedL, Payload.numsInL]
  | s :: ss, hm, row, h => by
    simp only [setIters, List.map_cons, Spec.cartesian, List.mem_flatMap, List.mem_map] at h
    obtain ⟨a, ha, r, hr, rfl⟩ := h
    have ih := rows_member E ns ss (fun x hx => hm x (by simp [hx])) r (by simpa [setIters] using hr)
    have ham := hm s (by simp) a ((mem_sortStable _ _ _).mp ha)
    obtain ⟨w, k, m, n⟩ := member_parts ham
    simp only [List.map_cons, Payload.shapedZip, Payload.whollyKnownL, Payload.containsMarkedL, Payload.numsInL,
      w, k, m, n, ih.1, ih.2.1, ih.2.2.1, ih.2.2.2, Bool.and_self, Bool.or_self, and_self]

theorem rows_are_members (E : Env) (ns : List Num) (sets : List SetArg)
    (hm : ∀ s ∈ sets, ∀ p ∈ s.2.2, p.member s.1 ns = true) :
    ∀ row ∈ productRows E sets, row.member (.tuple (sets.map (·.1))) ns = true := by
  intro row hrow
  obtain ⟨r, hr, rfl⟩ := List.mem_map.mp hrow
  obtain ⟨h1, h2, h3, h4⟩ := rows_member E ns sets hm r hr
  simp [Payload.member, Payload.shaped, Payload.whollyKnown, Payload.containsMarked, Payload.numsIn, h1, h2, h3, h4]

/-- **`setproduct` of known sets, against the reference**: the result is a set of tuples
of the element types, laid out under the representation invariant, whose members are
rows of the row-major Cartesian product of the arguments' members, in which every row
is represented (up to `RawEquals`); and when the members of every argument are pairwise
different — as the members of a set are — it has exactly as many members as the product
of the arguments' lengths. -/
theorem setProduct_sets_spec (E : Env) (ns : List Num) (sets : List SetArg)
    (hw : (Ty.tuple (sets.map (·.1))).wf = true) (hp : (Ty.tuple (sets.map (·.1))).plain = true)
    (hc : HashCoherentNums ns = true)
    (hne : ∀ s ∈ sets, s.2.2 ≠ []) (he : ∀ s ∈ sets, s.1.equals s.1 = true)
    (hm : ∀ s ∈ sets, ∀ p ∈ s.2.2, p.member s.1 ns = true)
    (hh : ∀ row ∈ productRows E sets, E.hashAgrees (.tuple (sets.map (·.1))) row) :
    ∃ s : SetImpl Payload,
      setProductImpl E (setArgs3 sets) (.set (.tuple (sets.map (·.1)))) = .ok (ofSetImpl (.tuple (sets.map (·.1))) s) ∧
      SetImpl.Inv (setRules E (.tuple (sets.map (·.1)))) s ∧
      (∀ m ∈ SetImpl.values s, m ∈ productRows E sets) ∧
      (∀ row ∈ productRows E sets, Spec.memBy (rawB (.tuple (sets.map (·.1)))) (SetImpl.values s) row) ∧
      ((∀ s ∈ sets, s.2.2.Pairwise (BothFalse s.1)) →
        SetImpl.length s = (sets.map (·.2.2.length)).foldr (· * ·) 1) := by
  have hk : ∀ s ∈ sets, Payload.whollyKnownL s.2.2 = true := fun s hs =>
    d13_whollyKnownL_of_forall _ fun p hp' => (member_parts (hm s hs p hp')).2.1
  have hmk : ∀ s ∈ sets, ∀ p ∈ s.2.2, p.containsMarked = false := fun s hs p hp' =>
    (member_parts (hm s hs p hp')).2.2.1
  have himpl := setProductImpl_sets E sets hne he hk hmk (fun row hr => (hh row hr).isSome)
  have hrm := rows_are_members E ns sets hm
  have hR := setRules_lawfulOn E (.tuple (sets.map (·.1))) ns hw hp hc
  obtain ⟨hinv, hsub, habs, hcard⟩ := fromList_on_carrier _ _ hR (productRows E sets)
    (fun row hr => ⟨hrm row hr, hh row hr⟩)
  refine ⟨_, himpl, hinv, hsub, ?_, ?_⟩
  · intro row hr
    have hc' : Carrier E (.tuple (sets.map (·.1))) ns row := ⟨hrm row hr, hh row hr⟩
    obtain ⟨m, hmv, hme⟩ := (habs row hc').mpr ⟨row, hr, hR.refl row hc'⟩
    exact ⟨m, hmv, by rw [← setRules_equiv_eq E hw hp (hrm row hr) (hrm m (hsub m hmv))]; exact hme⟩
  · intro hpw
    have hin : Inequiv (setRules E (.tuple (sets.map (·.1)))) (productRows E sets) := by
      have hcp := cartesian_pairwise (sets.map (·.1)) (setIters E sets) (by simp [setIters]) (by
        intro i h1 h2
        simp only [setIters, List.getElem_map]
        exact bothFalse_perm _ (sortStable_perm _ _).symm (hpw _ (List.getElem_mem _)))
      simp only [Inequiv, productRows, List.pairwise_map]
      refine List.Pairwise.imp_of_mem ?_ hcp
      intro r1 r2 h1 h2 hd
      rw [setRules_equiv_eq E hw hp (hrm _ (List.mem_map.mpr ⟨r1, h1, rfl⟩)) (hrm _ (List.mem_map.mpr ⟨r2, h2, rfl⟩))]
      simpa [rawB] using hd.1
    rw [(hcard hin).2]
    simp only [productRows, List.length_map, length_cartesian, setIters, List.map_map, Function.comp_def, length_setIter]

theorem setProductTypeLoop_sets (E : Env) (sets : List SetArg) :
    setProductTypeLoop E (setArgs3 sets) = .ok (sets.map (·.1), 0) := by
  induction sets with
  | nil => rfl
  | cons s ss ih =>
    simp only [setArgs3, List.map_cons, setProductTypeLoop]
    simp only [setArgs3] at ih
    rw [ih]

/-- result type: a SET of tuples of the element types, for two or more sets -/
theorem setProductType_sets (E : Env) (sets : List SetArg) (h2 : 2 ≤ sets.length) :
    setProductType E (setArgs3 sets) = .ok (.set (.tuple (sets.map (·.1)))) := by
  have hl : (setArgs3 sets).length = sets.length := by simp [setArgs3]
  have : ¬ (setArgs3 sets).length < 2 := by omega
  have hne : ((0 : Nat) == sets.length) = false := by
    cases h : sets.length with
    | zero => omega
    | succ n => rfl
  simp [setProductType, setProductTypeLoop_sets, hl, hne]
  omega

end Stdlib
end CtyModel
