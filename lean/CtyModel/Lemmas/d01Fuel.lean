/-
C01, the `.unmodelled` outcome of the `Equals` model (audit C01 item 5).  `Sound₁ /
Sound₂` say nothing when the concrete call is `.unmodelled`; the model produces that
outcome in two places only: capsule equality (a callback of the application — a
parameter, DESIGN §6 C01 "¬") and fuel exhaustion of `equalsFuel`.  This file proves
that the second never happens: the fuel `equalsP` picks (nesting depth + 1) is
enough for EVERY pair of types and payloads, so `Value.equals a b = .unmodelled`
only if a capsule payload occurs in `a` or `b`.
-/
import CtyModel.Lemmas.OpsEquals
namespace CtyModel
open Value

mutual
/-- no capsule payload anywhere inside -/
def Payload.noCaps : Payload → Bool
  | .caps => false
  | .marked _ r => r.noCaps
  | .seq vs | .smap _ vs | .sset _ vs => Payload.noCapsL vs
  | _ => true
def Payload.noCapsL : List Payload → Bool
  | [] => true
  | v :: vs => v.noCaps && Payload.noCapsL vs
end

theorem range_ne_unmodelled (v : Value) : v.range ≠ .unmodelled := by
  unfold Value.range
  repeat' split
  all_goals simp

theorem includes_ne_unmodelled (r : VRange) (v : Value) : includes r v ≠ .unmodelled := by
  unfold includes
  repeat' split
  all_goals simp

theorem incFalse_ne_unmodelled {r : Res (Option Bool)} (h : r ≠ .unmodelled) : incFalse r ≠ .unmodelled := by
  unfold incFalse
  split <;> simp_all

theorem equalsPre_ne_unmodelled (a b : Value) : equalsPre a b ≠ .unmodelled := by
  rw [equalsPre_eq]
  unfold equalsPre'
  have ha := range_ne_unmodelled a
  have hb := range_ne_unmodelled b
  repeat' split
  all_goals first
    | (simp; done)
    | (intro _; exact incFalse_ne_unmodelled (includes_ne_unmodelled _ _) ‹incFalse _ = Res.unmodelled›)
    | (intro _; simp_all; done)
    | (simp_all; done)

/-- the recursive call does not run out of fuel on members of depth ≤ `d` without capsules -/
def RecFuelOK (rec : EqRec) (d : Nat) : Prop :=
  ∀ (t1 : Ty) (x : Payload) (t2 : Ty) (y : Payload), x.depth ≤ d → y.depth ≤ d → x.noCaps = true → y.noCaps = true →
    rec t1 x t2 y ≠ .unmodelled

theorem eqAccOf_ne_unmodelled {r : Res Value} (h : r ≠ .unmodelled) : eqAccOf r ≠ .unmodelled := by
  cases r <;> simp_all [eqAccOf] <;> (repeat' split) <;> simp

theorem equalsZip_fuel {rec : EqRec} {d : Nat} (hr : RecFuelOK rec d) :
    ∀ (ts : List Ty) (xs ys : List Payload), Payload.depthL xs ≤ d → Payload.depthL ys ≤ d →
    Payload.noCapsL xs = true → Payload.noCapsL ys = true → equalsZip rec ts xs ys ≠ .unmodelled
  | [], _, _, _, _, _, _ => by simp [equalsZip]
  | _ :: _, [], _, _, _, _, _ => by simp [equalsZip]
  | _ :: _, _ :: _, [], _, _, _, _ => by simp [equalsZip]
  | t :: ts, x :: xs, y :: ys, dx, dy, cx, cy => by
    simp only [Payload.depthL] at dx dy
    simp only [Payload.noCapsL, Bool.and_eq_true] at cx cy
    have h1 := eqAccOf_ne_unmodelled (hr t x t y (by omega) (by omega) cx.1 cy.1)
    have h2 := equalsZip_fuel hr ts xs ys (by omega) (by omega) cx.2 cy.2
    simp only [equalsZip]
    split
    · exact h2
    · rename_i r hne; intro h; rw [h] at hne; simp_all

theorem equalsAll_fuel {rec : EqRec} {d : Nat} (hr : RecFuelOK rec d) (e : Ty) :
    ∀ (xs ys : List Payload), Payload.depthL xs ≤ d → Payload.depthL ys ≤ d →
    Payload.noCapsL xs = true → Payload.noCapsL ys = true → equalsAll rec e xs ys ≠ .unmodelled
  | [], _, _, _, _, _ => by simp [equalsAll]
  | _ :: _, [], _, _, _, _ => by simp [equalsAll]
  | x :: xs, y :: ys, dx, dy, cx, cy => by
    simp only [Payload.depthL] at dx dy
    simp only [Payload.noCapsL, Bool.and_eq_true] at cx cy
    have h1 := eqAccOf_ne_unmodelled (hr e x e y (by omega) (by omega) cx.1 cy.1)
    have h2 := equalsAll_fuel hr e xs ys (by omega) (by omega) cx.2 cy.2
    simp only [equalsAll]
    split
    · exact h2
    · rename_i r hne; intro h; rw [h] at hne; simp_all

theorem equalsObj_fuel {rec : EqRec} {d : Nat} (hr : RecFuelOK rec d) :
    ∀ (ts : List Ty) (xs ys : List Payload) (s : Bool), Payload.depthL xs ≤ d → Payload.depthL ys ≤ d →
    Payload.noCapsL xs = true → Payload.noCapsL ys = true → equalsObj rec ts xs ys s ≠ .unmodelled
  | [], xs, ys, s, _, _, _, _ => by cases xs <;> cases ys <;> simp [equalsObj]
  | _ :: _, [], _, _, _, _, _, _ => by simp [equalsObj]
  | _ :: _, _ :: _, [], _, _, _, _, _ => by simp [equalsObj]
  | t :: ts, x :: xs, y :: ys, s, dx, dy, cx, cy => by
    simp only [Payload.depthL] at dx dy
    simp only [Payload.noCapsL, Bool.and_eq_true] at cx cy
    have h1 := eqAccOf_ne_unmodelled (hr t x t y (by omega) (by omega) cx.1 cy.1)
    simp only [equalsObj]
    split
    · exact equalsObj_fuel hr ts xs ys s (by omega) (by omega) cx.2 cy.2
    · exact equalsObj_fuel hr ts xs ys true (by omega) (by omega) cx.2 cy.2
    · rename_i r hne1 hne2; intro h; rw [h] at hne1; simp_all

theorem lookup_noCaps {k : String} : ∀ {ks : List String} {vs : List Payload} {p : Payload},
    Payload.noCapsL vs = true → lookupKey k ks vs = some p → p.noCaps = true ∧ p.depth ≤ Payload.depthL vs
  | [], vs, p, _, h => by cases vs <;> simp [lookupKey] at h
  | _ :: _, [], p, _, h => by simp [lookupKey] at h
  | n :: ns, v :: vs, p, hc, h => by
    simp only [Payload.noCapsL, Bool.and_eq_true] at hc
    simp only [lookupKey] at h
    simp only [Payload.depthL]
    split at h
    · cases h; exact ⟨hc.1, by omega⟩
    · have := lookup_noCaps hc.2 h; exact ⟨this.1, by omega⟩

theorem equalsMap_fuel {rec : EqRec} {d : Nat} (hr : RecFuelOK rec d) (e : Ty) (ky : List String) (ys : List Payload)
    (dy : Payload.depthL ys ≤ d) (cy : Payload.noCapsL ys = true) :
    ∀ (kx : List String) (xs : List Payload) (s : Bool), Payload.depthL xs ≤ d → Payload.noCapsL xs = true →
    equalsMap rec e kx xs ky ys s ≠ .unmodelled
  | [], xs, s, _, _ => by cases xs <;> simp [equalsMap]
  | _ :: _, [], s, _, _ => by simp [equalsMap]
  | k :: kx, x :: xs, s, dx, cx => by
    simp only [Payload.depthL] at dx
    simp only [Payload.noCapsL, Bool.and_eq_true] at cx
    simp only [equalsMap]
    cases hl : lookupKey k ky ys with
    | none => simp
    | some y =>
      obtain ⟨c, dd⟩ := lookup_noCaps cy hl
      have h1 := eqAccOf_ne_unmodelled (hr e x e y (by omega) (by omega) cx.1 c)
      simp only
      split
      · exact equalsMap_fuel hr e ky ys dy cy kx xs s (by omega) cx.2
      · exact equalsMap_fuel hr e ky ys dy cy kx xs true (by omega) cx.2
      · rename_i r hne1 hne2; intro h; rw [h] at hne1; simp_all

theorem setHas_fuel {rec : EqRec} {d : Nat} (hr : RecFuelOK rec d) (e : Ty) (i : Int) (x : Payload) (dx : x.depth ≤ d)
    (cx : x.noCaps = true) : ∀ (js : List Int) (ys : List Payload), Payload.depthL ys ≤ d → Payload.noCapsL ys = true →
    setHas rec e i x js ys ≠ .unmodelled
  | [], _, _, _ => by simp [setHas]
  | _ :: _, [], _, _ => by simp [setHas]
  | j :: js, y :: ys, dy, cy => by
    simp only [Payload.depthL] at dy
    simp only [Payload.noCapsL, Bool.and_eq_true] at cy
    have h1 := hr e x e y dx (by omega) cx cy.1
    have h2 := setHas_fuel hr e i x dx cx js ys (by omega) cy.2
    simp only [setHas]
    split
    · cases hrr : rec e x e y <;> simp_all
      split <;> simp_all
    · exact h2

theorem setInclWK_fuel {rec : EqRec} {d : Nat} (hr : RecFuelOK rec d) (e : Ty) (iy : List Int) (ys : List Payload)
    (dy : Payload.depthL ys ≤ d) (cy : Payload.noCapsL ys = true) :
    ∀ (ix : List Int) (xs : List Payload), Payload.depthL xs ≤ d → Payload.noCapsL xs = true →
    setInclWK rec e ix xs iy ys ≠ .unmodelled
  | [], _, _, _ => by simp [setInclWK]
  | _ :: _, [], _, _ => by simp [setInclWK]
  | i :: ix, x :: xs, dx, cx => by
    simp only [Payload.depthL] at dx
    simp only [Payload.noCapsL, Bool.and_eq_true] at cx
    have h1 := setHas_fuel hr e i x (by omega) cx.1 iy ys dy cy
    have h2 := setInclWK_fuel hr e iy ys dy cy ix xs (by omega) cx.2
    simp only [setInclWK]
    split
    · simp
    · cases hs : setHas rec e i x iy ys <;> simp_all
      split <;> simp_all

theorem map_ne_unmodelled {α β} {f : α → β} {r : Res α} (h : r ≠ .unmodelled) : r.map f ≠ .unmodelled := by
  cases r <;> simp_all [Res.map]

/-- `equalsFuel n` never runs out of fuel on payloads of depth ≤ `n` that hold no capsule -/
theorem equalsFuel_fuelOK : ∀ n, RecFuelOK (equalsFuel n) n
  | 0 => fun _ x _ _ h _ _ _ => by have := depth_pos x; omega
  | n + 1 => by
    intro t1 x t2 y dx dy cx cy
    have ih := equalsFuel_fuelOK n
    unfold equalsFuel
    have hpre := equalsPre_ne_unmodelled ⟨t1, x⟩ ⟨t2, y⟩
    cases hp : equalsPre ⟨t1, x⟩ ⟨t2, y⟩ with
    | unmodelled => exact absurd hp hpre
    | err c => simp
    | panic w => simp
    | ok o =>
      cases o with
      | some r => simp
      | none =>
        simp only
        split
        · split <;> simp
        · split
          · simp
          · split
            all_goals first
              | (simp; done)
              | (simp only [Payload.noCaps] at cx; cases cx)
              | (simp only [Payload.depth, Payload.noCaps] at dx dy cx cy
                 first
                   | exact map_ne_unmodelled (equalsObj_fuel ih _ _ _ _ (by omega) (by omega) cx cy)
                   | exact map_ne_unmodelled (equalsZip_fuel ih _ _ _ (by omega) (by omega) cx cy)
                   | (split
                      · exact map_ne_unmodelled (equalsAll_fuel ih _ _ _ (by omega) (by omega) cx cy)
                      · simp)
                   | (split
                      · exact map_ne_unmodelled (equalsMap_fuel ih _ _ _ (by omega) cy _ _ _ (by omega) cx)
                      · simp)
                   | (split
                      · simp
                      · split
                        · simp
                        · simp
                        · simp
                        · simp
                        · exact absurd ‹setInclWK _ _ _ _ _ _ = Res.unmodelled›
                            (setInclWK_fuel ih _ _ _ (by omega) cx _ _ (by omega) cy)
                      · simp
                      · simp
                      · exact absurd ‹setInclWK _ _ _ _ _ _ = Res.unmodelled›
                          (setInclWK_fuel ih _ _ _ (by omega) cy _ _ (by omega) cx)))

mutual
theorem noCaps_stripMarks : ∀ p : Payload, p.stripMarks.noCaps = p.noCaps
  | .marked _ r => by simp only [Payload.stripMarks, Payload.noCaps]; exact noCaps_stripMarks r
  | .seq vs => by simp only [Payload.stripMarks, Payload.noCaps]; exact noCapsL_stripMarksL vs
  | .smap _ vs => by simp only [Payload.stripMarks, Payload.noCaps]; exact noCapsL_stripMarksL vs
  | .sset _ vs => by simp only [Payload.stripMarks, Payload.noCaps]; exact noCapsL_stripMarksL vs
  | .null | .unk _ | .b _ | .n _ | .s _ | .caps | .bad _ => by simp [Payload.stripMarks]
theorem noCapsL_stripMarksL : ∀ vs : List Payload, Payload.noCapsL (Payload.stripMarksL vs) = Payload.noCapsL vs
  | [] => by simp [Payload.stripMarksL]
  | v :: vs => by simp [Payload.stripMarksL, Payload.noCapsL, noCaps_stripMarks v, noCapsL_stripMarksL vs]
end

theorem equalsP_ne_unmodelled (ta : Ty) (a : Payload) (tb : Ty) (b : Payload) (ha : a.noCaps = true) (hb : b.noCaps = true) :
    equalsP ta a tb b ≠ .unmodelled := by
  unfold equalsP
  exact equalsFuel_fuelOK _ ta a tb b (by omega) (by omega) ha hb

/-- `Value.equals` is `.unmodelled` only when a capsule is compared -/
theorem equals_ne_unmodelled (a b : Value) (ha : a.v.noCaps = true) (hb : b.v.noCaps = true) :
    Value.equals a b ≠ .unmodelled := by
  obtain ⟨ms, h | h⟩ := equals_strip a b <;> rw [h]
  · exact map_ne_unmodelled (equalsP_ne_unmodelled _ _ _ _ (by rw [noCaps_stripMarks]; exact ha) (by rw [noCaps_stripMarks]; exact hb))
  · exact equalsP_ne_unmodelled _ _ _ _ (by rw [noCaps_stripMarks]; exact ha) (by rw [noCaps_stripMarks]; exact hb)

end CtyModel
