/-
C20 — `Set.Add` in a loop, `Set.Remove`, `Set.Copy`, element iteration and walk
maintain the heap invariant, and hand out only words that are library-owned throughout.
-/
import CtyModel.Lemmas.HeapInv2
namespace CtyModel
namespace Heap

theorem good_setAddAll {m0 : Mem} {eq : Equiv} {a : Addr} :
    ∀ (xs : List Word) (hs : List Int) (m m' : Mem) (kvs : List (Key × Word)), Good m0 m →
      m[a]? = some ⟨.helper, .gomap kvs⟩ → (∀ x ∈ xs, FrozenAll m x) →
      setAddAll eq m a xs hs = some m' →
      Good2 m0 m m' ∧ ∃ kvs', m'[a]? = some ⟨.helper, .gomap kvs'⟩ := by
  intro xs
  induction xs with
  | nil =>
    intro hs m m' kvs h hm _ he
    cases hs with
    | nil => simp [setAddAll] at he; subst he; exact ⟨Good2.refl h, kvs, hm⟩
    | cons _ _ => simp [setAddAll] at he
  | cons x xs ih =>
    intro hs m m' kvs h hm hx he
    cases hs with
    | nil => simp [setAddAll] at he
    | cons hh hs =>
      simp only [setAddAll] at he
      cases ha : setAdd eq m a x hh with
      | none => simp [ha] at he
      | some m1 =>
        simp only [ha] at he
        obtain ⟨h1, kvs1, hm1⟩ := good_setAdd h hm (hx x List.mem_cons_self) ha
        obtain ⟨h2, r⟩ := ih hs m1 m' kvs1 h1.good hm1
          (fun y hy => frozenAll_stable h1.pres (hx y (List.mem_cons_of_mem _ hy))) he
        exact ⟨h1.trans h2, r⟩

theorem good_setRemove {m0 m m' : Mem} (h : Good m0 m) {eq : Equiv} {a : Addr} {kvs : List (Key × Word)}
    {x : Word} {hh : Int} (hm : m[a]? = some ⟨.helper, .gomap kvs⟩)
    (he : setRemove eq m a x hh = some m') :
    Good2 m0 m m' ∧ ∃ kvs', m'[a]? = some ⟨.helper, .gomap kvs'⟩ := by
  unfold setRemove at he
  simp only [kvsOf_eq hm] at he
  have hbk : BucketsOf m a kvs := bucketsOf_of_ok h.ok hm rfl
  split at he
  · cases he; exact ⟨Good2.refl h, kvs, hm⟩
  · rename_i b hl
    cases hse : sliceElems m b with
    | none => simp [hse] at he
    | some elems =>
      simp only [hse] at he
      have hel := elems_frozen h.ok hse
      split at he
      · cases he; exact ⟨Good2.refl h, kvs, hm⟩
      · rename_i i _
        split at he
        · cases he
          have hb' : BucketsOf m a (kvDelete (.i hh) kvs) := fun kv hkv => hbk kv (mem_kvDelete hkv)
          exact ⟨good2_setBuckets h hm hb', _, setBody_get_self' _ hm⟩
        · cases he
          have hA := good2_alloc h (o := .bucket a) (b := .array (elems.take i ++ elems.drop (i + 1)))
            (by
              intro c hc
              rcases List.mem_append.mp hc with hc | hc
              · exact hel c (List.mem_of_mem_take hc)
              · exact hel c (List.mem_of_mem_drop hc))
          have hmA : (alloc m (.bucket a) (.array (elems.take i ++ elems.drop (i + 1)))).1[a]? =
              some ⟨.helper, .gomap kvs⟩ := by rw [alloc_get_old _ _ (get_lt hm), hm]
          refine ⟨hA.trans (good2_setBuckets hA.good hmA ?_), _, setBody_get_self' _ hmA⟩
          intro kv hkv
          rcases mem_kvInsert hkv with e | e
          · subst e; exact ⟨m.length, 0, _, _, _, rfl, alloc_get_new _ _ _⟩
          · exact bucketsOf_mono hA.mono hbk kv e

theorem good_copyBuckets {m0 : Mem} {a' : Addr} :
    ∀ (l : List (Key × Word)) (m m' : Mem) (kvs' : List (Key × Word)), Good m0 m →
      m[a']? = some ⟨.helper, .gomap kvs'⟩ → copyBuckets m a' l = some m' →
      Good2 m0 m m' ∧ ∃ kvs'', m'[a']? = some ⟨.helper, .gomap kvs''⟩ := by
  intro l
  induction l with
  | nil => intro m m' kvs' h hm he; simp [copyBuckets] at he; subst he; exact ⟨Good2.refl h, kvs', hm⟩
  | cons kv r ih =>
    intro m m' kvs' h hm he
    rcases kv with ⟨k, b⟩
    simp only [copyBuckets, kvsOf_eq hm] at he
    cases hse : sliceElems m b with
    | none => simp [hse] at he
    | some elems =>
      simp only [hse] at he
      have hA := good2_alloc h (o := .bucket a') (b := .array elems) (elems_frozen h.ok hse)
      have hmA : (alloc m (.bucket a') (.array elems)).1[a']? = some ⟨.helper, .gomap kvs'⟩ := by
        rw [alloc_get_old _ _ (get_lt hm), hm]
      have hbk : BucketsOf m a' kvs' := bucketsOf_of_ok h.ok hm rfl
      have hS := good2_setBuckets hA.good hmA
        (kvs' := kvInsert k (.slice m.length 0 elems.length elems.length) kvs') (by
          intro kv hkv
          rcases mem_kvInsert hkv with e | e
          · subst e; exact ⟨m.length, 0, _, _, _, rfl, alloc_get_new _ _ _⟩
          · exact bucketsOf_mono hA.mono hbk kv e)
      obtain ⟨h3, r3⟩ := ih _ m' _ hS.good (setBody_get_self' _ hmA) he
      exact ⟨(hA.trans hS).trans h3, r3⟩

theorem good_setCopy {m0 m m' : Mem} (h : Good m0 m) {a a' : Addr}
    (he : setCopy m .helper a = some (m', a')) :
    Good2 m0 m m' ∧ a' = m.length ∧ ∃ kvs', m'[a']? = some ⟨.helper, .gomap kvs'⟩ := by
  unfold setCopy at he
  cases hk : kvsOf m a with
  | none => simp [hk] at he
  | some kvs =>
    simp only [hk, setNew, Option.map_eq_some_iff] at he
    obtain ⟨m2, hc, e⟩ := he
    cases e
    have hA := good2_alloc h (o := .helper) (b := .gomap []) (by simp [NewBodyOK, isSetOwner])
    obtain ⟨h2, r⟩ := good_copyBuckets kvs _ _ [] hA.good (alloc_get_new _ _ _) hc
    exact ⟨hA.trans h2, rfl, r⟩

theorem good_allocIdxKeys {m0 : Mem} : ∀ (n i : Nat) (m : Mem), Good m0 m →
    Good2 m0 m (allocIdxKeys m i n).1 ∧ ∀ k ∈ (allocIdxKeys m i n).2, FrozenAll (allocIdxKeys m i n).1 k := by
  intro n
  induction n with
  | zero => intro i m h; exact ⟨Good2.refl h, fun k hk => by cases hk⟩
  | succ n ih =>
    intro i m h
    simp only [allocIdxKeys]
    have hA := good2_alloc h (o := .lib) (b := .bigfloat i) trivial
    obtain ⟨h2, hk⟩ := ih (i + 1) _ hA.good
    refine ⟨hA.trans h2, fun k hkm => ?_⟩
    rcases List.mem_cons.mp hkm with e | e
    · subst e
      refine frozenAll_stable h2.pres (frozenAll_pair.mpr ⟨frozenAll_tprim, ?_⟩)
      exact frozenAll_num (v := i) (alloc_get_new _ _ _)
    · exact hk k e

theorem mem_zipPairs : ∀ (ts vs : List Word) (w : Word), w ∈ zipPairs ts vs →
    ∃ t v, w = .pair t v ∧ t ∈ ts ∧ v ∈ vs := by
  intro ts
  induction ts with
  | nil => intro vs w h; simp [zipPairs] at h
  | cons t ts ih =>
    intro vs w h
    cases vs with
    | nil => simp [zipPairs] at h
    | cons v vs =>
      simp only [zipPairs] at h
      rcases List.mem_cons.mp h with e | e
      · exact ⟨t, v, e, List.mem_cons_self, List.mem_cons_self⟩
      · obtain ⟨t', v', e1, ht, hv⟩ := ih vs w e
        exact ⟨t', v', e1, List.mem_cons_of_mem _ ht, List.mem_cons_of_mem _ hv⟩

theorem setMembers_frozen {m : Mem} (hok : HeapOK m) {a : Addr} {xs : List Word}
    (h : setMembers m a = some xs) : ∀ x ∈ xs, FrozenAll m x := by
  unfold setMembers at h
  cases hk : kvsOf m a with
  | none => simp [hk] at h
  | some kvs =>
    simp only [hk, Option.map_eq_some_iff] at h
    obtain ⟨ls, hls, e⟩ := h
    subst e
    intro x hx
    obtain ⟨l, hl, hxl⟩ := List.mem_flatten.mp hx
    -- every list in `ls` is the elements of some bucket
    have : ∀ (kvs : List (Key × Word)) (ls : List (List Word)),
        kvs.mapM (fun kv => sliceElems m kv.2) = some ls → ∀ l ∈ ls, ∃ kv ∈ kvs, sliceElems m kv.2 = some l := by
      intro kvs
      induction kvs with
      | nil => intro ls h l hl; simp at h; subst h; cases hl
      | cons kv r ih =>
        intro ls h l hl
        simp only [List.mapM_cons, Option.bind_eq_bind, Option.bind_eq_some_iff, Option.pure_def,
          Option.some.injEq] at h
        obtain ⟨l0, hl0, ls0, hls0, e⟩ := h
        subst e
        rcases List.mem_cons.mp hl with e | e
        · subst e; exact ⟨kv, List.mem_cons_self, hl0⟩
        · obtain ⟨kv', hkv', h'⟩ := ih ls0 hls0 l e
          exact ⟨kv', List.mem_cons_of_mem _ hkv', h'⟩
    obtain ⟨kv, _, hse⟩ := this kvs ls hls l hl
    exact elems_frozen hok hse x hxl

theorem applyPerm_mem {xs ys : List Word} {perm : List Nat} (h : applyPerm xs perm = some ys) :
    ∀ y ∈ ys, y ∈ xs := by
  unfold applyPerm at h
  split at h
  · have : ∀ (perm : List Nat) (ys : List Word), perm.mapM (fun i => xs[i]?) = some ys → ∀ y ∈ ys, y ∈ xs := by
      intro perm
      induction perm with
      | nil => intro ys h y hy; simp at h; subst h; cases hy
      | cons i r ih =>
        intro ys h y hy
        simp only [List.mapM_cons, Option.bind_eq_bind, Option.bind_eq_some_iff, Option.pure_def,
          Option.some.injEq] at h
        obtain ⟨y0, hy0, ys0, hys0, e⟩ := h
        subst e
        rcases List.mem_cons.mp hy with e | e
        · subst e; exact List.mem_of_getElem? hy0
        · exact ih ys0 hys0 y e
    exact this perm ys h
  · simp at h

/-- what `ElementIterator` hands out are values whose storage is library-owned -/
theorem good_iterElems {m0 m m' : Mem} (h : Good m0 m) {t v : Word} {perm : List Nat}
    {kes : List (Word × Word)} (ht : FrozenAll m t) (hv : FrozenAll m v)
    (he : iterElems m t v perm = some (m', kes)) :
    Good2 m0 m m' ∧ ∀ ke ∈ kes, FrozenAll m' ke.1 ∧ FrozenAll m' ke.2 := by
  have listCase : ∀ (e : Word), FrozenAll m e → ∀ xs, sliceElems m v = some xs →
      (m', kes) = ((allocIdxKeys m 0 xs.length).1, (allocIdxKeys m 0 xs.length).2.zip (xs.map (Word.pair e))) →
      Good2 m0 m m' ∧ ∀ ke ∈ kes, FrozenAll m' ke.1 ∧ FrozenAll m' ke.2 := by
    intro e he' xs hxs heq
    cases heq
    obtain ⟨h2, hk⟩ := good_allocIdxKeys xs.length 0 m h
    refine ⟨h2, fun ke hke => ?_⟩
    have hz := List.of_mem_zip hke
    refine ⟨hk _ hz.1, ?_⟩
    obtain ⟨x, hx, e2⟩ := List.mem_map.mp hz.2
    rw [← e2]
    exact frozenAll_stable h2.pres (frozenAll_pair.mpr ⟨he', elems_frozen h.ok hxs x hx⟩)
  unfold iterElems at he
  split at he
  · simp only [Option.map_eq_some_iff] at he
    obtain ⟨xs, hxs, e⟩ := he
    exact listCase _ (frozenAll_unwrap (.inl ht)) xs hxs e.symm
  · simp only [Option.map_eq_some_iff] at he
    obtain ⟨xs, hxs, e⟩ := he
    exact listCase _ (frozenAll_unwrap (.inl ht)) xs hxs e.symm
  · rename_i ts
    split at he
    · rename_i xs tys hxs htys
      cases he
      obtain ⟨h2, hk⟩ := good_allocIdxKeys xs.length 0 m h
      refine ⟨h2, fun ke hke => ?_⟩
      have hz := List.of_mem_zip hke
      refine ⟨hk _ hz.1, ?_⟩
      obtain ⟨ty, x, e2, hty, hx⟩ := mem_zipPairs _ _ _ hz.2
      rw [e2]
      exact frozenAll_stable h2.pres
        (frozenAll_pair.mpr ⟨elems_frozen h.ok htys ty hty, elems_frozen h.ok hxs x hx⟩)
    · simp at he
  · rename_i e a
    simp only [Option.map_eq_some_iff] at he
    obtain ⟨kvs, hk, e2⟩ := he
    cases e2
    obtain ⟨kvs', hm', hfz⟩ := frozenAll_map_kvs hv
    rw [kvsOf_eq hm'] at hk; cases hk
    refine ⟨Good2.refl h, fun ke hke => ?_⟩
    obtain ⟨kv, hkv, hq⟩ := List.mem_filterMap.mp hke
    split at hq
    · cases hq
      exact ⟨frozenAll_pair.mpr ⟨frozenAll_tprim, frozenAll_str⟩,
        frozenAll_pair.mpr ⟨frozenAll_unwrap (.inr (.inr (.inl ht))), hfz kv hkv⟩⟩
    · simp at hq
  · rename_i ta a
    split at he
    · rename_i kvs tkvs hk htk
      cases he
      obtain ⟨kvs', hm', hfz⟩ := frozenAll_map_kvs hv
      rw [kvsOf_eq hm'] at hk; cases hk
      have hta : FrozenAll m (.map ta) := frozenAll_unwrap (.inr (.inr (.inr (.inr ht))))
      obtain ⟨tkvs', hmt, hft⟩ := frozenAll_map_kvs hta
      rw [kvsOf_eq hmt] at htk; cases htk
      refine ⟨Good2.refl h, fun ke hke => ?_⟩
      obtain ⟨tkv, htkv, hq⟩ := List.mem_filterMap.mp hke
      split at hq
      · cases hq
        refine ⟨frozenAll_pair.mpr ⟨frozenAll_tprim, frozenAll_str⟩, frozenAll_pair.mpr ⟨hft tkv htkv, ?_⟩⟩
        cases hl : kvLookup tkv.1 kvs with
        | none => exact frozenAll_null
        | some w => exact hfz _ (mem_of_kvLookup hl)
      · simp at hq
    · simp at he
  · rename_i e a
    cases hs : setMembers m a with
    | none => simp [hs] at he
    | some xs =>
      simp only [hs, Option.map_eq_some_iff] at he
      obtain ⟨ys, hys, e2⟩ := he
      cases e2
      refine ⟨Good2.refl h, fun ke hke => ?_⟩
      obtain ⟨y, hy, e3⟩ := List.mem_map.mp hke
      subst e3
      have hfy := setMembers_frozen h.ok hs y (applyPerm_mem hys y hy)
      have hfe : FrozenAll m e := frozenAll_unwrap (.inr (.inl ht))
      exact ⟨frozenAll_pair.mpr ⟨hfe, hfy⟩, frozenAll_pair.mpr ⟨hfe, hfy⟩⟩
  · simp at he

end Heap
end CtyModel
